(** * Linearizability of the updates of the concurrent skip list model, for EVERY schedule.

    Abstraction: the keys of the UNMARKED nodes of the level-0 chain (the chain is kept as a ghost list [aL], like the
    list [L] of Proofs/MichaelListInv.v).  Linearization points: the level-0 link CAS of insert_at_position
    (insert -> true) and the level-0 mark CAS of try_remove_at (erase -> true).  Operations that do not modify the set
    (contains, failed insert, failed erase) are deleted from the history ([upd_hist]), as in C13's
    mlist_updates_linearizable.  Programs of insert / erase / contains (extract_min / extract_max are covered by the
    order invariant of SkipListProofs.v, not by this file).

    Ghost state: [apub] the nodes that were linked at level 0 at some time; per thread: the published nodes it knows,
    the frozen (marked) level-0 cells it has seen, its not-yet-linked node with the value of its level-0 cell, its next
    serial number, and the status of its operation in the LP-annotated trace [aatr]. *)
From Coq Require Import ZArith List String Bool Lia PeanoNat.
From LV Require Import Base.Conc Base.Events Base.Lin Spec.Specs Proofs.LinProofs.
From LV Require Import Model.SkipList Proofs.SkipListProofs.
From LV Require Proofs.MichaelListInv Proofs.MichaelListLin.
Import ListNotations.
Local Open Scope Z_scope.

Module MI := MichaelListInv.
Module ML := MichaelListLin.

(** ** the update history of a trace *)
Definition sp_op (code k : Z) : set_op :=
  if code =? 1 then SInsert k else if code =? 6 then SErase k else SContains k.

Definition hstep (out : history SetSpec) (te : nat * ev) : history SetSpec :=
  match te with
  | (t, EvCli name args) =>
      if String.eqb name "inv"%string then
        match args with
        | [c; k] => out ++ [@HInv SetSpec t (sp_op c k)]
        | _ => out
        end
      else if String.eqb name "res"%string then
        match args, MI.last_inv_op t out None with
        | [a; b], Some o =>
            let r := RBool (a =? 1) in
            if MI.is_read o r then MI.rm_last (MI.is_hinv t) out else out ++ [@HRes SetSpec t r]
        | _, _ => out
        end
      else out
  | (_, EvAcc _ _ _) => out
  end.

(** invoke / response history from which every completed operation that did not modify the set has been deleted;
    the pre-filled keys are inserted by thread 90 before *)
Definition upd_hist (nodes : list (nat * nat)) (tr : list (nat * ev)) : history SetSpec :=
  fold_left hstep tr (prefill_history nodes).

(** ** ghost state *)
Record lview := mkLV {
  vkn : list ptr;                       (* published nodes this thread has seen *)
  vfz : list (ptr * ptr);               (* (c, nx): the level-0 cell of c was seen marked with pointer nx *)
  vown : option (ptr * mptr);           (* my node not linked yet, value of its level-0 cell *)
  vser : nat;                           (* serial number of my next node *)
  vst : status SetSpec
}.

Record aux := mkAux { apub : ptr -> bool; aL : list ptr; aviews : nat -> lview; aatr : list (aev SetSpec) }.
Definition view (a : aux) (t : nat) : lview := aviews a t.

Definition mk_a (a : aux) (t : nat) (pub' : ptr -> bool) (L' : list ptr) (lv' : lview) (atr' : list (aev SetSpec)) : aux :=
  mkAux pub' L' (fun u => if Nat.eqb u t then lv' else aviews a u) atr'.

Lemma view_mk_same a t pub' L' lv' atr' : view (mk_a a t pub' L' lv' atr') t = lv'.
Proof. unfold view, mk_a; cbn. now rewrite Nat.eqb_refl. Qed.
Lemma view_mk_other a t pub' L' lv' atr' u : u <> t -> view (mk_a a t pub' L' lv' atr') u = view a u.
Proof. unfold view, mk_a; cbn. intros H. destruct (Nat.eqb_spec u t); congruence. Qed.
Lemma frame_mk a t pub' L' lv' atr' : Conc.frame view t a (mk_a a t pub' L' lv' atr').
Proof. intros u H. now apply view_mk_other. Qed.

(** the level-0 chain from [p] is exactly [L] (marks are ignored: logically deleted nodes stay until unlinked) *)
Fixpoint walk (g : G) (p : ptr) (L : list ptr) : Prop :=
  match L with
  | [] => fst (nxt g p 0) = null
  | n :: r => fst (nxt g p 0) = n /\ n <> null /\ walk g n r
  end.

Definition abs (g : G) (L : list ptr) (S : list Z) : Prop :=
  forall k, zmem k S = true <-> exists n, In n L /\ snd (nxt g n 0) = false /\ key_of n = k.

Definition own_ok (g : G) (pub : ptr -> bool) (t : nat) (o : option (ptr * mptr)) : Prop :=
  match o with
  | None => True
  | Some (n, v) => isnode n /\ pub n = false /\ owner_of n = t /\ nxt g n 0 = v
  end.

Definition fresh_ok (pub : ptr -> bool) (t : nat) (lv : lview) : Prop :=
  forall n, isnode n -> owner_of n = t -> (vser lv <= ser_of n)%nat -> pub n = false /\ (forall v, vown lv <> Some (n, v)).

Definition lv_ok (g : G) (pub : ptr -> bool) (t : nat) (lv : lview) : Prop :=
  Forall (fun n => pub n = true) (vkn lv) /\
  Forall (fun cn => pub (fst cn) = true /\ nxt g (fst cn) 0 = (snd cn, true)) (vfz lv) /\
  own_ok g pub t (vown lv) /\ fresh_ok pub t lv.

Record IS (g : G) (a : aux) : Prop := {
  s_I : I g;
  s_HB : HB g;
  s_walk : walk g head (aL a);
  s_Lpub : forall n, In n (aL a) -> apub a n = true;
  s_node : forall n, apub a n = true -> isnode n;
  s_closed : forall n l, fst (nxt g n l) = null \/ apub a (fst (nxt g n l)) = true;
  s_inL : forall n, apub a n = true -> snd (nxt g n 0) = false -> In n (aL a);
  s_head : snd (nxt g head 0) = false;
  s_views : forall t, lv_ok g (apub a) t (view a t)
}.

Record IL (nodes : list (nat * nat)) (g : G) (a : aux) (tr : list (nat * ev)) : Prop := {
  l_run : exists S st, lp_run lp_init (aatr a) = Some (S, st) /\ (forall t, st t = vst (view a t)) /\ abs g (aL a) S;
  l_hist : erase (aatr a) = upd_hist nodes tr
}.

(** a thread that ran out of fuel abandons its operation: nothing is claimed about such traces *)
Definition exhausted (tr : list (nat * ev)) : Prop := exists t, In (t, EvCli "outoffuel"%string []) tr.
Definition Inv (nodes : list (nat * nat)) (g : G) (a : aux) (tr : list (nat * ev)) : Prop :=
  IS g a /\ (IL nodes g a tr \/ exhausted tr).

Definition known (lv : lview) (p : ptr) : Prop := p = head \/ In p (vkn lv).
Definition knownz (lv : lview) (p : ptr) : Prop := p = null \/ In p (vkn lv).

Definition addkn (p : ptr) (lv : lview) : lview :=
  if Nat.eqb p null then lv else mkLV (p :: vkn lv) (vfz lv) (vown lv) (vser lv) (vst lv).
Definition addfz (c nx : ptr) (lv : lview) : lview := mkLV (vkn lv) ((c, nx) :: vfz lv) (vown lv) (vser lv) (vst lv).

(** [lv <= lv']: more facts, same obligations *)
Definition vle (lv lv' : lview) : Prop :=
  incl (vkn lv) (vkn lv') /\ incl (vfz lv) (vfz lv') /\ vown lv' = vown lv /\ vser lv' = vser lv /\ vst lv' = vst lv.

Lemma vle_refl lv : vle lv lv.
Proof. repeat split; auto using incl_refl. Qed.
Lemma vle_trans a b c : vle a b -> vle b c -> vle a c.
Proof. intros (A1 & A2 & A3 & A4 & A5) (B1 & B2 & B3 & B4 & B5). repeat split; try congruence; eapply incl_tran; eauto. Qed.
Lemma vle_addkn p lv : vle lv (addkn p lv).
Proof. unfold addkn. destruct (Nat.eqb p null); [apply vle_refl|]. repeat split; cbn; auto using incl_refl, incl_tl. Qed.
Lemma vle_addfz c nx lv : vle lv (addfz c nx lv).
Proof. repeat split; cbn; auto using incl_refl, incl_tl. Qed.
Lemma known_mono lv lv' p : vle lv lv' -> known lv p -> known lv' p.
Proof. intros (H & _) [->|K]; [now left|right; auto]. Qed.
Lemma knownz_mono lv lv' p : vle lv lv' -> knownz lv p -> knownz lv' p.
Proof. intros (H & _) [->|K]; [now left|right; auto]. Qed.
Lemma knownz_addkn p lv : knownz (addkn p lv) p.
Proof. unfold knownz, addkn. destruct (Nat.eqb_spec p null); [now left|right; now left]. Qed.
Lemma known_of_knownz lv p : knownz lv p -> p <> null -> known lv p.
Proof. intros [->|H] N; [congruence|now right]. Qed.

(** ** the chain as a list *)
Fixpoint seg (g : G) (p : ptr) (A : list ptr) (q : ptr) : Prop :=
  match A with
  | [] => fst (nxt g p 0) = q
  | n :: r => fst (nxt g p 0) = n /\ n <> null /\ seg g n r q
  end.

Lemma walk_app g : forall A p n B, walk g p (A ++ n :: B) <-> seg g p A n /\ n <> null /\ walk g n B.
Proof.
  induction A as [|a A IH]; intros p n B; cbn [app walk seg]; [tauto|]. rewrite IH. tauto.
Qed.

Lemma walk_ext g g' : (forall n, fst (nxt g' n 0) = fst (nxt g n 0)) -> forall L p, walk g p L -> walk g' p L.
Proof. intros E. induction L as [|n r IH]; intros p; cbn [walk]; rewrite E; [tauto|]. intros (H1 & H2 & H3). auto. Qed.

(** nodes of the chain: proper nodes, keys strictly increasing and above the starting point *)
Lemma walk_sorted g : I g -> forall L p, (p = head \/ isnode p) -> walk g p L ->
  Forall (fun q => isnode q /\ (p = head \/ key_of p < key_of q)) L /\ strictly_inc (map key_of L).
Proof.
  intros Hi. induction L as [|n r IH]; intros p Hp Hw; cbn [walk] in Hw; [split; [constructor|exact Logic.I]|].
  destruct Hw as (E & N & Hw). pose proof (Hi p 0%nat) as Hl. rewrite E in Hl. destruct (lnk_ltp _ _ _ Hl N) as (Hn & Hpn).
  destruct (IH n (or_intror Hn) Hw) as [F S]. cbn [map strictly_inc]. split.
  - constructor; [split; [exact Hn|destruct Hpn as [->|(_ & H)]; auto]|].
    eapply Forall_impl; [|exact F]. intros q (Hq1 & Hq2). split; [exact Hq1|].
    destruct Hpn as [->|(_ & H)]; [now left|right]. destruct Hq2 as [Hq2|Hq2]; [unfold isnode, head in *; lia|lia].
  - split; [|exact S]. rewrite Forall_map. eapply Forall_impl; [|exact F]. intros q (_ & [H|H]); [unfold isnode, head in *; lia|exact H].
Qed.

Lemma walk_notin g L p : I g -> (p = head \/ isnode p) -> walk g p L -> ~ In p L /\ ~ In head L /\ ~ In null L /\ NoDup L.
Proof.
  intros Hi Hp Hw. destruct (walk_sorted g Hi L p Hp Hw) as [F S]. rewrite Forall_forall in F. repeat split.
  - intros H. destruct (F _ H) as (H1 & [->|H2]); [unfold isnode, head in H1; lia|lia].
  - intros H. destruct (F _ H) as (H1 & _). unfold isnode, head in H1. lia.
  - intros H. destruct (F _ H) as (H1 & _). unfold isnode, null in H1. lia.
  - clear F Hw Hp. induction L as [|n r IH]; [constructor|]. cbn [map strictly_inc] in S. destruct S as [F S].
    constructor; [|auto]. intros H. rewrite Forall_map, Forall_forall in F. specialize (F _ H). cbn in F. lia.
Qed.

Definition setnx (g : G) (p : ptr) (l : nat) (x : mptr) : G := mkG (upd2 (nxt g) p l x) (unl g) (hgt_of g) (hgt g) (cnt g).

Lemma setnx_same g p l x : nxt (setnx g p l x) p l = x.
Proof. cbn. apply upd2_same. Qed.
Lemma setnx_other g p l x p' l' : (p', l') <> (p, l) -> nxt (setnx g p l x) p' l' = nxt g p' l'.
Proof. cbn. apply upd2_other. Qed.
Lemma setnx_other0 g p x p' : p' <> p -> nxt (setnx g p 0 x) p' 0 = nxt g p' 0.
Proof. intros H. apply setnx_other. congruence. Qed.
Lemma setnx_up g p l x p' : l <> 0%nat -> nxt (setnx g p l x) p' 0 = nxt g p' 0.
Proof. intros H. apply setnx_other. congruence. Qed.

Lemma walk_other g p x : forall L p0, ~ In p (p0 :: L) -> walk g p0 L -> walk (setnx g p 0 x) p0 L.
Proof.
  induction L as [|n r IH]; intros p0 N; cbn [walk]; rewrite setnx_other0 by (intros ->; apply N; now left); [tauto|].
  intros (H1 & H2 & H3). repeat split; auto. apply IH; auto. intros H. apply N. now right.
Qed.
Lemma seg_other g p x : forall A p0 q, ~ In p (p0 :: A) -> seg g p0 A q -> seg (setnx g p 0 x) p0 A q.
Proof.
  induction A as [|n r IH]; intros p0 q N; cbn [seg]; rewrite setnx_other0 by (intros ->; apply N; now left); [tauto|].
  intros (H1 & H2 & H3). repeat split; auto. apply IH; auto. intros H. apply N. now right.
Qed.

(** views are stable under a change of one cell that is not a frozen cell nor the level-0 cell of an unlinked own node *)
Lemma lv_ok_stable g pub u lv p l x pub' :
  lv_ok g pub u lv ->
  (forall n, pub n = true -> pub' n = true) ->
  (forall n, pub' n = true -> pub n = false -> owner_of n <> u) ->
  (l = 0%nat -> forall c nx, In (c, nx) (vfz lv) -> c <> p) ->
  (l = 0%nat -> forall v, vown lv <> Some (p, v)) ->
  lv_ok (setnx g p l x) pub' u lv.
Proof.
  intros (K & F & O & Fr) Hm Hn Hun Hown. split; [|split; [|split]].
  - eapply Forall_impl; [|exact K]. auto.
  - rewrite Forall_forall in *. intros [c nx] Hin. destruct (F _ Hin) as (H1 & H2). cbn [fst snd] in *. split; [auto|].
    destruct (Nat.eq_dec l 0) as [->|Nl]; [|now rewrite setnx_up].
    rewrite setnx_other0; [exact H2|]. eapply Hun; eauto.
  - unfold own_ok in *. destruct (vown lv) as [[n v]|]; [|exact Logic.I]. destruct O as (O1 & O2 & O3 & O4).
    repeat split; auto.
    + destruct (pub' n) eqn:E; [|reflexivity]. exfalso. eapply Hn; eauto.
    + destruct (Nat.eq_dec l 0) as [->|Nl]; [|now rewrite setnx_up]. rewrite setnx_other0; [exact O4|].
      intros ->. eapply Hown; eauto.
  - intros m H1 H2 H3. destruct (Fr m H1 H2 H3) as [F1 F2]. split; [|exact F2].
    destruct (pub' m) eqn:E; [|reflexivity]. exfalso. eapply Hn; eauto.
Qed.

Lemma lv_ok_addkn g pub t lv p : lv_ok g pub t lv -> (p = null \/ pub p = true) -> lv_ok g pub t (addkn p lv).
Proof.
  intros (K & F & O & Fr) Hp. unfold addkn. destruct (Nat.eqb_spec p null) as [->|N]; [split; [|split; [|split]]; auto|].
  split; [|split; [|split]]; cbn; auto. constructor; [destruct Hp; congruence|exact K].
Qed.
Lemma lv_ok_addfz g pub t lv c nx : lv_ok g pub t lv -> pub c = true -> nxt g c 0 = (nx, true) -> lv_ok g pub t (addfz c nx lv).
Proof. intros (K & F & O & Fr) H1 H2. split; [|split; [|split]]; cbn; auto. Qed.
Lemma lv_ok_st g pub t lv st : lv_ok g pub t lv -> lv_ok g pub t (mkLV (vkn lv) (vfz lv) (vown lv) (vser lv) st).
Proof. intros (K & F & O & Fr). split; [|split; [|split]]; auto. Qed.

Lemma known_pub g a t p : IS g a -> known (view a t) p -> p = head \/ apub a p = true.
Proof.
  intros H [->|K]; [now left|right]. destruct (s_views _ _ H t) as (Hk & _). rewrite Forall_forall in Hk. auto.
Qed.
Lemma knownz_pub g a t p : IS g a -> knownz (view a t) p -> p = null \/ apub a p = true.
Proof.
  intros H [->|K]; [now left|right]. destruct (s_views _ _ H t) as (Hk & _). rewrite Forall_forall in Hk. auto.
Qed.

Lemma s_closed_ptr g a n (Hs : IS g a) q : nxt g n 0 = (q, false) -> q = null \/ apub a q = true.
Proof. intros E. pose proof (s_closed _ _ Hs n 0%nat) as H. now rewrite E in H. Qed.

(** a node whose level-0 cell is unmarked is on the chain (or is the head) *)
Lemma unmarked_on_chain g a p : IS g a -> (p = head \/ apub a p = true) -> snd (nxt g p 0) = false -> In p (head :: aL a).
Proof. intros H [->|Hp] Hm; [now left|right]. eapply s_inL; eauto. Qed.

Lemma pub_not_own g a u p v : IS g a -> apub a p = true -> vown (view a u) <> Some (p, v).
Proof.
  intros H Hp E. destruct (s_views _ _ H u) as (_ & _ & O & _). rewrite E in O. destruct O as (_ & O2 & _). congruence.
Qed.

Lemma frozen_marked g pub u lv c nx : lv_ok g pub u lv -> In (c, nx) (vfz lv) -> snd (nxt g c 0) = true /\ pub c = true.
Proof. intros (_ & F & _) H. rewrite Forall_forall in F. destruct (F _ H) as (H1 & H2). cbn in *. rewrite H2. auto. Qed.

Lemma lv_ok_ext g g' pub u lv : nxt g' = nxt g -> lv_ok g pub u lv -> lv_ok g' pub u lv.
Proof.
  intros E (K & F & O & Fr). split; [exact K|]. split; [|split; [|exact Fr]].
  - now rewrite E.
  - unfold own_ok in *. now rewrite E.
Qed.

Lemma IS_view g g' a t lv' atr' :
  IS g a -> nxt g' = nxt g -> HB g' -> lv_ok g' (apub a) t lv' -> IS g' (mk_a a t (apub a) (aL a) lv' atr').
Proof.
  intros H E Hb Hv. destruct H as [h1 h2 h3 h4 h5 h6 h7 h8 h9]. constructor; cbn [apub aL mk_a].
  - intros p l. rewrite E. apply h1.
  - exact Hb.
  - eapply walk_ext; [|eassumption]. intros n. now rewrite E.
  - exact h4.
  - exact h5.
  - intros n l. rewrite E. apply h6.
  - intros n. rewrite E. apply h7.
  - rewrite E. exact h8.
  - intros u. destruct (Nat.eq_dec u t) as [->|Nu]; [now rewrite view_mk_same|].
    rewrite view_mk_other by exact Nu. eapply lv_ok_ext; eauto.
Qed.

(** one cell changes, the chain (as a list) and the set of published nodes do not *)
Lemma IS_cell g a t p l x lv' atr' :
  IS g a -> lnk l p (fst x) -> (fst x = null \/ apub a (fst x) = true) ->
  (l = 0%nat -> ~ In p (head :: aL a) \/ fst x = fst (nxt g p 0)) ->
  (l = 0%nat -> p = head -> snd x = false) ->
  (l = 0%nat -> apub a p = true -> snd x = false -> snd (nxt g p 0) = false) ->
  (forall u, u <> t -> lv_ok (setnx g p l x) (apub a) u (view a u)) ->
  lv_ok (setnx g p l x) (apub a) t lv' ->
  IS (setnx g p l x) (mk_a a t (apub a) (aL a) lv' atr').
Proof.
  intros H Hl Hc Hw Hh Hin Ho Hv. destruct H. constructor; cbn [apub aL mk_a]; auto.
  - apply I_upd; assumption.
  - destruct (Nat.eq_dec l 0) as [->|Nl].
    + destruct (Hw eq_refl) as [N|E]; [now apply walk_other|].
      eapply walk_ext; [|eassumption]. intros n. destruct (Nat.eq_dec n p) as [->|Np]; [now rewrite setnx_same|now rewrite setnx_other0].
    + eapply walk_ext; [|eassumption]. intros n. now rewrite setnx_up.
  - intros n l'. destruct (Nat.eq_dec n p) as [->|Np].
    + destruct (Nat.eq_dec l' l) as [->|Nl]; [rewrite setnx_same; exact Hc|]. rewrite setnx_other by congruence. auto.
    + rewrite setnx_other by congruence. auto.
  - intros n Hn Hm. destruct (Nat.eq_dec l 0) as [->|Nl]; [|rewrite setnx_up in Hm by exact Nl; auto].
    destruct (Nat.eq_dec n p) as [->|Np]; [|rewrite setnx_other0 in Hm by exact Np; auto].
    rewrite setnx_same in Hm. auto.
  - destruct (Nat.eq_dec l 0) as [->|Nl]; [|now rewrite setnx_up].
    destruct (Nat.eq_dec head p) as [<-|Np]; [rewrite setnx_same; auto|now rewrite setnx_other0].
  - intros u. destruct (Nat.eq_dec u t) as [->|Nu]; [now rewrite view_mk_same|]. rewrite view_mk_other by exact Nu. auto.
Qed.

(** abstract set: unchanged when no level-0 cell of a chain node changes its mark *)
Lemma abs_cell g L S p l x :
  abs g L S -> (l = 0%nat -> ~ In p L \/ snd x = snd (nxt g p 0)) -> abs (setnx g p l x) L S.
Proof.
  intros Ha Hc k. rewrite (Ha k). split; intros (n & H1 & H2 & H3); exists n; (split; [exact H1|split; [|exact H3]]).
  - destruct (Nat.eq_dec l 0) as [->|Nl]; [|now rewrite setnx_up].
    destruct (Nat.eq_dec n p) as [->|Np]; [|now rewrite setnx_other0]. rewrite setnx_same.
    destruct (Hc eq_refl) as [N|E]; [contradiction|congruence].
  - destruct (Nat.eq_dec l 0) as [->|Nl]; [|now rewrite setnx_up in H2].
    destruct (Nat.eq_dec n p) as [->|Np]; [|now rewrite setnx_other0 in H2]. rewrite setnx_same in H2.
    destruct (Hc eq_refl) as [N|E]; [contradiction|congruence].
Qed.

Lemma walk_same_next g p q L : fst (nxt g q 0) = fst (nxt g p 0) -> walk g p L -> walk g q L.
Proof. intros E. destruct L as [|n r]; cbn [walk]; rewrite E; tauto. Qed.

Lemma walk_insert g pred new succ :
  fst (nxt g pred 0) = succ -> fst (nxt g new 0) = succ -> new <> null ->
  forall L p0, walk g p0 L -> In pred (p0 :: L) -> NoDup (p0 :: L) -> ~ In new (p0 :: L) ->
  exists L', walk (setnx g pred 0 (new, false)) p0 L' /\ (forall x, In x L' <-> x = new \/ In x L).
Proof.
  intros Ep En Nn. induction L as [|n r IH]; intros p0 Hw Hin Hnd Hnew.
  - destruct Hin as [->|[]]. exists [new]. split; [|intros x; cbn; intuition congruence].
    cbn [walk] in *. rewrite setnx_same. repeat split; auto.
    rewrite setnx_other0 by (intros ->; apply Hnew; now left). congruence.
  - destruct (Nat.eq_dec p0 pred) as [->|Np].
    + exists (new :: n :: r). split; [|intros x; cbn; intuition congruence].
      assert (W : walk (setnx g pred 0 (new, false)) new (n :: r)).
      { apply walk_other; [|eapply walk_same_next; [|exact Hw]; congruence].
        intros [->|H]; [apply Hnew; now left|]. apply NoDup_cons_iff in Hnd. destruct Hnd as [Hx _]. contradiction. }
      change (fst (nxt (setnx g pred 0 (new, false)) pred 0) = new /\ new <> null /\ walk (setnx g pred 0 (new, false)) new (n :: r)).
      rewrite setnx_same. auto.
    + destruct Hin as [->|Hin]; [congruence|]. cbn [walk] in Hw. destruct Hw as (E & N & Hw).
      apply NoDup_cons_iff in Hnd. destruct Hnd as [Hn0 Hnd'].
      destruct (IH n Hw Hin Hnd') as (L' & W' & I'); [intros H; apply Hnew; now right|].
      exists (n :: L'). split.
      * cbn [walk]. rewrite setnx_other0 by exact Np. repeat split; auto.
      * intros x. cbn [In]. rewrite I'. cbn [In]. intuition congruence.
Qed.

Lemma walk_unlink g pred cur succ :
  fst (nxt g pred 0) = cur -> cur <> null -> fst (nxt g cur 0) = succ -> cur <> pred ->
  forall L p0, walk g p0 L -> In pred (p0 :: L) -> NoDup (p0 :: L) ->
  exists L', walk (setnx g pred 0 (succ, false)) p0 L' /\ (forall x, In x L' <-> In x L /\ x <> cur) /\ In cur L.
Proof.
  intros Ep Nc Ec Ncp. induction L as [|n r IH]; intros p0 Hw Hin Hnd.
  - destruct Hin as [->|[]]. cbn [walk] in Hw. congruence.
  - destruct (Nat.eq_dec p0 pred) as [->|Np].
    + cbn [walk] in Hw. destruct Hw as (E & N & Hw). assert (Hn : n = cur) by congruence. rewrite Hn in *. clear Hn.
      apply NoDup_cons_iff in Hnd. destruct Hnd as [Hp Hnd']. apply NoDup_cons_iff in Hnd'. destruct Hnd' as [Hc Hnd''].
      exists r. split; [|split; [|now left]].
      * eapply walk_same_next with (p := cur).
        -- rewrite setnx_same, setnx_other0 by exact Ncp. cbn. congruence.
        -- apply walk_other; [|exact Hw]. intros [H|H]; [congruence|]. apply Hp. now right.
      * intros x. cbn [In]. split; [intros H; split; [now right|intros ->; contradiction]|intros ([H|H] & Hx); [congruence|exact H]].
    + destruct Hin as [->|Hin]; [congruence|]. cbn [walk] in Hw. destruct Hw as (E & N & Hw).
      apply NoDup_cons_iff in Hnd. destruct Hnd as [Hn0 Hnd'].
      destruct (IH n Hw Hin Hnd') as (L' & W' & I' & C').
      exists (n :: L'). split; [|split; [|now right]].
      * cbn [walk]. rewrite setnx_other0 by exact Np. repeat split; auto.
      * intros x. cbn [In]. rewrite I'. split; [intros [->|(H1 & H2)]; [split; [now left|]|tauto]|intros ([->|H1] & H2); [now left|right; tauto]].
        intros ->. apply NoDup_cons_iff in Hnd'. destruct Hnd' as [Hx _]. contradiction.
Qed.

Lemma strictly_inc_inj (L : list ptr) a b : strictly_inc (map key_of L) -> In a L -> In b L -> key_of a = key_of b -> a = b.
Proof.
  induction L as [|n r IH]; cbn [map strictly_inc In]; [tauto|]. intros [F S] Ha Hb E.
  rewrite Forall_map, Forall_forall in F.
  destruct Ha as [->|Ha], Hb as [->|Hb]; auto.
  - specialize (F _ Hb). cbn in F. lia.
  - specialize (F _ Ha). cbn in F. lia.
Qed.

Lemma chain_nodup g a : IS g a -> NoDup (head :: aL a) /\ ~ In null (aL a).
Proof.
  intros H. destruct (walk_notin g (aL a) head (s_I _ _ H) (or_introl eq_refl) (s_walk _ _ H)) as (H1 & _ & H3 & H4).
  split; [constructor; assumption|exact H3].
Qed.

(** the level-0 link CAS of an insert: the new node enters the chain right after [pred] *)
Lemma IS_link g a t pred succ new lv' atr' :
  IS g a -> (pred = head \/ apub a pred = true) -> nxt g pred 0 = (succ, false) ->
  vown (view a t) = Some (new, (succ, false)) -> lnk 0 pred new ->
  let g' := setnx g pred 0 (new, false) in
  let pub' := fun n => Nat.eqb n new || apub a n in
  lv_ok g' pub' t lv' ->
  exists L', IS g' (mk_a a t pub' L' lv' atr') /\ (forall x, In x L' <-> x = new \/ In x (aL a)).
Proof.
  intros H Hp Hc Ho Hl g' pub' Hv.
  destruct (s_views _ _ H t) as (_ & _ & Own & _). rewrite Ho in Own. destruct Own as (O1 & O2 & O3 & O4).
  assert (Hch : In pred (head :: aL a)) by (eapply unmarked_on_chain; eauto; now rewrite Hc).
  destruct (chain_nodup _ _ H) as [Hnd Hnull].
  assert (Hnew : ~ In new (head :: aL a)).
  { intros [E|E]; [unfold isnode, head in *; lia|]. apply (s_Lpub _ _ H) in E. congruence. }
  destruct (walk_insert g pred new succ ltac:(now rewrite Hc) ltac:(now rewrite O4) ltac:(unfold isnode, null in *; lia)
             (aL a) head (s_walk _ _ H) Hch Hnd Hnew) as (L' & W' & I').
  assert (Hpub : forall n, apub a n = true -> pub' n = true) by (intros n E; unfold pub'; rewrite E; apply orb_true_r).
  assert (Hpn : pub' new = true) by (unfold pub'; now rewrite Nat.eqb_refl).
  assert (Hnp : new <> pred) by (intros ->; destruct Hp as [E|E]; [unfold isnode, head in *; lia|congruence]).
  exists L'. split; [|exact I']. destruct H as [h1 h2 h3 h4 h5 h6 h7 h8 h9]. constructor; cbn [apub aL mk_a].
  - apply I_upd; assumption.
  - exact h2.
  - exact W'.
  - intros n Hn. apply I' in Hn. destruct Hn as [->|Hn]; auto.
  - intros n Hn. unfold pub' in Hn. apply orb_true_iff in Hn. destruct Hn as [Hn|Hn]; [apply Nat.eqb_eq in Hn; now subst|auto].
  - intros n l. destruct (Nat.eq_dec n pred) as [->|Np].
    + destruct (Nat.eq_dec l 0) as [->|Nl]; [unfold g'; rewrite setnx_same; now right|].
      unfold g'. rewrite setnx_other by congruence. destruct (h6 pred l); auto.
    + unfold g'. rewrite setnx_other by congruence. destruct (h6 n l); auto.
  - intros n Hn Hm. apply I'. unfold pub' in Hn. apply orb_true_iff in Hn. destruct Hn as [Hn|Hn]; [apply Nat.eqb_eq in Hn; now left|right].
    destruct (Nat.eq_dec n pred) as [->|Np].
    + destruct Hch as [E|E]; [|exact E]. apply h5 in Hn. unfold isnode, head in *; lia.
    + unfold g' in Hm. rewrite setnx_other0 in Hm by exact Np. auto.
  - destruct (Nat.eq_dec head pred) as [<-|Np]; [unfold g'; now rewrite setnx_same|unfold g'; now rewrite setnx_other0].
  - intros u. destruct (Nat.eq_dec u t) as [->|Nu]; [now rewrite view_mk_same|]. rewrite view_mk_other by exact Nu.
    apply lv_ok_stable with (pub := apub a); auto.
    + intros n E1 E2. unfold pub' in E1. rewrite E2, orb_false_r in E1. apply Nat.eqb_eq in E1. subst n. congruence.
    + intros _ c nx Hin ->. destruct (frozen_marked _ _ _ _ _ _ (h9 u) Hin) as [E _]. rewrite Hc in E. discriminate.
    + intros _ v E. destruct (h9 u) as (_ & _ & Ou & _). rewrite E in Ou. destruct Ou as (U1 & U2 & _).
      destruct Hp as [->|Hp]; [unfold isnode, head in *; lia|congruence].
Qed.

Lemma abs_link g a pred succ new S L' :
  IS g a -> nxt g pred 0 = (succ, false) -> nxt g new 0 = (succ, false) -> new <> pred -> ~ In new (aL a) ->
  abs g (aL a) S -> (forall x, In x L' <-> x = new \/ In x (aL a)) ->
  (forall L0, walk (setnx g pred 0 (new, false)) head L0 -> (forall x, In x L0 <-> In x L') -> strictly_inc (map key_of L0)) ->
  walk (setnx g pred 0 (new, false)) head L' ->
  abs (setnx g pred 0 (new, false)) L' (key_of new :: S) /\ zmem (key_of new) S = false.
Proof.
  intros H Hc Hn Np Nin Ha I' Hs W'.
  assert (Hm : forall n, snd (nxt (setnx g pred 0 (new, false)) n 0) = snd (nxt g n 0)).
  { intros n. destruct (Nat.eq_dec n pred) as [->|N]; [rewrite setnx_same, Hc; reflexivity|now rewrite setnx_other0]. }
  assert (Hz : zmem (key_of new) S = false).
  { destruct (zmem (key_of new) S) eqn:E; [|reflexivity]. exfalso. apply Ha in E. destruct E as (n & H1 & H2 & H3).
    assert (n = new); [|subst; contradiction].
    eapply strictly_inc_inj; [apply (Hs L' W'); tauto| | |exact H3]; apply I'; auto. }
  split; [|exact Hz]. intros k. cbn [zmem existsb]. fold (zmem k S). rewrite orb_true_iff, (Ha k). split.
  - intros [E|(n & H1 & H2 & H3)].
    + apply Z.eqb_eq in E. exists new. split; [apply I'; now left|]. split; [now rewrite Hm, Hn|congruence].
    + exists n. split; [apply I'; now right|]. split; [now rewrite Hm|exact H3].
  - intros (n & H1 & H2 & H3). apply I' in H1. destruct H1 as [->|H1]; [left; apply Z.eqb_eq; congruence|right].
    exists n. rewrite Hm in H2. auto.
Qed.

(** the level-0 unlink CAS: a marked node leaves the chain *)
Lemma IS_unlink g a t pred cur succ lv' atr' :
  IS g a -> (pred = head \/ apub a pred = true) -> nxt g pred 0 = (cur, false) -> cur <> null ->
  nxt g cur 0 = (succ, true) -> lnk 0 pred succ ->
  let g' := setnx g pred 0 (succ, false) in
  lv_ok g' (apub a) t lv' ->
  exists L', IS g' (mk_a a t (apub a) L' lv' atr') /\ (forall x, In x L' <-> In x (aL a) /\ x <> cur).
Proof.
  intros H Hp Hc Nc Hcur Hl g' Hv.
  assert (Hch : In pred (head :: aL a)) by (eapply unmarked_on_chain; eauto; now rewrite Hc).
  destruct (chain_nodup _ _ H) as [Hnd Hnull].
  assert (Ncp : cur <> pred) by (intros ->; rewrite Hc in Hcur; discriminate).
  destruct (walk_unlink g pred cur succ ltac:(now rewrite Hc) Nc ltac:(now rewrite Hcur) Ncp (aL a) head (s_walk _ _ H) Hch Hnd)
    as (L' & W' & I' & C').
  exists L'. split; [|exact I']. destruct H as [h1 h2 h3 h4 h5 h6 h7 h8 h9]. constructor; cbn [apub aL mk_a].
  - apply I_upd; assumption.
  - exact h2.
  - exact W'.
  - intros n Hn. apply I' in Hn. apply h4. tauto.
  - exact h5.
  - intros n l. destruct (Nat.eq_dec n pred) as [->|Np].
    + destruct (Nat.eq_dec l 0) as [->|Nl]; [|unfold g'; rewrite setnx_other by congruence; auto].
      unfold g'. rewrite setnx_same. cbn [fst]. specialize (h6 cur 0%nat). now rewrite Hcur in h6.
    + unfold g'. rewrite setnx_other by congruence. auto.
  - intros n Hn Hm. apply I'. destruct (Nat.eq_dec n pred) as [->|Np].
    + split; [|congruence]. destruct Hch as [E|E]; [|exact E]. apply h5 in Hn. unfold isnode, head in *; lia.
    + unfold g' in Hm. rewrite setnx_other0 in Hm by exact Np. split; [auto|]. intros ->. rewrite Hcur in Hm. discriminate.
  - destruct (Nat.eq_dec head pred) as [<-|Np]; [unfold g'; now rewrite setnx_same|unfold g'; now rewrite setnx_other0].
  - intros u. destruct (Nat.eq_dec u t) as [->|Nu]; [now rewrite view_mk_same|]. rewrite view_mk_other by exact Nu.
    apply lv_ok_stable with (pub := apub a); auto.
    + intros n E1 E2. congruence.
    + intros _ c nx Hin ->. destruct (frozen_marked _ _ _ _ _ _ (h9 u) Hin) as [E _]. rewrite Hc in E. discriminate.
    + intros _ v E. destruct (h9 u) as (_ & _ & Ou & _). rewrite E in Ou. destruct Ou as (U1 & U2 & _).
      destruct Hp as [->|Hp]; [unfold isnode, head in *; lia|congruence].
Qed.

Lemma abs_unlink g L S pred cur succ L' :
  abs g L S -> nxt g pred 0 = (cur, false) -> nxt g cur 0 = (succ, true) ->
  (forall x, In x L' <-> In x L /\ x <> cur) -> abs (setnx g pred 0 (succ, false)) L' S.
Proof.
  intros Ha Hc Hcur I' k. rewrite (Ha k).
  assert (Hm : forall n, snd (nxt (setnx g pred 0 (succ, false)) n 0) = snd (nxt g n 0)).
  { intros n. destruct (Nat.eq_dec n pred) as [->|N]; [rewrite setnx_same, Hc; reflexivity|now rewrite setnx_other0]. }
  split; intros (n & H1 & H2 & H3); exists n.
  - split; [apply I'; split; [exact H1|intros ->; rewrite Hcur in H2; discriminate]|]. now rewrite Hm.
  - rewrite Hm in H2. apply I' in H1. tauto.
Qed.

Lemma zmem_zdel k k' S : zmem k (zdel k' S) = true <-> k <> k' /\ zmem k S = true.
Proof.
  unfold zmem, zdel. rewrite !existsb_exists. split.
  - intros (x & Hx & E). apply filter_In in Hx. destruct Hx as [H1 H2]. apply Z.eqb_eq in E. subst x.
    apply negb_true_iff, Z.eqb_neq in H2. split; [congruence|]. exists k. split; [exact H1|apply Z.eqb_refl].
  - intros (N & x & Hx & E). apply Z.eqb_eq in E. subst x. exists k. split; [|apply Z.eqb_refl].
    apply filter_In. split; [exact Hx|]. apply negb_true_iff, Z.eqb_neq. congruence.
Qed.

(** the level-0 mark CAS: the key leaves the abstract set *)
Lemma abs_mark g a S del q :
  IS g a -> abs g (aL a) S -> In del (aL a) -> nxt g del 0 = (q, false) ->
  abs (setnx g del 0 (q, true)) (aL a) (zdel (key_of del) S) /\ zmem (key_of del) S = true.
Proof.
  intros H Ha Hin Hc. split; [|apply Ha; exists del; rewrite Hc; auto].
  destruct (walk_sorted g (s_I _ _ H) (aL a) head (or_introl eq_refl) (s_walk _ _ H)) as [_ Hs].
  intros k. rewrite zmem_zdel. split.
  - intros (E2 & E1). apply Ha in E1. destruct E1 as (n & H1 & H2 & H3).
    exists n. split; [exact H1|]. split; [|exact H3].
    rewrite setnx_other0; [exact H2|]. intros ->. congruence.
  - intros (n & H1 & H2 & H3). destruct (Nat.eq_dec n del) as [->|N]; [rewrite setnx_same in H2; discriminate|].
    rewrite setnx_other0 in H2 by exact N. split; [|apply Ha; eauto].
    intros E. apply N. eapply strictly_inc_inj; eauto. congruence.
Qed.

Section WithNodes.
Variable nodes : list (nat * nat).

Definition SAFE {R} (t : nat) (p : prog R) (lv : lview) : Prop :=
  @Conc.safe G V ev aux lview view (Inv nodes) R t p lv (fun _ _ => True).

Lemma upd_hist_acc tr t k o ok : upd_hist nodes (tr ++ Conc.tag t [EvAcc k o ok]) = upd_hist nodes tr.
Proof. unfold upd_hist. rewrite fold_left_app. reflexivity. Qed.

Lemma exhausted_app tr tr' : exhausted tr -> exhausted (tr ++ tr').
Proof. intros (t & H). exists t. apply in_or_app. now left. Qed.

Lemma S_act {R} t f (k : V -> prog R) lv :
  (forall g a tr, Inv nodes g a tr -> view a t = lv ->
     exists pub' L' lv' atr', Inv nodes (fst (fst (f g))) (mk_a a t pub' L' lv' atr') (tr ++ Conc.tag t (snd (f g))) /\
                              SAFE t (k (snd (fst (f g)))) lv') ->
  SAFE t (Act f k) lv.
Proof.
  intros H. unfold SAFE. cbn [Conc.safe]. intros g a tr Hi Hv. destruct (H g a tr Hi Hv) as (pub' & L' & lv' & atr' & H1 & H2).
  exists (mk_a a t pub' L' lv' atr'). split; [exact H1|]. split; [apply frame_mk|]. now rewrite view_mk_same.
Qed.

(** the annotated trace is untouched by a step that is not a linearization point *)
Lemma IL_keep g g' a t pub' lv' tr kd ob ok :
  IL nodes g a tr -> vst lv' = vst (view a t) ->
  (forall S, abs g (aL a) S -> abs g' (aL a) S) ->
  IL nodes g' (mk_a a t pub' (aL a) lv' (aatr a)) (tr ++ Conc.tag t [EvAcc kd ob ok]).
Proof.
  intros [(S & st & H1 & H2 & H3) H4] Hs Ha. constructor; cbn [aatr aL mk_a].
  - exists S, st. split; [exact H1|]. split; [|now apply Ha].
    intros u. destruct (Nat.eq_dec u t) as [->|Hu]; [rewrite view_mk_same; rewrite H2; congruence|].
    rewrite view_mk_other by exact Hu. apply H2.
  - rewrite upd_hist_acc. exact H4.
Qed.

(** same, the chain list changes but the abstract set does not (unlink of a marked node) *)
Lemma IL_keepL g g' a t pub' L' lv' tr kd ob ok :
  IL nodes g a tr -> vst lv' = vst (view a t) ->
  (forall S, abs g (aL a) S -> abs g' L' S) ->
  IL nodes g' (mk_a a t pub' L' lv' (aatr a)) (tr ++ Conc.tag t [EvAcc kd ob ok]).
Proof.
  intros [(S & st & H1 & H2 & H3) H4] Hs Ha. constructor; cbn [aatr aL mk_a].
  - exists S, st. split; [exact H1|]. split; [|now apply Ha].
    intros u. destruct (Nat.eq_dec u t) as [->|Hu]; [rewrite view_mk_same; rewrite H2; congruence|].
    rewrite view_mk_other by exact Hu. apply H2.
  - rewrite upd_hist_acc. exact H4.
Qed.

(** a linearization point *)
Lemma IL_lp g g' a t pub' L' lv' tr kd ob ok o :
  IL nodes g a tr -> vst (view a t) = @Pending SetSpec o ->
  (forall S, abs g (aL a) S -> abs g' L' (fst (set_step S o)) /\ vst lv' = @Linearized SetSpec o (snd (set_step S o))) ->
  IL nodes g' (mk_a a t pub' L' lv' (aatr a ++ [ALin t])) (tr ++ Conc.tag t [EvAcc kd ob ok]).
Proof.
  intros [(S & st & H1 & H2 & H3) H4] Hs Ha. destruct (Ha S H3) as [Ha1 Ha2]. constructor; cbn [aatr aL mk_a].
  - exists (fst (set_step S o)), (upd st t (@Linearized SetSpec o (snd (set_step S o)))). split; [|split; [|exact Ha1]].
    + rewrite (MI.lp_run_snoc _ _ _ H1). cbn [lp_step]. rewrite H2, Hs. reflexivity.
    + intros u. destruct (Nat.eq_dec u t) as [->|Hu]; [rewrite view_mk_same, upd_same; congruence|].
      rewrite view_mk_other by exact Hu. rewrite upd_other by exact Hu. apply H2.
  - rewrite upd_hist_acc, erase_app. cbn [erase]. rewrite app_nil_r. exact H4.
Qed.


Lemma inv_step g g' a a' tr es :
  IS g' a' -> (IL nodes g a tr -> IL nodes g' a' (tr ++ es)) -> (IL nodes g a tr \/ exhausted tr) -> Inv nodes g' a' (tr ++ es).
Proof. intros H1 H2 [H|H]; split; auto. right. now apply exhausted_app. Qed.

Lemma abs_ext g g' L S : nxt g' = nxt g -> abs g L S -> abs g' L S.
Proof. intros E H k. rewrite (H k). now rewrite E. Qed.

Lemma HB_ext g g' : hgt_of g' = hgt_of g -> HB g -> HB g'.
Proof. intros E H p. rewrite E. apply H. Qed.

Definition nxlike (f : G -> G * V * list ev) : Prop :=
  forall g, nxt (fst (fst (f g))) = nxt g /\ hgt_of (fst (fst (f g))) = hgt_of g /\ exists kd ob ok, snd (f g) = [EvAcc kd ob ok].

(** a step that changes neither the links nor the ghost state, except that the thread may record more facts *)
Lemma S_keep {R} t f (k : V -> prog R) lv :
  nxlike f ->
  (forall g a, IS g a -> view a t = lv -> exists lv', vst lv' = vst lv /\ lv_ok g (apub a) t lv' /\ SAFE t (k (snd (fst (f g)))) lv') ->
  SAFE t (Act f k) lv.
Proof.
  intros Hf H. apply S_act. intros g a tr [Hs Hl] Hv. destruct (Hf g) as (E1 & E2 & kd & ob & ok & E3).
  destruct (H g a Hs Hv) as (lv' & V1 & V2 & V3). exists (apub a), (aL a), lv', (aatr a). split; [|exact V3].
  rewrite E3. eapply inv_step; [| |exact Hl].
  - eapply IS_view; eauto; [eapply HB_ext; eauto; apply (s_HB _ _ Hs)|eapply lv_ok_ext; eauto].
  - intros Hil. apply IL_keep with (g := g); auto; [congruence|]. intros S. now apply abs_ext.
Qed.

Lemma S_nx {R} t f (k : V -> prog R) lv : nxlike f -> (forall v, SAFE t (k v) lv) -> SAFE t (Act f k) lv.
Proof.
  intros Hf H. apply S_keep; [exact Hf|]. intros g a Hs Hv. exists lv. split; [reflexivity|]. split; [|apply H].
  rewrite <- Hv. apply (s_views _ _ Hs).
Qed.

Ltac nxl := intros g0; cbn; repeat split; eauto.
Ltac nx := apply S_nx; [nxl|intros ?].

Lemma S_ld {R} t p l (k : V -> prog R) lv :
  (forall x, lnk l p (fst x) -> SAFE t (k (VP x)) (addkn (fst x) lv)) -> SAFE t (Act (a_ld_next p l) k) lv.
Proof.
  intros H. apply S_keep; [nxl|]. intros g a Hs Hv. cbn [a_ld_next fst snd].
  exists (addkn (fst (nxt g p l)) lv). split; [unfold addkn; destruct (Nat.eqb _ null); reflexivity|]. split.
  - apply lv_ok_addkn; [rewrite <- Hv; apply (s_views _ _ Hs)|apply (s_closed _ _ Hs)].
  - apply H. apply (s_I _ _ Hs).
Qed.

(** level-0 load of the cell of a known node: a marked value is recorded as frozen *)
Lemma S_ld0 {R} t p (k : V -> prog R) lv :
  known lv p ->
  (forall x, lnk 0 p (fst x) ->
     SAFE t (k (VP x)) (if snd x then addfz p (fst x) (addkn (fst x) lv) else addkn (fst x) lv)) ->
  SAFE t (Act (a_ld_next p 0) k) lv.
Proof.
  intros Hk H. apply S_keep; [nxl|]. intros g a Hs Hv. cbn [a_ld_next fst snd].
  set (x := nxt g p 0). assert (Hok : lv_ok g (apub a) t (addkn (fst x) lv)).
  { apply lv_ok_addkn; [rewrite <- Hv; apply (s_views _ _ Hs)|apply (s_closed _ _ Hs)]. }
  exists (if snd x then addfz p (fst x) (addkn (fst x) lv) else addkn (fst x) lv). split; [|split; [|apply H; apply (s_I _ _ Hs)]].
  - destruct (snd x); unfold addfz, addkn; destruct (Nat.eqb _ null); reflexivity.
  - destruct (snd x) eqn:Ex; [|exact Hok]. apply lv_ok_addfz; [exact Hok| |unfold x in *; destruct (nxt g p 0); cbn in *; congruence].
    rewrite <- Hv in Hk. destruct (known_pub _ _ _ _ Hs Hk) as [->|Hp]; [|exact Hp].
    unfold x in Ex. rewrite (s_head _ _ Hs) in Ex. discriminate.
Qed.

Lemma S_guard_h {R} t slot p (k : V -> prog R) lv :
  (forall h, (h <= MAXH)%nat -> SAFE t (k (VZ (Z.of_nat h))) lv) -> SAFE t (Act (a_guard_st_h t slot p) k) lv.
Proof.
  intros H. apply S_keep; [nxl|]. intros g a Hs Hv. exists lv. split; [reflexivity|]. split; [rewrite <- Hv; apply (s_views _ _ Hs)|].
  cbn [a_guard_st_h fst snd]. apply H. apply (s_HB _ _ Hs).
Qed.

Lemma S_st_unl {R} t p n h (k : V -> prog R) lv :
  (h <= MAXH)%nat -> (forall v, SAFE t (k v) lv) -> SAFE t (Act (a_st_unl p n h) k) lv.
Proof.
  intros Hh H. apply S_act. intros g a tr [Hs Hl] Hv. exists (apub a), (aL a), lv, (aatr a). split; [|apply H].
  cbn [a_st_unl fst snd]. eapply inv_step; [| |exact Hl].
  - apply (IS_view g _ a t lv (aatr a) Hs); [reflexivity| |].
    + intros p'. cbn [hgt_of]. unfold upd1. destruct (Nat.eqb p' p); [exact Hh|apply (s_HB _ _ Hs)].
    + eapply lv_ok_ext; [reflexivity|]. rewrite <- Hv. apply (s_views _ _ Hs).
  - intros Hil. apply IL_keep with (g := g); auto. congruence.
Qed.


Lemma mp_eqb_eq (a b : mptr) : mp_eqb a b = true -> a = b.
Proof.
  unfold mp_eqb. destruct a as [a1 a2], b as [b1 b2]. cbn. intros H. apply andb_true_iff in H. destruct H as [H1 H2].
  apply Nat.eqb_eq in H1. apply Bool.eqb_prop in H2. congruence.
Qed.

Definition set_own (lv : lview) (o : option (ptr * mptr)) : lview := mkLV (vkn lv) (vfz lv) o (vser lv) (vst lv).

Lemma lv_ok_others g a t p l x :
  IS g a -> (l = 0%nat -> (snd (nxt g p 0) = false \/ apub a p = false)) -> (l = 0%nat -> (p = head \/ apub a p = true \/ owner_of p = t)) ->
  forall u, u <> t -> lv_ok (setnx g p l x) (apub a) u (view a u).
Proof.
  intros Hs H1 H2 u Nu. apply lv_ok_stable with (pub := apub a); auto; [apply (s_views _ _ Hs)|congruence| |].
  - intros El c nx Hin ->. destruct (frozen_marked _ _ _ _ _ _ (s_views _ _ Hs u) Hin) as [E1 E2].
    destruct (H1 El) as [E|E]; congruence.
  - intros El v E. destruct (s_views _ _ Hs u) as (_ & _ & Ou & _). rewrite E in Ou. destruct Ou as (U1 & U2 & U3 & _).
    destruct (H2 El) as [->|[E'|E']]; [unfold isnode, head in *; lia|congruence|congruence].
Qed.

(** a store into a cell of my own, not yet linked, node *)
Lemma S_st_own {R} t p l x v (k : V -> prog R) lv :
  vown lv = Some (p, v) -> lnk l p (fst x) -> knownz lv (fst x) ->
  (forall v', SAFE t (k v') (if Nat.eqb l 0 then set_own lv (Some (p, x)) else lv)) ->
  SAFE t (Act (a_st_next p l x) k) lv.
Proof.
  intros Ho Hl Hk H. apply S_act. intros g a tr [Hs Hil] Hv. cbn [a_st_next fst snd].
  set (lv' := if Nat.eqb l 0 then set_own lv (Some (p, x)) else lv).
  exists (apub a), (aL a), lv', (aatr a). split; [|apply H].
  pose proof (s_views _ _ Hs t) as Vt. rewrite Hv in Vt. destruct Vt as (K & F & O & Fr). rewrite Ho in O. destruct O as (O1 & O2 & O3 & O4).
  assert (Hnot : ~ In p (head :: aL a)).
  { intros [E|E]; [unfold isnode, head in *; lia|]. apply (s_Lpub _ _ Hs) in E. congruence. }
  change (mkG (upd2 (nxt g) p l x) (unl g) (hgt_of g) (hgt g) (cnt g)) with (setnx g p l x).
  eapply inv_step; [| |exact Hil].
  - apply IS_cell; auto.
    + rewrite <- Hv in Hk. destruct (knownz_pub _ _ _ _ Hs Hk); auto.
    + intros _ ->. unfold isnode, head in *; lia.
    + intros _ E. congruence.
    + apply lv_ok_others; auto.
    + assert (E1 : vkn lv' = vkn lv) by (unfold lv'; destruct (Nat.eqb l 0); reflexivity).
      assert (E2 : vfz lv' = vfz lv) by (unfold lv'; destruct (Nat.eqb l 0); reflexivity).
      assert (E3 : vser lv' = vser lv) by (unfold lv'; destruct (Nat.eqb l 0); reflexivity).
      split; [rewrite E1; exact K|]. split; [rewrite E2|split; [|unfold fresh_ok; rewrite E3]].
      * rewrite Forall_forall in *. intros [c nx] Hin. destruct (F _ Hin) as (F1 & F2). cbn [fst snd] in *. split; [exact F1|].
        rewrite setnx_other; [exact F2|]. intros E. inversion E; subst. congruence.
      * unfold lv'. destruct (Nat.eqb_spec l 0) as [->|Nl]; cbn [vown set_own own_ok].
        -- rewrite setnx_same. auto.
        -- rewrite Ho. cbn [own_ok]. rewrite setnx_up by exact Nl. auto.
      * intros n H1 H2 H3. destruct (Fr n H1 H2 H3) as [F1 F2].
        split; [exact F1|]. intros v0 E. unfold lv' in E. destruct (Nat.eqb l 0); cbn [vown set_own] in E; [|eapply F2; eauto].
        inversion E; subst. eapply F2; eauto.
  - intros Hi. apply IL_keep with (g := g); auto.
    + rewrite Hv. unfold lv'. destruct (Nat.eqb l 0); reflexivity.
    + intros S HS. apply abs_cell; auto. intros _. left. intros E. apply Hnot. now right.
Qed.

(** a CAS on an upper level *)
Lemma S_cas_up {R} t p l e d (k : V -> prog R) lv :
  l <> 0%nat -> lnk l p (fst d) -> knownz lv (fst d) ->
  (forall ok cur, lnk l p (fst cur) -> SAFE t (k (VC ok cur)) (addkn (fst cur) lv)) ->
  SAFE t (Act (a_cas_next p l e d) k) lv.
Proof.
  intros Nl Hl Hk H. apply S_act. intros g a tr [Hs Hil] Hv. unfold a_cas_next.
  pose proof (s_views _ _ Hs t) as Vt. rewrite Hv in Vt.
  assert (Hcl : fst (nxt g p l) = null \/ apub a (fst (nxt g p l)) = true) by apply (s_closed _ _ Hs).
  exists (apub a), (aL a), (addkn (fst (nxt g p l)) lv), (aatr a).
  destruct (mp_eqb (nxt g p l) e) eqn:E; cbn [fst snd].
  - split; [|apply H; apply (s_I _ _ Hs)].
    change (mkG (upd2 (nxt g) p l d) (unl g) (hgt_of g) (hgt g) (cnt g)) with (setnx g p l d).
    eapply inv_step; [| |exact Hil].
    + apply IS_cell; [exact Hs|exact Hl| |intros; congruence|intros; congruence|intros; congruence| |].
      * rewrite <- Hv in Hk. destruct (knownz_pub _ _ _ _ Hs Hk); auto.
      * apply lv_ok_others; auto; intros; congruence.
      * apply lv_ok_addkn; [|exact Hcl]. apply lv_ok_stable with (pub := apub a); auto; intros; congruence.
    + intros Hi. apply IL_keep with (g := g); auto.
      * rewrite Hv. unfold addkn. destruct (Nat.eqb _ null); reflexivity.
      * intros S HS. apply abs_cell; [exact HS|intros; congruence].
  - split; [|apply H; apply (s_I _ _ Hs)]. eapply inv_step; [| |exact Hil].
    + apply (IS_view g g a t _ (aatr a) Hs); [reflexivity|apply (s_HB _ _ Hs)|]. now apply lv_ok_addkn.
    + intros Hi. apply IL_keep with (g := g); auto. rewrite Hv. unfold addkn. destruct (Nat.eqb _ null); reflexivity.
Qed.


Lemma IS_keep_addkn g a t lv q :
  IS g a -> view a t = lv -> (q = null \/ apub a q = true) -> IS g (mk_a a t (apub a) (aL a) (addkn q lv) (aatr a)).
Proof.
  intros Hs Hv Hq. apply (IS_view g g a t _ (aatr a) Hs); [reflexivity|apply (s_HB _ _ Hs)|].
  apply lv_ok_addkn; [rewrite <- Hv; apply (s_views _ _ Hs)|exact Hq].
Qed.

Lemma vst_addkn q lv : vst (addkn q lv) = vst lv.
Proof. unfold addkn. destruct (Nat.eqb q null); reflexivity. Qed.

(** the failing branch of any CAS: nothing changes, the value read is recorded *)
Lemma cas_fail_step g a t tr lv p l :
  IS g a -> (IL nodes g a tr \/ exhausted tr) -> view a t = lv ->
  Inv nodes g (mk_a a t (apub a) (aL a) (addkn (fst (nxt g p l)) lv) (aatr a)) (tr ++ Conc.tag t [EvAcc KCas (o_next p l) false]).
Proof.
  intros Hs Hil Hv. eapply inv_step; [| |exact Hil].
  - apply IS_keep_addkn; auto. apply (s_closed _ _ Hs).
  - intros Hi. apply IL_keep with (g := g); auto. rewrite Hv. apply vst_addkn.
Qed.

(** level-0 link CAS of insert_at_position: the linearization point of a successful insert *)
Lemma S_cas0_link {R} t pred succ new key (k : V -> prog R) lv :
  known lv pred -> vown lv = Some (new, (succ, false)) -> below key pred -> key_of new = key ->
  vst lv = @Pending SetSpec (SInsert key) ->
  (forall cur, SAFE t (k (VC false cur)) (addkn (fst cur) lv)) ->
  SAFE t (k (VC true (succ, false))) (mkLV (new :: vkn lv) (vfz lv) None (vser lv) (@Linearized SetSpec (SInsert key) (RBool true))) ->
  SAFE t (Act (a_cas_next pred 0 (succ, false) (new, false)) k) lv.
Proof.
  intros Hk Ho Hb Hkey Hst Hfail Hok. subst key. apply S_act. intros g a tr [Hs Hil] Hv. unfold a_cas_next.
  destruct (mp_eqb (nxt g pred 0) (succ, false)) eqn:E; cbn [fst snd].
  2:{ exists (apub a), (aL a), (addkn (fst (nxt g pred 0)) lv), (aatr a). split; [now apply cas_fail_step|apply Hfail]. }
  apply mp_eqb_eq in E. rewrite E.
  pose proof (s_views _ _ Hs t) as Vt. rewrite Hv in Vt. destruct Vt as (K & F & O & Fr). pose proof O as O'. rewrite Ho in O'. destruct O' as (O1 & O2 & O3 & O4).
  rewrite <- Hv in Hk. pose proof (known_pub _ _ _ _ Hs Hk) as Hp.
  assert (Hl : lnk 0 pred new).
  { right. split; [exact O1|]. destruct Hb as [->|(B1 & B2)]; [now left|right]. split; [exact B1|lia]. }
  set (lv' := mkLV (new :: vkn lv) (vfz lv) None (vser lv) (@Linearized SetSpec (SInsert (key_of new)) (RBool true))).
  set (pub' := fun n => Nat.eqb n new || apub a n).
  change (mkG (upd2 (nxt g) pred 0 (new, false)) (unl g) (hgt_of g) (hgt g) (cnt g)) with (setnx g pred 0 (new, false)).
  assert (Npred : new <> pred) by (intros ->; destruct Hp as [Ep|Ep]; [unfold isnode, head in *; lia|congruence]).
  assert (Hv' : lv_ok (setnx g pred 0 (new, false)) pub' t lv').
  { split; [|split; [|split]]; cbn [vkn vfz vown vser lv'].
    - constructor; [unfold pub'; now rewrite Nat.eqb_refl|]. eapply Forall_impl; [|exact K]. intros n En. unfold pub'. rewrite En. apply orb_true_r.
    - rewrite Forall_forall in *. intros [c nx] Hin. destruct (F _ Hin) as (F1 & F2). cbn [fst snd] in *.
      split; [unfold pub'; rewrite F1; apply orb_true_r|]. rewrite setnx_other0; [exact F2|]. intros ->. rewrite E in F2. discriminate.
    - exact Logic.I.
    - intros n H1 H2 H3. destruct (Fr n H1 H2 H3) as [F1 F2]. split; [|discriminate].
      unfold pub'. rewrite F1, orb_false_r. apply Nat.eqb_neq. intros ->. eapply F2; eauto. }
  destruct (IS_link g a t pred succ new lv' (aatr a ++ [ALin t]) Hs Hp E ltac:(rewrite Hv; exact Ho) Hl Hv') as (L' & HIS & HL').
  exists pub', L', lv', (aatr a ++ [ALin t]). split; [|exact Hok].
  eapply inv_step; [exact HIS| |exact Hil].
  intros Hi. apply IL_lp with (g := g) (o := SInsert (key_of new)); auto; [rewrite Hv; exact Hst|].
  intros S HS.
  assert (Nin : ~ In new (aL a)) by (intros X; apply (s_Lpub _ _ Hs) in X; congruence).
  destruct (abs_link g a pred succ new S L' Hs E O4 Npred Nin HS HL') as [A1 A2].
  - intros L0 W0 _. apply (walk_sorted _ (s_I _ _ HIS) L0 head (or_introl eq_refl) W0).
  - apply (s_walk _ _ HIS).
  - cbn [set_step]. rewrite A2. cbn [fst snd]. split; [exact A1|reflexivity].
Qed.

(** level-0 mark CAS of try_remove_at: the linearization point of a successful erase *)
Lemma S_cas0_mark {R} t del p key (k : V -> prog R) lv :
  In del (vkn lv) -> key_of del = key -> snd p = false -> lnk 0 del (fst p) ->
  vst lv = @Pending SetSpec (SErase key) ->
  (forall cur, lnk 0 del (fst cur) -> SAFE t (k (VC false cur)) (addkn (fst cur) lv)) ->
  SAFE t (k (VC true p)) (mkLV (vkn lv) ((del, fst p) :: vfz lv) (vown lv) (vser lv) (@Linearized SetSpec (SErase key) (RBool true))) ->
  SAFE t (Act (a_cas_next del 0 p (fst p, true)) k) lv.
Proof.
  intros Hk Hkey Hm Hl Hst Hfail Hok. subst key. apply S_act. intros g a tr [Hs Hil] Hv. unfold a_cas_next.
  destruct (mp_eqb (nxt g del 0) p) eqn:E; cbn [fst snd].
  2:{ exists (apub a), (aL a), (addkn (fst (nxt g del 0)) lv), (aatr a). split; [now apply cas_fail_step|apply Hfail; apply (s_I _ _ Hs)]. }
  apply mp_eqb_eq in E. rewrite E.
  pose proof (s_views _ _ Hs t) as Vt. rewrite Hv in Vt. destruct Vt as (K & F & O & Fr).
  assert (Hp : apub a del = true) by (rewrite Forall_forall in K; auto).
  assert (Hd : nxt g del 0 = (fst p, false)) by (rewrite E; destruct p; cbn in *; congruence).
  assert (HinL : In del (aL a)) by (apply (s_inL _ _ Hs); [exact Hp|now rewrite Hd]).
  set (lv' := mkLV (vkn lv) ((del, fst p) :: vfz lv) (vown lv) (vser lv) (@Linearized SetSpec (SErase (key_of del)) (RBool true))).
  change (mkG (upd2 (nxt g) del 0 (fst p, true)) (unl g) (hgt_of g) (hgt g) (cnt g)) with (setnx g del 0 (fst p, true)).
  exists (apub a), (aL a), lv', (aatr a ++ [ALin t]). split; [|exact Hok].
  eapply inv_step; [| |exact Hil].
  - apply IS_cell; [exact Hs|exact Hl|apply (s_closed_ptr g a del Hs (fst p) Hd)| | | | |].
    + intros _. right. cbn [fst]. now rewrite Hd.
    + intros _ ->. apply (s_node _ _ Hs) in Hp. unfold isnode, head in Hp. lia.
    + intros _ _ X. discriminate.
    + apply lv_ok_others; [exact Hs|intros _; left; now rewrite Hd|intros _; right; left; exact Hp].
    + split; [exact K|]. split; [|split].
      * constructor; [cbn [fst snd]; split; [exact Hp|now rewrite setnx_same]|].
        rewrite Forall_forall in *. intros [c nx] Hin. destruct (F _ Hin) as (F1 & F2). cbn [fst snd] in *. split; [exact F1|].
        rewrite setnx_other0; [exact F2|]. intros ->. rewrite Hd in F2. discriminate.
      * cbn [vown lv']. unfold own_ok in *. destruct (vown lv) as [[n v]|]; [|exact Logic.I]. destruct O as (O1 & O2 & O3 & O4).
        repeat split; auto. rewrite setnx_other0; [exact O4|]. intros ->. congruence.
      * exact Fr.
  - intros Hi. apply IL_lp with (g := g) (o := SErase (key_of del)); auto; [rewrite Hv; exact Hst|].
    intros S HS. destruct (abs_mark g a S del (fst p) Hs HS HinL Hd) as [A1 A2]. cbn [set_step]. rewrite A2. cbn [fst snd]. split; [exact A1|reflexivity].
Qed.

(** level-0 unlink CAS (help_remove / try_remove_at): a marked node leaves the chain, the abstract set is unchanged *)
Lemma S_cas0_unlink {R} t pred cur succ (k : V -> prog R) lv :
  known lv pred -> In (cur, succ) (vfz lv) -> lnk 0 pred succ ->
  (forall ok c, lnk 0 pred (fst c) -> SAFE t (k (VC ok c)) (addkn (fst c) lv)) ->
  SAFE t (Act (a_cas_next pred 0 (cur, false) (succ, false)) k) lv.
Proof.
  intros Hk Hfz Hl H. apply S_act. intros g a tr [Hs Hil] Hv. unfold a_cas_next.
  destruct (mp_eqb (nxt g pred 0) (cur, false)) eqn:E; cbn [fst snd].
  2:{ exists (apub a), (aL a), (addkn (fst (nxt g pred 0)) lv), (aatr a). split; [now apply cas_fail_step|apply H; apply (s_I _ _ Hs)]. }
  apply mp_eqb_eq in E. rewrite E.
  pose proof (s_views _ _ Hs t) as Vt. rewrite Hv in Vt. pose proof Vt as (K & F & O & Fr).
  rewrite Forall_forall in F. destruct (F _ Hfz) as (Hpc & Hcur). cbn [fst snd] in *.
  rewrite <- Hv in Hk. pose proof (known_pub _ _ _ _ Hs Hk) as Hp.
  assert (Nc : cur <> null) by (apply (s_node _ _ Hs) in Hpc; unfold isnode, null in *; lia).
  change (mkG (upd2 (nxt g) pred 0 (succ, false)) (unl g) (hgt_of g) (hgt g) (cnt g)) with (setnx g pred 0 (succ, false)).
  assert (Hv' : lv_ok (setnx g pred 0 (succ, false)) (apub a) t (addkn cur lv)).
  { apply lv_ok_addkn; [|now right]. apply lv_ok_stable with (pub := apub a); auto; [congruence| |].
    - intros _ c nx Hin ->. destruct (frozen_marked _ _ _ _ _ _ Vt Hin) as [X _]. rewrite E in X. discriminate.
    - intros _ v X. unfold own_ok in O. rewrite X in O. destruct O as (O1 & O2 & _).
      destruct Hp as [->|Hp]; [unfold isnode, head in *; lia|congruence]. }
  destruct (IS_unlink g a t pred cur succ (addkn cur lv) (aatr a) Hs Hp E Nc Hcur Hl Hv') as (L' & HIS & HL').
  exists (apub a), L', (addkn cur lv), (aatr a). split; [|apply (H true (cur, false)); rewrite <- E; apply (s_I _ _ Hs)].
  eapply inv_step; [exact HIS| |exact Hil].
  intros Hi. apply IL_keepL with (g := g); auto; [rewrite Hv; apply vst_addkn|].
  intros S HS. eapply abs_unlink; eauto.
Qed.


(** ** monotone form: safe for the view and for every view with more facts *)
Definition SAFEm {R} (t : nat) (p : prog R) (lv : lview) : Prop := forall lv', vle lv lv' -> SAFE t p lv'.

Lemma SAFEm_mono {R} t (p : prog R) lv lv1 : vle lv lv1 -> SAFEm t p lv -> SAFEm t p lv1.
Proof. intros H1 H lv' H2. apply H. eapply vle_trans; eauto. Qed.
Lemma SAFEm_here {R} t (p : prog R) lv : SAFEm t p lv -> SAFE t p lv.
Proof. intros H. apply H. apply vle_refl. Qed.

Lemma vle_addkn_mono q lv lv' : vle lv lv' -> vle (addkn q lv) (addkn q lv').
Proof.
  intros (H1 & H2 & H3 & H4 & H5). unfold addkn. destruct (Nat.eqb q null); [repeat split; auto|].
  repeat split; cbn; auto. intros x [<-|Hx]; [now left|right; auto].
Qed.
Lemma vle_addfz_mono c nx lv lv' : vle lv lv' -> vle (addfz c nx lv) (addfz c nx lv').
Proof. intros (H1 & H2 & H3 & H4 & H5). repeat split; cbn; auto. intros x [<-|Hx]; [now left|right; auto]. Qed.

Lemma Sm_ret {R} t (r : R) lv : SAFEm t (Ret r) lv.
Proof. intros lv' _. exact Logic.I. Qed.

Lemma Sm_nx {R} t f (k : V -> prog R) lv : nxlike f -> (forall v, SAFEm t (k v) lv) -> SAFEm t (Act f k) lv.
Proof. intros Hf H lv' Hle. apply S_nx; [exact Hf|]. intros v. now apply H. Qed.

Lemma Sm_ld {R} t p l (k : V -> prog R) lv :
  (forall x, lnk l p (fst x) -> SAFEm t (k (VP x)) (addkn (fst x) lv)) -> SAFEm t (Act (a_ld_next p l) k) lv.
Proof. intros H lv' Hle. apply S_ld. intros x Hx. apply (H x Hx). now apply vle_addkn_mono. Qed.

Lemma Sm_ld0 {R} t p (k : V -> prog R) lv :
  known lv p ->
  (forall x, lnk 0 p (fst x) ->
     SAFEm t (k (VP x)) (if snd x then addfz p (fst x) (addkn (fst x) lv) else addkn (fst x) lv)) ->
  SAFEm t (Act (a_ld_next p 0) k) lv.
Proof.
  intros Hk H lv' Hle. apply S_ld0; [eapply known_mono; eauto|]. intros x Hx. apply (H x Hx).
  destruct (snd x); [apply vle_addfz_mono|]; now apply vle_addkn_mono.
Qed.

Lemma Sm_guard_h {R} t slot p (k : V -> prog R) lv :
  (forall h, (h <= MAXH)%nat -> SAFEm t (k (VZ (Z.of_nat h))) lv) -> SAFEm t (Act (a_guard_st_h t slot p) k) lv.
Proof. intros H lv' Hle. apply S_guard_h. intros h Hh. now apply H. Qed.

Lemma Sm_st_unl {R} t p n h (k : V -> prog R) lv :
  (h <= MAXH)%nat -> (forall v, SAFEm t (k v) lv) -> SAFEm t (Act (a_st_unl p n h) k) lv.
Proof. intros Hh H lv' Hle. apply S_st_unl; [exact Hh|]. intros v. now apply H. Qed.

Lemma Sm_st_own {R} t p l x v (k : V -> prog R) lv :
  vown lv = Some (p, v) -> lnk l p (fst x) -> knownz lv (fst x) ->
  (forall v', SAFEm t (k v') (if Nat.eqb l 0 then set_own lv (Some (p, x)) else lv)) ->
  SAFEm t (Act (a_st_next p l x) k) lv.
Proof.
  intros Ho Hl Hk H lv' Hle. pose proof Hle as (L1 & L2 & L3 & L4 & L5).
  apply (S_st_own t p l x v); [congruence|exact Hl|eapply knownz_mono; eauto|].
  intros v'. apply (H v'). destruct (Nat.eqb l 0); [|exact Hle]. repeat split; cbn; auto.
Qed.

Lemma Sm_cas_up {R} t p l e d (k : V -> prog R) lv :
  l <> 0%nat -> lnk l p (fst d) -> knownz lv (fst d) ->
  (forall ok cur, lnk l p (fst cur) -> SAFEm t (k (VC ok cur)) (addkn (fst cur) lv)) ->
  SAFEm t (Act (a_cas_next p l e d) k) lv.
Proof.
  intros Nl Hl Hk H lv' Hle. apply S_cas_up; [exact Nl|exact Hl|eapply knownz_mono; eauto|].
  intros ok cur Hc. apply (H ok cur Hc). now apply vle_addkn_mono.
Qed.

Lemma Sm_cas0_link {R} t pred succ new key (k : V -> prog R) lv :
  known lv pred -> vown lv = Some (new, (succ, false)) -> below key pred -> key_of new = key ->
  vst lv = @Pending SetSpec (SInsert key) ->
  (forall cur, SAFEm t (k (VC false cur)) (addkn (fst cur) lv)) ->
  SAFEm t (k (VC true (succ, false))) (mkLV (new :: vkn lv) (vfz lv) None (vser lv) (@Linearized SetSpec (SInsert key) (RBool true))) ->
  SAFEm t (Act (a_cas_next pred 0 (succ, false) (new, false)) k) lv.
Proof.
  intros Hk Ho Hb Hkey Hst Hf Hok lv' Hle. pose proof Hle as (L1 & L2 & L3 & L4 & L5).
  apply (S_cas0_link t pred succ new key); auto; try congruence.
  - eapply known_mono; eauto.
  - intros cur. apply (Hf cur). now apply vle_addkn_mono.
  - apply Hok. repeat split; cbn; auto. intros x [<-|Hx]; [now left|right; auto].
Qed.

Lemma Sm_cas0_mark {R} t del p key (k : V -> prog R) lv :
  In del (vkn lv) -> key_of del = key -> snd p = false -> lnk 0 del (fst p) ->
  vst lv = @Pending SetSpec (SErase key) ->
  (forall cur, lnk 0 del (fst cur) -> SAFEm t (k (VC false cur)) (addkn (fst cur) lv)) ->
  SAFEm t (k (VC true p)) (mkLV (vkn lv) ((del, fst p) :: vfz lv) (vown lv) (vser lv) (@Linearized SetSpec (SErase key) (RBool true))) ->
  SAFEm t (Act (a_cas_next del 0 p (fst p, true)) k) lv.
Proof.
  intros Hk Hkey Hm Hl Hst Hf Hok lv' Hle. pose proof Hle as (L1 & L2 & L3 & L4 & L5).
  apply (S_cas0_mark t del p key); auto; try congruence.
  - intros cur Hc. apply (Hf cur Hc). now apply vle_addkn_mono.
  - apply Hok. repeat split; cbn; auto. intros x [<-|Hx]; [now left|right; auto].
Qed.

Lemma Sm_cas0_unlink {R} t pred cur succ (k : V -> prog R) lv :
  known lv pred -> In (cur, succ) (vfz lv) -> lnk 0 pred succ ->
  (forall ok c, lnk 0 pred (fst c) -> SAFEm t (k (VC ok c)) (addkn (fst c) lv)) ->
  SAFEm t (Act (a_cas_next pred 0 (cur, false) (succ, false)) k) lv.
Proof.
  intros Hk Hfz Hl H lv' Hle. pose proof Hle as (L1 & L2 & L3 & L4 & L5).
  apply (S_cas0_unlink t pred cur succ); auto; [eapply known_mono; eauto|].
  intros ok c Hc. apply (H ok c Hc). now apply vle_addkn_mono.
Qed.


(** ** client events *)
Definition set_st (lv : lview) (st : status SetSpec) : lview := mkLV (vkn lv) (vfz lv) (vown lv) (vser lv) st.

Lemma vle_set_st lv lv' st : vle lv lv' -> vle (set_st lv st) (set_st lv' st).
Proof. intros (H1 & H2 & H3 & H4 & H5). repeat split; cbn; auto. Qed.

Lemma S_emit_gen {R} t es (k : prog R) lv lv1 :
  (forall g a tr, Inv nodes g a tr -> view a t = lv ->
     exists atr', Inv nodes g (mk_a a t (apub a) (aL a) lv1 atr') (tr ++ Conc.tag t es)) ->
  SAFE t k lv1 -> SAFE t (Emit es k) lv.
Proof.
  intros H Hk. unfold SAFE. cbn [Conc.safe]. intros g a tr Hi Hv. destruct (H g a tr Hi Hv) as (atr' & H1).
  exists (mk_a a t (apub a) (aL a) lv1 atr'). split; [exact H1|]. split; [apply frame_mk|]. now rewrite view_mk_same.
Qed.

Lemma IS_set_st g a t lv st atr' : IS g a -> view a t = lv -> IS g (mk_a a t (apub a) (aL a) (set_st lv st) atr').
Proof.
  intros Hs Hv. apply (IS_view g g a t _ atr' Hs); [reflexivity|apply (s_HB _ _ Hs)|].
  apply lv_ok_st. rewrite <- Hv. apply (s_views _ _ Hs).
Qed.

Lemma upd_hist_snoc tr e : upd_hist nodes (tr ++ [e]) = hstep (upd_hist nodes tr) e.
Proof. unfold upd_hist. rewrite fold_left_app. reflexivity. Qed.

Lemma Sm_emit_inv {R} t c key (k : prog R) lv :
  vst lv = @Idle SetSpec -> SAFEm t k (set_st lv (@Pending SetSpec (sp_op c key))) -> SAFEm t (Emit (ev_inv c key) k) lv.
Proof.
  intros Hst Hk lv' Hle. pose proof Hle as (L1 & L2 & L3 & L4 & L5).
  apply S_emit_gen with (lv1 := set_st lv' (@Pending SetSpec (sp_op c key))); [|apply Hk; now apply vle_set_st].
  intros g a tr [Hs Hil] Hv. exists (aatr a ++ [@AInv SetSpec t (sp_op c key)]).
  eapply inv_step; [now apply IS_set_st| |exact Hil].
  intros [(S & st & H1 & H2 & H3) H4]. constructor; cbn [aatr aL mk_a].
  - exists S, (upd st t (@Pending SetSpec (sp_op c key))). split; [|split; [|exact H3]].
    + rewrite (MI.lp_run_snoc _ _ _ H1). cbn [lp_step]. rewrite H2, Hv, L5, Hst. reflexivity.
    + intros u. destruct (Nat.eq_dec u t) as [->|Hu]; [now rewrite view_mk_same, upd_same|].
      rewrite view_mk_other by exact Hu. rewrite upd_other by exact Hu. apply H2.
  - unfold ev_inv. cbn [Conc.tag map]. rewrite upd_hist_snoc, erase_app. cbn [erase hstep String.eqb Ascii.eqb Bool.eqb]. now rewrite H4.
Qed.

Lemma res_eqb_refl (r : Specs.res) : res_eqb SetSpec r r = true.
Proof. apply (res_eqb_spec SetSpec). reflexivity. Qed.

(** response of an operation that was linearized at its CAS *)
Lemma Sm_emit_res_lin {R} t o b (k : prog R) lv :
  vst lv = @Linearized SetSpec o (RBool true) -> MI.is_read o (RBool true) = false ->
  SAFEm t k (set_st lv (@Idle SetSpec)) -> SAFEm t (Emit (ev_res 1 b) k) lv.
Proof.
  intros Hst Hrd Hk lv' Hle. pose proof Hle as (L1 & L2 & L3 & L4 & L5).
  apply S_emit_gen with (lv1 := set_st lv' (@Idle SetSpec)); [|apply Hk; now apply vle_set_st].
  intros g a tr [Hs Hil] Hv. exists (aatr a ++ [@ARes SetSpec t (RBool true)]).
  eapply inv_step; [now apply IS_set_st| |exact Hil].
  intros [(S & st & H1 & H2 & H3) H4]. assert (Est : st t = @Linearized SetSpec o (RBool true)) by (rewrite H2, Hv, L5; exact Hst).
  constructor; cbn [aatr aL mk_a].
  - exists S, (upd st t (@Idle SetSpec)). split; [|split; [|exact H3]].
    + rewrite (MI.lp_run_snoc _ _ _ H1). cbn [lp_step]. rewrite Est, res_eqb_refl. reflexivity.
    + intros u. destruct (Nat.eq_dec u t) as [->|Hu]; [now rewrite view_mk_same, upd_same|].
      rewrite view_mk_other by exact Hu. rewrite upd_other by exact Hu. apply H2.
  - destruct (ML.lp_open_split _ _ _ t o H1) as (A & B & EA & HB & _); [rewrite Est; reflexivity|].
    destruct (MI.erase_split_last t o A B HB) as [K1 _]. rewrite <- EA, H4 in K1.
    unfold ev_res. cbn [Conc.tag map]. rewrite upd_hist_snoc, erase_app. cbn [erase hstep String.eqb Ascii.eqb Bool.eqb].
    rewrite K1. cbv zeta. change (1 =? 1) with true. rewrite Hrd, H4. reflexivity.
Qed.

(** response of an operation that did not modify the set: its invocation is deleted from the history *)
Lemma Sm_emit_res_read {R} t o ra b (k : prog R) lv :
  vst lv = @Pending SetSpec o -> MI.is_read o (RBool (ra =? 1)) = true ->
  SAFEm t k (set_st lv (@Idle SetSpec)) -> SAFEm t (Emit (ev_res ra b) k) lv.
Proof.
  intros Hst Hrd Hk lv' Hle. pose proof Hle as (L1 & L2 & L3 & L4 & L5).
  apply S_emit_gen with (lv1 := set_st lv' (@Idle SetSpec)); [|apply Hk; now apply vle_set_st].
  intros g a tr [Hs Hil] Hv. destruct Hil as [Hil|Hex].
  2:{ exists (aatr a). split; [now apply IS_set_st|right; now apply exhausted_app]. }
  destruct Hil as [(S & st & H1 & H2 & H3) H4]. assert (Est : st t = @Pending SetSpec o) by (rewrite H2, Hv, L5; exact Hst).
  destruct (ML.lp_open_split _ _ _ t o H1) as (A & B & EA & HB & HP); [rewrite Est; reflexivity|].
  assert (HB' : forall e, In e B -> MI.aev_tid e <> t) by (apply HP; exact Est).
  rewrite EA in H1. destruct (MI.lp_run_remove A B t o S st H1 HB') as (st' & K1 & K2 & K3).
  exists (A ++ B). split; [now apply IS_set_st|left]. constructor; cbn [aatr aL mk_a].
  - exists S, st'. split; [exact K1|]. split; [|exact H3].
    intros u. destruct (Nat.eq_dec u t) as [->|Hu]; [now rewrite view_mk_same|].
    rewrite view_mk_other by exact Hu. rewrite K2 by exact Hu. apply H2.
  - destruct (MI.erase_split_last t o A B HB) as [J1 J2]. rewrite <- EA, H4 in J1, J2.
    unfold ev_res. cbn [Conc.tag map]. rewrite upd_hist_snoc. cbn [hstep String.eqb Ascii.eqb Bool.eqb].
    rewrite J1. cbv zeta. rewrite Hrd. symmetry. exact J2.
Qed.

Lemma Sm_out_of_fuel {R} t s (k : TL -> prog R) lv :
  (forall s', SAFEm t (k s') (set_st lv (@Idle SetSpec))) -> SAFEm t (out_of_fuel s k) lv.
Proof.
  intros Hk lv' Hle. unfold out_of_fuel.
  apply S_emit_gen with (lv1 := set_st lv' (@Idle SetSpec)); [|apply Hk; now apply vle_set_st].
  intros g a tr [Hs Hil] Hv. exists (aatr a). split; [now apply IS_set_st|right].
  exists t. apply in_or_app. right. now left.
Qed.


(** ** the functions of the model *)
Ltac snx := apply Sm_nx; [nxl|intros ?].

Lemma Sm_assign {R} t s slot (k : prog R) lv : SAFEm t k lv -> SAFEm t (g_assign s slot k) lv.
Proof. intros H. unfold g_assign. snx. snx. exact H. Qed.
Lemma Sm_clear {R} t s slot (k : prog R) lv : SAFEm t k lv -> SAFEm t (g_clear s slot k) lv.
Proof. intros H. unfold g_clear. snx. exact H. Qed.
Lemma Sm_copy {R} t s a b (k : prog R) lv : SAFEm t k lv -> SAFEm t (g_copy s a b k) lv.
Proof. intros H. unfold g_copy. snx. snx. snx. exact H. Qed.
Lemma Sm_retire {R} t s (k : prog R) lv : SAFEm t k lv -> SAFEm t (retire s k) lv.
Proof. intros H. unfold retire. snx. snx. exact H. Qed.
Lemma Sm_free_all {R} t slots : forall s (k : TL -> prog R) lv, (forall s', SAFEm t (k s') lv) -> SAFEm t (g_free_all s slots k) lv.
Proof. induction slots as [|x r IH]; intros s k lv H; cbn [g_free_all]; [apply H|]. apply Sm_clear. apply IH. exact H. Qed.

(** the thread-local record keeps its thread id and its node serial *)
Definition tlk (t n : nat) (s : TL) : Prop := tid s = t /\ ser s = n.
Lemma tlk_alloc1 t n s x s1 : alloc1 s = (x, s1) -> tlk t n s -> tlk t n s1.
Proof. unfold alloc1. destruct (fl s); intros E H; inversion E; subst; exact H. Qed.
Lemma tlk_free1 t n x s : tlk t n s -> tlk t n (free1 x s).
Proof. intros H. exact H. Qed.

Lemma knownz_addkn_mono q lv lv1 : vle (addkn q lv) lv1 -> knownz lv1 q.
Proof. intros H. eapply knownz_mono; [exact H|apply knownz_addkn]. Qed.

Lemma T_ga_protect {R} t fuel : forall s slot p l (k : option mptr -> prog R) lv,
  (forall lv1, vle lv lv1 -> SAFEm t (k None) lv1) ->
  (forall x lv1, vle lv lv1 -> lnk l p (fst x) -> knownz lv1 (fst x) -> SAFEm t (k (Some x)) lv1) ->
  SAFEm t (ga_protect fuel s slot p l k) lv.
Proof.
  induction fuel as [|f IH]; intros s slot p l k lv H0 H1; cbn [ga_protect]; [apply H0, vle_refl|].
  apply Sm_ld. intros x1 L1. snx. snx. apply Sm_ld. intros x2 L2. cbn [vp].
  assert (V : vle lv (addkn (fst x2) (addkn (fst x1) lv))) by (eapply vle_trans; apply vle_addkn).
  destruct (mp_eqb x1 x2).
  - apply H1; [exact V|exact L1|]. eapply knownz_mono; [apply vle_addkn|apply knownz_addkn].
  - apply IH.
    + intros lv1 Hle. apply H0. eapply vle_trans; eauto.
    + intros x lv1 Hle. apply H1. eapply vle_trans; eauto.
Qed.

(** Guard::protect on the cell of a known node: a marked level-0 value is recorded as frozen *)
Definition fzfact (l : nat) (p : ptr) (x : mptr) (lv : lview) : Prop := l = 0%nat -> snd x = true -> In (p, fst x) (vfz lv).

Lemma Sm_ldk {R} t p l (k : V -> prog R) lv :
  known lv p ->
  (forall x lv1, vle lv lv1 -> lnk l p (fst x) -> knownz lv1 (fst x) -> fzfact l p x lv1 -> SAFEm t (k (VP x)) lv1) ->
  SAFEm t (Act (a_ld_next p l) k) lv.
Proof.
  intros Hk H. destruct l as [|l].
  - apply Sm_ld0; [exact Hk|]. intros x Lx. destruct (snd x) eqn:E.
    + apply H; auto.
      * eapply vle_trans; [apply vle_addkn|apply vle_addfz].
      * eapply knownz_mono; [apply vle_addfz|apply knownz_addkn].
      * intros _ _. now left.
    + apply H; auto; [apply vle_addkn|apply knownz_addkn|intros _ X; congruence].
  - apply Sm_ld. intros x Lx. apply H; auto; [apply vle_addkn|apply knownz_addkn|intros X; discriminate].
Qed.

Lemma T_g_protect_again {R} t fuel : forall s slot p l cur (k : option mptr -> prog R) lv,
  known lv p ->
  (forall lv1, vle lv lv1 -> SAFEm t (k None) lv1) ->
  (forall x lv1, vle lv lv1 -> lnk l p (fst x) -> knownz lv1 (fst x) -> fzfact l p x lv1 -> SAFEm t (k (Some x)) lv1) ->
  SAFEm t (g_protect_again fuel s slot p l cur k) lv.
Proof.
  induction fuel as [|f IH]; intros s slot p l cur k lv Hk H0 H1; cbn [g_protect_again]; [apply H0, vle_refl|].
  snx. snx. apply Sm_ldk; [exact Hk|]. intros x2 lv1 V L2 K2 F2. cbn [vp]. destruct (mp_eqb cur x2); [now apply H1|].
  apply IH; [eapply known_mono; eauto| |].
  - intros lv2 Hle. apply H0. eapply vle_trans; eauto.
  - intros x lv2 Hle. apply H1. eapply vle_trans; eauto.
Qed.

Lemma T_g_protect {R} t fuel : forall s slot p l (k : option mptr -> prog R) lv,
  known lv p ->
  (forall lv1, vle lv lv1 -> SAFEm t (k None) lv1) ->
  (forall x lv1, vle lv lv1 -> lnk l p (fst x) -> knownz lv1 (fst x) -> fzfact l p x lv1 -> SAFEm t (k (Some x)) lv1) ->
  SAFEm t (g_protect fuel s slot p l k) lv.
Proof.
  destruct fuel as [|f]; intros s slot p l k lv Hk H0 H1; cbn [g_protect]; [apply H0, vle_refl|].
  apply Sm_ld. intros x1 L1. snx. snx. apply Sm_ldk; [eapply known_mono; [apply vle_addkn|exact Hk]|].
  intros x2 lv1 V L2 K2 F2. cbn [vp].
  assert (V' : vle lv lv1) by (eapply vle_trans; [apply vle_addkn|exact V]).
  destruct (mp_eqb x1 x2); [now apply H1|].
  apply T_g_protect_again; [eapply known_mono; eauto| |].
  - intros lv2 Hle. apply H0. eapply vle_trans; eauto.
  - intros x lv2 Hle. apply H1. eapply vle_trans; eauto.
Qed.

Lemma T_help_remove {R} t n fuel s l pred cur (k : res TL -> prog R) lv :
  tlk t n s -> ltp l pred cur -> known lv pred -> known lv cur ->
  (forall r lv1, vle lv lv1 -> match r with Ok s' => tlk t n s' | Fuel => True end -> SAFEm t (k r) lv1) -> SAFEm t (help_remove fuel s l pred cur k) lv.
Proof.
  intros Ht Hpc Kp Kc Hk. unfold help_remove. snx. destruct (vz v =? Z.of_nat l + 1); [|apply Hk; [apply vle_refl|exact Ht]].
  destruct (alloc1 s) as [hp s1] eqn:Ea. pose proof (tlk_alloc1 _ _ _ _ _ Ea Ht) as Ht1.
  apply T_g_protect; [exact Kc|intros; apply Hk; [assumption|exact Logic.I]|]. intros succ lv1 V Ls Ks Fs.
  assert (Hdone : forall lv2, vle lv1 lv2 -> SAFEm t (g_clear s1 hp (k (Ok (free1 hp s1)))) lv2).
  { intros lv2 V2. apply Sm_clear. apply Hk; [eapply vle_trans; eauto|apply tlk_free1; exact Ht1]. }
  destruct (snd succ) eqn:Em; [|apply Hdone, vle_refl].
  assert (Hafter : forall ok c lv2, vle lv1 lv2 ->
            SAFEm t (if vok (VC ok c) then Act (a_fas_unl cur 1) (fun u1 => if vz u1 =? 1 then retire s1 (g_clear s1 hp (k (Ok (free1 hp s1)))) else g_clear s1 hp (k (Ok (free1 hp s1))))
                     else g_clear s1 hp (k (Ok (free1 hp s1)))) lv2).
  { intros ok c lv2 V2. cbn [vok]. destruct ok; [|now apply Hdone]. snx. destruct (vz v0 =? 1); [apply Sm_retire|]; now apply Hdone. }
  destruct l as [|l'].
  - apply Sm_cas0_unlink; [eapply known_mono; eauto|apply Fs; auto|eapply ltp_trans; eauto|].
    intros ok c _. apply Hafter. apply vle_addkn.
  - apply Sm_cas_up; [discriminate|cbn [fst]; eapply ltp_trans; eauto|exact Ks|].
    intros ok c _. apply Hafter. apply vle_addkn.
Qed.

Lemma T_fp_level {R} t n fuel : forall s key stop own lvl pred ps ncmp (retry : TL -> prog R) k kf kown lv,
  tlk t n s -> below key pred -> known lv pred ->
  (forall s' lv1, tlk t n s' -> vle lv lv1 -> SAFEm t (retry s') lv1) -> (forall lv1, vle lv lv1 -> SAFEm t kf lv1) ->
  (forall s' lv1, tlk t n s' -> vle lv lv1 -> SAFEm t (kown s') lv1) ->
  (forall s' pred' cur c found lv1, tlk t n s' -> vle lv lv1 -> below key pred' -> known lv1 pred' -> knownz lv1 (fst cur) ->
      curfact key stop cur c found -> SAFEm t (k s' pred' cur c found) lv1) ->
  SAFEm t (fp_level fuel s key stop own lvl pred ps ncmp retry k kf kown) lv.
Proof.
  induction fuel as [|f IH]; intros s key stop own lvl pred ps ncmp retry k kf kown lv Ht Hb Kp Hr Hf Ho Hk; cbn [fp_level]; [apply Hf, vle_refl|].
  apply T_ga_protect; [exact Hf|]. intros cur lv1 V1 Lc Kc. destruct (snd cur); [now apply Hr|].
  assert (Kp1 : known lv1 pred) by (eapply known_mono; eauto).
  destruct (Nat.eqb (fst cur) null) eqn:En; [apply Hk; auto; split; [discriminate|now left; apply Nat.eqb_eq]|].
  pose proof (lnk_ltp _ _ _ Lc (eqb_null _ En)) as Lt.
  assert (Kc1 : known lv1 (fst cur)) by (apply known_of_knownz; [exact Kc|now apply eqb_null]).
  apply Sm_ld. intros xs Ls. apply Sm_ld. intros xr Lr. cbn [vp].
  set (lv3 := addkn (fst xr) (addkn (fst xs) lv1)).
  assert (V3 : vle lv1 lv3) by (eapply vle_trans; apply vle_addkn).
  assert (V03 : vle lv lv3) by (eapply vle_trans; eauto).
  destruct (negb (mp_eqb xr (fst cur, false))); [now apply Hr|].
  destruct (snd xs).
  - destruct (negb (Nat.eqb own null) && Nat.eqb (fst cur) own); [now apply Ho|].
    apply (T_help_remove t n); [exact Ht|exact Lt|exact (known_mono _ _ _ V3 Kp1)|exact (known_mono _ _ _ V3 Kc1)|].
    intros [s'|] lv4 V4 Hs; [apply Hr; [exact Hs|]|apply Hf]; eapply vle_trans; eauto.
  - set (c := cmpk (fst cur) key). destruct (Z.ltb_spec c 0) as [C|C].
    + apply Sm_copy. apply IH; auto.
      * right. split; [eapply ltp_isnode; eauto|]. unfold c, cmpk in C. lia.
      * exact (known_mono _ _ _ V3 Kc1).
      * intros s' lv4 Hs V4. apply Hr; [exact Hs|]. eapply vle_trans; eauto.
      * intros lv4 V4. apply Hf. eapply vle_trans; eauto.
      * intros s' lv4 Hs V4. apply Ho; [exact Hs|]. eapply vle_trans; eauto.
      * intros s' pred' cur' c' found lv4 Ht' V4. apply Hk; auto. eapply vle_trans; eauto.
    + destruct ((c =? 0) && stop) eqn:E.
      * apply Hk; auto; [exact (known_mono _ _ _ V3 Kp1)|exact (knownz_mono _ _ _ V3 Kc)|].
        split; [intros _; split; [eapply ltp_isnode; eauto|apply andb_true_iff in E; apply E]|]. right. apply andb_true_iff in E. destruct E as [E1 E2]. apply Z.eqb_eq in E1.
        repeat split; [eapply ltp_isnode; eauto|fold c; lia|lia|intros _ X; discriminate].
      * apply Hk; auto; [exact (known_mono _ _ _ V3 Kp1)|exact (knownz_mono _ _ _ V3 Kc)|].
        split; [discriminate|]. right. repeat split; [eapply ltp_isnode; eauto|exact C|].
        intros -> _. rewrite andb_true_r in E. apply Z.eqb_neq in E. lia.
Qed.

Definition posk_above (n : nat) (lv : lview) (ps : pos) : Prop :=
  forall L, (n <= L < MAXH)%nat -> known lv (pprev ps L) /\ knownz lv (psucc ps L).
Definition posk := posk_above 0.

Lemma posk_mono n lv lv1 ps : vle lv lv1 -> posk_above n lv ps -> posk_above n lv1 ps.
Proof. intros V H L HL. destruct (H L HL). split; [eapply known_mono|eapply knownz_mono]; eauto. Qed.

(** what the view knows about a position: on the early exit of the search only [pcur] *)
Definition okn (stop : bool) (lv : lview) (o : fp_out) : Prop :=
  match o with
  | FpFound ps => knownz lv (pcur ps) /\ ((stop = true /\ isnode (pcur ps)) \/ posk lv ps)
  | FpNotFound ps => posk lv ps
  | FpOwnRemoved => True
  end.

Lemma T_fp_levels {R} t sn fuel : forall n s key stop own pred ps ncmp (retry : TL -> prog R) k kf lv,
  tlk t sn s -> (n <= MAXH)%nat -> below key pred -> known lv pred -> pos_above n key stop ps -> posk_above n lv ps ->
  ((n < MAXH)%nat -> (pcur ps = null \/ (isnode (pcur ps) /\ ncmp = cmpk (pcur ps) key)) /\ knownz lv (pcur ps)) ->
  (forall s' lv1, tlk t sn s' -> vle lv lv1 -> SAFEm t (retry s') lv1) -> (forall lv1, vle lv lv1 -> SAFEm t kf lv1) ->
  (forall s' o lv1, tlk t sn s' -> vle lv lv1 -> fp_post key stop o -> okn stop lv1 o -> SAFEm t (k s' o) lv1) ->
  SAFEm t (fp_levels fuel n s key stop own pred ps ncmp retry k kf) lv.
Proof.
  induction n as [|lvl IH]; intros s key stop own pred ps ncmp retry k kf lv Ht Hn Hb Kp Hp Hq Hc Hr Hf Hk; cbn [fp_levels].
  - destruct (Hc ltac:(unfold MAXH; lia)) as [Hc' Kc].
    destruct (Z.eqb_spec ncmp 0) as [E|E]; apply Hk; auto using vle_refl; cbn [fp_post okn].
    + right. split; [exact Hp|]. destruct Hc' as [H|(H1 & H2)]; [now left|right]. split; auto. unfold cmpk in H2. lia.
    + split; [exact Kc|now right].
  - apply Sm_assign. apply (T_fp_level t sn); auto.
    + intros s' lv1 Hs V. apply Hk; auto; exact Logic.I.
    + intros s' pred' cur c found lv1 Ht' V Hb' Kp' Kc' Hcf. destruct found.
      * destruct Hcf as [Hfd _]. destruct (Hfd eq_refl) as [F1 F2]. apply Hk; auto; cbn [fp_post okn pcur].
        -- left. split; assumption.
        -- split; [exact Kc'|]. left. split; assumption.
      * apply IH; auto; [lia| | | | | |].
        -- intros L HL. cbn [pprev psucc]. destruct Hcf as [_ Hcf]. destruct (Nat.eq_dec L lvl) as [->|NL].
           ++ rewrite !set_lvl_same. split; [exact Hb'|]. destruct Hcf as [H|(H1 & H2 & H3 & H4)]; [now left|right].
              split; [exact H1|]. unfold cmpk in *. destruct stop; [specialize (H4 eq_refl eq_refl); lia|lia].
           ++ rewrite !set_lvl_other by exact NL. apply Hp. lia.
        -- intros L HL. cbn [pprev psucc]. destruct (Nat.eq_dec L lvl) as [->|NL].
           ++ rewrite !set_lvl_same. split; assumption.
           ++ rewrite !set_lvl_other by exact NL. eapply posk_mono; [exact V|exact Hq|lia].
        -- intros _. cbn [pcur]. split; [|exact Kc']. destruct Hcf as [_ [H|(H1 & H2 & H3 & H4)]]; [now left|right; auto].
        -- intros s'' lv2 Hs V2. apply Hr; [exact Hs|]. eapply vle_trans; eauto.
        -- intros lv2 V2. apply Hf. eapply vle_trans; eauto.
        -- intros s'' o lv2 Ht'' V2. apply Hk; auto. eapply vle_trans; eauto.
Qed.

Lemma T_find_position {R} t n fuel : forall s key stop own ps (k : TL -> fp_out -> prog R) kf lv,
  tlk t n s ->
  (forall s' o lv1, tlk t n s' -> vle lv lv1 -> fp_post' own key stop o -> okn stop lv1 o -> SAFEm t (k s' o) lv1) ->
  (forall lv1, vle lv lv1 -> SAFEm t kf lv1) -> SAFEm t (find_position fuel s key stop own ps k kf) lv.
Proof.
  induction fuel as [|f IH]; intros s key stop own ps k kf lv Ht Hk Hf; cbn [find_position]; [apply Hf, vle_refl|].
  apply (T_fp_levels t n); auto.
  - now left.
  - now left.
  - intros L HL. lia.
  - intros L HL. lia.
  - intros HL. lia.
  - intros s' lv1 Hs V. apply IH; auto.
    + intros s'' o lv2 Ht'' V2. apply Hk; auto. eapply vle_trans; eauto.
    + intros lv2 V2. apply Hf. eapply vle_trans; eauto.
  - intros s' [ps'| ps'|] lv1 Ht' V Hp Ho.
    + destruct (Nat.eqb own null && Nat.eqb (pcur ps') null) eqn:E.
      * apply andb_true_iff in E. destruct E as [E1 E2]. apply Nat.eqb_eq in E2. cbn [fp_post okn] in *.
        assert (Nn : ~ isnode (pcur ps')) by (unfold isnode; rewrite E2; unfold null; lia).
        apply Hk; auto.
        -- split; [|intros _; exact Logic.I]. cbn [fp_post]. destruct Hp as [(_ & Hn)|(Hp & _)]; [tauto|exact Hp].
        -- cbn [okn]. destruct Ho as (_ & [(_ & Hn)|Ho]); [tauto|exact Ho].
      * apply Hk; auto. split; [exact Hp|]. intros ->. cbn [Nat.eqb andb] in E. now apply Nat.eqb_neq.
    + apply Hk; auto. split; [exact Hp|intros _; exact Logic.I].
    + apply Hk; auto. split; [exact Logic.I|intros _; exact Logic.I].
Qed.

Lemma posk_full (stop : bool) lv ps : (stop = true /\ isnode (pcur ps)) \/ posk lv ps -> stop = false -> posk lv ps.
Proof. intros [(E & _)|H] E'; [congruence|exact H]. Qed.

(** ** try_remove_at *)
Lemma S_ld_fz {R} t p nx (k : V -> prog R) lv :
  In (p, nx) (vfz lv) -> (lnk 0 p nx -> SAFE t (k (VP (nx, true))) lv) -> SAFE t (Act (a_ld_next p 0) k) lv.
Proof.
  intros Hin H. apply S_keep; [nxl|]. intros g a Hs Hv. exists lv. split; [reflexivity|].
  pose proof (s_views _ _ Hs t) as Vt. rewrite Hv in Vt. split; [exact Vt|].
  cbn [a_ld_next fst snd]. destruct Vt as (_ & F & _). rewrite Forall_forall in F. destruct (F _ Hin) as (_ & F2). cbn [fst snd] in F2.
  rewrite F2. apply H. pose proof (s_I _ _ Hs p 0%nat) as Hl. now rewrite F2 in Hl.
Qed.
Lemma Sm_ld_fz {R} t p nx (k : V -> prog R) lv :
  In (p, nx) (vfz lv) -> (lnk 0 p nx -> SAFEm t (k (VP (nx, true))) lv) -> SAFEm t (Act (a_ld_next p 0) k) lv.
Proof. intros Hin H lv' Hle. apply S_ld_fz with nx; [destruct Hle as (_ & H2 & _); now apply H2|]. intros Hl. now apply H. Qed.

Lemma T_tr_mark_one {R} t fuel : forall del l cur (k : prog R) kf lv,
  l <> 0%nat -> lnk l del (fst cur) -> knownz lv (fst cur) ->
  (forall lv1, vle lv lv1 -> SAFEm t k lv1) -> (forall lv1, vle lv lv1 -> SAFEm t kf lv1) ->
  SAFEm t (tr_mark_one fuel del l cur k kf) lv.
Proof.
  induction fuel as [|f IH]; intros del l cur k kf lv Nl Hc Kc Hk Hf; cbn [tr_mark_one]; [apply Hf, vle_refl|].
  apply Sm_cas_up; [exact Nl|exact Hc|exact Kc|]. intros ok c Lc. cbn [vok vp]. destruct ok; [apply Hk, vle_addkn|].
  destruct (snd c); [apply Hk, vle_addkn|]. apply IH; auto; [apply knownz_addkn| |].
  - intros lv1 V. apply Hk. eapply vle_trans; [apply vle_addkn|exact V].
  - intros lv1 V. apply Hf. eapply vle_trans; [apply vle_addkn|exact V].
Qed.

Lemma T_tr_mark_upper {R} t fuel : forall n del (k : prog R) kf lv,
  (forall lv1, vle lv lv1 -> SAFEm t k lv1) -> (forall lv1, vle lv lv1 -> SAFEm t kf lv1) ->
  SAFEm t (tr_mark_upper fuel del n k kf) lv.
Proof.
  induction n as [|n IH]; intros del k kf lv Hk Hf; cbn [tr_mark_upper]; [apply Hk, vle_refl|].
  apply Sm_ld. intros x Lx. cbn [vp].
  assert (Hnext : forall lv1, vle (addkn (fst x) lv) lv1 -> SAFEm t (tr_mark_upper fuel del n k kf) lv1).
  { intros lv1 V. apply IH.
    - intros lv2 V2. apply Hk. eapply vle_trans; [apply vle_addkn|]. eapply vle_trans; eauto.
    - intros lv2 V2. apply Hf. eapply vle_trans; [apply vle_addkn|]. eapply vle_trans; eauto. }
  destruct (snd x); [apply Hnext, vle_refl|].
  apply T_tr_mark_one; auto; [apply knownz_addkn|].
  intros lv1 V. apply Hf. eapply vle_trans; [apply vle_addkn|exact V].
Qed.

(** continuation of an operation: only the serial number and the status of the view matter *)
Definition kpost {R} t n (st : status SetSpec) (k : TL -> prog R) : Prop :=
  forall s' lv1, tlk t n s' -> vser lv1 = n -> vst lv1 = st -> SAFEm t (k s') lv1.

Lemma vle_ser lv lv1 : vle lv lv1 -> vser lv1 = vser lv.
Proof. intros (_ & _ & _ & H & _). exact H. Qed.
Lemma vle_st lv lv1 : vle lv lv1 -> vst lv1 = vst lv.
Proof. intros (_ & _ & _ & _ & H). exact H. Qed.
Lemma vle_own lv lv1 : vle lv lv1 -> vown lv1 = vown lv.
Proof. intros (_ & _ & H & _). exact H. Qed.
Lemma vle_fz lv lv1 x : vle lv lv1 -> In x (vfz lv) -> In x (vfz lv1).
Proof. intros (_ & H & _). apply H. Qed.
Lemma vle_kn lv lv1 x : vle lv lv1 -> In x (vkn lv) -> In x (vkn lv1).
Proof. intros (H & _). apply H. Qed.

Definition kfpost {R} t n (kf : prog R) : Prop := forall lv1, vser lv1 = n -> SAFEm t kf lv1.

Lemma T_tr_unlink {R} t sn fuel : forall n s key del nx ps (k : TL -> prog R) kf lv,
  tlk t sn s -> vser lv = sn -> (n <= MAXH)%nat -> rem_pre ps del -> posk lv ps -> In (del, nx) (vfz lv) ->
  kpost t sn (vst lv) k -> kfpost t sn kf ->
  SAFEm t (tr_unlink fuel s key del n ps k kf) lv.
Proof.
  induction n as [|l IH]; intros s key del nx ps k kf lv Ht Hser Hn Hp Hq Hfz Hk Hf; cbn [tr_unlink]; [apply Sm_retire; now apply Hk|].
  destruct Hp as [Hd Hp].
  assert (Hfind : forall lv1, vle lv lv1 -> SAFEm t (find_position fuel s key false null ps (fun s' _ => k s') kf) lv1).
  { intros lv1 V. apply (T_find_position t sn); auto.
    - intros s' o lv2 Hs V2 _ _. apply Hk; [exact Hs| |].
      + rewrite (vle_ser _ _ V2), (vle_ser _ _ V). exact Hser.
      + rewrite (vle_st _ _ V2), (vle_st _ _ V). reflexivity.
    - intros lv2 V2. apply Hf. rewrite (vle_ser _ _ V2), (vle_ser _ _ V). exact Hser. }
  assert (Hnext : forall lv1, vle lv lv1 -> SAFEm t (Act (a_fas_unl del 1) (fun _ => tr_unlink fuel s key del l ps k kf)) lv1).
  { intros lv1 V. snx. apply IH with (nx := nx); auto; [rewrite (vle_ser _ _ V); exact Hser|lia|split; auto|eapply posk_mono; eauto|eapply vle_fz; eauto|].
    rewrite (vle_st _ _ V). exact Hk. }
  destruct (Hq l ltac:(lia)) as [Kp _].
  destruct l as [|l'].
  - apply Sm_ld_fz with nx; [exact Hfz|]. intros Ls. cbn [vp fst].
    apply Sm_cas0_unlink; [exact Kp|exact Hfz| |].
    + eapply ltp_trans; [|exact Ls]. apply nbelow_ltp; [apply Hp; lia|exact Hd].
    + intros ok c _. cbn [vok]. destruct ok; [apply Hnext|apply Hfind]; apply vle_addkn.
  - apply Sm_ld. intros xs Ls. cbn [vp].
    apply Sm_cas_up; [discriminate| |apply knownz_addkn|].
    + cbn [fst]. eapply ltp_trans; [|exact Ls]. apply nbelow_ltp; [apply Hp; lia|exact Hd].
    + intros ok c _. cbn [vok]. destruct ok; [apply Hnext|apply Hfind]; (eapply vle_trans; apply vle_addkn).
Qed.

Lemma T_tr_lp {R} t sn fuel : forall s key del h p ps (k : TL -> bool -> prog R) kf lv,
  tlk t sn s -> vser lv = sn -> (h <= MAXH)%nat -> rem_pre ps del -> posk lv ps -> In del (vkn lv) -> key_of del = key ->
  snd p = false -> lnk 0 del (fst p) -> vst lv = @Pending SetSpec (SErase key) ->
  kpost t sn (@Pending SetSpec (SErase key)) (fun s' => k s' false) ->
  kpost t sn (@Linearized SetSpec (SErase key) (RBool true)) (fun s' => k s' true) ->
  kfpost t sn kf ->
  SAFEm t (tr_lp fuel s key del h p ps k kf) lv.
Proof.
  induction fuel as [|f IH]; intros s key del h p ps k kf lv Ht Hser Hh Hp Hq Kd Hkey Hm Hl Hst Hk0 Hk1 Hf; cbn [tr_lp]; [now apply Hf|].
  apply Sm_cas0_mark with (key := key); auto.
  - intros c Lc. cbn [vok vp]. assert (V : vle lv (addkn (fst c) lv)) by apply vle_addkn.
    destruct (snd c) eqn:Ec.
    + apply Hk0; [exact Ht|rewrite (vle_ser _ _ V); exact Hser|rewrite (vle_st _ _ V); exact Hst].
    + apply IH; auto; [rewrite (vle_ser _ _ V); exact Hser|eapply posk_mono; eauto|eapply vle_kn; eauto|rewrite (vle_st _ _ V); exact Hst].
  - cbn [vok]. set (lvS := mkLV (vkn lv) ((del, fst p) :: vfz lv) (vown lv) (vser lv) (@Linearized SetSpec (SErase key) (RBool true))).
    apply (T_tr_unlink t sn) with (nx := fst p); auto.
    now left.
Qed.

Lemma T_try_remove_at {R} t sn fuel s del h ps (k : TL -> bool -> prog R) kf lv :
  tlk t sn s -> vser lv = sn -> (h <= MAXH)%nat -> rem_pre ps del -> posk lv ps -> In del (vkn lv) ->
  vst lv = @Pending SetSpec (SErase (key_of del)) ->
  kpost t sn (@Pending SetSpec (SErase (key_of del))) (fun s' => k s' false) ->
  kpost t sn (@Linearized SetSpec (SErase (key_of del)) (RBool true)) (fun s' => k s' true) ->
  kfpost t sn kf ->
  SAFEm t (try_remove_at fuel s del h ps k kf) lv.
Proof.
  intros Ht Hser Hh Hp Hq Kd Hst Hk0 Hk1 Hf. unfold try_remove_at. apply T_tr_mark_upper.
  - intros lv1 V. apply Sm_ldk; [right; eapply vle_kn; eauto|]. intros x lv2 V2 Lx Kx _. cbn [vp].
    assert (V02 : vle lv lv2) by (eapply vle_trans; eauto).
    apply (T_tr_lp t sn); auto; [rewrite (vle_ser _ _ V02); exact Hser|eapply posk_mono; eauto|eapply vle_kn; eauto|rewrite (vle_st _ _ V02); exact Hst].
  - intros lv1 V. apply Hf. rewrite (vle_ser _ _ V). exact Hser.
Qed.

(** ** insert_at_position *)
Lemma T_ia_clear_upper {R} t new v : forall h l (k : prog R) lv,
  (1 <= l)%nat -> vown lv = Some (new, v) -> SAFEm t k lv -> SAFEm t (ia_clear_upper new l h k) lv.
Proof.
  induction h as [|h IH]; intros l k lv Hl Ho Hk; cbn [ia_clear_upper]; [exact Hk|].
  destruct (Nat.ltb l (l + S h)); [|exact Hk].
  apply Sm_st_own with (v := v); [exact Ho|now left|now left|]. intros _.
  destruct (Nat.eqb_spec l 0) as [E|_]; [lia|]. apply IH; auto.
Qed.

Lemma posk_incl lv lv1 ps : incl (vkn lv) (vkn lv1) -> posk lv ps -> posk lv1 ps.
Proof.
  intros Hi H L HL. destruct (H L HL) as [A B]. split; [destruct A as [A|A]; [now left|right; auto]|destruct B as [B|B]; [now left|right; auto]].
Qed.

Lemma T_ia_level {R} t sn fuel : forall s key new h l p ps (knext : TL -> pos -> prog R) kdone kf lv,
  tlk t sn s -> (1 <= l < MAXH)%nat -> ins_pre key new -> In new (vkn lv) -> pos_full key false ps -> posk lv ps ->
  (forall s' ps' lv1, tlk t sn s' -> vle lv lv1 -> pos_full key false ps' -> posk lv1 ps' -> SAFEm t (knext s' ps') lv1) ->
  (forall s' lv1, tlk t sn s' -> vle lv lv1 -> SAFEm t (kdone s') lv1) -> (forall lv1, vle lv lv1 -> SAFEm t kf lv1) ->
  SAFEm t (ia_level fuel s key new h l p ps knext kdone kf) lv.
Proof.
  induction fuel as [|f IH]; intros s key new h l p ps knext kdone kf lv Ht Hl Hn Kn Hp Hq Hk Hd Hf; cbn [ia_level]; [apply Hf, vle_refl|].
  destruct l as [|l']; [lia|]. destruct (Hp (S l') ltac:(lia)) as [P1 P2]. destruct (Hq (S l') ltac:(lia)) as [Q1 Q2].
  assert (Hgive : forall lv1, vle lv lv1 ->
            SAFEm t (Act (a_fas_unl new (Z.of_nat (h - S l'))) (fun _ => find_position (S f) s key false null ps (fun s' _ => kdone s') kf)) lv1).
  { intros lv1 V. snx. apply (T_find_position t sn); auto.
    - intros s' o lv2 Hs V2 _ _. apply Hd; [exact Hs|]. eapply vle_trans; eauto.
    - intros lv2 V2. apply Hf. eapply vle_trans; eauto. }
  apply Sm_cas_up; [discriminate|cbn [fst]; eapply new_succ; eauto|exact Q2|]. intros ok c Lc. cbn [vok].
  assert (V1 : vle lv (addkn (fst c) lv)) by apply vle_addkn.
  destruct ok; cbn [negb]; [|now apply Hgive].
  apply Sm_cas_up; [discriminate|cbn [fst]; eapply below_new; eauto|right; eapply vle_kn; eauto|]. intros ok2 c2 _. cbn [vok].
  set (lv2 := addkn (fst c2) (addkn (fst c) lv)). assert (V2 : vle lv lv2) by (eapply vle_trans; [exact V1|apply vle_addkn]).
  destruct ok2; [apply Hk; auto; eapply posk_mono; eauto|].
  apply (T_find_position t sn); auto.
  - intros s' o lv3 Hs V3 [Ho _] Hkn. assert (V03 : vle lv lv3) by (eapply vle_trans; eauto). destruct o as [ps'|ps'|].
    + cbn [fp_post okn] in *. destruct Ho as [(X & _)|(Ho & _)]; [discriminate|]. destruct Hkn as (_ & Hkn).
      apply IH; auto.
      * eapply vle_kn; eauto.
      * now apply (posk_full false).
      * intros s'' ps'' lv4 Hs' V4. apply Hk; auto. eapply vle_trans; eauto.
      * intros s'' lv4 Hs' V4. apply Hd; auto. eapply vle_trans; eauto.
      * intros lv4 V4. apply Hf. eapply vle_trans; eauto.
    + snx. apply (T_find_position t sn); auto.
      * intros s'' o' lv4 Hs' V4 _ _. apply Hd; auto. eapply vle_trans; eauto.
      * intros lv4 V4. apply Hf. eapply vle_trans; eauto.
    + snx. apply (T_find_position t sn); auto.
      * intros s'' o' lv4 Hs' V4 _ _. apply Hd; auto. eapply vle_trans; eauto.
      * intros lv4 V4. apply Hf. eapply vle_trans; eauto.
  - intros lv3 V3. apply Hf. eapply vle_trans; eauto.
Qed.

Lemma T_ia_levels {R} t sn fuel : forall n s key new h l ps (kdone : TL -> prog R) kf lv,
  tlk t sn s -> (1 <= l)%nat -> (l + n <= MAXH)%nat -> ins_pre key new -> In new (vkn lv) -> pos_full key false ps -> posk lv ps ->
  (forall s' lv1, tlk t sn s' -> vle lv lv1 -> SAFEm t (kdone s') lv1) -> (forall lv1, vle lv lv1 -> SAFEm t kf lv1) ->
  SAFEm t (ia_levels fuel n s key new h l ps kdone kf) lv.
Proof.
  induction n as [|n IH]; intros s key new h l ps kdone kf lv Ht H1 H2 Hn Kn Hp Hq Hd Hf; cbn [ia_levels]; [apply Hd; [exact Ht|apply vle_refl]|].
  apply (T_ia_level t sn); auto; [lia|].
  intros s' ps' lv1 Hs V Hp' Hq'. apply IH; auto; [lia|eapply vle_kn; eauto| |].
  - intros s'' lv2 Hs' V2. apply Hd; auto. eapply vle_trans; eauto.
  - intros lv2 V2. apply Hf. eapply vle_trans; eauto.
Qed.

Lemma T_insert_at {R} t sn fuel s key new h ps (k : TL -> bool -> prog R) kf v lv :
  tlk t sn s -> vser lv = sn -> (1 <= h <= MAXH)%nat -> ins_pre key new -> pos_full key true ps -> posk lv ps ->
  vown lv = Some (new, v) -> vst lv = @Pending SetSpec (SInsert key) ->
  (forall s' lv1, tlk t sn s' -> vser lv1 = sn -> vst lv1 = @Pending SetSpec (SInsert key) -> (exists v', vown lv1 = Some (new, v')) ->
      SAFEm t (k s' false) lv1) ->
  kpost t sn (@Linearized SetSpec (SInsert key) (RBool true)) (fun s' => k s' true) -> kfpost t sn kf ->
  SAFEm t (insert_at fuel s key new h ps k kf) lv.
Proof.
  intros Ht Hser Hh Hn Hp Hq Ho Hst Hk0 Hk1 Hf. unfold insert_at. apply T_ia_clear_upper with (v := v); [lia|exact Ho|].
  destruct (Hp 0%nat ltac:(unfold MAXH; lia)) as [P1 P2]. destruct (Hq 0%nat ltac:(unfold MAXH; lia)) as [Q1 Q2].
  apply Sm_st_own with (v := v); [exact Ho|cbn [fst]; eapply new_succ0; eauto|exact Q2|]. intros _. cbn [Nat.eqb].
  set (lv1 := set_own lv (Some (new, (psucc ps 0%nat, false)))).
  apply Sm_cas0_link with (key := key); auto; [apply Hn| |].
  - intros cur. cbn [vok negb]. assert (V : vle lv1 (addkn (fst cur) lv1)) by apply vle_addkn.
    apply Hk0; [exact Ht|rewrite (vle_ser _ _ V); exact Hser|rewrite (vle_st _ _ V); exact Hst|].
    rewrite (vle_own _ _ V). eexists. reflexivity.
  - cbn [vok negb]. apply (T_ia_levels t sn); [exact Ht|lia|lia|exact Hn|now left|now apply pos_full_weaken| | |].
    + eapply posk_incl; [|exact Hq]. cbn [vkn lv1 set_own]. apply incl_tl, incl_refl.
    + intros s' lv2 Hs V. apply Hk1; [exact Hs|rewrite (vle_ser _ _ V); exact Hser|rewrite (vle_st _ _ V); reflexivity].
    + intros lv2 V. apply Hf. rewrite (vle_ser _ _ V). exact Hser.
Qed.

Lemma T_insert_loop {R} t sn fuel : forall s key new h tower ps (k : TL -> bool -> prog R) kf v lv,
  tlk t sn s -> vser lv = sn -> (1 <= h <= MAXH)%nat -> ins_pre key new ->
  vown lv = Some (new, v) -> vst lv = @Pending SetSpec (SInsert key) ->
  kpost t sn (@Pending SetSpec (SInsert key)) (fun s' => k s' false) ->
  kpost t sn (@Linearized SetSpec (SInsert key) (RBool true)) (fun s' => k s' true) -> kfpost t sn kf ->
  SAFEm t (insert_loop fuel s key new h tower ps k kf) lv.
Proof.
  induction fuel as [|f IH]; intros s key new h tower ps k kf v lv Ht Hser Hh Hn Ho Hst Hk0 Hk1 Hf; cbn [insert_loop]; [now apply Hf|].
  apply (T_find_position t sn); auto.
  - intros s1 o lv1 Hs V [Hpo _] Hkn.
    assert (Hser1 : vser lv1 = sn) by (rewrite (vle_ser _ _ V); exact Hser).
    assert (Hst1 : vst lv1 = @Pending SetSpec (SInsert key)) by (rewrite (vle_st _ _ V); exact Hst).
    destruct o as [ps1|ps1|]; try (now apply Hk0).
    cbn [fp_post okn] in *.
    assert (Hins : SAFEm t (insert_at (S f) s1 key new h ps1
              (fun s2 ok => if ok then Act a_ld_hgt (fun _ => Act a_faa_cnt (fun _ => k s2 true))
                            else insert_loop f s2 key new h true ps1 k kf) kf) lv1).
    { apply (T_insert_at t sn) with (v := v); auto; [rewrite (vle_own _ _ V); exact Ho| |].
      - intros s2 lv2 Hs2 Hser2 Hst2 (v' & Ho2). now apply IH with (v := v').
      - intros s2 lv2 Hs2 Hser2 Hst2. snx. snx. now apply Hk1. }
    destruct tower; [exact Hins|]. destruct (Nat.ltb 1 h); [|exact Hins]. apply Sm_st_unl; [lia|]. intros _. exact Hins.
  - intros lv1 V. apply Hf. rewrite (vle_ser _ _ V). exact Hser.
Qed.


(** ** find_fastpath: loads and guard operations only *)
Lemma T_ff_level {R} t fuel : forall s key ga gb lvl pred cur (k : ff_out -> ptr -> prog R) kf lv,
  (forall o p lv1, vle lv lv1 -> SAFEm t (k o p) lv1) -> (forall lv1, vle lv lv1 -> SAFEm t kf lv1) ->
  SAFEm t (ff_level fuel s key ga gb lvl pred cur k kf) lv.
Proof.
  induction fuel as [|f IH]; intros s key ga gb lvl pred cur k kf lv Hk Hf; cbn [ff_level]; [apply Hf, vle_refl|].
  destruct (Nat.eqb (fst cur) null && negb (snd cur)); [apply Hk, vle_refl|]. destruct (snd cur); [apply Hk, vle_refl|].
  destruct (cmpk (fst cur) key <? 0).
  - apply Sm_copy. apply T_ga_protect; [exact Hf|]. intros nx lv1 V _ _. apply IH.
    + intros o p lv2 V2. apply Hk. eapply vle_trans; eauto.
    + intros lv2 V2. apply Hf. eapply vle_trans; eauto.
  - destruct (cmpk (fst cur) key =? 0); [|apply Hk, vle_refl]. apply Sm_ld. intros x _. cbn [vp].
    destruct (snd x); apply Hk, vle_addkn.
Qed.

Lemma T_ff_levels {R} t fuel : forall n s key ga gb pred (k : ff_out -> prog R) kf lv,
  (forall o lv1, vle lv lv1 -> SAFEm t (k o) lv1) -> (forall lv1, vle lv lv1 -> SAFEm t kf lv1) ->
  SAFEm t (ff_levels fuel n s key ga gb pred k kf) lv.
Proof.
  induction n as [|lvl IH]; intros s key ga gb pred k kf lv Hk Hf; cbn [ff_levels]; [apply Hk, vle_refl|].
  apply T_ga_protect; [exact Hf|]. intros cur lv1 V _ _. apply T_ff_level.
  - intros o p lv2 V2. assert (V02 : vle lv lv2) by (eapply vle_trans; eauto). destruct o; try (now apply Hk).
    apply IH.
    + intros o lv3 V3. apply Hk. eapply vle_trans; eauto.
    + intros lv3 V3. apply Hf. eapply vle_trans; eauto.
  - intros lv2 V2. apply Hf. eapply vle_trans; eauto.
Qed.

Lemma T_find_fastpath {R} t fuel : forall s key ga gb attempt (k : ff_out -> prog R) kf lv,
  (forall o lv1, vle lv lv1 -> SAFEm t (k o) lv1) -> (forall lv1, vle lv lv1 -> SAFEm t kf lv1) ->
  SAFEm t (find_fastpath fuel s key ga gb attempt k kf) lv.
Proof.
  induction fuel as [|f IH]; intros s key ga gb attempt k kf lv Hk Hf; cbn [find_fastpath]; [apply Hf, vle_refl|].
  snx. apply T_ff_levels; [|exact Hf]. intros o lv1 V. destruct o; try (now apply Hk).
  destruct (Nat.ltb (S attempt) 4); [|now apply Hk]. apply IH.
  - intros o lv2 V2. apply Hk. eapply vle_trans; eauto.
  - intros lv2 V2. apply Hf. eapply vle_trans; eauto.
Qed.

(** ** the operations *)
Lemma node_id_owner t ser k : (t < 64)%nat -> (k < 8)%nat -> owner_of (node_id t ser k) = t.
Proof.
  intros Ht Hk. unfold owner_of, node_id, mk_node.
  replace (2 + 8 * (ser * 64 + t) + k - 2)%nat with (k + (ser * 64 + t) * 8)%nat by lia.
  rewrite Nat.div_add by lia. rewrite (Nat.div_small k 8) by lia. cbn [Nat.add].
  rewrite Nat.add_comm, Nat.mod_add by lia. now apply Nat.mod_small.
Qed.
Lemma node_id_ser t ser k : (t < 64)%nat -> (k < 8)%nat -> ser_of (node_id t ser k) = ser.
Proof.
  intros Ht Hk. unfold ser_of, node_id, mk_node.
  replace (2 + 8 * (ser * 64 + t) + k - 2)%nat with (k + (ser * 64 + t) * 8)%nat by lia.
  rewrite Nat.div_add by lia. rewrite (Nat.div_small k 8) by lia. cbn [Nat.add].
  rewrite Nat.add_comm, Nat.div_add by lia. rewrite (Nat.div_small t 64) by lia. reflexivity.
Qed.

(** the constructor of my next node: the node becomes my not-yet-linked node *)
Lemma S_alloc {R} t key (k : V -> prog R) lv :
  (t < 64)%nat -> (key < 8)%nat ->
  (forall v w, SAFE t (k v) (mkLV (vkn lv) (vfz lv) (Some (node_id t (vser lv) key, w)) (S (vser lv)) (vst lv))) ->
  SAFE t (Act (a_st_unl (node_id t (vser lv) key) 1 1) k) lv.
Proof.
  intros Ht Hkey H. apply S_act. intros g a tr [Hs Hl] Hv. set (new := node_id t (vser lv) key).
  set (lv' := mkLV (vkn lv) (vfz lv) (Some (new, nxt g new 0)) (S (vser lv)) (vst lv)).
  exists (apub a), (aL a), lv', (aatr a). split; [|apply H].
  cbn [a_st_unl fst snd]. pose proof (s_views _ _ Hs t) as Vt. rewrite Hv in Vt. destruct Vt as (K & F & O & Fr).
  assert (Hnew : isnode new) by apply mk_node_isnode.
  destruct (Fr new Hnew (node_id_owner _ _ _ Ht Hkey) ltac:(unfold new; rewrite node_id_ser by assumption; lia)) as [Fp _].
  eapply inv_step; [| |exact Hl].
  - apply (IS_view g _ a t lv' (aatr a) Hs); [reflexivity| |].
    + intros p'. cbn [hgt_of]. unfold upd1. destruct (Nat.eqb p' new); [unfold MAXH; lia|apply (s_HB _ _ Hs)].
    + eapply lv_ok_ext; [reflexivity|]. split; [exact K|]. split; [exact F|]. split.
      * cbn [vown lv' own_ok]. repeat split; auto. apply node_id_owner; assumption.
      * intros n H1 H2 H3. cbn [vser lv'] in H3. destruct (Fr n H1 H2 ltac:(lia)) as [F1 F2]. split; [exact F1|].
        intros w E. cbn [vown lv'] in E. inversion E; subst n. unfold new in H3. rewrite node_id_ser in H3 by assumption. lia.
  - intros Hil. apply IL_keep with (g := g); [exact Hil|rewrite Hv; reflexivity|auto].
Qed.

Lemma Sm_alloc {R} t key (k : V -> prog R) lv :
  (t < 64)%nat -> (key < 8)%nat ->
  (forall v w, SAFEm t (k v) (mkLV (vkn lv) (vfz lv) (Some (node_id t (vser lv) key, w)) (S (vser lv)) (vst lv))) ->
  SAFEm t (Act (a_st_unl (node_id t (vser lv) key) 1 1) k) lv.
Proof.
  intros Ht Hk H lv' Hle. pose proof Hle as (L1 & L2 & L3 & L4 & L5). rewrite <- L4. apply S_alloc; auto.
  intros v w. apply (H v w). unfold vle. cbn [vkn vfz vown vser vst]. rewrite L4. auto 6.
Qed.

Lemma tlk_allocn t sn : forall n s xs s1, allocn n s = (xs, s1) -> tlk t sn s -> tlk t sn s1.
Proof.
  induction n as [|n IH]; intros s xs s1 E H; cbn [allocn] in E; [inversion E; subst; exact H|].
  destruct (alloc1 s) as [x s'] eqn:Ea. destruct (allocn n s') as [ys s2] eqn:En. inversion E; subst.
  eapply IH; [exact En|]. eapply tlk_alloc1; eauto.
Qed.

Lemma Sm_free_all_tlk {R} t sn slots : forall s (k : TL -> prog R) lv,
  tlk t sn s -> (forall s', tlk t sn s' -> SAFEm t (k s') lv) -> SAFEm t (g_free_all s slots k) lv.
Proof.
  induction slots as [|x r IH]; intros s k lv Ht H; cbn [g_free_all]; [now apply H|]. apply Sm_clear. apply IH; [now apply tlk_free1|exact H].
Qed.

(** what the rest of the thread's program needs between two operations *)
Definition between {R} t (cont : TL -> prog R) : Prop :=
  forall s' lv1, tlk t (vser lv1) s' -> vst lv1 = @Idle SetSpec -> SAFEm t (cont s') lv1.

Lemma set_st_ser lv st : vser (set_st lv st) = vser lv. Proof. reflexivity. Qed.
Lemma set_st_st lv st : vst (set_st lv st) = st. Proof. reflexivity. Qed.

Lemma T_finish_read {R} t sn s o ra b (cont : TL -> prog R) lv :
  tlk t sn s -> vser lv = sn -> vst lv = @Pending SetSpec o -> MI.is_read o (RBool (ra =? 1)) = true -> between t cont ->
  SAFEm t (finish s ra b cont) lv.
Proof.
  intros Ht Hser Hst Hr Hc. unfold finish. eapply Sm_emit_res_read; eauto. apply Hc; [rewrite set_st_ser, Hser; exact Ht|reflexivity].
Qed.
Lemma T_finish_lin {R} t sn s o b (cont : TL -> prog R) lv :
  tlk t sn s -> vser lv = sn -> vst lv = @Linearized SetSpec o (RBool true) -> MI.is_read o (RBool true) = false -> between t cont ->
  SAFEm t (finish s 1 b cont) lv.
Proof.
  intros Ht Hser Hst Hr Hc. unfold finish. eapply Sm_emit_res_lin; eauto. apply Hc; [rewrite set_st_ser, Hser; exact Ht|reflexivity].
Qed.
Lemma T_out_of_fuel {R} t sn s (cont : TL -> prog R) lv :
  tlk t sn s -> vser lv = sn -> between t cont -> SAFEm t (out_of_fuel s cont) lv.
Proof.
  intros Ht Hser Hc lv' Hle. unfold out_of_fuel.
  apply S_emit_gen with (lv1 := set_st lv' (@Idle SetSpec)).
  - intros g a tr [Hs Hil] Hv. exists (aatr a). split; [now apply IS_set_st|right].
    exists t. apply in_or_app. right. now left.
  - apply (Hc s (set_st lv' (@Idle SetSpec))); [rewrite set_st_ser, (vle_ser _ _ Hle), Hser; exact Ht|reflexivity|apply vle_refl].
Qed.

Lemma T_op_contains {R} t fuel s k (cont : TL -> prog R) lv :
  tlk t (vser lv) s -> vst lv = @Pending SetSpec (SContains (Z.of_nat k)) -> between t cont ->
  SAFEm t (op_contains fuel s k cont) lv.
Proof.
  intros Ht Hst Hc. unfold op_contains. destruct (allocn 2 s) as [gs s1] eqn:Ea.
  pose proof (tlk_allocn _ _ _ _ _ _ Ea Ht) as Ht1.
  assert (Hfin : forall s2 ra lv1, tlk t (vser lv) s2 -> vle lv lv1 -> SAFEm t (finish s2 ra 0 cont) lv1).
  { intros s2 ra lv1 Hs V. eapply T_finish_read; eauto; [apply (vle_ser _ _ V)|rewrite (vle_st _ _ V); exact Hst|reflexivity]. }
  apply T_find_fastpath.
  - intros o lv1 V. apply (Sm_free_all_tlk t (vser lv)); [exact Ht1|]. intros s2 Hs2. destruct o; try (now apply Hfin).
    destruct (allocn _ s2) as [slots s3] eqn:Ea3. pose proof (tlk_allocn _ _ _ _ _ _ Ea3 Hs2) as Ht3.
    apply (T_find_position t (vser lv)); auto.
    + intros s4 o' lv2 Hs4 V2 _ _. apply (Sm_free_all_tlk t (vser lv)); [exact Hs4|]. intros s5 Hs5.
      destruct o'; apply Hfin; auto; eapply vle_trans; eauto.
    + intros lv2 V2. apply (Sm_free_all_tlk t (vser lv)); [exact Ht3|]. intros s5 Hs5.
      eapply T_out_of_fuel; eauto. rewrite (vle_ser _ _ V2). apply (vle_ser _ _ V).
  - intros lv1 V. apply (Sm_free_all_tlk t (vser lv)); [exact Ht1|]. intros s2 Hs2. eapply T_out_of_fuel; eauto. apply (vle_ser _ _ V).
Qed.

Lemma T_op_erase {R} t fuel s k (cont : TL -> prog R) lv :
  tlk t (vser lv) s -> vst lv = @Pending SetSpec (SErase (Z.of_nat k)) -> between t cont ->
  SAFEm t (op_erase fuel s k cont) lv.
Proof.
  intros Ht Hst Hc. unfold op_erase. destruct (allocn _ s) as [slots s1] eqn:Ea.
  pose proof (tlk_allocn _ _ _ _ _ _ Ea Ht) as Ht1. set (sn := vser lv) in *.
  assert (Hf : kfpost t sn (g_free_all s1 slots (fun s' => out_of_fuel s' cont))).
  { intros lv1 E. apply (Sm_free_all_tlk t sn); [exact Ht1|]. intros s' Hs'. eapply T_out_of_fuel; eauto. }
  assert (Hfin0 : forall s2 lv1, tlk t sn s2 -> vle lv lv1 -> SAFEm t (g_free_all s2 slots (fun s' => finish s' 0 0 cont)) lv1).
  { intros s2 lv1 Hs V. apply (Sm_free_all_tlk t sn); [exact Hs|]. intros s' Hs'.
    eapply T_finish_read; eauto; [apply (vle_ser _ _ V)|rewrite (vle_st _ _ V); exact Hst|reflexivity]. }
  apply (T_find_position t sn); auto.
  - intros s2 o lv1 Hs2 V [Ho Hn] Hkn. destruct o as [ps|ps|]; try (now apply Hfin0).
    cbn [fp_post okn] in *. destruct Ho as [(X & _)|(Hp & Hcur)]; [discriminate|]. specialize (Hn eq_refl).
    destruct Hkn as (Kc & Hq). apply (posk_full false) in Hq; [|reflexivity].
    pose proof (fp_rem_pre _ _ Hp Hcur Hn) as Hrem.
    assert (Ekey : key_of (pcur ps) = Z.of_nat k) by (destruct Hcur as [E|(_ & E)]; [congruence|exact E]).
    destruct (alloc1 s2) as [gdel s3] eqn:Ea3. pose proof (tlk_alloc1 _ _ _ _ _ Ea3 Hs2) as Ht3.
    replace (tid s3) with t by (symmetry; apply Ht3).
    apply Sm_guard_h. intros h Hh. snx. cbn [vz]. rewrite Nat2Z.id.
    apply (T_try_remove_at t sn); auto.
    + apply (vle_ser _ _ V).
    + destruct Kc as [E|Kc]; [congruence|exact Kc].
    + rewrite (vle_st _ _ V), Ekey. exact Hst.
    + rewrite Ekey. intros s4 lv2 Hs4 Hser2 Hst2. apply Sm_clear. apply (Sm_free_all_tlk t sn); [now apply tlk_free1|]. intros s' Hs'.
      eapply T_finish_read; eauto; try reflexivity.
    + rewrite Ekey. intros s4 lv2 Hs4 Hser2 Hst2. snx. apply Sm_clear. apply (Sm_free_all_tlk t sn); [now apply tlk_free1|]. intros s' Hs'.
      eapply T_finish_lin; eauto; try reflexivity.
  - intros lv1 V. apply Hf. apply (vle_ser _ _ V).
Qed.

Lemma T_op_insert {R} t fuel s k h (cont : TL -> prog R) lv :
  (t < 64)%nat -> (k < 8)%nat -> (1 <= h <= MAXH)%nat ->
  tlk t (vser lv) s -> vst lv = @Pending SetSpec (SInsert (Z.of_nat k)) -> between t cont ->
  SAFEm t (op_insert fuel s k h cont) lv.
Proof.
  intros Hlt Hk Hh Ht Hst Hc. unfold op_insert. destruct Ht as [Ht1 Ht2]. rewrite Ht1, Ht2.
  apply Sm_alloc; auto. intros _ w. set (new := node_id t (vser lv) k). set (sn := S (vser lv)).
  set (lv0 := mkLV (vkn lv) (vfz lv) (Some (new, w)) sn (vst lv)).
  assert (Ht0 : tlk t sn (mkTL t (fl s) sn)) by (split; reflexivity).
  destruct (alloc1 _) as [gnew s1] eqn:Ea1. pose proof (tlk_alloc1 _ _ _ _ _ Ea1 Ht0) as Hs1.
  apply Sm_assign. destruct (allocn _ s1) as [slots s2] eqn:Ea2. pose proof (tlk_allocn _ _ _ _ _ _ Ea2 Hs1) as Hs2.
  apply (T_insert_loop t sn) with (v := w); auto.
  - split; [apply mk_node_isnode|unfold node_id; now apply mk_node_key].
  - intros s' lv1 Hs' Hser1 Hst1. apply (Sm_free_all_tlk t sn); [exact Hs'|]. intros s'' Hs''. apply Sm_clear.
    eapply T_finish_read; eauto; try reflexivity; try (now apply tlk_free1).
  - intros s' lv1 Hs' Hser1 Hst1. apply (Sm_free_all_tlk t sn); [exact Hs'|]. intros s'' Hs''. apply Sm_clear.
    eapply T_finish_lin; eauto; try reflexivity; try (now apply tlk_free1).
  - intros lv1 Hser1. apply (Sm_free_all_tlk t sn); [exact Hs2|]. intros s'' Hs''. apply Sm_clear.
    eapply T_out_of_fuel; eauto; try (now apply tlk_free1).
Qed.

(** programs of insert / erase / contains *)
Definition op_ok' (o : op) : Prop :=
  match o with
  | OIns k h => (k < 8)%nat /\ (1 <= h <= MAXH)%nat
  | OErase _ | OContains _ => True
  | OExtMin | OExtMax => False
  end.

Lemma T_run_ops t fuel : (t < 64)%nat -> forall os, Forall op_ok' os -> between t (fun s => run_ops fuel s os).
Proof.
  intros Hlt. induction os as [|o r IH]; intros Hok s lv Ht Hst; cbn [run_ops]; [apply Sm_ret|].
  inversion Hok as [|? ? Ho Hr]; subst. specialize (IH Hr). unfold run_op. destruct o as [k h| k | k | |]; cbn [op_ok'] in Ho; try contradiction.
  - apply Sm_emit_inv; [exact Hst|]. destruct Ho. apply T_op_insert; auto.
  - apply Sm_emit_inv; [exact Hst|]. apply T_op_erase; auto.
  - apply Sm_emit_inv; [exact Hst|]. apply T_op_contains; auto.
Qed.

Lemma T_thread t fuel os lv :
  (t < 64)%nat -> Forall op_ok' os -> vser lv = 0%nat -> vst lv = @Idle SetSpec -> SAFE t (thread_prog fuel t os) lv.
Proof.
  intros Hlt Hok Hser Hst. assert (H : SAFEm t (thread_prog fuel t os) lv); [|apply H, vle_refl].
  unfold thread_prog. snx. apply (T_run_ops t fuel Hlt os Hok); [rewrite Hser; split; reflexivity|exact Hst].
Qed.


(** ** the initial state *)
Definition pub0 (p : ptr) : bool := existsb (fun kh => Nat.eqb p (pre_node (fst kh))) nodes.
Definition L0 : list ptr := map (fun kh => pre_node (fst kh)) nodes.
Definition views0 (u : nat) : lview := mkLV [] [] None (if Nat.eqb u 63 then 8%nat else 0%nat) (@Idle SetSpec).
Definition prefill_atr (ns : list (nat * nat)) : list (aev SetSpec) :=
  flat_map (fun kh => [@AInv SetSpec 90%nat (SInsert (Z.of_nat (fst kh))); @ALin SetSpec 90%nat; @ARes SetSpec 90%nat (RBool true)]) ns.
Definition aux0 : aux := mkAux pub0 L0 views0 (prefill_atr nodes).

Lemma pub0_spec p : pub0 p = true <-> exists k h, In (k, h) nodes /\ p = pre_node k.
Proof.
  unfold pub0. rewrite existsb_exists. split.
  - intros ([k h] & Hin & E). apply Nat.eqb_eq in E. exists k, h. auto.
  - intros (k & h & Hin & ->). exists (k, h). split; [exact Hin|apply Nat.eqb_refl].
Qed.

Lemma link_all_cell ns : forall p l,
  snd (nxt (link_all ns g_empty) p l) = false /\
  (fst (nxt (link_all ns g_empty) p l) = null \/ exists k h, In (k, h) ns /\ fst (nxt (link_all ns g_empty) p l) = pre_node k).
Proof.
  induction ns as [|[k h] r IH]; intros p l; cbn [link_all nxt g_empty]; [split; [reflexivity|now left]|].
  destruct (Nat.eqb p (pre_node k)).
  - destruct (Nat.ltb l h); cbn [fst snd]; (split; [reflexivity|]); [|now left].
    destruct (next_at_in l r) as [E|(k' & h' & Hin & E)]; [now left|right]. exists k', h'. split; [now right|exact E].
  - destruct (IH p l) as [I1 [I2|(k' & h' & Hin & E)]]; (split; [exact I1|]); [now left|right]. exists k', h'. split; [now right|exact E].
Qed.

Lemma init_cell p l :
  snd (nxt (init nodes) p l) = false /\
  (fst (nxt (init nodes) p l) = null \/ pub0 (fst (nxt (init nodes) p l)) = true).
Proof.
  unfold init. cbn [nxt]. destruct (Nat.eqb p head).
  - cbn [fst snd]. split; [reflexivity|]. destruct (next_at_in l nodes) as [E|(k' & h' & Hin & E)]; [now left|right].
    apply pub0_spec. eauto.
  - destruct (link_all_cell nodes p l) as [I1 [I2|(k' & h' & Hin & E)]]; (split; [exact I1|]); [now left|right].
    apply pub0_spec. eauto.
Qed.

Lemma walk_nodes : forall ns, nodes_ok ns -> forall g p,
  fst (nxt g p 0) = next_at 0 ns ->
  (forall k h, In (k, h) ns -> nxt g (pre_node k) = nxt (link_all ns g_empty) (pre_node k)) ->
  walk g p (map (fun kh => pre_node (fst kh)) ns).
Proof.
  induction ns as [|[k h] r IH]; intros Hok g p Hp Hn; cbn [map walk next_at] in *; [exact Hp|].
  destruct Hok as (Hk & Hh & Hlt & Hr). cbn [fst].
  assert (E0 : Nat.ltb 0 h = true) by (apply Nat.ltb_lt; lia). rewrite E0 in Hp.
  split; [exact Hp|]. split; [unfold pre_node, node_id, mk_node, null; lia|].
  apply IH; [exact Hr| |].
  - rewrite (Hn k h (or_introl eq_refl)). cbn [link_all nxt]. rewrite Nat.eqb_refl, E0. reflexivity.
  - intros k' h' Hin. rewrite (Hn k' h' (or_intror Hin)). cbn [link_all nxt].
    destruct (Nat.eqb_spec (pre_node k') (pre_node k)) as [E|_]; [|reflexivity].
    apply pre_node_inj in E. rewrite Forall_forall in Hlt. specialize (Hlt _ Hin). cbn [fst] in Hlt. lia.
Qed.

Lemma zmem_cons x y S : zmem x (y :: S) = (Z.eqb x y || zmem x S)%bool.
Proof. reflexivity. Qed.

Lemma prefill_run : forall ns (S : list Z) (st : nat -> status SetSpec), nodes_ok ns -> st 90%nat = @Idle SetSpec ->
  (forall k h, In (k, h) ns -> zmem (Z.of_nat k) S = false) ->
  exists S' st', @lp_run SetSpec (S, st) (prefill_atr ns) = Some (S', st') /\ (forall u, st' u = st u) /\
    (forall x, zmem x S' = true <-> zmem x S = true \/ exists k h, In (k, h) ns /\ x = Z.of_nat k).
Proof.
  induction ns as [|[k h] r IH]; intros S st Hok Hst Hnew.
  - exists S, st. split; [reflexivity|]. split; [reflexivity|]. intros x. split; [now left|intros [H|(k & h & [] & _)]; exact H].
  - destruct Hok as (Hk & Hh & Hlt & Hr).
    change (prefill_atr ((k, h) :: r)) with ([@AInv SetSpec 90%nat (SInsert (Z.of_nat k)); @ALin SetSpec 90%nat; @ARes SetSpec 90%nat (RBool true)] ++ prefill_atr r).
    cbn [app lp_run lp_step fst]. rewrite Hst. cbn [lp_step upd Nat.eqb].
    assert (E : sstep SetSpec S (SInsert (Z.of_nat k)) = (Z.of_nat k :: S, RBool true)).
    { change (sstep SetSpec S (SInsert (Z.of_nat k))) with (set_step S (SInsert (Z.of_nat k))). cbn [set_step].
      now rewrite (Hnew k h (or_introl eq_refl)). }
    rewrite E. cbn [fst snd]. change (res_eqb SetSpec (RBool true) (RBool true)) with true. cbv iota.
    set (st1 := upd _ 90%nat (@Idle SetSpec)).
    destruct (IH (Z.of_nat k :: S) st1 Hr) as (S' & st' & R1 & R2 & R3).
    + unfold st1, upd. now rewrite Nat.eqb_refl.
    + intros k' h' Hin. rewrite zmem_cons, (Hnew k' h' (or_intror Hin)), orb_false_r.
      rewrite Forall_forall in Hlt. specialize (Hlt _ Hin). cbn [fst] in Hlt. apply Z.eqb_neq. lia.
    + exists S', st'. split; [|split].
      * exact R1.
      * intros u. rewrite R2. unfold st1, upd. destruct (Nat.eqb_spec u 90); [subst; now rewrite Hst|reflexivity].
      * intros x. rewrite R3, zmem_cons, orb_true_iff, Z.eqb_eq. split.
        -- intros [[->|H]|(k' & h' & Hin & ->)]; [right; exists k, h; split; [now left|reflexivity]|now left|right; exists k', h'; split; [now right|reflexivity]].
        -- intros [H|(k' & h' & [E'|Hin] & ->)]; [left; now right|inversion E'; left; now left|right; eauto].
Qed.

Lemma prefill_erase ns : erase (prefill_atr ns) = prefill_history ns.
Proof.
  induction ns as [|[k h] r IH]; [reflexivity|].
  change (prefill_atr ((k, h) :: r)) with ([@AInv SetSpec 90%nat (SInsert (Z.of_nat k)); @ALin SetSpec 90%nat; @ARes SetSpec 90%nat (RBool true)] ++ prefill_atr r).
  change (prefill_history ((k, h) :: r)) with ([@HInv SetSpec 90%nat (SInsert (Z.of_nat k)); @HRes SetSpec 90%nat (RBool true)] ++ prefill_history r).
  cbn [app erase]. now rewrite IH.
Qed.

Lemma init_IS : nodes_ok nodes -> IS (init nodes) aux0.
Proof.
  intros Hok. destruct (init_ok_state nodes Hok) as [HI HB]. constructor; cbn [apub aL aux0].
  - exact HI.
  - exact HB.
  - apply walk_nodes; [exact Hok|reflexivity|]. intros k h Hin. unfold init. cbn [nxt].
    destruct (Nat.eqb_spec (pre_node k) head) as [E|_]; [exfalso; eapply pre_node_not_head; eauto|reflexivity].
  - intros n Hin. unfold L0 in Hin. apply in_map_iff in Hin. destruct Hin as ([k h] & <- & Hin). apply pub0_spec. eauto.
  - intros n Hp. apply pub0_spec in Hp. destruct Hp as (k & h & _ & ->). apply mk_node_isnode.
  - intros n l. apply init_cell.
  - intros n Hp _. apply pub0_spec in Hp. destruct Hp as (k & h & Hin & ->). unfold L0. apply in_map_iff. exists (k, h). auto.
  - apply init_cell.
  - intros t. unfold view. cbn [aviews aux0]. split; [constructor|]. split; [constructor|]. split; [exact Logic.I|].
    intros n Hn Ho Hs. split; [|intros v; discriminate].
    destruct (pub0 n) eqn:Ep; [|reflexivity]. exfalso. apply pub0_spec in Ep. destruct Ep as (k & h & Hin & ->).
    destruct (nodes_ok_in _ _ _ Hok Hin) as [Hk _]. unfold pre_node in *.
    rewrite node_id_owner in Ho by lia. rewrite node_id_ser in Hs by lia. subst t. cbn [views0 vser Nat.eqb] in Hs. lia.
Qed.

Lemma init_IL : nodes_ok nodes -> IL nodes (init nodes) aux0 [].
Proof.
  intros Hok. constructor; cbn [aatr aL aux0].
  - destruct (prefill_run nodes [] (fun _ => @Idle SetSpec) Hok eq_refl) as (S' & st' & R1 & R2 & R3); [intros; reflexivity|].
    exists S', st'. split; [exact R1|]. split; [intros t; rewrite R2; reflexivity|].
    intros x. rewrite R3. split.
    + intros [H|(k & h & Hin & ->)]; [discriminate|]. exists (pre_node k). split; [unfold L0; apply in_map_iff; exists (k, h); auto|].
      split; [apply init_cell|]. apply pre_node_key. apply (nodes_ok_in _ _ _ Hok Hin).
    + intros (n & Hin & _ & Hkey). right. unfold L0 in Hin. apply in_map_iff in Hin. destruct Hin as ([k h] & <- & Hin). cbn [fst] in *.
      exists k, h. split; [exact Hin|]. rewrite pre_node_key in Hkey by apply (nodes_ok_in _ _ _ Hok Hin). auto.
  - apply prefill_erase.
Qed.

Lemma nth_error_combine {A B} : forall (l1 : list A) (l2 : list B) n a b,
  nth_error (combine l1 l2) n = Some (a, b) -> nth_error l1 n = Some a /\ nth_error l2 n = Some b.
Proof.
  induction l1 as [|x l1 IH]; intros l2 n a b H; [destruct n; discriminate|].
  destruct l2 as [|y l2]; [destruct n; discriminate|]. destruct n as [|n]; cbn in *; [inversion H; auto|now apply IH].
Qed.

Lemma nth_error_seq0 n t t' : nth_error (seq 0 n) t = Some t' -> t' = t /\ (t < n)%nat.
Proof.
  intros H. assert (Hl : (t < n)%nat) by (rewrite <- (seq_length n 0); apply nth_error_Some; congruence).
  split; [|exact Hl]. apply (nth_error_nth _ _ 0%nat) in H. rewrite seq_nth in H by exact Hl. lia.
Qed.

Lemma init_cfg_okL fuel ths :
  nodes_ok nodes -> Forall (Forall op_ok') ths -> (List.length ths <= 63)%nat ->
  @Conc.cfg_ok G V ev aux lview view (Inv nodes) (init_cfg fuel nodes ths).
Proof.
  intros Hn Ho Hlen. exists aux0. split; [split; [now apply init_IS|left; now apply init_IL]|].
  intros t p Hp. unfold init_cfg in Hp. cbn [Conc.threads] in Hp. rewrite nth_error_map in Hp.
  destruct (nth_error (combine (seq 0 (List.length ths)) ths) t) as [[t' os]|] eqn:E; [|discriminate].
  injection Hp as <-. cbn [fst snd]. apply nth_error_combine in E. destruct E as [E1 E2].
  apply nth_error_seq0 in E1. destruct E1 as [-> Hlt].
  apply T_thread; [lia| | |reflexivity].
  - apply nth_error_In in E2. rewrite Forall_forall in Ho. now apply Ho.
  - unfold view. cbn [aviews aux0 views0 vser]. destruct (Nat.eqb_spec t 63); [lia|reflexivity].
Qed.

End WithNodes.

(** ** the theorem: for EVERY schedule, the update history of the trace is linearizable w.r.t. the sequential set;
    the linearization points are the level-0 link CAS and the level-0 mark CAS *)
Theorem skip_updates_linearizable fuel nodes ths c :
  nodes_ok nodes -> Forall (Forall op_ok') ths -> (List.length ths <= 63)%nat ->
  Conc.reach (init_cfg fuel nodes ths) c -> ~ exhausted (Conc.trace c) ->
  linearizable SetSpec (upd_hist nodes (Conc.trace c)).
Proof.
  intros Hn Ho Hlen Hr Hne. destruct (Conc.reach_Inv (init_cfg_okL nodes fuel ths Hn Ho Hlen) Hr) as (a & Hs & [Hil|He]); [|contradiction].
  destruct Hil as [(S & st & H1 & _) H4]. rewrite <- H4. apply lp_valid_linearizable. exists (S, st). exact H1.
Qed.

(** at every reachable state the abstract set of the annotated trace is the set of unmarked keys of the level-0 chain,
    and the chain is in strictly increasing key order *)
Theorem skip_abstraction fuel nodes ths c :
  nodes_ok nodes -> Forall (Forall op_ok') ths -> (List.length ths <= 63)%nat ->
  Conc.reach (init_cfg fuel nodes ths) c -> ~ exhausted (Conc.trace c) ->
  exists L atr S st, walk (Conc.shared c) head L /\ lp_run lp_init atr = Some (S, st) /\ erase atr = upd_hist nodes (Conc.trace c) /\
    (forall k, zmem k S = true <-> exists n, In n L /\ snd (nxt (Conc.shared c) n 0) = false /\ key_of n = k).
Proof.
  intros Hn Ho Hlen Hr Hne. destruct (Conc.reach_Inv (init_cfg_okL nodes fuel ths Hn Ho Hlen) Hr) as (a & Hs & [Hil|He]); [|contradiction].
  destruct Hil as [(S & st & H1 & _ & H3) H4]. exists (aL a), (aatr a), S, st. split; [apply (s_walk _ _ Hs)|]. auto.
Qed.

(** ** the runs executed by the step-correspondence check ([run_case]) *)
Definition noext (o : op) : bool := match o with OExtMin | OExtMax => false | _ => true end.
Definition exhaustedb (tr : list (nat * ev)) : bool :=
  existsb (fun te => match snd te with EvCli n [] => String.eqb n "outoffuel"%string | _ => false end) tr.

Lemma exhaustedb_false tr : exhaustedb tr = false -> ~ exhausted tr.
Proof.
  intros H (t & Hin). assert (X : exhaustedb tr = true); [|congruence].
  unfold exhaustedb. apply existsb_exists. exists (t, EvCli "outoffuel"%string []). split; [exact Hin|reflexivity].
Qed.

Lemma op_ok'_of o : op_ok o -> noext o = true -> op_ok' o.
Proof. destruct o; cbn; auto; discriminate. Qed.

Theorem run_case_updates_linearizable cfg ths sched fuel :
  forallb (fun os => forallb noext os) (map decode_ops ths) = true -> (List.length ths <= 63)%nat ->
  exhaustedb (fst (run_case cfg ths sched fuel)) = false ->
  linearizable SetSpec (upd_hist (prefill_nodes cfg) (fst (run_case cfg ths sched fuel))).
Proof.
  intros Hne Hlen Hex. unfold run_case in *. cbn [fst] in *.
  apply (skip_updates_linearizable 60 (prefill_nodes cfg) (map decode_ops ths)); [apply prefill_nodes_ok| |now rewrite map_length|apply Conc.run_reach|now apply exhaustedb_false].
  apply Forall_forall. intros os Hin. rewrite forallb_forall in Hne. specialize (Hne _ Hin). rewrite forallb_forall in Hne.
  apply in_map_iff in Hin. destruct Hin as (x & <- & _). pose proof (decode_ops_ok x) as Hok. rewrite Forall_forall in *.
  intros o Ho. apply op_ok'_of; auto.
Qed.

(** ** upper levels and level 0: every node linked at ANY level that is not logically deleted (level-0 cell unmarked) is on
    the level-0 list — for every schedule, also after an out-of-fuel event *)
Lemma chain_in_link g l : forall n p q, In q (chain g l p n) -> exists p', fst (nxt g p' l) = q /\ q <> null.
Proof.
  induction n as [|n IH]; intros p q H; cbn [chain] in H; [contradiction|]. cbv zeta in H.
  destruct (Nat.eqb_spec (fst (nxt g p l)) null) as [E|E]; [contradiction|]. destruct H as [<-|H]; [exists p; auto|eauto].
Qed.

Lemma walk_chain g : forall L p, walk g p L -> chain g 0 p (List.length L) = L.
Proof.
  induction L as [|n r IH]; intros p H; cbn [walk List.length chain] in *; [reflexivity|]. destruct H as (H1 & H2 & H3). cbv zeta.
  rewrite H1. destruct (Nat.eqb_spec n null) as [E|_]; [contradiction|]. now rewrite (IH n H3).
Qed.

Theorem skip_live_linked_nodes_on_level0 fuel nodes ths c l n q :
  nodes_ok nodes -> Forall (Forall op_ok') ths -> (List.length ths <= 63)%nat ->
  Conc.reach (init_cfg fuel nodes ths) c ->
  In q (chain (Conc.shared c) l head n) -> snd (nxt (Conc.shared c) q 0) = false ->
  exists m, In q (chain (Conc.shared c) 0 head m).
Proof.
  intros Hn Ho Hlen Hr Hin Hm. destruct (Conc.reach_Inv (init_cfg_okL nodes fuel ths Hn Ho Hlen) Hr) as (a & Hs & _).
  destruct (chain_in_link _ _ _ _ _ Hin) as (p' & E & Nq).
  destruct (s_closed _ _ Hs p' l) as [X|X]; [congruence|]. rewrite E in X.
  exists (List.length (aL a)). rewrite (walk_chain _ _ _ (s_walk _ _ Hs)). now apply (s_inL _ _ Hs).
Qed.
