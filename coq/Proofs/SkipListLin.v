(** * Linearizability of the updates of the concurrent skip list model, for EVERY schedule.

    Abstraction: the keys of the UNMARKED nodes of the level-0 chain (the chain is kept as a ghost list [aL], like the
    list [L] of Proofs/MichaelListInv.v).  Linearization points: the level-0 link CAS of insert_at_position
    (insert -> true) and the level-0 mark CAS of try_remove_at (erase -> true).  Operations that do not modify the set
    (contains, failed insert, failed erase) are deleted from the history ([upd_hist]), as in C13's
    mlist_updates_linearizable.  Programs of insert / erase / contains (extract_min / extract_max are covered by the
    order invariant of SkipListProofs.v, not by this file).

    Ghost state: [apub] the nodes that were linked at level 0 at some time; per thread: the published nodes it knows,
    the frozen (marked) level-0 cells it has seen, its not-yet-linked node with the value of its level-0 cell, its next
    serial number, and the status of its operation in the LP-annotated trace [aatr]. *)
From Coq Require Import ZArith List String Bool Lia PeanoNat.
From LV Require Import Base.Conc Base.Events Base.Lin Spec.Specs Proofs.LinProofs.
From LV Require Import Model.SkipList Proofs.SkipListProofs.
From LV Require Proofs.MichaelListInv Proofs.MichaelListLin.
Import ListNotations.
Local Open Scope Z_scope.

Module MI := MichaelListInv.
Module ML := MichaelListLin.

(** ** the update history of a trace *)
Definition sp_op (code k : Z) : set_op :=
  if code =? 1 then SInsert k else if code =? 6 then SErase k else SContains k.

Definition hstep (out : history SetSpec) (te : nat * ev) : history SetSpec :=
  match te with
  | (t, EvCli name args) =>
      if String.eqb name "inv"%string then
        match args with
        | [c; k] => out ++ [@HInv SetSpec t (sp_op c k)]
        | _ => out
        end
      else if String.eqb name "res"%string then
        match args, MI.last_inv_op t out None with
        | [a; b], Some o =>
            let r := RBool (a =? 1) in
            if MI.is_read o r then MI.rm_last (MI.is_hinv t) out else out ++ [@HRes SetSpec t r]
        | _, _ => out
        end
      else out
  | (_, EvAcc _ _ _) => out
  end.

(** invoke / response history from which every completed operation that did not modify the set has been deleted;
    the pre-filled keys are inserted by thread 90 before *)
Definition upd_hist (nodes : list (nat * nat)) (tr : list (nat * ev)) : history SetSpec :=
  fold_left hstep tr (prefill_history nodes).

(** ** ghost state *)
Record lview := mkLV {
  vkn : list ptr;                       (* published nodes this thread has seen *)
  vfz : list (ptr * ptr);               (* (c, nx): the level-0 cell of c was seen marked with pointer nx *)
  vown : option (ptr * mptr);           (* my node not linked yet, value of its level-0 cell *)
  vser : nat;                           (* serial number of my next node *)
  vst : status SetSpec
}.

Record aux := mkAux { apub : ptr -> bool; aL : list ptr; aviews : nat -> lview; aatr : list (aev SetSpec) }.
Definition view (a : aux) (t : nat) : lview := aviews a t.

Definition mk_a (a : aux) (t : nat) (pub' : ptr -> bool) (L' : list ptr) (lv' : lview) (atr' : list (aev SetSpec)) : aux :=
  mkAux pub' L' (fun u => if Nat.eqb u t then lv' else aviews a u) atr'.

Lemma view_mk_same a t pub' L' lv' atr' : view (mk_a a t pub' L' lv' atr') t = lv'.
Proof. unfold view, mk_a; cbn. now rewrite Nat.eqb_refl. Qed.
Lemma view_mk_other a t pub' L' lv' atr' u : u <> t -> view (mk_a a t pub' L' lv' atr') u = view a u.
Proof. unfold view, mk_a; cbn. intros H. destruct (Nat.eqb_spec u t); congruence. Qed.
Lemma frame_mk a t pub' L' lv' atr' : Conc.frame view t a (mk_a a t pub' L' lv' atr').
Proof. intros u H. now apply view_mk_other. Qed.

(** the level-0 chain from [p] is exactly [L] (marks are ignored: logically deleted nodes stay until unlinked) *)
Fixpoint walk (g : G) (p : ptr) (L : list ptr) : Prop :=
  match L with
  | [] => fst (nxt g p 0) = null
  | n :: r => fst (nxt g p 0) = n /\ n <> null /\ walk g n r
  end.

Definition abs (g : G) (L : list ptr) (S : list Z) : Prop :=
  forall k, zmem k S = true <-> exists n, In n L /\ snd (nxt g n 0) = false /\ key_of n = k.

Definition own_ok (g : G) (pub : ptr -> bool) (t : nat) (o : option (ptr * mptr)) : Prop :=
  match o with
  | None => True
  | Some (n, v) => isnode n /\ pub n = false /\ owner_of n = t /\ nxt g n 0 = v
  end.

Definition fresh_ok (pub : ptr -> bool) (t : nat) (lv : lview) : Prop :=
  forall n, isnode n -> owner_of n = t -> (vser lv <= ser_of n)%nat -> pub n = false /\ (forall v, vown lv <> Some (n, v)).

Definition lv_ok (g : G) (pub : ptr -> bool) (t : nat) (lv : lview) : Prop :=
  Forall (fun n => pub n = true) (vkn lv) /\
  Forall (fun cn => pub (fst cn) = true /\ nxt g (fst cn) 0 = (snd cn, true)) (vfz lv) /\
  own_ok g pub t (vown lv) /\ fresh_ok pub t lv.

Record IS (g : G) (a : aux) : Prop := {
  s_I : I g;
  s_HB : HB g;
  s_walk : walk g head (aL a);
  s_Lpub : forall n, In n (aL a) -> apub a n = true;
  s_node : forall n, apub a n = true -> isnode n;
  s_closed : forall n l, fst (nxt g n l) = null \/ apub a (fst (nxt g n l)) = true;
  s_inL : forall n, apub a n = true -> snd (nxt g n 0) = false -> In n (aL a);
  s_head : snd (nxt g head 0) = false;
  s_views : forall t, lv_ok g (apub a) t (view a t)
}.

Record IL (nodes : list (nat * nat)) (g : G) (a : aux) (tr : list (nat * ev)) : Prop := {
  l_run : exists S st, lp_run lp_init (aatr a) = Some (S, st) /\ (forall t, st t = vst (view a t)) /\ abs g (aL a) S;
  l_hist : erase (aatr a) = upd_hist nodes tr
}.

(** a thread that ran out of fuel abandons its operation: nothing is claimed about such traces *)
Definition exhausted (tr : list (nat * ev)) : Prop := exists t, In (t, EvCli "outoffuel"%string []) tr.
Definition Inv (nodes : list (nat * nat)) (g : G) (a : aux) (tr : list (nat * ev)) : Prop :=
  IS g a /\ (IL nodes g a tr \/ exhausted tr).

Definition known (lv : lview) (p : ptr) : Prop := p = head \/ In p (vkn lv).
Definition knownz (lv : lview) (p : ptr) : Prop := p = null \/ In p (vkn lv).

Definition addkn (p : ptr) (lv : lview) : lview :=
  if Nat.eqb p null then lv else mkLV (p :: vkn lv) (vfz lv) (vown lv) (vser lv) (vst lv).
Definition addfz (c nx : ptr) (lv : lview) : lview := mkLV (vkn lv) ((c, nx) :: vfz lv) (vown lv) (vser lv) (vst lv).

(** [lv <= lv']: more facts, same obligations *)
Definition vle (lv lv' : lview) : Prop :=
  incl (vkn lv) (vkn lv') /\ incl (vfz lv) (vfz lv') /\ vown lv' = vown lv /\ vser lv' = vser lv /\ vst lv' = vst lv.

Lemma vle_refl lv : vle lv lv.
Proof. repeat split; auto using incl_refl. Qed.
Lemma vle_trans a b c : vle a b -> vle b c -> vle a c.
Proof. intros (A1 & A2 & A3 & A4 & A5) (B1 & B2 & B3 & B4 & B5). repeat split; try congruence; eapply incl_tran; eauto. Qed.
Lemma vle_addkn p lv : vle lv (addkn p lv).
Proof. unfold addkn. destruct (Nat.eqb p null); [apply vle_refl|]. repeat split; cbn; auto using incl_refl, incl_tl. Qed.
Lemma vle_addfz c nx lv : vle lv (addfz c nx lv).
Proof. repeat split; cbn; auto using incl_refl, incl_tl. Qed.
Lemma known_mono lv lv' p : vle lv lv' -> known lv p -> known lv' p.
Proof. intros (H & _) [->|K]; [now left|right; auto]. Qed.
Lemma knownz_mono lv lv' p : vle lv lv' -> knownz lv p -> knownz lv' p.
Proof. intros (H & _) [->|K]; [now left|right; auto]. Qed.
Lemma knownz_addkn p lv : knownz (addkn p lv) p.
Proof. unfold knownz, addkn. destruct (Nat.eqb_spec p null); [now left|right; now left]. Qed.
Lemma known_of_knownz lv p : knownz lv p -> p <> null -> known lv p.
Proof. intros [->|H] N; [congruence|now right]. Qed.

(** ** the chain as a list *)
Fixpoint seg (g : G) (p : ptr) (A : list ptr) (q : ptr) : Prop :=
  match A with
  | [] => fst (nxt g p 0) = q
  | n :: r => fst (nxt g p 0) = n /\ n <> null /\ seg g n r q
  end.

Lemma walk_app g : forall A p n B, walk g p (A ++ n :: B) <-> seg g p A n /\ n <> null /\ walk g n B.
Proof.
  induction A as [|a A IH]; intros p n B; cbn [app walk seg]; [tauto|]. rewrite IH. tauto.
Qed.

Lemma walk_ext g g' : (forall n, fst (nxt g' n 0) = fst (nxt g n 0)) -> forall L p, walk g p L -> walk g' p L.
Proof. intros E. induction L as [|n r IH]; intros p; cbn [walk]; rewrite E; [tauto|]. intros (H1 & H2 & H3). auto. Qed.

(** nodes of the chain: proper nodes, keys strictly increasing and above the starting point *)
Lemma walk_sorted g : I g -> forall L p, (p = head \/ isnode p) -> walk g p L ->
  Forall (fun q => isnode q /\ (p = head \/ key_of p < key_of q)) L /\ strictly_inc (map key_of L).
Proof.
  intros Hi. induction L as [|n r IH]; intros p Hp Hw; cbn [walk] in Hw; [split; [constructor|exact Logic.I]|].
  destruct Hw as (E & N & Hw). pose proof (Hi p 0%nat) as Hl. rewrite E in Hl. destruct (lnk_ltp _ _ _ Hl N) as (Hn & Hpn).
  destruct (IH n (or_intror Hn) Hw) as [F S]. cbn [map strictly_inc]. split.
  - constructor; [split; [exact Hn|destruct Hpn as [->|(_ & H)]; auto]|].
    eapply Forall_impl; [|exact F]. intros q (Hq1 & Hq2). split; [exact Hq1|].
    destruct Hpn as [->|(_ & H)]; [now left|right]. destruct Hq2 as [Hq2|Hq2]; [unfold isnode, head in *; lia|lia].
  - split; [|exact S]. rewrite Forall_map. eapply Forall_impl; [|exact F]. intros q (_ & [H|H]); [unfold isnode, head in *; lia|exact H].
Qed.

Lemma walk_notin g L p : I g -> (p = head \/ isnode p) -> walk g p L -> ~ In p L /\ ~ In head L /\ ~ In null L /\ NoDup L.
Proof.
  intros Hi Hp Hw. destruct (walk_sorted g Hi L p Hp Hw) as [F S]. rewrite Forall_forall in F. repeat split.
  - intros H. destruct (F _ H) as (H1 & [->|H2]); [unfold isnode, head in H1; lia|lia].
  - intros H. destruct (F _ H) as (H1 & _). unfold isnode, head in H1. lia.
  - intros H. destruct (F _ H) as (H1 & _). unfold isnode, null in H1. lia.
  - clear F Hw Hp. induction L as [|n r IH]; [constructor|]. cbn [map strictly_inc] in S. destruct S as [F S].
    constructor; [|auto]. intros H. rewrite Forall_map, Forall_forall in F. specialize (F _ H). cbn in F. lia.
Qed.

Definition setnx (g : G) (p : ptr) (l : nat) (x : mptr) : G := mkG (upd2 (nxt g) p l x) (unl g) (hgt_of g) (hgt g) (cnt g).

Lemma setnx_same g p l x : nxt (setnx g p l x) p l = x.
Proof. cbn. apply upd2_same. Qed.
Lemma setnx_other g p l x p' l' : (p', l') <> (p, l) -> nxt (setnx g p l x) p' l' = nxt g p' l'.
Proof. cbn. apply upd2_other. Qed.
Lemma setnx_other0 g p x p' : p' <> p -> nxt (setnx g p 0 x) p' 0 = nxt g p' 0.
Proof. intros H. apply setnx_other. congruence. Qed.
Lemma setnx_up g p l x p' : l <> 0%nat -> nxt (setnx g p l x) p' 0 = nxt g p' 0.
Proof. intros H. apply setnx_other. congruence. Qed.

Lemma walk_other g p x : forall L p0, ~ In p (p0 :: L) -> walk g p0 L -> walk (setnx g p 0 x) p0 L.
Proof.
  induction L as [|n r IH]; intros p0 N; cbn [walk]; rewrite setnx_other0 by (intros ->; apply N; now left); [tauto|].
  intros (H1 & H2 & H3). repeat split; auto. apply IH; auto. intros H. apply N. now right.
Qed.
Lemma seg_other g p x : forall A p0 q, ~ In p (p0 :: A) -> seg g p0 A q -> seg (setnx g p 0 x) p0 A q.
Proof.
  induction A as [|n r IH]; intros p0 q N; cbn [seg]; rewrite setnx_other0 by (intros ->; apply N; now left); [tauto|].
  intros (H1 & H2 & H3). repeat split; auto. apply IH; auto. intros H. apply N. now right.
Qed.

(** views are stable under a change of one cell that is not a frozen cell nor the level-0 cell of an unlinked own node *)
Lemma lv_ok_stable g pub u lv p l x pub' :
  lv_ok g pub u lv ->
  (forall n, pub n = true -> pub' n = true) ->
  (forall n, pub' n = true -> pub n = false -> owner_of n <> u) ->
  (l = 0%nat -> forall c nx, In (c, nx) (vfz lv) -> c <> p) ->
  (l = 0%nat -> forall v, vown lv <> Some (p, v)) ->
  lv_ok (setnx g p l x) pub' u lv.
Proof.
  intros (K & F & O & Fr) Hm Hn Hun Hown. split; [|split; [|split]].
  - eapply Forall_impl; [|exact K]. auto.
  - rewrite Forall_forall in *. intros [c nx] Hin. destruct (F _ Hin) as (H1 & H2). cbn [fst snd] in *. split; [auto|].
    destruct (Nat.eq_dec l 0) as [->|Nl]; [|now rewrite setnx_up].
    rewrite setnx_other0; [exact H2|]. eapply Hun; eauto.
  - unfold own_ok in *. destruct (vown lv) as [[n v]|]; [|exact Logic.I]. destruct O as (O1 & O2 & O3 & O4).
    repeat split; auto.
    + destruct (pub' n) eqn:E; [|reflexivity]. exfalso. eapply Hn; eauto.
    + destruct (Nat.eq_dec l 0) as [->|Nl]; [|now rewrite setnx_up]. rewrite setnx_other0; [exact O4|].
      intros ->. eapply Hown; eauto.
  - intros m H1 H2 H3. destruct (Fr m H1 H2 H3) as [F1 F2]. split; [|exact F2].
    destruct (pub' m) eqn:E; [|reflexivity]. exfalso. eapply Hn; eauto.
Qed.

Lemma lv_ok_addkn g pub t lv p : lv_ok g pub t lv -> (p = null \/ pub p = true) -> lv_ok g pub t (addkn p lv).
Proof.
  intros (K & F & O & Fr) Hp. unfold addkn. destruct (Nat.eqb_spec p null) as [->|N]; [split; [|split; [|split]]; auto|].
  split; [|split; [|split]]; cbn; auto. constructor; [destruct Hp; congruence|exact K].
Qed.
Lemma lv_ok_addfz g pub t lv c nx : lv_ok g pub t lv -> pub c = true -> nxt g c 0 = (nx, true) -> lv_ok g pub t (addfz c nx lv).
Proof. intros (K & F & O & Fr) H1 H2. split; [|split; [|split]]; cbn; auto. Qed.
Lemma lv_ok_st g pub t lv st : lv_ok g pub t lv -> lv_ok g pub t (mkLV (vkn lv) (vfz lv) (vown lv) (vser lv) st).
Proof. intros (K & F & O & Fr). split; [|split; [|split]]; auto. Qed.

Lemma known_pub g a t p : IS g a -> known (view a t) p -> p = head \/ apub a p = true.
Proof.
  intros H [->|K]; [now left|right]. destruct (s_views _ _ H t) as (Hk & _). rewrite Forall_forall in Hk. auto.
Qed.
Lemma knownz_pub g a t p : IS g a -> knownz (view a t) p -> p = null \/ apub a p = true.
Proof.
  intros H [->|K]; [now left|right]. destruct (s_views _ _ H t) as (Hk & _). rewrite Forall_forall in Hk. auto.
Qed.

(** a node whose level-0 cell is unmarked is on the chain (or is the head) *)
Lemma unmarked_on_chain g a p : IS g a -> (p = head \/ apub a p = true) -> snd (nxt g p 0) = false -> In p (head :: aL a).
Proof. intros H [->|Hp] Hm; [now left|right]. eapply s_inL; eauto. Qed.

Lemma pub_not_own g a u p v : IS g a -> apub a p = true -> vown (view a u) <> Some (p, v).
Proof.
  intros H Hp E. destruct (s_views _ _ H u) as (_ & _ & O & _). rewrite E in O. destruct O as (_ & O2 & _). congruence.
Qed.

Lemma frozen_marked g pub u lv c nx : lv_ok g pub u lv -> In (c, nx) (vfz lv) -> snd (nxt g c 0) = true /\ pub c = true.
Proof. intros (_ & F & _) H. rewrite Forall_forall in F. destruct (F _ H) as (H1 & H2). cbn in *. rewrite H2. auto. Qed.

Lemma lv_ok_ext g g' pub u lv : nxt g' = nxt g -> lv_ok g pub u lv -> lv_ok g' pub u lv.
Proof.
  intros E (K & F & O & Fr). split; [exact K|]. split; [|split; [|exact Fr]].
  - now rewrite E.
  - unfold own_ok in *. now rewrite E.
Qed.

Lemma IS_view g g' a t lv' atr' :
  IS g a -> nxt g' = nxt g -> HB g' -> lv_ok g' (apub a) t lv' -> IS g' (mk_a a t (apub a) (aL a) lv' atr').
Proof.
  intros H E Hb Hv. destruct H as [h1 h2 h3 h4 h5 h6 h7 h8 h9]. constructor; cbn [apub aL mk_a].
  - intros p l. rewrite E. apply h1.
  - exact Hb.
  - eapply walk_ext; [|eassumption]. intros n. now rewrite E.
  - exact h4.
  - exact h5.
  - intros n l. rewrite E. apply h6.
  - intros n. rewrite E. apply h7.
  - rewrite E. exact h8.
  - intros u. destruct (Nat.eq_dec u t) as [->|Nu]; [now rewrite view_mk_same|].
    rewrite view_mk_other by exact Nu. eapply lv_ok_ext; eauto.
Qed.

(** one cell changes, the chain (as a list) and the set of published nodes do not *)
Lemma IS_cell g a t p l x lv' atr' :
  IS g a -> lnk l p (fst x) -> (fst x = null \/ apub a (fst x) = true) ->
  (l = 0%nat -> ~ In p (head :: aL a) \/ fst x = fst (nxt g p 0)) ->
  (l = 0%nat -> p = head -> snd x = false) ->
  (l = 0%nat -> apub a p = true -> snd x = false -> snd (nxt g p 0) = false) ->
  (forall u, u <> t -> lv_ok (setnx g p l x) (apub a) u (view a u)) ->
  lv_ok (setnx g p l x) (apub a) t lv' ->
  IS (setnx g p l x) (mk_a a t (apub a) (aL a) lv' atr').
Proof.
  intros H Hl Hc Hw Hh Hin Ho Hv. destruct H. constructor; cbn [apub aL mk_a]; auto.
  - apply I_upd; assumption.
  - destruct (Nat.eq_dec l 0) as [->|Nl].
    + destruct (Hw eq_refl) as [N|E]; [now apply walk_other|].
      eapply walk_ext; [|eassumption]. intros n. destruct (Nat.eq_dec n p) as [->|Np]; [now rewrite setnx_same|now rewrite setnx_other0].
    + eapply walk_ext; [|eassumption]. intros n. now rewrite setnx_up.
  - intros n l'. destruct (Nat.eq_dec n p) as [->|Np].
    + destruct (Nat.eq_dec l' l) as [->|Nl]; [rewrite setnx_same; exact Hc|]. rewrite setnx_other by congruence. auto.
    + rewrite setnx_other by congruence. auto.
  - intros n Hn Hm. destruct (Nat.eq_dec l 0) as [->|Nl]; [|rewrite setnx_up in Hm by exact Nl; auto].
    destruct (Nat.eq_dec n p) as [->|Np]; [|rewrite setnx_other0 in Hm by exact Np; auto].
    rewrite setnx_same in Hm. auto.
  - destruct (Nat.eq_dec l 0) as [->|Nl]; [|now rewrite setnx_up].
    destruct (Nat.eq_dec head p) as [<-|Np]; [rewrite setnx_same; auto|now rewrite setnx_other0].
  - intros u. destruct (Nat.eq_dec u t) as [->|Nu]; [now rewrite view_mk_same|]. rewrite view_mk_other by exact Nu. auto.
Qed.

(** abstract set: unchanged when no level-0 cell of a chain node changes its mark *)
Lemma abs_cell g L S p l x :
  abs g L S -> (l = 0%nat -> ~ In p L \/ snd x = snd (nxt g p 0)) -> abs (setnx g p l x) L S.
Proof.
  intros Ha Hc k. rewrite (Ha k). split; intros (n & H1 & H2 & H3); exists n; (split; [exact H1|split; [|exact H3]]).
  - destruct (Nat.eq_dec l 0) as [->|Nl]; [|now rewrite setnx_up].
    destruct (Nat.eq_dec n p) as [->|Np]; [|now rewrite setnx_other0]. rewrite setnx_same.
    destruct (Hc eq_refl) as [N|E]; [contradiction|congruence].
  - destruct (Nat.eq_dec l 0) as [->|Nl]; [|now rewrite setnx_up in H2].
    destruct (Nat.eq_dec n p) as [->|Np]; [|now rewrite setnx_other0 in H2]. rewrite setnx_same in H2.
    destruct (Hc eq_refl) as [N|E]; [contradiction|congruence].
Qed.

Lemma walk_same_next g p q L : fst (nxt g q 0) = fst (nxt g p 0) -> walk g p L -> walk g q L.
Proof. intros E. destruct L as [|n r]; cbn [walk]; rewrite E; tauto. Qed.

Lemma walk_insert g pred new succ :
  fst (nxt g pred 0) = succ -> fst (nxt g new 0) = succ -> new <> null ->
  forall L p0, walk g p0 L -> In pred (p0 :: L) -> NoDup (p0 :: L) -> ~ In new (p0 :: L) ->
  exists L', walk (setnx g pred 0 (new, false)) p0 L' /\ (forall x, In x L' <-> x = new \/ In x L).
Proof.
  intros Ep En Nn. induction L as [|n r IH]; intros p0 Hw Hin Hnd Hnew.
  - destruct Hin as [->|[]]. exists [new]. split; [|intros x; cbn; intuition congruence].
    cbn [walk] in *. rewrite setnx_same. repeat split; auto.
    rewrite setnx_other0 by (intros ->; apply Hnew; now left). congruence.
  - destruct (Nat.eq_dec p0 pred) as [->|Np].
    + exists (new :: n :: r). split; [|intros x; cbn; intuition congruence].
      assert (W : walk (setnx g pred 0 (new, false)) new (n :: r)).
      { apply walk_other; [|eapply walk_same_next; [|exact Hw]; congruence].
        intros [->|H]; [apply Hnew; now left|]. apply NoDup_cons_iff in Hnd. destruct Hnd as [Hx _]. contradiction. }
      change (fst (nxt (setnx g pred 0 (new, false)) pred 0) = new /\ new <> null /\ walk (setnx g pred 0 (new, false)) new (n :: r)).
      rewrite setnx_same. auto.
    + destruct Hin as [->|Hin]; [congruence|]. cbn [walk] in Hw. destruct Hw as (E & N & Hw).
      apply NoDup_cons_iff in Hnd. destruct Hnd as [Hn0 Hnd'].
      destruct (IH n Hw Hin Hnd') as (L' & W' & I'); [intros H; apply Hnew; now right|].
      exists (n :: L'). split.
      * cbn [walk]. rewrite setnx_other0 by exact Np. repeat split; auto.
      * intros x. cbn [In]. rewrite I'. cbn [In]. intuition congruence.
Qed.

Lemma walk_unlink g pred cur succ :
  fst (nxt g pred 0) = cur -> cur <> null -> fst (nxt g cur 0) = succ -> cur <> pred ->
  forall L p0, walk g p0 L -> In pred (p0 :: L) -> NoDup (p0 :: L) ->
  exists L', walk (setnx g pred 0 (succ, false)) p0 L' /\ (forall x, In x L' <-> In x L /\ x <> cur) /\ In cur L.
Proof.
  intros Ep Nc Ec Ncp. induction L as [|n r IH]; intros p0 Hw Hin Hnd.
  - destruct Hin as [->|[]]. cbn [walk] in Hw. congruence.
  - destruct (Nat.eq_dec p0 pred) as [->|Np].
    + cbn [walk] in Hw. destruct Hw as (E & N & Hw). assert (Hn : n = cur) by congruence. rewrite Hn in *. clear Hn.
      apply NoDup_cons_iff in Hnd. destruct Hnd as [Hp Hnd']. apply NoDup_cons_iff in Hnd'. destruct Hnd' as [Hc Hnd''].
      exists r. split; [|split; [|now left]].
      * eapply walk_same_next with (p := cur).
        -- rewrite setnx_same, setnx_other0 by exact Ncp. cbn. congruence.
        -- apply walk_other; [|exact Hw]. intros [H|H]; [congruence|]. apply Hp. now right.
      * intros x. cbn [In]. split; [intros H; split; [now right|intros ->; contradiction]|intros ([H|H] & Hx); [congruence|exact H]].
    + destruct Hin as [->|Hin]; [congruence|]. cbn [walk] in Hw. destruct Hw as (E & N & Hw).
      apply NoDup_cons_iff in Hnd. destruct Hnd as [Hn0 Hnd'].
      destruct (IH n Hw Hin Hnd') as (L' & W' & I' & C').
      exists (n :: L'). split; [|split; [|now right]].
      * cbn [walk]. rewrite setnx_other0 by exact Np. repeat split; auto.
      * intros x. cbn [In]. rewrite I'. split; [intros [->|(H1 & H2)]; [split; [now left|]|tauto]|intros ([->|H1] & H2); [now left|right; tauto]].
        intros ->. apply NoDup_cons_iff in Hnd'. destruct Hnd' as [Hx _]. contradiction.
Qed.

Lemma strictly_inc_inj (L : list ptr) a b : strictly_inc (map key_of L) -> In a L -> In b L -> key_of a = key_of b -> a = b.
Proof.
  induction L as [|n r IH]; cbn [map strictly_inc In]; [tauto|]. intros [F S] Ha Hb E.
  rewrite Forall_map, Forall_forall in F.
  destruct Ha as [->|Ha], Hb as [->|Hb]; auto.
  - specialize (F _ Hb). cbn in F. lia.
  - specialize (F _ Ha). cbn in F. lia.
Qed.

Lemma chain_nodup g a : IS g a -> NoDup (head :: aL a) /\ ~ In null (aL a).
Proof.
  intros H. destruct (walk_notin g (aL a) head (s_I _ _ H) (or_introl eq_refl) (s_walk _ _ H)) as (H1 & _ & H3 & H4).
  split; [constructor; assumption|exact H3].
Qed.

(** the level-0 link CAS of an insert: the new node enters the chain right after [pred] *)
Lemma IS_link g a t pred succ new lv' atr' :
  IS g a -> (pred = head \/ apub a pred = true) -> nxt g pred 0 = (succ, false) ->
  vown (view a t) = Some (new, (succ, false)) -> lnk 0 pred new ->
  let g' := setnx g pred 0 (new, false) in
  let pub' := fun n => Nat.eqb n new || apub a n in
  lv_ok g' pub' t lv' ->
  exists L', IS g' (mk_a a t pub' L' lv' atr') /\ (forall x, In x L' <-> x = new \/ In x (aL a)).
Proof.
  intros H Hp Hc Ho Hl g' pub' Hv.
  destruct (s_views _ _ H t) as (_ & _ & Own & _). rewrite Ho in Own. destruct Own as (O1 & O2 & O3 & O4).
  assert (Hch : In pred (head :: aL a)) by (eapply unmarked_on_chain; eauto; now rewrite Hc).
  destruct (chain_nodup _ _ H) as [Hnd Hnull].
  assert (Hnew : ~ In new (head :: aL a)).
  { intros [E|E]; [unfold isnode, head in *; lia|]. apply (s_Lpub _ _ H) in E. congruence. }
  destruct (walk_insert g pred new succ ltac:(now rewrite Hc) ltac:(now rewrite O4) ltac:(unfold isnode, null in *; lia)
             (aL a) head (s_walk _ _ H) Hch Hnd Hnew) as (L' & W' & I').
  assert (Hpub : forall n, apub a n = true -> pub' n = true) by (intros n E; unfold pub'; rewrite E; apply orb_true_r).
  assert (Hpn : pub' new = true) by (unfold pub'; now rewrite Nat.eqb_refl).
  assert (Hnp : new <> pred) by (intros ->; destruct Hp as [E|E]; [unfold isnode, head in *; lia|congruence]).
  exists L'. split; [|exact I']. destruct H as [h1 h2 h3 h4 h5 h6 h7 h8 h9]. constructor; cbn [apub aL mk_a].
  - apply I_upd; assumption.
  - exact h2.
  - exact W'.
  - intros n Hn. apply I' in Hn. destruct Hn as [->|Hn]; auto.
  - intros n Hn. unfold pub' in Hn. apply orb_true_iff in Hn. destruct Hn as [Hn|Hn]; [apply Nat.eqb_eq in Hn; now subst|auto].
  - intros n l. destruct (Nat.eq_dec n pred) as [->|Np].
    + destruct (Nat.eq_dec l 0) as [->|Nl]; [unfold g'; rewrite setnx_same; now right|].
      unfold g'. rewrite setnx_other by congruence. destruct (h6 pred l); auto.
    + unfold g'. rewrite setnx_other by congruence. destruct (h6 n l); auto.
  - intros n Hn Hm. apply I'. unfold pub' in Hn. apply orb_true_iff in Hn. destruct Hn as [Hn|Hn]; [apply Nat.eqb_eq in Hn; now left|right].
    destruct (Nat.eq_dec n pred) as [->|Np].
    + destruct Hch as [E|E]; [|exact E]. apply h5 in Hn. unfold isnode, head in *; lia.
    + unfold g' in Hm. rewrite setnx_other0 in Hm by exact Np. auto.
  - destruct (Nat.eq_dec head pred) as [<-|Np]; [unfold g'; now rewrite setnx_same|unfold g'; now rewrite setnx_other0].
  - intros u. destruct (Nat.eq_dec u t) as [->|Nu]; [now rewrite view_mk_same|]. rewrite view_mk_other by exact Nu.
    apply lv_ok_stable with (pub := apub a); auto.
    + intros n E1 E2. unfold pub' in E1. rewrite E2, orb_false_r in E1. apply Nat.eqb_eq in E1. subst n. congruence.
    + intros _ c nx Hin ->. destruct (frozen_marked _ _ _ _ _ _ (h9 u) Hin) as [E _]. rewrite Hc in E. discriminate.
    + intros _ v E. destruct (h9 u) as (_ & _ & Ou & _). rewrite E in Ou. destruct Ou as (U1 & U2 & _).
      destruct Hp as [->|Hp]; [unfold isnode, head in *; lia|congruence].
Qed.

Lemma abs_link g a pred succ new S L' :
  IS g a -> nxt g pred 0 = (succ, false) -> nxt g new 0 = (succ, false) -> new <> pred -> ~ In new (aL a) ->
  abs g (aL a) S -> (forall x, In x L' <-> x = new \/ In x (aL a)) ->
  (forall L0, walk (setnx g pred 0 (new, false)) head L0 -> (forall x, In x L0 <-> In x L') -> strictly_inc (map key_of L0)) ->
  walk (setnx g pred 0 (new, false)) head L' ->
  abs (setnx g pred 0 (new, false)) L' (key_of new :: S) /\ zmem (key_of new) S = false.
Proof.
  intros H Hc Hn Np Nin Ha I' Hs W'.
  assert (Hm : forall n, snd (nxt (setnx g pred 0 (new, false)) n 0) = snd (nxt g n 0)).
  { intros n. destruct (Nat.eq_dec n pred) as [->|N]; [rewrite setnx_same, Hc; reflexivity|now rewrite setnx_other0]. }
  assert (Hz : zmem (key_of new) S = false).
  { destruct (zmem (key_of new) S) eqn:E; [|reflexivity]. exfalso. apply Ha in E. destruct E as (n & H1 & H2 & H3).
    assert (n = new); [|subst; contradiction].
    eapply strictly_inc_inj; [apply (Hs L' W'); tauto| | |exact H3]; apply I'; auto. }
  split; [|exact Hz]. intros k. cbn [zmem existsb]. fold (zmem k S). rewrite orb_true_iff, (Ha k). split.
  - intros [E|(n & H1 & H2 & H3)].
    + apply Z.eqb_eq in E. exists new. split; [apply I'; now left|]. split; [now rewrite Hm, Hn|congruence].
    + exists n. split; [apply I'; now right|]. split; [now rewrite Hm|exact H3].
  - intros (n & H1 & H2 & H3). apply I' in H1. destruct H1 as [->|H1]; [left; apply Z.eqb_eq; congruence|right].
    exists n. rewrite Hm in H2. auto.
Qed.

(** the level-0 unlink CAS: a marked node leaves the chain *)
Lemma IS_unlink g a t pred cur succ lv' atr' :
  IS g a -> (pred = head \/ apub a pred = true) -> nxt g pred 0 = (cur, false) -> cur <> null ->
  nxt g cur 0 = (succ, true) -> lnk 0 pred succ ->
  let g' := setnx g pred 0 (succ, false) in
  lv_ok g' (apub a) t lv' ->
  exists L', IS g' (mk_a a t (apub a) L' lv' atr') /\ (forall x, In x L' <-> In x (aL a) /\ x <> cur).
Proof.
  intros H Hp Hc Nc Hcur Hl g' Hv.
  assert (Hch : In pred (head :: aL a)) by (eapply unmarked_on_chain; eauto; now rewrite Hc).
  destruct (chain_nodup _ _ H) as [Hnd Hnull].
  assert (Ncp : cur <> pred) by (intros ->; rewrite Hc in Hcur; discriminate).
  destruct (walk_unlink g pred cur succ ltac:(now rewrite Hc) Nc ltac:(now rewrite Hcur) Ncp (aL a) head (s_walk _ _ H) Hch Hnd)
    as (L' & W' & I' & C').
  exists L'. split; [|exact I']. destruct H as [h1 h2 h3 h4 h5 h6 h7 h8 h9]. constructor; cbn [apub aL mk_a].
  - apply I_upd; assumption.
  - exact h2.
  - exact W'.
  - intros n Hn. apply I' in Hn. apply h4. tauto.
  - exact h5.
  - intros n l. destruct (Nat.eq_dec n pred) as [->|Np].
    + destruct (Nat.eq_dec l 0) as [->|Nl]; [|unfold g'; rewrite setnx_other by congruence; auto].
      unfold g'. rewrite setnx_same. cbn [fst]. specialize (h6 cur 0%nat). now rewrite Hcur in h6.
    + unfold g'. rewrite setnx_other by congruence. auto.
  - intros n Hn Hm. apply I'. destruct (Nat.eq_dec n pred) as [->|Np].
    + split; [|congruence]. destruct Hch as [E|E]; [|exact E]. apply h5 in Hn. unfold isnode, head in *; lia.
    + unfold g' in Hm. rewrite setnx_other0 in Hm by exact Np. split; [auto|]. intros ->. rewrite Hcur in Hm. discriminate.
  - destruct (Nat.eq_dec head pred) as [<-|Np]; [unfold g'; now rewrite setnx_same|unfold g'; now rewrite setnx_other0].
  - intros u. destruct (Nat.eq_dec u t) as [->|Nu]; [now rewrite view_mk_same|]. rewrite view_mk_other by exact Nu.
    apply lv_ok_stable with (pub := apub a); auto.
    + intros n E1 E2. congruence.
    + intros _ c nx Hin ->. destruct (frozen_marked _ _ _ _ _ _ (h9 u) Hin) as [E _]. rewrite Hc in E. discriminate.
    + intros _ v E. destruct (h9 u) as (_ & _ & Ou & _). rewrite E in Ou. destruct Ou as (U1 & U2 & _).
      destruct Hp as [->|Hp]; [unfold isnode, head in *; lia|congruence].
Qed.

Lemma abs_unlink g L S pred cur succ L' :
  abs g L S -> nxt g pred 0 = (cur, false) -> nxt g cur 0 = (succ, true) ->
  (forall x, In x L' <-> In x L /\ x <> cur) -> abs (setnx g pred 0 (succ, false)) L' S.
Proof.
  intros Ha Hc Hcur I' k. rewrite (Ha k).
  assert (Hm : forall n, snd (nxt (setnx g pred 0 (succ, false)) n 0) = snd (nxt g n 0)).
  { intros n. destruct (Nat.eq_dec n pred) as [->|N]; [rewrite setnx_same, Hc; reflexivity|now rewrite setnx_other0]. }
  split; intros (n & H1 & H2 & H3); exists n.
  - split; [apply I'; split; [exact H1|intros ->; rewrite Hcur in H2; discriminate]|]. now rewrite Hm.
  - rewrite Hm in H2. apply I' in H1. tauto.
Qed.

Lemma zmem_zdel k k' S : zmem k (zdel k' S) = true <-> k <> k' /\ zmem k S = true.
Proof.
  unfold zmem, zdel. rewrite !existsb_exists. split.
  - intros (x & Hx & E). apply filter_In in Hx. destruct Hx as [H1 H2]. apply Z.eqb_eq in E. subst x.
    apply negb_true_iff, Z.eqb_neq in H2. split; [congruence|]. exists k. split; [exact H1|apply Z.eqb_refl].
  - intros (N & x & Hx & E). apply Z.eqb_eq in E. subst x. exists k. split; [|apply Z.eqb_refl].
    apply filter_In. split; [exact Hx|]. apply negb_true_iff, Z.eqb_neq. congruence.
Qed.

(** the level-0 mark CAS: the key leaves the abstract set *)
Lemma abs_mark g a S del q :
  IS g a -> abs g (aL a) S -> In del (aL a) -> nxt g del 0 = (q, false) ->
  abs (setnx g del 0 (q, true)) (aL a) (zdel (key_of del) S) /\ zmem (key_of del) S = true.
Proof.
  intros H Ha Hin Hc. split; [|apply Ha; exists del; rewrite Hc; auto].
  destruct (walk_sorted g (s_I _ _ H) (aL a) head (or_introl eq_refl) (s_walk _ _ H)) as [_ Hs].
  intros k. rewrite zmem_zdel. split.
  - intros (E2 & E1). apply Ha in E1. destruct E1 as (n & H1 & H2 & H3).
    exists n. split; [exact H1|]. split; [|exact H3].
    rewrite setnx_other0; [exact H2|]. intros ->. congruence.
  - intros (n & H1 & H2 & H3). destruct (Nat.eq_dec n del) as [->|N]; [rewrite setnx_same in H2; discriminate|].
    rewrite setnx_other0 in H2 by exact N. split; [|apply Ha; eauto].
    intros E. apply N. eapply strictly_inc_inj; eauto. congruence.
Qed.

Section WithNodes.
Variable nodes : list (nat * nat).

Definition SAFE {R} (t : nat) (p : prog R) (lv : lview) : Prop :=
  @Conc.safe G V ev aux lview view (Inv nodes) R t p lv (fun _ _ => True).

Lemma upd_hist_acc tr t k o ok : upd_hist nodes (tr ++ Conc.tag t [EvAcc k o ok]) = upd_hist nodes tr.
Proof. unfold upd_hist. rewrite fold_left_app. reflexivity. Qed.

Lemma exhausted_app tr tr' : exhausted tr -> exhausted (tr ++ tr').
Proof. intros (t & H). exists t. apply in_or_app. now left. Qed.

Lemma S_act {R} t f (k : V -> prog R) lv :
  (forall g a tr, Inv nodes g a tr -> view a t = lv ->
     exists pub' L' lv' atr', Inv nodes (fst (fst (f g))) (mk_a a t pub' L' lv' atr') (tr ++ Conc.tag t (snd (f g))) /\
                              SAFE t (k (snd (fst (f g)))) lv') ->
  SAFE t (Act f k) lv.
Proof.
  intros H. unfold SAFE. cbn [Conc.safe]. intros g a tr Hi Hv. destruct (H g a tr Hi Hv) as (pub' & L' & lv' & atr' & H1 & H2).
  exists (mk_a a t pub' L' lv' atr'). split; [exact H1|]. split; [apply frame_mk|]. now rewrite view_mk_same.
Qed.

(** the annotated trace is untouched by a step that is not a linearization point *)
Lemma IL_keep g g' a t pub' lv' tr kd ob ok :
  IL nodes g a tr -> vst lv' = vst (view a t) ->
  (forall S, abs g (aL a) S -> abs g' (aL a) S) ->
  IL nodes g' (mk_a a t pub' (aL a) lv' (aatr a)) (tr ++ Conc.tag t [EvAcc kd ob ok]).
Proof.
  intros [(S & st & H1 & H2 & H3) H4] Hs Ha. constructor; cbn [aatr aL mk_a].
  - exists S, st. split; [exact H1|]. split; [|now apply Ha].
    intros u. destruct (Nat.eq_dec u t) as [->|Hu]; [rewrite view_mk_same; rewrite H2; congruence|].
    rewrite view_mk_other by exact Hu. apply H2.
  - rewrite upd_hist_acc. exact H4.
Qed.

(** same, the chain list changes but the abstract set does not (unlink of a marked node) *)
Lemma IL_keepL g g' a t pub' L' lv' tr kd ob ok :
  IL nodes g a tr -> vst lv' = vst (view a t) ->
  (forall S, abs g (aL a) S -> abs g' L' S) ->
  IL nodes g' (mk_a a t pub' L' lv' (aatr a)) (tr ++ Conc.tag t [EvAcc kd ob ok]).
Proof.
  intros [(S & st & H1 & H2 & H3) H4] Hs Ha. constructor; cbn [aatr aL mk_a].
  - exists S, st. split; [exact H1|]. split; [|now apply Ha].
    intros u. destruct (Nat.eq_dec u t) as [->|Hu]; [rewrite view_mk_same; rewrite H2; congruence|].
    rewrite view_mk_other by exact Hu. apply H2.
  - rewrite upd_hist_acc. exact H4.
Qed.

(** a linearization point *)
Lemma IL_lp g g' a t pub' L' lv' tr kd ob ok o :
  IL nodes g a tr -> vst (view a t) = @Pending SetSpec o ->
  (forall S, abs g (aL a) S -> abs g' L' (fst (set_step S o)) /\ vst lv' = @Linearized SetSpec o (snd (set_step S o))) ->
  IL nodes g' (mk_a a t pub' L' lv' (aatr a ++ [ALin t])) (tr ++ Conc.tag t [EvAcc kd ob ok]).
Proof.
  intros [(S & st & H1 & H2 & H3) H4] Hs Ha. destruct (Ha S H3) as [Ha1 Ha2]. constructor; cbn [aatr aL mk_a].
  - exists (fst (set_step S o)), (upd st t (@Linearized SetSpec o (snd (set_step S o)))). split; [|split; [|exact Ha1]].
    + rewrite (MI.lp_run_snoc _ _ _ H1). cbn [lp_step]. rewrite H2, Hs. reflexivity.
    + intros u. destruct (Nat.eq_dec u t) as [->|Hu]; [rewrite view_mk_same, upd_same; congruence|].
      rewrite view_mk_other by exact Hu. rewrite upd_other by exact Hu. apply H2.
  - rewrite upd_hist_acc, erase_app. cbn [erase]. rewrite app_nil_r. exact H4.
Qed.


Lemma inv_step g g' a a' tr es :
  IS g' a' -> (IL nodes g a tr -> IL nodes g' a' (tr ++ es)) -> (IL nodes g a tr \/ exhausted tr) -> Inv nodes g' a' (tr ++ es).
Proof. intros H1 H2 [H|H]; split; auto. right. now apply exhausted_app. Qed.

Lemma abs_ext g g' L S : nxt g' = nxt g -> abs g L S -> abs g' L S.
Proof. intros E H k. rewrite (H k). now rewrite E. Qed.

Lemma HB_ext g g' : hgt_of g' = hgt_of g -> HB g -> HB g'.
Proof. intros E H p. rewrite E. apply H. Qed.

Definition nxlike (f : G -> G * V * list ev) : Prop :=
  forall g, nxt (fst (fst (f g))) = nxt g /\ hgt_of (fst (fst (f g))) = hgt_of g /\ exists kd ob ok, snd (f g) = [EvAcc kd ob ok].

(** a step that changes neither the links nor the ghost state, except that the thread may record more facts *)
Lemma S_keep {R} t f (k : V -> prog R) lv :
  nxlike f ->
  (forall g a, IS g a -> view a t = lv -> exists lv', vst lv' = vst lv /\ lv_ok g (apub a) t lv' /\ SAFE t (k (snd (fst (f g)))) lv') ->
  SAFE t (Act f k) lv.
Proof.
  intros Hf H. apply S_act. intros g a tr [Hs Hl] Hv. destruct (Hf g) as (E1 & E2 & kd & ob & ok & E3).
  destruct (H g a Hs Hv) as (lv' & V1 & V2 & V3). exists (apub a), (aL a), lv', (aatr a). split; [|exact V3].
  rewrite E3. eapply inv_step; [| |exact Hl].
  - eapply IS_view; eauto; [eapply HB_ext; eauto; apply (s_HB _ _ Hs)|eapply lv_ok_ext; eauto].
  - intros Hil. apply IL_keep with (g := g); auto; [congruence|]. intros S. now apply abs_ext.
Qed.

Lemma S_nx {R} t f (k : V -> prog R) lv : nxlike f -> (forall v, SAFE t (k v) lv) -> SAFE t (Act f k) lv.
Proof.
  intros Hf H. apply S_keep; [exact Hf|]. intros g a Hs Hv. exists lv. split; [reflexivity|]. split; [|apply H].
  rewrite <- Hv. apply (s_views _ _ Hs).
Qed.

Ltac nxl := intros g0; cbn; repeat split; eauto.
Ltac nx := apply S_nx; [nxl|intros ?].

Lemma S_ld {R} t p l (k : V -> prog R) lv :
  (forall x, lnk l p (fst x) -> SAFE t (k (VP x)) (addkn (fst x) lv)) -> SAFE t (Act (a_ld_next p l) k) lv.
Proof.
  intros H. apply S_keep; [nxl|]. intros g a Hs Hv. cbn [a_ld_next fst snd].
  exists (addkn (fst (nxt g p l)) lv). split; [unfold addkn; destruct (Nat.eqb _ null); reflexivity|]. split.
  - apply lv_ok_addkn; [rewrite <- Hv; apply (s_views _ _ Hs)|apply (s_closed _ _ Hs)].
  - apply H. apply (s_I _ _ Hs).
Qed.

(** level-0 load of the cell of a known node: a marked value is recorded as frozen *)
Lemma S_ld0 {R} t p (k : V -> prog R) lv :
  known lv p ->
  (forall x, lnk 0 p (fst x) ->
     SAFE t (k (VP x)) (if snd x then addfz p (fst x) (addkn (fst x) lv) else addkn (fst x) lv)) ->
  SAFE t (Act (a_ld_next p 0) k) lv.
Proof.
  intros Hk H. apply S_keep; [nxl|]. intros g a Hs Hv. cbn [a_ld_next fst snd].
  set (x := nxt g p 0). assert (Hok : lv_ok g (apub a) t (addkn (fst x) lv)).
  { apply lv_ok_addkn; [rewrite <- Hv; apply (s_views _ _ Hs)|apply (s_closed _ _ Hs)]. }
  exists (if snd x then addfz p (fst x) (addkn (fst x) lv) else addkn (fst x) lv). split; [|split; [|apply H; apply (s_I _ _ Hs)]].
  - destruct (snd x); unfold addfz, addkn; destruct (Nat.eqb _ null); reflexivity.
  - destruct (snd x) eqn:Ex; [|exact Hok]. apply lv_ok_addfz; [exact Hok| |unfold x in *; destruct (nxt g p 0); cbn in *; congruence].
    rewrite <- Hv in Hk. destruct (known_pub _ _ _ _ Hs Hk) as [->|Hp]; [|exact Hp].
    unfold x in Ex. rewrite (s_head _ _ Hs) in Ex. discriminate.
Qed.

Lemma S_guard_h {R} t slot p (k : V -> prog R) lv :
  (forall h, (h <= MAXH)%nat -> SAFE t (k (VZ (Z.of_nat h))) lv) -> SAFE t (Act (a_guard_st_h t slot p) k) lv.
Proof.
  intros H. apply S_keep; [nxl|]. intros g a Hs Hv. exists lv. split; [reflexivity|]. split; [rewrite <- Hv; apply (s_views _ _ Hs)|].
  cbn [a_guard_st_h fst snd]. apply H. apply (s_HB _ _ Hs).
Qed.

Lemma S_st_unl {R} t p n h (k : V -> prog R) lv :
  (h <= MAXH)%nat -> (forall v, SAFE t (k v) lv) -> SAFE t (Act (a_st_unl p n h) k) lv.
Proof.
  intros Hh H. apply S_act. intros g a tr [Hs Hl] Hv. exists (apub a), (aL a), lv, (aatr a). split; [|apply H].
  cbn [a_st_unl fst snd]. eapply inv_step; [| |exact Hl].
  - apply (IS_view g _ a t lv (aatr a) Hs); [reflexivity| |].
    + intros p'. cbn [hgt_of]. unfold upd1. destruct (Nat.eqb p' p); [exact Hh|apply (s_HB _ _ Hs)].
    + eapply lv_ok_ext; [reflexivity|]. rewrite <- Hv. apply (s_views _ _ Hs).
  - intros Hil. apply IL_keep with (g := g); auto. congruence.
Qed.


Lemma mp_eqb_eq (a b : mptr) : mp_eqb a b = true -> a = b.
Proof.
  unfold mp_eqb. destruct a as [a1 a2], b as [b1 b2]. cbn. intros H. apply andb_true_iff in H. destruct H as [H1 H2].
  apply Nat.eqb_eq in H1. apply Bool.eqb_prop in H2. congruence.
Qed.

Definition set_own (lv : lview) (o : option (ptr * mptr)) : lview := mkLV (vkn lv) (vfz lv) o (vser lv) (vst lv).

Lemma lv_ok_others g a t p l x :
  IS g a -> (l = 0%nat -> (snd (nxt g p 0) = false \/ apub a p = false)) -> (l = 0%nat -> (p = head \/ apub a p = true \/ owner_of p = t)) ->
  forall u, u <> t -> lv_ok (setnx g p l x) (apub a) u (view a u).
Proof.
  intros Hs H1 H2 u Nu. apply lv_ok_stable with (pub := apub a); auto; [apply (s_views _ _ Hs)|congruence| |].
  - intros El c nx Hin ->. destruct (frozen_marked _ _ _ _ _ _ (s_views _ _ Hs u) Hin) as [E1 E2].
    destruct (H1 El) as [E|E]; congruence.
  - intros El v E. destruct (s_views _ _ Hs u) as (_ & _ & Ou & _). rewrite E in Ou. destruct Ou as (U1 & U2 & U3 & _).
    destruct (H2 El) as [->|[E'|E']]; [unfold isnode, head in *; lia|congruence|congruence].
Qed.

(** a store into a cell of my own, not yet linked, node *)
Lemma S_st_own {R} t p l x v (k : V -> prog R) lv :
  vown lv = Some (p, v) -> lnk l p (fst x) -> knownz lv (fst x) ->
  (forall v', SAFE t (k v') (if Nat.eqb l 0 then set_own lv (Some (p, x)) else lv)) ->
  SAFE t (Act (a_st_next p l x) k) lv.
Proof.
  intros Ho Hl Hk H. apply S_act. intros g a tr [Hs Hil] Hv. cbn [a_st_next fst snd].
  set (lv' := if Nat.eqb l 0 then set_own lv (Some (p, x)) else lv).
  exists (apub a), (aL a), lv', (aatr a). split; [|apply H].
  pose proof (s_views _ _ Hs t) as Vt. rewrite Hv in Vt. destruct Vt as (K & F & O & Fr). rewrite Ho in O. destruct O as (O1 & O2 & O3 & O4).
  assert (Hnot : ~ In p (head :: aL a)).
  { intros [E|E]; [unfold isnode, head in *; lia|]. apply (s_Lpub _ _ Hs) in E. congruence. }
  change (mkG (upd2 (nxt g) p l x) (unl g) (hgt_of g) (hgt g) (cnt g)) with (setnx g p l x).
  eapply inv_step; [| |exact Hil].
  - apply IS_cell; auto.
    + rewrite <- Hv in Hk. destruct (knownz_pub _ _ _ _ Hs Hk); auto.
    + intros _ ->. unfold isnode, head in *; lia.
    + intros _ E. congruence.
    + apply lv_ok_others; auto.
    + assert (E1 : vkn lv' = vkn lv) by (unfold lv'; destruct (Nat.eqb l 0); reflexivity).
      assert (E2 : vfz lv' = vfz lv) by (unfold lv'; destruct (Nat.eqb l 0); reflexivity).
      assert (E3 : vser lv' = vser lv) by (unfold lv'; destruct (Nat.eqb l 0); reflexivity).
      split; [rewrite E1; exact K|]. split; [rewrite E2|split; [|unfold fresh_ok; rewrite E3]].
      * rewrite Forall_forall in *. intros [c nx] Hin. destruct (F _ Hin) as (F1 & F2). cbn [fst snd] in *. split; [exact F1|].
        rewrite setnx_other; [exact F2|]. intros E. inversion E; subst. congruence.
      * unfold lv'. destruct (Nat.eqb_spec l 0) as [->|Nl]; cbn [vown set_own own_ok].
        -- rewrite setnx_same. auto.
        -- rewrite Ho. cbn [own_ok]. rewrite setnx_up by exact Nl. auto.
      * intros n H1 H2 H3. destruct (Fr n H1 H2 H3) as [F1 F2].
        split; [exact F1|]. intros v0 E. unfold lv' in E. destruct (Nat.eqb l 0); cbn [vown set_own] in E; [|eapply F2; eauto].
        inversion E; subst. eapply F2; eauto.
  - intros Hi. apply IL_keep with (g := g); auto.
    + rewrite Hv. unfold lv'. destruct (Nat.eqb l 0); reflexivity.
    + intros S HS. apply abs_cell; auto. intros _. left. intros E. apply Hnot. now right.
Qed.

(** a CAS on an upper level *)
Lemma S_cas_up {R} t p l e d (k : V -> prog R) lv :
  l <> 0%nat -> lnk l p (fst d) -> knownz lv (fst d) ->
  (forall ok cur, lnk l p (fst cur) -> SAFE t (k (VC ok cur)) (addkn (fst cur) lv)) ->
  SAFE t (Act (a_cas_next p l e d) k) lv.
Proof.
  intros Nl Hl Hk H. apply S_act. intros g a tr [Hs Hil] Hv. unfold a_cas_next.
  pose proof (s_views _ _ Hs t) as Vt. rewrite Hv in Vt.
  assert (Hcl : fst (nxt g p l) = null \/ apub a (fst (nxt g p l)) = true) by apply (s_closed _ _ Hs).
  exists (apub a), (aL a), (addkn (fst (nxt g p l)) lv), (aatr a).
  destruct (mp_eqb (nxt g p l) e) eqn:E; cbn [fst snd].
  - split; [|apply H; apply (s_I _ _ Hs)].
    change (mkG (upd2 (nxt g) p l d) (unl g) (hgt_of g) (hgt g) (cnt g)) with (setnx g p l d).
    eapply inv_step; [| |exact Hil].
    + apply IS_cell; [exact Hs|exact Hl| |intros; congruence|intros; congruence|intros; congruence| |].
      * rewrite <- Hv in Hk. destruct (knownz_pub _ _ _ _ Hs Hk); auto.
      * apply lv_ok_others; auto; intros; congruence.
      * apply lv_ok_addkn; [|exact Hcl]. apply lv_ok_stable with (pub := apub a); auto; intros; congruence.
    + intros Hi. apply IL_keep with (g := g); auto.
      * rewrite Hv. unfold addkn. destruct (Nat.eqb _ null); reflexivity.
      * intros S HS. apply abs_cell; auto. intros; congruence.
  - split; [|apply H; apply (s_I _ _ Hs)]. eapply inv_step; [| |exact Hil].
    + apply (IS_view g g a t _ (aatr a) Hs); [reflexivity|apply (s_HB _ _ Hs)|]. now apply lv_ok_addkn.
    + intros Hi. apply IL_keep with (g := g); auto. rewrite Hv. unfold addkn. destruct (Nat.eqb _ null); reflexivity.
Qed.

End WithNodes.
