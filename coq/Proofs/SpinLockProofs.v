(** * Mutual exclusion of cds::sync::spin_lock for every schedule, any number of threads and locks. *)
From Coq Require Import ZArith List String Bool Lia PeanoNat.
From LV Require Import Base.Conc Base.Events Model.SpinLock.
Import ListNotations.
Local Open Scope Z_scope.
Local Open Scope string_scope.

(** occupancy of the critical section of lock [l] according to a trace: #enter - #leave *)
Definition ev_delta (l : nat) (e : ev) : Z :=
  match e with
  | EvCli name [x] =>
      if Z.eqb x (Z.of_nat l) then
        (if String.eqb name "enter" then 1 else if String.eqb name "leave" then -1 else 0)
      else 0
  | _ => 0
  end.

Fixpoint occ (l : nat) (tr : list (nat * ev)) : Z :=
  match tr with
  | [] => 0
  | (_, e) :: r => ev_delta l e + occ l r
  end.

Lemma occ_app l tr tr' : occ l (tr ++ tr') = occ l tr + occ l tr'.
Proof. induction tr as [|[t e] r IH]; cbn [occ app]; lia. Qed.

Inductive phase := Idle | Held (l : nat) | Inside (l : nat).
Definition holds (p : phase) (l : nat) : Prop := p = Held l \/ p = Inside l.

Definition Aux := nat -> phase.
Definition view (a : Aux) (t : nat) : phase := a t.

Definition Inv (g : G) (a : Aux) (tr : list (nat * ev)) : Prop :=
  (forall t l, holds (a t) l -> get_spin g l = true) /\
  (forall t t' l, holds (a t) l -> holds (a t') l -> t = t') /\
  (forall l, (occ l tr = 0 /\ forall t, a t <> Inside l) \/ (occ l tr = 1 /\ exists t, a t = Inside l)).

Definition upd (a : Aux) (t : nat) (p : phase) : Aux := fun x => if Nat.eqb x t then p else a x.

Lemma upd_same a t p : upd a t p t = p.
Proof. unfold upd. now rewrite Nat.eqb_refl. Qed.
Lemma upd_other a t p t' : t' <> t -> upd a t p t' = a t'.
Proof. unfold upd. intros H. destruct (Nat.eqb_spec t' t); congruence. Qed.
Lemma view_upd_same a t p : view (upd a t p) t = p.
Proof. unfold view. apply upd_same. Qed.
Lemma frame_upd a t p : Conc.frame view t a (upd a t p).
Proof. intros t' H. unfold view. now apply upd_other. Qed.

Notation safe := (@Conc.safe G V ev Aux phase view Inv).

Lemma get_set_same g l b : get_spin (set_spin g l b) l = b.
Proof. unfold get_spin, set_spin; cbn. now rewrite Nat.eqb_refl. Qed.
Lemma get_set_other g l b l' : l' <> l -> get_spin (set_spin g l b) l' = get_spin g l'.
Proof. unfold get_spin, set_spin; cbn. intros H. destruct (Nat.eqb_spec l' l); congruence. Qed.

Lemma holds_Idle l : ~ holds Idle l.
Proof. intros [H|H]; discriminate. Qed.

Lemma occ_tag_acc l t k o ok : occ l (Conc.tag t [EvAcc k o ok]) = 0.
Proof. reflexivity. Qed.

(** an access event does not change occupancies *)
Lemma Inv_acc_trace g a tr t k o ok : Inv g a tr -> Inv g a (tr ++ Conc.tag t [EvAcc k o ok]).
Proof.
  intros (I1 & I2 & I3). repeat split; auto.
  intros l. rewrite occ_app, occ_tag_acc, Z.add_0_r. apply I3.
Qed.

(** *** acquiring: an exchange that read [false] makes the caller the holder *)
Lemma acquire_ok g a tr t l :
  Inv g a tr -> a t = Idle -> get_spin g l = false ->
  Inv (set_spin g l true) (upd a t (Held l)) (tr ++ Conc.tag t [EvAcc KXchg (obj_spin l) true]).
Proof.
  intros (I1 & I2 & I3) Ht Hs.
  assert (Hnone : forall t', ~ holds (a t') l).
  { intros t' H. rewrite (I1 _ _ H) in Hs. discriminate. }
  apply Inv_acc_trace. repeat split.
  - intros t' l' H. destruct (Nat.eq_dec t' t) as [->|Hne].
    + rewrite upd_same in H. destruct H as [H|H]; inversion H; subst. apply get_set_same.
    + rewrite upd_other in H by exact Hne. destruct (Nat.eq_dec l' l) as [->|Hl].
      * apply get_set_same.
      * rewrite get_set_other by exact Hl. eapply I1; eauto.
  - intros t1 t2 l' H1 H2.
    destruct (Nat.eq_dec t1 t) as [->|N1]; destruct (Nat.eq_dec t2 t) as [->|N2]; auto.
    + rewrite upd_same in H1. rewrite upd_other in H2 by exact N2.
      destruct H1 as [H1|H1]; inversion H1; subst. exfalso; eapply Hnone; eauto.
    + rewrite upd_same in H2. rewrite upd_other in H1 by exact N1.
      destruct H2 as [H2|H2]; inversion H2; subst. exfalso; eapply Hnone; eauto.
    + rewrite upd_other in H1 by exact N1. rewrite upd_other in H2 by exact N2. eapply I2; eauto.
  - intros l'. destruct (I3 l') as [[Ho Hn]|[Ho [t' Ht']]].
    + left. split; auto. intros t' H. destruct (Nat.eq_dec t' t) as [->|Hne].
      * rewrite upd_same in H. discriminate.
      * rewrite upd_other in H by exact Hne. eapply Hn; eauto.
    + right. split; auto. exists t'. destruct (Nat.eq_dec t' t) as [->|Hne].
      * rewrite Ht in Ht'. discriminate.
      * now rewrite upd_other.
Qed.

(** a failed exchange / a load changes nothing the invariant sees (the lock was already taken) *)
Lemma xchg_fail_ok g a tr t l :
  Inv g a tr -> get_spin g l = true ->
  Inv (set_spin g l true) a (tr ++ Conc.tag t [EvAcc KXchg (obj_spin l) true]).
Proof.
  intros (I1 & I2 & I3) Hs. apply Inv_acc_trace. repeat split; auto.
  intros t' l' H. destruct (Nat.eq_dec l' l) as [->|Hl].
  - apply get_set_same.
  - rewrite get_set_other by exact Hl. eapply I1; eauto.
Qed.

Definition Qlock (l : nat) : bool -> phase -> Prop :=
  fun ok p => if ok then p = Held l else p = Idle.

Lemma safe_try_lock t l : safe t (try_lock l) Idle (Qlock l).
Proof.
  unfold try_lock. cbn [Conc.safe]. intros g a tr Hi Hv. unfold view in Hv.
  cbn [a_xchg fst snd]. destruct (get_spin g l) eqn:Hs.
  - exists a. split; [apply xchg_fail_ok; auto|]. split; [intros ? ?; reflexivity|].
    cbn. unfold view. exact Hv.
  - exists (upd a t (Held l)). split; [apply acquire_ok; auto|]. split; [apply frame_upd|].
    cbn. apply view_upd_same.
Qed.

Lemma safe_lock_loops fuel : forall t l,
  safe t (lock_outer fuel l) Idle (Qlock l) /\ safe t (lock_inner fuel l) Idle (Qlock l).
Proof.
  induction fuel as [|f IH]; intros t l; split; cbn [lock_outer lock_inner Conc.safe]; try reflexivity.
  - intros g a tr Hi Hv. unfold view in Hv. cbn [a_xchg fst snd]. destruct (get_spin g l) eqn:Hs.
    + exists a. split; [apply xchg_fail_ok; auto|]. split; [intros ? ?; reflexivity|].
      unfold view. rewrite Hv. apply IH.
    + exists (upd a t (Held l)). split; [apply acquire_ok; auto|]. split; [apply frame_upd|].
      cbn. apply view_upd_same.
  - intros g a tr Hi Hv. unfold view in Hv. cbn [a_load fst snd].
    exists a. split; [apply Inv_acc_trace; auto|]. split; [intros ? ?; reflexivity|].
    unfold view. rewrite Hv. destruct (get_spin g l); apply IH.
Qed.

Lemma occ_tag_cli l t name l' :
  occ l (Conc.tag t [EvCli name (zl l')]) =
  if Z.eqb (Z.of_nat l') (Z.of_nat l) then
    (if String.eqb name "enter" then 1 else if String.eqb name "leave" then -1 else 0) else 0.
Proof. cbn. destruct (Z.eqb (Z.of_nat l') (Z.of_nat l)); lia. Qed.

Lemma safe_critical t l (Q : unit -> phase -> Prop) :
  Q tt Idle -> safe t (critical l) (Held l) Q.
Proof.
  intros HQ. unfold critical. cbn [Conc.safe].
  (* enter *)
  intros g a tr (I1 & I2 & I3) Hv. unfold view in Hv.
  assert (Hme : holds (a t) l) by (left; exact Hv).
  exists (upd a t (Inside l)). split; [|split; [apply frame_upd|]].
  { repeat split.
    - intros t' l' H. destruct (Nat.eq_dec t' t) as [->|Hne].
      + rewrite upd_same in H. destruct H as [H|H]; inversion H; subst. eapply I1; eauto.
      + rewrite upd_other in H by exact Hne. eapply I1; eauto.
    - intros t1 t2 l' H1 H2.
      assert (K : forall x, holds (upd a t (Inside l) x) l' -> holds (a x) l').
      { intros x H. destruct (Nat.eq_dec x t) as [->|Hne].
        - rewrite upd_same in H. destruct H as [H|H]; inversion H; subst. exact Hme.
        - now rewrite upd_other in H. }
      eapply I2; eauto.
    - intros l'. rewrite occ_app, occ_tag_cli.
      destruct (Z.eqb_spec (Z.of_nat l) (Z.of_nat l')) as [E|E].
      + apply Nat2Z.inj in E; subst l'. right. cbn [String.eqb].
        destruct (I3 l) as [[Ho Hn]|[Ho [t' Ht']]].
        * split; [rewrite Ho; reflexivity|]. exists t. apply upd_same.
        * exfalso. assert (t' = t) by (eapply I2; [right; exact Ht'|exact Hme]). subst t'.
          rewrite Hv in Ht'. discriminate.
      + rewrite Z.add_0_r. assert (l <> l') by (intros ->; apply E; reflexivity).
        destruct (I3 l') as [[Ho Hn]|[Ho [t' Ht']]].
        * left. split; auto. intros t' H'. destruct (Nat.eq_dec t' t) as [->|Hne].
          -- rewrite upd_same in H'. inversion H'; congruence.
          -- rewrite upd_other in H' by exact Hne. eapply Hn; eauto.
        * right. split; auto. exists t'. destruct (Nat.eq_dec t' t) as [->|Hne].
          -- rewrite Hv in Ht'. discriminate.
          -- now rewrite upd_other. }
  (* touch *)
  rewrite view_upd_same. cbn [Conc.safe]. clear g a tr I1 I2 I3 Hv Hme.
  intros g a tr Hi Hv. cbn [a_touch fst snd]. exists a.
  split; [apply Inv_acc_trace; auto|]. split; [intros ? ?; reflexivity|].
  rewrite Hv. cbn [Conc.safe]. clear g a tr Hi Hv.
  (* leave *)
  intros g a tr (I1 & I2 & I3) Hv. unfold view in Hv.
  assert (Hme : holds (a t) l) by (right; exact Hv).
  exists (upd a t (Held l)). split; [|split; [apply frame_upd|]].
  { repeat split.
    - intros t' l' H. destruct (Nat.eq_dec t' t) as [->|Hne].
      + rewrite upd_same in H. destruct H as [H|H]; inversion H; subst. eapply I1; eauto.
      + rewrite upd_other in H by exact Hne. eapply I1; eauto.
    - intros t1 t2 l' H1 H2.
      assert (K : forall x, holds (upd a t (Held l) x) l' -> holds (a x) l').
      { intros x H. destruct (Nat.eq_dec x t) as [->|Hne].
        - rewrite upd_same in H. destruct H as [H|H]; inversion H; subst. exact Hme.
        - now rewrite upd_other in H. }
      eapply I2; eauto.
    - intros l'. rewrite occ_app, occ_tag_cli.
      destruct (Z.eqb_spec (Z.of_nat l) (Z.of_nat l')) as [E|E].
      + apply Nat2Z.inj in E; subst l'. left. cbn [String.eqb].
        destruct (I3 l) as [[Ho Hn]|[Ho [t' Ht']]].
        * exfalso. eapply Hn; eauto.
        * split; [rewrite Ho; reflexivity|]. intros x Hx. destruct (Nat.eq_dec x t) as [->|Hne].
          -- rewrite upd_same in Hx. discriminate.
          -- rewrite upd_other in Hx by exact Hne.
             apply Hne. eapply I2; [right; exact Hx|exact Hme].
      + rewrite Z.add_0_r. assert (l <> l') by (intros ->; apply E; reflexivity).
        destruct (I3 l') as [[Ho Hn]|[Ho [t' Ht']]].
        * left. split; auto. intros t' H'. destruct (Nat.eq_dec t' t) as [->|Hne].
          -- rewrite upd_same in H'. discriminate.
          -- rewrite upd_other in H' by exact Hne. eapply Hn; eauto.
        * right. split; auto. exists t'. destruct (Nat.eq_dec t' t) as [->|Hne].
          -- rewrite Hv in Ht'. inversion Ht'; congruence.
          -- now rewrite upd_other. }
  (* unlock *)
  rewrite view_upd_same. unfold unlock. cbn [Conc.safe]. clear g a tr I1 I2 I3 Hv Hme.
  intros g a tr (I1 & I2 & I3) Hv. unfold view in Hv. cbn [a_unlock fst snd].
  assert (Hme : holds (a t) l) by (left; exact Hv).
  exists (upd a t Idle). split; [|split; [apply frame_upd|]].
  { apply Inv_acc_trace. repeat split.
    - intros t' l' H. destruct (Nat.eq_dec t' t) as [->|Hne].
      + rewrite upd_same in H. exfalso; eapply holds_Idle; eauto.
      + rewrite upd_other in H by exact Hne. destruct (Nat.eq_dec l' l) as [->|Hl].
        * exfalso. apply Hne. eapply I2; eauto.
        * rewrite get_set_other by exact Hl. eapply I1; eauto.
    - intros t1 t2 l' H1 H2.
      assert (K : forall x, holds (upd a t Idle x) l' -> holds (a x) l').
      { intros x H. destruct (Nat.eq_dec x t) as [->|Hne].
        - rewrite upd_same in H. exfalso; eapply holds_Idle; eauto.
        - now rewrite upd_other in H. }
      eapply I2; eauto.
    - intros l'. destruct (I3 l') as [[Ho Hn]|[Ho [t' Ht']]].
      + left. split; auto. intros t' H'. destruct (Nat.eq_dec t' t) as [->|Hne].
        * rewrite upd_same in H'. discriminate.
        * rewrite upd_other in H' by exact Hne. eapply Hn; eauto.
      + right. split; auto. exists t'. destruct (Nat.eq_dec t' t) as [->|Hne].
        * rewrite Hv in Ht'. discriminate.
        * now rewrite upd_other. }
  rewrite view_upd_same. cbn. exact HQ.
Qed.

(** events that are neither enter nor leave leave the invariant alone *)
Lemma Inv_other_cli g a tr t name args :
  String.eqb name "enter" = false -> String.eqb name "leave" = false ->
  Inv g a tr -> Inv g a (tr ++ Conc.tag t [EvCli name args]).
Proof.
  intros N1 N2 (I1 & I2 & I3). repeat split; auto.
  intros l. rewrite occ_app.
  assert (occ l (Conc.tag t [EvCli name args]) = 0) as ->.
  { cbn. destruct args as [|x [|y r]]; try reflexivity. rewrite N1, N2. destruct (Z.eqb x (Z.of_nat l)); reflexivity. }
  rewrite Z.add_0_r. apply I3.
Qed.

Lemma safe_emit_other t name args (k : prog unit) p Q :
  String.eqb name "enter" = false -> String.eqb name "leave" = false ->
  safe t k p Q -> safe t (Emit [EvCli name args] k) p Q.
Proof.
  intros N1 N2 Hk. cbn [Conc.safe]. intros g a tr Hi Hv. exists a.
  split; [apply Inv_other_cli; auto|]. split; [intros ? ?; reflexivity|]. now rewrite Hv.
Qed.

Definition QIdle : unit -> phase -> Prop := fun _ p => p = Idle.

Lemma safe_run_op fuel t o : safe t (run_op fuel o) Idle QIdle.
Proof.
  destruct o as [l|l]; cbn [run_op].
  - apply safe_emit_other; try reflexivity. apply Conc.safe_bind.
    eapply Conc.safe_weaken; [|apply (safe_lock_loops fuel t l)].
    intros [|] p Hp; cbn in Hp; subst p.
    + apply Conc.safe_bind. apply safe_critical. apply safe_emit_other; reflexivity.
    + apply safe_emit_other; reflexivity.
  - apply safe_emit_other; try reflexivity. apply Conc.safe_bind.
    eapply Conc.safe_weaken; [|apply safe_try_lock].
    intros [|] p Hp; cbn in Hp; subst p.
    + apply Conc.safe_bind. apply safe_critical. apply safe_emit_other; reflexivity.
    + apply safe_emit_other; reflexivity.
Qed.

Lemma safe_run_ops fuel t os : safe t (run_ops fuel os) Idle QIdle.
Proof.
  induction os as [|o r IH]; cbn [run_ops]; [reflexivity|].
  apply Conc.safe_bind. eapply Conc.safe_weaken; [|apply safe_run_op].
  intros [] p Hp. unfold QIdle in Hp. subst p. exact IH.
Qed.

Lemma safe_thread fuel t os : safe t (thread_prog fuel os) Idle (@Conc.QTrue phase).
Proof.
  unfold thread_prog. cbn [Conc.safe]. intros g a tr Hi Hv. cbn [a_begin fst snd].
  exists a. split; [apply Inv_acc_trace; auto|]. split; [intros ? ?; reflexivity|].
  rewrite Hv. eapply Conc.safe_weaken; [|apply safe_run_ops]. intros; exact I.
Qed.

Lemma init_ok fuel nlocks ths : Conc.cfg_ok view Inv (init_cfg fuel nlocks ths).
Proof.
  exists (fun _ => Idle). split.
  - cbn. repeat split.
    + intros t l H. exfalso; eapply holds_Idle; eauto.
    + intros t t' l H. exfalso; eapply holds_Idle; eauto.
    + intros l. left. split; [reflexivity|]. intros t H; discriminate.
  - intros t p Hp. cbn [init_cfg Conc.threads] in Hp. rewrite nth_error_map in Hp.
    destruct (nth_error ths t); inversion Hp; subst. apply safe_thread.
Qed.

(** ** the theorem: in every reachable configuration (every schedule, any number of threads and
       locks, any client program made of CS / TryCS operations) at most one thread is inside the critical
       section of a lock, and the count never goes negative *)
Theorem spin_lock_mutex fuel nlocks ths c :
  Conc.reach (init_cfg fuel nlocks ths) c -> forall l, 0 <= occ l (Conc.trace c) <= 1.
Proof.
  intros Hr l. destruct (Conc.reach_Inv (init_ok fuel nlocks ths) Hr) as (a & _ & _ & I3).
  destruct (I3 l) as [[Ho _]|[Ho _]]; lia.
Qed.
