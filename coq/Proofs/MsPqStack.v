(** * MSPriorityQueue: a phase of concurrent pushes followed by a phase of concurrent pops is linearizable.

    Three independent invariants are combined ([safe_prod]): the heap invariants of MsPqPop ([TInv]: conservation,
    tag invariant of the push phase, frontier invariant and specification linkage of the pop phase) and [SInv] below,
    which follows the specification state through the push phase: the trace annotated with the linearization points
    is a valid LP trace, the specification state has as many elements as the item counter says, and -- together with
    the items refused so far and the items of the pushes that have not been added -- it is a permutation of the
    priorities pushed.  At the first pop (no push pending) this gives: the specification state is a permutation of
    the priorities in the heap, which is where the pop-phase linkage [MsPqPop.PL] starts. *)
From Coq Require Import ZArith List String Bool Lia PeanoNat Permutation.
From LV Require Import Base.Conc Base.Events Base.Lin Spec.Specs Model.MsPq Proofs.LinProofs
  Proofs.MsPqBrc Proofs.MsPqInv Proofs.MsPqSteps Proofs.MsPqProofs Proofs.MsPqHeap Proofs.MsPqPhase Proofs.MsPqPush
  Proofs.MsPqPushLin Proofs.MsPqPop.
Import ListNotations.
Local Open Scope string_scope.
Local Open Scope list_scope.

(** ** two invariants over independent auxiliary states *)
Section Prod.
  Context {G V E : Type} {A1 L1 : Type} (view1 : A1 -> nat -> L1) (Inv1 : G -> A1 -> list (nat * E) -> Prop)
          {A2 L2 : Type} (view2 : A2 -> nat -> L2) (Inv2 : G -> A2 -> list (nat * E) -> Prop).
  Definition viewP (a : A1 * A2) (t : nat) : L1 * L2 := (view1 (fst a) t, view2 (snd a) t).
  Definition InvP (g : G) (a : A1 * A2) (tr : list (nat * E)) : Prop := Inv1 g (fst a) tr /\ Inv2 g (snd a) tr.

  Lemma safe_prod {R} (p : Conc.prog G V E R) : forall t l1 l2 (Q1 : R -> L1 -> Prop) (Q2 : R -> L2 -> Prop),
    @Conc.safe G V E A1 L1 view1 Inv1 R t p l1 Q1 -> @Conc.safe G V E A2 L2 view2 Inv2 R t p l2 Q2 ->
    @Conc.safe G V E (A1 * A2) (L1 * L2) viewP InvP R t p (l1, l2) (fun r l => Q1 r (fst l) /\ Q2 r (snd l)).
  Proof.
    induction p as [r|es k IH|f k IH]; intros t l1 l2 Q1 Q2 H1 H2; cbn [Conc.safe] in *.
    - auto.
    - intros g [a1 a2] tr [I1 I2] Hv. unfold viewP in Hv. cbn [fst snd] in *. inversion Hv as [[V1 V2]].
      destruct (H1 g a1 tr I1 V1) as (a1' & J1 & F1 & K1). destruct (H2 g a2 tr I2 V2) as (a2' & J2 & F2 & K2).
      exists (a1', a2'). split; [split; assumption|]. split.
      + intros u Hu. unfold viewP. cbn [fst snd]. rewrite (F1 u Hu), (F2 u Hu). reflexivity.
      + unfold viewP. cbn [fst snd]. apply IH; assumption.
    - intros g [a1 a2] tr [I1 I2] Hv. unfold viewP in Hv. cbn [fst snd] in *. inversion Hv as [[V1 V2]].
      destruct (H1 g a1 tr I1 V1) as (a1' & J1 & F1 & K1). destruct (H2 g a2 tr I2 V2) as (a2' & J2 & F2 & K2).
      exists (a1', a2'). split; [split; assumption|]. split.
      + intros u Hu. unfold viewP. cbn [fst snd]. rewrite (F1 u Hu), (F2 u Hu). reflexivity.
      + unfold viewP. cbn [fst snd]. apply IH; assumption.
  Qed.
End Prod.

(** ** events that are neither invocations nor responses *)
Definition nio (e : ev) : bool :=
  match e with
  | EvAcc _ _ _ => true
  | EvCli n _ => negb (String.eqb n "inv_push" || String.eqb n "ret_push" || String.eqb n "inv_pop" || String.eqb n "ret_pop")
  end.
Lemma nio_tag t es : forallb nio es = true ->
  invoked (Conc.tag t es) = [] /\ given_back (Conc.tag t es) = [] /\ pop_invoked (Conc.tag t es) = false /\
  forall u b, fold_left (pend_step u) (Conc.tag t es) b = b.
Proof.
  induction es as [|e es IH]; cbn [forallb]; [auto|]. rewrite andb_true_iff. intros [He Hes]. destruct (IH Hes) as (I1 & I2 & I3 & I4).
  unfold invoked, given_back, pop_invoked, Conc.tag in *. cbn [map flat_map existsb fold_left]. rewrite I1, I2, I3, !app_nil_r, orb_false_r.
  destruct e as [| n args].
  - split; [reflexivity|]. split; [reflexivity|]. split; [reflexivity|]. intros u b. rewrite I4. unfold pend_step. cbn. destruct (Nat.eqb t u); reflexivity.
  - cbn in He. rewrite negb_true_iff, !orb_false_iff in He. destruct He as [[[H1 H2] H3] H4].
    unfold inv_items, back_items, is_cli. cbn [snd]. rewrite H1.
    split; [destruct args as [|p [|i [|]]]; reflexivity|]. split.
    + destruct args as [|b0 [|p [|i [|]]]]; try reflexivity. rewrite H2, H4. reflexivity.
    + split; [rewrite String.eqb_sym in H3; cbn; rewrite String.eqb_sym; exact H3|]. intros u b. rewrite I4. unfold pend_step, is_inv, is_ret. cbn [fst snd].
      rewrite H1, H2, H3, H4. cbn. destruct (Nat.eqb t u); reflexivity.
Qed.
Lemma quiet1_nio es : forallb quiet1 es = true -> forallb nio es = true.
Proof.
  induction es as [|e es IH]; cbn [forallb]; [auto|]. rewrite !andb_true_iff. intros [He Hes]. split; [|apply IH; exact Hes].
  destruct e as [| n args]; [reflexivity|]. cbn in *. rewrite negb_true_iff, !orb_false_iff in *. tauto.
Qed.
Lemma pend_app_nio tr t es u : forallb nio es = true -> pend (tr ++ Conc.tag t es) u = pend tr u.
Proof. intros H. unfold pend. rewrite fold_left_app. apply (proj2 (proj2 (proj2 (nio_tag t es H)))). Qed.
Lemma invoked_app tr tr' : invoked (tr ++ tr') = invoked tr ++ invoked tr'.
Proof. apply flat_map_app. Qed.
Lemma given_back_app tr tr' : given_back (tr ++ tr') = given_back tr ++ given_back tr'.
Proof. apply flat_map_app. Qed.

(** ** removing a thread's entry from an association list *)
Definition rem (t : nat) (l : list (nat * Z)) : list (nat * Z) := filter (fun e => negb (Nat.eqb (fst e) t)) l.
Lemma in_rem t l u q : In (u, q) (rem t l) <-> u <> t /\ In (u, q) l.
Proof. unfold rem. rewrite filter_In. cbn [fst]. rewrite negb_true_iff, Nat.eqb_neq. tauto. Qed.
Lemma NoDup_rem t l : NoDup (map fst l) -> NoDup (map fst (rem t l)).
Proof.
  induction l as [|[u x] l IH]; cbn; [auto|]. intros Hnd. inversion Hnd as [|? ? Hn Hnd']; subst.
  destruct (Nat.eqb u t); cbn; auto. constructor; auto.
  intros Hin. apply Hn. apply in_map_iff in Hin. destruct Hin as ([u' x'] & E & Hin). cbn in E. subst u'.
  apply in_rem in Hin. apply in_map_iff. exists (u, x'). split; [reflexivity|tauto].
Qed.
Lemma rem_none t l : ~ In t (map fst l) -> rem t l = l.
Proof.
  intros Hn. unfold rem. induction l as [|[u z] l IH]; cbn; [reflexivity|].
  destruct (Nat.eqb_spec u t) as [->|]; cbn.
  - exfalso. apply Hn. left. reflexivity.
  - rewrite IH; [reflexivity|]. intros H. apply Hn. right. exact H.
Qed.
Lemma rem_perm t p l : NoDup (map fst l) -> In (t, p) l -> Permutation l ((t, p) :: rem t l).
Proof.
  induction l as [|[u z] l IH]; cbn [In]; [tauto|]. intros Hnd Hin. cbn [map fst] in Hnd.
  inversion Hnd as [|? ? Hn Hnd']; subst. cbn [rem filter fst]. destruct (Nat.eqb_spec u t) as [->|Hne]; cbn [negb].
  - destruct Hin as [E|Hin]; [|exfalso; apply Hn; apply in_map_iff; exists (t, p); split; [reflexivity|exact Hin]].
    inversion E; subst z. fold (rem t l). rewrite (rem_none t l Hn). reflexivity.
  - destruct Hin as [E|Hin]; [inversion E; congruence|]. fold (rem t l). rewrite (IH Hnd' Hin) at 1. apply perm_swap.
Qed.

Section SL.
  Variable cap : nat.
  Variable bsz : nat.
  Notation Sp := (BPQueue cap).

  Record slv := mkSl { slin : nat;     (* 0 idle, 1 invoked, 2 linearized "true", 3 linearized "false" *)
                       sp : Z;         (* the priority being pushed *)
                       svp : bool }.   (* this thread has invoked a pop (from then on nothing is claimed) *)
  Record SAux := mkSA { sv : nat -> slv; ul : list (nat * Z) }.   (* [ul]: the pushes not (yet) added *)
  Definition sview (a : SAux) (t : nat) : slv := sv a t.
  Definition upds (a : SAux) (t : nat) (v : slv) (l : list (nat * Z)) : SAux :=
    mkSA (fun u => if Nat.eqb u t then v else sv a u) l.
  Lemma sv_upds_same a t v l : sv (upds a t v l) t = v.
  Proof. cbn. rewrite Nat.eqb_refl. reflexivity. Qed.
  Lemma sv_upds_other a t v l u : u <> t -> sv (upds a t v l) u = sv a u.
  Proof. cbn. intros H. destruct (Nat.eqb_spec u t); congruence. Qed.
  Lemma sframe a t v l : Conc.frame sview t a (upds a t v l).
  Proof. intros u Hu. unfold sview. apply sv_upds_other. exact Hu. Qed.
  Lemma sframe_refl a t : Conc.frame sview t a a.
  Proof. intros u Hu. reflexivity. Qed.

  Definition stat_s (st : status Sp) (v : slv) : Prop :=
    match slin v with
    | 0 => st = Lin.Idle
    | 1 => st = Pending (Push (sp v) : Op Sp)
    | 2 => st = Linearized (Push (sp v) : Op Sp) (RBool true : Res Sp)
    | _ => st = Linearized (Push (sp v) : Op Sp) (RBool false : Res Sp)
    end.
  Definition inul (v : slv) : Prop := slin v = 1 \/ slin v = 3.

  Definition SLive (g : G) (a : SAux) (tr : list (nat * ev)) : Prop :=
    (0 <= bc (ctr g))%Z /\
    exists (s : St Sp) (stt : nat -> status Sp),
      lp_run lp_init (atrace cap tr) = Some (s, stt) /\ List.length s = count g /\ (forall t, stat_s (stt t) (sv a t)) /\
      NoDup (map fst (ul a)) /\ (forall t p, In (t, p) (ul a) <-> inul (sv a t) /\ sp (sv a t) = p) /\
      Permutation (s ++ map prio (given_back tr) ++ map snd (ul a)) (map prio (invoked tr)) /\
      (forall t, slin (sv a t) <> 0 -> pend tr t = true).
  Definition SInv (g : G) (a : SAux) (tr : list (nat * ev)) : Prop :=
    (forall t, svp (sv a t) = true -> pop_invoked tr = true) /\ (pop_invoked tr = false -> SLive g a tr).
  Notation safe := (@Conc.safe G V ev SAux slv sview SInv).

  Lemma ssafe_dead {R} (p : prog R) : forall t l (Q : R -> slv -> Prop), svp l = true -> (forall r, Q r l) -> safe t p l Q.
  Proof.
    induction p as [r|es k IH|f k IH]; intros t l Q Hv HQ; cbn [Conc.safe]; [apply HQ| |].
    - intros g a tr [L1 L2] Hvw. exists a. pose proof (L1 t ltac:(unfold sview in Hvw; rewrite Hvw; exact Hv)) as Hp.
      split; [split; [intros u Hu; apply pop_invoked_mono; apply (L1 u Hu)|intros Hf; rewrite (pop_invoked_mono _ _ Hp) in Hf; discriminate]|].
      split; [apply sframe_refl|]. rewrite Hvw. apply IH; assumption.
    - intros g a tr [L1 L2] Hvw. exists a. pose proof (L1 t ltac:(unfold sview in Hvw; rewrite Hvw; exact Hv)) as Hp.
      split; [split; [intros u Hu; apply pop_invoked_mono; apply (L1 u Hu)|intros Hf; rewrite (pop_invoked_mono _ _ Hp) in Hf; discriminate]|].
      split; [apply sframe_refl|]. rewrite Hvw. apply IH; assumption.
  Qed.

  Lemma SInv_quiet g g' a tr t es :
    ctr g' = ctr g -> forallb quiet1 es = true -> SInv g a tr -> SInv g' a (tr ++ Conc.tag t es).
  Proof.
    intros Hc Hq [L1 L2]. destruct (quiet_tag cap t es Hq) as [Q1 Q2]. destruct (nio_tag t es (quiet1_nio es Hq)) as (N1 & N2 & _ & _). split.
    - intros u Hu. apply pop_invoked_mono. apply (L1 u Hu).
    - intros Hf. destruct (L2 (pop_invoked_mono_f _ _ Hf)) as (Hb & s & stt & Hrun & Hlen & Hst & Hnd & Hul & HM & Hpe).
      split; [rewrite Hc; exact Hb|]. exists s, stt. rewrite atrace_app, Q1, app_nil_r, invoked_app, given_back_app, N1, N2, !app_nil_r. unfold count. rewrite Hc.
      split; [exact Hrun|]. split; [exact Hlen|]. split; [exact Hst|]. split; [exact Hnd|]. split; [exact Hul|]. split; [exact HM|].
      intros u Hu. rewrite (pend_app_nio tr t es u (quiet1_nio es Hq)). apply Hpe. exact Hu.
  Qed.

  Definition optS {R} (Q : R -> slv -> Prop) : option R -> slv -> Prop := fun r l => match r with Some x => Q x l | None => True end.

  Lemma ssafe_stop {R} t c l (Q : R -> slv -> Prop) : safe t (@stop_err R c) l (optS Q).
  Proof.
    unfold stop_err. destruct c as [|[|c]]; cbn [Conc.safe]; intros g a tr Hi Hv; exists a;
      (split; [apply (SInv_quiet g); [reflexivity|reflexivity|exact Hi]|split; [apply sframe_refl|exact I]]).
  Qed.
  Lemma ssafe_checked {R} t v (k : prog (option R)) l (Q : R -> slv -> Prop) :
    safe t k l (optS Q) -> safe t (checked v k) l (optS Q).
  Proof. intros H. unfold checked. destruct (verr v); [exact H|apply ssafe_stop]. Qed.

  Lemma ssafe_lock {R} lf t l bd (k : V -> prog (option R)) P (Q : R -> slv -> Prop) :
    (forall g a tr, SInv g a tr -> sview a t = P ->
       exists a', SInv (fst (fst (bd (set_lockbit g l true)))) a'
                       (tr ++ Conc.tag t (EvAcc KXchg (obj_lock l) true :: snd (bd (set_lockbit g l true)))) /\
                  Conc.frame sview t a a' /\
                  safe t (k (unbusy (snd (fst (bd (set_lockbit g l true)))))) (sview a' t) (optS Q)) ->
    safe t (lock_ lf l bd k) P (optS Q).
  Proof.
    intros H. unfold lock_, obind. apply Conc.safe_bind.
    set (Qmid := fun (r : option V) (l' : slv) =>
           safe t (match r with Some x => checked x (k x) | None => Ret None end) l' (optS Q)).
    change (safe t (lock_outer lf l bd) P Qmid).
    assert (Both : safe t (lock_outer lf l bd) P Qmid /\ safe t (lock_inner lf l bd) P Qmid).
    { induction lf as [|f [IHo IHi]]; [split; exact I|]. split.
      - cbn [lock_outer Conc.safe]. intros g a tr Hi Hv. unfold a_lock. destruct (lockbit g l).
        + exists a. cbn [fst snd]. split; [apply (SInv_quiet g); [reflexivity|reflexivity|exact Hi]|]. split; [apply sframe_refl|].
          cbn [vbusy vbusyV]. rewrite Hv. exact IHi.
        + destruct (H g a tr Hi Hv) as (a' & K1 & K2 & K3).
          destruct (bd (set_lockbit g l true)) as [[g' v] es]. cbn [fst snd] in *.
          exists a'. split; [exact K1|]. split; [exact K2|]. cbn [vbusy unbusy Conc.safe]. apply ssafe_checked. exact K3.
      - cbn [lock_inner Conc.safe]. intros g a tr Hi Hv. unfold a_load. cbn [fst snd]. exists a.
        split; [apply (SInv_quiet g); [reflexivity|reflexivity|exact Hi]|]. split; [apply sframe_refl|]. rewrite Hv.
        destruct (lockbit g l); cbn [vbusy vbusyV v0]; assumption. }
    apply Both.
  Qed.

  Lemma ssafe_lock_neutral {R} lf t l bd (k : V -> prog (option R)) P (Q : R -> slv -> Prop) :
    neutral bd -> (forall v, safe t (k v) P (optS Q)) -> safe t (lock_ lf l bd k) P (optS Q).
  Proof.
    intros Hn Hk. apply ssafe_lock. intros g a tr Hi Hv. destruct (Hn (set_lockbit g l true)) as [N1 N2].
    exists a. split; [apply (SInv_quiet g); [rewrite N1; apply ctr_lockbit|cbn [forallb quiet1]; exact N2|exact Hi]|].
    split; [apply sframe_refl|]. rewrite Hv. apply Hk.
  Qed.

  Lemma ssafe_unlock_neutral {R} t l bd (k : V -> prog (option R)) P (Q : R -> slv -> Prop) :
    neutral bd -> (forall v, safe t (k v) P (optS Q)) -> safe t (unlock_ l bd k) P (optS Q).
  Proof.
    intros Hn Hk. unfold unlock_, unlock. cbn [Conc.bind Conc.safe]. intros g a tr Hi Hv.
    destruct (Hn g) as [N1 N2]. unfold a_unlock. destruct (bd g) as [[g' v] es]. cbn [fst snd] in *.
    exists a. split; [apply (SInv_quiet g); [rewrite ctr_lockbit; exact N1|cbn [forallb quiet1]; exact N2|exact Hi]|].
    split; [apply sframe_refl|]. rewrite Hv. apply ssafe_checked. apply Hk.
  Qed.

  Lemma ssafe_heapify_push lf t u P : forall hf i, safe t (heapify_push hf lf u i) P (optS (fun (_ : unit) l' => l' = P)).
  Proof.
    induction hf as [|hf IH]; intros i; [exact I|]. cbn [heapify_push]. destruct (Nat.ltb 1 i).
    - apply ssafe_lock_neutral; [apply n_none|]. intros _. apply ssafe_lock_neutral; [apply n_sift|]. intros v.
      apply ssafe_unlock_neutral; [apply n_none|]. intros _. apply ssafe_unlock_neutral; [apply n_none|]. intros _. apply IH.
    - destruct (Nat.eqb i 1); [|reflexivity]. apply ssafe_lock_neutral; [apply n_top|]. intros _.
      apply ssafe_unlock_neutral; [apply n_none|]. intros _. reflexivity.
  Qed.

  Lemma stat_others (stt : nat -> status Sp) t x a v l :
    (forall u, stat_s (stt u) (sv a u)) -> stat_s x v -> forall u, stat_s (Lin.upd stt t x u) (sv (upds a t v l) u).
  Proof.
    intros H Hx u. destruct (Nat.eq_dec u t) as [->|N]; [rewrite LinProofs.upd_same, sv_upds_same; exact Hx|].
    rewrite LinProofs.upd_other, sv_upds_other by exact N. apply H.
  Qed.

  Lemma svp_others a t v l tr es :
    svp v = false -> (forall w, svp (sv a w) = true -> pop_invoked tr = true) ->
    forall w, svp (sv (upds a t v l) w) = true -> pop_invoked (tr ++ es) = true.
  Proof.
    intros Hv L1 w Hw. apply pop_invoked_mono. destruct (Nat.eq_dec w t) as [->|N]; [rewrite sv_upds_same in Hw; congruence|].
    rewrite sv_upds_other in Hw by exact N. apply (L1 w Hw).
  Qed.

  (** the linearization point of push *)
  Lemma ssafe_push hf lf t u x :
    safe t (push cap bsz hf lf u x) (mkSl 1 (prio x) false) (optS (fun (b : bool) l' => l' = mkSl (if b then 2 else 3) (prio x) false)).
  Proof.
    unfold push. apply ssafe_lock. intros g a tr [L1 L2] Hv. set (g1 := set_lockbit g 0 true). unfold sview in Hv.
    unfold body_push_size. change (ctr g1) with (ctr g). destruct (Z.leb (Z.of_nat cap) (bc (ctr g))) eqn:Efull; cbn [fst snd].
    - (* full *)
      set (a' := upds a t (mkSl 3 (prio x) false) (ul a)). exists a'. split; [|split; [apply sframe|]].
      + split; [apply (svp_others a t (mkSl 3 (prio x) false) (ul a) tr _ eq_refl L1)|].
        intros Hf. destruct (L2 (pop_invoked_mono_f _ _ Hf)) as (Hb & s & stt & Hrun & Hlen & Hst & Hnd & Hul & HM & Hpe).
        split; [exact Hb|].
        pose proof (Hst t) as Ht. unfold stat_s in Ht. rewrite Hv in Ht. cbn in Ht.
        apply Z.leb_le in Efull. assert (Hge : cap <= List.length s) by (rewrite Hlen; unfold count; lia).
        set (es := [EvAcc KXchg (obj_lock 0) true; EvCli "g_full" [bc (ctr g); Z.of_nat (occupied g1 cap); Z.of_nat cap]]).
        destruct (nio_tag t es eq_refl) as (N1 & N2 & _ & _).
        exists s, (Lin.upd stt t (Linearized (Push (prio x) : Op Sp) (RBool false : Res Sp))).
        fold es. rewrite invoked_app, given_back_app, N1, N2, !app_nil_r.
        split; [|split; [exact Hlen|split; [|split; [exact Hnd|split; [|split; [exact HM|]]]]]].
        * rewrite atrace_app. unfold es, Conc.tag. cbn [map atrace flat_map aev_of snd fst]. cbn. rewrite ?app_nil_r.
          apply (lp_snoc cap _ _ _ _ _ Hrun). cbn [lp_step]. rewrite Ht. cbn [sstep BPQueue mkSpec bpq_step].
          assert (El : Nat.ltb (List.length s) cap = false) by (apply Nat.ltb_ge; exact Hge). rewrite El. reflexivity.
        * apply stat_others; [exact Hst|reflexivity].
        * intros w p. change (ul a') with (ul a). rewrite Hul.
          destruct (Nat.eq_dec w t) as [->|N]; [unfold a'; rewrite sv_upds_same, Hv; unfold inul; cbn; intuition lia|unfold a'; rewrite sv_upds_other by exact N; tauto].
        * intros w Hw. rewrite (pend_app_nio tr t es w eq_refl). apply Hpe. destruct (Nat.eq_dec w t) as [->|N]; [rewrite Hv; discriminate|].
          unfold a' in Hw. rewrite sv_upds_other in Hw by exact N. exact Hw.
      + unfold sview, a'. rewrite sv_upds_same. cbn [unbusy vb].
        apply ssafe_unlock_neutral; [apply n_none|]. intros _. reflexivity.
    - (* inc *)
      destruct (brc_inc (ctr g)) as [sl c'] eqn:Einc. cbn [fst snd].
      assert (Ec' : bc c' = (bc (ctr g) + 1)%Z) by (pose proof (bc_inc (ctr g)) as K; rewrite Einc in K; exact K).
      set (a' := upds a t (mkSl 2 (prio x) false) (rem t (ul a))). exists a'. split; [|split; [apply sframe|]].
      + split; [apply (svp_others a t (mkSl 2 (prio x) false) (rem t (ul a)) tr _ eq_refl L1)|].
        intros Hf. destruct (L2 (pop_invoked_mono_f _ _ Hf)) as (Hb & s & stt & Hrun & Hlen & Hst & Hnd & Hul & HM & Hpe).
        split; [cbn [ctr set_ctr]; lia|].
        pose proof (Hst t) as Ht. unfold stat_s in Ht. rewrite Hv in Ht. cbn in Ht.
        apply Z.leb_gt in Efull. assert (Hlt : List.length s < cap) by (rewrite Hlen; unfold count; lia).
        set (es := [EvAcc KXchg (obj_lock 0) true; EvCli "g_inc" []]).
        destruct (nio_tag t es eq_refl) as (N1 & N2 & _ & _).
        assert (Hin : In (t, prio x) (ul a)) by (apply Hul; rewrite Hv; cbn; split; [left; reflexivity|reflexivity]).
        exists (prio x :: s), (Lin.upd stt t (Linearized (Push (prio x) : Op Sp) (RBool true : Res Sp))).
        fold es. rewrite invoked_app, given_back_app, N1, N2, !app_nil_r.
        split; [|split; [|split; [|split; [|split; [|split]]]]].
        * rewrite atrace_app. unfold es, Conc.tag. cbn [map atrace flat_map aev_of snd fst]. cbn. rewrite ?app_nil_r.
          apply (lp_snoc cap _ _ _ _ _ Hrun). cbn [lp_step]. rewrite Ht. cbn [sstep BPQueue mkSpec bpq_step].
          assert (El : Nat.ltb (List.length s) cap = true) by (apply Nat.ltb_lt; exact Hlt). rewrite El. reflexivity.
        * cbn [List.length]. rewrite Hlen. unfold count. cbn [ctr set_ctr]. rewrite Ec'. lia.
        * apply stat_others; [exact Hst|reflexivity].
        * change (ul a') with (rem t (ul a)). apply NoDup_rem. exact Hnd.
        * intros w p. change (ul a') with (rem t (ul a)). rewrite in_rem, Hul.
          destruct (Nat.eq_dec w t) as [->|N]; [unfold a'; rewrite sv_upds_same; unfold inul; cbn; intuition lia|unfold a'; rewrite sv_upds_other by exact N; tauto].
        * change (ul a') with (rem t (ul a)). rewrite <- HM. rewrite (Permutation_map snd (rem_perm t (prio x) (ul a) Hnd Hin)). cbn [map snd].
          cbn [app]. rewrite !app_assoc. apply Permutation_middle.
        * intros w Hw. rewrite (pend_app_nio tr t es w eq_refl). apply Hpe. destruct (Nat.eq_dec w t) as [->|N]; [rewrite Hv; discriminate|].
          unfold a' in Hw. rewrite sv_upds_other in Hw by exact N. exact Hw.
      + unfold sview, a'. rewrite sv_upds_same. cbn [unbusy vb vn].
        apply ssafe_lock_neutral; [apply n_none|]. intros _. apply ssafe_unlock_neutral; [apply n_store|]. intros _.
        apply ssafe_unlock_neutral; [apply n_none|]. intros _. unfold obind. apply Conc.safe_bind.
        eapply Conc.safe_weaken; [|apply ssafe_heapify_push]. intros [[]|] l' Hl'; cbn in Hl' |- *; [exact Hl'|exact I].
  Qed.

  (** *** client operations *)
  Definition sidle : slv := mkSl 0 0 false.
  Definition Qsop : bool -> slv -> Prop := fun ok l' => ok = true -> l' = sidle.

  Lemma notin_ul a t : (forall w p, In (w, p) (ul a) <-> inul (sv a w) /\ sp (sv a w) = p) -> ~ inul (sv a t) -> ~ In t (map fst (ul a)).
  Proof. intros Hul Hn Hin. apply in_map_iff in Hin. destruct Hin as ([w p] & E & Hin). cbn in E. subst w. apply Hul in Hin. tauto. Qed.

  Lemma pend_snoc_inv tr t n args w : is_inv n = true -> pend (tr ++ Conc.tag t [EvCli n args]) w = if Nat.eqb t w then true else pend tr w.
  Proof. intros H. unfold Conc.tag. cbn [map]. rewrite pend_snoc. unfold pend_step. cbn [fst snd]. rewrite H. reflexivity. Qed.
  Lemma pend_snoc_ret tr t n args w : is_inv n = false -> is_ret n = true -> pend (tr ++ Conc.tag t [EvCli n args]) w = if Nat.eqb t w then false else pend tr w.
  Proof. intros H H'. unfold Conc.tag. cbn [map]. rewrite pend_snoc. unfold pend_step. cbn [fst snd]. rewrite H, H'. reflexivity. Qed.

  Lemma ssafe_run_op_push hf lf t u x : safe t (run_op cap bsz hf lf u (OPush x)) sidle Qsop.
  Proof.
    cbn [run_op Conc.safe]. intros g a tr [L1 L2] Hv. unfold sview in Hv. destruct x as [p id].
    set (a' := upds a t (mkSl 1 p false) ((t, p) :: ul a)). exists a'. split; [|split; [apply sframe|]].
    - split; [apply (svp_others a t (mkSl 1 p false) ((t, p) :: ul a) tr _ eq_refl L1)|].
      intros Hf. destruct (L2 (pop_invoked_mono_f _ _ Hf)) as (Hb & s & stt & Hrun & Hlen & Hst & Hnd & Hul & HM & Hpe).
      split; [exact Hb|]. pose proof (Hst t) as Ht. unfold stat_s in Ht. rewrite Hv in Ht. cbn in Ht.
      assert (Hnin : ~ In t (map fst (ul a))) by (apply (notin_ul a t Hul); rewrite Hv; unfold inul; cbn; lia).
      exists s, (Lin.upd stt t (Pending (Push p : Op Sp))). split; [|split; [exact Hlen|split; [|split; [|split; [|split]]]]].
      + unfold Conc.tag. cbn [map]. rewrite atrace_app. cbn [atrace flat_map aev_of snd fst zitem]. cbn. rewrite ?app_nil_r.
        apply (lp_snoc cap _ _ _ _ _ Hrun). cbn [lp_step]. rewrite Ht. reflexivity.
      + apply stat_others; [exact Hst|reflexivity].
      + change (ul a') with ((t, p) :: ul a). cbn [map fst]. constructor; assumption.
      + intros w q. change (ul a') with ((t, p) :: ul a). cbn [In]. rewrite Hul. destruct (Nat.eq_dec w t) as [->|N].
        * unfold a'. rewrite sv_upds_same. unfold inul. cbn. split; [intros [E|[K _]]; [inversion E; auto|rewrite Hv in K; unfold inul in K; cbn in K; lia]|intros [_ <-]; left; reflexivity].
        * unfold a'. rewrite sv_upds_other by exact N. split; [intros [E|K]; [inversion E; congruence|exact K]|intros K; right; exact K].
      + change (ul a') with ((t, p) :: ul a). unfold Conc.tag. cbn [map]. rewrite invoked_app, given_back_app. cbn [invoked given_back flat_map inv_items back_items snd zitem fst]. cbn.
        rewrite !app_nil_r, map_app. cbn [map prio fst]. rewrite <- HM. rewrite <- !app_assoc. apply Permutation_app_head. apply Permutation_app_head. apply Permutation_cons_append.
      + intros w Hw. rewrite (pend_snoc_inv tr t "inv_push" _ w eq_refl). destruct (Nat.eqb_spec t w) as [->|N]; [reflexivity|]. apply Hpe.
        unfold a' in Hw. rewrite sv_upds_other in Hw by congruence. exact Hw.
    - unfold sview, a'. rewrite sv_upds_same. apply Conc.safe_bind. eapply Conc.safe_weaken; [|apply (ssafe_push hf lf t u (p, id))].
      intros [b|] l' Hl'; cbn [optS] in Hl'; cbn [Conc.safe].
      + subst l'. intros g2 a2 tr2 [M1 M2] Hv2. unfold sview in Hv2.
        set (a2' := upds a2 t sidle (rem t (ul a2))). exists a2'. split; [|split; [apply sframe|]].
        * split; [apply (svp_others a2 t sidle (rem t (ul a2)) tr2 _ eq_refl M1)|].
          intros Hf. destruct (M2 (pop_invoked_mono_f _ _ Hf)) as (Hb & s & stt & Hrun & Hlen & Hst & Hnd & Hul & HM & Hpe).
          split; [exact Hb|]. pose proof (Hst t) as Ht. unfold stat_s in Ht. rewrite Hv2 in Ht.
          exists s, (Lin.upd stt t Lin.Idle). split; [|split; [exact Hlen|split; [|split; [|split; [|split]]]]].
          -- unfold Conc.tag. cbn [map]. rewrite atrace_app. cbn [atrace flat_map aev_of snd fst zitem]. cbn. rewrite ?app_nil_r.
             apply (lp_snoc cap _ _ _ _ _ Hrun). cbn [lp_step]. destruct b; cbn in Ht; rewrite Ht; reflexivity.
          -- apply stat_others; [exact Hst|reflexivity].
          -- change (ul a2') with (rem t (ul a2)). apply NoDup_rem. exact Hnd.
          -- intros w q. change (ul a2') with (rem t (ul a2)). rewrite in_rem, Hul. destruct (Nat.eq_dec w t) as [->|N].
             ++ unfold a2'. rewrite sv_upds_same. unfold inul, sidle. cbn. intuition lia.
             ++ unfold a2'. rewrite sv_upds_other by exact N. tauto.
          -- change (ul a2') with (rem t (ul a2)). unfold Conc.tag. cbn [map]. rewrite invoked_app, given_back_app. destruct b.
             ++ cbn [invoked given_back flat_map inv_items back_items snd zitem fst]. cbn. rewrite !app_nil_r.
                rewrite (rem_none t (ul a2)); [exact HM|]. apply (notin_ul a2 t Hul). rewrite Hv2. unfold inul. cbn. lia.
             ++ cbn [invoked given_back flat_map inv_items back_items snd zitem fst]. cbn. rewrite !app_nil_r, map_app. cbn [map prio fst].
                rewrite <- HM. assert (Hin : In (t, p) (ul a2)) by (apply Hul; rewrite Hv2; unfold inul; cbn; auto).
                rewrite (Permutation_map snd (rem_perm t p (ul a2) Hnd Hin)). cbn [map snd]. rewrite <- !app_assoc. cbn [app]. reflexivity.
          -- intros w Hw. rewrite (pend_snoc_ret tr2 t "ret_push" _ w eq_refl eq_refl). destruct (Nat.eqb_spec t w) as [->|N].
             ++ unfold a2' in Hw. rewrite sv_upds_same in Hw. cbn in Hw. congruence.
             ++ apply Hpe. unfold a2' in Hw. rewrite sv_upds_other in Hw by congruence. exact Hw.
        * unfold sview, a2'. rewrite sv_upds_same. intros _. reflexivity.
      + intros g2 a2 tr2 Hi2 Hv2. exists a2. split; [apply (SInv_quiet g2); [reflexivity|reflexivity|exact Hi2]|].
        split; [apply sframe_refl|]. intros E. discriminate.
  Qed.

  Lemma SInv_inv_pop g a tr t :
    SInv g a tr -> exists a', SInv g a' (tr ++ Conc.tag t [EvCli "inv_pop" []]) /\ Conc.frame sview t a a' /\ svp (sview a' t) = true.
  Proof.
    intros [L1 L2]. exists (upds a t (mkSl 0 0 true) (ul a)).
    assert (Hp : pop_invoked (tr ++ Conc.tag t [EvCli "inv_pop" []]) = true) by (rewrite pop_invoked_app; cbn; apply orb_true_r).
    split; [split; [intros w Hw; exact Hp|intros Hf; congruence]|]. split; [apply sframe|]. unfold sview. rewrite sv_upds_same. reflexivity.
  Qed.

  Lemma sbegin g a tr t es : forallb quiet1 es = true -> SInv g a tr -> SInv g a (tr ++ Conc.tag t es).
  Proof. intros H. apply (SInv_quiet g); [reflexivity|exact H]. Qed.

  Lemma sinit : SInv init (mkSA (fun _ => sidle) []) [].
  Proof.
    split; [intros t H; discriminate|]. intros _. split; [cbn; lia|].
    exists (@nil Z), (fun _ => Lin.Idle). split; [reflexivity|]. split; [reflexivity|]. split; [intros t; reflexivity|].
    split; [constructor|]. split; [|split; [reflexivity|]].
    - intros t p. cbn. unfold inul. cbn. intuition lia.
    - intros t H. cbn in H. congruence.
  Qed.
End SL.

(** ** the combined invariant *)
Section Stack.
  Variable cap : nat.
  Hypothesis OK : slots_ok cap = true.
  Hypothesis SH : shape_ok cap = true.
  Variable bsz : nat.
  Hypothesis Hbsz : cap < bsz.
  Notation Sp := (BPQueue cap).
  Notation Inv := (MsPqInv.Inv cap).

  Definition CAux := (TAux * SAux)%type.
  Definition cview : CAux -> nat -> ((tv * tv2) * pv) * slv := viewP tview sview.
  Definition CInv : G -> CAux -> list (nat * ev) -> Prop := InvP (TInv cap) (SInv cap).
  Notation csafe := (@Conc.safe G V ev CAux (((tv * tv2) * pv) * slv) cview CInv).
  Definition cidle : ((tv * tv2) * pv) * slv := (((idle, idle2), idle3), sidle).

  Lemma Inv_quiescent_perm g a1 tr :
    Inv g a1 tr -> (forall t, inop (tvs a1 t) = false) -> Permutation (heap_items cap g ++ given_back tr) (invoked tr).
  Proof.
    intros Hi Hq. destruct (iH _ _ _ _ Hi) as (H1 & H2 & H3).
    assert (Hh : held a1 = []).
    { destruct (held a1) as [|[t x] r] eqn:E; [reflexivity|]. exfalso.
      assert (Hin : hand (tvs a1 t) = Some x) by (apply H2; left; reflexivity).
      pose proof (H3 t ltac:(rewrite Hin; discriminate)) as K. rewrite Hq in K. discriminate. }
    apply (Permutation_count_occ item_eq_dec). intros x. rewrite !count_occ_app. pose proof (iM _ _ _ _ Hi x) as E.
    unfold hcount in E. rewrite Hh in E. cbn in E. lia.
  Qed.

  (** what the push phase hands over to the first pop *)
  Lemma first_pop_state g a1 a2 a3 aS tr :
    TInv cap g ((a1, a2), a3) tr -> SInv cap g aS tr -> seen (scan_of tr) = false -> (forall u, pend tr u = false) ->
    exists (s : list Z) (stt : nat -> status Sp), lp_run lp_init (atrace cap tr) = Some (s, stt) /\ List.length s = count g /\
      (forall u, stt u = Lin.Idle) /\ Permutation s (prios cap (cellv g)).
  Proof.
    intros [[Hi He] Hx] [L1 L2] Es Hq. cbn [fst snd] in *.
    assert (Hnp : pop_invoked tr = false) by (rewrite <- seen_pop_invoked; exact Es).
    destruct (L2 Hnp) as (Hb & s & stt & Hrun & Hlen & Hst & Hnd & Hul & HM & Hpe).
    assert (Hz : forall u, slin (sv aS u) = 0).
    { intros u. destruct (Nat.eq_dec (slin (sv aS u)) 0) as [E|N]; [exact E|]. pose proof (Hpe u N) as K. rewrite Hq in K. discriminate. }
    assert (Hul0 : ul aS = []).
    { destruct (ul aS) as [|[w p] r] eqn:E; [reflexivity|]. exfalso.
      assert (Hin : inul (sv aS w) /\ sp (sv aS w) = p) by (apply Hul; left; reflexivity). destruct Hin as [[K|K] _]; rewrite Hz in K; discriminate. }
    exists s, stt. split; [exact Hrun|]. split; [exact Hlen|]. split.
    - intros u. specialize (Hst u). unfold stat_s in Hst. rewrite Hz in Hst. exact Hst.
    - rewrite Hul0 in HM. cbn [map] in HM. rewrite app_nil_r in HM.
      assert (Hidle : forall t, inop (tvs a1 t) = false) by (intros t; rewrite <- (iP _ _ _ _ Hi t); apply Hq).
      pose proof (Inv_quiescent_perm g a1 tr Hi Hidle) as HP. apply (Permutation_map prio) in HP. rewrite map_app in HP.
      apply Permutation_app_inv_r with (l := map prio (given_back tr)). rewrite HM. apply Permutation_sym. exact HP.
  Qed.

  Definition tidle : (tv * tv2) * pv := ((idle, idle2), idle3).
  (** the [SInv] view of a thread between operations: idle, or "has invoked a pop" (nothing is claimed any more) *)
  Definition sok (l : slv) : Prop := l = sidle \/ svp l = true.
  Definition Qcop : bool -> ((tv * tv2) * pv) * slv -> Prop := fun ok l' => ok = true -> fst l' = tidle /\ sok (snd l').

  Lemma crun_op hf lf t o l2 : sok l2 -> csafe t (run_op cap bsz hf lf t o) (tidle, l2) Qcop.
  Proof.
    intros Hl2. destruct o as [x|].
    - destruct Hl2 as [->|Hd].
      + eapply Conc.safe_weaken; [|apply (safe_prod tview (TInv cap) sview (SInv cap) _ t _ _ _ _ (trun_op_push cap OK SH bsz Hbsz hf lf t x) (ssafe_run_op_push cap bsz hf lf t t x))].
        intros ok [l1 l2'] [H1 H2] E. cbn [fst snd] in *. split; [exact (H1 E)|left; exact (H2 E)].
      + eapply Conc.safe_weaken; [|apply (safe_prod tview (TInv cap) sview (SInv cap) _ t _ _ _ _ (trun_op_push cap OK SH bsz Hbsz hf lf t x)
                                           (ssafe_dead cap (run_op cap bsz hf lf t (OPush x)) t l2 (fun _ l => l = l2) Hd (fun _ => eq_refl)))].
        intros ok [l1 l2'] [H1 H2] E. cbn [fst snd] in *. split; [exact (H1 E)|right; rewrite H2; exact Hd].
    - rewrite (run_op_pop cap bsz hf lf t). cbn [Conc.safe]. intros g [[[a1 a2] a3] aS] tr [HT HS] Hv.
      unfold cview, viewP, tidle in Hv. cbn [fst snd] in *.
      assert (V1 : tview ((a1, a2), a3) t = ((idle, idle2), idle3)) by (exact (f_equal fst Hv)).
      destruct (TInv_inv_pop cap OK SH bsz Hbsz g a1 a2 a3 tr t HT V1) as (aT' & HT' & FT & VT).
      { intros Es Hq. apply (first_pop_state g a1 a2 a3 aS tr HT HS Es Hq). }
      destruct (SInv_inv_pop cap g aS tr t HS) as (aS' & HS' & FS & VS).
      exists (aT', aS'). split; [split; assumption|]. split.
      + intros u Hu. unfold cview, viewP. cbn [fst snd]. rewrite (FT u Hu), (FS u Hu). reflexivity.
      + unfold cview, viewP. cbn [fst snd]. rewrite VT.
        eapply Conc.safe_weaken; [|apply (safe_prod tview (TInv cap) sview (SInv cap) _ t _ _ _ _ (tpop_cont cap OK SH bsz Hbsz hf lf t)
                                           (ssafe_dead cap (pop_cont bsz hf lf) t (sview aS' t) (fun _ l => l = sview aS' t) VS (fun _ => eq_refl)))].
        intros ok [l1 l2'] [H1 H2] E. cbn [fst snd] in *. split; [exact (H1 E)|right; rewrite H2; exact VS].
  Qed.

  Lemma crun_ops hf lf t : forall os l2, sok l2 -> csafe t (run_ops cap bsz hf lf t os) (tidle, l2) (@Conc.QTrue _).
  Proof.
    induction os as [|o r IH]; intros l2 Hl2; cbn [run_ops]; [exact I|].
    apply Conc.safe_bind. eapply Conc.safe_weaken; [|apply (crun_op hf lf t o l2 Hl2)].
    intros [|] [l1 l2'] Hl'; [|exact I]. destruct (Hl' eq_refl) as [E1 E2]. cbn [fst snd] in *. subst l1. apply IH. exact E2.
  Qed.

  Lemma cthread hf lf t os : csafe t (thread_prog cap bsz hf lf t os) (tidle, sidle) (@Conc.QTrue _).
  Proof.
    unfold thread_prog. cbn [Conc.safe]. intros g [aT aS] tr [HT HS] Hv. cbn [a_begin fst snd] in *. exists (aT, aS).
    split; [split; [apply (tbegin cap); [reflexivity|reflexivity|reflexivity|exact HT]|apply sbegin; [reflexivity|exact HS]]|].
    split; [intros u Hu; reflexivity|]. rewrite Hv. apply crun_ops. left. reflexivity.
  Qed.

  Lemma cinit_ok hf lf ths : Conc.cfg_ok cview CInv (init_cfg cap bsz hf lf ths).
  Proof.
    exists (((mkA (fun _ => idle) [], fun _ => idle2), fun _ => idle3), mkSA (fun _ => sidle) []). split.
    - split; [apply (tinit cap)|apply sinit].
    - intros t p Hp. cbn [init_cfg Conc.threads] in Hp. destruct (nth_thread_progs cap bsz Hbsz hf lf ths 0 t p Hp) as [os ->].
      cbn [Nat.add]. apply cthread.
  Qed.

  (** ** the theorems *)
  (** concurrent pushes, then concurrent pops (no pop invoked while a push is pending, no push invoked after the first
      pop), any schedule: whenever no operation is pending the heap is a max-heap again, holding exactly the items
      pushed and not handed back *)
  Theorem mspq_two_phase_heap hf lf ths c :
    Conc.reach (init_cfg cap bsz hf lf ths) c ->
    twophase (Conc.trace c) = true -> (forall t, pend (Conc.trace c) t = false) ->
    Good (count (Conc.shared c)) (cellv (Conc.shared c)) (cellt (Conc.shared c)) /\
    Permutation (heap_items cap (Conc.shared c) ++ given_back (Conc.trace c)) (invoked (Conc.trace c)).
  Proof.
    intros Hr Htwo Hq. destruct (seen (scan_of (Conc.trace c))) eqn:Es.
    2:{ apply (mspq_push_phase_heap cap OK SH bsz Hbsz hf lf ths c Hr); [rewrite <- seen_pop_invoked; exact Es|exact Hq]. }
    split; [|apply (mspq_conservation_quiescent cap OK bsz Hbsz hf lf ths c Hr Hq)].
    destruct (Conc.reach_Inv (cinit_ok hf lf ths) Hr) as ([[[a1 a2] a3] aS] & [[Hi He] Hx] & _). cbn [fst snd] in *.
    destruct Hx as (_ & _ & _ & _ & _ & U5). unfold twophase in Htwo. apply negb_true_iff in Htwo.
    destruct (U5 Htwo Es) as [F _]. set (g := Conc.shared c) in *.
    assert (Hidle : forall t, inop (tvs a1 t) = false) by (intros t; rewrite <- (iP _ _ _ _ Hi t); apply Hq).
    assert (Hpin : forall t, pin (a3 t) = false).
    { intros t. destruct (pin (a3 t)) eqn:E; [|reflexivity]. pose proof (k8 _ _ _ F t E) as K. rewrite Hidle in K. discriminate. }
    assert (Hnd : forall j, ~ isdirty a3 j) by (intros j [u Hu]; destruct (k9 _ _ _ F u (Hpin u)) as (_ & E & _); congruence).
    pose proof (iC _ _ _ _ Hi) as [_ Hcap].
    split; [|split; [split|]].
    - intros i. split.
      + intros Hv. destruct (occ_le cap OK bsz Hbsz g a1 _ i Hi (k6 _ _ _ F) Hv) as (j & Hj & Hjc & Ej). exists j. split; [|exact Ej]. split; [lia|].
        destruct (Nat.le_gt_cases j (count g)) as [|Hgt]; [assumption|]. exfalso.
        destruct (iO _ _ _ _ Hi) as (O1 & _ & _). destruct (O1 j ltac:(lia)) as [_ K]. destruct (K Hgt) as [K1|[u K1]]; [rewrite Ej in K1; congruence|].
        destruct (k9 _ _ _ F u (Hpin u)) as (_ & _ & E). congruence.
      + intros (j & Hj & <-). apply (occ_ge cap bsz Hbsz g a1 _ j Hi (k6 _ _ _ F) Hj).
    - intros i Hv. apply (iT _ _ _ _ Hi). exact Hv.
    - intros i Hv. destruct (cellt g i) as [| |u] eqn:Et; [|reflexivity|exfalso; apply (k3 _ _ _ F i u Et)].
      exfalso. apply Hv. apply (iT _ _ _ _ Hi). exact Et.
    - intros k Hk x Hx. destruct (k5 _ _ _ F k (Nat.div2 k) x (anc1 k Hk) Hx) as (y & Hy & Hle). exists y. split; [exact Hy|]. apply Hle. apply Hnd.
  Qed.

  (** the same runs are linearizable to the bounded max-priority queue, with the linearization points at the
      size-lock acquisitions: each pop returns a maximum of the abstract multiset at the instant it takes m_Lock *)
  Theorem mspq_two_phase_lp_valid hf lf ths c :
    Conc.reach (init_cfg cap bsz hf lf ths) c -> twophase (Conc.trace c) = true -> lp_valid Sp (atrace cap (Conc.trace c)).
  Proof.
    intros Hr Htwo. destruct (Conc.reach_Inv (cinit_ok hf lf ths) Hr) as ([[[a1 a2] a3] aS] & [[Hi He] Hx] & [L1 L2]). cbn [fst snd] in *.
    unfold twophase in Htwo. apply negb_true_iff in Htwo. destruct (seen (scan_of (Conc.trace c))) eqn:Es.
    - destruct Hx as (_ & _ & _ & _ & _ & U5). destruct (U5 Htwo Es) as [_ (s & stt & oS & o1 & Hrun & _)]. exists (s, stt). exact Hrun.
    - assert (Hnp : pop_invoked (Conc.trace c) = false) by (rewrite <- seen_pop_invoked; exact Es).
      destruct (L2 Hnp) as (_ & s & stt & Hrun & _). exists (s, stt). exact Hrun.
  Qed.

  Theorem mspq_two_phase_linearizable hf lf ths c :
    Conc.reach (init_cfg cap bsz hf lf ths) c -> twophase (Conc.trace c) = true ->
    linearizable Sp (hist_of cap (Conc.trace c)).
  Proof.
    intros Hr Htwo. rewrite <- erase_atrace. apply lp_valid_linearizable. apply (mspq_two_phase_lp_valid hf lf ths c Hr Htwo).
  Qed.
End Stack.
