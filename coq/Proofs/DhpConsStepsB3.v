(** DhpConsStepsB3: copy of LV.Proofs.DhpStepsB3 over the two-directional pointer invariant of LV.Proofs.DhpConsInv (conservation);
    the text differs from the original where the JW part of a goal is proved. *)
(** * DhpStepsB3: steps of the C03 invariant about retired blocks and the retired allocator. *)
From Coq Require Import ZArith NArith List String Bool Lia PeanoNat.
From LV Require Import Base.Conc Base.Events Model.DhpLang Model.Dhp Proofs.DhpBase Proofs.DhpSeq Proofs.DhpSeqThm Proofs.DhpHist
  Proofs.DhpLangProofs Proofs.DhpAllocA Proofs.DhpInvB Proofs.DhpConsInv Proofs.DhpConsQuietB Proofs.DhpConsQuietB2 Proofs.DhpConsRulesB Proofs.DhpConsStepsB1.
Import ListNotations.

Lemma flat_cells_ext g g' l : (forall b, In b l -> rb_cells (grb g' b) = rb_cells (grb g b)) -> flat g' l = flat g l.
Proof.
  induction l as [|x l IH]; intros H; cbn; auto. unfold flat in *. cbn. rewrite H by now left. rewrite IH; auto. intros b Hb. apply H. now right.
Qed.

Lemma ec_ext g g' a a' r :
  rch a' r = rch a r -> rw a' r = rw a r -> moved a' r = moved a r ->
  (forall b, In b (rch a r) -> rb_cells (grb g' b) = rb_cells (grb g b)) -> ec g' a' r = ec g a r.
Proof. intros E1 E2 E3 H. unfold ec, content. rewrite E1, E2, E3. now rewrite (flat_cells_ext g g' _ H). Qed.

Lemma disposed_ev_alloc f b : disposed_ev (ev_alloc f b) = []. Proof. unfold disposed_ev. now rewrite classify_alloc. Qed.
Lemma disposed_ev_free f b : disposed_ev (ev_free f b) = []. Proof. unfold disposed_ev. now rewrite classify_free. Qed.

Section StepsB3.
  Variable c : cfg.
  Notation RB := (c_RB c).

  Lemma JK_lt g a fr b : JK c g a fr -> rbown a b <> RNone -> b < List.length (rbs g).
  Proof. intros [K1 _ _ _ _] H. destruct (Nat.lt_ge_cases b (List.length (rbs g))) as [L|L]; auto. exfalso. apply H. now apply K1. Qed.

  Lemma JR_rch g a r b : JR c g a -> r < List.length (recs g) -> In b (rch a r) -> rbown a b = RRec r /\ b < List.length (rbs g).
  Proof.
    intros [R1 _ _ _ _ _] Hr Hb. destruct (R1 r Hr) as [(E & _)|(_ & K2 & K3 & _)]; [rewrite E in Hb; contradiction|].
    split; [now apply K3|]. destruct K2 as [_ Ich _ _ _ _ _]. eapply is_chain_lt; eauto.
  Qed.

  Lemma JW_ev g a tr t e : disposed_ev e = [] -> retired_ev e = [] ->
    match classify e with HAtt _ | HScanb _ => False | _ => True end ->
    JW g a (disposed_tr tr) (retired_tr tr) tr ->
    JW g a (disposed_tr (tr ++ Conc.tag t [e])) (retired_tr (tr ++ Conc.tag t [e])) (tr ++ Conc.tag t [e]).
  Proof.
    intros E E' Hc J. rewrite disposed_tr_app. change (disposed_tr (Conc.tag t [e])) with (disposed_ev e ++ []). rewrite E, app_nil_r.
    rewrite retired_tr_app. change (retired_tr (Conc.tag t [e])) with (retired_ev e ++ []). rewrite E', !app_nil_r.
    apply JW_frame with (g := g) (a := a) (rt := retired_tr tr) (tr := tr); auto.
    apply DhpConsSTrace.HSame_hq. constructor; [split; assumption|constructor].
  Qed.

  Definition aux_blk (a : AuxB) (t b : nat) : AuxB :=
    mkAuxB (fn (bvs a) t (set_blk (bvs a t) (Some (b, false)))) (fn (rbown a) b (RPriv t)) (wh a) (rch a) (rw a) (moved a) (dead a) (tl a).

  Ltac vwt t := let t' := fresh "t'" in intros t'; cbn; unfold fn; destruct (Nat.eqb_spec t' t) as [->|]; cbn; auto.

  (** a block leaves the allocator: "_alloc" *)
  Lemma S_alloc g a tr t b :
    vb_blk (bvs a t) = None -> flbad (hist (tr ++ Conc.tag t [ev_alloc FRt b])) = false -> JB c g a tr ->
    JB c g (aux_blk a t b) (tr ++ Conc.tag t [ev_alloc FRt b]).
  Proof.
    intros Hb Hfl [O1 K0 R1 W1]. pose proof K0 as [K1 K2 K3 K4 K5].
    change (Conc.tag t [ev_alloc FRt b]) with [(t, ev_alloc FRt b)] in *. rewrite hist_snoc, hstep_alloc in Hfl.
    destruct (existsb (Nat.eqb b) (freeh (hist tr) FRt)) eqn:Ex; [|cbn in Hfl; discriminate].
    assert (Hin : In b (freeh (hist tr) FRt)).
    { apply existsb_exists in Ex. destruct Ex as (x & X1 & X2). apply Nat.eqb_eq in X2. now subst. }
    assert (Hfree : rbown a b = RFree) by (now apply K3).
    assert (Ef : freeh (hist (tr ++ [(t, ev_alloc FRt b)])) FRt = remove1 b (freeh (hist tr) FRt)).
    { rewrite hist_snoc, hstep_alloc, Ex. cbn [freeh]. now rewrite fupd_same. }
    constructor.
    - eapply JO_frame with (g := g) (a := a); eauto. vwt t.
    - rewrite Ef. constructor; cbn [aux_blk bvs rbown].
      + intros b' L. destruct (Nat.eq_dec b' b) as [->|N]; [rewrite (K1 b L) in Hfree; discriminate|]. rewrite fn_other by exact N. auto.
      + exact K2.
      + split; [|apply remove1_nodup; apply K3]. intros b'. destruct (Nat.eq_dec b' b) as [->|N].
        * rewrite fn_same. split; [intros H; exfalso; revert H; apply remove1_notin; apply K3|discriminate].
        * rewrite fn_other by exact N. rewrite remove1_in by exact N. apply K3.
      + intros t' b' fl. unfold fn at 1 3. destruct (Nat.eqb_spec t' t) as [->|Nt]; cbn.
        * intros E. inversion E; subst b' fl. rewrite fn_same. split; auto. split; [discriminate|].
          intros o lb Hl Hi. destruct (K5 t o lb Hl) as (_ & _ & X). rewrite (X b Hi) in Hfree. discriminate.
        * intros E. destruct (K4 t' b' fl E) as (X1 & X2). assert (N : b' <> b) by (intros ->; congruence). rewrite fn_other by exact N. auto.
      + intros t' o lb Hl. assert (Hl' : vb_limbo (bvs a t') = Some (o, lb)) by (revert Hl; unfold fn; destruct (Nat.eqb_spec t' t) as [->|]; cbn; auto).
        destruct (K5 t' o lb Hl') as (X1 & X2 & X3). split; auto. split; auto. intros b' Hb'. assert (N : b' <> b) by (intros ->; rewrite (X3 b Hb') in Hfree; discriminate).
        rewrite fn_other by exact N. auto.
    - eapply JR_frame with (g := g) (a := a); eauto.
      + intros b' r' H. cbn. rewrite fn_other; auto. intros ->. congruence.
      + vwt t.
      + vwt t.
    - apply JW_ev; [apply disposed_ev_alloc|reflexivity|now rewrite classify_alloc|]. eapply JW_bvs with (t := t) (a := a); try reflexivity; auto.
  Qed.

  (** the allocator creates a block: new retired_block *)
  Lemma S_newrb g a tr t :
    vb_blk (bvs a t) = None -> JB c g a tr -> JB c (fst (new_rblock c g)) (aux_blk a t (List.length (rbs g))) tr.
  Proof.
    intros Hb [O1 K0 R1 W1]. pose proof K0 as [K1 K2 K3 K4 K5].
    remember (List.length (rbs g)) as nb eqn:Enb. remember (fst (new_rblock c g)) as g' eqn:Eg'.
    assert (El : List.length (rbs g') = S nb) by (subst g' nb; unfold new_rblock; cbn; rewrite app_length; cbn; lia).
    assert (Eo : forall b, b < nb -> grb g' b = grb g b) by (intros b L; subst g' nb; apply grb_new_old; exact L).
    assert (En : grb g' nb = mkRb 0 None None (repeat 0 RB)) by (subst g' nb; unfold grb, new_rblock; cbn; rewrite app_nth2 by lia; now rewrite Nat.sub_diag).
    assert (Er : forall r, grec g' r = grec g r) by (subst g'; reflexivity).
    assert (Elr : List.length (recs g') = List.length (recs g)) by (subst g'; reflexivity).
    assert (Etl : tlist g' = tlist g) by (subst g'; reflexivity).
    assert (Hnone : rbown a nb = RNone) by (apply K1; lia).
    assert (Hlt : forall b, rbown a b <> RNone -> b < nb) by (intros b H; rewrite Enb; eapply JK_lt; eauto).
    constructor.
    - eapply JO_frame with (g := g) (a := a); eauto; [intros r; rewrite Er; auto|]. vwt t.
    - constructor; cbn [aux_blk bvs rbown].
      + intros b' L. rewrite El in L. rewrite fn_other by lia. apply K1. lia.
      + intros b' L. rewrite El in L. destruct (Nat.eq_dec b' nb) as [->|N]; [rewrite En; cbn; apply repeat_length|]. rewrite Eo by lia. apply K2. lia.
      + split; [|apply K3]. intros b'. destruct (Nat.eq_dec b' nb) as [->|N].
        * rewrite fn_same. split; [intros H; apply K3 in H; congruence|discriminate].
        * rewrite fn_other by exact N. apply K3.
      + intros t' b' fl. unfold fn at 1 3. destruct (Nat.eqb_spec t' t) as [->|Nt]; cbn.
        * intros E. inversion E; subst b' fl. rewrite fn_same. split; auto. split; [discriminate|].
          intros o lb Hl Hi. destruct (K5 t o lb Hl) as (_ & _ & X). rewrite (X nb Hi) in Hnone. discriminate.
        * intros E. destruct (K4 t' b' fl E) as (X1 & X2 & X3). assert (L : b' < nb) by (apply Hlt; congruence).
          rewrite fn_other by lia. rewrite Eo by exact L. auto.
      + intros t' o lb Hl. assert (Hl' : vb_limbo (bvs a t') = Some (o, lb)) by (revert Hl; unfold fn; destruct (Nat.eqb_spec t' t) as [->|]; cbn; auto).
        destruct (K5 t' o lb Hl') as (X1 & X2 & X3).
        assert (L : forall b', In b' lb -> b' < nb) by (intros b' H; apply Hlt; rewrite (X3 b' H); discriminate).
        split; [|split; auto].
        * apply is_chain_frame with (g := g); [lia| |exact X1]. intros b' H. rewrite Eo by auto. auto.
        * intros b' H. rewrite fn_other; auto. specialize (L b' H). lia.
    - eapply JR_frame with (g := g) (a := a); eauto; try lia.
      + intros r. rewrite Er. auto.
      + intros b r L _. rewrite Eo by lia. auto.
      + intros b' r' H. cbn. rewrite fn_other; auto. intros ->. congruence.
      + vwt t.
      + vwt t.
    - eapply JW_bvs with (t := t) (a := a); try reflexivity; auto.
      eapply JW_frame with (g := g) (a := a); eauto; [|subst g'; reflexivity].
      intros r Hr. apply ec_ext; auto. intros b' H. destruct (JR_rch g a r b' R1 Hr H) as (_ & L). rewrite Eo; auto. lia.
  Qed.

  (** block->next_ = nullptr on a block I hold *)
  Lemma S_clrnext g a tr t b fl :
    vb_blk (bvs a t) = Some (b, fl) -> JB c g a tr ->
    JB c (upd_rb g b (bs_next None)) (setv a t (set_blk (bvs a t) (Some (b, true)))) tr.
  Proof.
    intros Hb [O1 K0 R1 W1]. pose proof K0 as [K1 K2 K3 K4 K5].
    destruct (K4 t b fl Hb) as (Hown & _ & Hnl).
    assert (Hlt : b < List.length (rbs g)) by (eapply JK_lt; eauto; congruence).
    set (g' := upd_rb g b (bs_next None)).
    assert (El : List.length (rbs g') = List.length (rbs g)) by (unfold g', upd_rb; cbn; apply upd_nth_length).
    assert (Eo : forall b', b' <> b -> grb g' b' = grb g b') by (intros b' N; unfold g'; rewrite grb_upd_rb_other; auto).
    assert (Es : grb g' b = bs_next None (grb g b)) by (unfold g'; now rewrite grb_upd_rb_same).
    assert (Ec : forall b', rb_cells (grb g' b') = rb_cells (grb g b')).
    { intros b'. destruct (Nat.eq_dec b' b) as [->|N]; [rewrite Es; destruct (grb g b); reflexivity|now rewrite Eo]. }
    constructor.
    - eapply JO_frame with (g := g) (a := a); eauto. vwt t.
    - constructor; cbn [setv bvs rbown].
      + rewrite El. exact K1.
      + intros b'. rewrite El, Ec. apply K2.
      + exact K3.
      + intros t' b' fl'. unfold fn. destruct (Nat.eqb_spec t' t) as [->|Nt]; cbn.
        * intros E. inversion E; subst b' fl'. split; auto. split; [intros _; rewrite Es; destruct (grb g b); reflexivity|exact Hnl].
        * intros E. destruct (K4 t' b' fl' E) as (X1 & X2 & X3). assert (N : b' <> b) by (intros ->; congruence). rewrite Eo by exact N. auto.
      + intros t' o lb Hl. assert (Hl' : vb_limbo (bvs a t') = Some (o, lb)) by (revert Hl; unfold fn; destruct (Nat.eqb_spec t' t) as [->|]; cbn; auto).
        destruct (K5 t' o lb Hl') as (X1 & X2 & X3). split; [|split; auto].
        apply is_chain_frame with (g := g); [lia| |exact X1]. intros b' H.
        assert (N : b' <> b). { intros ->. destruct (Nat.eq_dec t' t) as [->|Nt]; [eapply Hnl; eauto|]. rewrite (X3 b H) in Hown. congruence. }
        rewrite Eo by exact N. auto.
    - apply JR_setv; auto. eapply JR_frame with (g := g) (a := a); eauto; try lia.
      intros b' r' _ H. assert (N : b' <> b) by (intros ->; congruence). rewrite Eo by exact N. auto.
    - apply JW_setv; auto. eapply JW_frame with (g := g) (a := a); eauto. intros r _. apply ec_ext; auto.
  Qed.

  (** the block goes back to the allocator: "_free" *)
  Definition aux_unblk (a : AuxB) (t b : nat) : AuxB :=
    mkAuxB (fn (bvs a) t (set_blk (bvs a t) None)) (fn (rbown a) b RFree) (wh a) (rch a) (rw a) (moved a) (dead a) (tl a).

  Lemma S_free g a tr t b fl :
    vb_blk (bvs a t) = Some (b, fl) -> JB c g a tr -> JB c g (aux_unblk a t b) (tr ++ Conc.tag t [ev_free FRt b]).
  Proof.
    intros Hb [O1 K0 R1 W1]. pose proof K0 as [K1 K2 K3 K4 K5].
    destruct (K4 t b fl Hb) as (Hown & _ & Hnl).
    assert (Hlt : b < List.length (rbs g)) by (eapply JK_lt; eauto; congruence).
    change (Conc.tag t [ev_free FRt b]) with [(t, ev_free FRt b)] in *.
    assert (Ef : freeh (hist (tr ++ [(t, ev_free FRt b)])) FRt = b :: freeh (hist tr) FRt).
    { rewrite hist_snoc, hstep_free. cbn [freeh]. now rewrite fupd_same. }
    constructor.
    - eapply JO_frame with (g := g) (a := a); eauto. vwt t.
    - rewrite Ef. constructor; cbn [aux_unblk bvs rbown].
      + intros b' L. rewrite fn_other by lia. auto.
      + exact K2.
      + split.
        * intros b'. destruct (Nat.eq_dec b' b) as [->|N]; [rewrite fn_same; split; auto; intros _; now left|].
          rewrite fn_other by exact N. cbn. split; [intros [X|X]; [congruence|now apply K3]|intros X; right; now apply K3].
        * constructor; [|apply K3]. intros H. apply K3 in H. congruence.
      + intros t' b' fl'. unfold fn at 1 3. destruct (Nat.eqb_spec t' t) as [->|Nt]; cbn; [discriminate|].
        intros E. destruct (K4 t' b' fl' E) as (X1 & X2). assert (N : b' <> b) by (intros ->; congruence). rewrite fn_other by exact N. auto.
      + intros t' o lb Hl. assert (Hl' : vb_limbo (bvs a t') = Some (o, lb)) by (revert Hl; unfold fn; destruct (Nat.eqb_spec t' t) as [->|]; cbn; auto).
        destruct (K5 t' o lb Hl') as (X1 & X2 & X3). split; auto. split; auto. intros b' H.
        assert (N : b' <> b). { intros ->. destruct (Nat.eq_dec t' t) as [->|Nt]; [eapply Hnl; eauto|]. rewrite (X3 b H) in Hown. congruence. }
        rewrite fn_other by exact N. auto.
    - eapply JR_frame with (g := g) (a := a); eauto.
      + intros b' r' H. cbn. rewrite fn_other; auto. intros ->. congruence.
      + vwt t.
      + vwt t.
    - apply JW_ev; [apply disposed_ev_free|reflexivity|now rewrite classify_free|]. eapply JW_bvs with (t := t) (a := a); try reflexivity; auto.
  Qed.

  (** next = p->next_ while walking a private chain of blocks: the head of the chain becomes the held block *)
  Lemma S_rdnext g a tr t b lb :
    vb_limbo (bvs a t) = Some (Some b, lb) -> vb_blk (bvs a t) = None -> JB c g a tr ->
    JB c g (setv a t (set_blk (set_limbo (bvs a t) (Some (rb_next (grb g b), List.tl lb))) (Some (b, false)))) tr.
  Proof.
    intros Hl Hb [O1 K0 R1 W1]. pose proof K0 as [K1 K2 K3 K4 K5].
    destruct (K5 t _ _ Hl) as (X1 & X2 & X3). destruct lb as [|b0 lb]; [cbn in X1; discriminate|].
    cbn in X1. destruct X1 as (E0 & L0 & C0 & X1). inversion E0; subst b0. cbn [List.tl].
    constructor.
    - apply JO_setv; auto.
    - constructor; cbn [setv bvs rbown]; auto.
      + intros t' b' fl'. unfold fn. destruct (Nat.eqb_spec t' t) as [->|Nt]; cbn.
        * intros E. inversion E; subst b' fl'. split; [apply X3; now left|]. split; [discriminate|].
          intros o lb' E'. inversion E'; subst. inversion X2; auto.
        * apply K4.
      + intros t' o lb'. unfold fn. destruct (Nat.eqb_spec t' t) as [->|Nt]; cbn.
        * intros E. inversion E; subst o lb'. split; auto. inversion X2; subst. split; auto. intros b' H. apply X3. now right.
        * apply K5.
    - apply JR_setv; auto.
    - apply JW_setv; auto.
  Qed.

  (** forgetting an exhausted private chain *)
  Lemma S_limbo_none g a tr t : JB c g a tr -> JB c g (setv a t (set_limbo (bvs a t) None)) tr.
  Proof.
    intros [O1 K0 R1 W1]. pose proof K0 as [K1 K2 K3 K4 K5]. constructor.
    - apply JO_setv; auto.
    - constructor; cbn [setv bvs rbown]; auto.
      + intros t' b' fl'. unfold fn. destruct (Nat.eqb_spec t' t) as [->|Nt]; cbn; [|apply K4].
        intros E. destruct (K4 t b' fl' E) as (Y1 & Y2 & Y3). split; auto. split; auto. discriminate.
      + intros t' o lb'. unfold fn. destruct (Nat.eqb_spec t' t) as [->|Nt]; cbn; [discriminate|apply K5].
    - apply JR_setv; auto.
    - apply JW_setv; auto.
  Qed.
End StepsB3.
