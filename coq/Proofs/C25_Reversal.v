(** * C25_Reversal — every bit-reversal implementation of cds/algo/bit_reversal.h computes [rev] (part (a)).
    All statements are about the generated definitions [LV.Gen.Gen_bit_reversal]. *)

Require Import ZArith Lia Bool List.
Require Import LV.Base.CInt LV.Proofs.C25_Bits LV.Proofs.C25_Rev64Bytes LV.Gen.Gen_bit_reversal.
Local Open Scope Z_scope.

(** ** Running the generated code without kernel backtracking

    [monad_run] of [C25_Bits] steps with [cbn [obind]]; the proof term then carries a cast between
    [obind (Some v) F] and the next [obind m' F'], which the kernel first tries to establish argument-wise
    ([Some v] against [m'], i.e. a [rev 8 _] against a shift of [x]: both unfold to deep stuck matches on [x])
    before it unfolds [obind].  With eight bytes that failed first attempt dominated the [Qed] of
    [muldiv32_u64_is_rev] (15 minutes).  Here every step is an application of [obind_eq], whose instantiated
    statement is the goal up to beta, so the kernel never has a failing comparison to back out of. *)

Lemma obind_eq {A B} (m : option A) (a : A) (f : A -> option B) (r : option B) :
  m = Some a -> f a = r -> obind m f = r.
Proof. intros -> <-. reflexivity. Qed.

(** One step: a shift by a legal literal count. *)
Ltac mstep :=
  lazymatch goal with
  | |- obind (c_shr ?t ?a ?n) ?F = ?r =>
      refine (obind_eq _ _ F r (c_shr_ok t a n eq_refl) _); cbv beta
  | |- obind (c_shl ?t ?a ?n) ?F = ?r =>
      refine (obind_eq _ _ F r (c_shl_u_ok t a n eq_refl eq_refl) _); cbv beta
  end.

(** One step: a call [f b] (or table access) with specification [H : forall b, side b -> f b = Some _];
    [tac] proves the side condition. *)
Ltac mcall H tac :=
  lazymatch goal with
  | |- obind (?f ?b) ?F = ?r => refine (obind_eq _ _ F r (H b _) _); [tac | cbv beta]
  end.

Ltac mrun H tac := repeat first [ mstep | mcall H tac ].

(** ** SWAR stages *)

(** [stage w m1 m2 s y]: the shape of one SWAR stage, [((y & m1) >> s) | ((y & m2) << s)] at width [w]. *)
Definition stage (w m1 m2 s y : Z) : Z :=
  Z.lor (Z.shiftr (Z.land y m1) s) (Z.shiftl (Z.land y m2) s mod 2 ^ w).
Definition stage_last (w s y : Z) : Z := Z.lor (Z.shiftr y s) (Z.shiftl y s mod 2 ^ w).

Lemma stage_range w m1 m2 s y :
  0 <= w -> 0 <= s -> 0 <= y -> 0 <= m1 < 2 ^ w -> 0 <= stage w m1 m2 s y < 2 ^ w.
Proof.
  intros. unfold stage. apply lor_range; [lia| |apply mod_range; lia].
  apply shiftr_range; [lia|]. apply land_range; lia.
Qed.

Lemma stage_last_range w s y : 0 <= w -> 0 <= s -> 0 <= y < 2 ^ w -> 0 <= stage_last w s y < 2 ^ w.
Proof.
  intros. unfold stage_last. apply lor_range; [lia| |apply mod_range; lia].
  apply shiftr_range; lia.
Qed.

(** Each stage swaps adjacent 2^j-bit blocks: bit i of the result is bit (i xor 2^j) of the argument. *)
Lemma swar32_stage0 y : 0 <= y -> bswap_spec 32 0 y (stage 32 0xaaaaaaaa 0x55555555 1 y).
Proof. split; [apply stage_range; lia|]. unfold stage. enum_index 32%nat ltac:(bit_case). Qed.
Lemma swar32_stage1 y : 0 <= y -> bswap_spec 32 1 y (stage 32 0xcccccccc 0x33333333 2 y).
Proof. split; [apply stage_range; lia|]. unfold stage. enum_index 32%nat ltac:(bit_case). Qed.
Lemma swar32_stage2 y : 0 <= y -> bswap_spec 32 2 y (stage 32 0xf0f0f0f0 0x0f0f0f0f 4 y).
Proof. split; [apply stage_range; lia|]. unfold stage. enum_index 32%nat ltac:(bit_case). Qed.
Lemma swar32_stage3 y : 0 <= y -> bswap_spec 32 3 y (stage 32 0xff00ff00 0x00ff00ff 8 y).
Proof. split; [apply stage_range; lia|]. unfold stage. enum_index 32%nat ltac:(bit_case). Qed.
Lemma swar32_stage4 y : 0 <= y < 2 ^ 32 -> bswap_spec 32 4 y (stage_last 32 16 y).
Proof.
  intros Hy. split; [apply stage_last_range; lia|]. unfold stage_last.
  enum_index 32%nat ltac:(bit_case; rewrite ?(testbit_high y 32) by lia; bool_simpl; reflexivity).
Qed.

(** Swapping blocks of size 1, 2, 4, 8, 16 in turn reverses 32 bits:
    ((((i xor 16) xor 8) xor 4) xor 2) xor 1 = 31 - i. *)
Lemma bswap_chain32 x y1 y2 y3 y4 y5 :
  bswap_spec 32 0 x y1 -> bswap_spec 32 1 y1 y2 -> bswap_spec 32 2 y2 y3 ->
  bswap_spec 32 3 y3 y4 -> bswap_spec 32 4 y4 y5 -> y5 = rev 32 x.
Proof.
  intros [_ H1] [_ H2] [_ H3] [_ H4] [R5 H5]. apply rev_unique; [lia|exact R5|].
  enum_index 32%nat ltac:(cbn [Z.of_nat Pos.of_succ_nat Pos.succ];
    rewrite H5 by lia; norm_testbits; rewrite H4 by lia; norm_testbits; rewrite H3 by lia; norm_testbits;
    rewrite H2 by lia; norm_testbits; rewrite H1 by lia; norm_testbits; reflexivity).
Qed.

Lemma swar_u32_unfold x :
  swar_u32 x = Some (stage_last 32 16 (stage 32 0xff00ff00 0x00ff00ff 8 (stage 32 0xf0f0f0f0 0x0f0f0f0f 4
                 (stage 32 0xcccccccc 0x33333333 2 (stage 32 0xaaaaaaaa 0x55555555 1 x))))).
Proof. reflexivity. Qed.

Lemma swar_u32_is_rev x : 0 <= x < 2 ^ 32 -> swar_u32 x = Some (rev 32 x).
Proof.
  intros Hx. rewrite swar_u32_unfold. f_equal.
  set (y1 := stage 32 0xaaaaaaaa 0x55555555 1 x).
  set (y2 := stage 32 0xcccccccc 0x33333333 2 y1).
  set (y3 := stage 32 0xf0f0f0f0 0x0f0f0f0f 4 y2).
  set (y4 := stage 32 0xff00ff00 0x00ff00ff 8 y3).
  assert (R1 : 0 <= y1 < 2 ^ 32) by (apply stage_range; lia).
  assert (R2 : 0 <= y2 < 2 ^ 32) by (apply stage_range; lia).
  assert (R3 : 0 <= y3 < 2 ^ 32) by (apply stage_range; lia).
  assert (R4 : 0 <= y4 < 2 ^ 32) by (apply stage_range; lia).
  apply (bswap_chain32 x y1 y2 y3 y4).
  - apply swar32_stage0; lia.
  - apply swar32_stage1; lia.
  - apply swar32_stage2; lia.
  - apply swar32_stage3; lia.
  - apply swar32_stage4; lia.
Qed.

(** ** 64-bit forms built from two 32-bit halves *)

Lemma rev64_halves x :
  0 <= x < 2 ^ 64 ->
  Z.lor (Z.shiftl (rev 32 (x mod 2 ^ 32)) 32 mod 2 ^ 64) (rev 32 (Z.shiftr x 32 mod 2 ^ 32)) = rev 64 x.
Proof.
  intros Hx. apply rev_unique; [lia| |].
  - apply lor_range; [lia|apply mod_range; lia|]. pose proof (rev_range 32 (Z.shiftr x 32 mod 2 ^ 32) ltac:(lia)). lia.
  - enum_index 64%nat ltac:(bit_case).
Qed.

Lemma swar_u64_is_rev x : 0 <= x < 2 ^ 64 -> swar_u64 x = Some (rev 64 x).
Proof.
  intros Hx. unfold swar_u64. mrun swar_u32_is_rev ltac:(apply mod_range; lia).
  apply (f_equal Some). unfold c_or. rewrite !cast_u32. apply rev64_halves, Hx.
Qed.

(** ** Lookup table *)

Lemma lookup_table_spec b : 0 <= b < 2 ^ 8 -> c_index lookup_u32_table b = Some (rev 8 b).
Proof.
  intros Hb. change (2 ^ 8) with (Z.of_nat 256) in Hb.
  assert (H : forallb (fun b => match c_index lookup_u32_table b with Some v => v =? rev 8 b | None => false end)
                      (zrange 256) = true) by (vm_compute; reflexivity).
  pose proof (forallb_zrange _ _ H b Hb) as E. cbv beta in E.
  destruct (c_index lookup_u32_table b); [|discriminate]. apply Z.eqb_eq in E. now subst.
Qed.

Lemma rev32_bytes x :
  0 <= x < 2 ^ 32 ->
  Z.lor (Z.lor (Z.lor (Z.shiftl (rev 8 (Z.land x 255)) 24 mod 2 ^ 32)
                      (Z.shiftl (rev 8 (Z.land (Z.shiftr x 8) 255)) 16 mod 2 ^ 32))
               (Z.shiftl (rev 8 (Z.land (Z.shiftr x 16) 255)) 8 mod 2 ^ 32))
        (rev 8 (Z.land (Z.shiftr x 24) 255)) = rev 32 x.
Proof.
  intros Hx. apply rev_unique; [lia| |].
  - pose proof (rev_range 8 (Z.land (Z.shiftr x 24) 255) ltac:(lia)).
    assert (2 ^ 8 < 2 ^ 32) by reflexivity.
    repeat apply lor_range; try (apply mod_range; lia); lia.
  - enum_index 32%nat ltac:(bit_case).
Qed.

Lemma lookup_u32_is_rev x : 0 <= x < 2 ^ 32 -> lookup_u32 x = Some (rev 32 x).
Proof.
  intros Hx. unfold lookup_u32. unfold c_and.
  mrun lookup_table_spec
       ltac:(apply (land_range _ 255 8); [lia|first [apply (shiftr_range _ _ 32); lia|lia]|lia]).
  apply (f_equal Some). apply rev32_bytes, Hx.
Qed.

Lemma lookup_u64_is_rev x : 0 <= x < 2 ^ 64 -> lookup_u64 x = Some (rev 64 x).
Proof.
  intros Hx. unfold lookup_u64. mrun lookup_u32_is_rev ltac:(apply mod_range; lia).
  apply (f_equal Some). unfold c_or. rewrite !cast_u32. apply rev64_halves, Hx.
Qed.


(** ** Mul/div forms: the per-byte functions are checked on all 256 bytes, then composed *)

Lemma muldiv32_byte_spec b : 0 <= b < 2 ^ 8 -> muldiv32_byte b = Some (rev 8 b).
Proof.
  intros Hb. change (2 ^ 8) with (Z.of_nat 256) in Hb.
  assert (H : forallb (fun b => match muldiv32_byte b with Some v => v =? rev 8 b | None => false end)
                      (zrange 256) = true) by (vm_compute; reflexivity).
  pose proof (forallb_zrange _ _ H b Hb) as E. cbv beta in E.
  destruct (muldiv32_byte b); [|discriminate]. apply Z.eqb_eq in E. now subst.
Qed.

Lemma muldiv64_byte_spec b : 0 <= b < 2 ^ 8 -> muldiv64_byte b = Some (rev 8 b).
Proof.
  intros Hb. change (2 ^ 8) with (Z.of_nat 256) in Hb.
  assert (H : forallb (fun b => match muldiv64_byte b with Some v => v =? rev 8 b | None => false end)
                      (zrange 256) = true) by (vm_compute; reflexivity).
  pose proof (forallb_zrange _ _ H b Hb) as E. cbv beta in E.
  destruct (muldiv64_byte b); [|discriminate]. apply Z.eqb_eq in E. now subst.
Qed.

Lemma rev32_bytes_md x :
  0 <= x < 2 ^ 32 ->
  Z.lor (Z.lor (Z.lor (rev 8 (Z.shiftr x 24 mod 2 ^ 8))
                      (Z.shiftl (rev 8 (Z.shiftr x 16 mod 2 ^ 8)) 8 mod 2 ^ 32))
               (Z.shiftl (rev 8 (Z.shiftr x 8 mod 2 ^ 8)) 16 mod 2 ^ 32))
        (Z.shiftl (rev 8 (x mod 2 ^ 8)) 24 mod 2 ^ 32) = rev 32 x.
Proof.
  intros Hx. apply rev_unique; [lia| |].
  - pose proof (rev_range 8 (Z.shiftr x 24 mod 2 ^ 8) ltac:(lia)).
    assert (2 ^ 8 < 2 ^ 32) by reflexivity.
    repeat apply lor_range; try (apply mod_range; lia); lia.
  - enum_index 32%nat ltac:(bit_case).
Qed.

(* [rev64_bytes_md] (64 bit positions x 8 bytes, the slowest enumeration) lives in LV.Proofs.C25_Rev64Bytes so that it
   compiles in parallel with this file. *)

Ltac md_run spec := mrun spec ltac:(apply mod_range; lia).

Lemma muldiv32_u32_is_rev x : 0 <= x < 2 ^ 32 -> muldiv32_u32 x = Some (rev 32 x).
Proof.
  intros Hx. unfold muldiv32_u32. md_run muldiv32_byte_spec.
  apply (f_equal Some). unfold c_or. rewrite !cast_u8. apply rev32_bytes_md, Hx.
Qed.

Lemma muldiv64_u32_is_rev x : 0 <= x < 2 ^ 32 -> muldiv64_u32 x = Some (rev 32 x).
Proof.
  intros Hx. unfold muldiv64_u32. md_run muldiv64_byte_spec.
  apply (f_equal Some). unfold c_or. rewrite !cast_u8. apply rev32_bytes_md, Hx.
Qed.

Lemma muldiv32_u64_is_rev x : 0 <= x < 2 ^ 64 -> muldiv32_u64 x = Some (rev 64 x).
Proof.
  intros Hx. unfold muldiv32_u64. md_run muldiv32_byte_spec.
  apply (f_equal Some). unfold c_or. rewrite !cast_u8. apply rev64_bytes_md, Hx.
Qed.

Lemma muldiv64_u64_is_rev x : 0 <= x < 2 ^ 64 -> muldiv64_u64 x = Some (rev 64 x).
Proof.
  intros Hx. unfold muldiv64_u64. md_run muldiv64_byte_spec.
  apply (f_equal Some). unfold c_or. rewrite !cast_u8. apply rev64_bytes_md, Hx.
Qed.

(** [muldiv::operator()] selects the 64-bit-architecture variant on this target. *)
Lemma muldiv_u32_is_rev x : 0 <= x < 2 ^ 32 -> muldiv_u32 x = Some (rev 32 x).
Proof. intros Hx. unfold muldiv_u32. rewrite muldiv64_u32_is_rev by exact Hx. reflexivity. Qed.

Lemma muldiv_u64_is_rev x : 0 <= x < 2 ^ 64 -> muldiv_u64 x = Some (rev 64 x).
Proof. intros Hx. unfold muldiv_u64. rewrite muldiv64_u64_is_rev by exact Hx. reflexivity. Qed.

(** ** Involution *)

Definition involutive_on (w : Z) (f : Z -> option Z) : Prop :=
  forall x, 0 <= x < 2 ^ w -> exists y, f x = Some y /\ 0 <= y < 2 ^ w /\ f y = Some x.

Lemma is_rev_involutive w f :
  0 <= w -> (forall x, 0 <= x < 2 ^ w -> f x = Some (rev w x)) -> involutive_on w f.
Proof.
  intros Hw H x Hx. exists (rev w x). pose proof (rev_range w x Hw).
  split; [auto|split; [assumption|]]. rewrite H by assumption. f_equal. apply rev_involutive; auto.
Qed.

Lemma all_reversals_involutive :
  involutive_on 32 swar_u32 /\ involutive_on 64 swar_u64 /\
  involutive_on 32 lookup_u32 /\ involutive_on 64 lookup_u64 /\
  involutive_on 32 muldiv_u32 /\ involutive_on 64 muldiv_u64 /\
  involutive_on 32 muldiv32_u32 /\ involutive_on 64 muldiv32_u64.
Proof.
  repeat split; apply is_rev_involutive; try lia;
    auto using swar_u32_is_rev, swar_u64_is_rev, lookup_u32_is_rev, lookup_u64_is_rev,
               muldiv_u32_is_rev, muldiv_u64_is_rev, muldiv32_u32_is_rev, muldiv32_u64_is_rev.
Qed.
