(** * Arithmetic and memory lemmas for the WeakRingBuffer<void> model: [calc_real_size], tail marker bits,
      little-endian headers, byte writes and reads. *)
From Coq Require Import ZArith List Bool Lia PeanoNat.
From LV Require Import Base.Conc Base.Events Model.Ring Model.RingV Proofs.RingBase.
Import ListNotations.
Local Open Scope Z_scope.

(** ** bits *)
Lemma testbit_above x k n : 0 <= x < 2 ^ k -> 0 <= k <= n -> Z.testbit x n = false.
Proof.
  intros Hx Hk. destruct (Z.eq_dec x 0) as [->|Hne]; [apply Z.bits_0|].
  apply Z.bits_above_log2; [lia|].
  assert (Z.log2 x < k) by (apply Z.log2_lt_pow2; lia). lia.
Qed.

Lemma land_mask8 x : 0 <= x < two64 -> Z.land x (two64 - 8) = 8 * (x / 8).
Proof.
  intros Hx.
  replace (two64 - 8) with (Z.shiftl (Z.ones 61) 3) by reflexivity.
  replace (8 * (x / 8)) with (Z.shiftl (Z.shiftr x 3) 3).
  2:{ rewrite Z.shiftl_mul_pow2, Z.shiftr_div_pow2 by lia. change (2 ^ 3) with 8. lia. }
  apply Z.bits_inj'. intros n Hn. rewrite Z.land_spec.
  destruct (Z.lt_ge_cases n 3) as [Hlt|Hge].
  - rewrite !Z.shiftl_spec_low by lia. apply andb_false_r.
  - rewrite !Z.shiftl_spec by lia. rewrite Z.shiftr_spec by lia.
    replace (n - 3 + 3) with n by lia.
    destruct (Z.lt_ge_cases n 64) as [H64|H64].
    + rewrite Z.ones_spec_low by lia. apply andb_true_r.
    + rewrite Z.ones_spec_high by lia. rewrite andb_false_r. symmetry.
      apply (testbit_above x 64); [exact Hx|lia].
Qed.

Definition rsz (size : Z) : Z := 8 * ((size + 7) / 8) + 8.

Lemma calc_real_size_eq size : 0 <= size -> size + 16 < two64 -> calc_real_size size = rsz size.
Proof.
  intros H0 H1. unfold calc_real_size, rsz. replace (size + 8 - 1) with (size + 7) by lia.
  rewrite (u64_small (size + 7)) by lia. rewrite land_mask8 by lia.
  apply u64_small.
  assert (8 * ((size + 7) / 8) <= size + 7) by (apply Z.mul_div_le; lia).
  assert (0 <= (size + 7) / 8) by (apply Z.div_pos; lia). lia.
Qed.

Lemma rsz_bounds size : 0 <= size -> size + 8 <= rsz size < size + 16 /\ rsz size mod 8 = 0 /\ 8 <= rsz size.
Proof.
  intros H. unfold rsz.
  pose proof (Z.div_mod (size + 7) 8 ltac:(lia)) as D.
  pose proof (Z.mod_pos_bound (size + 7) 8 ltac:(lia)) as M.
  assert (0 <= (size + 7) / 8) by (apply Z.div_pos; lia).
  repeat split; try lia.
  replace (8 * ((size + 7) / 8) + 8) with (((size + 7) / 8 + 1) * 8) by lia. apply Z_mod_mult.
Qed.

Lemma rsz_of_multiple t : 0 <= t -> t mod 8 = 0 -> rsz t = t + 8.
Proof.
  intros H0 Hm. unfold rsz.
  pose proof (Z.div_mod t 8 ltac:(lia)) as D. rewrite Hm in D.
  replace (t + 7) with (t / 8 * 8 + 7) by lia. rewrite Z.div_add_l by lia.
  replace (7 / 8) with 0 by reflexivity. lia.
Qed.

Lemma top_bit_testbit n : 0 <= n -> Z.testbit top_bit n = Z.eqb 63 n.
Proof. intros H. unfold top_bit. apply Z.pow2_bits_eqb. lia. Qed.

Lemma land_top_zero s : 0 <= s < top_bit -> Z.land s top_bit = 0.
Proof.
  intros Hs. apply Z.bits_inj'. intros n Hn. rewrite Z.land_spec, Z.bits_0, top_bit_testbit by lia.
  destruct (Z.eqb_spec 63 n) as [<-|Hne]; [|apply andb_false_r].
  rewrite (testbit_above s 63); [reflexivity|exact Hs|lia].
Qed.

Lemma is_tail_small s : 0 <= s < top_bit -> is_tail s = false.
Proof. intros H. unfold is_tail. rewrite land_top_zero by exact H. reflexivity. Qed.

Lemma untail_small s : 0 <= s < top_bit -> untail s = s.
Proof.
  intros H. unfold untail. replace (top_bit - 1) with (Z.ones 63) by reflexivity.
  rewrite Z.land_ones by lia. apply Z.mod_small. exact H.
Qed.

Lemma make_tail_add t : 0 <= t < top_bit -> make_tail t = t + top_bit.
Proof.
  intros H. unfold make_tail. rewrite <- Z.lxor_lor by (apply land_top_zero; exact H).
  symmetry. apply Z.add_nocarry_lxor. apply land_top_zero. exact H.
Qed.

Lemma is_tail_make_tail t : 0 <= t < top_bit -> is_tail (make_tail t) = true.
Proof.
  intros H. unfold is_tail.
  destruct (Z.eqb_spec (Z.land (make_tail t) top_bit) 0) as [E|E]; [|reflexivity].
  exfalso. assert (Z.testbit (Z.land (make_tail t) top_bit) 63 = false) by (rewrite E; apply Z.bits_0).
  unfold make_tail in *. rewrite Z.land_spec, Z.lor_spec, top_bit_testbit in H0 by lia.
  cbn in H0. rewrite orb_true_r in H0. discriminate.
Qed.

Lemma untail_make_tail t : 0 <= t < top_bit -> untail (make_tail t) = t.
Proof.
  intros H. rewrite make_tail_add by exact H. unfold untail.
  replace (top_bit - 1) with (Z.ones 63) by reflexivity. rewrite Z.land_ones by lia.
  change (2 ^ 63) with top_bit. rewrite <- (Z.mul_1_l top_bit) at 1. rewrite Z.mod_add by (unfold top_bit; lia).
  apply Z.mod_small. exact H.
Qed.

(** ** little-endian values *)
Lemma le_roundtrip n : forall v, 0 <= v < 256 ^ Z.of_nat n -> le_val (le_bytes n v) = v.
Proof.
  induction n as [|n IH]; intros v Hv.
  - cbn in *. lia.
  - cbn [le_bytes le_val]. rewrite Nat2Z.inj_succ, Z.pow_succ_r in Hv by lia.
    rewrite IH.
    + pose proof (Z.div_mod v 256 ltac:(lia)). lia.
    + split; [apply Z.div_pos; lia|]. apply Z.div_lt_upper_bound; lia.
Qed.

Lemma le_bytes_length n v : length (le_bytes n v) = n.
Proof. revert v. induction n as [|n IH]; intros v; cbn; [reflexivity|]. rewrite IH. reflexivity. Qed.

(** ** byte writes *)
Lemma write_bytes_counters cap bs : forall g off,
  v_front (write_bytes cap g off bs) = v_front g /\ v_back (write_bytes cap g off bs) = v_back g /\
  v_fails (write_bytes cap g off bs) = v_fails g.
Proof.
  induction bs as [|b r IH]; intros g off; cbn [write_bytes]; [auto|].
  destruct (IH (setv_byte cap g off b) (off + 1)) as (A & B & C). rewrite A, B, C. auto.
Qed.

Lemma write_bytes_other cap bs : forall g off j,
  (j < off \/ off + Z.of_nat (length bs) <= j) -> v_mem (write_bytes cap g off bs) j = v_mem g j.
Proof.
  induction bs as [|b r IH]; intros g off j Hj; cbn [write_bytes]; [reflexivity|].
  cbn [length] in Hj. rewrite IH by lia. cbn. destruct (Z.eqb_spec j off); [lia|reflexivity].
Qed.

Lemma write_bytes_read cap bs : forall g off,
  read_bytes (write_bytes cap g off bs) off (length bs) = bs.
Proof.
  induction bs as [|b r IH]; intros g off; cbn [write_bytes read_bytes length]; [reflexivity|].
  f_equal.
  - rewrite write_bytes_other by lia. cbn. rewrite Z.eqb_refl. reflexivity.
  - apply IH.
Qed.

Lemma read_bytes_agree g g' n : forall off,
  (forall i, 0 <= i < Z.of_nat n -> v_mem g' (off + i) = v_mem g (off + i)) ->
  read_bytes g' off n = read_bytes g off n.
Proof.
  induction n as [|n IH]; intros off H; cbn [read_bytes]; [reflexivity|].
  f_equal.
  - specialize (H 0 ltac:(lia)). rewrite Z.add_0_r in H. exact H.
  - apply IH. intros i Hi. replace (off + 1 + i) with (off + (1 + i)) by lia. apply H. lia.
Qed.

Lemma read_bytes_length g n : forall off, length (read_bytes g off n) = n.
Proof. induction n as [|n IH]; intros off; cbn; [reflexivity|]. rewrite IH. reflexivity. Qed.

(** the ghost flag stays clear when every written offset is inside the buffer and not occupied *)
Lemma write_bytes_wbad cap bs : forall g off,
  v_wbad g = false ->
  (forall i, 0 <= i < Z.of_nat (length bs) ->
     0 <= off + i < cap /\ occupied cap (v_front g) (v_back g) (off + i) = false) ->
  v_wbad (write_bytes cap g off bs) = false.
Proof.
  induction bs as [|b r IH]; intros g off Hw H; cbn [write_bytes]; [exact Hw|].
  apply IH.
  - cbn. rewrite Hw. cbn [length] in H. destruct (H 0 ltac:(lia)) as (R & O). rewrite Z.add_0_r in R, O.
    rewrite O. replace (Z.leb 0 off) with true by (symmetry; apply Z.leb_le; lia).
    replace (Z.ltb off cap) with true by (symmetry; apply Z.ltb_lt; lia). reflexivity.
  - cbn [setv_byte v_front v_back]. intros i Hi. cbn [length] in H.
    replace (off + 1 + i) with (off + (1 + i)) by lia. apply H. lia.
Qed.

Lemma data_bytes_length size seed : 0 <= size -> Z.of_nat (length (data_bytes size seed)) = size.
Proof. intros H. unfold data_bytes. rewrite map_length, seq_length. lia. Qed.
