(** * DhpBase: list and record-update lemmas for LV.Model.Dhp *)
From Coq Require Import ZArith NArith List Bool Lia PeanoNat.
From LV Require Import Base.Conc Base.Events Model.DhpLang Model.Dhp.
Import ListNotations.

Global Arguments grb : simpl never.
Global Arguments grec : simpl never.
Global Arguments ggb : simpl never.
Global Arguments upd_rec : simpl never.
Global Arguments upd_rb : simpl never.
Global Arguments upd_gb : simpl never.

(** ** upd_nth *)
Lemma upd_nth_length {A} (l : list A) n f : List.length (upd_nth l n f) = List.length l.
Proof. revert n; induction l as [|x l IH]; intros [|n]; cbn; auto. Qed.

Lemma nth_upd_nth_same {A} (l : list A) n f d : n < List.length l -> nth n (upd_nth l n f) d = f (nth n l d).
Proof. revert n; induction l as [|x l IH]; intros [|n] H; cbn in *; try lia; auto. apply IH; lia. Qed.

Lemma nth_upd_nth_other {A} (l : list A) n m f d : n <> m -> nth m (upd_nth l n f) d = nth m l d.
Proof. revert n m; induction l as [|x l IH]; intros [|n] [|m] H; cbn; auto; try congruence. Qed.

Lemma upd_nth_oob {A} (l : list A) n f : List.length l <= n -> upd_nth l n f = l.
Proof. revert n; induction l as [|x l IH]; intros [|n] H; cbn in *; auto; try lia. f_equal. apply IH; lia. Qed.

Lemma upd_nth_app_l {A} (l l' : list A) n f : n < List.length l -> upd_nth (l ++ l') n f = upd_nth l n f ++ l'.
Proof. revert n; induction l as [|x l IH]; intros [|n] H; cbn in *; try lia; auto. f_equal. apply IH; lia. Qed.

Lemma upd_nth_app_r {A} (l l' : list A) n f : List.length l <= n -> upd_nth (l ++ l') n f = l ++ upd_nth l' (n - List.length l) f.
Proof.
  revert n; induction l as [|x l IH]; intros n H; cbn in *.
  - now rewrite Nat.sub_0_r.
  - destruct n as [|n]; [lia|]. cbn. f_equal. apply IH; lia.
Qed.

Lemma firstn_upd_nth_ge {A} (l : list A) n m f : m <= n -> firstn m (upd_nth l n f) = firstn m l.
Proof.
  revert n m; induction l as [|x l IH]; intros [|n] [|m] H; cbn; auto; try lia. f_equal. apply IH; lia.
Qed.

Lemma skipn_upd_nth_lt {A} (l : list A) n m f : n < m -> skipn m (upd_nth l n f) = skipn m l.
Proof.
  revert n m; induction l as [|x l IH]; intros [|n] [|m] H; cbn; auto; try lia. apply IH; lia.
Qed.

Lemma firstn_S_upd_nth {A} (l : list A) n (v : A) : n < List.length l ->
  firstn (S n) (upd_nth l n (fun _ => v)) = firstn n l ++ [v].
Proof.
  revert n; induction l as [|x l IH]; intros [|n] H; cbn in *; try lia; auto. f_equal. apply IH; lia.
Qed.

Lemma firstn_S_nth {A} (l : list A) n d : n < List.length l -> firstn (S n) l = firstn n l ++ [nth n l d].
Proof.
  revert n; induction l as [|x l IH]; intros [|n] H; cbn in *; try lia; auto. f_equal. apply IH; lia.
Qed.

(** ** projections of the state setters *)
Lemma recs_upd_rb g b f : recs (upd_rb g b f) = recs g. Proof. reflexivity. Qed.
Lemma rbs_upd_rec g r f : rbs (upd_rec g r f) = rbs g. Proof. reflexivity. Qed.
Lemma rbs_upd_rb g b f : rbs (upd_rb g b f) = upd_nth (rbs g) b f. Proof. reflexivity. Qed.
Lemma recs_upd_rec g r f : recs (upd_rec g r f) = upd_nth (recs g) r f. Proof. reflexivity. Qed.

Lemma grec_upd_rec_same g r f : r < List.length (recs g) -> grec (upd_rec g r f) r = f (grec g r).
Proof. intros H. unfold grec, upd_rec. cbn. now apply nth_upd_nth_same. Qed.
Lemma grec_upd_rec_other g r r' f : r <> r' -> grec (upd_rec g r f) r' = grec g r'.
Proof. intros H. unfold grec, upd_rec. cbn. now apply nth_upd_nth_other. Qed.
Lemma grec_upd_rb g b f r : grec (upd_rb g b f) r = grec g r. Proof. reflexivity. Qed.
Lemma grb_upd_rec g r f b : grb (upd_rec g r f) b = grb g b. Proof. reflexivity. Qed.
Lemma grb_upd_rb_same g b f : b < List.length (rbs g) -> grb (upd_rb g b f) b = f (grb g b).
Proof. intros H. unfold grb, upd_rb. cbn. now apply nth_upd_nth_same. Qed.
Lemma grb_upd_rb_other g b b' f : b <> b' -> grb (upd_rb g b f) b' = grb g b'.
Proof. intros H. unfold grb, upd_rb. cbn. now apply nth_upd_nth_other. Qed.
Lemma grb_set_oob g v b : grb (set_oob g v) b = grb g b. Proof. reflexivity. Qed.
Lemma grec_set_oob g v r : grec (set_oob g v) r = grec g r. Proof. reflexivity. Qed.

Lemma oeqb_eq x y : oeqb x y = true <-> x = y.
Proof.
  destruct x, y; cbn; split; intros H; try discriminate; auto.
  - apply Nat.eqb_eq in H. now subst.
  - inversion H. apply Nat.eqb_refl.
Qed.
Lemma oeqb_refl x : oeqb x x = true. Proof. now apply oeqb_eq. Qed.
Lemma oeqb_neq x y : oeqb x y = false <-> x <> y.
Proof. destruct (oeqb x y) eqn:E; split; intros H; try discriminate; try congruence.
  - apply oeqb_eq in E. contradiction.
  - intros ->. rewrite oeqb_refl in E. discriminate. Qed.

Lemma memb_In p l : memb p l = true <-> In p l.
Proof.
  unfold memb. rewrite existsb_exists. split.
  - intros (x & Hx & E). apply Nat.eqb_eq in E. now subst.
  - intros H. exists p. split; auto. apply Nat.eqb_refl.
Qed.
