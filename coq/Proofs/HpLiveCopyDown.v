(** * Necessity of "towards a higher slot": [copied_ptr_live_statement] for a copy into a LOWER slot is false.

    HP(H=2, P=2, R=8, classic).  Thread 0: attach; publish object 4 in source 0; protect it in slot 1 ("protected 1 4",
    event 20); copy slot 1 into slot 0 ("copy 0 1" at 21 ... "copied" at 52); clear slot 1; ...
    Thread 1: attach; unlink object 4 and retire it (events 34, 35); scan (begins at 41): it reads thread 0's slot 0
    BEFORE the copy's store (event 50) and slot 1 AFTER the clear (event 55), and gives object 4 to the disposer at
    event 60, although thread 0 has not touched slot 0 since the copy returned and uses the pointer afterwards
    ("touch 0 4" at 72).  The trace satisfies the client discipline.  Known finding "hp-guard-copy-downward"
    (corpus/C01/010-copy-down.json replays it on the real library). *)
From Coq Require Import ZArith List String Bool Lia PeanoNat.
From LV Require Import Base.Conc Base.Events Model.Hp Proofs.HpTrace Proofs.HpInv Proofs.HpLive Proofs.HpLiveCopy.
Import ListNotations.
Local Open Scope string_scope.
Local Open Scope list_scope.

(** ** checking a property of every (index, event) of a concrete trace by computation *)
Lemma in_combine_seq {A} (l : list A) : forall s i x, nth_error l i = Some x -> In (s + i, x) (combine (seq s (List.length l)) l).
Proof.
  induction l as [|y l IH]; intros s i x H; [destruct i; discriminate|].
  destruct i as [|i]; cbn in *.
  - inversion H; subst. left. f_equal. lia.
  - right. replace (s + S i) with (S s + i) by lia. now apply IH.
Qed.
Lemma indexed_check {A} (l : list A) (chk : nat * A -> bool) :
  forallb chk (combine (seq 0 (List.length l)) l) = true -> forall i x, nth_error l i = Some x -> chk (i, x) = true.
Proof. intros H i x Hn. rewrite forallb_forall in H. apply H. apply (in_combine_seq l 0 i x Hn). Qed.

(** ** [retire_once] from the list of retired objects *)
Definition ret_of (e : ev) : list Z := match e with EvCli n [x] => if String.eqb n "retire" then [x] else [] | _ => [] end.
Definition rets (tr : trace) : list Z := flat_map (fun te => ret_of (snd te)) tr.
Lemma cnt_retire_count p (tr : trace) : cnt "retire" p tr = Z.of_nat (count_occ Z.eq_dec (rets tr) p).
Proof.
  unfold cnt. f_equal. induction tr as [|[u e] tr IH]; [reflexivity|]. cbn [filter rets flat_map snd].
  rewrite count_occ_app. fold (rets tr). rewrite <- IH. clear IH.
  destruct e as [k o b|n args]; [reflexivity|]. cbn [is_ev ret_of]. destruct args as [|x [|y rest]]; try reflexivity.
  destruct (String.eqb n "retire"); cbn [andb]; [|reflexivity]. cbn [count_occ].
  destruct (Z.eq_dec x p) as [->|Hne]; [now rewrite Z.eqb_refl|]. destruct (Z.eqb_spec x p); [congruence|reflexivity].
Qed.
Lemma retire_once_check (tr : trace) : NoDup (rets tr) -> retire_once tr.
Proof.
  intros H p. rewrite cnt_retire_count. rewrite (NoDup_count_occ Z.eq_dec) in H. specialize (H p). lia.
Qed.

Lemma releases_rel_b j e : releases j e -> rel_b j e = true.
Proof.
  destruct e as [k o b|n args]; [intros []|]. destruct args as [|x rest]; cbn.
  - intros ->. reflexivity.
  - intros (Hn & ->). rewrite Z.eqb_refl, andb_true_r. destruct Hn as [ -> | [ -> | [ -> | -> ] ] ]; reflexivity.
Qed.

(** ** the witness *)
Definition cd_cfg : cfgT := norm_cfg [2; 2; 8; 0; 1; 50]%Z.
Definition cd_ths : list (list op) :=
  map decode_ops [[[1]; [6; 0; 4]; [3; 1; 0]; [10; 0; 1]; [5; 1]; [3; 1; 0]; [9; 0]]; [[1]; [6; 0; 0]; [8]]]%Z.
Definition cd_sched : list nat := repeat 0 10 ++ repeat 1 16 ++ repeat 0 4 ++ repeat 1 10.
Definition cd_run : Conc.config G V ev := fst (Conc.run 1000 0 cd_sched (Hp.init_cfg cd_cfg cd_ths)).
Definition cd_tr : trace := Conc.trace cd_run.

Definition is_named (n : string) (te : nat * ev) : bool := is_cli_named n (snd te).

Lemma cd_discipline : client_discipline cd_tr.
Proof.
  assert (Hret1 : forall i te, nth_error cd_tr i = Some te -> is_named "retire" te = true -> i = 35).
  { intros i te Hn Hr. pose proof (indexed_check cd_tr (fun x => negb (is_named "retire" (snd x)) || Nat.eqb (fst x) 35)%bool) as H.
    specialize (H ltac:(vm_compute; reflexivity) i te Hn). cbn [fst snd] in H. rewrite Hr in H. now apply Nat.eqb_eq in H. }
  assert (Hpub1 : forall i te, nth_error cd_tr i = Some te -> is_named "publish" te = true ->
            i = 8 \/ exists u k, te = (u, EvCli "publish" [k; 0%Z])).
  { intros i te Hn Hr.
    pose proof (indexed_check cd_tr (fun x => negb (is_named "publish" (snd x)) || Nat.eqb (fst x) 8 ||
                  match snd (snd x) with EvCli _ [_; o] => Z.eqb o 0 | _ => false end)%bool) as H.
    specialize (H ltac:(vm_compute; reflexivity) i te Hn). cbn [fst snd] in H. rewrite Hr in H. cbn [negb orb] in H.
    apply orb_true_iff in H. destruct H as [H|H]; [left; now apply Nat.eqb_eq in H|right].
    destruct te as [u e]. cbn [snd] in H. destruct e as [k o b|n args]; [discriminate|].
    destruct args as [|k [|o [|z rest]]]; try discriminate. apply Z.eqb_eq in H. subst o.
    unfold is_named in Hr. cbn in Hr. apply String.eqb_eq in Hr. subst n. eauto. }
  split; [|split; [|split]].
  - apply retire_once_check. vm_compute. constructor; [intros []|constructor].
  - intros p Hp i i' u u' k k' Hi Hi'.
    destruct (Hpub1 i _ Hi eq_refl) as [->|(u0 & k0 & E)]; [|inversion E; congruence].
    destruct (Hpub1 i' _ Hi' eq_refl) as [->|(u0 & k0 & E)]; [reflexivity|inversion E; congruence].
  - intros i u p Hi. pose proof (Hret1 i _ Hi eq_refl) as ->. left. exists 34.
    assert (E : nth_error cd_tr 35 = Some (1, EvCli "retire" [4%Z])) by (vm_compute; reflexivity).
    rewrite E in Hi. inversion Hi; subst u p. split; [reflexivity|vm_compute; reflexivity].
  - intros i u j o Hi. exfalso.
    pose proof (indexed_check cd_tr (fun x => negb (is_named "assign" (snd x)))) as H.
    specialize (H ltac:(vm_compute; reflexivity) i _ Hi). discriminate.
Qed.

Theorem hp_copy_downward_refuted : ~ copied_ptr_live_statement (fun i j => j < i).
Proof.
  intros H.
  specialize (H cd_cfg cd_ths cd_run eq_refl (Conc.run_reach _ _ _ _) cd_discipline 20 21 52 60 0 1 1 0 4%Z
                ltac:(lia) ltac:(lia) ltac:(lia) ltac:(cbv beta; lia) ltac:(discriminate)).
  fold cd_tr in H.
  specialize (H ltac:(vm_compute; reflexivity) ltac:(vm_compute; reflexivity) ltac:(vm_compute; reflexivity)).
  assert (Hno : forall m e, 21 < m < 52 -> nth_error cd_tr m = Some (0, e) -> is_opstart e = false).
  { intros m e Hm Hn.
    pose proof (indexed_check cd_tr (fun x => negb (Nat.ltb 21 (fst x) && Nat.ltb (fst x) 52 && Nat.eqb (fst (snd x)) 0) ||
                                               negb (is_opstart (snd (snd x))))%bool) as K.
    specialize (K ltac:(vm_compute; reflexivity) m _ Hn). cbn [fst snd] in K.
    destruct (Nat.ltb_spec 21 m); [|lia]. destruct (Nat.ltb_spec m 52); [|lia]. cbn in K. now apply negb_true_iff in K. }
  specialize (H Hno ltac:(vm_compute; reflexivity)). destruct H as (m & e & Hn & Hrel).
  pose proof (indexed_check cd_tr (fun x => negb (Nat.eqb (fst (snd x)) 0 &&
                 ((Nat.ltb 20 (fst x) && Nat.ltb (fst x) 52 && rel_b 1 (snd (snd x))) ||
                  (Nat.ltb 52 (fst x) && Nat.ltb (fst x) 60 && rel_b 0 (snd (snd x))))))%bool) as K.
  specialize (K ltac:(vm_compute; reflexivity) m _ Hn). cbn [fst snd] in K. rewrite Nat.eqb_refl in K. cbn [andb] in K.
  apply negb_true_iff in K. apply orb_false_iff in K. destruct K as (K1 & K2).
  destruct Hrel as [(Hm & Hr)|(Hm & Hr)]; apply releases_rel_b in Hr.
  - destruct (Nat.ltb_spec 20 m); [|lia]. destruct (Nat.ltb_spec m 52); [|lia]. rewrite Hr in K1. discriminate.
  - destruct (Nat.ltb_spec 52 m); [|lia]. destruct (Nat.ltb_spec m 60); [|lia]. rewrite Hr in K2. discriminate.
Qed.

(** the facts of the witness, for the reader *)
Example cd_facts :
  nth_error cd_tr 20 = Some (0, EvCli "protected" [1; 4]%Z) /\
  nth_error cd_tr 21 = Some (0, EvCli "copy" [0; 1]%Z) /\
  nth_error cd_tr 50 = Some (0, EvCli "g_slot" [0; 0; 4]%Z) /\
  nth_error cd_tr 52 = Some (0, EvCli "copied" []) /\
  nth_error cd_tr 60 = Some (1, ev_dispose 4) /\
  last_sb (firstn 60 cd_tr) 1 = Some 41 /\
  slot_at (firstn 61 cd_tr) 0 0 = 4%Z /\
  nth_error cd_tr 72 = Some (0, EvCli "touch" [0; 4]%Z).
Proof. vm_compute. repeat split; reflexivity. Qed.
