(** * C25_Bitop — the portable bit operations of cds/details/bitop_generic.h (part (b)): MSB, LSB. *)

Require Import ZArith Lia Bool List.
Require Import LV.Base.CInt LV.Proofs.C25_Bits LV.Gen.Gen_bitop.
Local Open Scope Z_scope.

(** ** Mask tests *)

Lemma land_high_mask w k x : 0 <= k <= w -> 0 <= x < 2 ^ w -> Z.land x (2 ^ w - 2 ^ k) = Z.shiftl (Z.shiftr x k) k.
Proof.
  intros Hk Hx. apply Z.bits_inj'. intros i Hi.
  rewrite Z.land_spec, Z.shiftl_spec by lia.
  destruct (Z_lt_le_dec i k).
  - rewrite (Z.testbit_neg_r _ (i - k)) by lia.
    replace (2 ^ w - 2 ^ k) with (2 ^ k * (2 ^ (w - k) - 1)).
    2:{ rewrite Z.mul_sub_distr_l, <- Z.pow_add_r by lia. replace (k + (w - k)) with w by lia. lia. }
    rewrite Z.mul_comm, Z.mul_pow2_bits_low by lia. apply andb_false_r.
  - rewrite Z.shiftr_spec by lia. replace (i - k + k) with i by lia.
    destruct (Z_lt_le_dec i w).
    + replace (2 ^ w - 2 ^ k) with (2 ^ k * (2 ^ (w - k) - 1)).
      2:{ rewrite Z.mul_sub_distr_l, <- Z.pow_add_r by lia. replace (k + (w - k)) with w by lia. lia. }
      rewrite Z.mul_comm. replace i with (k + (i - k)) at 2 by lia. rewrite Z.mul_pow2_bits_add by lia.
      replace (2 ^ (w - k) - 1) with (Z.ones (w - k)) by (rewrite Z.ones_equiv; lia).
      rewrite Z.ones_spec_low by lia. apply andb_true_r.
    + rewrite (testbit_high x w i) by lia. reflexivity.
Qed.

Lemma high_mask_test t w k x M :
  0 <= k <= w -> M = 2 ^ w - 2 ^ k -> 0 <= x < 2 ^ w -> negb (to_bool (c_and t x M)) = (x <? 2 ^ k).
Proof.
  intros Hk -> Hx. unfold c_and, to_bool. rewrite negb_involutive, land_high_mask by lia.
  rewrite Z.shiftl_mul_pow2, Z.shiftr_div_pow2 by lia.
  assert (0 < 2 ^ k) by (apply pow2_pos; lia).
  destruct (Z.ltb_spec x (2 ^ k)).
  - rewrite Z.div_small by lia. reflexivity.
  - apply Z.eqb_neq. assert (1 <= x / 2 ^ k) by (apply Z.div_le_lower_bound; lia). nia.
Qed.

(* normalise literal powers of two *)
Ltac norm_pow :=
  repeat match goal with
  | |- context [2 ^ ?n] => is_Zlit n; let v := eval vm_compute in (2 ^ n) in change (2 ^ n) with v
  | H : context [2 ^ ?n] |- _ => is_Zlit n; let v := eval vm_compute in (2 ^ n) in change (2 ^ n) with v in H
  end.

Lemma c_shl_u_small t a n : isigned t = false -> shift_ok t n = true -> 0 <= a -> a * 2 ^ n < 2 ^ ibits t ->
  c_shl t a n = Some (a * 2 ^ n).
Proof.
  intros Hs Hn Ha Hlt. rewrite c_shl_u_ok by assumption. apply shift_ok_spec in Hn.
  rewrite Z.shiftl_mul_pow2 by lia. rewrite Z.mod_small; [reflexivity|]. split; [|assumption].
  apply Z.mul_nonneg_nonneg; [lia|]. apply Z.pow_nonneg. lia.
Qed.

Ltac try_mask32 X M :=
  first [ rewrite (high_mask_test u32 32 16 X M) by (try reflexivity; lia)
        | rewrite (high_mask_test u32 32 24 X M) by (try reflexivity; lia)
        | rewrite (high_mask_test u32 32 28 X M) by (try reflexivity; lia)
        | rewrite (high_mask_test u32 32 30 X M) by (try reflexivity; lia)
        | rewrite (high_mask_test u32 32 31 X M) by (try reflexivity; lia) ].

Ltac sstep :=
  first
  [ progress cbn [obind]
  | match goal with
    | |- context [negb (to_bool (c_and u32 ?X ?M))] => try_mask32 X M
    | |- context [c_shl u32 ?a ?n] => rewrite (c_shl_u_small u32 a n) by (try reflexivity; cbn [ibits u32]; lia)
    | |- context [ssub ?t ?a ?b] => is_Zlit a; is_Zlit b; let v := eval vm_compute in (ssub t a b) in change (ssub t a b) with v
    | |- context [if (?a <? ?b) then _ else _] => destruct (Z.ltb_spec a b)
    end ].


Lemma low_mask_test t k x M :
  0 <= k -> M = 2 ^ k - 1 -> 0 <= x -> negb (to_bool (c_and t x M)) = (x mod 2 ^ k =? 0).
Proof.
  intros Hk -> Hx. unfold c_and, to_bool. rewrite negb_involutive.
  replace (2 ^ k - 1) with (Z.ones k) by (rewrite Z.ones_equiv; lia).
  rewrite Z.land_ones by lia. reflexivity.
Qed.

Lemma low_mask_test' t k x M :
  0 <= k -> M = 2 ^ k - 1 -> 0 <= x -> to_bool (c_and t x M) = negb (x mod 2 ^ k =? 0).
Proof. intros. rewrite <- (low_mask_test t k x M) by assumption. now rewrite negb_involutive. Qed.

Ltac zlia := first [ lia | (Z.div_mod_to_equations; lia) ].

Ltac try_lowmask X M :=
  first [ rewrite (low_mask_test u32 16 X M) by (try reflexivity; zlia)
        | rewrite (low_mask_test u32 8 X M) by (try reflexivity; zlia)
        | rewrite (low_mask_test u32 4 X M) by (try reflexivity; zlia)
        | rewrite (low_mask_test u32 2 X M) by (try reflexivity; zlia)
        | rewrite (low_mask_test u32 1 X M) by (try reflexivity; zlia) ].

(** The most significant bit: [msb x] is 0 for 0 and floor(log2 x) + 1 otherwise. *)
Definition msb (x : Z) : Z := if x =? 0 then 0 else Z.log2 x + 1.

Lemma msb32_spec x : 0 <= x < 2 ^ 32 -> msb32 x = Some (msb x).
Proof.
  intros Hx. unfold msb32, msb. cbv zeta. unfold to_bool at 1.
  destruct (Z.eqb_spec x 0) as [->|Hnz]; [reflexivity|]. cbn [negb].
  norm_pow.
  repeat sstep.
  all: f_equal; symmetry; apply Z.add_move_r; apply Z.log2_unique; norm_pow; lia.
Qed.

Lemma msb_range x w : 0 <= w -> 0 <= x < 2 ^ w -> 0 <= msb x <= w.
Proof.
  intros Hw Hx. unfold msb. destruct (Z.eqb_spec x 0); [lia|].
  assert (Z.log2 x < w) by (apply Z.log2_lt_pow2; lia). pose proof (Z.log2_nonneg x). lia.
Qed.

Lemma msb32nz_spec x : 0 <= x < 2 ^ 32 -> msb32nz x = Some (msb x - 1).
Proof.
  intros Hx. unfold msb32nz. rewrite msb32_spec by assumption. cbn [obind].
  pose proof (msb_range x 32 ltac:(lia) Hx). rewrite ssub_i32 by lia. reflexivity.
Qed.

Lemma log2_high x n : 0 <= n -> 2 ^ n <= x -> Z.log2 x = Z.log2 (x / 2 ^ n) + n.
Proof.
  intros Hn Hx. assert (0 < 2 ^ n) by (apply pow2_pos; lia).
  rewrite <- Z.shiftr_div_pow2 by lia. rewrite Z.log2_shiftr by lia.
  assert (n <= Z.log2 x) by (apply Z.log2_le_pow2; lia). lia.
Qed.

Lemma msb64_spec x : 0 <= x < 2 ^ 64 -> msb64 x = Some (msb x).
Proof.
  intros Hx. unfold msb64. monad_run. rewrite cast_u32, Z.shiftr_div_pow2 by lia.
  assert (Hh : 0 <= x / 2 ^ 32 < 2 ^ 32).
  { split; [apply Z.div_pos; lia|apply Z.div_lt_upper_bound; lia]. }
  rewrite (Z.mod_small (x / 2 ^ 32)) by assumption.
  unfold to_bool. destruct (Z.eqb_spec (x / 2 ^ 32) 0) as [E|E]; cbn [negb].
  - assert (x < 2 ^ 32).
    { destruct (Z_lt_le_dec x (2 ^ 32)); [assumption|].
      assert (1 <= x / 2 ^ 32) by (apply Z.div_le_lower_bound; norm_pow; lia). lia. }
    rewrite cast_u32, Z.mod_small by lia. rewrite msb32_spec by lia. reflexivity.
  - rewrite msb32_spec by assumption. cbn [obind].
    assert (2 ^ 32 <= x).
    { destruct (Z_lt_le_dec x (2 ^ 32)); [|assumption]. rewrite Z.div_small in E by lia. contradiction. }
    pose proof (msb_range _ 32 ltac:(lia) Hh).
    rewrite sadd_i32 by lia. cbn [obind]. f_equal.
    unfold msb. rewrite (proj2 (Z.eqb_neq _ _) E).
    replace (x =? 0) with false by (symmetry; apply Z.eqb_neq; lia).
    rewrite (log2_high x 32) by lia. lia.
Qed.

Lemma msb64nz_spec x : 0 <= x < 2 ^ 64 -> msb64nz x = Some (msb x - 1).
Proof.
  intros Hx. unfold msb64nz. rewrite msb64_spec by assumption. cbn [obind].
  pose proof (msb_range x 64 ltac:(lia) Hx). rewrite ssub_i32 by lia. reflexivity.
Qed.

(** ** Least significant bit *)

(** [lowbit x k]: bit k is the lowest set bit of x (arithmetic form). *)
Definition lowbit (x k : Z) : Prop := x mod 2 ^ k = 0 /\ Z.odd (x / 2 ^ k) = true.

Lemma lowbit_bits x k : 0 <= k -> lowbit x k ->
  Z.testbit x k = true /\ forall i, 0 <= i < k -> Z.testbit x i = false.
Proof.
  intros Hk [Hm Ho]. split.
  - rewrite Z.testbit_odd, Z.shiftr_div_pow2 by lia. exact Ho.
  - intros i Hi. rewrite <- (Z.mod_pow2_bits_low x k i) by lia. rewrite Hm. apply Z.bits_0.
Qed.

Lemma lowbit_unique x k k' : 0 <= k -> 0 <= k' -> lowbit x k -> lowbit x k' -> k = k'.
Proof.
  intros Hk Hk' H H'. apply lowbit_bits in H as [T F]; [|assumption]. apply lowbit_bits in H' as [T' F']; [|assumption].
  destruct (Z.lt_trichotomy k k') as [L|[E|L]]; [|assumption|].
  - rewrite F' in T by lia. discriminate.
  - rewrite F in T' by lia. discriminate.
Qed.

(** [lsb_ok x r]: r is 0 for 0, else 1 + index of the lowest set bit. *)
Definition lsb_ok (x r : Z) : Prop := if x =? 0 then r = 0 else 1 <= r /\ lowbit x (r - 1).

Ltac lstep :=
  first
  [ progress cbn [obind]
  | match goal with
    | |- context [negb (to_bool (c_and u32 ?X ?M))] => try_lowmask X M
    | |- context [c_shr u32 ?a ?n] => rewrite (c_shr_ok u32 a n) by reflexivity; rewrite (Z.shiftr_div_pow2 a n) by zlia
    | |- context [sadd ?t ?a ?b] => is_Zlit a; is_Zlit b; let v := eval vm_compute in (sadd t a b) in change (sadd t a b) with v
    | |- context [if (?a =? ?b) then _ else _] => destruct (Z.eqb_spec a b)
    end ].

Lemma odd_of_mod a : a mod 2 = 1 -> Z.odd a = true.
Proof. rewrite Zmod_odd. destruct (Z.odd a); [reflexivity|discriminate]. Qed.

Lemma div_nonneg a b : 0 <= a -> 0 < b -> 0 <= a / b.
Proof. intros. apply Z.div_pos; lia. Qed.

Lemma lsb32_spec x : 0 <= x < 2 ^ 32 ->
  match lsb32 x with Some r => lsb_ok x r /\ 0 <= r <= 32 | None => False end.
Proof.
  intros Hx. unfold lsb32, lsb_ok, lowbit. cbv zeta. unfold to_bool at 1.
  destruct (Z.eqb_spec x 0) as [->|Hnz]; [cbn; lia|]. cbn [negb].
  norm_pow.
  repeat (lstep; norm_pow).
  all: cbn match; norm_pow.
  all: split; [split; [lia|split; [|apply odd_of_mod]]|lia].
  all: Z.div_mod_to_equations; lia.
Qed.

Lemma lowbit_of_bits x k : 0 <= k ->
  Z.testbit x k = true -> (forall i, 0 <= i < k -> Z.testbit x i = false) -> lowbit x k.
Proof.
  intros Hk T F. split.
  - apply Z.bits_inj'. intros i Hi. rewrite Z.bits_0.
    destruct (Z_lt_le_dec i k).
    + rewrite Z.mod_pow2_bits_low by lia. apply F. lia.
    + apply Z.mod_pow2_bits_high. lia.
  - rewrite Z.testbit_odd, Z.shiftr_div_pow2 in T by lia. exact T.
Qed.

Lemma lsb32nz_spec x : 0 <= x < 2 ^ 32 -> x <> 0 ->
  match lsb32nz x with Some r => lowbit x r /\ 0 <= r < 32 | None => False end.
Proof.
  intros Hx Hnz. unfold lsb32nz. pose proof (lsb32_spec x Hx) as H.
  destruct (lsb32 x) as [r|]; [|contradiction]. cbn [obind]. destruct H as [H R].
  unfold lsb_ok in H. rewrite (proj2 (Z.eqb_neq _ _) Hnz) in H. destruct H as [H1 H2].
  rewrite ssub_i32 by lia. cbn [obind]. split; [assumption|lia].
Qed.

Lemma lsb64_spec x : 0 <= x < 2 ^ 64 ->
  match lsb64 x with Some r => lsb_ok x r /\ 0 <= r <= 64 | None => False end.
Proof.
  intros Hx. unfold lsb64, lsb_ok. unfold to_bool at 1.
  destruct (Z.eqb_spec x 0) as [->|Hnz]; [cbn; lia|]. cbn [negb].
  rewrite (low_mask_test' u64 32 x) by (try reflexivity; lia).
  destruct (Z.eqb_spec (x mod 2 ^ 32) 0) as [E|E]; cbn [negb].
  - (* the low half is zero: the answer is in the high half *)
    rewrite c_shr_ok by reflexivity. cbn [obind]. rewrite cast_u32, Z.shiftr_div_pow2 by lia.
    assert (Hh : 0 <= x / 2 ^ 32 < 2 ^ 32).
    { split; [apply Z.div_pos; lia|apply Z.div_lt_upper_bound; lia]. }
    rewrite (Z.mod_small (x / 2 ^ 32)) by assumption.
    assert (Hhnz : x / 2 ^ 32 <> 0).
    { intros Z0. apply Hnz. rewrite (Z.div_mod x (2 ^ 32)) by lia. lia. }
    pose proof (lsb32_spec _ Hh) as H. destruct (lsb32 (x / 2 ^ 32)) as [r|]; [|contradiction]. cbn [obind].
    destruct H as [H R]. unfold lsb_ok in H. rewrite (proj2 (Z.eqb_neq _ _) Hhnz) in H. destruct H as [H1 H2].
    rewrite sadd_i32 by lia. cbn [obind]. split; [|lia]. split; [lia|].
    apply lowbit_bits in H2 as [T F]; [|lia].
    apply lowbit_of_bits; [lia| |].
    + rewrite <- Z.shiftr_div_pow2, Z.shiftr_spec in T by lia. rewrite <- T. f_equal. lia.
    + intros i Hi. destruct (Z_lt_le_dec i 32).
      * rewrite <- (Z.mod_pow2_bits_low x 32 i) by lia. rewrite E. apply Z.bits_0.
      * specialize (F (i - 32) ltac:(lia)).
        rewrite <- Z.shiftr_div_pow2, Z.shiftr_spec in F by lia. rewrite <- F. f_equal. lia.
  - rewrite cast_u32.
    assert (Hl : 0 <= x mod 2 ^ 32 < 2 ^ 32) by (apply mod_range; lia).
    pose proof (lsb32_spec _ Hl) as H. destruct (lsb32 (x mod 2 ^ 32)) as [r|]; [|contradiction]. cbn [obind].
    destruct H as [H R]. unfold lsb_ok in H. rewrite (proj2 (Z.eqb_neq _ _) E) in H. destruct H as [H1 H2].
    split; [|lia]. split; [lia|].
    apply lowbit_bits in H2 as [T F]; [|lia].
    apply lowbit_of_bits; [lia| |].
    + rewrite Z.mod_pow2_bits_low in T by lia. exact T.
    + intros i Hi. specialize (F i Hi). rewrite Z.mod_pow2_bits_low in F by lia. exact F.
Qed.

Lemma lsb64nz_spec x : 0 <= x < 2 ^ 64 -> x <> 0 ->
  match lsb64nz x with Some r => lowbit x r /\ 0 <= r < 64 | None => False end.
Proof.
  intros Hx Hnz. unfold lsb64nz. pose proof (lsb64_spec x Hx) as H.
  destruct (lsb64 x) as [r|]; [|contradiction]. cbn [obind]. destruct H as [H R].
  unfold lsb_ok in H. rewrite (proj2 (Z.eqb_neq _ _) Hnz) in H. destruct H as [H1 H2].
  rewrite ssub_i32 by lia. cbn [obind]. split; [assumption|lia].
Qed.
