(** * DhpConsDRecs: what the single destructor thread (smr::destruct( true ) under the big-step evaluator [dexec] of
      LV.Proofs.DhpConsDestroy) hands to the disposer, as a function of the memory it starts from.

    [detach_all_idle]: when no thread record is owned, detach_all_thread only reads.
    [destroy_recs_spec]: the loop of ~smr over thread_list_ ([destroy_recs]) started in a memory in which every record
      [r] of the list either has no retired array or has one with representation invariant [Rinv c g r (chf r) (wf r)]
      (chains of different records disjoint: [DI]) emits, if no loop runs out of fuel, exactly the disposer calls
      [content g (chf r) (wf r)] for the records of the list in list order -- by induction over the list, with the
      frames [rt_fini_fr], [G_hp_clear] of DhpConsDestroy for the part of the body that tears the record down.
    [destruct_spec]: the same for the whole of smr::destruct( true ). *)
From Coq Require Import ZArith NArith List String Bool Lia PeanoNat Permutation.
From LV Require Import Base.Conc Base.Events Model.DhpLang Model.Dhp Proofs.DhpBase Proofs.DhpSeq Proofs.DhpSeqThm Proofs.DhpHist
  Proofs.DhpLangProofs Proofs.DhpInvB Proofs.DhpProofsC02 Proofs.DhpProofsC03 Proofs.DhpConsDestroy.
Import ListNotations.

(** the disposer calls in a list of events *)
Definition dispv (es : list ev) : list nat := flat_map disposed_ev es.

Lemma dispv_app es es' : dispv (es ++ es') = dispv es ++ dispv es'.
Proof. unfold dispv. apply flat_map_app. Qed.
Lemma dispv_nodisp es : nodisp es -> dispv es = [].
Proof.
  unfold dispv. induction es as [|e es IH]; intros H; cbn; auto.
  rewrite (H e (or_introl eq_refl)). cbn. apply IH. intros e' He'. apply H. now right.
Qed.
Lemma dispv_dispose ps : dispv (map ev_dispose ps) = ps.
Proof.
  unfold dispv. induction ps as [|p ps IH]; cbn [map flat_map]; auto. unfold disposed_ev at 1. rewrite classify_dispose. cbn [app]. now rewrite IH.
Qed.
Lemma oof_not_dispose ps : ~ In oof (map ev_dispose ps).
Proof. intros H. apply in_map_iff in H. destruct H as (p & E & _). discriminate. Qed.

Section Recs.
  Variable c : cfg.
  Hypothesis H4 : 4 <= c_RB c.
  Variables (chf : nat -> list nat) (wf : nat -> nat).

  (** every record of [l] has no retired array, or one with chain [chf r] and cursor [wf r]; chains are disjoint *)
  Definition DI (g : G) (l : list nat) : Prop :=
    (forall r, In r l -> (chf r = [] /\ wf r = 0 /\ r_head (grec g r) = None /\ r_cb (grec g r) = None) \/ Rinv c g r (chf r) (wf r)) /\
    (forall r r' b, In r l -> In r' l -> In b (chf r) -> In b (chf r') -> r = r').

  Lemma fc_none : forall f g blk cc, final_cells c f g blk None cc = final_cells c f g blk None 0.
  Proof. induction f as [|f IH]; intros g [b|] cc; cbn; auto. f_equal. apply IH. Qed.

  Lemma ps_seq_final g h :
    match r_cb (grec g h) with
    | None => final_cells c (S (List.length (rbs g))) g (r_head (grec g h)) None 0
    | Some cb => final_cells c (S (List.length (rbs g))) g (r_head (grec g h)) (Some cb) (r_cc (grec g h))
    end = seq_final c h g.
  Proof. unfold seq_final. destruct (r_cb (grec g h)); [reflexivity|]. symmetry. apply fc_none. Qed.

  Lemma DI_head g h l : DI g (h :: l) ->
    is_chain c g (r_head (grec g h)) (chf h) /\ NoDup (chf h) /\ seq_final c h g = content g (chf h) (wf h).
  Proof.
    intros (D1 & _). destruct (D1 h (or_introl eq_refl)) as [(E1 & E2 & E3 & E4)|I].
    - rewrite E1, E2. unfold seq_final. rewrite E3. cbn. split; auto. split; [constructor|reflexivity].
    - split; [apply I|]. split; [apply I|]. apply (seq_final_content c ltac:(lia) H4 g h _ _ I).
  Qed.

  Lemma content_FR S H g g' ch w : FR S H g g' -> content g' ch w = content g ch w.
  Proof. intros (_&_&_&_&_&_&E). unfold content, flat. f_equal. apply flat_map_ext. intros b. apply E. Qed.

  Lemma DI_step g g' h l : NoDup (h :: l) -> DI g (h :: l) -> FR (fun b => In b (chf h)) (eq h) g g' -> DI g' l.
  Proof.
    intros Hnd (D1 & D2) HF. pose proof HF as (F0&F1&F2&F3&F4&F5&F6). inversion Hnd as [|? ? Hh Hnd']; subst. split.
    - intros r Hr. assert (Nr : h <> r) by (intros ->; contradiction).
      destruct (F4 r Nr) as (X1 & X2 & X3 & X4).
      destruct (D1 r (or_intror Hr)) as [(E1 & E2 & E3 & E4)|I]; [left; rewrite X1, X3; auto|right].
      apply Rinv_frame with (g := g); try lia; [repeat split; auto| |exact I].
      intros b Hb. split; [|now rewrite F6]. apply F5. intros Hb'. apply Nr. eapply D2; eauto; [now left|now right].
    - intros r r' b Hr Hr'. apply D2; now right.
  Qed.

  Lemma is_tl_FR S H g g' o l : FR S H g g' -> is_tl g o l -> is_tl g' o l.
  Proof. intros (F0&F1&F2&F3&_) Ht. apply is_tl_frame with (g := g); [lia| |exact Ht]. intros r _. apply F3. Qed.

  (** the loop of ~smr *)
  Lemma destroy_recs_spec : forall l fuel o g, is_tl g o l -> NoDup l -> DI g l ->
    ~ In oof (snd (fst (dexec (destroy_recs c fuel o) g))) ->
    dispv (snd (fst (dexec (destroy_recs c fuel o) g))) = flat_map (fun r => content g (chf r) (wf r)) l.
  Proof.
    induction l as [|h l IH]; intros fuel o g Ht Hnd HD Hno.
    - cbn in Ht. subst o. destruct fuel; reflexivity.
    - cbn in Ht. destruct Ht as (-> & Hlt & Ht).
      destruct fuel as [|f]; [exfalso; apply Hno; cbn; now left|].
      destruct (DI_head g h l HD) as (Hc & Hn & Esf).
      cbn [destroy_recs] in *. rewrite dexec_xbind in *. cbn [loc dexec] in *. rewrite ps_seq_final in *.
      rewrite dexec_xbind in *. cbn [emit dexec] in *. rewrite dexec_xbind in *.
      destruct (rt_fini_fr c (chf h) h g Hc Hn) as (A1 & A2 & A3).
      destruct (dexec (rt_fini c h) g) as [[g1 es1] [[]|]]; cbn [fst snd] in *;
        [|exfalso; apply Hno; rewrite !in_app_iff; pose proof (A3 eq_refl); tauto].
      rewrite dexec_xbind in *.
      destruct (G_hp_clear c h g1) as (B1 & B2 & B3).
      destruct (dexec (hp_clear c h []) g1) as [[g2 es2] [[]|]]; cbn [fst snd] in *;
        [|exfalso; apply Hno; rewrite !in_app_iff; pose proof (B3 eq_refl); tauto].
      rewrite dexec_xbind in *. cbn [loc dexec] in *. rewrite dexec_xbind in *. cbn [act dexec] in *.
      unfold a_st_free in *. cbn [fst snd] in *.
      assert (HF : FR (fun b => In b (chf h)) (eq h) g (upd_rec g2 h (rs_free true))).
      { eapply FR_trans; [exact A1|]. eapply FR_trans; [apply FR_piB; exact B1|].
        eapply FR_weaken; [| |apply FR_upd_rec_h; intros []; cbn; auto]; cbn; auto. intros ? []. }
      assert (En : r_next (grec g2 h) = r_next (grec g h)).
      { destruct A1 as (_&_&_&X&_). destruct B1 as (_&_&_&Y&_). destruct (X h) as (_ & <-). destruct (Y h) as (_ & -> & _). reflexivity. }
      rewrite En in *.
      set (g3 := upd_rec g2 h (rs_free true)) in *.
      inversion Hnd as [|? ? Hh Hnd']; subst.
      specialize (IH f (r_next (grec g h)) g3 (is_tl_FR _ _ _ _ _ _ HF Ht) Hnd' (DI_step g g3 h l Hnd HD HF)).
      destruct (dexec (destroy_recs c f (r_next (grec g h))) g3) as [[g4 es4] o4]. cbn [fst snd] in *.
      rewrite !dispv_app, dispv_dispose, (dispv_nodisp es1 A2), (dispv_nodisp es2 B2). cbn [app flat_map dispv].
      replace (dispv (acc KSt (obj_rec h 1) true)) with (@nil nat) by reflexivity. rewrite !app_nil_r. cbn [app]. rewrite Esf. f_equal.
      rewrite IH.
      + apply flat_map_ext. intros r. eapply content_FR; eauto.
      + intros Hin. apply Hno. rewrite !in_app_iff. tauto.
  Qed.
End Recs.

Section Destruct.
  Variable c : cfg.
  Hypothesis H4 : 4 <= c_RB c.
  Variables (chf : nat -> list nat) (wf : nat -> nat).

  (** detach_all_thread when no record is owned: reads only *)
  Lemma detach_all_idle m g : (forall r, r_tid (grec g r) = 0) -> forall fuel o,
    fst (fst (dexec (detach_all c fuel m o) g)) = g /\ nodisp (snd (fst (dexec (detach_all c fuel m o) g))) /\
    (snd (dexec (detach_all c fuel m o) g) = None -> In oof (snd (fst (dexec (detach_all c fuel m o) g)))).
  Proof.
    intros H0. induction fuel as [|f IH]; intros [h|].
    - cbn. split; auto. split; [intros e [<-|[]]; reflexivity|intros _; now left].
    - cbn. split; auto. split; [apply nodisp_nil|discriminate].
    - cbn [detach_all]. rewrite dexec_xbind. cbn [loc dexec]. rewrite dexec_xbind. cbn [act dexec]. unfold a_ld_tid.
      rewrite H0. cbn [Nat.eqb]. rewrite dexec_xbind. cbn [ret dexec].
      destruct (IH (r_next (grec g h))) as (A1 & A2 & A3).
      destruct (dexec (detach_all c f m (r_next (grec g h))) g) as [[g1 es1] o1]. cbn [fst snd app] in *.
      split; auto. split; [|intros E; right; auto].
      intros e [<-|He]; [reflexivity|]. apply A2. rewrite app_nil_r in He. exact He.
    - cbn. split; auto. split; [apply nodisp_nil|discriminate].
  Qed.

  Lemma DI_set_tlist g l v : DI c chf wf g l -> DI c chf wf (set_tlist g v) l.
  Proof.
    intros (D1 & D2). split; [|exact D2]. intros r Hr. destruct (D1 r Hr) as [E|I]; [left; exact E|right].
    apply Rinv_frame with (g := g); auto.
  Qed.

  (** smr::destruct( true ) from a memory in which no record is owned *)
  Lemma destruct_spec m g : (forall r, r_tid (grec g r) = 0) -> forall l, is_tl g (tlist g) l -> NoDup l -> DI c chf wf g l ->
    ~ In oof (snd (fst (dexec (destruct c m) g))) ->
    dispv (snd (fst (dexec (destruct c m) g))) = flat_map (fun r => content g (chf r) (wf r)) l.
  Proof.
    intros H0 l Ht Hnd HD Hno. unfold destruct in *. rewrite dexec_xbind in *. cbn [act dexec] in *. unfold a_ld_tlist at 1 in Hno. unfold a_ld_tlist at 1.
    rewrite dexec_xbind in *.
    destruct (detach_all_idle m g H0 (c_spin c) (tlist g)) as (A1 & A2 & A3).
    destruct (dexec (detach_all c (c_spin c) m (tlist g)) g) as [[g1 es1] [[]|]]; cbn [fst snd] in *;
      [|exfalso; apply Hno; rewrite !in_app_iff; pose proof (A3 eq_refl); tauto].
    subst g1. rewrite dexec_xbind in *. cbn [act dexec] in *. unfold a_ld_tlist in *. rewrite dexec_xbind in *. cbn [act dexec] in *.
    unfold a_st_tlist in *.
    pose proof (destroy_recs_spec c H4 chf wf l (c_spin c) (tlist g) (set_tlist g None)) as S.
    destruct (dexec (destroy_recs c (c_spin c) (tlist g)) (set_tlist g None)) as [[g4 es4] o4]. cbn [fst snd] in *.
    rewrite !dispv_app, (dispv_nodisp es1 A2).
    replace (dispv (acc KLd obj_tlist true)) with (@nil nat) by reflexivity.
    replace (dispv (acc KSt obj_tlist true)) with (@nil nat) by reflexivity.
    replace (dispv []) with (@nil nat) by reflexivity. rewrite !app_nil_r. cbn [app].
    rewrite S; auto.
    - apply is_tl_frame with (g := g); auto.
    - apply DI_set_tlist. exact HD.
    - intros Hin. apply Hno. rewrite !in_app_iff. tauto.
  Qed.
End Destruct.
