(** * SkipListFullProofs: find_fastpath, try_remove_at, insert_at_position and the operations insert / erase / contains of the
      skip list model against the full-history invariant [Inv2]; the initial state; the theorem. *)
From Coq Require Import ZArith List String Bool Lia PeanoNat.
From LV Require Import Base.Conc Base.Events Base.Lin Spec.Specs Proofs.LinProofs.
From LV Require Import Model.SkipList Proofs.SkipListProofs Proofs.SkipListLin Proofs.SkipListFullInv Proofs.SkipListFullActs
                       Proofs.SkipListFullActs2 Proofs.SkipListFullMono Proofs.SkipListFullFind.
From LV Require Proofs.MichaelListInv Proofs.MichaelListLin Proofs.MichaelListFullInv.
Import ListNotations.
Local Open Scope Z_scope.

Definition ffpost2 (key : Z) (o : ff_out) (lv : lview2) : Prop :=
  match o with
  | FFound => exists d, seen key true d lv
  | FNotFound => seen key false null lv
  | _ => True
  end.

Lemma posk_incl2 lv lv1 ps :
  incl (vkn (fst lv)) (vkn (fst lv1)) -> incl (xhl (snd lv)) (xhl (snd lv1)) -> posk lv ps -> posk lv1 ps.
Proof.
  intros H1 H2 H L HL. destruct (H L HL) as (A & B & C). split; [|split].
  - destruct A as [A|A]; [now left|right; auto].
  - destruct B as [B|B]; [now left|right; auto].
  - destruct C as [C|C]; [now left|right; auto].
Qed.

Section WithNodes.
Variable nodes : cfg0.
Local Notation SAFEm := (SAFEm nodes).
Local Notation SAFE := (SAFE nodes).

Ltac nxl := intros g0; cbn; repeat split; eauto.
Ltac snx := apply Sm_nx; [nxl|intros ?].

(** ** find_fastpath *)
Lemma T_ff_levels {R} t key fuel : forall n s ga gb pred (k : ff_out -> prog R) kf lv,
  (1 <= n)%nat -> known2 lv pred -> below key pred ->
  (forall o lv1, kle lv lv1 -> ffpost2 key o lv1 -> SAFEm t (k o) lv1) -> (forall lv1, kle lv lv1 -> SAFEm t kf lv1) ->
  SAFEm t (ff_levels fuel n s key ga gb pred k kf) lv.
Proof.
  induction n as [|lvl IH]; intros s ga gb pred k kf lv Hn Kp Hb Hk Hf; [lia|]. cbn [ff_levels].
  apply (T_ga_protect_lvl nodes t key); [exact Kp|exact Hb|exact Hf|]. intros cur lv1 V Lc Kc Dc Habs.
  apply (T_ff_level nodes t key); [exact Kc|exact Lc|exact Habs| |].
  - intros o p lv2 V2 Hp Hpost. assert (V02 : kle lv lv2) by (eapply kle_trans; eauto).
    destruct o; try (apply Hk; [exact V02|exact Hpost]).
    cbn [ffpost] in Hpost. destruct lvl as [|lvl'].
    + cbn [ff_levels]. apply Hk; [exact V02|]. now apply Hpost.
    + assert (Kp2 : known2 lv2 p /\ below key p).
      { destruct (Hp eq_refl) as [->|X]; [split; [eapply known2_kle; [exact V02|exact Kp]|exact Hb]|exact X]. }
      apply IH; [lia|apply Kp2|apply Kp2| |].
      * intros o lv3 V3. apply Hk. eapply kle_trans; eauto.
      * intros lv3 V3. apply Hf. eapply kle_trans; eauto.
  - intros lv2 V2. apply Hf. eapply kle_trans; eauto.
Qed.

Lemma T_find_fastpath {R} t key fuel : forall s ga gb attempt (k : ff_out -> prog R) kf lv,
  (forall o lv1, kle lv lv1 -> o <> FAgain -> ffpost2 key o lv1 -> SAFEm t (k o) lv1) -> (forall lv1, kle lv lv1 -> SAFEm t kf lv1) ->
  SAFEm t (find_fastpath fuel s key ga gb attempt k kf) lv.
Proof.
  induction fuel as [|f IH]; intros s ga gb attempt k kf lv Hk Hf; cbn [find_fastpath]; [apply Hf, kle_refl|].
  apply Sm_ld_hgt. intros z Hz. cbn [vz]. apply (T_ff_levels t key); [lia|now left|now left| |exact Hf].
  intros o lv1 V Hp. destruct o; try (apply Hk; [exact V|discriminate|exact Hp]).
  destruct (Nat.ltb (S attempt) 4); [|apply Hk; [exact V|discriminate|exact Logic.I]]. apply IH.
  - intros o lv2 V2. apply Hk. eapply kle_trans; eauto.
  - intros lv2 V2. apply Hf. eapply kle_trans; eauto.
Qed.

(** ** try_remove_at *)
Lemma T_tr_mark_one {R} t fuel : forall del l cur (k : prog R) kf lv,
  l <> 0%nat -> In del (vkn (fst lv)) -> snd cur = false ->
  (forall lv1, vle2 lv lv1 -> In (del, l) (xfzu (snd lv1)) -> SAFEm t k lv1) -> (forall lv1, vle2 lv lv1 -> SAFEm t kf lv1) ->
  SAFEm t (tr_mark_one fuel del l cur k kf) lv.
Proof.
  induction fuel as [|f IH]; intros del l cur k kf lv Nl Kd Hc Hk Hf; cbn [tr_mark_one]; [apply Hf, vle2_refl|].
  apply Sm_cas_mark_up; [exact Nl|exact Kd|exact Hc|]. intros ok c lv1 V Lc Kc Hfz. cbn [vok vp].
  destruct ok; [apply Hk; [exact V|apply Hfz; now left]|].
  destruct (snd c) eqn:Ec; [apply Hk; [exact V|apply Hfz; now right]|].
  apply IH; auto; [eapply kn_kle; [apply V|exact Kd]| |].
  - intros lv2 V2. apply Hk. eapply vle2_trans; eauto.
  - intros lv2 V2. apply Hf. eapply vle2_trans; eauto.
Qed.

Lemma T_tr_mark_upper {R} t fuel : forall n del (k : prog R) kf lv,
  In del (vkn (fst lv)) -> del <> head ->
  (forall lv1, vle2 lv lv1 -> (forall l, (1 <= l <= n)%nat -> In (del, l) (xfzu (snd lv1))) -> SAFEm t k lv1) ->
  (forall lv1, vle2 lv lv1 -> SAFEm t kf lv1) ->
  SAFEm t (tr_mark_upper fuel del n k kf) lv.
Proof.
  induction n as [|n IH]; intros del k kf lv Kd Nh Hk Hf; cbn [tr_mark_upper]; [apply Hk; [apply vle2_refl|intros; lia]|].
  apply Sm_ldk; [right; exact Kd|]. intros x lv1 V Lx Kx Dx Fx. cbn [vp].
  assert (Hnext : forall lv2, vle2 lv1 lv2 -> In (del, S n) (xfzu (snd lv2)) -> SAFEm t (tr_mark_upper fuel del n k kf) lv2).
  { intros lv2 V2 Hin. assert (V02 : vle2 lv lv2) by (eapply vle2_trans; eauto).
    apply IH; [eapply kn_kle; [apply V02|exact Kd]|exact Nh| |].
    - intros lv3 V3 Hall. apply Hk; [eapply vle2_trans; eauto|]. intros l Hl. destruct (Nat.eq_dec l (S n)) as [->|Nl].
      + eapply fzu_kle; [apply V3|exact Hin].
      + apply Hall. lia.
    - intros lv3 V3. apply Hf. eapply vle2_trans; eauto. }
  destruct (snd x) eqn:Ex.
  - apply Hnext; [apply vle2_refl|]. apply Fx; auto. lia.
  - apply T_tr_mark_one; [discriminate|eapply kn_kle; [apply V|exact Kd]|exact Ex| |].
    + intros lv2 V2 Hin. now apply Hnext.
    + intros lv2 V2. apply Hf. eapply vle2_trans; eauto.
Qed.

Definition kfpost {R} t n (kf : prog R) : Prop := forall lv1, vser (fst lv1) = n -> SAFEm t kf lv1.

Lemma T_tr_unlink {R} t sn fuel : forall n s key del nx ps (k : TL -> prog R) kf lv,
  tlk t sn s -> vser (fst lv) = sn -> (n <= MAXH)%nat -> rem_pre ps del -> posk lv ps -> In (del, nx) (vfz (fst lv)) ->
  open_of (vst (fst lv)) = None ->
  (forall s' lv1, tlk t sn s' -> vser (fst lv1) = sn -> vst (fst lv1) = vst (fst lv) -> xwatch (snd lv1) = xwatch (snd lv) -> SAFEm t (k s') lv1) ->
  kfpost t sn kf ->
  SAFEm t (tr_unlink fuel s key del n ps k kf) lv.
Proof.
  induction n as [|l IH]; intros s key del nx ps k kf lv Ht Hser Hn Hp Hq Hfz Hcl Hk Hf; cbn [tr_unlink]; [apply Sm_retire; now apply Hk|].
  destruct Hp as [Hd Hp].
  assert (Hfind : forall lv1, vle2 lv lv1 -> SAFEm t (find_position fuel s key false null ps (fun s' _ => k s') kf) lv1).
  { intros lv1 V. apply (T_find_position nodes t sn); auto.
    - intros s' o lv2 Hs V2 _ _ _. assert (Hcl1 : open_of (vst (fst lv1)) = None) by (rewrite (vle2_st _ _ V); exact Hcl).
      destruct (sevw_closed _ _ (kle_sevw _ _ V2) Hcl1) as [E1 E2]. apply Hk; [exact Hs| | |].
      + rewrite (kle_ser _ _ V2), (kle_ser _ _ (vle2_kle _ _ V)). exact Hser.
      + rewrite E1. apply (vle2_st _ _ V).
      + rewrite E2. apply (vle2_w _ _ V).
    - intros lv2 V2. apply Hf. rewrite (kle_ser _ _ V2), (kle_ser _ _ (vle2_kle _ _ V)). exact Hser. }
  assert (Hnext : forall lv1, vle2 lv lv1 -> SAFEm t (Act (a_fas_unl del 1) (fun _ => tr_unlink fuel s key del l ps k kf)) lv1).
  { intros lv1 V. snx. apply IH with (nx := nx); auto.
    - rewrite (kle_ser _ _ (vle2_kle _ _ V)). exact Hser.
    - lia.
    - split; auto.
    - eapply posk_kle; [apply V|exact Hq].
    - eapply fz_kle; [apply V|exact Hfz].
    - rewrite (vle2_st _ _ V). exact Hcl.
    - intros s' lv2 Hs E1 E2 E3. apply Hk; auto; [rewrite E2; apply (vle2_st _ _ V)|rewrite E3; apply (vle2_w _ _ V)]. }
  destruct (Hq l ltac:(lia)) as (Kp & _ & _).
  destruct l as [|l'].
  - apply Sm_ld_fz with nx; [exact Hfz|]. intros Ls. cbn [vp fst].
    apply Sm_cas0_unlink; [exact Kp|exact Hfz| |].
    + eapply ltp_trans; [|exact Ls]. apply nbelow_ltp; [apply Hp; lia|exact Hd].
    + intros ok c lv1 V _. cbn [vok]. destruct ok; [now apply Hnext|now apply Hfind].
  - apply Sm_ld. intros xs lv1 V1 Ls Ks Ds. cbn [vp].
    apply Sm_cas_up; [discriminate| |exact Ks|reflexivity|left; now apply hld_hok|].
    + cbn [fst]. eapply ltp_trans; [|exact Ls]. apply nbelow_ltp; [apply Hp; lia|exact Hd].
    + intros ok c lv2 V2 _ _ _ _. cbn [vok]. destruct ok; [apply Hnext|apply Hfind]; (eapply vle2_trans; eauto).
Qed.

Lemma T_tr_lp {R} t sn fuel : forall s key del h hh p ps (k : TL -> bool -> prog R) kf lv,
  tlk t sn s -> vser (fst lv) = sn -> (h <= MAXH)%nat -> rem_pre ps del -> posk lv ps -> In del (vkn (fst lv)) -> key_of del = key ->
  snd p = false -> lnk 0 del (fst p) -> MF.open_read (vst (fst lv)) (SErase key) -> xwatch (snd lv) = Some del ->
  In (del, hh) (xhe (snd lv)) -> (forall l, (1 <= l < hh)%nat -> In (del, l) (xfzu (snd lv))) ->
  (forall s' lv1, tlk t sn s' -> vser (fst lv1) = sn -> vst (fst lv1) = @Linearized SetSpec (SErase key) (RBool false) ->
     xwatch (snd lv1) = None -> SAFEm t (k s' false) lv1) ->
  (forall s' lv1, tlk t sn s' -> vser (fst lv1) = sn -> vst (fst lv1) = @Linearized SetSpec (SErase key) (RBool true) ->
     xwatch (snd lv1) = None -> SAFEm t (k s' true) lv1) ->
  kfpost t sn kf ->
  SAFEm t (tr_lp fuel s key del h p ps k kf) lv.
Proof.
  induction fuel as [|f IH]; intros s key del h hh p ps k kf lv Ht Hser Hh Hp Hq Kd Hkey Hm Hl Hst Hw Hhe Hfz Hk0 Hk1 Hf; cbn [tr_lp]; [now apply Hf|].
  apply Sm_cas0_mark with (key := key) (h := hh); auto.
  - intros c lv1 Lc Ec V Kc. cbn [vok vp]. rewrite Ec.
    apply IH with (hh := hh); auto.
    + rewrite (kle_ser _ _ (vle2_kle _ _ V)). exact Hser.
    + eapply posk_kle; [apply V|exact Hq].
    + eapply kn_kle; [apply V|exact Kd].
    + rewrite (vle2_st _ _ V). exact Hst.
    + rewrite (vle2_w _ _ V). exact Hw.
    + eapply he_kle; [apply V|exact Hhe].
    + intros l Hl'. eapply fzu_kle; [apply V|now apply Hfz].
  - intros c lv1 Ec V E1 E2. cbn [vok vp]. rewrite Ec. apply Hk0; auto. rewrite (kle_ser _ _ V). exact Hser.
  - cbn [vok]. apply (T_tr_unlink t sn (S f) h s key del (fst p) ps (fun s' => k s' true) kf _ Ht);
      [exact Hser|exact Hh|exact Hp| | |reflexivity| |exact Hf].
    + eapply posk_incl2; [| |exact Hq]; cbn; apply incl_refl.
    + cbn. now left.
    + intros s' lv1 Hs E1 E2 E3. apply Hk1; auto.
Qed.

Lemma T_try_remove_at {R} t sn fuel s del h ps (k : TL -> bool -> prog R) kf lv :
  tlk t sn s -> vser (fst lv) = sn -> (h <= MAXH)%nat -> rem_pre ps del -> posk lv ps -> In del (vkn (fst lv)) ->
  MF.open_read (vst (fst lv)) (SErase (key_of del)) -> xwatch (snd lv) = Some del -> In (del, h) (xhe (snd lv)) ->
  (forall s' lv1, tlk t sn s' -> vser (fst lv1) = sn -> vst (fst lv1) = @Linearized SetSpec (SErase (key_of del)) (RBool false) ->
     xwatch (snd lv1) = None -> SAFEm t (k s' false) lv1) ->
  (forall s' lv1, tlk t sn s' -> vser (fst lv1) = sn -> vst (fst lv1) = @Linearized SetSpec (SErase (key_of del)) (RBool true) ->
     xwatch (snd lv1) = None -> SAFEm t (k s' true) lv1) ->
  kfpost t sn kf ->
  SAFEm t (try_remove_at fuel s del h ps k kf) lv.
Proof.
  intros Ht Hser Hh Hp Hq Kd Hst Hw Hhe Hk0 Hk1 Hf. unfold try_remove_at.
  assert (Nh : del <> head) by (destruct Hp as [X _]; unfold isnode, head in *; lia).
  apply T_tr_mark_upper; [exact Kd|exact Nh| |].
  - intros lv1 V Hall. apply Sm_ldk; [right; eapply kn_kle; [apply V|exact Kd]|]. intros x lv2 V2 Lx Kx _ _. cbn [vp].
    assert (V02 : vle2 lv lv2) by (eapply vle2_trans; eauto).
    apply (T_tr_lp t sn) with (hh := h); auto.
    + rewrite (kle_ser _ _ (vle2_kle _ _ V02)). exact Hser.
    + eapply posk_kle; [apply V02|exact Hq].
    + eapply kn_kle; [apply V02|exact Kd].
    + rewrite (vle2_st _ _ V02). exact Hst.
    + rewrite (vle2_w _ _ V02). exact Hw.
    + eapply he_kle; [apply V02|exact Hhe].
    + intros l Hl. eapply fzu_kle; [apply V2|]. apply Hall. lia.
  - intros lv1 V. apply Hf. rewrite (kle_ser _ _ (vle2_kle _ _ V)). exact Hser.
Qed.

(** ** insert_at_position *)
Lemma T_ia_clear_upper {R} t new v : forall h l (k : prog R) lv,
  (1 <= l)%nat -> vown (fst lv) = Some (new, v) -> SAFEm t k lv -> SAFEm t (ia_clear_upper new l h k) lv.
Proof.
  induction h as [|h IH]; intros l k lv Hl Ho Hk; cbn [ia_clear_upper]; [exact Hk|].
  destruct (Nat.ltb l (l + S h)); [|exact Hk].
  apply Sm_st_own with (v := v); [exact Ho|now left|now left|now left|]. intros _.
  destruct (Nat.eqb_spec l 0) as [E|_]; [lia|]. apply IH; auto.
Qed.

Lemma T_ia_level {R} t sn fuel : forall s key new h l p ps (knext : TL -> pos -> prog R) kdone kf lv,
  tlk t sn s -> (1 <= l < h)%nat -> (h <= MAXH)%nat -> ins_pre key new -> In new (vkn (fst lv)) -> xoh (snd lv) = Some (new, h) ->
  snd p = false -> pos_full key false ps -> posk lv ps ->
  (forall s' ps' lv1, tlk t sn s' -> kle lv lv1 -> pos_full key false ps' -> posk lv1 ps' -> SAFEm t (knext s' ps') lv1) ->
  (forall s' lv1, tlk t sn s' -> kle lv lv1 -> SAFEm t (kdone s') lv1) -> (forall lv1, kle lv lv1 -> SAFEm t kf lv1) ->
  SAFEm t (ia_level fuel s key new h l p ps knext kdone kf) lv.
Proof.
  induction fuel as [|f IH]; intros s key new h l p ps knext kdone kf lv Ht Hl Hh Hn Kn Hoh Hpm Hp Hq Hk Hd Hf; cbn [ia_level]; [apply Hf, kle_refl|].
  destruct l as [|l']; [lia|]. destruct (Hp (S l') ltac:(unfold MAXH in *; lia)) as [P1 P2]. destruct (Hq (S l') ltac:(unfold MAXH in *; lia)) as (Q1 & Q2 & Q3).
  assert (Hgive : forall lv1, vle2 lv lv1 ->
            SAFEm t (Act (a_fas_unl new (Z.of_nat (h - S l'))) (fun _ => find_position (S f) s key false null ps (fun s' _ => kdone s') kf)) lv1).
  { intros lv1 V. snx. apply (T_find_position nodes t sn); auto.
    - intros s' o lv2 Hs V2 _ _ _. apply Hd; [exact Hs|]. eapply kle_trans; [apply V|exact V2].
    - intros lv2 V2. apply Hf. eapply kle_trans; [apply V|exact V2]. }
  apply Sm_cas_up; [discriminate|cbn [fst]; eapply new_succ; eauto|exact Q2|exact Hpm|left; now apply hld_hok|].
  intros ok c lv1 V1 Lc _ Kc Dc. cbn [vok].
  destruct ok; cbn [negb]; [|now apply Hgive].
  apply Sm_cas_up; [discriminate|cbn [fst]; eapply below_new; eauto|right; eapply kn_kle; [apply V1|exact Kn]|reflexivity| |].
  { left. right. right. right. exists h. split; [rewrite (kle_oh _ _ (vle2_kle _ _ V1)); exact Hoh|lia]. }
  intros ok2 c2 lv2 V2 _ _ _ _. cbn [vok].
  assert (V02 : vle2 lv lv2) by (eapply vle2_trans; eauto).
  destruct ok2; [apply Hk; auto; [apply V02|eapply posk_kle; [apply V02|exact Hq]]|].
  apply (T_find_position nodes t sn); auto.
  - intros s' o lv3 Hs V3 [Ho _] Hkn _. assert (V03 : kle lv lv3) by (eapply kle_trans; [apply V02|exact V3]). destruct o as [ps'|ps'|].
    + cbn [fp_post okn] in *. destruct Ho as [(X & _)|(Ho & _)]; [discriminate|]. destruct Hkn as (_ & Hkn).
      apply IH; auto.
      * eapply kn_kle; eauto.
      * rewrite (kle_oh _ _ V03). exact Hoh.
      * now apply (posk_full false).
      * intros s'' ps'' lv4 Hs' V4. apply Hk; auto. eapply kle_trans; eauto.
      * intros s'' lv4 Hs' V4. apply Hd; auto. eapply kle_trans; eauto.
      * intros lv4 V4. apply Hf. eapply kle_trans; eauto.
    + snx. apply (T_find_position nodes t sn); auto.
      * intros s'' o' lv4 Hs' V4 _ _ _. apply Hd; auto. eapply kle_trans; eauto.
      * intros lv4 V4. apply Hf. eapply kle_trans; eauto.
    + snx. apply (T_find_position nodes t sn); auto.
      * intros s'' o' lv4 Hs' V4 _ _ _. apply Hd; auto. eapply kle_trans; eauto.
      * intros lv4 V4. apply Hf. eapply kle_trans; eauto.
  - intros lv3 V3. apply Hf. eapply kle_trans; [apply V02|exact V3].
Qed.

Lemma T_ia_levels {R} t sn fuel : forall n s key new h l ps (kdone : TL -> prog R) kf lv,
  tlk t sn s -> (1 <= l)%nat -> (l + n <= h)%nat -> (h <= MAXH)%nat -> ins_pre key new -> In new (vkn (fst lv)) -> xoh (snd lv) = Some (new, h) ->
  pos_full key false ps -> posk lv ps ->
  (forall s' lv1, tlk t sn s' -> kle lv lv1 -> SAFEm t (kdone s') lv1) -> (forall lv1, kle lv lv1 -> SAFEm t kf lv1) ->
  SAFEm t (ia_levels fuel n s key new h l ps kdone kf) lv.
Proof.
  induction n as [|n IH]; intros s key new h l ps kdone kf lv Ht H1 H2 Hh Hn Kn Hoh Hp Hq Hd Hf; cbn [ia_levels]; [apply Hd; [exact Ht|apply kle_refl]|].
  apply (T_ia_level t sn); auto; [lia|].
  intros s' ps' lv1 Hs V Hp' Hq'. apply IH; auto; [lia|eapply kn_kle; eauto|rewrite (kle_oh _ _ V); exact Hoh| |].
  - intros s'' lv2 Hs' V2. apply Hd; auto. eapply kle_trans; eauto.
  - intros lv2 V2. apply Hf. eapply kle_trans; eauto.
Qed.

Lemma T_insert_at {R} t sn fuel s key new h ps (k : TL -> bool -> prog R) kf v lv :
  tlk t sn s -> vser (fst lv) = sn -> (1 <= h <= MAXH)%nat -> ins_pre key new -> pos_full key true ps -> posk lv ps ->
  vown (fst lv) = Some (new, v) -> MF.open_read (vst (fst lv)) (SInsert key) -> xwatch (snd lv) = None -> xoh (snd lv) = Some (new, h) ->
  (forall s' lv1, tlk t sn s' -> vser (fst lv1) = sn -> MF.open_read (vst (fst lv1)) (SInsert key) -> xwatch (snd lv1) = None ->
      (exists v', vown (fst lv1) = Some (new, v')) -> xoh (snd lv1) = Some (new, h) -> SAFEm t (k s' false) lv1) ->
  (forall s' lv1, tlk t sn s' -> vser (fst lv1) = sn -> vst (fst lv1) = @Linearized SetSpec (SInsert key) (RBool true) ->
      xwatch (snd lv1) = None -> SAFEm t (k s' true) lv1) ->
  kfpost t sn kf ->
  SAFEm t (insert_at fuel s key new h ps k kf) lv.
Proof.
  intros Ht Hser Hh Hn Hp Hq Ho Hst Hw Hoh Hk0 Hk1 Hf. unfold insert_at. apply T_ia_clear_upper with (v := v); [lia|exact Ho|].
  destruct (Hp 0%nat ltac:(unfold MAXH; lia)) as [P1 P2]. destruct (Hq 0%nat ltac:(unfold MAXH; lia)) as (Q1 & Q2 & Q3).
  apply Sm_st_own with (v := v); [exact Ho|cbn [fst]; eapply new_succ0; eauto|exact Q2|right; now left|]. intros _. cbn [Nat.eqb].
  set (lv1 := (set_own (fst lv) (Some (new, (psucc ps 0%nat, false))), snd lv)).
  apply Sm_cas0_link with (key := key); auto; [apply Hn| |].
  - intros cur lv2 V. cbn [vok negb].
    apply Hk0; [exact Ht|rewrite (kle_ser _ _ (vle2_kle _ _ V)); exact Hser|rewrite (vle2_st _ _ V); exact Hst|rewrite (vle2_w _ _ V); exact Hw| |].
    + rewrite (kle_own _ _ (vle2_kle _ _ V)). eexists. reflexivity.
    + rewrite (kle_oh _ _ (vle2_kle _ _ V)). exact Hoh.
  - cbn [vok negb]. apply (T_ia_levels t sn); [exact Ht|lia|lia|lia|exact Hn|now left|exact Hoh|now apply pos_full_weaken| | |].
    + eapply posk_incl2; [| |exact Hq]; cbn; [apply incl_tl, incl_refl|apply incl_refl].
    + intros s' lv2 Hs V. destruct (sevw_closed _ _ (kle_sevw _ _ V) eq_refl) as [E1 E2].
      apply Hk1; [exact Hs|rewrite (kle_ser _ _ V); exact Hser|rewrite E1; reflexivity|rewrite E2; exact Hw].
    + intros lv2 V. apply Hf. rewrite (kle_ser _ _ V). exact Hser.
Qed.

Lemma seen_use key b d lv o :
  seen key b d lv -> MF.open_read (vst (fst lv)) o -> MF.op_key o = key -> vst (fst lv) = ostat o b /\ xwatch (snd lv) = wat o b d.
Proof. intros H Ho Hk. now apply H. Qed.

Lemma T_insert_loop {R} t sn fuel : forall s key new h (tower : bool) ps (k : TL -> bool -> prog R) kf v lv,
  tlk t sn s -> vser (fst lv) = sn -> (1 <= h <= MAXH)%nat -> ins_pre key new ->
  vown (fst lv) = Some (new, v) -> MF.open_read (vst (fst lv)) (SInsert key) -> xwatch (snd lv) = None ->
  xoh (snd lv) = Some (new, if tower then h else 1%nat) ->
  (forall s' lv1, tlk t sn s' -> vser (fst lv1) = sn -> vst (fst lv1) = @Linearized SetSpec (SInsert key) (RBool false) ->
      xwatch (snd lv1) = None -> SAFEm t (k s' false) lv1) ->
  (forall s' lv1, tlk t sn s' -> vser (fst lv1) = sn -> vst (fst lv1) = @Linearized SetSpec (SInsert key) (RBool true) ->
      xwatch (snd lv1) = None -> SAFEm t (k s' true) lv1) ->
  kfpost t sn kf ->
  SAFEm t (insert_loop fuel s key new h tower ps k kf) lv.
Proof.
  induction fuel as [|f IH]; intros s key new h tower ps k kf v lv Ht Hser Hh Hn Ho Hst Hw Hoh Hk0 Hk1 Hf; cbn [insert_loop]; [now apply Hf|].
  apply (T_find_position nodes t sn); auto.
  - intros s1 o lv1 Hs V [Hpo Hnn] Hkn Hsp.
    assert (Hser1 : vser (fst lv1) = sn) by (rewrite (kle_ser _ _ V); exact Hser).
    assert (Hst1 : MF.open_read (vst (fst lv1)) (SInsert key)) by (eapply kle_open; eauto).
    destruct o as [ps1|ps1|]; cbn [stpost] in Hsp; [| |contradiction].
    + specialize (Hnn eq_refl). destruct (Nat.eqb_spec (pcur ps1) null) as [X|_]; [contradiction|].
      destruct (seen_use _ _ _ _ _ Hsp Hst1 eq_refl) as [E1 E2]. apply Hk0; auto.
    + destruct (seen_use _ _ _ _ _ Hsp Hst1 eq_refl) as [E1 E2]. cbn [wat] in E2.
      cbn [fp_post okn] in *.
      assert (Ho1 : vown (fst lv1) = Some (new, v)) by (rewrite (kle_own _ _ V); exact Ho).
      assert (Hins : forall lv2, vser (fst lv2) = sn -> posk lv2 ps1 -> vown (fst lv2) = Some (new, v) ->
                MF.open_read (vst (fst lv2)) (SInsert key) -> xwatch (snd lv2) = None -> xoh (snd lv2) = Some (new, h) ->
                SAFEm t (insert_at (S f) s1 key new h ps1
                  (fun s2 ok => if ok then Act a_ld_hgt (fun _ => Act a_faa_cnt (fun _ => k s2 true))
                                else insert_loop f s2 key new h true ps1 k kf) kf) lv2).
      { intros lv2 Hser2 Hq2 Ho2 Hst2 Hw2 Hoh2. apply (T_insert_at t sn) with (v := v); auto.
        - intros s2 lv3 Hs2 Hser3 Hst3 Hw3 (v' & Ho3) Hoh3. now apply IH with (v := v').
        - intros s2 lv3 Hs2 Hser3 Hst3 Hw3. snx. snx. now apply Hk1. }
      assert (Hoh1 : xoh (snd lv1) = Some (new, if tower then h else 1%nat)) by (rewrite (kle_oh _ _ V); exact Hoh).
      destruct tower; [now apply Hins|].
      destruct (Nat.ltb_spec 1 h) as [Lh|Lh].
      * apply Sm_st_unl with (v := v); [exact Ho1|lia|]. intros _.
        apply Hins; auto.
      * apply Hins; auto. rewrite Hoh1. f_equal. f_equal. lia.
  - intros lv1 V. apply Hf. rewrite (kle_ser _ _ V). exact Hser.
Qed.

(** ** the operations *)
Definition between {R} t (cont : TL -> prog R) : Prop :=
  forall s' lv1, tlk t (vser (fst lv1)) s' -> vst (fst lv1) = @Idle SetSpec -> xwatch (snd lv1) = None -> SAFEm t (cont s') lv1.

Lemma T_finish {R} t sn s o ra b (cont : TL -> prog R) lv :
  cok (fst (op_code o)) = true ->
  tlk t sn s -> vser (fst lv) = sn -> vst (fst lv) = @Linearized SetSpec o (RBool (ra =? 1)) -> xwatch (snd lv) = None -> between t cont ->
  SAFEm t (finish s ra b cont) lv.
Proof.
  intros Hco Ht Hser Hst Hw Hc. unfold finish. eapply Sm_emit_res; eauto. apply Hc; [cbn; rewrite Hser; exact Ht|reflexivity|reflexivity].
Qed.

Lemma T_out_of_fuel {R} t sn s (cont : TL -> prog R) lv :
  tlk t sn s -> vser (fst lv) = sn -> between t cont -> SAFEm t (out_of_fuel s cont) lv.
Proof.
  intros Ht Hser Hc lv' Hle. apply S_out_of_fuel.
  apply (Hc s (set_st2 lv' (@Idle SetSpec) None)); [cbn; rewrite (kle_ser _ _ (vle2_kle _ _ Hle)), Hser; exact Ht|reflexivity|reflexivity|apply vle2_refl].
Qed.

End WithNodes.
