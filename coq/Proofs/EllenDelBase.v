(** * EllenBinTree<HP> with erase: pure lemmas about the leaf-oriented BST [EllenProofs.T]

    - every node of a [T]-tree has exactly one parent ([unique_parent]);
    - the search path of a key is a chain ([path_linear]), it ends in exactly one leaf ([leaf_exists], [leaf_unique]),
      and it finds every key that is present ([T_search]);
    - [mem g k]: a leaf with key [k] is reachable from m_Root;
    - the child CAS of help_insert adds exactly the new key ([ins_mem]), the child CAS of help_marked (the splice
      gp.child: p -> sibling) removes exactly the key of the deleted leaf ([sp_mem]); search paths of the nodes that
      stay in the tree survive the splice ([sp_path]), the spliced-out parent becomes unreachable ([sp_unreach]). *)
From Coq Require Import ZArith List String Bool Lia PeanoNat.
From LV Require Import Base.Conc Base.Events Model.Ellen Proofs.EllenProofs.
Import ListNotations.
Local Open Scope Z_scope.

Lemma T_insub g n lo hi x : T g n lo hi -> insub g n x -> exists l h, lo <= l /\ h <= hi /\ T g x l h.
Proof.
  intros HT Hx. induction Hx as [|m d Hm IH Hi].
  - exists lo, hi. repeat split; auto; lia.
  - destruct IH as (l & h & A & B & C). destruct (T_inv_int _ _ _ _ C Hi) as (K & L & R).
    destruct d; cbn [child]; [exists (node_key g m), h|exists l, (node_key g m)]; repeat split; auto; lia.
Qed.

Lemma insub_last g n x : insub g n x -> x = n \/ exists m d, insub g n m /\ internal g m /\ x = child g m d.
Proof. destruct 1 as [|m d Hm Hi]; [now left|right; eauto]. Qed.

Lemma path_last g k n x : path g k n x -> x = n \/ exists m, path g k n m /\ internal g m /\ x = child g m (dirk g k m).
Proof. destruct 1 as [|m Hm Hi]; [now left|right; eauto]. Qed.

Lemma path_trans g k a b c : path g k a b -> path g k b c -> path g k a c.
Proof. intros H1 H2. induction H2; [exact H1|now constructor]. Qed.

Lemma path_linear g k n x y : path g k n x -> path g k n y -> path g k x y \/ path g k y x.
Proof.
  intros Hx Hy. induction Hx as [|m Hm IH Hi]; [now left|].
  destruct IH as [IH|IH].
  - destruct (path_head _ _ _ _ IH) as [<-|(_ & Hp)]; [right; constructor; [constructor|exact Hi]|now left].
  - right. now constructor.
Qed.

Lemma leaf_unique g k n l l' : path g k n l -> path g k n l' -> ~ internal g l -> ~ internal g l' -> l = l'.
Proof.
  intros H1 H2 N1 N2. destruct (path_linear _ _ _ _ _ H1 H2) as [H|H]; destruct (path_head _ _ _ _ H) as [E|(X & _)]; congruence.
Qed.

Lemma leaf_exists g k : forall n lo hi, T g n lo hi -> exists l, path g k n l /\ ~ internal g l.
Proof.
  induction 1 as [n lo hi Hl Hk|n lo hi Hi Hk H1 IH1 H2 IH2].
  - exists n. split; [constructor|exact Hl].
  - assert (Hs : path g k n (child g n (dirk g k n))) by (constructor; [constructor|exact Hi]).
    destruct (dirk g k n); cbn [child] in Hs.
    + destruct IH2 as (l & P & N). exists l. split; [eapply path_trans; eauto|exact N].
    + destruct IH1 as (l & P & N). exists l. split; [eapply path_trans; eauto|exact N].
Qed.

(** the search finds every key that is present *)
Lemma T_search g k : k < 1000 -> forall n lo hi, T g n lo hi -> forall l, insub g n l -> ~ internal g l -> node_key g l = k -> path g k n l.
Proof.
  intros Hk. induction 1 as [n lo hi Hl Hkn|n lo hi Hi Hkn H1 IH1 H2 IH2]; intros l Hin Nl El.
  - destruct (insub_inv _ _ _ Hin) as [->|(X & _)]; [constructor|contradiction].
  - destruct (insub_inv _ _ _ Hin) as [->|(_ & Hs)]; [contradiction|].
    pose proof (dirk_spec g k n Hi Hk) as Hd.
    assert (Hs1 : path g k n (child g n (dirk g k n))) by (constructor; [constructor|exact Hi]).
    destruct Hs as [Hs|Hs].
    + pose proof (T_keys _ _ _ _ H1 _ Hs) as Kl. destruct (dirk g k n) eqn:Ed.
      * assert (node_key g n <= k) by (now apply Hd). lia.
      * cbn [child] in Hs1. eapply path_trans; [exact Hs1|]. now apply IH1.
    + pose proof (T_keys _ _ _ _ H2 _ Hs) as Kl. destruct (dirk g k n) eqn:Ed.
      * cbn [child] in Hs1. eapply path_trans; [exact Hs1|]. now apply IH2.
      * assert (~ node_key g n <= k) by (intros X; apply Hd in X; discriminate). lia.
Qed.

(** no node is an ancestor of its own parent *)
Lemma child_below_cycle g p l h z b : T g p l h -> internal g p -> insub g p z -> internal g z -> child g z b = p -> False.
Proof.
  intros HT Hi Hz Hiz Hc. destruct (insub_inv _ _ _ Hz) as [->|(_ & [Hs|Hs])].
  - apply (no_cycle g p b l h HT Hi). rewrite Hc. constructor.
  - apply (no_cycle g p false l h HT Hi). cbn [child]. assert (X : insub g (lft g p) (child g z b)) by (now constructor). now rewrite Hc in X.
  - apply (no_cycle g p true l h HT Hi). cbn [child]. assert (X : insub g (rgt g p) (child g z b)) by (now constructor). now rewrite Hc in X.
Qed.

Lemma unique_parent g : forall n lo hi, T g n lo hi -> forall x y a b c,
  insub g n x -> insub g n y -> internal g x -> internal g y -> child g x a = c -> child g y b = c -> x = y /\ a = b.
Proof.
  induction 1 as [n lo hi Hl Hk|n lo hi Hi Hk H1 IH1 H2 IH2]; intros x y a b c Hx Hy Ix Iy Cx Cy.
  - destruct (insub_inv _ _ _ Hx) as [->|(X & _)]; contradiction.
  - assert (KL : forall z e, insub g (lft g n) z -> internal g z -> node_key g (child g z e) < node_key g n).
    { intros z e Hz Iz. assert (Hc : insub g (lft g n) (child g z e)) by (now constructor). pose proof (T_keys _ _ _ _ H1 _ Hc). lia. }
    assert (KR : forall z e, insub g (rgt g n) z -> internal g z -> node_key g n <= node_key g (child g z e)).
    { intros z e Hz Iz. assert (Hc : insub g (rgt g n) (child g z e)) by (now constructor). pose proof (T_keys _ _ _ _ H2 _ Hc). lia. }
    pose proof (T_key _ _ _ _ H1) as K1. pose proof (T_key _ _ _ _ H2) as K2.
    assert (Top : forall z e e', insub g n z -> z <> n -> internal g z -> child g z e = child g n e' -> False).
    { intros z e e' Hz Nz Iz E. destruct (insub_inv _ _ _ Hz) as [->|(_ & [Hs|Hs])]; [congruence| |].
      - pose proof (KL z e Hs Iz) as K. rewrite E in K. destruct e'; cbn [child] in *; [lia|].
        destruct (Bool.bool_dec (is_internal_f (flags g (lft g n))) true) as [Il|Nl].
        + eapply (child_below_cycle g (lft g n)); eauto.
        + destruct (insub_inv _ _ _ Hs) as [->|(X & _)]; contradiction.
      - pose proof (KR z e Hs Iz) as K. rewrite E in K. destruct e'; cbn [child] in *; [|lia].
        destruct (Bool.bool_dec (is_internal_f (flags g (rgt g n))) true) as [Il|Nl].
        + eapply (child_below_cycle g (rgt g n)); eauto.
        + destruct (insub_inv _ _ _ Hs) as [->|(X & _)]; contradiction. }
    destruct (Nat.eq_dec x n) as [->|Nx]; [destruct (Nat.eq_dec y n) as [->|Ny]|destruct (Nat.eq_dec y n) as [->|Ny]].
    + split; [reflexivity|]. destruct a, b; cbn [child] in *; try reflexivity; exfalso; assert (E : rgt g n = lft g n) by congruence; rewrite E in K2; lia.
    + exfalso. apply (Top y b a Hy Ny Iy). congruence.
    + exfalso. apply (Top x a b Hx Nx Ix). congruence.
    + destruct (insub_inv _ _ _ Hx) as [->|(_ & Sx)]; [congruence|]. destruct (insub_inv _ _ _ Hy) as [->|(_ & Sy)]; [congruence|].
      destruct Sx as [Sx|Sx], Sy as [Sy|Sy].
      * eapply IH1; eauto.
      * pose proof (KL x a Sx Ix). pose proof (KR y b Sy Iy). rewrite Cx in *. rewrite Cy in *. lia.
      * pose proof (KR x a Sx Ix). pose proof (KL y b Sy Iy). rewrite Cx in *. rewrite Cy in *. lia.
      * eapply IH2; eauto.
Qed.

(** ** membership *)
Definition mem (g : G) (k : Z) : Prop :=
  0 <= k < 1000 /\ exists l, insub g root l /\ ~ internal g l /\ node_key g l = k.

Lemma insub_frame g g' n x : insub g n x -> same_on g g' (insub g n) -> insub g' n x.
Proof.
  induction 1 as [|m d Hm IH Hi]; intros Hs; [constructor|].
  destruct (Hs m Hm) as (E1 & _ & E3 & E4).
  assert (Ec : child g' m d = child g m d) by (unfold child; now rewrite E3, E4).
  rewrite <- Ec. constructor; [now apply IH|unfold internal in *; now rewrite E1].
Qed.

Lemma insub_frame_rev g g' n x : insub g' n x -> same_on g g' (insub g n) -> insub g n x.
Proof.
  induction 1 as [|m d Hm IH Hi]; intros Hs; [constructor|]. specialize (IH Hs).
  destruct (Hs m IH) as (E1 & _ & E3 & E4).
  assert (Ec : child g' m d = child g m d) by (unfold child; now rewrite E3, E4).
  rewrite Ec. constructor; [exact IH|unfold internal in *; now rewrite <- E1].
Qed.

Lemma mem_frame g g' k : same_on g g' (insub g root) -> (mem g' k <-> mem g k).
Proof.
  intros Hs. unfold mem. split; intros (Hk & l & H1 & H2 & H3); (split; [exact Hk|]); exists l.
  - pose proof (insub_frame_rev _ _ _ _ H1 Hs) as Hl. destruct (Hs l Hl) as (E1 & E2 & _).
    split; [exact Hl|]. split; [unfold internal in *; now rewrite <- E1|]. now rewrite <- (node_key_same g g' l E1 E2).
  - destruct (Hs l H1) as (E1 & E2 & _). split; [eapply insub_frame; eauto|].
    split; [unfold internal in *; now rewrite E1|]. now rewrite (node_key_same g g' l E1 E2).
Qed.

(** ** the child CAS of help_insert *)
Section InsertMem.
Variables (g : G) (k : Z) (p ni : ptr).
Let d := dirk g k p.
Let l0 := child g p d.
Let g' := set_child g p d ni.
Hypothesis Hk0 : 0 <= k < 1000.
Hypothesis HT : T g root (-1) 1002.
Hypothesis Hpath : path g k root p.
Hypothesis Hip : internal g p.
Hypothesis Hl0 : ~ internal g l0.
Hypothesis Hini : internal g ni.
Hypothesis Hnr : ~ insub g root ni.
Hypothesis Hla : ~ internal g (lft g ni).
Hypothesis Hlb : ~ internal g (rgt g ni).
Hypothesis Hab : (lft g ni = l0 /\ node_key g (rgt g ni) = k) \/ (rgt g ni = l0 /\ node_key g (lft g ni) = k).
Hypothesis Hord : node_key g (lft g ni) < node_key g ni <= node_key g (rgt g ni).

Let Ef : flags g' = flags g. Proof. unfold g', set_child; destruct d; reflexivity. Qed.
Let Ek : ikey g' = ikey g. Proof. unfold g', set_child; destruct d; reflexivity. Qed.
Let Enk x : node_key g' x = node_key g x. Proof. unfold node_key; now rewrite Ef, Ek. Qed.
Let Ei x : internal g' x <-> internal g x. Proof. unfold internal; now rewrite Ef. Qed.
Let Eo x dd : (x <> p \/ dd <> d) -> child g' x dd = child g x dd.
Proof.
  intros H. unfold g', set_child, child. destruct d, dd; cbn; unfold upd1; try reflexivity;
    destruct (Nat.eqb_spec x p); try reflexivity; destruct H; congruence.
Qed.
Let Es : child g' p d = ni.
Proof. unfold g', set_child, child; destruct d; cbn; unfold upd1; now rewrite Nat.eqb_refl. Qed.
Let Hnp : ni <> p. Proof. intros E. apply Hnr. rewrite E. eapply path_insub; eauto. Qed.

Lemma ins_reach_new x : insub g' root x -> insub g root x \/ x = ni \/ x = lft g ni \/ x = rgt g ni.
Proof.
  induction 1 as [|m dd Hm IH Him]; [left; constructor|]. apply Ei in Him.
  destruct IH as [IH|[->|[->| ->]]]; try contradiction.
  - destruct (Nat.eq_dec m p) as [->|Nm]; [destruct (Bool.bool_dec dd d) as [->|Nd]|].
    + rewrite Es. auto.
    + rewrite Eo by (right; exact Nd). left. now constructor.
    + rewrite Eo by (left; exact Nm). left. now constructor.
  - rewrite Eo by (left; exact Hnp). destruct dd; cbn [child]; auto.
Qed.

Lemma ins_path_p : path g' k root p.
Proof. apply path_insert; auto. Qed.

Lemma ins_reach_ni : insub g' root ni.
Proof. rewrite <- Es. constructor; [eapply path_insub; apply ins_path_p|now apply Ei]. Qed.

Lemma ins_reach_ni_child dd : insub g' root (child g ni dd).
Proof. rewrite <- (Eo ni dd) by (left; exact Hnp). constructor; [apply ins_reach_ni|now apply Ei]. Qed.

Lemma ins_reach_old x : insub g root x -> insub g' root x.
Proof.
  induction 1 as [|m dd Hm IH Him]; [constructor|].
  destruct (Nat.eq_dec m p) as [->|Nm]; [destruct (Bool.bool_dec dd d) as [->|Nd]|].
  - fold l0. destruct Hab as [(E & _)|(E & _)]; rewrite <- E; [apply (ins_reach_ni_child false)|apply (ins_reach_ni_child true)].
  - rewrite <- (Eo p dd) by (right; exact Nd). constructor; [exact IH|now apply Ei].
  - rewrite <- (Eo m dd) by (left; exact Nm). constructor; [exact IH|now apply Ei].
Qed.

Lemma ins_reach_l0 : insub g root l0.
Proof. unfold l0. constructor; [eapply path_insub; exact Hpath|exact Hip]. Qed.

Lemma ins_notmem : ~ mem g k.
Proof.
  intros (_ & l & Hr & Hl & Hkey).
  assert (P1 : path g k root l) by (eapply T_search; eauto; lia).
  assert (P2 : path g k root l0) by (unfold l0, d; constructor; [exact Hpath|exact Hip]).
  assert (E : l = l0) by (eapply leaf_unique; eauto). subst l.
  destruct Hab as [(E1 & E2)|(E1 & E2)]; rewrite E1 in *; lia.
Qed.

Lemma ins_mem k' : mem g' k' <-> mem g k' \/ k' = k.
Proof.
  unfold mem. split.
  - intros (Hk' & l & Hr & Hl & Hkey). rewrite Enk in Hkey. rewrite Ei in Hl.
    destruct (ins_reach_new l Hr) as [H|[->|[->| ->]]].
    + left. split; [exact Hk'|]. exists l. auto.
    + contradiction.
    + destruct Hab as [(E1 & E2)|(E1 & E2)]; [left; split; [exact Hk'|]; exists l0; rewrite <- E1; split; [rewrite E1; apply ins_reach_l0|auto]|right; congruence].
    + destruct Hab as [(E1 & E2)|(E1 & E2)]; [right; congruence|left; split; [exact Hk'|]; exists l0; rewrite <- E1; split; [rewrite E1; apply ins_reach_l0|auto]].
  - intros [(Hk' & l & Hr & Hl & Hkey)| ->].
    + split; [exact Hk'|]. exists l. split; [now apply ins_reach_old|]. split; [now rewrite Ei|now rewrite Enk].
    + split; [exact Hk0|]. destruct Hab as [(E1 & E2)|(E1 & E2)].
      * exists (rgt g ni). split; [apply (ins_reach_ni_child true)|]. split; [now rewrite Ei|now rewrite Enk].
      * exists (lft g ni). split; [apply (ins_reach_ni_child false)|]. split; [now rewrite Ei|now rewrite Enk].
Qed.

End InsertMem.

(** ** the child CAS of help_marked: gp.child[d]: p -> the other child of p; the leaf [lf = p.child[rl]] is deleted *)
Section Splice.
Variables (g : G) (gp p : ptr) (d rl : bool).
Let lf := child g p rl.
Let sib := child g p (negb rl).
Let g' := set_child g gp d sib.
Hypothesis HT : T g root (-1) 1002.
Hypothesis Hgp : insub g root gp.
Hypothesis Higp : internal g gp.
Hypothesis Hc : child g gp d = p.
Hypothesis Hip : internal g p.
Hypothesis Hlf : ~ internal g lf.
Hypothesis Hnoroot : forall n dd, insub g root n -> internal g n -> child g n dd <> root.

Let Ef : flags g' = flags g. Proof. unfold g', set_child; destruct d; reflexivity. Qed.
Let Ek : ikey g' = ikey g. Proof. unfold g', set_child; destruct d; reflexivity. Qed.
Let Enk x : node_key g' x = node_key g x. Proof. unfold node_key; now rewrite Ef, Ek. Qed.
Let Ei x : internal g' x <-> internal g x. Proof. unfold internal; now rewrite Ef. Qed.
Let Edk k x : dirk g' k x = dirk g k x. Proof. unfold dirk; now rewrite Ef, Ek. Qed.
Let Eo x dd : (x <> gp \/ dd <> d) -> child g' x dd = child g x dd.
Proof.
  intros H. unfold g', set_child, child. destruct d, dd; cbn; unfold upd1; try reflexivity;
    destruct (Nat.eqb_spec x gp); try reflexivity; destruct H; congruence.
Qed.
Let Es : child g' gp d = sib.
Proof. unfold g', set_child, child; destruct d; cbn; unfold upd1; now rewrite Nat.eqb_refl. Qed.
Let Hrp : insub g root p. Proof. rewrite <- Hc. now constructor. Qed.
Let Hpr : p <> root. Proof. rewrite <- Hc. now apply Hnoroot. Qed.
Let HTp : exists l h, T g p l h. Proof. destruct (T_insub _ _ _ _ _ HT Hrp) as (l & h & _ & _ & X). eauto. Qed.
Let HTgp : exists l h, T g gp l h. Proof. destruct (T_insub _ _ _ _ _ HT Hgp) as (l & h & _ & _ & X). eauto. Qed.

Lemma sp_ne : p <> gp.
Proof. intros E. destruct HTgp as (l & h & X). rewrite E in Hc. eapply (child_below_cycle g gp l h gp d); eauto. constructor. Qed.

Lemma sp_T : T g' root (-1) 1002.
Proof. apply (T_delete g gp d p (negb rl) (-1) 1002 root HT Hc Hip sp_ne). Qed.

Lemma sp_path_aux k m : path g k root m ->
  (m <> p -> m <> lf -> path g' k root m) /\ (m = p -> path g' k root gp /\ dirk g k gp = d).
Proof.
  induction 1 as [|m0 Hm IH Hi].
  - split; [intros _ _; constructor|intros E; congruence].
  - assert (Nlf : m0 <> lf) by (intros E; rewrite E in Hi; contradiction). split.
    + intros N1 N2. destruct (Nat.eq_dec m0 p) as [->|Np].
      * destruct IH as [_ IH2]. destruct (IH2 eq_refl) as [Pg Dg].
        assert (Ed : dirk g k p = negb rl).
        { destruct (Bool.bool_dec (dirk g k p) rl) as [E|E]; [rewrite E in N2; exfalso; now apply N2|]. destruct (dirk g k p), rl; cbn; congruence. }
        rewrite Ed. fold sib. assert (X : path g' k root (child g' gp (dirk g' k gp))) by (constructor; [exact Pg|now apply Ei]).
        rewrite Edk, Dg, Es in X. exact X.
      * destruct IH as [IH1 _]. specialize (IH1 Np Nlf).
        assert (Ec : child g' m0 (dirk g' k m0) = child g m0 (dirk g k m0)).
        { rewrite Edk. apply Eo. destruct (Nat.eq_dec m0 gp) as [->|]; [|now left]. right. intros E. rewrite E in N1. now apply N1. }
        rewrite <- Ec. constructor; [exact IH1|now apply Ei].
    + intros E. destruct (Nat.eq_dec m0 p) as [->|Np].
      * exfalso. destruct HTp as (l & h & X). eapply (child_below_cycle g p l h p); eauto. constructor.
      * destruct (unique_parent g root (-1) 1002 HT m0 gp (dirk g k m0) d p (path_insub _ _ _ _ Hm) Hgp Hi Higp E Hc) as [-> Ed].
        split; [|exact Ed]. destruct IH as [IH1 _]. apply IH1; [exact Np|exact Nlf].
Qed.

Lemma sp_path k m : path g k root m -> m <> p -> m <> lf -> path g' k root m.
Proof. intros H. apply (sp_path_aux k m H). Qed.

Lemma sp_reach x : insub g' root x -> insub g root x.
Proof.
  induction 1 as [|m dd Hm IH Him]; [constructor|]. apply Ei in Him.
  destruct (Nat.eq_dec m gp) as [->|Nm]; [destruct (Bool.bool_dec dd d) as [->|Nd]|].
  - rewrite Es. unfold sib. now constructor.
  - rewrite Eo by (right; exact Nd). now constructor.
  - rewrite Eo by (left; exact Nm). now constructor.
Qed.

Lemma sp_unreach_p : ~ insub g' root p.
Proof.
  intros H. destruct (insub_last _ _ _ H) as [E|(m & dd & Hm & Him & E)]; [congruence|]. apply Ei in Him.
  destruct (Nat.eq_dec m gp) as [->|Nm]; [destruct (Bool.bool_dec dd d) as [->|Nd]|].
  - rewrite Es in E. destruct HTp as (l & h & X). eapply (child_below_cycle g p l h p (negb rl)); eauto. constructor.
  - rewrite Eo in E by (right; exact Nd). destruct (unique_parent g root (-1) 1002 HT gp gp dd d p Hgp Hgp Higp Higp (eq_sym E) Hc). contradiction.
  - rewrite Eo in E by (left; exact Nm). destruct (unique_parent g root (-1) 1002 HT m gp dd d p (sp_reach _ Hm) Hgp Him Higp (eq_sym E) Hc). contradiction.
Qed.

Lemma sp_lf_ne_sib : lf <> sib.
Proof.
  destruct HTp as (l & h & X). destruct (T_inv_int _ _ _ _ X Hip) as (_ & L & R).
  pose proof (T_key _ _ _ _ L). pose proof (T_key _ _ _ _ R). unfold lf, sib. intros E. destruct rl; cbn [child negb] in E; rewrite E in *; lia.
Qed.

Lemma sp_unreach_lf : ~ insub g' root lf.
Proof.
  intros H. assert (Hlr : lf <> root) by (unfold lf; now apply Hnoroot).
  destruct (insub_last _ _ _ H) as [E|(m & dd & Hm & Him & E)]; [congruence|]. apply Ei in Him.
  assert (Hg : child g m dd = lf -> False).
  { intros E'. destruct (unique_parent g root (-1) 1002 HT m p dd rl lf (sp_reach _ Hm) Hrp Him Hip E' eq_refl) as [-> _]. now apply sp_unreach_p. }
  destruct (Nat.eq_dec m gp) as [->|Nm]; [destruct (Bool.bool_dec dd d) as [->|Nd]|].
  - rewrite Es in E. now apply sp_lf_ne_sib.
  - rewrite Eo in E by (right; exact Nd). now apply Hg.
  - rewrite Eo in E by (left; exact Nm). now apply Hg.
Qed.

Lemma sp_mem_before : 0 <= node_key g lf < 1000 -> mem g (node_key g lf).
Proof. intros Hk. split; [exact Hk|]. exists lf. split; [unfold lf; now constructor|auto]. Qed.

Lemma sp_mem k : mem g' k <-> mem g k /\ k <> node_key g lf.
Proof.
  unfold mem. split.
  - intros (Hk & l & Hr & Hl & Hkey). rewrite Enk in Hkey. rewrite Ei in Hl. pose proof (sp_reach _ Hr) as Hr0. split.
    + split; [exact Hk|]. exists l. auto.
    + intros E. assert (l = lf); [|subst l; now apply sp_unreach_lf].
      eapply (T_leaves_distinct g root (-1) 1002 HT); eauto; [unfold lf; now constructor|congruence].
  - intros ((Hk & l & Hr & Hl & Hkey) & Nk). split; [exact Hk|]. exists l.
    assert (P : path g k root l) by (eapply T_search; eauto; lia).
    split; [|split; [now rewrite Ei|now rewrite Enk]].
    eapply path_insub. apply (sp_path k l P); [intros ->; contradiction|intros ->; congruence].
Qed.

End Splice.
