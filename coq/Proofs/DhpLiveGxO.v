(** * DhpLiveGxO: C02, second sentence for DHP -- THE ALLOCATOR DISCIPLINE [dhp_cell_disc]: in every reachable configuration of
      the DHP model (every schedule, every number of threads, every client program), if the embedded free lists behaved
      and extension blocks have at least one cell, the trace satisfies [cell_disc] (DhpLiveGcA): Guard() is given a cell of
      the thread's own attached record that no Guard holds, and the cells of a block being prepared by hp_allocator::alloc
      belong to no attached record.  With it: [dhp_guard_cell_exclusive] and the client-level theorem
      [dhp_guarded_ptr_live] without unproved hypotheses.
      This file: the client operations, whole threads and the initial configuration for [InvC3]. *)
From Coq Require Import ZArith NArith List String Bool Lia PeanoNat.
From LV Require Import Base.Conc Base.Events Model.DhpLang Model.Dhp Proofs.DhpBase Proofs.DhpHist
  Proofs.DhpLangProofs Proofs.DhpInvA Proofs.DhpInvB Proofs.DhpStepsA Proofs.DhpQuietA Proofs.DhpMainB Proofs.DhpProofsC02 Proofs.DhpLiveA Proofs.DhpLiveB
  Proofs.DhpLiveD Proofs.DhpLiveE Proofs.DhpLiveF Proofs.DhpFlThm Proofs.DhpLiveGsG
  Proofs.DhpLiveGcRule Proofs.DhpLiveGcA Proofs.DhpLiveGcB Proofs.DhpLiveGcC Proofs.DhpLiveGcD Proofs.DhpLiveGcE Proofs.DhpLiveGz
  Proofs.DhpLiveGxA Proofs.DhpLiveGxB Proofs.DhpLiveGxC Proofs.DhpLiveGxE Proofs.DhpLiveGxF
  Proofs.DhpLiveGxG Proofs.DhpLiveGxH Proofs.DhpLiveGxI Proofs.DhpLiveGxJ Proofs.DhpLiveGxK Proofs.DhpLiveGxL Proofs.DhpLiveGxM Proofs.DhpLiveGxN.
Import ListNotations.
Local Open Scope string_scope.
Local Open Scope list_scope.

Definition RelC (L : Dhp.L) (l : VG * XC) : Prop :=
  w_tl (fst l) = l_tls L /\ w_mp (fst l) = l_guards L /\ (l_tls L = None -> l_guards L = []) /\
  xc_new (snd l) = None /\ xc_init (snd l) = None /\ xc_pb (snd l) = None /\ xc_pop (snd l) = None /\ xc_freed (snd l) = false /\
  (forall r, l_tls L = Some r -> In r (xc_hold (snd l))).
Definition QopC : option Dhp.L -> VG * XC -> Prop := fun o l' => match o with Some L' => RelC L' l' | None => True end.

Section Ops.
  Variable c : cfg.
  Notation rdc := (rdsafe (InvAGB c) viewC3 (InvC3 c)).

  Lemma rC_rsp_ret t v (L' : Dhp.L) l :
    RelC L' (mkVG [] (w_tl (fst l)) (drop_of (w_op (fst l)) (w_mp (fst l))) (w_pv (fst l)) (w_sl (fst l)) (w_ac (fst l)),
             setCh (snd l) (xc_init (snd l)) (xc_pb (snd l)) (xc_pop (snd l)) false) ->
    rdc t (rsp v ;;; ret L') l QopC.
  Proof. intros HR. unfold rsp, xbind, emit, ret. cbn [dbind]. apply rL_rsp. exact HR. Qed.

  Lemma rC_skip_ret t (L' : Dhp.L) l : RelC L' l -> rdc t (skip ;;; ret L') l QopC.
  Proof.
    intros HR. unfold skip. apply rdc_neu_seq; [apply NeuC_emit; repeat constructor| |intros; exact I]. intros _ l1 (A1 & A2 & A3 & A4 & A5).
    cbn [rdsafe ret QopC]. unfold RelC in *. rewrite A2, A3, A5. exact HR.
  Qed.

  Ltac ncs := apply rdc_neu_seq; [|intros ? ? (?R1 & ?R2 & ?R3 & ?R4 & ?R5)|intros; exact I].
  Ltac wop := repeat match goal with H : w_op (fst _) = w_op (fst _) |- _ => rewrite H; clear H end; reflexivity.

  (** an operation made of neutral nodes, closed by "ret" *)
  Lemma RelC_keep L l l1 code args : RelC L l -> code <> 4 ->
    w_op (fst l1) = zl (code :: args) -> w_tl (fst l1) = w_tl (fst l) -> w_mp (fst l1) = w_mp (fst l) -> snd l1 = snd l ->
    RelC L (mkVG [] (w_tl (fst l1)) (drop_of (w_op (fst l1)) (w_mp (fst l1))) (w_pv (fst l1)) (w_sl (fst l1)) (w_ac (fst l1)),
            setCh (snd l1) (xc_init (snd l1)) (xc_pb (snd l1)) (xc_pop (snd l1)) false).
  Proof.
    intros (A1 & A2 & A3 & A4 & A5 & A6 & A7 & A8 & A9) N4 E1 E2 E3 E4. unfold RelC. cbn. rewrite E1, E2, E3, E4.
    change (zl (code :: args)) with (zn code :: zl args). rewrite drop_of_not4 by (unfold zn; lia). repeat split; auto.
  Qed.

  Ltac keep code args HR := apply rC_rsp_ret; apply (RelC_keep _ _ _ code args HR); [lia|wop|congruence|congruence|congruence].

  Lemma spec_run_opC t L l o : RelC L l -> rdc t (run_op c t L o) l QopC.
  Proof.
    intros HR. pose proof HR as (A1 & A2 & A3 & A4 & A5 & A6 & A7 & A8 & A9).
    destruct o as [| |j|j|j p|j|j k|k p|p| |k v]; cbn [run_op]; (apply rL_inv; [exact A8|]);
      match goal with |- rdc t _ (?vv, _) _ => set (l1 := (vv, snd l)) end;
      assert (O1 : w_tl (fst l1) = w_tl (fst l) /\ w_mp (fst l1) = w_mp (fst l) /\ snd l1 = snd l) by (unfold l1; cbn; auto);
      destruct O1 as (O1 & O2 & O3).
    - (* attach *)
      destruct (l_tls L) as [r|] eqn:Et; [apply rC_skip_ret; unfold RelC; rewrite O1, O2, O3, Et; repeat split; auto|].
      apply rdc_xbind. eapply rdsafe_weaken; [|apply (S_alloc_thread_dataC c t l1)]; [|congruence|congruence|congruence].
      intros [r|] l2 K2; [|exact I]. destruct K2 as ((F1 & F2 & F3) & Hr & N2 & I2 & B2 & P2 & R2).
      unfold xbind at 1. unfold emit at 1. cbn [dbind].
      apply (rL_att c t r); [exact I2|congruence|rewrite F3, O2, A2; now apply A3|congruence|]. intros l3 Q1 Q2 Q3 Q4 X3.
      apply rC_rsp_ret. unfold RelC. cbn. rewrite Q1, Q2, Q3, X3, F1. unfold l1. cbn [fst w_op]. change (zl [1]) with [zn 1]. rewrite drop_of_not4 by (unfold zn; lia).
      cbn. rewrite B2, P2, O3. repeat split; auto; try discriminate. intros r0 E0. inversion E0; subst r0. exact Hr.
    - (* detach *)
      destruct (l_tls L) as [r|] eqn:Et; [|apply rC_skip_ret; unfold RelC; rewrite O1, O2, O3, Et; repeat split; auto; discriminate].
      apply rdc_xbind. eapply rdsafe_weaken; [|apply (S_free_thread_dataC c t r l1)]; try congruence; [|rewrite O3; now apply A9].
      intros [?u|] l2 K2; [|exact I]. destruct K2 as (F1 & F2 & F3 & N2 & (S1 & S2 & S3 & S4)).
      apply rC_rsp_ret. unfold RelC. cbn. rewrite F1, F2, F3. unfold l1. cbn [fst w_op]. change (zl [2]) with [zn 2]. rewrite drop_of_not4 by (unfold zn; lia).
      rewrite N2, S1, S2, S3, O3. repeat split; auto; discriminate.
    - (* Guard() *)
      destruct (l_tls L) as [r|] eqn:Et; [|apply rC_skip_ret; unfold RelC; rewrite O1, O2, O3, Et; repeat split; auto; discriminate].
      destruct (gfind (l_guards L) j) eqn:Eg; [apply rC_skip_ret; unfold RelC; rewrite O1, O2, O3, Et; repeat split; auto|].
      apply rdc_xbind. eapply rdsafe_weaken; [|apply (S_hp_gallocC c t r j l1)]; try congruence; [|reflexivity].
      intros [[s|]|] l2 K2; [| |exact I]; destruct K2 as ((F1 & F2 & F3) & X2).
      + unfold xbind at 1. unfold emit at 1. cbn [dbind].
        apply (rL_own c t s j); [rewrite X2; reflexivity|rewrite F1; reflexivity|rewrite F3, O2, A2; exact Eg|rewrite X2; reflexivity|].
        intros l3 Q1 Q2 Q3 Q4 X3. apply rC_rsp_ret. unfold RelC. cbn. rewrite Q1, Q2, Q3, X3, X2, F1, F2, F3. unfold l1. cbn [fst w_op snd].
        change (zl [3; j]) with [zn 3; zn j]. rewrite drop_of_not4 by (unfold zn; lia). cbn. rewrite ?O1, ?O2, ?A1, ?A2, ?A4, ?A5, ?A8. repeat split; auto; discriminate.
      + unfold xbind at 1. apply rdc_neu_seq; [apply NeuC_emit; repeat constructor| |intros; exact I]. intros _ l3 (Q1 & Q2 & Q3 & Q4 & Q5).
        cbn [rdsafe ret QopC]. unfold RelC. rewrite Q2, Q3, Q5, X2, F2, F3, O1, O2. cbn. rewrite A4, A5, A8, ?Et. repeat split; auto; discriminate.
    - (* ~Guard() *)
      destruct (l_tls L) as [r|] eqn:Et; [|apply rC_skip_ret; unfold RelC; rewrite O1, O2, O3, Et; repeat split; auto; discriminate].
      destruct (gfind (l_guards L) j) as [s|] eqn:Eg; [|apply rC_skip_ret; unfold RelC; rewrite O1, O2, O3, Et; repeat split; auto].
      ncs; [apply NeuC_emit; repeat constructor; apply qC_rel|].
      apply rdc_xbind. eapply rdsafe_weaken; [|apply (S_hp_gfreeC c t r j s); [congruence|rewrite R1; reflexivity|rewrite R3, O2, A2; exact Eg|congruence|congruence]].
      intros [?u|] l3 K3; [|exact I]. destruct K3 as ((F1 & F2 & F3) & X3).
      apply rC_rsp_ret. unfold RelC. cbn. rewrite F1, F2, F3, X3, R1, R2, R3, R5. unfold l1. cbn [fst w_op snd].
      change (zl [4; j]) with [4%Z; zn j]. rewrite drop_of_4. cbn. rewrite ?O1, ?O2, ?A1, ?A2, ?A4, ?A5, ?A6, ?A7. repeat split; auto; discriminate.
    - (* assign *)
      destruct (l_tls L) as [r|] eqn:Et; [|apply rC_skip_ret; unfold RelC; rewrite O1, O2, O3, Et; repeat split; auto; discriminate].
      destruct (gfind (l_guards L) j) as [s|]; [|apply rC_skip_ret; unfold RelC; rewrite O1, O2, O3, Et; repeat split; auto].
      ncs; [apply NeuC_act; apply c_st_slot|]. ncs; [apply NeuC_act; apply c_faa_sync|].
      keep 5 [j; p] HR.
    - (* clear *)
      destruct (l_tls L) as [r|] eqn:Et; [|apply rC_skip_ret; unfold RelC; rewrite O1, O2, O3, Et; repeat split; auto; discriminate].
      destruct (gfind (l_guards L) j) as [s|]; [|apply rC_skip_ret; unfold RelC; rewrite O1, O2, O3, Et; repeat split; auto].
      ncs; [apply NeuC_act; apply c_st_slot|].
      keep 6 [j] HR.
    - (* protect *)
      destruct (l_tls L) as [r|] eqn:Et; [|apply rC_skip_ret; unfold RelC; rewrite O1, O2, O3, Et; repeat split; auto; discriminate].
      destruct (gfind (l_guards L) j) as [s|]; [|apply rC_skip_ret; unfold RelC; rewrite O1, O2, O3, Et; repeat split; auto].
      ncs; [apply NeuC_act; apply c_ld_src|]. ncs; [apply C_protect_loop|].
      keep 7 [j; k] HR.
    - (* publish *)
      ncs; [apply NeuC_act; apply c_st_src|].
      keep 8 [k; p] HR.
    - (* retire *)
      destruct (l_tls L) as [r|] eqn:Et; [|apply rC_skip_ret; unfold RelC; rewrite O1, O2, O3, Et; repeat split; auto; discriminate].
      ncs; [apply NeuC_loc; intros g; apply piX_rt_push|].
      match goal with |- context [if ?b then _ else _] => destruct b end;
        (ncs; [first [apply NeuC_ret|apply C_scan]|]; keep 9 [p] HR).
    - (* scan *)
      destruct (l_tls L) as [r|] eqn:Et; [|apply rC_skip_ret; unfold RelC; rewrite O1, O2, O3, Et; repeat split; auto; discriminate].
      ncs; [apply C_scan|].
      keep 10 (@nil nat) HR.
    - (* wait *)
      ncs; [apply C_wait_loop|].
      keep 15 [k; v] HR.
  Qed.

  Lemma spec_run_opsC t : forall os L l, RelC L l -> rdc t (run_ops c t L os) l (fun _ _ => True).
  Proof.
    induction os as [|o os IH]; intros L l HR; cbn [run_ops]; [exact I|].
    apply rdc_xbind. eapply rdsafe_weaken; [|apply (spec_run_opC t L l o HR)].
    intros [L'|] l1 K; [|exact I]. now apply IH.
  Qed.

  Lemma spec_threadC t os : rdc t (thread_src c t os) (vg0, xc0) (fun _ _ => True).
  Proof.
    unfold thread_src. apply rdc_act_q; [apply c_begin|]. intros _ l1 (R1 & R2 & R3 & R4 & R5).
    unfold to_unit. apply rdsafe_bind. eapply rdsafe_weaken; [|apply (spec_run_opsC t os (mkL None []) l1)].
    - intros r l _. exact I.
    - unfold RelC. rewrite R2, R3, R5. cbn. repeat split; auto. discriminate.
  Qed.
End Ops.
