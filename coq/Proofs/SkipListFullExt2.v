(** * SkipListFullExt2: find_max_position, try_remove_at for extract, extract_min / extract_max, programs of all five
      operations, and the theorems about the full client history including extract_min / extract_max. *)
From Coq Require Import ZArith List String Bool Lia PeanoNat.
From LV Require Import Base.Conc Base.Events Base.Lin Spec.Specs Proofs.LinProofs.
From LV Require Import Model.SkipList Proofs.SkipListProofs Proofs.SkipListLin Proofs.SkipListFullInv Proofs.SkipListFullActs
                       Proofs.SkipListFullActs2 Proofs.SkipListFullMono Proofs.SkipListFullFind Proofs.SkipListFullProofs
                       Proofs.SkipListFullThm Proofs.SkipListFullExt.
From LV Require Proofs.MichaelListInv Proofs.MichaelListLin Proofs.MichaelListFullInv.
Import ListNotations.
Local Open Scope Z_scope.

Definition maxret (o : set_op) (sn : nat) (lvl : nat) (pred : ptr) (cur : ptr) (lv : lview2) : Prop :=
  (lvl = 0%nat /\ pred = head /\ cur = null /\ extE o sn lv) \/ (~ (lvl = 0%nat /\ pred = head /\ cur = null) /\ extv o sn lv).

Definition oext (mx : bool) : set_op := if mx then SExtractMax else SExtractMin.
Lemma oext_ext mx : is_ext (oext mx) = true.
Proof. destruct mx; reflexivity. Qed.

Section WithNodes.
Variable nodes : cfg0.
Local Notation SAFE := (SAFE nodes).
Local Notation SAFEm := (SAFEm nodes).
Local Notation between := (between nodes).

Ltac nxl := intros g0; cbn; repeat split; eauto.
Ltac snx := apply Sm_nx; [nxl|intros ?].

Lemma extv_ser o sn lv : extv o sn lv -> vser (fst lv) = sn.
Proof. intros H; apply H. Qed.

(** ** find_max_position *)
Lemma T_fmax_level {R} t o sn fuel : forall s lvl pred ps (retry : TL -> prog R) k kf lv,
  tlk t sn s -> is_ext o = true -> (pred = head \/ isnode pred) -> known2 lv pred -> extv o sn lv ->
  (forall s' lv1, tlk t sn s' -> extv o sn lv1 -> SAFEm t (retry s') lv1) -> (forall lv1, vser (fst lv1) = sn -> SAFEm t kf lv1) ->
  (forall s' pred' cur lv1, tlk t sn s' -> ple pred pred' -> (pred' = head \/ isnode pred') -> known2 lv1 pred' -> lnk lvl pred' (fst cur) ->
      knownz2 lv1 (fst cur) -> hld lv1 lvl (fst cur) -> kl0 lv lv1 -> maxret o sn lvl pred' (fst cur) lv1 -> SAFEm t (k s' pred' cur) lv1) ->
  SAFEm t (fmax_level fuel s lvl pred ps retry k kf) lv.
Proof.
  induction fuel as [|f IH]; intros s lvl pred ps retry k kf lv Ht Hx Hpn Kp Hv Hr Hf Hk; cbn [fmax_level]; [apply Hf; apply Hv|].
  assert (Htail : forall (cur : mptr) (lv1 : lview2), lnk lvl pred (fst cur) -> knownz2 lv1 (fst cur) -> hld lv1 lvl (fst cur) -> vle2 lv lv1 ->
            (fst cur = null -> ~ (lvl = 0%nat /\ pred = head)) ->
            SAFEm t (if snd cur then retry s
                     else if Nat.eqb (fst cur) null then k s pred cur
                     else Act (a_ld_next (fst cur) lvl) (fun vs => Act (a_ld_next pred lvl) (fun vr =>
                            if negb (mp_eqb (vp vr) (fst cur, false)) then retry s
                            else if snd (vp vs) then help_remove (S f) s lvl pred (fst cur) (fun rs => match rs with Ok s' => retry s' | Fuel => kf end)
                            else if Nat.eqb (fst (vp vs)) null then k s pred cur
                            else g_copy s (gslot ps (2 * lvl)) (gslot ps (2 * lvl + 1)) (fmax_level f s lvl (fst cur) ps retry k kf)))) lv1).
  { intros cur lv1 Lc Kc Dc V Hnn.
    assert (Hv1 : extv o sn lv1) by now apply (extv_vle2 o sn lv).
    assert (Kp1 : known2 lv1 pred) by (eapply known2_kle; [apply V|exact Kp]).
    destruct (snd cur); [now apply Hr|]. destruct (Nat.eqb_spec (fst cur) null) as [En|Nn].
    - apply Hk; auto; [now apply ple_refl|apply kle_kl0, V|]. right. split; [|exact Hv1]. intros (A & B & _). apply (Hnn En). auto.
    - pose proof (lnk_ltp _ _ _ Lc Nn) as Lt.
      assert (Kc1 : known2 lv1 (fst cur)) by (apply known_of_knownz2; assumption).
      apply Sm_ldk; [exact Kc1|]. intros xs lv2 V2 Ls Ks Ds Fs. apply Sm_ld. intros xr lv3 V3 Lr Kr Dr. cbn [vp].
      assert (V13 : vle2 lv1 lv3) by (eapply vle2_trans; eauto). assert (V03 : vle2 lv lv3) by (eapply vle2_trans; eauto).
      assert (Hv3 : extv o sn lv3) by now apply (extv_vle2 o sn lv).
      destruct (negb (mp_eqb xr (fst cur, false))); [now apply Hr|].
      destruct (snd xs).
      + apply (T_help_remove nodes t sn); [exact Ht|exact Lt|eapply known2_kle; [apply V13|exact Kp1]|eapply known2_kle; [apply V13|exact Kc1]|].
        intros [s'|] lv4 V4 Hs; [apply Hr; [exact Hs|now apply (extv_vle2 o sn lv3)]|apply Hf].
        rewrite (kle_ser _ _ (vle2_kle _ _ V4)). apply Hv3.
      + destruct (Nat.eqb (fst xs) null).
        * apply Hk; auto; [now apply ple_refl|eapply known2_kle; [apply V13|exact Kp1]|eapply knownz2_kle; [apply V13|exact Kc]|eapply hld_kle; [apply V13|exact Dc]|apply kle_kl0, V03|].
          right. split; [|exact Hv3]. intros (_ & _ & X). contradiction.
        * apply Sm_copy. apply IH; auto; [right; eapply ltp_isnode; eauto|eapply known2_kle; [apply V13|exact Kc1]|].
          intros s' pred' cur' lv4 Hs' H1 H2 H3 H4 H5 H6 H7 H8. apply Hk; auto; [eapply ple_trans; [eapply ple_ltp; eauto|exact H1]|].
          eapply kl0_trans; [apply kle_kl0, V03|exact H7]. }
  assert (Hlvl : (lvl = 0%nat /\ pred = head) \/ ~ (lvl = 0%nat /\ pred = head)).
  { destruct (Nat.eq_dec lvl 0); [destruct (Nat.eq_dec pred head); [now left|right; tauto]|right; tauto]. }
  destruct Hlvl as [(-> & ->)|Hno].
  - apply (T_ga_protect_empty nodes t o sn); [exact Hx|exact Hv| |].
    + intros lv1 V. apply Hf. rewrite (kle_ser _ _ (vle2_kle _ _ V)). apply Hv.
    + intros cur lv1 Lc Mc Kc Dc KL HE HV. destruct (Nat.eq_dec (fst cur) null) as [En|Nn].
      * rewrite Mc. apply Nat.eqb_eq in En. rewrite En. apply Nat.eqb_eq in En. apply Hk; auto; [now apply ple_refl|now left|].
        left. auto.
      * apply Htail; auto; intros X; contradiction.
  - apply T_ga_protect.
    + intros lv1 V. apply Hf. rewrite (kle_ser _ _ (vle2_kle _ _ V)). apply Hv.
    + intros cur lv1 V Lc Kc Dc. apply Htail; auto.
Qed.

Lemma T_fmax_levels {R} t o sn fuel : forall n s pred ps (retry : TL -> prog R) k kf lv,
  tlk t sn s -> (n <= MAXH)%nat -> is_ext o = true -> (pred = head \/ isnode pred) -> known2 lv pred ->
  (forall L, (n <= L < MAXH)%nat -> ple (pprev ps L) pred) -> posk_above n lv ps ->
  ((0 < n)%nat -> extv o sn lv) ->
  (n = 0%nat -> lnk 0 pred (pcur ps) /\ knownz2 lv (pcur ps) /\ maxret o sn 0 pred (pcur ps) lv) ->
  (forall s' lv1, tlk t sn s' -> extv o sn lv1 -> SAFEm t (retry s') lv1) -> (forall lv1, vser (fst lv1) = sn -> SAFEm t kf lv1) ->
  (forall s' ps' lv1, tlk t sn s' -> (pcur ps' = null \/ rem_pre ps' (pcur ps')) -> posk lv1 ps' -> curpost o sn ps' lv1 ->
     SAFEm t (k s' ps') lv1) ->
  SAFEm t (fmax_levels fuel n s pred ps retry k kf) lv.
Proof.
  induction n as [|lvl IH]; intros s pred ps retry k kf lv Ht Hn Hx Hpn Kp Hp Hq Hv Hc Hr Hf Hk; cbn [fmax_levels].
  - destruct (Hc eq_refl) as (Lc & Kc & Mr).
    destruct (Nat.eqb_spec (pcur ps) null) as [En|Nn]; cbn [andb].
    + destruct (Nat.eqb_spec pred head) as [Ep|Np]; cbn [negb].
      * apply Hk; [exact Ht|now left|exact Hq|]. left. split; [exact En|]. destruct Mr as [(_ & _ & _ & X)|(X & _)]; [exact X|exfalso; apply X; auto].
      * apply Hr; [exact Ht|]. destruct Mr as [(_ & X & _)|(_ & X)]; [contradiction|exact X].
    + pose proof (lnk_ltp _ _ _ Lc Nn) as Lt. apply Hk; [exact Ht| |exact Hq|].
      * right. split; [eapply ltp_isnode; eauto|]. intros L HL. eapply ple_nbelow; [apply Hp; lia|exact Lt].
      * right. split; [eapply ltp_isnode; eauto|]. split; [destruct Kc as [X|X]; [contradiction|exact X]|].
        destruct Mr as [(_ & _ & X & _)|(_ & X)]; [contradiction|exact X].
  - specialize (Hv ltac:(lia)). apply Sm_assign. apply (T_fmax_level t o sn); auto.
    intros s' pred' cur lv1 Hs' H1 H2 H3 H4 H5 H6 H7 H8.
    apply IH; auto; [lia| | | |].
    + intros L HL. cbn [pprev]. destruct (Nat.eq_dec L lvl) as [->|NL].
      * rewrite set_lvl_same. now apply ple_refl.
      * rewrite set_lvl_other by exact NL. eapply ple_trans; [apply Hp; lia|exact H1].
    + intros L HL. cbn [pprev psucc]. destruct (Nat.eq_dec L lvl) as [->|NL].
      * rewrite !set_lvl_same. split; [exact H3|split; assumption].
      * rewrite !set_lvl_other by exact NL. eapply posk_kl0; [exact H7|exact Hq|lia].
    + intros Hl. destruct H8 as [(X & _)|(_ & X)]; [lia|exact X].
    + intros ->. cbn [pcur]. split; [exact H4|]. split; [exact H5|exact H8].
Qed.

Lemma T_find_max_position {R} t o sn fuel : forall s ps (k : TL -> pos -> prog R) kf lv,
  tlk t sn s -> is_ext o = true -> extv o sn lv ->
  (forall s' ps' lv1, tlk t sn s' -> (pcur ps' = null \/ rem_pre ps' (pcur ps')) -> posk lv1 ps' -> curpost o sn ps' lv1 ->
     SAFEm t (k s' ps') lv1) ->
  (forall lv1, vser (fst lv1) = sn -> SAFEm t kf lv1) ->
  SAFEm t (find_max_position fuel s ps k kf) lv.
Proof.
  induction fuel as [|f IH]; intros s ps k kf lv Ht Hx Hv Hk Hf; cbn [find_max_position]; [apply Hf; apply Hv|].
  apply (T_fmax_levels t o sn); [exact Ht|lia|exact Hx|now left|now left|intros L HL; lia|intros L HL; lia|intros _; exact Hv|unfold MAXH; discriminate| |exact Hf|exact Hk].
  intros s' lv1 Hs' Hv1. now apply IH.
Qed.

(** ** try_remove_at for extract: a failure changes nothing, the loop of extract retries *)
Lemma T_tr_lp_ext {R} t sn o fuel : forall s key del h hh p ps (k : TL -> bool -> prog R) kf lv,
  tlk t sn s -> (h <= MAXH)%nat -> rem_pre ps del -> posk lv ps -> In del (vkn (fst lv)) -> key_of del = key ->
  snd p = false -> lnk 0 del (fst p) -> is_ext o = true -> extv o sn lv ->
  In (del, hh) (xhe (snd lv)) -> (forall l, (1 <= l < hh)%nat -> In (del, l) (xfzu (snd lv))) ->
  (forall s' lv1, tlk t sn s' -> extv o sn lv1 -> SAFEm t (k s' false) lv1) ->
  (forall s' lv1, tlk t sn s' -> vser (fst lv1) = sn -> vst (fst lv1) = @Linearized SetSpec o (RVal (Some key)) ->
     xwatch (snd lv1) = None -> SAFEm t (k s' true) lv1) ->
  kfpost nodes t sn kf ->
  SAFEm t (tr_lp fuel s key del h p ps k kf) lv.
Proof.
  induction fuel as [|f IH]; intros s key del h hh p ps k kf lv Ht Hh Hp Hq Kd Hkey Hm Hl Hx Hv Hhe Hfz Hk0 Hk1 Hf; cbn [tr_lp]; [apply Hf; apply Hv|].
  pose proof Hv as (Hser & Hst & Hw).
  apply Sm_cas0_mark_ext with (key := key) (h := hh) (o := o); auto.
  - intros c lv1 Lc V Kc. cbn [vok vp]. assert (Hv1 : extv o sn lv1) by now apply (extv_vle2 o sn lv).
    destruct (snd c) eqn:Ec; [now apply Hk0|].
    apply IH with (hh := hh); auto.
    + eapply posk_kle; [apply V|exact Hq].
    + eapply kn_kle; [apply V|exact Kd].
    + eapply he_kle; [apply V|exact Hhe].
    + intros l Hl'. eapply fzu_kle; [apply V|now apply Hfz].
  - cbn [vok]. apply (T_tr_unlink nodes t sn (S f) h s key del (fst p) ps (fun s' => k s' true) kf _ Ht);
      [exact Hser|exact Hh|exact Hp| | | | |exact Hf].
    + eapply posk_incl2; [| |exact Hq]; cbn; apply incl_refl.
    + cbn. now left.
    + cbn. destruct o; try discriminate; reflexivity.
    + intros s' lv1 Hs E1 E2 E3. apply Hk1; auto. rewrite E3. exact Hw.
Qed.

Lemma T_try_remove_at_ext {R} t sn o fuel s del h ps (k : TL -> bool -> prog R) kf lv :
  tlk t sn s -> (h <= MAXH)%nat -> rem_pre ps del -> posk lv ps -> In del (vkn (fst lv)) ->
  is_ext o = true -> extv o sn lv -> In (del, h) (xhe (snd lv)) ->
  (forall s' lv1, tlk t sn s' -> extv o sn lv1 -> SAFEm t (k s' false) lv1) ->
  (forall s' lv1, tlk t sn s' -> vser (fst lv1) = sn -> vst (fst lv1) = @Linearized SetSpec o (RVal (Some (key_of del))) ->
     xwatch (snd lv1) = None -> SAFEm t (k s' true) lv1) ->
  kfpost nodes t sn kf ->
  SAFEm t (try_remove_at fuel s del h ps k kf) lv.
Proof.
  intros Ht Hh Hp Hq Kd Hx Hv Hhe Hk0 Hk1 Hf. unfold try_remove_at.
  assert (Nh : del <> head) by (destruct Hp as [X _]; unfold isnode, head in *; lia).
  apply T_tr_mark_upper; [exact Kd|exact Nh| |].
  - intros lv1 V Hall. apply Sm_ldk; [right; eapply kn_kle; [apply V|exact Kd]|]. intros x lv2 V2 Lx Kx _ _. cbn [vp].
    assert (V02 : vle2 lv lv2) by (eapply vle2_trans; eauto).
    apply (T_tr_lp_ext t sn o) with (hh := h); auto.
    + eapply posk_kle; [apply V02|exact Hq].
    + eapply kn_kle; [apply V02|exact Kd].
    + now apply (extv_vle2 o sn lv).
    + eapply he_kle; [apply V02|exact Hhe].
    + intros l Hl. eapply fzu_kle; [apply V2|]. apply Hall. lia.
  - intros lv1 V. apply Hf. rewrite (kle_ser _ _ (vle2_kle _ _ V)). apply Hv.
Qed.

(** ** extract_min_ / extract_max_ *)
Lemma T_extract_loop {R} t sn fuel : forall mx s gp ps (k : TL -> option nat -> option ptr -> prog R) kf lv,
  tlk t sn s -> extv (oext mx) sn lv ->
  (forall s' gp' lv1, tlk t sn s' -> extE (oext mx) sn lv1 -> SAFEm t (k s' gp' None) lv1) ->
  (forall s' gp' del lv1, tlk t sn s' -> vser (fst lv1) = sn -> vst (fst lv1) = @Linearized SetSpec (oext mx) (RVal (Some (key_of del))) ->
     xwatch (snd lv1) = None -> SAFEm t (k s' gp' (Some del)) lv1) ->
  (forall s' gp' lv1, tlk t sn s' -> vser (fst lv1) = sn -> SAFEm t (kf s' gp') lv1) ->
  SAFEm t (extract_loop fuel mx s gp ps k kf) lv.
Proof.
  induction fuel as [|f IH]; intros mx s gp ps k kf lv Ht Hv Hk0 Hk1 Hf; cbn [extract_loop]; [apply Hf; [exact Ht|apply Hv]|].
  assert (Hafter : forall s1 ps1 lv1, tlk t sn s1 -> (pcur ps1 = null \/ rem_pre ps1 (pcur ps1)) -> posk lv1 ps1 -> curpost (oext mx) sn ps1 lv1 ->
            SAFEm t (if Nat.eqb (pcur ps1) null then k s1 gp None
                     else let del := pcur ps1 in
                          let (g, s2) := match gp with Some g => (g, s1) | None => alloc1 s1 end in
                          Act (a_guard_st_h (tid s2) g del) (fun vh =>
                            try_remove_at (S f) s2 del (Z.to_nat (vz vh)) ps1 (fun s3 ok =>
                              if ok then Act a_fas_cnt (fun _ => k s3 (Some g) (Some del))
                              else extract_loop f mx s3 (Some g) ps1 k kf) (kf s2 (Some g)))) lv1).
  { intros s1 ps1 lv1 Hs1 Hrem Hq Hcp. destruct Hcp as [(En & HE)|(Hn & Hin & Hv1)].
    - rewrite En. cbn [Nat.eqb null]. now apply Hk0.
    - destruct (Nat.eqb_spec (pcur ps1) null) as [X|Nn]; [exfalso; rewrite X in Hn; unfold isnode, null in Hn; lia|]. cbv zeta.
      destruct Hrem as [X|Hrem]; [contradiction|].
      assert (Hgs : exists g s2, (match gp with Some g => (g, s1) | None => alloc1 s1 end) = (g, s2) /\ tlk t sn s2).
      { destruct gp as [g|]; [exists g, s1; auto|]. destruct (alloc1 s1) as [g s2] eqn:Ea. exists g, s2. split; [reflexivity|eapply tlk_alloc1; eauto]. }
      destruct Hgs as (g & s2 & Eg & Hs2). rewrite Eg. replace (tid s2) with t by (symmetry; apply Hs2).
      apply Sm_guard_h; [exact Hin|]. intros h lv2 Hh V2 Hhe. cbn [vz]. rewrite Nat2Z.id.
      apply (T_try_remove_at_ext t sn (oext mx));
        [exact Hs2|exact Hh|exact Hrem|eapply posk_kle; [apply V2|exact Hq]|eapply kn_kle; [apply V2|exact Hin]|apply oext_ext
        |now apply (extv_vle2 (oext mx) sn lv1)|exact Hhe| | |].
      + intros s3 lv3 Hs3 Hv3. now apply IH.
      + intros s3 lv3 Hs3 E1 E2 E3. snx. now apply Hk1.
      + intros lv3 E. now apply Hf. }
  destruct mx.
  - apply (T_find_max_position t (oext true) sn); [exact Ht|reflexivity|exact Hv| |].
    + intros s' ps' lv1 Hs' Hrem Hq Hcp. now apply Hafter.
    + intros lv1 E. now apply Hf.
  - apply (T_find_min_position nodes t (oext false) sn); [exact Ht|reflexivity|exact Hv| |].
    + intros s' ps' lv1 Hs' Hpp Hq Hcp. apply Hafter; auto.
      destruct Hcp as [(En & _)|(Hn & _)]; [now left|right]. split; [exact Hn|]. intros L HL. left. now apply Hpp.
    + intros lv1 E. now apply Hf.
Qed.

Lemma T_finish_ext {R} t sn s o r ra b (cont : TL -> prog R) lv :
  is_ext o = true -> tlk t sn s -> vser (fst lv) = sn -> vst (fst lv) = @Linearized SetSpec o r -> xwatch (snd lv) = None ->
  ((r = RVal None /\ ra = 0 /\ b = 0) \/ (r = RVal (Some b) /\ ra = 1)) -> between t cont ->
  SAFEm t (finish s ra b cont) lv.
Proof.
  intros Hx Ht Hser Hst Hw Hr Hc. unfold finish.
  assert (Hk : SAFEm t (cont s) (set_st2 lv (@Idle SetSpec) None)) by (apply Hc; [cbn; rewrite Hser; exact Ht|reflexivity|reflexivity]).
  destruct Hr as [(-> & -> & ->)|(-> & ->)].
  - apply (Sm_emit_res_gen nodes t o (RVal None) o (RVal None) 0 0); auto; destruct o; try discriminate; reflexivity.
  - apply (Sm_emit_res_gen nodes t o (RVal (Some b)) (SErase b) (RBool true) 1 b); auto; destruct o; try discriminate; reflexivity.
Qed.

Lemma T_op_extract {R} t fuel mx s (cont : TL -> prog R) lv :
  tlk t (vser (fst lv)) s -> vst (fst lv) = @Pending SetSpec (oext mx) -> xwatch (snd lv) = None -> between t cont ->
  SAFEm t (op_extract fuel mx s cont) lv.
Proof.
  intros Ht Hst Hw Hc. unfold op_extract. destruct (allocn _ s) as [slots s1] eqn:Ea.
  pose proof (tlk_allocn _ _ _ _ _ _ Ea Ht) as Ht1. set (sn := vser (fst lv)) in *.
  assert (Hrel : forall (s' : TL) (gp : option nat) (kk : TL -> prog R) lv1, tlk t sn s' ->
            (forall s'', tlk t sn s'' -> SAFEm t (kk s'') lv1) ->
            SAFEm t (match gp with Some g => g_clear s' g (kk (free1 g s')) | None => kk s' end) lv1).
  { intros s' gp kk lv1 Hs' Hkk. destruct gp as [g|]; [apply Sm_clear|]; apply Hkk; auto; now apply tlk_free1. }
  apply (T_extract_loop t sn); auto.
  - split; [reflexivity|auto].
  - intros s2 gp lv1 Hs2 (E1 & E2 & E3). apply (Hrel s2 gp (fun s3 => g_free_all s3 slots (fun s4 => finish s4 0 0 cont)) lv1 Hs2). intros s3 Hs3.
    apply (Sm_free_all_tlk nodes t sn); [exact Hs3|]. intros s4 Hs4.
    apply (T_finish_ext t sn s4 (oext mx) (RVal None)); auto; try apply oext_ext; left; auto.
  - intros s2 gp del lv1 Hs2 E1 E2 E3. apply (Sm_free_all_tlk nodes t sn); [exact Hs2|]. intros s3 Hs3.
    assert (Hfin : forall s4, tlk t sn s4 -> SAFEm t (finish s4 1 (key_of del) cont) lv1).
    { intros s4 Hs4. apply (T_finish_ext t sn s4 (oext mx) (RVal (Some (key_of del)))); auto; try apply oext_ext; right; auto. }
    destruct gp as [g|]; [|now apply Hfin]. snx. snx. apply Sm_clear. apply Hfin. now apply tlk_free1.
  - intros s2 gp lv1 Hs2 E. apply (Sm_free_all_tlk nodes t sn); [exact Hs2|]. intros s3 Hs3. apply (Hrel s3 gp (fun s4 => out_of_fuel s4 cont) lv1 Hs3).
    intros s4 Hs4. eapply T_out_of_fuel; eauto.
Qed.

(** ** programs of all five operations *)
Lemma T_run_ops2 t fuel : c_noex nodes = false -> (t < 64)%nat -> forall os, Forall op_ok os -> between t (fun s => run_ops fuel s os).
Proof.
  intros Hno Hlt. induction os as [|o r IH]; intros Hok s lv Ht Hst Hw; cbn [run_ops]; [apply Sm_ret|].
  inversion Hok as [|? ? Ho Hr]; subst. specialize (IH Hr). unfold run_op. destruct o as [k h| k | k | |]; cbn [op_ok] in Ho.
  - apply Sm_emit_inv; [reflexivity|exact Hst|exact Hw|]. destruct Ho. apply T_op_insert; auto.
  - apply Sm_emit_inv; [reflexivity|exact Hst|exact Hw|]. apply T_op_erase; auto.
  - apply Sm_emit_inv; [reflexivity|exact Hst|exact Hw|]. apply T_op_contains; auto.
  - apply (Sm_emit_inv_gen nodes t 13 0); [reflexivity|congruence|exact Hst|exact Hw|]. apply (T_op_extract t fuel false); auto.
  - apply (Sm_emit_inv_gen nodes t 14 0); [reflexivity|congruence|exact Hst|exact Hw|]. apply (T_op_extract t fuel true); auto.
Qed.

Lemma T_thread2 t fuel os lv :
  c_noex nodes = false -> (t < 64)%nat -> Forall op_ok os -> vser (fst lv) = 0%nat -> vst (fst lv) = @Idle SetSpec -> xwatch (snd lv) = None ->
  SAFE t (thread_prog fuel t os) lv.
Proof.
  intros Hno Hlt Hok Hser Hst Hw. assert (H : SAFEm t (thread_prog fuel t os) lv); [|apply H, vle2_refl].
  unfold thread_prog. snx. apply (T_run_ops2 t fuel Hno Hlt os Hok); [rewrite Hser; split; reflexivity|exact Hst|exact Hw].
Qed.

Lemma init_cfg_ok3 fuel ths :
  c_noex nodes = false -> nodes_ok (c_nodes nodes) -> Forall (Forall op_ok) ths -> (List.length ths <= 63)%nat ->
  @Conc.cfg_ok G V ev aux2 lview2 view2 (Inv2 nodes) (init_cfg fuel (c_nodes nodes) ths).
Proof.
  intros Hno Hn Ho Hlen. exists (aux20 nodes). split; [split; [now apply init_IS|split; [now apply init_EX|left; now apply init_IL2]]|].
  intros t p Hp. unfold init_cfg in Hp. cbn [Conc.threads] in Hp. rewrite nth_error_map in Hp.
  destruct (nth_error (combine (seq 0 (List.length ths)) ths) t) as [[t' os]|] eqn:E; [|discriminate].
  injection Hp as <-. cbn [fst snd]. apply nth_error_combine in E. destruct E as [E1 E2].
  apply nth_error_seq0 in E1. destruct E1 as [-> Hlt].
  apply T_thread2; [exact Hno|lia| | |reflexivity|reflexivity].
  - apply nth_error_In in E2. rewrite Forall_forall in Ho. now apply Ho.
  - unfold view2, view. cbn [fst b_base aux20 aviews aux0 views0 vser]. destruct (Nat.eqb_spec t 63); [lia|reflexivity].
Qed.


End WithNodes.

(** ** the theorems, programs of insert / erase / contains / extract_min / extract_max *)

(** no extract_min / extract_max is pending in the trace (every one of them has returned) *)
Definition ext_quiet (tr : list (nat * ev)) : Prop := forall t xy, In xy (pinv t tr) -> cok (fst xy) = true.

Lemma pinv_in t : forall tr, pinv t tr <> [] -> In t (map fst tr).
Proof.
  induction tr as [|[u v] r IH]; intros H; [now contradiction H|]. cbn [map fst In].
  destruct v as [k o ok|name args]; [right; now apply IH|]. destruct args as [|x [|y [|z w]]]; try (right; now apply IH).
  cbn [pinv] in H. destruct (String.eqb name "inv" && Nat.eqb u t) eqn:E; [|right; now apply IH].
  apply andb_true_iff in E. destruct E as [_ E]. apply Nat.eqb_eq in E. now left.
Qed.

Definition ext_quietb (tr : list (nat * ev)) : bool :=
  forallb (fun t => forallb (fun xy : Z * Z => cok (fst xy)) (pinv t tr)) (map fst tr).

Lemma ext_quietb_spec tr : ext_quietb tr = true -> ext_quiet tr.
Proof.
  intros H t xy Hin. unfold ext_quietb in H. rewrite forallb_forall in H.
  assert (Ht : In t (map fst tr)) by (apply pinv_in; intros E; rewrite E in Hin; destruct Hin).
  specialize (H t Ht). rewrite forallb_forall in H. now apply H.
Qed.

(** for EVERY schedule: the full client history — extract_min / extract_max -> k presented as "erase k -> true", -> empty as
    a strict extract on the empty set, as [client_history] does — is linearizable w.r.t. the sequential set, whenever no
    extract is pending *)
Theorem skip_full_history_linearizable_ext fuel nodes ths c :
  nodes_ok nodes -> Forall (Forall op_ok) ths -> (List.length ths <= 63)%nat ->
  Conc.reach (init_cfg fuel nodes ths) c -> ~ exhausted (Conc.trace c) -> ext_quiet (Conc.trace c) ->
  linearizable SetSpec (client_history nodes (Conc.trace c)).
Proof.
  intros Hn Ho Hlen Hr Hne Hq.
  destruct (Conc.reach_Inv (init_cfg_ok3 (mkCfg0 nodes false) fuel ths eq_refl Hn Ho Hlen) Hr) as (a & Hs & He & [Hil|Hx]); [|contradiction].
  pose proof (full_history_of_IL2 _ _ _ _ Hil Hq) as H4. cbn [c_nodes] in H4. rewrite <- H4.
  destruct Hil as [(S & st & H1 & _) _ _ _]. apply lp_valid_linearizable. exists (S, st). exact H1.
Qed.

(** without the side condition: the history in which a pending extract that has already marked its victim k is presented
    as the pending "erase k" it will turn out to be ([history_h] with the hint (1, k)) is linearizable *)
Theorem skip_full_history_linearizable_hint fuel nodes ths c :
  nodes_ok nodes -> Forall (Forall op_ok) ths -> (List.length ths <= 63)%nat ->
  Conc.reach (init_cfg fuel nodes ths) c -> ~ exhausted (Conc.trace c) ->
  exists tg : hint,
    linearizable SetSpec (prefill_history nodes ++ history_h tg (fun _ => 0) (Conc.trace c)) /\
    (forall t, tg t = (0, 0) \/ exists k, tg t = (1, k) /\ (pinv t (Conc.trace c) = [(13, 0)] \/ pinv t (Conc.trace c) = [(14, 0)])).
Proof.
  intros Hn Ho Hlen Hr Hne.
  destruct (Conc.reach_Inv (init_cfg_ok3 (mkCfg0 nodes false) fuel ths eq_refl Hn Ho Hlen) Hr) as (a & Hs & He & [Hil|Hx]); [|contradiction].
  exists (vtg a). destruct Hil as [(S & st & H1 & _) H4 H5 _]. cbn [c_nodes] in H4. split.
  - rewrite <- H4. apply lp_valid_linearizable. exists (S, st). exact H1.
  - intros t. unfold vtg. rewrite (H5 t). destruct (vst (fst (view2 a t))) as [|o|o r]; try (now left).
    destruct o; try (now left); destruct r as [|b|[k|]|b1 b2]; try (now left); right; exists k; split; auto.
Qed.

(** the runs executed by the step-correspondence check *)
Theorem run_case_full_linearizable_ext cfg ths sched fuel :
  (List.length ths <= 63)%nat -> exhaustedb (fst (run_case cfg ths sched fuel)) = false ->
  ext_quietb (fst (run_case cfg ths sched fuel)) = true ->
  linearizable SetSpec (client_history (prefill_nodes cfg) (fst (run_case cfg ths sched fuel))).
Proof.
  intros Hlen Hex Hq. unfold run_case in *. cbn [fst] in *.
  apply (skip_full_history_linearizable_ext 60 (prefill_nodes cfg) (map decode_ops ths)); [apply prefill_nodes_ok| |now rewrite map_length|apply Conc.run_reach|now apply exhaustedb_false|now apply ext_quietb_spec].
  apply Forall_forall. intros os Hin. apply in_map_iff in Hin. destruct Hin as (x & <- & _). apply decode_ops_ok.
Qed.

(** towers, programs of all five operations (also after an out-of-fuel event) *)
Theorem skip_towers_ext fuel nodes ths c :
  nodes_ok nodes -> Forall (Forall op_ok) ths -> (List.length ths <= 63)%nat ->
  Conc.reach (init_cfg fuel nodes ths) c ->
  (forall p l, fst (nxt (Conc.shared c) p l) = null \/ (l < hgt_of (Conc.shared c) (fst (nxt (Conc.shared c) p l)))%nat) /\
  (forall q n l, In q (chain (Conc.shared c) 0 head n) -> snd (nxt (Conc.shared c) q 0) = true ->
     (1 <= l < hgt_of (Conc.shared c) q)%nat -> snd (nxt (Conc.shared c) q l) = true).
Proof.
  intros Hn Ho Hlen Hr. destruct (Conc.reach_Inv (init_cfg_ok3 (mkCfg0 nodes false) fuel ths eq_refl Hn Ho Hlen) Hr) as (a & Hs & He & _).
  split; [apply (e_h1 _ _ He)|]. intros q n l Hin Hm Hl. apply (e_h2 _ _ He); auto.
  destruct (chain_in_link _ _ _ _ _ Hin) as (p' & E & Nq). destruct (s_closed _ _ Hs p' 0%nat) as [X|X]; [congruence|]. now rewrite E in X.
Qed.

(** upper levels vs the bottom level, for every schedule: a node on the list of ANY level l whose level-l cell is unmarked
    is not logically deleted and is on the level-0 list.  (For l = 0 this is trivial; the statement for ADJACENT levels,
    [skip_levels_are_sublists_statement] of Properties_C15, needs ghost chains for the upper levels and is still open.) *)
Theorem skip_unmarked_level_on_level0 fuel nodes ths c l n q :
  nodes_ok nodes -> Forall (Forall op_ok) ths -> (List.length ths <= 63)%nat ->
  Conc.reach (init_cfg fuel nodes ths) c ->
  In q (chain (Conc.shared c) l head n) -> snd (nxt (Conc.shared c) q l) = false ->
  snd (nxt (Conc.shared c) q 0) = false /\ exists m, In q (chain (Conc.shared c) 0 head m).
Proof.
  intros Hn Ho Hlen Hr Hin Hm. destruct (Conc.reach_Inv (init_cfg_ok3 (mkCfg0 nodes false) fuel ths eq_refl Hn Ho Hlen) Hr) as (a & Hs & He & _).
  destruct (chain_in_link _ _ _ _ _ Hin) as (p' & E & Nq).
  assert (Hp : apub (b_base a) q = true) by (destruct (s_closed _ _ Hs p' l) as [X|X]; [congruence|now rewrite E in X]).
  assert (Hh : (l < hgt_of (Conc.shared c) q)%nat) by (destruct (e_h1 _ _ He p' l) as [X|X]; [congruence|now rewrite E in X]).
  assert (H0 : snd (nxt (Conc.shared c) q 0) = false).
  { destruct l as [|l']; [exact Hm|]. destruct (snd (nxt (Conc.shared c) q 0)) eqn:E0; [|reflexivity].
    pose proof (e_h2 _ _ He q (S l') Hp E0 ltac:(lia)) as X. congruence. }
  split; [exact H0|]. exists (List.length (aL (b_base a))). rewrite (walk_chain _ _ _ (s_walk _ _ Hs)). now apply (s_inL _ _ Hs).
Qed.
