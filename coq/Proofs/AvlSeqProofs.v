(** * The sequential Bronson AVL model: search-tree order and exact traversal for ALL operation sequences;
      AVL balance and exact stored heights are REFUTED (witnesses at the end). *)
From Coq Require Import ZArith List Bool Lia.
From LV Require Import Model.SkipSeq Model.AvlSeq Proofs.SkipSeqProofs.
Import ListNotations.
Local Open Scope Z_scope.

(** ** in-order lists through the zipper *)
Definition fpre (f : frame) : list (Z * option Z) :=
  match fd f with DL => [] | DR => ia (fs f) ++ [(fk f, fv f)] end.
Definition fpost (f : frame) : list (Z * option Z) :=
  match fd f with DL => (fk f, fv f) :: ia (fs f) | DR => [] end.
Fixpoint pre (p : list frame) : list (Z * option Z) :=
  match p with [] => [] | f :: p' => pre p' ++ fpre f end.
Fixpoint post (p : list frame) : list (Z * option Z) :=
  match p with [] => [] | f :: p' => fpost f ++ post p' end.

Lemma ia_plug f t : ia (plug f t) = fpre f ++ ia t ++ fpost f.
Proof.
  unfold plug, fpre, fpost. destruct (fd f); cbn [ia app].
  - reflexivity.
  - now rewrite <- app_assoc, app_nil_r.
Qed.

Lemma ia_zip p : forall t, ia (zip p t) = pre p ++ ia t ++ post p.
Proof.
  induction p as [|f p IH]; intros t; cbn [zip pre post].
  - now rewrite app_nil_r.
  - rewrite IH, ia_plug. now rewrite <- !app_assoc.
Qed.

(** [dn l l']: l' is l with some value-less entries removed (routing nodes unlinked by the repair loop) *)
Inductive dn : list (Z * option Z) -> list (Z * option Z) -> Prop :=
| dn_nil : dn [] []
| dn_keep x l l' : dn l l' -> dn (x :: l) (x :: l')
| dn_drop k l l' : dn l l' -> dn ((k, None) :: l) l'.

Lemma dn_refl l : dn l l.
Proof. induction l; constructor; auto. Qed.
Lemma dn_trans a b c : dn a b -> dn b c -> dn a c.
Proof.
  intros H. revert c. induction H; intros c Hc; auto.
  - inversion Hc; subst; [apply dn_keep; auto|apply dn_drop; auto].
  - apply dn_drop; auto.
Qed.
Lemma dn_app a a' b b' : dn a a' -> dn b b' -> dn (a ++ b) (a' ++ b').
Proof. induction 1; cbn; intros; auto; [apply dn_keep; auto|apply dn_drop; auto]. Qed.
Lemma dn_valued a b : dn a b -> valued a = valued b.
Proof. induction 1; cbn; auto. destruct x as [k [v|]]; congruence. Qed.
Lemma dn_sub a b : dn a b -> sub (map fst b) (map fst a).
Proof. induction 1; cbn; [apply sub_nil|apply sub_keep; auto|apply sub_skip; auto]. Qed.

Lemma inc_sub (l' l : list Z) : sub l' l -> inc l -> inc l'.
Proof.
  induction 1 as [l|x l1 l2 H IH|x l1 l2 H IH]; cbn; intros S; auto.
  - apply IH, S.
  - destruct S as [F S]. split; [|auto]. rewrite Forall_forall in *. intros y Hy. apply F. eapply sub_In; eauto.
Qed.

Definition keys (t : tree) : list Z := map fst (ia t).
Definition bst (t : tree) : Prop := inc (keys t).

Lemma dn_zip p t t' : dn (ia t) (ia t') -> dn (ia (zip p t)) (ia (zip p t')).
Proof. intros H. rewrite !ia_zip. apply dn_app; [apply dn_refl|]. apply dn_app; [exact H|apply dn_refl]. Qed.

(** the tree denoted by a repair-step result *)
Definition oz (o : out) : tree := match o with Done p t | Cont p t => zip p t end.

Lemma ia_height l k v h h' r : ia (N l k v h r) = ia (N l k v h' r).
Proof. reflexivity. Qed.

Lemma fix_height_locked_ia p t : ia (oz (fix_height_locked p t)) = ia (zip p t).
Proof.
  unfold fix_height_locked. destruct t as [|l k v h r]; [reflexivity|].
  destruct (estimate (N l k v h r)); try reflexivity.
  destruct p as [|f p']; cbn [oz zip]; rewrite ?ia_zip, ?ia_plug; reflexivity.
Qed.

Lemma fixh_parent_ia p t : ia (oz (fixh_parent p t)) = ia (zip p t).
Proof. unfold fixh_parent. destruct p as [|f p']; [reflexivity|]. now rewrite fix_height_locked_ia. Qed.

Ltac zip_ia := cbn [oz zip]; rewrite ?fixh_parent_ia; rewrite ?ia_zip; cbn [plug fd fk fv fh fs ia];
  repeat (progress (rewrite <- ?app_assoc; cbn [app])); reflexivity.

Lemma rot_right_ia p n : ia (oz (rot_right p n)) = ia (zip p n).
Proof.
  unfold rot_right. destruct n as [|[|ll lk lv lh lr] k v h r]; try reflexivity.
  repeat match goal with |- context [if ?b then _ else _] => destruct b end; zip_ia.
Qed.
Lemma rot_left_ia p n : ia (oz (rot_left p n)) = ia (zip p n).
Proof.
  unfold rot_left. destruct n as [|l k v h [|rl rk rv rh rr]]; try reflexivity.
  repeat match goal with |- context [if ?b then _ else _] => destruct b end; zip_ia.
Qed.
Lemma rot_right_over_left_ia p n : ia (oz (rot_right_over_left p n)) = ia (zip p n).
Proof.
  unfold rot_right_over_left. destruct n as [|[|ll lk lv lh [|lrl lrk lrv lrh lrr]] k v h r]; try reflexivity.
  repeat match goal with |- context [if ?b then _ else _] => destruct b end; zip_ia.
Qed.
Lemma rot_left_over_right_ia p n : ia (oz (rot_left_over_right p n)) = ia (zip p n).
Proof.
  unfold rot_left_over_right. destruct n as [|l k v h [|[|rll rlk rlv rlh rlr] rk rv rh rr]]; try reflexivity.
  repeat match goal with |- context [if ?b then _ else _] => destruct b end; zip_ia.
Qed.

Lemma rebal_ia n : forall p, ia (oz (rebal_right p n)) = ia (zip p n) /\ ia (oz (rebal_left p n)) = ia (zip p n).
Proof.
  induction n as [|l IHl k v h r IHr]; intros p; [split; reflexivity|]. split.
  - cbn [rebal_right]. destruct l as [|ll lk lv lh lr]; [reflexivity|].
    destruct (lh - ht r <=? 1); [reflexivity|].
    destruct lr as [|lrl lrk lrv lrh lrr].
    + destruct (ht E <? ht ll); [apply rot_right_ia|reflexivity].
    + destruct (ht (N lrl lrk lrv lrh lrr) <=? ht ll); [apply rot_right_ia|].
      match goal with |- context [if ?b then _ else _] => destruct b end; [apply rot_right_over_left_ia|].
      exact (proj2 (IHl (F DL k v h r :: p))).
  - cbn [rebal_left]. destruct r as [|rl rk rv rh rr]; [reflexivity|].
    destruct (-1 <=? ht l - rh); [reflexivity|].
    destruct rl as [|rll rlk rlv rlh rlr].
    + destruct (ht E <? ht rr); [apply rot_left_ia|reflexivity].
    + destruct (ht (N rll rlk rlv rlh rlr) <=? ht rr); [apply rot_left_ia|].
      match goal with |- context [if ?b then _ else _] => destruct b end; [apply rot_left_over_right_ia|].
      exact (proj1 (IHr (F DR k v h l :: p))).
Qed.

Lemma rebalance_locked_dn p n : dn (ia (zip p n)) (ia (oz (rebalance_locked p n))).
Proof.
  unfold rebalance_locked. destruct n as [|l k v h r]; [apply dn_refl|].
  destruct ((isE l || isE r) && isNone v) eqn:U.
  - rewrite fixh_parent_ia. apply dn_zip. apply andb_true_iff in U. destruct U as [U1 U2].
    destruct v; [discriminate|]. destruct l as [|? ? ? ? ?]; cbn [isE ia app].
    + apply dn_drop, dn_refl.
    + destruct r; [|discriminate]. cbn [ia]. apply dn_app; [apply dn_refl|]. apply dn_keep. apply dn_drop, dn_nil.
  - destruct (1 <? ht l - ht r); [rewrite (proj1 (rebal_ia _ _)); apply dn_refl|].
    destruct (ht l - ht r <? -1); [rewrite (proj2 (rebal_ia _ _)); apply dn_refl|].
    destruct (negb (h =? 1 + Z.max (ht l) (ht r))); [rewrite fixh_parent_ia; apply dn_refl|apply dn_refl].
Qed.

Lemma fix_loop_dn fuel : forall p t T, fix_loop fuel p t = Some T -> dn (ia (zip p t)) (ia T).
Proof.
  induction fuel as [|f IH]; intros p t T H; [discriminate|]. cbn [fix_loop] in H.
  destruct (estimate t).
  - inversion H; subst. apply dn_refl.
  - pose proof (rebalance_locked_dn p t) as D. destruct (rebalance_locked p t) as [p' t'|p' t']; cbn [oz] in D.
    + inversion H; subst. exact D.
    + eapply dn_trans; [exact D|]. now apply IH.
  - pose proof (rebalance_locked_dn p t) as D. destruct (rebalance_locked p t) as [p' t'|p' t']; cbn [oz] in D.
    + inversion H; subst. exact D.
    + eapply dn_trans; [exact D|]. now apply IH.
  - pose proof (fix_height_locked_ia p t) as D. destruct (fix_height_locked p t) as [p' t'|p' t']; cbn [oz] in D.
    + inversion H; subst. rewrite D. apply dn_refl.
    + rewrite <- D. now apply IH.
Qed.

Lemma run_out_dn fuel o T : run_out fuel o = Some T -> dn (ia (oz o)) (ia T).
Proof.
  destruct o as [p t|p t]; cbn [run_out oz]; intros H; [inversion H; apply dn_refl|now apply (fix_loop_dn fuel)].
Qed.
