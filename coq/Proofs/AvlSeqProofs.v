(** * The sequential Bronson AVL model: search-tree order and exact traversal for ALL operation sequences;
      AVL balance and exact stored heights are REFUTED (witnesses at the end). *)
From Coq Require Import ZArith List Bool Lia.
From LV Require Import Model.SkipSeq Model.AvlSeq Proofs.SkipSeqProofs.
Import ListNotations.
Local Open Scope Z_scope.

(** ** in-order lists through the zipper *)
Definition fpre (f : frame) : list (Z * option Z) :=
  match fd f with DL => [] | DR => ia (fs f) ++ [(fk f, fv f)] end.
Definition fpost (f : frame) : list (Z * option Z) :=
  match fd f with DL => (fk f, fv f) :: ia (fs f) | DR => [] end.
Fixpoint pre (p : list frame) : list (Z * option Z) :=
  match p with [] => [] | f :: p' => pre p' ++ fpre f end.
Fixpoint post (p : list frame) : list (Z * option Z) :=
  match p with [] => [] | f :: p' => fpost f ++ post p' end.

Lemma ia_plug f t : ia (plug f t) = fpre f ++ ia t ++ fpost f.
Proof.
  unfold plug, fpre, fpost. destruct (fd f); cbn [ia app].
  - reflexivity.
  - now rewrite <- app_assoc, app_nil_r.
Qed.

Lemma ia_zip p : forall t, ia (zip p t) = pre p ++ ia t ++ post p.
Proof.
  induction p as [|f p IH]; intros t; cbn [zip pre post].
  - now rewrite app_nil_r.
  - rewrite IH, ia_plug. now rewrite <- !app_assoc.
Qed.

(** [dn l l']: l' is l with some value-less entries removed (routing nodes unlinked by the repair loop) *)
Inductive dn : list (Z * option Z) -> list (Z * option Z) -> Prop :=
| dn_nil : dn [] []
| dn_keep x l l' : dn l l' -> dn (x :: l) (x :: l')
| dn_drop k l l' : dn l l' -> dn ((k, None) :: l) l'.

Lemma dn_refl l : dn l l.
Proof. induction l; constructor; auto. Qed.
Lemma dn_trans a b c : dn a b -> dn b c -> dn a c.
Proof.
  intros H. revert c. induction H; intros c Hc; auto.
  - inversion Hc; subst; [apply dn_keep; auto|apply dn_drop; auto].
  - apply dn_drop; auto.
Qed.
Lemma dn_app a a' b b' : dn a a' -> dn b b' -> dn (a ++ b) (a' ++ b').
Proof. induction 1; cbn; intros; auto; [apply dn_keep; auto|apply dn_drop; auto]. Qed.
Lemma dn_valued a b : dn a b -> valued a = valued b.
Proof. induction 1; cbn; auto. destruct x as [k [v|]]; congruence. Qed.
Lemma dn_sub a b : dn a b -> sub (map fst b) (map fst a).
Proof. induction 1; cbn; [apply sub_nil|apply sub_keep; auto|apply sub_skip; auto]. Qed.

Lemma inc_sub (l' l : list Z) : sub l' l -> inc l -> inc l'.
Proof.
  induction 1 as [l|x l1 l2 H IH|x l1 l2 H IH]; cbn; intros S; auto.
  - apply IH, S.
  - destruct S as [F S]. split; [|auto]. rewrite Forall_forall in *. intros y Hy. apply F. eapply sub_In; eauto.
Qed.

Definition keys (t : tree) : list Z := map fst (ia t).
Definition bst (t : tree) : Prop := inc (keys t).

Lemma dn_zip p t t' : dn (ia t) (ia t') -> dn (ia (zip p t)) (ia (zip p t')).
Proof. intros H. rewrite !ia_zip. apply dn_app; [apply dn_refl|]. apply dn_app; [exact H|apply dn_refl]. Qed.

(** the tree denoted by a repair-step result *)
Definition oz (o : out) : tree := match o with Done p t | Cont p t => zip p t end.

Lemma ia_height l k v h h' r : ia (N l k v h r) = ia (N l k v h' r).
Proof. reflexivity. Qed.

Lemma fix_height_locked_ia p t : ia (oz (fix_height_locked p t)) = ia (zip p t).
Proof.
  unfold fix_height_locked. destruct t as [|l k v h r]; [reflexivity|].
  destruct (estimate (N l k v h r)); try reflexivity.
  destruct p as [|f p']; cbn [oz zip]; rewrite ?ia_zip, ?ia_plug; reflexivity.
Qed.

Lemma fixh_parent_ia p t : ia (oz (fixh_parent p t)) = ia (zip p t).
Proof. unfold fixh_parent. destruct p as [|f p']; [reflexivity|]. now rewrite fix_height_locked_ia. Qed.

Ltac zip_ia := cbn [oz zip]; rewrite ?fixh_parent_ia; rewrite ?ia_zip; cbn [plug fd fk fv fh fs ia];
  repeat (progress (rewrite <- ?app_assoc; cbn [app])); reflexivity.

Lemma rot_right_ia p n : ia (oz (rot_right p n)) = ia (zip p n).
Proof.
  unfold rot_right. destruct n as [|[|ll lk lv lh lr] k v h r]; try reflexivity.
  repeat match goal with |- context [if ?b then _ else _] => destruct b end; zip_ia.
Qed.
Lemma rot_left_ia p n : ia (oz (rot_left p n)) = ia (zip p n).
Proof.
  unfold rot_left. destruct n as [|l k v h [|rl rk rv rh rr]]; try reflexivity.
  repeat match goal with |- context [if ?b then _ else _] => destruct b end; zip_ia.
Qed.
Lemma rot_right_over_left_ia p n : ia (oz (rot_right_over_left p n)) = ia (zip p n).
Proof.
  unfold rot_right_over_left. destruct n as [|[|ll lk lv lh [|lrl lrk lrv lrh lrr]] k v h r]; try reflexivity.
  repeat match goal with |- context [if ?b then _ else _] => destruct b end; zip_ia.
Qed.
Lemma rot_left_over_right_ia p n : ia (oz (rot_left_over_right p n)) = ia (zip p n).
Proof.
  unfold rot_left_over_right. destruct n as [|l k v h [|[|rll rlk rlv rlh rlr] rk rv rh rr]]; try reflexivity.
  repeat match goal with |- context [if ?b then _ else _] => destruct b end; zip_ia.
Qed.

Lemma rebal_ia n : forall p, ia (oz (rebal_right p n)) = ia (zip p n) /\ ia (oz (rebal_left p n)) = ia (zip p n).
Proof.
  induction n as [|l IHl k v h r IHr]; intros p; [split; reflexivity|]. split.
  - cbn [rebal_right]. destruct l as [|ll lk lv lh lr]; [reflexivity|].
    destruct (lh - ht r <=? 1); [reflexivity|].
    destruct lr as [|lrl lrk lrv lrh lrr].
    + destruct (ht E <? ht ll); [apply rot_right_ia|reflexivity].
    + destruct (ht (N lrl lrk lrv lrh lrr) <=? ht ll); [apply rot_right_ia|].
      match goal with |- context [if ?b then _ else _] => destruct b end; [apply rot_right_over_left_ia|].
      exact (proj2 (IHl (F DL k v h r :: p))).
  - cbn [rebal_left]. destruct r as [|rl rk rv rh rr]; [reflexivity|].
    destruct (-1 <=? ht l - rh); [reflexivity|].
    destruct rl as [|rll rlk rlv rlh rlr].
    + destruct (ht E <? ht rr); [apply rot_left_ia|reflexivity].
    + destruct (ht (N rll rlk rlv rlh rlr) <=? ht rr); [apply rot_left_ia|].
      match goal with |- context [if ?b then _ else _] => destruct b end; [apply rot_left_over_right_ia|].
      exact (proj1 (IHr (F DR k v h l :: p))).
Qed.

Lemma dn_mid a k b : dn (a ++ (k, None) :: b) (a ++ b).
Proof. apply dn_app; [apply dn_refl|apply dn_drop, dn_refl]. Qed.

Lemma splice_ia l r : isE l || isE r = true -> ia (if isE l then r else l) = ia l ++ ia r.
Proof. destruct l; cbn [isE]; [reflexivity|]. destruct r; cbn [isE orb ia]; [now rewrite app_nil_r|discriminate]. Qed.

Lemma rebalance_locked_dn p n : dn (ia (zip p n)) (ia (oz (rebalance_locked p n))).
Proof.
  unfold rebalance_locked. destruct n as [|l k v h r]; [apply dn_refl|].
  destruct ((isE l || isE r) && isNone v) eqn:U.
  - rewrite fixh_parent_ia. apply dn_zip. apply andb_true_iff in U. destruct U as [U1 U2].
    destruct v; [discriminate|]. rewrite (splice_ia l r U1). cbn [ia]. apply dn_mid.
  - destruct (1 <? ht l - ht r); [rewrite (proj1 (rebal_ia _ _)); apply dn_refl|].
    destruct (ht l - ht r <? -1); [rewrite (proj2 (rebal_ia _ _)); apply dn_refl|].
    destruct (negb (h =? 1 + Z.max (ht l) (ht r))); [rewrite fixh_parent_ia, !ia_zip; cbn [ia]; apply dn_refl|apply dn_refl].
Qed.

Lemma fix_loop_dn fuel : forall p t T, fix_loop fuel p t = Some T -> dn (ia (zip p t)) (ia T).
Proof.
  induction fuel as [|f IH]; intros p t T H; [discriminate|]. cbn [fix_loop] in H.
  destruct (estimate t).
  - inversion H; subst. apply dn_refl.
  - pose proof (rebalance_locked_dn p t) as D. destruct (rebalance_locked p t) as [p' t'|p' t']; cbn [oz] in D.
    + inversion H; subst. exact D.
    + eapply dn_trans; [exact D|]. now apply IH.
  - pose proof (rebalance_locked_dn p t) as D. destruct (rebalance_locked p t) as [p' t'|p' t']; cbn [oz] in D.
    + inversion H; subst. exact D.
    + eapply dn_trans; [exact D|]. now apply IH.
  - pose proof (fix_height_locked_ia p t) as D. destruct (fix_height_locked p t) as [p' t'|p' t']; cbn [oz] in D.
    + inversion H; subst. rewrite D. apply dn_refl.
    + rewrite <- D. now apply IH.
Qed.

Lemma run_out_dn fuel o T : run_out fuel o = Some T -> dn (ia (oz o)) (ia T).
Proof.
  destruct o as [p t|p t]; cbn [run_out oz]; intros H; [inversion H; apply dn_refl|now apply (fix_loop_dn fuel)].
Qed.

(** ** operations: the traversal changes exactly like the sorted association list *)
Lemma valued_app a b : valued (a ++ b) = valued a ++ valued b.
Proof. induction a as [|[k [v|]] a IH]; cbn; congruence. Qed.

Lemma valued_keys l x : In x (map fst (valued l)) -> In x (map fst l).
Proof. induction l as [|[k [v|]] l IH]; cbn; tauto. Qed.

Lemma valued_sub l : sub (map fst (valued l)) (map fst l).
Proof. induction l as [|[k [v|]] l IH]; cbn; [apply sub_nil|apply sub_keep; auto|apply sub_skip; auto]. Qed.

Definition lo (k : Z) (l : list (Z * option Z)) : Prop := forall x, In x (map fst l) -> x < k.
Definition hi (k : Z) (l : list (Z * option Z)) : Prop := forall x, In x (map fst l) -> k < x.
Definition slo (k : Z) (l : list (Z * Z)) : Prop := forall x, In x (map fst l) -> x < k.
Definition shi (k : Z) (l : list (Z * Z)) : Prop := forall x, In x (map fst l) -> k < x.

Lemma lo_valued k l : lo k l -> slo k (valued l).
Proof. intros H x Hx. apply H. now apply valued_keys. Qed.
Lemma hi_valued k l : hi k l -> shi k (valued l).
Proof. intros H x Hx. apply H. now apply valued_keys. Qed.

Lemma sl_put_app_r ow k v A B : slo k A -> sl_put ow k v (A ++ B) = A ++ sl_put ow k v B.
Proof.
  induction A as [|[a w] A IH]; intros H; cbn [app sl_put]; [reflexivity|].
  assert (a < k) by (apply H; now left). destruct (Z.ltb_spec k a); [lia|]. destruct (Z.eqb_spec k a); [lia|].
  f_equal. apply IH. intros x Hx. apply H. now right.
Qed.
Lemma sl_put_app_l ow k v A B : shi k B -> sl_put ow k v (A ++ B) = sl_put ow k v A ++ B.
Proof.
  intros H. induction A as [|[a w] A IH]; cbn [app sl_put].
  - destruct B as [|[b w] B]; [reflexivity|]. cbn [sl_put]. assert (k < b) by (apply H; now left).
    destruct (Z.ltb_spec k b); [reflexivity|lia].
  - destruct (k <? a); [reflexivity|]. destruct (k =? a); [destruct ow; reflexivity|]. cbn [app]. now rewrite IH.
Qed.
Lemma sl_upd_none k v B : shi k B -> sl_upd k v B = B.
Proof.
  induction B as [|[b w] B IH]; intros H; cbn [sl_upd]; [reflexivity|]. assert (k < b) by (apply H; now left).
  destruct (Z.eqb_spec k b); [lia|]. f_equal. apply IH. intros x Hx. apply H. now right.
Qed.
Lemma sl_upd_app_r k v A B : slo k A -> sl_upd k v (A ++ B) = A ++ sl_upd k v B.
Proof.
  induction A as [|[a w] A IH]; intros H; cbn [app sl_upd]; [reflexivity|].
  assert (a < k) by (apply H; now left). destruct (Z.eqb_spec k a); [lia|]. f_equal. apply IH. intros x Hx. apply H. now right.
Qed.
Lemma sl_upd_app_l k v A B : shi k B -> sl_upd k v (A ++ B) = sl_upd k v A ++ B.
Proof.
  intros H. induction A as [|[a w] A IH]; cbn [app sl_upd]; [now apply sl_upd_none|].
  destruct (k =? a); [reflexivity|]. cbn [app]. now rewrite IH.
Qed.
Lemma sl_del_none k B : shi k B -> sl_del k B = B.
Proof.
  induction B as [|[b w] B IH]; intros H; cbn [sl_del]; [reflexivity|]. assert (k < b) by (apply H; now left).
  destruct (Z.eqb_spec k b); [lia|]. f_equal. apply IH. intros x Hx. apply H. now right.
Qed.
Lemma sl_del_app_r k A B : slo k A -> sl_del k (A ++ B) = A ++ sl_del k B.
Proof.
  induction A as [|[a w] A IH]; intros H; cbn [app sl_del]; [reflexivity|].
  assert (a < k) by (apply H; now left). destruct (Z.eqb_spec k a); [lia|]. f_equal. apply IH. intros x Hx. apply H. now right.
Qed.
Lemma sl_del_app_l k A B : shi k B -> sl_del k (A ++ B) = sl_del k A ++ B.
Proof.
  intros H. induction A as [|[a w] A IH]; cbn [app sl_del]; [now apply sl_del_none|].
  destruct (k =? a); [reflexivity|]. cbn [app]. now rewrite IH.
Qed.

(** a key-local operation on sorted association lists *)
Definition keylocal (k : Z) (op : list (Z * Z) -> list (Z * Z)) : Prop :=
  (forall A B, slo k A -> op (A ++ B) = A ++ op B) /\ (forall A B, shi k B -> op (A ++ B) = op A ++ B).

Lemma keylocal_put ow k v : keylocal k (sl_put ow k v).
Proof. split; intros; [now apply sl_put_app_r|now apply sl_put_app_l]. Qed.
Lemma keylocal_upd k v : keylocal k (sl_upd k v).
Proof. split; intros; [now apply sl_upd_app_r|now apply sl_upd_app_l]. Qed.
Lemma keylocal_del k : keylocal k (sl_del k).
Proof. split; intros; [now apply sl_del_app_r|now apply sl_del_app_l]. Qed.
Lemma keylocal_id k : keylocal k (fun l => l).
Proof. split; intros; reflexivity. Qed.

Lemma ctx_op k op A B Y Y' : keylocal k op -> lo k A -> hi k B -> op (valued Y) = valued Y' ->
  op (valued (A ++ Y ++ B)) = valued (A ++ Y' ++ B).
Proof.
  intros [K1 K2] HA HB HY. rewrite !valued_app. rewrite K1 by now apply lo_valued. rewrite K2 by now apply hi_valued.
  now rewrite HY.
Qed.

(** the operation chosen by the flags of do_update *)
Definition upd_op (ai au : bool) (k v : Z) : list (Z * Z) -> list (Z * Z) :=
  if ai then (if au then sl_put true k v else sl_put false k v) else (if au then sl_upd k v else fun l => l).

Lemma keylocal_upd_op ai au k v : keylocal k (upd_op ai au k v).
Proof. unfold upd_op. destruct ai, au; auto using keylocal_put, keylocal_upd, keylocal_id. Qed.

Lemma upd_op_entry ai au k v v' :
  upd_op ai au k v (valued [(k, v')]) =
  valued [(k, match v' with Some x => if au then Some v else Some x | None => if ai then Some v else None end)].
Proof. unfold upd_op. destruct ai, au, v'; cbn; rewrite ?Z.eqb_refl, ?Z.ltb_irrefl; reflexivity. Qed.

Lemma upd_op_nil ai au k v : upd_op ai au k v [] = if ai then [(k, v)] else [].
Proof. unfold upd_op. destruct ai, au; reflexivity. Qed.

Lemma inc_insert_mid A B k : inc (A ++ B) -> (forall a, In a A -> a < k) -> (forall b, In b B -> k < b) -> inc (A ++ k :: B).
Proof.
  induction A as [|a A IH]; cbn [app inc]; intros S HA HB.
  - split; [apply Forall_forall; exact HB|exact S].
  - destruct S as [F S]. split; [|apply IH; [exact S|intros a0 Ha0; apply HA; now right|exact HB]].
    rewrite Forall_forall in *. intros y Hy.
    apply in_app_or in Hy. destruct Hy as [Hy|[<-|Hy]]; [apply F, in_or_app; now left|apply HA; now left|apply F, in_or_app; now right].
Qed.

Definition kl (l : list (Z * option Z)) : list Z := map fst l.

Lemma inc_mid_bounds A k B : inc (A ++ k :: B) -> (forall a, In a A -> a < k) /\ (forall b, In b B -> k < b).
Proof.
  intros S. apply inc_app_inv in S. destruct S as (_ & S2 & S3). split.
  - intros a Ha. apply S3; [exact Ha|now left].
  - cbn in S2. destruct S2 as [F _]. rewrite Forall_forall in F. exact F.
Qed.

Definition Ctx (k : Z) (p : list frame) : Prop := lo k (pre p) /\ hi k (post p).

Lemma kl_app a b : kl (a ++ b) = kl a ++ kl b.
Proof. apply map_app. Qed.

(** local shape of the in-order list around a node *)
Lemma whole_node p l k v h r : ia (zip p (N l k v h r)) = (pre p ++ ia l) ++ [(k, v)] ++ (ia r ++ post p).
Proof. rewrite ia_zip. cbn [ia app]. now rewrite <- !app_assoc. Qed.

Lemma node_bounds p l k v h r : inc (kl (ia (zip p (N l k v h r)))) -> lo k (pre p ++ ia l) /\ hi k (ia r ++ post p).
Proof.
  rewrite whole_node. unfold kl. rewrite !map_app. cbn [map fst app]. intros S.
  destruct (inc_mid_bounds _ _ _ S) as [H1 H2]. split; intros x Hx; [apply H1|apply H2]; rewrite <- ?map_app; exact Hx.
Qed.

Lemma lo_app k A B : lo k (A ++ B) <-> lo k A /\ lo k B.
Proof.
  unfold lo. split.
  - intros H. split; intros x Hx; apply H; rewrite map_app; apply in_or_app; auto.
  - intros [H1 H2] x Hx. rewrite map_app in Hx. apply in_app_or in Hx. destruct Hx; auto.
Qed.
Lemma hi_app k A B : hi k (A ++ B) <-> hi k A /\ hi k B.
Proof.
  unfold hi. split.
  - intros H. split; intros x Hx; apply H; rewrite map_app; apply in_or_app; auto.
  - intros [H1 H2] x Hx. rewrite map_app in Hx. apply in_app_or in Hx. destruct Hx; auto.
Qed.
Lemma lo_cons k a x A : lo k ((a, x) :: A) <-> a < k /\ lo k A.
Proof.
  unfold lo. cbn [map fst In]. split.
  - intros H. split; [apply H; now left|intros y Hy; apply H; now right].
  - intros [H1 H2] y [<-|Hy]; auto.
Qed.
Lemma hi_cons k a x A : hi k ((a, x) :: A) <-> k < a /\ hi k A.
Proof.
  unfold hi. cbn [map fst In]. split.
  - intros H. split; [apply H; now left|intros y Hy; apply H; now right].
  - intros [H1 H2] y [<-|Hy]; auto.
Qed.
Lemma lo_nil k : lo k [].
Proof. intros x []. Qed.
Lemma hi_nil k : hi k [].
Proof. intros x []. Qed.
Lemma lo_weaken k k' A : lo k' A -> k' < k -> lo k A.
Proof. intros H L x Hx. specialize (H x Hx). lia. Qed.
Lemma hi_weaken k k' A : hi k' A -> k < k' -> hi k A.
Proof. intros H L x Hx. specialize (H x Hx). lia. Qed.

Lemma attach_spec A B T k v au :
  inc (kl (A ++ B)) -> lo k A -> hi k B -> dn (A ++ [(k, Some v)] ++ B) (ia T) ->
  inc (kl (ia T)) /\ valued (ia T) = upd_op true au k v (valued (A ++ [] ++ B)).
Proof.
  intros S HA HB D. split.
  - eapply inc_sub; [apply dn_sub; exact D|]. unfold kl in *. rewrite !map_app in *. cbn [map fst app].
    apply inc_insert_mid; [exact S|exact HA|exact HB].
  - rewrite <- (dn_valued _ _ D). symmetry. apply (ctx_op k _ A B [] [(k, Some v)] (keylocal_upd_op true au k v) HA HB).
    cbn [valued]. now rewrite upd_op_nil.
Qed.

Lemma noattach_spec A B k v au : lo k A -> hi k B ->
  valued (A ++ [] ++ B) = upd_op false au k v (valued (A ++ [] ++ B)).
Proof.
  intros HA HB. symmetry. apply (ctx_op k _ A B [] [] (keylocal_upd_op false au k v) HA HB). cbn [valued]. now rewrite upd_op_nil.
Qed.

Lemma upd_spec fuel ai au k v : forall t p T,
  inc (kl (ia (zip p t))) -> Ctx k p -> upd fuel ai au k v p t = Some T ->
  inc (kl (ia T)) /\ valued (ia T) = upd_op ai au k v (valued (ia (zip p t))).
Proof.
  induction t as [|l IHl k' v' h r IHr]; intros p T S [C1 C2] H.
  - (* empty position *)
    cbn [upd] in H. rewrite ia_zip in *. cbn [ia] in *. destruct ai; injection H as <-.
    + apply attach_spec; auto. rewrite ia_zip. cbn [ia]. apply dn_refl.
    + split; [rewrite ia_zip; exact S|]. rewrite ia_zip. cbn [ia]. now apply noattach_spec.
  - pose proof (node_bounds _ _ _ _ _ _ S) as [B1 B2].
    apply lo_app in B1. destruct B1 as [B1a B1b]. apply hi_app in B2. destruct B2 as [B2a B2b].
    cbn [upd] in H. destruct (Z.eqb_spec k k') as [<-|NE].
    + (* found: try_update_node *)
      injection H as <-.
      assert (LO : lo k (pre p ++ ia l)) by (apply lo_app; split; assumption).
      assert (HI : hi k (ia r ++ post p)) by (apply hi_app; split; assumption).
      destruct v' as [x|]; [destruct au|destruct ai]; rewrite !whole_node in *;
        (split; [unfold kl in *; rewrite !map_app in *; exact S|]); symmetry;
        apply (ctx_op k _ _ _ _ _ (keylocal_upd_op _ _ k v) LO HI); exact (upd_op_entry _ _ k v _).
    + destruct (Z.ltb_spec k k') as [LT|GE].
      * assert (HB : hi k ((k', v') :: ia r ++ post p)).
        { apply hi_cons. split; [exact LT|]. apply hi_app. split; eapply hi_weaken; eauto. }
        destruct l as [|ll lk lv lh lr].
        -- rewrite ia_zip in S. cbn [ia app] in S.
           destruct ai.
           ++ pose proof (run_out_dn _ _ _ H) as D. rewrite fix_height_locked_ia, ia_zip in D. cbn [ia app] in D.
              rewrite ia_zip. cbn [ia app].
              apply (attach_spec (pre p) ((k', v') :: ia r ++ post p) T k v au S C1 HB D).
           ++ injection H as <-. rewrite ia_zip. cbn [ia app]. split; [exact S|].
              apply (noattach_spec (pre p) ((k', v') :: ia r ++ post p) k v au C1 HB).
        -- apply (IHl (F DL k' v' h r :: p) T); [exact S| |exact H]. split; cbn [pre post fpre fpost fd fk fv fs].
           ++ now rewrite app_nil_r.
           ++ exact HB.
      * assert (GT : k' < k) by lia.
        assert (HA : lo k (pre p ++ ia l ++ [(k', v')])).
        { apply lo_app. split; [exact C1|]. apply lo_app. split; [eapply lo_weaken; eauto|]. apply lo_cons. split; [exact GT|apply lo_nil]. }
        destruct r as [|rl rk rv rh rr].
        -- rewrite ia_zip in S. cbn [ia app] in S.
           assert (R1 : forall Y, pre p ++ (ia l ++ (k', v') :: Y) ++ post p = (pre p ++ ia l ++ [(k', v')]) ++ Y ++ post p)
             by (intros Y; rewrite <- !app_assoc; reflexivity).
           rewrite (R1 []) in S. cbn [app] in S.
           destruct ai.
           ++ pose proof (run_out_dn _ _ _ H) as D. rewrite fix_height_locked_ia, ia_zip in D. cbn [ia app] in D.
              rewrite (R1 [(k, Some v)]) in D. rewrite ia_zip. cbn [ia app]. rewrite (R1 []).
              apply (attach_spec _ (post p) T k v au S HA C2 D).
           ++ injection H as <-. rewrite ia_zip. cbn [ia app]. rewrite (R1 []). split; [exact S|].
              apply (noattach_spec _ (post p) k v au HA C2).
        -- apply (IHr (F DR k' v' h l :: p) T); [exact S| |exact H]. split; cbn [pre post fpre fpost fd fk fv fs].
           ++ exact HA.
           ++ exact C2.
Qed.

Lemma sub_app_skip {A} (a b : list A) x : sub (a ++ b) (a ++ [x] ++ b).
Proof. induction a as [|y a IH]; cbn [app]; [apply sub_skip, sub_refl|apply sub_keep, IH]. Qed.

Lemma del_entry k x : sl_del k (valued [(k, x)]) = [].
Proof. destruct x; cbn; [now rewrite Z.eqb_refl|reflexivity]. Qed.

Lemma rem_spec fuel k : forall t p T,
  inc (kl (ia (zip p t))) -> Ctx k p -> rem fuel k p t = Some T ->
  inc (kl (ia T)) /\ valued (ia T) = sl_del k (valued (ia (zip p t))).
Proof.
  induction t as [|l IHl k' v' h r IHr]; intros p T S [C1 C2] H.
  - cbn [rem] in H. injection H as <-. split; [exact S|]. rewrite ia_zip. cbn [ia]. symmetry.
    apply (ctx_op k _ (pre p) (post p) [] [] (keylocal_del k) C1 C2). reflexivity.
  - pose proof (node_bounds _ _ _ _ _ _ S) as [B1 B2].
    apply lo_app in B1. destruct B1 as [B1a B1b]. apply hi_app in B2. destruct B2 as [B2a B2b].
    cbn [rem] in H. destruct (Z.eqb_spec k k') as [<-|NE].
    + (* found: try_remove_node *)
      assert (LO : lo k (pre p ++ ia l)) by (apply lo_app; split; assumption).
      assert (HI : hi k (ia r ++ post p)) by (apply hi_app; split; assumption).
      assert (W0 : forall Y, (pre p ++ ia l) ++ Y ++ ia r ++ post p = pre p ++ (ia l ++ Y ++ ia r) ++ post p)
        by (intros Y; rewrite <- !app_assoc; reflexivity).
      unfold remove_node in H. destruct v' as [x|].
      * destruct (isE l || isE r) eqn:U.
        -- pose proof (run_out_dn _ _ _ H) as D. rewrite fixh_parent_ia, ia_zip, (splice_ia l r U) in D.
           rewrite whole_node in *. split.
           ++ eapply inc_sub; [apply dn_sub; exact D|].
              replace (pre p ++ (ia l ++ ia r) ++ post p) with ((pre p ++ ia l) ++ ia r ++ post p) by (rewrite <- !app_assoc; reflexivity).
              eapply inc_sub; [|exact S]. unfold kl. apply sub_map. apply sub_app_skip.
           ++ rewrite <- (dn_valued _ _ D). symmetry.
              replace (pre p ++ (ia l ++ ia r) ++ post p) with ((pre p ++ ia l) ++ [] ++ ia r ++ post p) by (rewrite <- !app_assoc; reflexivity).
              apply (ctx_op k _ _ _ _ _ (keylocal_del k) LO HI). apply del_entry.
        -- injection H as <-. rewrite !whole_node in *. split.
           ++ unfold kl in *. rewrite !map_app in *. exact S.
           ++ symmetry. apply (ctx_op k _ _ _ [(k, Some x)] [(k, None)] (keylocal_del k) LO HI). apply del_entry.
      * injection H as <-. rewrite !whole_node in *. split; [exact S|]. symmetry.
        apply (ctx_op k _ _ _ [(k, None)] [(k, None)] (keylocal_del k) LO HI). reflexivity.
    + destruct (Z.ltb_spec k k') as [LT|GE].
      * apply (IHl (F DL k' v' h r :: p) T); [exact S| |exact H]. split; cbn [pre post fpre fpost fd fk fv fs].
        -- now rewrite app_nil_r.
        -- apply hi_cons. split; [exact LT|]. apply hi_app. split; eapply hi_weaken; eauto.
      * assert (GT : k' < k) by lia.
        apply (IHr (F DR k' v' h l :: p) T); [exact S| |exact H]. split; cbn [pre post fpre fpost fd fk fv fs].
        -- apply lo_app. split; [exact C1|]. apply lo_app. split; [eapply lo_weaken; eauto|]. apply lo_cons. split; [exact GT|apply lo_nil].
        -- exact C2.
Qed.

Lemma find_min_head t : forall k, find_min t = Some k -> exists x rest, valued (ia t) = (k, x) :: rest.
Proof.
  induction t as [|l IHl k' v' h r IHr]; intros k H; [discriminate|]. cbn [find_min] in H. cbn [ia]. rewrite valued_app.
  destruct l as [|ll lk lv lh lr].
  - cbn [ia valued app]. destruct v' as [x|]; [injection H as <-; eauto|]. cbn [valued]. now apply IHr.
  - destruct (IHl _ H) as (x & rest & ->). cbn [app]. eauto.
Qed.

Lemma find_max_last t : forall k, find_max t = Some k -> exists x rest, valued (ia t) = rest ++ [(k, x)].
Proof.
  induction t as [|l IHl k' v' h r IHr]; intros k H; [discriminate|]. cbn [find_max] in H. cbn [ia]. rewrite valued_app.
  destruct r as [|rl rk rv rh rr].
  - cbn [ia]. destruct v' as [x|]; cbn [valued]; [injection H as <-; eauto|]. rewrite app_nil_r. now apply IHl.
  - destruct (IHr _ H) as (x & rest & E). destruct v' as [y|]; cbn [valued]; rewrite E.
    + exists x, (valued (ia l) ++ (k', y) :: rest). now rewrite <- app_assoc.
    + exists x, (valued (ia l) ++ rest). now rewrite <- app_assoc.
Qed.

Lemma bst_traverse_sorted t : bst t -> ksorted (a_traverse t).
Proof. unfold bst, keys, ksorted, a_traverse. intros S. eapply inc_sub; [apply valued_sub|exact S]. Qed.

Lemma Ctx_nil k : Ctx k [].
Proof. split; intros x []. Qed.

(** one operation: search-tree order is kept and the client-visible traversal changes like the sorted list *)
Theorem a_step_spec t o T : bst t -> a_step t o = Some T -> bst T /\ a_traverse T = sl_step (a_traverse t) o.
Proof.
  intros B H. unfold bst, keys, a_traverse in *. fold (kl (ia t)) in B. fold (kl (ia T)).
  destruct o as [k v|k v|k v|k| |]; cbn [a_step sl_step] in *.
  - apply (upd_spec _ true false k v t [] T B (Ctx_nil k) H).
  - apply (upd_spec _ true true k v t [] T B (Ctx_nil k) H).
  - apply (upd_spec _ false true k v t [] T B (Ctx_nil k) H).
  - apply (rem_spec _ k t [] T B (Ctx_nil k) H).
  - destruct (find_min t) as [k|] eqn:M.
    + destruct (find_min_head _ _ M) as (x & rest & E).
      destruct (rem_spec _ k t [] T B (Ctx_nil k) H) as [S V]. split; [exact S|]. rewrite V. cbn [zip]. rewrite E. cbn [sl_del tl].
      now rewrite Z.eqb_refl.
    + destruct t; [|discriminate]. injection H as <-. split; [exact B|reflexivity].
  - destruct (find_max t) as [k|] eqn:M.
    + destruct (find_max_last _ _ M) as (x & rest & E).
      destruct (rem_spec _ k t [] T B (Ctx_nil k) H) as [S V]. split; [exact S|]. rewrite V. cbn [zip]. rewrite E.
      rewrite removelast_last. apply sl_del_last. rewrite <- E. apply (bst_traverse_sorted t). exact B.
    + destruct t; [|discriminate]. injection H as <-. split; [exact B|reflexivity].
Qed.

(** every sequence of operations that runs to completion (no fuel exhaustion, no extract_min/max livelock) *)
Theorem a_run_spec os : forall t T, bst t -> a_run os t = Some T ->
  bst T /\ a_traverse T = fold_left sl_step os (a_traverse t).
Proof.
  induction os as [|o os IH]; intros t T B H; cbn [a_run fold_left] in *; [injection H as <-; auto|].
  destruct (a_step t o) as [t'|] eqn:E; [|discriminate].
  destruct (a_step_spec _ _ _ B E) as [B' V]. rewrite <- V. now apply IH.
Qed.

(** ** refutations: AVL balance and exact stored heights do NOT hold at quiescent points of sequential histories.
    Witness: 27 operations (found by searching the extracted model; replayed on the real BronsonAVLTreeMap, which
    produces the identical tree, corpus/C18/bronson_seq_stale_stored_height.json). *)
Definition witness_ops : list sop :=
  [ExtMin; ExtMax; Ups 5 43; ExtMin; Ins 7 14; Ins 9 6; Ins 5 15; Del 2; Del 3; Ups 1 44; Upd 1 87; Ups 5 22; Ups 3 61;
   ExtMin; Ups 1 61; Ups 8 85; Del 6; Del 5; Del 8; ExtMin; Ups 2 14; Ups 4 81; Del 3; Upd 9 45; Ins 9 43; Ins 2 10; Ups 5 73].

Definition witness_tree : tree :=
  N (N (N E 2 (Some 14) 1 E) 3 None 3 (N E 4 (Some 81) 2 (N E 5 (Some 73) 1 E))) 7 (Some 14) 3 (N E 9 (Some 45) 1 E).

Lemma witness_run : a_run witness_ops E = Some witness_tree.
Proof. vm_compute. reflexivity. Qed.

Theorem avl_balance_refuted : exists os T, a_run os E = Some T /\ balanced T = false.
Proof. exists witness_ops, witness_tree. split; [exact witness_run|vm_compute; reflexivity]. Qed.

Theorem stored_heights_refuted : exists os T, a_run os E = Some T /\ heights_exact T = false.
Proof. exists witness_ops, witness_tree. split; [exact witness_run|vm_compute; reflexivity]. Qed.
