(** * Destruction of the HP singleton (basic_smr::destruct( true )) from a quiescent state: sequential analysis.
      [destroy c g] runs detach_all_thread + ~basic_smr to completion on the shared state [g]. *)
From Coq Require Import ZArith List String Bool Lia PeanoNat.
From LV Require Import Base.Conc Base.Events Model.Hp Proofs.HpTrace Proofs.HpInv Proofs.HpSteps Proofs.HpLocal
  Proofs.HpSafe Proofs.HpProofs.
Import ListNotations.
Local Open Scope string_scope.
Local Open Scope list_scope.

Lemma run_seq_bind {A B} (p : prog A) (q : A -> prog B) g :
  run_seq (bind p q) g =
  let '(g1, es1, x) := run_seq p g in
  let '(g2, es2, y) := run_seq (q x) g1 in (g2, es1 ++ es2, y).
Proof.
  revert g. induction p as [r|es k IH|f k IH]; intros g; cbn [bind run_seq].
  - destruct (run_seq (q r) g) as [[g2 es2] y]. reflexivity.
  - rewrite IH. destruct (run_seq k g) as [[g1 es1] x]. destruct (run_seq (q x) g1) as [[g2 es2] y].
    now rewrite app_assoc.
  - destruct (f g) as [[g0 v] es0]. rewrite IH. destruct (run_seq (k v) g0) as [[g1 es1] x].
    destruct (run_seq (q x) g1) as [[g2 es2] y]. now rewrite app_assoc.
Qed.

(** event counters on untagged lists *)
Definition cntE (name : string) (p : Z) (es : list ev) : Z := cnt name p (Conc.tag 0 es).

Lemma cnt_tag_any name p t es : cnt name p (Conc.tag t es) = cntE name p es.
Proof. unfold cntE, cnt, Conc.tag. induction es as [|e es IH]; cbn; [reflexivity|]. destruct (is_ev name p e); cbn; lia. Qed.

Lemma cntE_app name p es es' : cntE name p (es ++ es') = (cntE name p es + cntE name p es')%Z.
Proof. unfold cntE. rewrite Conc.tag_app. apply cnt_app. Qed.

Lemma cntE_nil name p : cntE name p [] = 0%Z.
Proof. reflexivity. Qed.

Lemma cntE_cons_acc name p k o b es : cntE name p (EvAcc k o b :: es) = cntE name p es.
Proof. reflexivity. Qed.
Lemma cntE_cons_cli name p n args es : String.eqb n name = false -> cntE name p (EvCli n args :: es) = cntE name p es.
Proof.
  intros H. unfold cntE, cnt, Conc.tag. cbn. destruct args as [|x [|y l]]; try reflexivity. now rewrite H.
Qed.
Lemma cntE_dispose_list p l : cntE "dispose" p (map ev_dispose l) = countZ p l.
Proof. unfold cntE. apply cnt_dispose_list. Qed.
Lemma cntE_retire_list p l : cntE "retire" p (map ev_dispose l) = 0%Z.
Proof. unfold cntE. apply cnt_retire_dispose_list. Qed.
Lemma cntE_overflow_list p l : cntE "overflow" p (map ev_dispose l) = 0%Z.
Proof. unfold cntE. apply cnt_overflow_dispose_list. Qed.

Ltac cnt_norm :=
  cbn [app];
  repeat first [ rewrite cntE_cons_acc | rewrite cntE_cons_cli by reflexivity | rewrite cntE_app | rewrite cntE_nil
               | rewrite cntE_dispose_list | rewrite cntE_retire_list | rewrite cntE_overflow_list ].

(** a piece that emits no retire / overflow event *)
Definition only_disposes (es : list ev) : Prop :=
  forall p, cntE "retire" p es = 0%Z /\ cntE "overflow" p es = 0%Z.
Definition no_dispose (es : list ev) : Prop := forall p, cntE "dispose" p es = 0%Z.

Section Seq.
  Variable c : cfgT.

  (** stage 1 does not change the state and disposes nothing *)
  Lemma seq_slots_loop r' js : forall acc g,
    exists es acc', run_seq (slots_loop r' js acc) g = (g, es, acc') /\ only_disposes es /\ no_dispose es.
  Proof.
    induction js as [|j js IH]; intros acc g; cbn [slots_loop run_seq].
    - exists [], acc. split; [reflexivity|]. split; intros p; [split|]; reflexivity.
    - cbn [a_ld_slot]. destruct (IH (if Z.eqb (vZ (VZ (gslot g r' j))) 0 then acc else acc ++ [vZ (VZ (gslot g r' j))]) g)
        as (es & acc' & E & H1 & H2).
      rewrite E. eexists _, acc'. split; [reflexivity|]. split.
      + intros p. destruct (H1 p). split; cnt_norm; assumption.
      + intros p. cnt_norm. apply H2.
  Qed.

  Lemma seq_recs_loop l : forall acc g,
    exists es acc', run_seq (recs_loop c l acc) g = (g, es, acc') /\ only_disposes es /\ no_dispose es.
  Proof.
    induction l as [|r' l' IH]; intros acc g; cbn [recs_loop run_seq].
    - exists [], acc. split; [reflexivity|]. split; intros p; [split|]; reflexivity.
    - cbn [a_ld_owner vB]. destruct (r_owner (get_rec g r')).
      + rewrite run_seq_bind. destruct (seq_slots_loop r' (seq 0 (cH c)) acc g) as (es1 & acc1 & E1 & H1 & H1').
        rewrite E1. destruct (IH acc1 g) as (es2 & acc2 & E2 & H2 & H2'). rewrite E2.
        eexists _, acc2. split; [reflexivity|]. split.
        * intros p. destruct (H1 p), (H2 p). split; cnt_norm; lia.
        * intros p. cnt_norm. rewrite H1', H2'. reflexivity.
      + destruct (IH acc g) as (es2 & acc2 & E2 & H2 & H2'). rewrite E2.
        eexists _, acc2. split; [reflexivity|]. split.
        * intros p. destruct (H2 p). split; cnt_norm; assumption.
        * intros p. cnt_norm. apply H2'.
  Qed.

  (** effect of one sequential piece on the retired arrays *)
  Definition moves (g g' : G) (h : nat) (es : list ev) : Prop :=
    g_list g' = g_list g /\ List.length (g_recs g') = List.length (g_recs g) /\
    (forall r, r <> h -> r_ret (get_rec g' r) = r_ret (get_rec g r)) /\
    (forall p, countZ p (r_ret (get_rec g h)) = (cntE "dispose" p es + countZ p (r_ret (get_rec g' h)))%Z) /\
    only_disposes es.

  Lemma st_cur_moves g h l : h < List.length (g_recs g) ->
    let g' := upd_rec g h (set_ret l) in
    g_list g' = g_list g /\ List.length (g_recs g') = List.length (g_recs g) /\
    (forall r, r <> h -> r_ret (get_rec g' r) = r_ret (get_rec g r)) /\ r_ret (get_rec g' h) = l.
  Proof. intros Hlt g'. destruct (set_ret_facts g h l Hlt) as (H1 & H2 & _ & H4 & H5). auto. Qed.

  Lemma seq_classic_scan g h : h < List.length (g_recs g) ->
    exists g' es kept, run_seq (classic_scan c h) g = (g', es, kept) /\ moves g g' h es.
  Proof.
    intros Hlt. unfold classic_scan. cbn [run_seq a_ld_head vR]. rewrite run_seq_bind.
    destruct (seq_recs_loop (g_list g) [] g) as (es1 & plist & E1 & H1 & H1'). rewrite E1.
    cbn [run_seq a_ld_cur a_st_cur vL].
    set (l := r_ret (get_rec g h)).
    destruct (st_cur_moves g h (classic_kept plist l) Hlt) as (M1 & M2 & M3 & M4).
    eexists _, _, _. split; [reflexivity|]. split; [exact M1|]. split; [exact M2|]. split; [exact M3|]. split.
    - intros p. rewrite M4. subst l. cnt_norm. rewrite H1'. rewrite (classic_split plist (r_ret (get_rec g h)) p). lia.
    - intros p. destruct (H1 p). split; cnt_norm; lia.
  Qed.

  Lemma seq_inplace_scan g h : h < List.length (g_recs g) ->
    exists g' es kept, run_seq (inplace_scan c h) g = (g', es, kept) /\ moves g g' h es.
  Proof.
    intros Hlt. unfold inplace_scan. cbn [run_seq a_ld_cur vL].
    destruct (r_ret (get_rec g h)) as [|x0 l0] eqn:El.
    - cbn [run_seq]. eexists _, _, _. split; [reflexivity|]. repeat split; auto.
    - set (l := x0 :: l0) in *. destruct (existsb Z.odd l).
      + destruct (seq_classic_scan g h Hlt) as (g' & es & kept & E & M1 & M2 & M3 & M4 & M5). rewrite E.
        eexists _, _, _. split; [reflexivity|]. split; [exact M1|]. split; [exact M2|]. split; [exact M3|]. split.
        * intros p. cnt_norm. apply M4.
        * intros p. destruct (M5 p). split; cnt_norm; assumption.
      + cbn [run_seq a_ld_head vR]. rewrite run_seq_bind.
        destruct (seq_recs_loop (g_list g) [] g) as (es1 & hs & E1 & H1 & H1'). rewrite E1.
        cbn [run_seq a_st_cur].
        set (cells := apply_marks hs (unmarked (sortZ l))).
        destruct (st_cur_moves g h (inplace_kept cells) Hlt) as (M1 & M2 & M3 & M4).
        eexists _, _, _. split; [reflexivity|]. split; [exact M1|]. split; [exact M2|]. split; [exact M3|]. split.
        * intros p. rewrite M4, El. fold l. cnt_norm. rewrite H1'.
          pose proof (inplace_split hs l p) as Hs. cbn zeta in Hs. fold cells in Hs. lia.
        * intros p. destruct (H1 p). split; cnt_norm; lia.
  Qed.

  Lemma seq_scan g h : h < List.length (g_recs g) ->
    exists g' es, run_seq (scan c h) g = (g', es, tt) /\ moves g g' h es.
  Proof.
    intros Hlt. unfold scan. cbn [run_seq a_faa_scan]. rewrite run_seq_bind.
    destruct (cInplace c).
    - destruct (seq_inplace_scan g h Hlt) as (g' & es & kept & E & M1 & M2 & M3 & M4 & M5). rewrite E. cbn [run_seq].
      eexists _, _. split; [reflexivity|]. split; [exact M1|]. split; [exact M2|]. split; [exact M3|]. split.
      + intros p. cnt_norm. rewrite (M4 p). lia.
      + intros p. destruct (M5 p). split; cnt_norm; lia.
    - destruct (seq_classic_scan g h Hlt) as (g' & es & kept & E & M1 & M2 & M3 & M4 & M5). rewrite E. cbn [run_seq].
      eexists _, _. split; [reflexivity|]. split; [exact M1|]. split; [exact M2|]. split; [exact M3|]. split.
      + intros p. cnt_norm. rewrite (M4 p). lia.
      + intros p. destruct (M5 p). split; cnt_norm; lia.
  Qed.

  (** hazards_.clear(): slots only *)
  Lemma seq_clear_loop h js : forall g,
    exists g' es, run_seq (clear_loop h js) g = (g', es, tt) /\
      g_list g' = g_list g /\ List.length (g_recs g') = List.length (g_recs g) /\
      (forall r, r_ret (get_rec g' r) = r_ret (get_rec g r)) /\ only_disposes es /\ no_dispose es.
  Proof.
    induction js as [|j js IH]; intros g; cbn [clear_loop run_seq].
    - exists g, []. split; [reflexivity|]. split; [reflexivity|]. split; [reflexivity|]. split; [reflexivity|]. split; [intros p; split; reflexivity|intros p; reflexivity].
    - cbn [a_st_slot]. destruct (IH (upd_rec g h (set_slot j 0%Z))) as (g' & es & E & M1 & M2 & M3 & M4 & M5). rewrite E.
      eexists _, _. split; [reflexivity|]. split; [rewrite M1; reflexivity|]. split; [rewrite M2; apply upd_rec_length|].
      split; [|split].
      + intros r. rewrite M3. destruct (Nat.eq_dec r h) as [->|Hne]; [|now rewrite get_upd_other].
        destruct (Nat.lt_ge_cases h (List.length (g_recs g))); [now rewrite get_upd_same|now rewrite upd_rec_ge].
      + intros p. destruct (M4 p). split; cnt_norm; assumption.
      + intros p. cnt_norm. apply M5.
  Qed.

  Lemma owner_ret g h b r : r_ret (get_rec (upd_rec g h (set_owner b)) r) = r_ret (get_rec g r).
  Proof.
    destruct (Nat.eq_dec r h) as [->|Hne]; [|now rewrite get_upd_other].
    destruct (Nat.lt_ge_cases h (List.length (g_recs g))); [now rewrite get_upd_same|now rewrite upd_rec_ge].
  Qed.
  Lemma free_ret g h b r : r_ret (get_rec (upd_rec g h (set_free b)) r) = r_ret (get_rec g r).
  Proof.
    destruct (Nat.eq_dec r h) as [->|Hne]; [|now rewrite get_upd_other].
    destruct (Nat.lt_ge_cases h (List.length (g_recs g))); [now rewrite get_upd_same|now rewrite upd_rec_ge].
  Qed.

  Lemma seq_free_thread_data g h : h < List.length (g_recs g) ->
    exists g' es, run_seq (free_thread_data c h false) g = (g', es, tt) /\ moves g g' h es.
  Proof.
    intros Hlt. unfold free_thread_data. rewrite run_seq_bind.
    destruct (seq_clear_loop h (seq 0 (cH c)) g) as (g1 & es1 & E1 & A1 & A2 & A3 & A4 & A5). rewrite E1.
    rewrite run_seq_bind. destruct (seq_scan g1 h) as (g2 & es2 & E2 & M1 & M2 & M3 & M4 & M5); [lia|]. rewrite E2.
    rewrite run_seq_bind. cbn [run_seq a_st_owner].
    eexists _, _. split; [reflexivity|]. split; [cbn; rewrite M1, A1; reflexivity|].
    split; [rewrite upd_rec_length; lia|]. split; [|split].
    - intros r Hne. rewrite owner_ret, M3, A3 by exact Hne. reflexivity.
    - intros p. rewrite owner_ret. cnt_norm. rewrite (A5 p). rewrite <- (A3 h), (M4 p). lia.
    - intros p. destruct (A4 p), (M5 p). split; cnt_norm; lia.
  Qed.

  (** total content of all retired arrays *)
  Definition tot (p : Z) (g : G) : Z := pend p g aux0.

  Lemma tot_moves p g g' h es : h < List.length (g_recs g) -> moves g g' h es ->
    tot p g = (cntE "dispose" p es + tot p g')%Z.
  Proof.
    intros Hlt (M1 & M2 & M3 & M4 & _). unfold tot.
    rewrite (pend_change p g aux0 g' aux0 h M2 Hlt).
    - unfold effc; cbn. rewrite (M4 p). lia.
    - intros r Hne. unfold effc; cbn. now apply M3.
  Qed.

  Lemma seq_detach_all l : forall g, (forall h, In h l -> h < List.length (g_recs g)) ->
    exists g' es, run_seq (detach_all_loop c l) g = (g', es, tt) /\
      g_list g' = g_list g /\ List.length (g_recs g') = List.length (g_recs g) /\
      (forall p, tot p g = (cntE "dispose" p es + tot p g')%Z) /\ only_disposes es.
  Proof.
    induction l as [|h l' IH]; intros g Hl; cbn [detach_all_loop run_seq].
    - exists g, []. split; [reflexivity|]. split; [reflexivity|]. split; [reflexivity|]. split; [intros p; cnt_norm; lia|intros p; split; reflexivity].
    - cbn [a_ld_owner vB]. assert (Hh : h < List.length (g_recs g)) by (apply Hl; now left).
      destruct (r_owner (get_rec g h)).
      + rewrite run_seq_bind. destruct (seq_free_thread_data g h Hh) as (g1 & es1 & E1 & M). rewrite E1.
        pose proof M as (M1 & M2 & _ & _ & M5).
        destruct (IH g1) as (g2 & es2 & E2 & B1 & B2 & B3 & B4); [intros x Hx; rewrite M2; apply Hl; now right|]. rewrite E2.
        eexists _, _. split; [reflexivity|]. split; [rewrite B1; exact M1|]. split; [lia|]. split.
        * intros p. cnt_norm. rewrite (tot_moves p g g1 h es1 Hh M), (B3 p). lia.
        * intros p. destruct (M5 p), (B4 p). split; cnt_norm; lia.
      + destruct (IH g) as (g2 & es2 & E2 & B1 & B2 & B3 & B4); [intros x Hx; apply Hl; now right|]. rewrite E2.
        eexists _, _. split; [reflexivity|]. split; [exact B1|]. split; [exact B2|]. split.
        * intros p. cnt_norm. apply B3.
        * intros p. destruct (B4 p). split; cnt_norm; assumption.
  Qed.

  (** ~basic_smr: every cell of every listed record is freed *)
  Lemma seq_dtor_loop l : forall g,
    exists g' es, run_seq (dtor_loop l) g = (g', es, tt) /\
      List.length (g_recs g') = List.length (g_recs g) /\
      (forall p, tot p g = (cntE "dispose" p es + tot p g')%Z) /\ only_disposes es /\
      (forall r, r_ret (get_rec g r) = [] -> r_ret (get_rec g' r) = []) /\
      (forall h, In h l -> r_ret (get_rec g' h) = []).
  Proof.
    induction l as [|h l' IH]; intros g; cbn [dtor_loop run_seq].
    - exists g, []. split; [reflexivity|]. split; [reflexivity|]. split; [intros p; cnt_norm; lia|]. split; [intros p; split; reflexivity|]. split; [auto|intros h []].
    - cbn [a_ld_cur a_st_cur a_st_free vL].
      set (g1 := upd_rec (upd_rec g h (set_ret [])) h (set_free true)).
      destruct (IH g1) as (g2 & es2 & E2 & B2 & B3 & B4 & B5 & B6). rewrite E2.
      assert (Hlen : List.length (g_recs g1) = List.length (g_recs g)) by (unfold g1; now rewrite !upd_rec_length).
      assert (Hret : forall r, r <> h -> r_ret (get_rec g1 r) = r_ret (get_rec g r)).
      { intros r Hne. unfold g1. rewrite free_ret. now rewrite get_upd_other. }
      assert (Hh : r_ret (get_rec g1 h) = []).
      { unfold g1. rewrite free_ret. destruct (Nat.lt_ge_cases h (List.length (g_recs g))) as [Hlt|Hge].
        - now rewrite get_upd_same.
        - rewrite upd_rec_ge by exact Hge. now rewrite get_rec_ge. }
      eexists _, _. split; [reflexivity|]. split; [lia|]. split; [|split; [|split]].
      + intros p. cnt_norm. pose proof (B3 p) as HB.
        assert (Hg : tot p g = (countZ p (r_ret (get_rec g h)) + tot p g1)%Z).
        { unfold tot. destruct (Nat.lt_ge_cases h (List.length (g_recs g))) as [Hlt|Hge].
          - rewrite (pend_change p g1 aux0 g aux0 h (eq_sym Hlen)); [|lia|intros r Hne; unfold effc; cbn; symmetry; now apply Hret].
            unfold effc. cbn [a_eff aux0]. rewrite Hh. cbn [countZ]. lia.
          - rewrite (get_rec_ge g h Hge). cbn. f_equal. symmetry. apply (pend_ext p g aux0 g1 aux0 Hlen).
            intros r Hr. unfold effc; cbn. apply Hret. lia. }
        lia.
      + intros p. destruct (B4 p). split; cnt_norm; lia.
      + intros r Hr. apply B5. destruct (Nat.eq_dec r h) as [->|Hne]; [exact Hh|]. now rewrite Hret.
      + intros x [<-|Hx]; [apply B5; exact Hh|now apply B6].
  Qed.

  Lemma tot_zero p g : (forall r, r < List.length (g_recs g) -> r_ret (get_rec g r) = []) -> tot p g = 0%Z.
  Proof.
    intros H. unfold tot, pend. induction (List.length (g_recs g)) as [|n IH]; [reflexivity|].
    cbn. rewrite IH by (intros; apply H; lia). unfold effc; cbn. rewrite H by lia. reflexivity.
  Qed.

  (** the whole destruction *)
  Lemma seq_destroy g :
    (forall h, In h (g_list g) -> h < List.length (g_recs g)) ->
    (forall r, r < List.length (g_recs g) -> In r (g_list g)) ->
    forall g' es, destroy c g = (g', es) ->
      (forall p, tot p g = cntE "dispose" p es) /\ only_disposes es /\
      (forall r, r_ret (get_rec g' r) = []).
  Proof.
    intros Hlt Hall g' es. unfold destroy, destruct_prog. cbn [run_seq a_ld_head vR]. rewrite run_seq_bind.
    destruct (seq_detach_all (g_list g) g Hlt) as (g1 & es1 & E1 & A1 & A2 & A3 & A4). rewrite E1.
    cbn [run_seq a_ld_head a_st_head_null vR].
    set (g1' := mkG [] (g_recs g1) (g_srcs g1)).
    destruct (seq_dtor_loop (g_list g1) g1') as (g2 & es2 & E2 & B2 & B3 & B4 & B5 & B6). rewrite E2.
    intros E. inversion E; subst g' es; clear E.
    assert (Hz : forall r, r_ret (get_rec g2 r) = []).
    { intros r. destruct (Nat.lt_ge_cases r (List.length (g_recs g))) as [Hr|Hr].
      - apply B6. rewrite A1. now apply Hall.
      - apply B5. unfold g1'. rewrite get_rec_ge; [reflexivity|]. cbn. lia. }
    split; [|split].
    - intros p. rewrite (A3 p). cnt_norm.
      assert (Et : tot p g1 = tot p g1') by (unfold tot; symmetry; apply pend_ext; [reflexivity|intros; reflexivity]). rewrite Et, (B3 p).
      rewrite (tot_zero p g2) by (intros; apply Hz). lia.
    - intros p. destruct (A4 p), (B4 p). split; cnt_norm; lia.
    - exact Hz.
  Qed.
End Seq.

(** ** C03 (HP), second sentence.
    Quiescent = every thread's last event is the response of an operation (no operation is in flight); threads
    may still be attached, others may have detached long ago leaving retired cells behind.  Running
    destruct( true ) then gives every retired object that has not been disposed yet to its disposer exactly once:
    over the whole trace  #retire p = #dispose p + #overflow p  (no overflow event exists when the retired arrays
    never overflow, see [Properties_C01]), and all retired arrays are empty afterwards. *)
Definition quiescent (tr : trace) : Prop := forall t, resp_last tr t.

Theorem hp_destroy_disposes_all c ths cf :
  Conc.reach (init_cfg c ths) cf -> quiescent (Conc.trace cf) ->
  forall g' es, destroy c (Conc.shared cf) = (g', es) ->
  let tr' := Conc.trace cf ++ Conc.tag (List.length ths) es in
  (forall p, cnt "retire" p tr' = (cnt "dispose" p tr' + cnt "overflow" p tr')%Z) /\
  (forall r, r_ret (get_rec g' r) = []).
Proof.
  intros Hr Hq g' es Hd tr'. destruct (reach_inv _ _ _ Hr) as (a & HI).
  set (g := Conc.shared cf) in *. set (tr := Conc.trace cf) in *.
  assert (Hidle : forall t, idle (view a t)) by (intros t; apply (i_idle _ _ _ _ HI); apply Hq).
  assert (Heff : forall r, a_eff a r = None).
  { intros r. destruct (a_eff a r) as [x|] eqn:E; [|reflexivity]. exfalso.
    destruct (i_eff _ _ _ _ HI r x E) as (t & cl & H1 & _). destruct (Hidle t) as (_ & E2). rewrite E2 in H1. destruct H1. }
  assert (Hall : forall r, r < List.length (g_recs g) -> In r (g_list g)).
  { intros r H. destruct (i_unl _ _ _ _ HI r H) as [H1|(t & H1)]; [exact H1|].
    destruct (Hidle t) as (E1 & _). rewrite E1 in H1. destruct H1. }
  destruct (seq_destroy c g (i_list_lt _ _ _ _ HI) Hall g' es Hd) as (H1 & H2 & H3).
  split; [|exact H3]. intros p. unfold tr'. rewrite !cnt_app, !cnt_tag_any.
  destruct (H2 p) as (-> & ->). rewrite <- (H1 p). rewrite (i_bal _ _ _ _ HI p).
  assert (E : pend p g a = tot p g).
  { unfold tot. apply pend_ext; [reflexivity|]. intros r _. unfold effc. rewrite Heff. reflexivity. }
  rewrite E. lia.
Qed.

(** under the documented preconditions ([hp_no_overflow]) exactly once: #retire p = #dispose p *)
Corollary hp_destroy_disposes_all_exact c ths cf :
  Conc.reach (init_cfg c ths) cf -> quiescent (Conc.trace cf) ->
  List.length (g_list (Conc.shared cf)) <= cP c -> cH c * cP c < cR c -> retire_once (Conc.trace cf) ->
  forall g' es, destroy c (Conc.shared cf) = (g', es) ->
  let tr' := Conc.trace cf ++ Conc.tag (List.length ths) es in
  forall p, cnt "retire" p tr' = cnt "dispose" p tr'.
Proof.
  intros Hr Hq H1 H2 H3 g' es Hd tr' p.
  destruct (hp_destroy_disposes_all c ths cf Hr Hq g' es Hd) as (Hb & _). fold tr' in Hb. rewrite (Hb p).
  destruct (reach_inv _ _ _ Hr) as (a & HI).
  assert (Hall : forall r, r < List.length (g_recs (Conc.shared cf)) -> In r (g_list (Conc.shared cf))).
  { intros r H. destruct (i_unl _ _ _ _ HI r H) as [Hi|(t & Hi)]; [exact Hi|].
    destruct (i_idle _ _ _ _ HI t (Hq t)) as (E1 & _). rewrite E1 in Hi. destruct Hi. }
  destruct (seq_destroy c (Conc.shared cf) (i_list_lt _ _ _ _ HI) Hall g' es Hd) as (_ & Hod & _).
  unfold tr'. rewrite !cnt_app, !cnt_tag_any. destruct (Hod p) as (_ & ->).
  rewrite (hp_no_overflow c ths cf Hr H1 H2 H3 p). lia.
Qed.
