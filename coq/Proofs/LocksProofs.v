(** * Mutual exclusion per lock for LV.Model.Locks: nested critical sections over a family of
      cds::sync::spin_lock objects, any cell-selection function, lock_all; every schedule, any number of
      threads and locks.  [occ l tr] (from SpinLockProofs) = #"enter l" - #"leave l" in the trace. *)
From Coq Require Import ZArith List String Bool Lia PeanoNat.
From LV Require Import Base.Conc Base.Events Model.SpinLock Model.Locks.
From LV Require Proofs.SpinLockProofs.
Import ListNotations.
Local Open Scope Z_scope.
Local Open Scope string_scope.

Notation occ := SpinLockProofs.occ.
Notation occ_app := SpinLockProofs.occ_app.
Notation occ_tag_cli := SpinLockProofs.occ_tag_cli.
Notation get_set_same := SpinLockProofs.get_set_same.
Notation get_set_other := SpinLockProofs.get_set_other.

(** what a thread knows about one lock *)
Inductive hst := Free | Held | Inside.
Definition L := nat -> hst.
Definition Aux := nat -> L.
Definition view (a : Aux) (t : nat) : L := a t.

Definition updh (h : L) (l : nat) (x : hst) : L := fun l' => if Nat.eqb l' l then x else h l'.
Definition upd (a : Aux) (t : nat) (h : L) : Aux := fun t' => if Nat.eqb t' t then h else a t'.
Definition din (x : hst) : Z := match x with Inside => 1 | _ => 0 end.

Lemma updh_same h l x : updh h l x l = x.
Proof. unfold updh. now rewrite Nat.eqb_refl. Qed.
Lemma updh_other h l x l' : l' <> l -> updh h l x l' = h l'.
Proof. unfold updh. intros H. destruct (Nat.eqb_spec l' l); congruence. Qed.
Lemma upd_same a t h : upd a t h t = h.
Proof. unfold upd. now rewrite Nat.eqb_refl. Qed.
Lemma upd_other a t h t' : t' <> t -> upd a t h t' = a t'.
Proof. unfold upd. intros H. destruct (Nat.eqb_spec t' t); congruence. Qed.
Lemma frame_upd a t h : Conc.frame view t a (upd a t h).
Proof. intros t' H. unfold view. now apply upd_other. Qed.
Lemma frame_refl a t : Conc.frame view t a a.
Proof. intros ? ?; reflexivity. Qed.

Definition Inv (g : G) (a : Aux) (tr : list (nat * ev)) : Prop :=
  (forall t l, a t l <> Free -> get_spin g l = true) /\
  (forall t t' l, a t l <> Free -> a t' l <> Free -> t = t') /\
  (forall l, (occ l tr = 0 /\ forall t, a t l <> Inside) \/ (occ l tr = 1 /\ exists t, a t l = Inside)).

Notation safe := (@Conc.safe G V ev Aux L view Inv).

Lemma hst_dec (x y : hst) : {x = y} + {x <> y}.
Proof. decide equality. Qed.

(** ** master preservation lemma: thread [t] changes what it knows about lock [l] to [x'] *)
Lemma step_inv g a tr t l x' g' es :
  Inv g a tr ->
  (forall l', l' <> l -> get_spin g' l' = get_spin g l') ->
  (forall l', l' <> l -> occ l' (Conc.tag t es) = 0) ->
  (x' <> Free -> get_spin g' l = true) ->
  (get_spin g' l = get_spin g l \/ forall t', t' <> t -> a t' l = Free) ->
  (x' <> Free -> a t l <> Free \/ forall t', t' <> t -> a t' l = Free) ->
  occ l (Conc.tag t es) = din x' - din (a t l) ->
  Inv g' (upd a t (updh (a t) l x')) (tr ++ Conc.tag t es).
Proof.
  intros (I1 & I2 & I3) Hg Ho C1 C2 C3 C4.
  assert (E : forall t1 l1, upd a t (updh (a t) l x') t1 l1 = if Nat.eqb t1 t && Nat.eqb l1 l then x' else a t1 l1).
  { intros t1 l1. unfold upd, updh. destruct (Nat.eqb_spec t1 t) as [->|N]; cbn; [|reflexivity].
    destruct (Nat.eqb l1 l); reflexivity. }
  repeat split.
  - intros t1 l1 H. rewrite E in H.
    destruct (Nat.eqb_spec t1 t) as [Et|Nt]; destruct (Nat.eqb_spec l1 l) as [El|Nl]; cbn in H; try subst t1; try subst l1.
    + auto.
    + rewrite Hg by exact Nl. eapply I1; eauto.
    + destruct C2 as [C2|C2]; [rewrite C2; eapply I1; eauto|]. elim H. apply C2. exact Nt.
    + rewrite Hg by exact Nl. eapply I1; eauto.
  - intros t1 t2 l1 H1 H2. rewrite E in H1, H2.
    destruct (Nat.eqb_spec l1 l) as [El|Nl]; [subst l1|].
    + destruct (Nat.eqb_spec t1 t) as [E1|N1]; destruct (Nat.eqb_spec t2 t) as [E2|N2]; cbn in H1, H2; try subst t1; try subst t2; auto.
      * destruct (C3 H1) as [C|C]; [symmetry; eapply I2; eauto|]. elim H2. auto.
      * destruct (C3 H2) as [C|C]; [eapply I2; eauto|]. elim H1. auto.
      * eapply I2; eauto.
    + rewrite !andb_false_r in H1, H2. eapply I2; eauto.
  - intros l1. rewrite occ_app. destruct (Nat.eq_dec l1 l) as [->|Nl].
    + rewrite C4. destruct (I3 l) as [[Hz Hn]|[Hz [t0 Ht0]]].
      * assert (din (a t l) = 0) as -> by (specialize (Hn t); destruct (a t l); cbn; congruence).
        destruct (hst_dec x' Inside) as [->|Nx].
        -- right. split; [cbn; lia|]. exists t. rewrite E, !Nat.eqb_refl. reflexivity.
        -- left. split; [destruct x'; cbn; try lia; congruence|]. intros t1. rewrite E.
           destruct (Nat.eqb_spec t1 t); rewrite Nat.eqb_refl; cbn; auto.
      * destruct (Nat.eq_dec t0 t) as [->|N0].
        -- rewrite Ht0. destruct (hst_dec x' Inside) as [->|Nx].
           ++ right. split; [cbn; lia|]. exists t. rewrite E, !Nat.eqb_refl. reflexivity.
           ++ left. split; [destruct x'; cbn; try lia; congruence|]. intros t1. rewrite E.
              destruct (Nat.eqb_spec t1 t) as [->|N1]; rewrite Nat.eqb_refl; cbn; auto.
              intros H1. apply N1. apply (I2 t1 t l); congruence.
        -- assert (Hf : a t l = Free).
           { destruct (hst_dec (a t l) Free) as [X|X]; [exact X|]. exfalso. apply N0. apply (I2 t0 t l); congruence. }
           assert (Hx : x' = Free).
           { destruct (hst_dec x' Free) as [X|X]; [exact X|]. exfalso. destruct (C3 X) as [C|C]; [congruence|].
             specialize (C t0 N0). congruence. }
           subst x'. rewrite Hf. right. split; [cbn; lia|]. exists t0. rewrite E.
           destruct (Nat.eqb_spec t0 t); [congruence|]. cbn. exact Ht0.
    + rewrite Ho by exact Nl. rewrite Z.add_0_r.
      destruct (I3 l1) as [[Hz Hn]|[Hz [t0 Ht0]]].
      * left. split; [exact Hz|]. intros t1. rewrite E.
        destruct (Nat.eqb_spec l1 l); [congruence|]. rewrite andb_false_r. apply Hn.
      * right. split; [exact Hz|]. exists t0. rewrite E.
        destruct (Nat.eqb_spec l1 l); [congruence|]. rewrite andb_false_r. exact Ht0.
Qed.

(** events / accesses that change nothing *)
Lemma Inv_trace g a tr t es : (forall l, occ l (Conc.tag t es) = 0) -> Inv g a tr -> Inv g a (tr ++ Conc.tag t es).
Proof.
  intros H (I1 & I2 & I3). repeat split; auto.
  intros l. rewrite occ_app, H, Z.add_0_r. apply I3.
Qed.

Lemma Inv_state g g' a tr : (forall l, get_spin g' l = get_spin g l) -> Inv g a tr -> Inv g' a tr.
Proof.
  intros H (I1 & I2 & I3). repeat split; auto. intros t l X. rewrite H. eapply I1; eauto.
Qed.

Lemma occ_acc l t k o ok : occ l (Conc.tag t [EvAcc k o ok]) = 0.
Proof. reflexivity. Qed.

Lemma occ_cli_other l t name args :
  String.eqb name "enter" = false -> String.eqb name "leave" = false ->
  occ l (Conc.tag t [EvCli name args]) = 0.
Proof.
  intros N1 N2. cbn. destruct args as [|x [|y r]]; try reflexivity.
  rewrite N1, N2. destruct (Z.eqb x (Z.of_nat l)); reflexivity.
Qed.

Lemma safe_emit_other {R} t name args (k : prog R) h Q :
  String.eqb name "enter" = false -> String.eqb name "leave" = false ->
  safe t k h Q -> safe t (Emit [EvCli name args] k) h Q.
Proof.
  intros N1 N2 Hk. cbn [Conc.safe]. intros g a tr Hi Hv. exists a.
  split; [apply Inv_trace; auto; intros l; apply occ_cli_other; auto|]. split; [apply frame_refl|]. now rewrite Hv.
Qed.

(** an access that changes nothing *)
Lemma safe_act_read {R} t (f : G -> G * V * list ev) (k : V -> prog R) h Q :
  (forall g, (forall l, get_spin (fst (fst (f g))) l = get_spin g l) /\ exists kd o ok, snd (f g) = [EvAcc kd o ok]) ->
  (forall v, safe t (k v) h Q) ->
  safe t (Act f k) h Q.
Proof.
  intros Hf Hk. cbn [Conc.safe]. intros g a tr Hi Hv. unfold view in Hv.
  destruct (Hf g) as (E & kd & o & ok & Ees). exists a. rewrite Ees.
  split; [apply Inv_trace; [intros l; apply occ_acc|]; eapply Inv_state; eauto|]. split; [apply frame_refl|].
  unfold view. rewrite Hv. apply Hk.
Qed.

(** *** exchange( true ): the old value [false] means acquired *)
Lemma safe_xchg {R} t l h (k : bool -> prog R) Q :
  (h l = Free -> safe t (k false) (updh h l Held) Q) -> safe t (k true) h Q ->
  safe t (Act (a_xchg l) k) h Q.
Proof.
  intros Hok Hfail. cbn [Conc.safe]. intros g a tr Hi Hv. unfold view in Hv. cbn [a_xchg fst snd].
  destruct (get_spin g l) eqn:Hs.
  - exists a. split; [|split; [apply frame_refl|unfold view; rewrite Hv; exact Hfail]].
    apply Inv_trace; [intros l'; apply occ_acc|]. eapply Inv_state; [|exact Hi].
    intros l'. destruct (Nat.eq_dec l' l) as [->|N]; [now rewrite get_set_same|now apply get_set_other].
  - assert (Hall : forall t', a t' l = Free).
    { intros t'. destruct (hst_dec (a t' l) Free) as [X|X]; [exact X|].
      destruct Hi as (I1 & _). rewrite (I1 _ _ X) in Hs. discriminate. }
    exists (upd a t (updh (a t) l Held)).
    split; [|split; [apply frame_upd|unfold view; rewrite upd_same, Hv; apply Hok; rewrite <- Hv; apply Hall]].
    apply (step_inv g); [exact Hi| | | | | |].
    + intros l' N. now apply get_set_other.
    + intros l' N. reflexivity.
    + intros _. apply get_set_same.
    + right. intros t' _. apply Hall.
    + intros _. right. intros t' _. apply Hall.
    + rewrite Hall. reflexivity.
Qed.

Definition Qlock (l : nat) (h : L) : bool -> L -> Prop :=
  fun ok h' => if ok then h' = updh h l Held /\ h l = Free else h' = h.

Lemma safe_try_lock t l h : safe t (try_lock l) h (Qlock l h).
Proof. unfold try_lock. apply safe_xchg; cbn; auto. Qed.

Lemma safe_lock_loops fuel : forall t l h,
  safe t (lock_outer fuel l) h (Qlock l h) /\ safe t (lock_inner fuel l) h (Qlock l h).
Proof.
  induction fuel as [|f IH]; intros t l h; split; cbn [lock_outer lock_inner]; try (cbn; reflexivity).
  - apply safe_xchg; [cbn; auto|apply IH].
  - apply safe_act_read.
    + intros g. cbn. split; eauto.
    + intros v. destruct v; apply IH.
Qed.

(** *** unlock, enter, leave *)
Lemma safe_unlock t l h : h l = Held -> safe t (unlock l) h (fun _ h' => h' = updh h l Free).
Proof.
  intros Hh. unfold unlock. cbn [Conc.safe]. intros g a tr Hi Hv. unfold view in Hv. cbn [a_unlock fst snd].
  exists (upd a t (updh (a t) l Free)).
  split; [|split; [apply frame_upd|unfold view; rewrite upd_same, Hv; reflexivity]].
  assert (Hoth : forall t', t' <> t -> a t' l = Free).
  { intros t' N. destruct (hst_dec (a t' l) Free) as [X|X]; [exact X|]. exfalso. apply N.
    destruct Hi as (_ & I2 & _). apply (I2 t' t l); [exact X|]. rewrite Hv, Hh. discriminate. }
  apply (step_inv g); [exact Hi| | | | | |].
  - intros l' N. now apply get_set_other.
  - intros l' N. reflexivity.
  - congruence.
  - right. exact Hoth.
  - congruence.
  - rewrite Hv, Hh. reflexivity.
Qed.

Lemma occ_tag_enter l t l' : occ l (Conc.tag t [EvCli "enter" (zl l')]) = if Nat.eqb l' l then 1 else 0.
Proof.
  rewrite occ_tag_cli. destruct (Z.eqb_spec (Z.of_nat l') (Z.of_nat l)); destruct (Nat.eqb_spec l' l); try lia; reflexivity.
Qed.
Lemma occ_tag_leave l t l' : occ l (Conc.tag t [EvCli "leave" (zl l')]) = if Nat.eqb l' l then -1 else 0.
Proof.
  rewrite occ_tag_cli. destruct (Z.eqb_spec (Z.of_nat l') (Z.of_nat l)); destruct (Nat.eqb_spec l' l); try lia; reflexivity.
Qed.

Lemma safe_enter {R} t l h (k : prog R) Q :
  h l = Held -> safe t k (updh h l Inside) Q -> safe t (Emit [EvCli "enter" (zl l)] k) h Q.
Proof.
  intros Hh Hk. cbn [Conc.safe]. intros g a tr Hi Hv. unfold view in Hv.
  exists (upd a t (updh (a t) l Inside)).
  split; [|split; [apply frame_upd|unfold view; rewrite upd_same, Hv; exact Hk]].
  assert (Hme : a t l <> Free) by (rewrite Hv, Hh; discriminate).
  apply (step_inv g); [exact Hi| | | | | |].
  - reflexivity.
  - intros l' N. rewrite occ_tag_enter. destruct (Nat.eqb_spec l l'); congruence.
  - intros _. destruct Hi as (I1 & _). eapply I1; eauto.
  - left. reflexivity.
  - intros _. left. exact Hme.
  - rewrite occ_tag_enter, Nat.eqb_refl, Hv, Hh. reflexivity.
Qed.

Lemma safe_leave {R} t l h (k : prog R) Q :
  h l = Inside -> safe t k (updh h l Held) Q -> safe t (Emit [EvCli "leave" (zl l)] k) h Q.
Proof.
  intros Hh Hk. cbn [Conc.safe]. intros g a tr Hi Hv. unfold view in Hv.
  exists (upd a t (updh (a t) l Held)).
  split; [|split; [apply frame_upd|unfold view; rewrite upd_same, Hv; exact Hk]].
  assert (Hme : a t l <> Free) by (rewrite Hv, Hh; discriminate).
  apply (step_inv g); [exact Hi| | | | | |].
  - reflexivity.
  - intros l' N. rewrite occ_tag_leave. destruct (Nat.eqb_spec l l'); congruence.
  - intros _. destruct Hi as (I1 & _). eapply I1; eauto.
  - left. reflexivity.
  - intros _. left. exact Hme.
  - rewrite occ_tag_leave, Nat.eqb_refl, Hv, Hh. reflexivity.
Qed.

Lemma safe_touch {R} t l h (k : V -> prog R) Q : (forall v, safe t (k v) h Q) -> safe t (Act (a_touch l) k) h Q.
Proof. intros H. apply safe_act_read; auto. intros g. cbn. split; eauto. Qed.

(** ** ranges of cells (lock_all / unlock_all) *)
Definition inr (c n x : nat) : Prop := (c <= x < c + n)%nat.

Lemma safe_lock_range fuel t n : forall c h,
  safe t (lock_range fuel c n) h
    (fun m h' => (m <= n)%nat /\ (forall x, inr c m x -> h x = Free /\ h' x = Held) /\
                 (forall x, ~ inr c m x -> h' x = h x)).
Proof.
  unfold inr. induction n as [|n IH]; intros c h; cbn [lock_range].
  - cbn. repeat split; auto; intros; lia.
  - apply Conc.safe_bind. eapply Conc.safe_weaken; [|apply (safe_lock_loops fuel t c h)].
    intros [|] h1 H1; cbn in H1.
    + destruct H1 as [-> Hc]. apply Conc.safe_bind. eapply Conc.safe_weaken; [|apply IH].
      intros m h2 (Hm & Hin & Hout). cbn. split; [lia|]. split.
      * intros x Hx. destruct (Nat.eq_dec x c) as [->|N].
        -- split; [exact Hc|]. rewrite Hout by lia. apply updh_same.
        -- destruct (Hin x) as [A B]; [lia|]. rewrite updh_other in A by exact N. auto.
      * intros x Hx. rewrite Hout by lia. apply updh_other. lia.
    + subst h1. cbn. repeat split; auto; intros; lia.
Qed.

Lemma safe_unlock_range t n : forall c h,
  (forall x, inr c n x -> h x = Held) ->
  safe t (unlock_range c n) h
    (fun _ h' => (forall x, inr c n x -> h' x = Free) /\ (forall x, ~ inr c n x -> h' x = h x)).
Proof.
  unfold inr. induction n as [|n IH]; intros c h Hh; cbn [unlock_range].
  - cbn. split; auto; intros; lia.
  - apply Conc.safe_bind. eapply Conc.safe_weaken; [|apply safe_unlock; apply Hh; lia].
    intros [] h1 ->. eapply Conc.safe_weaken; [|apply IH].
    + intros [] h2 (Hin & Hout). split.
      * intros x Hx. destruct (Nat.eq_dec x c) as [->|N]; [rewrite Hout by lia; apply updh_same|apply Hin; lia].
      * intros x Hx. rewrite Hout by lia. apply updh_other. lia.
    + intros x Hx. rewrite updh_other by lia. apply Hh. lia.
Qed.

Lemma safe_enter_range t n (k : prog unit) Q : forall c h,
  (forall x, inr c n x -> h x = Held) ->
  (forall h', (forall x, inr c n x -> h' x = Inside) -> (forall x, ~ inr c n x -> h' x = h x) -> safe t k h' Q) ->
  safe t (emit_range "enter" c n k) h Q.
Proof.
  unfold inr. induction n as [|n IH]; intros c h Hh Hk; cbn [emit_range].
  - apply Hk; auto; intros; lia.
  - apply safe_enter; [apply Hh; lia|]. apply IH.
    + intros x Hx. rewrite updh_other by lia. apply Hh. lia.
    + intros h' Hin Hout. apply Hk.
      * intros x Hx. destruct (Nat.eq_dec x c) as [->|N]; [rewrite Hout by lia; apply updh_same|apply Hin; lia].
      * intros x Hx. rewrite Hout by lia. apply updh_other. lia.
Qed.

Lemma safe_leave_range t n (k : prog unit) Q : forall c h,
  (forall x, inr c n x -> h x = Inside) ->
  (forall h', (forall x, inr c n x -> h' x = Held) -> (forall x, ~ inr c n x -> h' x = h x) -> safe t k h' Q) ->
  safe t (emit_range "leave" c n k) h Q.
Proof.
  unfold inr. induction n as [|n IH]; intros c h Hh Hk; cbn [emit_range].
  - apply Hk; auto; intros; lia.
  - apply safe_leave; [apply Hh; lia|]. apply IH.
    + intros x Hx. rewrite updh_other by lia. apply Hh. lia.
    + intros h' Hin Hout. apply Hk.
      * intros x Hx. destruct (Nat.eq_dec x c) as [->|N]; [rewrite Hout by lia; apply updh_same|apply Hin; lia].
      * intros x Hx. rewrite Hout by lia. apply updh_other. lia.
Qed.

(** ** the nest: whatever it does, it gives back exactly what it took *)
Section Nest.
  Variable sel : nat -> nat.
  Variable size : nat.

  Definition Qsame (h : L) : unit -> L -> Prop := fun _ h' => forall x, h' x = h x.

  Lemma inr_dec c n x : {inr c n x} + {~ inr c n x}.
  Proof. unfold inr. destruct (le_dec c x); destruct (lt_dec x (c + n)); (left; lia) || (right; lia). Qed.

  (** one guarded section on a single lock *)
  Lemma safe_section fuel t l r h :
    (forall h0, safe t (nest sel size fuel r) h0 (Qsame h0)) ->
    h l = Free ->
    safe t (Emit [EvCli "enter" (zl l)]
              (Act (a_touch l) (fun _ =>
                 bind (nest sel size fuel r) (fun _ => Emit [EvCli "leave" (zl l)] (unlock l)))))
         (updh h l Held) (Qsame h).
  Proof.
    intros IH Hf. apply safe_enter; [apply updh_same|]. apply safe_touch. intros _.
    apply Conc.safe_bind. eapply Conc.safe_weaken; [|apply IH].
    intros [] h2 H2. unfold Qsame in H2.
    apply safe_leave; [rewrite H2; apply updh_same|].
    eapply Conc.safe_weaken; [|apply safe_unlock; apply updh_same].
    intros [] h3 ->. intros x. destruct (Nat.eq_dec x l) as [->|N].
    - rewrite updh_same. auto.
    - rewrite !updh_other by exact N. rewrite H2. rewrite !updh_other by exact N. reflexivity.
  Qed.

  Lemma safe_nest fuel t o : forall h, safe t (nest sel size fuel o) h (Qsame h).
  Proof.
    induction o as [|[k hint] r IH]; intros h; cbn [nest]; [cbn; intros x; reflexivity|].
    apply safe_emit_other; try reflexivity.
    assert (Single : forall (p : prog bool) (nm : string),
               safe t p h (Qlock (sel hint) h) ->
               String.eqb nm "enter" = false -> String.eqb nm "leave" = false ->
               safe t (bind p (fun ok =>
                 if ok then
                   Emit [EvCli "enter" (zl (sel hint))]
                     (Act (a_touch (sel hint)) (fun _ =>
                        bind (nest sel size fuel r) (fun _ =>
                          Emit [EvCli "leave" (zl (sel hint))] (unlock (sel hint)))))
                 else Emit [EvCli nm [Z.of_nat hint]] (Ret tt))) h (Qsame h)).
    { intros p nm Hp N1 N2. apply Conc.safe_bind. eapply Conc.safe_weaken; [|exact Hp].
      intros [|] h1 H1; cbn in H1.
      - destruct H1 as [-> Hf]. apply safe_section; auto.
      - subst h1. apply safe_emit_other; auto. cbn. intros x; reflexivity. }
    destruct k as [|[|[|k]]].
    - apply Single; try reflexivity. apply safe_lock_loops.
    - apply Single; try reflexivity. apply safe_try_lock.
    - (* lock_all *)
      apply Conc.safe_bind. eapply Conc.safe_weaken; [|apply safe_lock_range].
      intros m h1 (Hm & Hin & Hout). destruct (Nat.eqb_spec m size) as [->|Nm].
      + apply safe_enter_range; [intros x Hx; apply Hin; exact Hx|].
        intros h2 Hin2 Hout2. apply safe_touch. intros _.
        apply Conc.safe_bind. eapply Conc.safe_weaken; [|apply IH].
        intros [] h3 H3. unfold Qsame in H3.
        apply safe_leave_range; [intros x Hx; rewrite H3; apply Hin2; exact Hx|].
        intros h4 Hin4 Hout4. eapply Conc.safe_weaken; [|apply safe_unlock_range; exact Hin4].
        intros [] h5 (Hin5 & Hout5) x. destruct (inr_dec 0 size x) as [Hx|Hx].
        * rewrite Hin5 by exact Hx. symmetry. apply Hin. exact Hx.
        * rewrite Hout5, Hout4, H3, Hout2, Hout by exact Hx. reflexivity.
      + apply Conc.safe_bind. eapply Conc.safe_weaken; [|apply safe_unlock_range; intros x Hx; apply Hin; exact Hx].
        intros [] h2 (Hin2 & Hout2). apply safe_emit_other; try reflexivity. cbn. intros x.
        destruct (inr_dec 0 m x) as [Hx|Hx].
        * rewrite Hin2 by exact Hx. symmetry. apply Hin. exact Hx.
        * rewrite Hout2, Hout by exact Hx. reflexivity.
    - apply Single; try reflexivity. apply safe_lock_loops.
  Qed.

  Lemma safe_run_ops fuel t os : forall h, safe t (run_ops sel size fuel os) h (Qsame h).
  Proof.
    induction os as [|o r IH]; intros h; cbn [run_ops]; [cbn; intros x; reflexivity|].
    apply Conc.safe_bind. unfold run_op. apply Conc.safe_bind.
    eapply Conc.safe_weaken; [|apply safe_nest].
    intros [] h1 H1. apply safe_emit_other; try reflexivity. cbn [Conc.safe].
    eapply Conc.safe_weaken; [|apply IH].
    intros [] h2 H2 x. rewrite H2. apply H1.
  Qed.

  Lemma safe_thread fuel t os : safe t (thread_prog sel size fuel os) (fun _ => Free) (@Conc.QTrue L).
  Proof.
    unfold thread_prog. apply safe_act_read; [intros g; cbn; split; eauto|].
    intros v. eapply Conc.safe_weaken; [|apply safe_run_ops]. intros; exact I.
  Qed.

  Lemma init_ok fuel ths : Conc.cfg_ok view Inv (Locks.init_cfg sel size fuel ths).
  Proof.
    exists (fun _ _ => Free). split.
    - cbn. repeat split; try congruence.
      intros l. left. split; [reflexivity|]. intros t; discriminate.
    - intros t p Hp. cbn [Locks.init_cfg Conc.threads] in Hp. rewrite nth_error_map in Hp.
      destruct (nth_error ths t); inversion Hp; subst. apply safe_thread.
  Qed.

  (** in every reachable configuration, for every lock (cell, node) at most one thread is inside the
      critical section it guards, and the lock is taken whenever somebody is inside *)
  Theorem locks_mutex fuel ths c :
    Conc.reach (Locks.init_cfg sel size fuel ths) c ->
    forall l, 0 <= occ l (Conc.trace c) <= 1 /\
              (occ l (Conc.trace c) = 1 -> get_spin (Conc.shared c) l = true).
  Proof.
    intros Hr l. destruct (Conc.reach_Inv (init_ok fuel ths) Hr) as (a & I1 & _ & I3).
    destruct (I3 l) as [[Ho _]|[Ho [t Ht]]]; split; try lia.
    intros _. apply (I1 t l). congruence.
  Qed.
End Nest.
