(** * C07 — the history of a trace of the Vyukov model extended with the empty() calls, over [VQE cap]; reduction of
      its linearizability (every schedule) to the existence of a MERGED annotated trace.

    [histE capn tr]: the history of [hist capn tr] (LV.Proofs.VyukovLin) plus, for every client event
    (t, inv_empty) an invocation of [EEmpty] by t and for every (t, ret_empty [b]) the response [RBool (b = 1)].

    A merged trace [m] interleaves the events of the trace with the linearization points of the enqueue / dequeue /
    front / pop_front operations ([ML t]); [tr_of m] is the trace, [u_of m] the LP-annotated trace over [VQE]
    (empty() calls without linearization point).  [merged_ok]: [u_of m] replays ([prun]); every instant [tra] of the
    trace has a counterpart in [m] at which the abstract queue has length [alen tra] (the quantity of
    C07_alen_is_abstract_length); the response event of a thread pending on empty() is a ret_empty [0|1].
      [merged_linearizable] : merged_ok m -> (conclusion of C07_empty_observer for tr_of m) ->
                              linearizable (VQE capn) (histE capn (tr_of m))
    by LV.Proofs.VyukovEmptyLin.observed_linearizable: each empty() is linearized at the instant the observer theorem
    provides.  [empty_linearizable_from_merged] : for every schedule, using VyukovSizeObs.empty_observer. *)
From Coq Require Import ZArith List String Bool Lia PeanoNat.
From LV Require Import Base.Conc Base.Events Base.Lin Proofs.LinProofs Spec.Specs Model.Vyukov
                       Proofs.VyukovSpec Proofs.VyukovCore Proofs.VyukovLin Proofs.VyukovTheorems
                       Proofs.VyukovSize Proofs.VyukovSizeObs Proofs.VyukovEmptyLin.
Import ListNotations.
Local Open Scope Z_scope.

Definition hevE_of (capn : nat) (te : nat * ev) : option (hev (VQE capn)) :=
  match hev_of capn te with
  | Some (HInv _ o) => Some (@HInv (VQE capn) (fst te) (EV o))
  | Some (HRes _ r) => Some (@HRes (VQE capn) (fst te) r)
  | None =>
      match snd te with
      | EvCli name args =>
          if String.eqb name "inv_empty" then Some (@HInv (VQE capn) (fst te) EEmpty)
          else if String.eqb name "ret_empty" then
            match args with [b] => Some (@HRes (VQE capn) (fst te) (RBool (zb b))) | _ => None end
          else None
      | _ => None
      end
  end.

Definition hE1 (capn : nat) (te : nat * ev) : list (hev (VQE capn)) :=
  match hevE_of capn te with Some h => [h] | None => [] end.

Definition histE (capn : nat) (tr : list (nat * ev)) : history (VQE capn) := flat_map (hE1 capn) tr.

Definition aevE_of (capn : nat) (te : nat * ev) : list (aev (VQE capn)) :=
  match hevE_of capn te with
  | Some (HInv _ o) => [@AInv (VQE capn) (fst te) o]
  | Some (HRes _ r) => [@ARes (VQE capn) (fst te) r]
  | None => []
  end.

Inductive mit := ME (te : nat * ev) | ML (t : nat).

Definition tr1_of (i : mit) : list (nat * ev) := match i with ME te => [te] | ML _ => [] end.
Definition u1_of (capn : nat) (i : mit) : list (aev (VQE capn)) :=
  match i with ME te => aevE_of capn te | ML t => [@ALin (VQE capn) t] end.

Definition tr_of (m : list mit) : list (nat * ev) := flat_map tr1_of m.
Definition u_of (capn : nat) (m : list mit) : list (aev (VQE capn)) := flat_map (u1_of capn) m.

Lemma hevE_tid capn te h : hevE_of capn te = Some h -> tid_of h = fst te.
Proof.
  unfold hevE_of. destruct (hev_of capn te) as [[t o|t r]|].
  - intros H; inversion H; reflexivity.
  - intros H; inversion H; reflexivity.
  - destruct (snd te) as [kk o b|name args]; [discriminate|].
    destruct (String.eqb name "inv_empty"); [intros H; inversion H; reflexivity|].
    destruct (String.eqb name "ret_empty"); [|discriminate].
    destruct args as [|b [|? ?]]; try discriminate. intros H; inversion H; reflexivity.
Qed.

Lemma erase_u_of capn m : erase (u_of capn m) = histE capn (tr_of m).
Proof.
  induction m as [|i m IH]; [reflexivity|]. unfold u_of, tr_of, histE in *. cbn [flat_map].
  rewrite erase_app, flat_map_app, IH. f_equal.
  destruct i as [te|t]; cbn [u1_of tr1_of flat_map]; [|reflexivity]. rewrite app_nil_r. unfold aevE_of, hE1.
  destruct (hevE_of capn te) as [[t o|t r]|] eqn:E; [| |reflexivity].
  - pose proof (hevE_tid capn te _ E) as T. cbn in T. subst t. reflexivity.
  - pose proof (hevE_tid capn te _ E) as T. cbn in T. subst t. reflexivity.
Qed.

Lemma quiet_none capn t e : quiet e = true -> hevE_of capn (t, e) = None.
Proof.
  destruct e as [kk o b|name args]; cbn [quiet]; intros H; [reflexivity|].
  apply String.eqb_eq in H. subst name. reflexivity.
Qed.

Lemma ret_empty_hev capn t b : aevE_of capn (t, EvCli "ret_empty" [b]) = [@ARes (VQE capn) t (RBool (zb b))].
Proof. reflexivity. Qed.

(** splitting a [flat_map] whose pieces have at most one element *)
Lemma flat_map_split {A B} (f : A -> list B) (Hf : forall a, (Datatypes.length (f a) <= 1)%nat) :
  forall m u1 x u2, flat_map f m = u1 ++ x :: u2 ->
    exists m1 a m2, m = m1 ++ a :: m2 /\ flat_map f m1 = u1 /\ f a = [x] /\ flat_map f m2 = u2.
Proof.
  induction m as [|a m IH]; intros u1 x u2 H; cbn [flat_map] in H.
  - destruct u1; discriminate.
  - pose proof (Hf a) as L. destruct (f a) as [|y [|? ?]] eqn:Fa; cbn in L; [| |lia].
    + cbn [app] in H. destruct (IH u1 x u2 H) as (m1 & a' & m2 & -> & E1 & E2 & E3).
      exists (a :: m1), a', m2. repeat split; auto. cbn [flat_map]. rewrite Fa. exact E1.
    + cbn [app] in H. destruct u1 as [|z u1]; cbn [app] in H; inversion H; subst.
      * exists [], a, m. repeat split; auto.
      * destruct (IH u1 x u2 H2) as (m1 & a' & m2 & -> & E1 & E2 & E3).
        exists (a :: m1), a', m2. repeat split; auto. cbn [flat_map]. rewrite Fa, E1. reflexivity.
Qed.

Lemma u1_len capn i : (Datatypes.length (u1_of capn i) <= 1)%nat.
Proof.
  destruct i as [te|t]; cbn [u1_of]; [|cbn; lia]. unfold aevE_of.
  destruct (hevE_of capn te) as [[? ?|? ?]|]; cbn; lia.
Qed.

Section Merged.
  Variable capn : nat.
  Notation Sp := (VQE capn).

  Record merged_ok (m : list mit) : Prop := {
    mo_run : exists cu, prun capn lp_init (u_of capn m) = Some cu;
    mo_len : forall tra trb, tr_of m = tra ++ trb ->
      exists ma mb ca, m = ma ++ mb /\ tr_of ma = tra /\ prun capn lp_init (u_of capn ma) = Some ca /\
                       Z.of_nat (Datatypes.length (fst ca)) = alen tra;
    mo_ret : forall m1 t e m2 c1, m = m1 ++ ME (t, e) :: m2 -> prun capn lp_init (u_of capn m1) = Some c1 ->
      snd c1 t = Pending (EEmpty : Op Sp) ->
      hevE_of capn (t, e) = None \/ exists b, e = EvCli "ret_empty" [b] /\ (b = 0 \/ b = 1)
  }.

  (** the conclusion of C07_empty_observer about a trace *)
  Definition observer_holds (tr : list (nat * ev)) : Prop :=
    forall tr1 t b tr2, tr = tr1 ++ (t, EvCli "ret_empty" [b]) :: tr2 ->
      exists tra trb, tr1 = tra ++ trb /\ in_call t trb /\ (b = 1 -> alen tra = 0) /\ (b = 0 -> 0 < alen tra).

  Lemma in_call_noCli t z : in_call t (tr_of z) -> noCli capn t (u_of capn z).
  Proof.
    intros H e He. unfold u_of in He. apply in_flat_map in He. destruct He as (i & Hi & He).
    destruct i as [[t' e']|t']; cbn [u1_of] in He.
    - unfold aevE_of in He. destruct (Nat.eq_dec t' t) as [->|Hd].
      + assert (Hq : quiet e' = true).
        { apply H. unfold tr_of. apply in_flat_map. exists (ME (t, e')). split; [exact Hi|left; reflexivity]. }
        rewrite (quiet_none capn t e' Hq) in He. destruct He.
      + destruct (hevE_of capn (t', e')) as [[? o|? r]|]; cbn [fst] in He.
        * destruct He as [<-|[]]. exact Hd.
        * destruct He as [<-|[]]. exact Hd.
        * destruct He.
    - destruct He as [<-|[]]. exact I.
  Qed.

  Theorem merged_observed m : merged_ok m -> observer_holds (tr_of m) -> observed capn (u_of capn m).
  Proof.
    intros [_ Hlen Hret] Hobs u1 t r u2 c1 Eu R1 P1.
    destruct (flat_map_split (u1_of capn) (u1_len capn) m u1 _ u2 Eu) as (m1 & it & m2 & Em & E1 & Eit & E2).
    destruct it as [[t' e]|t']; [|cbn in Eit; discriminate]. cbn [u1_of] in Eit.
    assert (Ht : t' = t).
    { unfold aevE_of in Eit. destruct (hevE_of capn (t', e)) as [[? ?|? ?]|]; cbn [fst] in Eit; inversion Eit; reflexivity. }
    subst t'. rewrite <- E1 in R1.
    destruct (Hret m1 t e m2 c1 Em R1 P1) as [Hn|(b & -> & Hb)].
    { unfold aevE_of in Eit. rewrite Hn in Eit. discriminate. }
    rewrite ret_empty_hev in Eit. inversion Eit; subst r; clear Eit.
    assert (Etr : tr_of m = tr_of m1 ++ (t, EvCli "ret_empty" [b]) :: tr_of m2).
    { rewrite Em. unfold tr_of. rewrite flat_map_app. reflexivity. }
    destruct (Hobs _ t b _ Etr) as (tra & trb & Es & Hin & Hb1 & Hb0).
    assert (Etr2 : tr_of m = tra ++ (trb ++ (t, EvCli "ret_empty" [b]) :: tr_of m2)).
    { rewrite Etr, Es, <- app_assoc. reflexivity. }
    destruct (Hlen _ _ Etr2) as (ma & mb & ca & Em2 & Ea & Ra & Hl).
    (* [ma] is a prefix of [m1] *)
    assert (Hz : exists z, m1 = ma ++ z).
    { rewrite Em in Em2. apply app_eq_app in Em2. destruct Em2 as (z & [[Z1 Z2]|[Z1 Z2]]).
      - exists z. exact Z1.
      - destruct z as [|i z].
        + exists []. rewrite app_nil_r in Z1. rewrite app_nil_r. auto.
        + exfalso. cbn [app] in Z2. injection Z2 as Zi Zm. subst i.
          rewrite Z1 in Ea. unfold tr_of in Ea, Es. rewrite flat_map_app in Ea. cbn [flat_map tr1_of] in Ea.
          rewrite Es in Ea. rewrite <- app_assoc in Ea. rewrite <- (app_nil_r tra) in Ea at 2.
          apply app_inv_head in Ea. apply (f_equal (@Datatypes.length _)) in Ea. rewrite !app_length in Ea. cbn in Ea. lia. }
    destruct Hz as (z & Ez).
    assert (Etz : tr_of z = trb).
    { rewrite Ez in Es. unfold tr_of in *. rewrite flat_map_app, Ea in Es. apply app_inv_head in Es. exact Es. }
    exists (u_of capn ma), (u_of capn z), ca. split; [|split; [|split]].
    - rewrite <- E1, Ez. unfold u_of. apply flat_map_app.
    - apply in_call_noCli. rewrite Etz. exact Hin.
    - exact Ra.
    - f_equal. destruct Hb as [-> | ->].
      + specialize (Hb0 eq_refl). destruct (fst ca); [cbn in Hl; lia|reflexivity].
      + specialize (Hb1 eq_refl). destruct (fst ca); [reflexivity|cbn [Datatypes.length] in Hl; lia].
  Qed.

  Theorem merged_linearizable m :
    merged_ok m -> observer_holds (tr_of m) -> linearizable Sp (histE capn (tr_of m)).
  Proof.
    intros Hm Ho. rewrite <- erase_u_of. destruct (mo_run m Hm) as (cu & Ru).
    exact (observed_linearizable capn (u_of capn m) cu Ru (merged_observed m Hm Ho)).
  Qed.
End Merged.

(** ** every schedule *)

(** the literal statement: the history with empty() is linearizable to the bounded FIFO with an [empty] observer *)
Definition empty_linearizable_statement : Prop :=
  forall (k : nat) (q : qcfg) (fuel : nat) (ths : list (list op)) (sc : option nat) (mp : bool) c,
    (1 <= k)%nat -> qcap q = 2 ^ Z.of_nat k -> programs_allowed sc mp ths ->
    Conc.reach (init_cfg q fuel ths) c -> claims_bound k (Conc.trace c) ->
    linearizable (VQE (2 ^ k)) (histE (2 ^ k) (Conc.trace c)).

(** what is missing: the annotated traces of the configurations along an execution are prefixes of each other
    (the invariant of LV.Proofs.VyukovCore yields one annotated trace per configuration, existentially) *)
Definition merged_trace_statement : Prop :=
  forall (k : nat) (q : qcfg) (fuel : nat) (ths : list (list op)) (sc : option nat) (mp : bool) c,
    (1 <= k)%nat -> qcap q = 2 ^ Z.of_nat k -> programs_allowed sc mp ths ->
    Conc.reach (init_cfg q fuel ths) c -> claims_bound k (Conc.trace c) ->
    exists m, tr_of m = Conc.trace c /\ merged_ok (2 ^ k) m.

Theorem empty_linearizable_from_merged : merged_trace_statement -> empty_linearizable_statement.
Proof.
  intros H k q fuel ths sc mp c Hk Hq Hal Hr Hb.
  destruct (H k q fuel ths sc mp c Hk Hq Hal Hr Hb) as (m & Et & Hm). rewrite <- Et.
  apply merged_linearizable; [exact Hm|]. rewrite Et.
  intros tr1 t b tr2 E. exact (empty_observer k q fuel ths sc mp c Hk Hq Hal Hr Hb tr1 t b tr2 E).
Qed.
