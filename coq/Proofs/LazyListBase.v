(** * LazyListBase: chains over an arbitrary successor function, extended keys (m_Head = minus infinity,
      m_Tail = plus infinity), chain surgery.  Used by the LazyList invariant, where the successor function is the
      physical m_pNext except for a node between the two stores of unlink_node (ghost successor). *)
From Coq Require Import ZArith List Bool Lia PeanoNat.
Import ListNotations.
Local Open Scope Z_scope.

Inductive ek := EMin | EKey (k : Z) | EMax.

Definition elt (a b : ek) : Prop :=
  match a, b with
  | EMin, EKey _ => True
  | EMin, EMax => True
  | EKey x, EKey y => x < y
  | EKey _, EMax => True
  | _, _ => False
  end.

Lemma elt_trans a b c : elt a b -> elt b c -> elt a c.
Proof. destruct a, b, c; cbn; try tauto; lia. Qed.
Lemma elt_irrefl a : ~ elt a a.
Proof. destruct a; cbn; lia. Qed.

Fixpoint esorted (l : list ek) : Prop :=
  match l with
  | [] => True
  | x :: r => match r with [] => True | y :: _ => elt x y end /\ esorted r
  end.

Lemma esorted_tail x r : esorted (x :: r) -> esorted r.
Proof. cbn. tauto. Qed.

Lemma esorted_lt_all x r : esorted (x :: r) -> forall y, In y r -> elt x y.
Proof.
  revert x. induction r as [|z r IH]; intros x H y Hy; [destruct Hy|].
  destruct H as [H1 H2]. destruct Hy as [->|Hy]; [exact H1|].
  eapply elt_trans; [exact H1|]. apply IH; auto.
Qed.

Lemma esorted_app_r l1 l2 : esorted (l1 ++ l2) -> esorted l2.
Proof. induction l1 as [|x l1 IH]; cbn [app]; auto. intros H. apply IH. eapply esorted_tail; eauto. Qed.

Lemma esorted_insert A a k B :
  esorted (A ++ a :: B) -> elt a k -> match B with [] => True | b :: _ => elt k b end ->
  esorted (A ++ a :: k :: B).
Proof.
  induction A as [|x A IH]; cbn [app]; intros H Ha Hb.
  - destruct H as [H1 H2]. cbn [esorted]. repeat split; auto.
  - destruct H as [H1 H2]. split; [|apply IH; auto].
    destruct A; cbn [app] in *; exact H1.
Qed.

Lemma esorted_remove A a c B :
  esorted (A ++ a :: c :: B) -> esorted (A ++ a :: B).
Proof.
  induction A as [|x A IH]; cbn [app]; intros H.
  - destruct H as [H1 [H2 H3]]. split; [|exact H3].
    destruct B as [|b B]; auto. eapply elt_trans; eauto.
  - destruct H as [H1 H2]. split; [|apply IH; auto].
    destruct A; cbn [app] in *; exact H1.
Qed.

Lemma esorted_mid A a B : esorted (A ++ a :: B) ->
  (forall x, In x A -> elt x a) /\ (forall y, In y B -> elt a y).
Proof.
  induction A as [|z A IH]; cbn [app]; intros H.
  - split; [intros x []|]. apply esorted_lt_all; exact H.
  - destruct (IH (esorted_tail _ _ H)) as [I1 I2]. split; auto.
    intros x [->|Hx]; auto. apply (esorted_lt_all _ _ H). apply in_or_app. right. left. reflexivity.
Qed.

Lemma esorted_nodup l : esorted l -> NoDup l.
Proof.
  induction l as [|x r IH]; intros H; constructor.
  - intros Hx. apply (elt_irrefl x). apply (esorted_lt_all _ _ H); exact Hx.
  - apply IH. eapply esorted_tail; eauto.
Qed.

Lemma esorted_map_nodup {A} (f : A -> ek) L : esorted (map f L) -> NoDup L.
Proof.
  intros H. apply esorted_nodup in H. revert H. induction L as [|x L IH]; cbn [map]; intros H; constructor.
  - inversion H; subst. intros Hx. apply H2. apply in_map. exact Hx.
  - inversion H; subst. auto.
Qed.

(** ** chains *)
Fixpoint glinked (nx : nat -> nat) (n : nat) (L : list nat) (q : nat) : Prop :=
  match L with
  | [] => nx n = q
  | x :: L' => nx n = x /\ glinked nx x L' q
  end.

Lemma glinked_app nx : forall L1 n x L2 q,
  glinked nx n (L1 ++ x :: L2) q <-> glinked nx n L1 x /\ glinked nx x L2 q.
Proof.
  induction L1 as [|y L1 IH]; intros n x L2 q; cbn [app glinked].
  - tauto.
  - rewrite IH. tauto.
Qed.

Lemma glinked_start nx nx' a b L q :
  nx a = nx' b -> (forall x, In x L -> nx x = nx' x) -> glinked nx a L q -> glinked nx' b L q.
Proof.
  revert a b. induction L as [|x L IH]; intros a b Hab HL; cbn [glinked].
  - congruence.
  - intros [H1 H2]. split; [congruence|].
    eapply IH; [|intros y Hy; apply HL; right; exact Hy|exact H2].
    apply HL; left; reflexivity.
Qed.

Section Chain.
  Variables (HEAD TAIL : nat).

  Definition chain_ok (nx : nat -> nat) (kf : nat -> ek) (L : list nat) : Prop :=
    glinked nx HEAD L TAIL /\ esorted (map kf (HEAD :: L ++ [TAIL])).

  Lemma chain_nodup nx kf L : chain_ok nx kf L -> NoDup (HEAD :: L ++ [TAIL]).
  Proof. intros [_ H]. eapply esorted_map_nodup; eauto. Qed.

  Lemma chain_ext nx nx' kf kf' L :
    (forall x, In x (HEAD :: L) -> nx' x = nx x) -> (forall x, In x (HEAD :: L ++ [TAIL]) -> kf' x = kf x) ->
    chain_ok nx kf L -> chain_ok nx' kf' L.
  Proof.
    intros H1 H2 [Hl Hs]. split.
    - eapply glinked_start; [| |exact Hl].
      + symmetry. apply H1. left; reflexivity.
      + intros x Hx. symmetry. apply H1. right; exact Hx.
    - erewrite map_ext_in; [exact Hs|]. intros x Hx. apply H2. exact Hx.
  Qed.

  Lemma chain_split nx kf L m : chain_ok nx kf L -> In m (HEAD :: L) ->
    exists L1 L2, (HEAD :: L) = L1 ++ m :: L2 /\ glinked nx m L2 TAIL /\
                  (forall x, In x L1 -> x <> m) /\ (forall x, In x L2 -> x <> m) /\ m <> TAIL /\
                  (forall nx', (forall x, In x L1 -> nx' x = nx x) ->
                               match L1 with [] => True | s :: L1' => glinked nx' s L1' m end).
  Proof.
    intros Hc Hm. pose proof (chain_nodup _ _ _ Hc) as Hnd. destruct Hc as [Hl Hs].
    apply in_split in Hm. destruct Hm as (L1 & L2 & E).
    assert (Hnd' : NoDup ((L1 ++ m :: L2) ++ [TAIL])) by (rewrite <- E; exact Hnd).
    rewrite <- app_assoc in Hnd'. cbn [app] in Hnd'.
    assert (N1 : forall x, In x L1 -> x <> m).
    { intros x Hx ->. apply NoDup_remove_2 in Hnd'. apply Hnd'. apply in_or_app. left; exact Hx. }
    assert (N2 : forall x, In x (L2 ++ [TAIL]) -> x <> m).
    { intros x Hx ->. apply NoDup_remove_2 in Hnd'. apply Hnd'. apply in_or_app. right; exact Hx. }
    exists L1, L2. split; [exact E|].
    assert (HmT : m <> TAIL) by (intros ->; apply (N2 TAIL); [apply in_or_app; right; left; reflexivity|reflexivity]).
    assert (N2' : forall x, In x L2 -> x <> m) by (intros x Hx; apply N2; apply in_or_app; left; exact Hx).
    destruct L1 as [|s L1'].
    - cbn [app] in E. inversion E; subst. repeat split; auto.
    - cbn [app] in E. inversion E; subst s. subst L.
      apply glinked_app in Hl. destruct Hl as [Ha Hb]. repeat split; auto.
      intros nx' Hnx'. eapply glinked_start; [| |exact Ha].
      + symmetry. apply Hnx'. left; reflexivity.
      + intros x Hx. symmetry. apply Hnx'. right; exact Hx.
  Qed.

  (** linking a fresh node [n] right after [m] *)
  Lemma chain_insert nx nx' kf L m n :
    chain_ok nx kf L -> In m (HEAD :: L) -> ~ In n (HEAD :: L ++ [TAIL]) ->
    nx' m = n -> nx' n = nx m -> (forall x, x <> m -> x <> n -> nx' x = nx x) ->
    elt (kf m) (kf n) -> elt (kf n) (kf (nx m)) ->
    exists L', chain_ok nx' kf L' /\ (forall x, In x L' <-> x = n \/ In x L).
  Proof.
    intros Hc Hm Hn Hm' Hn' Hoth Hk1 Hk2.
    destruct (chain_split _ _ _ _ Hc Hm) as (L1 & L2 & E & H2 & N1 & N2 & HmT & Hpre).
    destruct Hc as [Hl Hs].
    assert (Hnm : n <> m) by (intros ->; apply Hn; destruct Hm as [<-|Hm]; [left; reflexivity|right; apply in_or_app; left; exact Hm]).
    assert (HnL2 : forall x, In x L2 -> x <> n).
    { intros x Hx ->. apply Hn. assert (In n (HEAD :: L)) by (rewrite E; apply in_or_app; right; right; exact Hx).
      destruct H as [<-|H]; [left; reflexivity|right; apply in_or_app; left; exact H]. }
    assert (HnL1 : forall x, In x L1 -> x <> n).
    { intros x Hx ->. apply Hn. assert (In n (HEAD :: L)) by (rewrite E; apply in_or_app; left; exact Hx).
      destruct H as [<-|H]; [left; reflexivity|right; apply in_or_app; left; exact H]. }
    assert (H2' : glinked nx' m (n :: L2) TAIL).
    { cbn [glinked]. split; [exact Hm'|].
      eapply glinked_start; [| |exact H2].
      - symmetry. exact Hn'.
      - intros x Hx. symmetry. apply Hoth; [apply N2; exact Hx|apply HnL2; exact Hx]. }
    assert (Hs' : esorted (map kf ((L1 ++ m :: n :: L2) ++ [TAIL]))).
    { assert (E2 : HEAD :: L ++ [TAIL] = (L1 ++ m :: L2) ++ [TAIL]) by (rewrite <- E; reflexivity).
      rewrite E2 in Hs. rewrite <- app_assoc in *. cbn [app] in *. rewrite map_app in *. cbn [map] in *.
      apply esorted_insert; auto.
      destruct L2 as [|b L2]; cbn [app map].
      - cbn [glinked] in H2. rewrite <- H2. exact Hk2.
      - cbn [glinked] in H2. destruct H2 as [Hb _]. rewrite <- Hb. exact Hk2. }
    destruct L1 as [|s L1'].
    - cbn [app] in E. inversion E; subst m L2. exists (n :: L). split; [split|].
      + exact H2'.
      + exact Hs'.
      + intros x. cbn [In]. split; intros [->|Hx]; auto.
    - cbn [app] in E. inversion E; subst s. subst L.
      exists (L1' ++ m :: n :: L2). split; [split|].
      + apply glinked_app. split; [|exact H2'].
        apply (Hpre nx'). intros x Hx. apply Hoth; [apply N1; exact Hx|apply HnL1; exact Hx].
      + exact Hs'.
      + intros x. rewrite !in_app_iff. cbn [In]. split.
        * intros [Hx|[->|[->|Hx]]]; auto.
        * intros [->|[Hx|[->|Hx]]]; auto.
  Qed.

  (** removing the node [c] that follows [m] *)
  Lemma chain_remove nx nx' kf L m c :
    chain_ok nx kf L -> In m (HEAD :: L) -> nx m = c -> c <> TAIL ->
    nx' m = nx c -> (forall x, x <> m -> x <> c -> nx' x = nx x) ->
    exists L', chain_ok nx' kf L' /\ In c L /\ (forall x, In x L' <-> In x L /\ x <> c).
  Proof.
    intros Hc Hm Hmc HcT Hm' Hoth.
    destruct (chain_split _ _ _ _ Hc Hm) as (L1 & L2 & E & H2 & N1 & N2 & HmT & Hpre).
    pose proof (chain_nodup _ _ _ Hc) as Hnd. destruct Hc as [Hl Hs].
    destruct L2 as [|c' L2].
    { cbn [glinked] in H2. congruence. }
    cbn [glinked] in H2. destruct H2 as [Hc' H3]. rewrite Hmc in Hc'. subst c'.
    assert (E2 : HEAD :: L ++ [TAIL] = L1 ++ m :: c :: (L2 ++ [TAIL])).
    { change (HEAD :: L ++ [TAIL]) with ((HEAD :: L) ++ [TAIL]). rewrite E, <- app_assoc. reflexivity. }
    rewrite E2 in Hnd.
    assert (Hcm : c <> m) by (apply N2; left; reflexivity).
    assert (Hc12 : ~ In c ((L1 ++ [m]) ++ L2 ++ [TAIL])).
    { apply NoDup_remove_2. rewrite <- app_assoc. cbn [app]. exact Hnd. }
    assert (Hc2 : ~ In c L2) by (intros Hx; apply Hc12; apply in_or_app; right; apply in_or_app; left; exact Hx).
    assert (Hc1 : ~ In c L1) by (intros Hx; apply Hc12; apply in_or_app; left; apply in_or_app; left; exact Hx).
    assert (H3' : glinked nx' m L2 TAIL).
    { eapply glinked_start; [| |exact H3].
      - symmetry. exact Hm'.
      - intros x Hx. symmetry. apply Hoth; [apply N2; right; exact Hx|intros ->; contradiction]. }
    assert (Hs' : esorted (map kf ((L1 ++ m :: L2) ++ [TAIL]))).
    { rewrite E2 in Hs. rewrite <- app_assoc. cbn [app]. rewrite map_app in *. cbn [map] in *.
      eapply esorted_remove; eauto. }
    destruct L1 as [|s L1'].
    - cbn [app] in E. inversion E; subst m L. exists L2. split; [split; auto|]. split; [left; reflexivity|].
      intros x. cbn [In]. split.
      + intros Hx. split; auto. intros ->. contradiction.
      + intros [[->|Hx] Hne]; [congruence|exact Hx].
    - cbn [app] in E. inversion E; subst s. subst L.
      exists (L1' ++ m :: L2). split; [split|].
      + apply glinked_app. split; [|exact H3'].
        apply (Hpre nx'). intros x Hx. apply Hoth; [apply N1; exact Hx|intros ->; apply Hc1; exact Hx].
      + exact Hs'.
      + split; [apply in_or_app; right; right; left; reflexivity|].
        intros x. rewrite !in_app_iff. cbn [In]. split.
        * intros [Hx|[->|Hx]]; (split; [auto|intros ->]).
          -- apply Hc1. right; exact Hx.
          -- congruence.
          -- contradiction.
        * intros [[Hx|[->|[->|Hx]]] Hne]; auto. congruence.
  Qed.
End Chain.
