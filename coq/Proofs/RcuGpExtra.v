(** * RcuGp invariant: additional steps used by the buffered flavour (ghost re-marking of the grace-period start,
      disposals by a thread that is past its grace period, return to the idle state). *)
From Coq Require Import ZArith List String Bool Lia PeanoNat.
From LV Require Import Base.Conc Base.Events Model.RcuGp Proofs.RcuBits Proofs.RcuGpInv Proofs.RcuGpSteps Proofs.RcuGpWriter.
Import ListNotations.
Local Open Scope string_scope.
Local Open Scope list_scope.
Local Open Scope Z_scope.

(** an access that does not touch the gp state; the thread (not a lock holder) chooses the current position as the
    start marker of a grace period it is about to run *)
Lemma step_mark g g' a tr t k o ok :
  g_list g' = g_list g -> g_nrec g' = g_nrec g -> g_tid g' = g_tid g -> g_acc g' = g_acc g ->
  g_lock g' = g_lock g -> g_ctl g' = g_ctl g ->
  Inv g a tr -> ~ holder (l_w (a t)) ->
  Inv g' (updA a t (set_w (a t) (WStart (List.length tr)))) (tr ++ [(t, EvAcc k o ok)]).
Proof.
  intros E1 E2 E3 E4 E5 E6 (I1 & I2 & I3 & I4) Hn. inv_split.
  - eapply InvRec_ext; [| | | | |exact I1]; auto. same_fields t.
  - eapply InvLock_ext with (g := g) (a := updA a t (set_w (a t) (WStart (List.length tr)))); auto.
    apply InvLock_nonholder; [exact I2|exact Hn|intros []].
  - rewrite app_len1. apply InvW_writer with (n := List.length tr); [lia|exact I3|exact I|]. cbn. intros i E; inversion E; lia.
  - eapply Inv_trace_part; [|exact I4]. same_fields t.
Qed.

(** the lock holder, before its first flip, moves the start marker to the current position *)
Lemma step_remark g g' a tr t i k o ok :
  g_list g' = g_list g -> g_nrec g' = g_nrec g -> g_tid g' = g_tid g -> g_acc g' = g_acc g ->
  g_lock g' = g_lock g -> g_ctl g' = g_ctl g ->
  Inv g a tr -> l_w (a t) = WHeld0 i ->
  Inv g' (updA a t (set_w (a t) (WHeld0 (List.length tr)))) (tr ++ [(t, EvAcc k o ok)]).
Proof.
  intros E1 E2 E3 E4 E5 E6 (I1 & I2 & I3 & I4) Hw. inv_split.
  - eapply InvRec_ext; [| | | | |exact I1]; auto. same_fields t.
  - eapply InvLock_ext with (g := g) (a := updA a t (set_w (a t) (WHeld0 (List.length tr)))); auto.
    pose proof I2 as [K1 K2 (b0 & Hb & K3)].
    assert (Ht : holder (l_w (a t))) by (rewrite Hw; exact I).
    apply InvLock_writer with (g := g) (b' := b0); cbn.
    + exact I2.
    + intros _. apply (K1 t Ht).
    + intros _ w' Hne X. apply Hne. eapply K2; eauto.
    + intros w' _ X. apply (K1 w' X).
    + exact Hb.
    + discriminate.
    + intros w' i0 k0 gph0 p0 Hne E. eapply K3; eauto.
  - rewrite app_len1. apply InvW_writer with (n := List.length tr); [lia|exact I3|exact I|]. cbn. intros i0 E; inversion E; lia.
  - eapply Inv_trace_part; [|exact I4]. same_fields t.
Qed.

(** the start marker of a sync_begin event lies before the current position *)
Lemma sm_below g a tr t i : Inv g a tr -> l_sm (a t) = Some i -> (i < List.length tr)%nat.
Proof. intros (_ & _ & _ & I4) H. destruct (TM _ _ I4 t i H) as (A & _). eapply at_lt; eauto. Qed.

(** "dispose p" by a thread whose grace period (started at or after the retirement) is over; the thread stays in
    that state *)
Lemma step_ev_dispose_keep g a tr t i p k w' :
  Inv g a tr -> l_w (a t) = WFin i -> at_ tr k w' (is_retire p) -> (k <= i)%nat ->
  Inv g a (tr ++ [(t, EvCli "dispose" [p])]).
Proof.
  intros (I1 & I2 & I3 & I4) Hw Hk Hki. inv_split; auto.
  - rewrite app_len1. eapply InvW_ext; [| |exact I3]; auto.
  - pose proof (WC _ _ I3 t) as C0. rewrite Hw in C0. cbn in C0.
    assert (C : forall r, ~ old a k r).
    { intros r (s & Hs & Hl). apply (C0 r). exists s. split; [exact Hs|lia]. }
    assert (I4' := I4). destruct I4 as [T3 T4 TM0 TR0 SW0 DS0]. constructor.
    + intros r s Hc. destruct (T3 _ s Hc) as (A & B). split; [apply at_app_l; exact A|].
      intros b Hb Hat. destruct (at_snoc_inv _ _ _ _ _ _ Hat) as [Hat'|(_ & _ & X)]; [eapply B; eauto|discriminate].
    + intros r s Hat. destruct (at_snoc_inv _ _ _ _ _ _ Hat) as [Hat'|(_ & _ & X)]; [|discriminate].
      destruct (T4 r s Hat') as [A|(b & Hb & Hrb & Hs)]; [left; exact A|].
      right. exists b. split; [exact Hb|]. split; [apply at_app_l; exact Hrb|exact Hs].
    + intros w j Hc. destruct (TM0 _ j Hc) as (A & B). split; [apply at_app_l; exact A|].
      intros k0 Hk0 Hat. destruct (at_snoc_inv _ _ _ _ _ _ Hat) as [Hat'|(_ & _ & X)]; [eapply B; eauto|discriminate].
    + intros w j q Hc. apply at_app_l. eapply TR0; eauto.
    + apply sync_waits_snoc; [reflexivity|assumption].
    + intros w q d Hd.
      destruct (at_snoc_inv _ _ _ _ _ _ Hd) as [Hd'|(-> & -> & X)].
      * pose proof (at_lt _ _ _ _ Hd') as Ld.
        destruct (DS0 w q d Hd') as (k1 & w1 & Hk1 & Hr & Hall). exists k1, w1. split; [exact Hk1|]. split; [apply at_app_l; exact Hr|].
        intros r s Ho. destruct (Hall r s) as (b & Hb & Hat).
        -- eapply open_at_app_inv; eauto. lia.
        -- exists b. split; [exact Hb|]. apply at_app_l; exact Hat.
      * assert (q = p).
        { unfold is_dispose, cli_is in X. cbn in X. apply Z.eqb_eq in X. auto. }
        subst q. exists k, w'. pose proof (at_lt _ _ _ _ Hk) as Li. split; [exact Li|]. split; [apply at_app_l; exact Hk|].
        intros r s Ho. apply open_at_app_inv in Ho; [|lia].
        destruct (old_reader_left a tr r s k w' (is_retire p) I4' C Ho Hk) as (b & Hb & Hat).
        -- intros e E1 E2. unfold is_retire, is_runlock0, cli_is in *. destruct e as [|n [|x l]]; try discriminate.
           apply andb_prop in E1, E2. destruct E1 as (E1 & _), E2 as (E2 & _). apply String.eqb_eq in E1, E2. congruence.
        -- exists b. split; [exact Hb|]. apply at_app_l; exact Hat.
Qed.

(** back to the idle state without a step of the trace (used at an empty [Emit]) or at a plain event *)
Lemma step_reset g a tr t : Inv g a tr -> ~ holder (l_w (a t)) -> Inv g (updA a t (set_w (a t) WIdle)) tr.
Proof.
  intros (I1 & I2 & I3 & I4) Hn. inv_split.
  - eapply InvRec_ext; [| | | | |exact I1]; auto. same_fields t.
  - apply InvLock_nonholder; [exact I2|exact Hn|intros []].
  - apply InvW_writer with (n := List.length tr); [lia|exact I3|exact I|]. cbn. discriminate.
  - destruct I4 as [T3 T4 TM0 TR0 SW0 DS0]. constructor; auto.
    + intros r s. upd_cases r t; cbn; apply T3.
    + intros r s Hat. assert (Ecs : l_cs (updA a t (set_w (a t) WIdle) r) = l_cs (a r)) by (upd_cases r t; auto). rewrite Ecs. apply T4; exact Hat.
    + intros w j. upd_cases w t; cbn; apply TM0.
    + intros w j q. upd_cases w t; cbn; apply TR0.
Qed.

(** ** programs that do not touch the gp state at all (e.g. force_membar_all_threads of the signal flavour) *)
Fixpoint gpn {R} (p : prog R) : Prop :=
  match p with
  | Ret _ => True
  | Emit es k => (exists name args, es = cli name args /\ neutral (EvCli name args)) /\ gpn k
  | Act f k =>
      (forall g, g_list (fst (fst (f g))) = g_list g /\ g_nrec (fst (fst (f g))) = g_nrec g /\ g_tid (fst (fst (f g))) = g_tid g /\
                 g_acc (fst (fst (f g))) = g_acc g /\ g_lock (fst (fst (f g))) = g_lock g /\ g_ctl (fst (fst (f g))) = g_ctl g /\
                 exists k0 o ok, snd (f g) = [EvAcc k0 o ok]) /\
      forall v, gpn (k v)
  end.

Lemma gpn_bind {A B} (p : prog A) (q : A -> prog B) : gpn p -> (forall r, gpn (q r)) -> gpn (bind p q).
Proof.
  unfold bind. induction p as [r|es k IH|f k IH]; intros Hp Hq; cbn [Conc.bind gpn] in *; auto.
  - destruct Hp as (H1 & H2). split; auto.
  - destruct Hp as (H1 & H2). split; auto.
Qed.

Lemma safe1_gpn {R} t (p : prog R) : gpn p -> forall l (Q : R -> L -> Prop), (forall r, Q r l) ->
  @Conc.safe G V ev Aux L view Inv R t p l Q.
Proof.
  induction p as [r|es k IH|f k IH]; intros Hc l Q HQ; cbn [Conc.safe gpn] in *.
  - apply HQ.
  - destruct Hc as ((name & args & -> & Hn) & Hk). intros g a tr HI Hv. exists a.
    split; [unfold cli; rewrite tag1; apply Inv_cli_neutral; assumption|]. split; [apply frame_refl|]. rewrite Hv. apply IH; auto.
  - destruct Hc as (Hf & Hk). intros g a tr HI Hv. destruct (Hf g) as (F1 & F2 & F3 & F4 & F5 & F6 & k0 & o & ok & Ee).
    exists a. rewrite Ee. split; [rewrite tag1; apply Inv_acc with (g := g); auto|]. split; [apply frame_refl|]. rewrite Hv. apply IH; auto.
Qed.
