(** * do_erase_at of the FeldmanHashSet iterators (LV.Model.FeldmanIter): what its slot CAS and its [false] branch mean,
      in every state that satisfies the structural invariant of the Feldman model (FeldmanStepInv.Inv: every reachable state
      of LV.Model.Feldman, every schedule).

    The iterator holds ( array node a, index i ) and, in its guard, the element [x] it read in that slot.
      - the CAS ( x, unflagged ) -> nullptr on a linked array node removes exactly the element [x]: every other position
        keeps its content, [x] is nowhere in the tree afterwards, exactly the hash of [x] leaves the set ([erase_at_true_exact]);
      - if the slot, on the hash path of [x], holds an unflagged value other than [x] (the [return false] branch), then
        [x] is nowhere in the tree: it has been removed or replaced ([erase_at_false_gone]).
    Not proved here: that the programs of LV.Model.FeldmanIter preserve the invariant and that the iterator's node is
    linked and on the hash path of the element at the time of the call (see Properties_C19.v). *)
From Coq Require Import ZArith NArith List Bool Arith PeanoNat Lia.
From LV Require Import Base.Conc Base.Events Model.Feldman Model.FeldmanIter.
From LV Require Import Proofs.FeldmanStepInv Proofs.FeldmanStepSafe Proofs.FeldmanStepThm Proofs.FeldmanLinInv.
Import ListNotations.

Section IterThm.
  Variables (hbits abits : nat) (hs : list N).
  Hypothesis Hh : 0 < hbits.
  Hypothesis Ha : 0 < abits.

  Notation hash := (Feldman.hash hs).
  Notation Inv := (@FeldmanStepInv.Inv hbits abits hs).
  Notation present := (FeldmanStepThm.present hs).

  (** the state after the successful CAS of do_erase_at *)
  Definition erase_at_state (g : G) (a i : nat) : G := with_arr g (set_slot (arr g) a i snull).

  Lemma erase_at_cas_step g a i x :
    arr g a i = mkSlot x 0 ->
    fst (fst (a_cas a i (mkSlot x 0) snull g)) = erase_at_state g a i /\ vok (snd (fst (a_cas a i (mkSlot x 0) snull g))) = true.
  Proof.
    intros Hs. unfold a_cas. rewrite Hs. unfold slot_eqb. cbn [sptr sbits]. rewrite !Nat.eqb_refl. cbn. split; reflexivity.
  Qed.

  Lemma erase_at_cas_fail g a i x :
    arr g a i <> mkSlot x 0 ->
    fst (fst (a_cas a i (mkSlot x 0) snull g)) = g /\ vok (snd (fst (a_cas a i (mkSlot x 0) snull g))) = false.
  Proof.
    intros Hs. unfold a_cas. destruct (slot_eqb (arr g a i) (mkSlot x 0)) eqn:E; [|cbn; split; reflexivity].
    exfalso. apply Hs. unfold slot_eqb in E. apply andb_true_iff in E. destruct E as [E1 E2].
    apply Nat.eqb_eq in E1, E2. destruct (arr g a i) as [p b]. cbn in *. congruence.
  Qed.

  Theorem erase_at_true_exact g A tr a i x :
    Inv g A tr -> reach_arr g a -> arr g a i = mkSlot x 0 -> x <> 0 ->
    (forall a' i' y, data_at (erase_at_state g a i) a' i' y <-> (data_at g a' i' y /\ (a', i') <> (a, i))) /\
    (forall a' i', ~ data_at (erase_at_state g a i) a' i' x) /\
    (forall h, present (erase_at_state g a i) h <-> (present g h /\ h <> hash (ikey g x))).
  Proof.
    intros HI Hr Hs Hx. destruct (reach_pfx HI Hr) as (o & pre & Hp).
    assert (W : forall a' i' y, data_at (erase_at_state g a i) a' i' y <-> (data_at g a' i' y /\ (a', i') <> (a, i))).
    { intros a' i' y. unfold erase_at_state, snull.
      rewrite (@write_data_at hbits abits hs Hh Ha g A tr a i x 0 o pre HI Hs Hp a' i' y). split.
      - intros [(_ & _ & H)|(H1 & H2)]; [congruence|split; assumption].
      - intros [H1 H2]. right. split; assumption. }
    split; [exact W|]. split.
    - intros a' i' D. apply W in D. destruct D as [D Hne].
      assert (Da : data_at g a i x) by (split; [exact Hr|exists 0; repeat split; auto]).
      destruct (@FeldmanStepThm.nodup_inv hbits abits hs Hh Ha g A tr a' i' x a i x HI D Da eq_refl) as (E1 & E2 & _).
      apply Hne. congruence.
    - intros h. unfold erase_at_state, snull. apply (@erase_present hbits abits hs Hh Ha g A tr a o pre i x HI Hp Hs Hx).
  Qed.

  Theorem erase_at_false_gone g A tr a o i x y :
    Inv g A tr -> pfx A a = Some (o, (hash (ikey g x) mod 2 ^ N.of_nat o)%N) ->
    i = Feldman.cut (hash (ikey g x)) o (Feldman.bits_of hbits abits a) ->
    arr g a i = mkSlot y 0 -> y <> x ->
    forall a' i', ~ data_at g a' i' x.
  Proof.
    intros HI Hp Hi Hs Hne a' i' D. subst i.
    assert (P : present g (hash (ikey g x))) by (exists a', i', x; split; [exact D|reflexivity]).
    apply (@obs_slot hbits abits hs Hh Ha g A tr a o (hash (ikey g x)) y HI Hp Hs) in P. destruct P as [Hy Eh].
    assert (Da : data_at g a (Feldman.cut (hash (ikey g x)) o (Feldman.bits_of hbits abits a)) y).
    { split; [eapply (@pfx_reach hbits abits hs Hh Ha g A tr HI o a o); [apply le_n|exact Hp]|]. exists 0. repeat split; auto. }
    destruct (@FeldmanStepThm.nodup_inv hbits abits hs Hh Ha g A tr _ _ y a' i' x HI Da D Eh) as (_ & _ & E). congruence.
  Qed.
End IterThm.
