(** * The invariant behind conservation and "push fails only if full" for LV.Model.MsPq, and its
      preservation by every kind of step.

    Only the heap-size lock matters for these two properties: the item counter and the two cells "in
    transition" (the cell a pusher has reserved and not yet filled, the bottom cell a popper has claimed and not
    yet emptied) are touched only by the holder of m_Lock; every other modification of a cell either swaps two
    occupied cells or rewrites the tag of an occupied cell, which changes neither the multiset of stored items
    nor which cells are occupied.  The node locks are therefore not part of this invariant (they matter for the
    heap ORDER, see MsPqSeq / MsPqPhase). *)
From Coq Require Import ZArith List String Bool Lia PeanoNat Permutation.
From LV Require Import Base.Conc Base.Events Model.MsPq Proofs.MsPqBrc.
Import ListNotations.
Local Open Scope string_scope.
Local Open Scope list_scope.

Lemma item_eq_dec : forall x y : item, {x = y} + {x <> y}.
Proof. decide equality; apply Z.eq_dec. Qed.

Notation cnt := (count_occ item_eq_dec).

(** ** what the trace says *)
Definition inv_items (e : nat * ev) : list item :=
  match snd e with
  | EvCli n [p; id] => if String.eqb n "inv_push" then [(p, id)] else []
  | _ => []
  end.
(** items handed back to the client: returned by pop, or refused by push *)
Definition back_items (e : nat * ev) : list item :=
  match snd e with
  | EvCli n [b; p; id] =>
      if (String.eqb n "ret_pop" && Z.eqb b 1) || (String.eqb n "ret_push" && Z.eqb b 0) then [(p, id)] else []
  | _ => []
  end.
Definition invoked (tr : list (nat * ev)) : list item := flat_map inv_items tr.
Definition given_back (tr : list (nat * ev)) : list item := flat_map back_items tr.

Definition is_inv (n : string) : bool := String.eqb n "inv_push" || String.eqb n "inv_pop".
Definition is_ret (n : string) : bool := String.eqb n "ret_push" || String.eqb n "ret_pop".

(** thread [t] has invoked an operation that has not returned *)
Definition pend_step (t : nat) (b : bool) (e : nat * ev) : bool :=
  if Nat.eqb (fst e) t then
    match snd e with
    | EvCli n _ => if is_inv n then true else if is_ret n then false else b
    | _ => b
    end
  else b.
Definition pend (tr : list (nat * ev)) (t : nat) : bool := fold_left (pend_step t) tr false.

(** the current operation of [t] has emitted the ghost event "g_full" *)
Definition just_step (t : nat) (b : bool) (e : nat * ev) : bool :=
  if Nat.eqb (fst e) t then
    match snd e with
    | EvCli n _ => if String.eqb n "g_full" then true else if is_inv n || is_ret n then false else b
    | _ => b
    end
  else b.
Definition is_fail (e : nat * ev) : bool :=
  match snd e with
  | EvCli n (b :: _) => String.eqb n "ret_push" && Z.eqb b 0
  | _ => false
  end.
Definition just (tr : list (nat * ev)) (t : nat) : bool := fold_left (just_step t) tr false.
(** every failed push was justified (its operation had emitted "g_full") when it returned *)
Fixpoint fails_ok_from (pre l : list (nat * ev)) : bool :=
  match l with
  | [] => true
  | e :: r => (negb (is_fail e) || just pre (fst e)) && fails_ok_from (pre ++ [e]) r
  end.
Definition fails_ok (tr : list (nat * ev)) : bool := fails_ok_from [] tr.

Definition full_events_ok (cap : nat) (tr : list (nat * ev)) : Prop :=
  forall t args, In (t, EvCli "g_full" args) tr -> args = [Z.of_nat cap; Z.of_nat cap; Z.of_nat cap].

(** events that none of the above looks at *)
Definition irrelevant (e : ev) : bool :=
  match e with
  | EvAcc _ _ _ => true
  | EvCli n _ => String.eqb n "ub_null" || String.eqb n "ub_oob" || String.eqb n "stopped"
                 || String.eqb n "g_inc" || String.eqb n "g_dec" || String.eqb n "g_emp"
  end.

Lemma invoked_app tr tr' : invoked (tr ++ tr') = invoked tr ++ invoked tr'.
Proof. apply flat_map_app. Qed.
Lemma given_back_app tr tr' : given_back (tr ++ tr') = given_back tr ++ given_back tr'.
Proof. apply flat_map_app. Qed.
Lemma pend_app tr tr' t : pend (tr ++ tr') t = fold_left (pend_step t) tr' (pend tr t).
Proof. apply fold_left_app. Qed.
Lemma just_app tr tr' t : just (tr ++ tr') t = fold_left (just_step t) tr' (just tr t).
Proof. apply fold_left_app. Qed.
Lemma fails_ok_from_app l : forall pre l',
  fails_ok_from pre (l ++ l') = fails_ok_from pre l && fails_ok_from (pre ++ l) l'.
Proof.
  induction l as [|e l IH]; intros pre l'; cbn [app fails_ok_from].
  - rewrite app_nil_r. reflexivity.
  - rewrite IH, <- app_assoc. cbn [app]. rewrite andb_assoc. reflexivity.
Qed.
Lemma fails_ok_app tr tr' : fails_ok (tr ++ tr') = fails_ok tr && fails_ok_from tr tr'.
Proof. unfold fails_ok. rewrite fails_ok_from_app. reflexivity. Qed.

(** the effect of irrelevant events: none *)
Lemma irrelevant_one t e :
  irrelevant e = true ->
  inv_items (t, e) = [] /\ back_items (t, e) = [] /\ (forall u b, pend_step u b (t, e) = b) /\
  (forall u b, just_step u b (t, e) = b) /\ is_fail (t, e) = false /\ (forall args, e <> EvCli "g_full" args).
Proof.
  intros He. destruct e as [k o ok| n args].
  - repeat split; try reflexivity; try discriminate.
    + intros u b. unfold pend_step. cbn. destruct (Nat.eqb t u); reflexivity.
    + intros u b. unfold just_step. cbn. destruct (Nat.eqb t u); reflexivity.
  - cbn in He.
    assert (N1 : String.eqb n "inv_push" = false) by (destruct (String.eqb n "inv_push") eqn:E; [apply String.eqb_eq in E; subst n; discriminate|reflexivity]).
    assert (N2 : String.eqb n "inv_pop" = false) by (destruct (String.eqb n "inv_pop") eqn:E; [apply String.eqb_eq in E; subst n; discriminate|reflexivity]).
    assert (N3 : String.eqb n "ret_push" = false) by (destruct (String.eqb n "ret_push") eqn:E; [apply String.eqb_eq in E; subst n; discriminate|reflexivity]).
    assert (N4 : String.eqb n "ret_pop" = false) by (destruct (String.eqb n "ret_pop") eqn:E; [apply String.eqb_eq in E; subst n; discriminate|reflexivity]).
    assert (N5 : String.eqb n "g_full" = false) by (destruct (String.eqb n "g_full") eqn:E; [apply String.eqb_eq in E; subst n; discriminate|reflexivity]).
    repeat split.
    + unfold inv_items. cbn [snd]. rewrite N1. destruct args as [|a [|b [|c r]]]; reflexivity.
    + unfold back_items. cbn [snd]. rewrite N3, N4. destruct args as [|a [|b [|c [|d r]]]]; reflexivity.
    + intros u b. unfold pend_step, is_inv, is_ret. cbn [fst snd]. rewrite N1, N2, N3, N4. destruct (Nat.eqb t u); reflexivity.
    + intros u b. unfold just_step, is_inv, is_ret. cbn [fst snd]. rewrite N1, N2, N3, N4, N5. destruct (Nat.eqb t u); reflexivity.
    + unfold is_fail. cbn [snd]. rewrite N3. destruct args; reflexivity.
    + intros args' E. inversion E; subst. discriminate.
Qed.

Lemma irrelevant_tag t es :
  forallb irrelevant es = true ->
  invoked (Conc.tag t es) = [] /\ given_back (Conc.tag t es) = [] /\
  (forall u b, fold_left (pend_step u) (Conc.tag t es) b = b) /\
  (forall u b, fold_left (just_step u) (Conc.tag t es) b = b) /\
  (forall pre, fails_ok_from pre (Conc.tag t es) = true) /\
  (forall u args, ~ In (u, EvCli "g_full" args) (Conc.tag t es)).
Proof.
  induction es as [|e es IH]; cbn [forallb]; intros H.
  - cbn. repeat split; auto.
  - apply andb_true_iff in H. destruct H as [He Hes]. destruct (IH Hes) as (I1 & I2 & I3 & I4 & I5 & I6).
    destruct (irrelevant_one t e He) as (E1 & E2 & E3 & E4 & E5 & E6).
    unfold Conc.tag in *. cbn [map]. repeat split.
    + unfold invoked in *. cbn [flat_map]. rewrite E1, I1. reflexivity.
    + unfold given_back in *. cbn [flat_map]. rewrite E2, I2. reflexivity.
    + intros u b. cbn [fold_left]. rewrite E3. apply I3.
    + intros u b. cbn [fold_left]. rewrite E4. apply I4.
    + intros pre. cbn [fails_ok_from]. rewrite E5, I5. reflexivity.
    + intros u args [Hin|Hin]; [inversion Hin; subst; eapply E6; eauto|eapply I6; eauto].
Qed.

(** ** the shared state seen through its observations *)
Definition cellv (g : G) (i : nat) : option item := nval (heap g i).
Definition cellt (g : G) (i : nat) : MsPq.tag := ntag (heap g i).
Definition count (g : G) : nat := Z.to_nat (bc (ctr g)).

Lemma cellv_set_cell g i tg v j : cellv (set_cell g i tg v) j = if Nat.eqb j i then v else cellv g j.
Proof. unfold cellv, set_cell, set_node. cbn. destruct (Nat.eqb j i); reflexivity. Qed.
Lemma cellt_set_cell g i tg v j : cellt (set_cell g i tg v) j = if Nat.eqb j i then tg else cellt g j.
Proof. unfold cellt, set_cell, set_node. cbn. destruct (Nat.eqb j i); reflexivity. Qed.
Lemma slock_set_cell g i tg v : slock (set_cell g i tg v) = slock g.
Proof. reflexivity. Qed.
Lemma ctr_set_cell g i tg v : ctr (set_cell g i tg v) = ctr g.
Proof. reflexivity. Qed.
Lemma cellv_set_lockbit g l b j : cellv (set_lockbit g l b) j = cellv g j.
Proof.
  unfold cellv, set_lockbit, set_node. destruct l; cbn; [reflexivity|].
  destruct (Nat.eqb_spec j (S l)); [subst; reflexivity|reflexivity].
Qed.
Lemma cellt_set_lockbit g l b j : cellt (set_lockbit g l b) j = cellt g j.
Proof.
  unfold cellt, set_lockbit, set_node. destruct l; cbn; [reflexivity|].
  destruct (Nat.eqb_spec j (S l)); [subst; reflexivity|reflexivity].
Qed.
Lemma ctr_set_lockbit g l b : ctr (set_lockbit g l b) = ctr g.
Proof. destruct l; reflexivity. Qed.
Lemma slock_set_lockbit_node g l b : l <> 0 -> slock (set_lockbit g l b) = slock g.
Proof. destruct l; [congruence|reflexivity]. Qed.
Lemma slock_set_lockbit_0 g b : slock (set_lockbit g 0 b) = b.
Proof. reflexivity. Qed.
Lemma cellv_set_ctr g s j : cellv (set_ctr g s) j = cellv g j.
Proof. reflexivity. Qed.
Lemma cellt_set_ctr g s j : cellt (set_ctr g s) j = cellt g j.
Proof. reflexivity. Qed.

Definition oc (x : item) (o : option item) : nat :=
  match o with Some y => if item_eq_dec y x then 1 else 0 | None => 0 end.
Definition olist (o : option item) : list item := match o with Some y => [y] | None => [] end.

(** the items stored in the heap cells 1..cap *)
Definition heap_items (cap : nat) (g : G) : list item := flat_map (fun i => olist (cellv g i)) (seq 1 cap).
Definition hcount (cap : nat) (g : G) (x : item) : nat := cnt (heap_items cap g) x.

Lemma cnt_olist o x : cnt (olist o) x = oc x o.
Proof. destruct o as [y|]; cbn; [destruct (item_eq_dec y x); reflexivity|reflexivity]. Qed.

Lemma cnt_flat_map_update (f f' : nat -> option item) (i : nat) (x : item) (l : list nat) :
  NoDup l -> (forall j, j <> i -> f' j = f j) ->
  cnt (flat_map (fun j => olist (f' j)) l) x + (if in_dec Nat.eq_dec i l then oc x (f i) else 0) =
  cnt (flat_map (fun j => olist (f j)) l) x + (if in_dec Nat.eq_dec i l then oc x (f' i) else 0).
Proof.
  intros Hnd Hf. induction l as [|k l IH]; [reflexivity|].
  inversion Hnd as [|? ? Hk Hnd']; subst. specialize (IH Hnd').
  cbn [flat_map]. rewrite !count_occ_app, !cnt_olist.
  destruct (in_dec Nat.eq_dec i (k :: l)) as [Hin|Hin].
  - destruct (Nat.eq_dec k i) as [->|Hne].
    + destruct (in_dec Nat.eq_dec i l) as [Hin'|_]; [contradiction|]. lia.
    + rewrite (Hf k Hne). destruct (in_dec Nat.eq_dec i l) as [_|Hn']; [lia|]. destruct Hin; [congruence|contradiction].
  - assert (k <> i) by (intros ->; apply Hin; left; reflexivity).
    rewrite (Hf k H). destruct (in_dec Nat.eq_dec i l) as [Hin'|_]; [exfalso; apply Hin; right; exact Hin'|]. lia.
Qed.

Lemma hcount_set_cell_in cap g i tg v x :
  1 <= i <= cap -> hcount cap (set_cell g i tg v) x + oc x (cellv g i) = hcount cap g x + oc x v.
Proof.
  intros Hi. unfold hcount, heap_items.
  pose proof (cnt_flat_map_update (cellv g) (cellv (set_cell g i tg v)) i x (seq 1 cap) (seq_NoDup _ _)) as H.
  destruct (in_dec Nat.eq_dec i (seq 1 cap)) as [_|Hn]; [|exfalso; apply Hn; apply in_seq; lia].
  rewrite H.
  - rewrite cellv_set_cell, Nat.eqb_refl. reflexivity.
  - intros j Hj. rewrite cellv_set_cell. destruct (Nat.eqb_spec j i); [congruence|reflexivity].
Qed.

Lemma hcount_set_cell_out cap g i tg v x :
  ~ (1 <= i <= cap) -> hcount cap (set_cell g i tg v) x = hcount cap g x.
Proof.
  intros Hi. unfold hcount, heap_items.
  pose proof (cnt_flat_map_update (cellv g) (cellv (set_cell g i tg v)) i x (seq 1 cap) (seq_NoDup _ _)) as H.
  destruct (in_dec Nat.eq_dec i (seq 1 cap)) as [Hin|_]; [apply in_seq in Hin; lia|].
  rewrite !Nat.add_0_r in H. apply H.
  intros j Hj. rewrite cellv_set_cell. destruct (Nat.eqb_spec j i); [congruence|reflexivity].
Qed.

Lemma hcount_ext cap g g' x : (forall i, cellv g' i = cellv g i) -> hcount cap g' x = hcount cap g x.
Proof.
  intros H. unfold hcount, heap_items. f_equal. apply flat_map_ext. intros i. rewrite H. reflexivity.
Qed.

(** ** auxiliary state *)
Record tv := mkTv { hs : bool;                 (* holds m_Lock *)
                    hand : option item;        (* the item this thread carries between heap and client *)
                    pstore : option nat;       (* the cell reserved by inc(), not yet filled (P1..P3) *)
                    pclear : option nat;       (* the bottom cell claimed by dec(), not yet emptied (Q1..Q4) *)
                    inop : bool;               (* an operation is in progress *)
                    pfail : bool }.            (* this push found the heap full *)
Record Aux := mkA { tvs : nat -> tv; held : list (nat * item) }.
Definition view (a : Aux) (t : nat) : tv := tvs a t.
Definition idle : tv := mkTv false None None None false false.

Definition updv (a : Aux) (t : nat) (v : tv) : Aux :=
  mkA (fun u => if Nat.eqb u t then v else tvs a u) (held a).
Definition set_held (a : Aux) (h : list (nat * item)) : Aux := mkA (tvs a) h.
Definition hdel (t : nat) (h : list (nat * item)) : list (nat * item) :=
  filter (fun e => negb (Nat.eqb (fst e) t)) h.

Lemma tvs_updv_same a t v : tvs (updv a t v) t = v.
Proof. unfold updv. cbn. rewrite Nat.eqb_refl. reflexivity. Qed.
Lemma tvs_updv_other a t v u : u <> t -> tvs (updv a t v) u = tvs a u.
Proof. unfold updv. cbn. intros H. destruct (Nat.eqb_spec u t); congruence. Qed.
Lemma frame_updv a t v h : Conc.frame view t a (set_held (updv a t v) h).
Proof. intros u Hu. unfold view. cbn. destruct (Nat.eqb_spec u t); congruence. Qed.
Lemma frame_refl a t : Conc.frame view t a a.
Proof. intros u Hu. reflexivity. Qed.

Lemma in_hdel t h u x : In (u, x) (hdel t h) <-> u <> t /\ In (u, x) h.
Proof.
  unfold hdel. rewrite filter_In. cbn [fst]. rewrite negb_true_iff, Nat.eqb_neq. tauto.
Qed.
Lemma NoDup_fst_hdel t h : NoDup (map fst h) -> NoDup (map fst (hdel t h)).
Proof.
  induction h as [|[u x] h IH]; cbn; [auto|]. intros Hnd. inversion Hnd as [|? ? Hn Hnd']; subst.
  destruct (Nat.eqb u t); cbn; auto. constructor; auto.
  intros Hin. apply Hn. apply in_map_iff in Hin. destruct Hin as ([u' x'] & E & Hin). cbn in E. subst u'.
  apply in_hdel in Hin. apply in_map_iff. exists (u, x'). split; [reflexivity|tauto].
Qed.
Lemma notin_fst_hdel t h : ~ In t (map fst (hdel t h)).
Proof.
  intros Hin. apply in_map_iff in Hin. destruct Hin as ([u x] & E & Hin). cbn in E. subst u.
  apply in_hdel in Hin. tauto.
Qed.
(** the only entry of thread [t] is (t, x) *)
Lemma cnt_hdel t x h y :
  NoDup (map fst h) -> In (t, x) h -> cnt (map snd (hdel t h)) y + oc y (Some x) = cnt (map snd h) y.
Proof.
  induction h as [|[u z] h IH]; cbn [In]; [tauto|]. intros Hnd Hin. cbn [map fst] in Hnd.
  inversion Hnd as [|? ? Hn Hnd']; subst. cbn [hdel filter fst]. destruct (Nat.eqb_spec u t) as [->|Hne]; cbn [negb].
  - destruct Hin as [E|Hin]; [|exfalso; apply Hn; apply in_map_iff; exists (t, x); split; [reflexivity|exact Hin]].
    inversion E; subst z. cbn [map snd count_occ oc].
    assert (Hd : hdel t h = h).
    { clear -Hn. unfold hdel. induction h as [|[u z] h IH]; cbn; [reflexivity|].
      destruct (Nat.eqb_spec u t) as [->|]; cbn.
      - exfalso. apply Hn. left. reflexivity.
      - rewrite IH; [reflexivity|]. intros H. apply Hn. right. exact H. }
    fold (hdel t h). rewrite Hd. destruct (item_eq_dec x y); lia.
  - destruct Hin as [E|Hin]; [inversion E; congruence|]. cbn [map snd count_occ]. fold (hdel t h).
    specialize (IH Hnd' Hin). destruct (item_eq_dec z y); lia.
Qed.
Lemma hdel_none t h : ~ In t (map fst h) -> hdel t h = h.
Proof.
  intros Hn. unfold hdel. induction h as [|[u z] h IH]; cbn; [reflexivity|].
  destruct (Nat.eqb_spec u t) as [->|]; cbn.
  - exfalso. apply Hn. left. reflexivity.
  - rewrite IH; [reflexivity|]. intros H. apply Hn. right. exact H.
Qed.

(** ** the invariant *)
Section Inv.
  Variable cap : nat.

  Definition S_ok (g : G) (a : Aux) : Prop :=
    (forall t, hs (tvs a t) = true -> slock g = true) /\
    (forall t t', hs (tvs a t) = true -> hs (tvs a t') = true -> t = t').
  Definition T_ok (g : G) : Prop := forall i, cellt g i = TEmpty <-> cellv g i = None.
  Definition Z_ok (g : G) : Prop := forall i, (i = 0 \/ cap < i) -> cellv g i = None.
  Definition C_ok (g : G) : Prop := ctr g = st (count g) /\ count g <= cap.
  Definition O_ok (g : G) (a : Aux) : Prop :=
    (forall j, 1 <= j <= cap ->
       (j <= count g -> cellv g (slot j) <> None \/ exists t, pstore (tvs a t) = Some (slot j)) /\
       (count g < j -> cellv g (slot j) = None \/ exists t, pclear (tvs a t) = Some (slot j))) /\
    (forall t i, pstore (tvs a t) = Some i ->
       hs (tvs a t) = true /\ cellv g i = None /\ i = slot (count g) /\ 1 <= count g) /\
    (forall t i, pclear (tvs a t) = Some i ->
       hs (tvs a t) = true /\ cellv g i <> None /\ i = slot (S (count g)) /\ S (count g) <= cap).
  Definition H_ok (a : Aux) : Prop :=
    NoDup (map fst (held a)) /\
    (forall t x, hand (tvs a t) = Some x <-> In (t, x) (held a)) /\
    (forall t, hand (tvs a t) <> None -> inop (tvs a t) = true).
  Definition M_ok (g : G) (a : Aux) (tr : list (nat * ev)) : Prop :=
    forall x, hcount cap g x + cnt (map snd (held a)) x + cnt (given_back tr) x = cnt (invoked tr) x.
  Definition P_ok (a : Aux) (tr : list (nat * ev)) : Prop := forall t, pend tr t = inop (tvs a t).
  Definition F_ok (a : Aux) (tr : list (nat * ev)) : Prop :=
    full_events_ok cap tr /\ (forall t, just tr t = pfail (tvs a t)) /\ fails_ok tr = true.

  Record Inv (g : G) (a : Aux) (tr : list (nat * ev)) : Prop := mkInv {
    iS : S_ok g a; iT : T_ok g; iZ : Z_ok g; iC : C_ok g; iO : O_ok g a; iH : H_ok a;
    iM : M_ok g a tr; iP : P_ok a tr; iF : F_ok a tr }.

  (** *** each facet only depends on a few observations *)
  Lemma S_ext g g' a a' :
    slock g' = slock g -> (forall u, hs (tvs a' u) = hs (tvs a u)) -> S_ok g a -> S_ok g' a'.
  Proof.
    intros Hs Hh [S1 S2]. split.
    - intros t Ht. rewrite Hs. apply (S1 t). rewrite <- Hh. exact Ht.
    - intros t t' Ht Ht'. apply S2; rewrite <- Hh; assumption.
  Qed.
  Lemma T_ext g g' :
    (forall i, cellt g' i = cellt g i) -> (forall i, cellv g' i = cellv g i) -> T_ok g -> T_ok g'.
  Proof. intros Ht Hv H i. rewrite Ht, Hv. apply H. Qed.
  Lemma Z_ext g g' : (forall i, cellv g' i = None <-> cellv g i = None) -> Z_ok g -> Z_ok g'.
  Proof. intros Hv H i Hi. apply Hv. apply H. exact Hi. Qed.
  Lemma C_ext g g' : ctr g' = ctr g -> C_ok g -> C_ok g'.
  Proof. intros Hc [C1 C2]. unfold C_ok, count. rewrite Hc. split; assumption. Qed.
  Lemma O_ext g g' a a' :
    ctr g' = ctr g -> (forall i, cellv g' i = None <-> cellv g i = None) ->
    (forall u, pstore (tvs a' u) = pstore (tvs a u)) -> (forall u, pclear (tvs a' u) = pclear (tvs a u)) ->
    (forall u, hs (tvs a u) = true -> hs (tvs a' u) = true) ->
    O_ok g a -> O_ok g' a'.
  Proof.
    intros Hc Hv Hps Hpc Hhs (O1 & O2 & O3).
    assert (Hcount : count g' = count g) by (unfold count; rewrite Hc; reflexivity).
    split; [|split].
    - intros j Hj. rewrite Hcount. destruct (O1 j Hj) as [K1 K2]. split; intros Hl.
      + destruct (K1 Hl) as [K|[u K]]; [left; rewrite Hv; exact K|right; exists u; rewrite Hps; exact K].
      + destruct (K2 Hl) as [K|[u K]]; [left; apply Hv; exact K|right; exists u; rewrite Hpc; exact K].
    - intros t i Hp. rewrite Hps in Hp. rewrite Hcount. destruct (O2 t i Hp) as (K1 & K2 & K3 & K4).
      repeat split; auto. apply Hv. exact K2.
    - intros t i Hp. rewrite Hpc in Hp. rewrite Hcount. destruct (O3 t i Hp) as (K1 & K2 & K3 & K4).
      repeat split; auto. rewrite Hv. exact K2.
  Qed.
  Lemma H_ext a a' :
    held a' = held a -> (forall u, hand (tvs a' u) = hand (tvs a u)) -> (forall u, inop (tvs a' u) = inop (tvs a u)) ->
    H_ok a -> H_ok a'.
  Proof.
    intros Hh Hd Hi (H1 & H2 & H3). unfold H_ok. rewrite Hh. split; [exact H1|split].
    - intros t x. rewrite Hd. apply H2.
    - intros t. rewrite Hd, Hi. apply H3.
  Qed.
  Lemma M_ext g g' a a' tr :
    (forall x, hcount cap g' x = hcount cap g x) -> held a' = held a -> M_ok g a tr -> M_ok g' a' tr.
  Proof. intros Hc Hh H x. rewrite Hc, Hh. apply H. Qed.
  Lemma P_ext a a' tr : (forall u, inop (tvs a' u) = inop (tvs a u)) -> P_ok a tr -> P_ok a' tr.
  Proof. intros Hi H t. rewrite Hi. apply H. Qed.
  Lemma F_ext a a' tr : (forall u, pfail (tvs a' u) = pfail (tvs a u)) -> F_ok a tr -> F_ok a' tr.
  Proof. intros Hi (F1 & F2 & F3). split; [exact F1|split; [|exact F3]]. intros t. rewrite Hi. apply F2. Qed.

  (** a field of the views that the new view of [t] leaves as it was *)
  Lemma updv_field {X} (f : tv -> X) a t v : f v = f (tvs a t) -> forall u, f (tvs (updv a t v) u) = f (tvs a u).
  Proof.
    intros H u. destruct (Nat.eq_dec u t) as [->|Hu]; [rewrite tvs_updv_same; exact H|rewrite tvs_updv_other by exact Hu; reflexivity].
  Qed.

  (** *** trace-only steps *)
  Lemma Inv_irrelevant g a tr t es :
    forallb irrelevant es = true -> Inv g a tr -> Inv g a (tr ++ Conc.tag t es).
  Proof.
    intros Hes [IS IT IZ IC IO IH IM IP IFF].
    destruct (irrelevant_tag t es Hes) as (E1 & E2 & E3 & E4 & E5 & E6).
    constructor; try assumption.
    - intros x. rewrite given_back_app, invoked_app, E1, E2, !app_nil_r. apply IM.
    - intros u. rewrite pend_app, E3. apply IP.
    - destruct IFF as (F1 & F2 & F3). split; [|split].
      + intros u args Hin. apply in_app_or in Hin. destruct Hin as [Hin|Hin]; [eapply F1; eauto|exfalso; eapply E6; eauto].
      + intros u. rewrite just_app, E4. apply F2.
      + rewrite fails_ok_app, E5, F3. reflexivity.
  Qed.

  (** *** steps that do not touch the auxiliary state: node locks, swaps, retags *)
  Lemma Inv_cells g g' a tr :
    slock g' = slock g -> ctr g' = ctr g ->
    (forall i, cellv g' i = None <-> cellv g i = None) ->
    T_ok g' -> (forall x, hcount cap g' x = hcount cap g x) ->
    Inv g a tr -> Inv g' a tr.
  Proof.
    intros Hs Hc Hn HT Hh [IS IT IZ IC IO IH IM IP IFF].
    constructor; try assumption.
    - eapply S_ext; eauto.
    - eapply Z_ext; eauto.
    - eapply C_ext; eauto.
    - eapply O_ext; eauto.
    - eapply M_ext; eauto.
  Qed.

  Lemma Inv_nodelock g a tr l b : l <> 0 -> Inv g a tr -> Inv (set_lockbit g l b) a tr.
  Proof.
    intros Hl Hi. eapply (Inv_cells g); [| | | | |exact Hi].
    - apply slock_set_lockbit_node. exact Hl.
    - apply ctr_set_lockbit.
    - intros i. rewrite cellv_set_lockbit. tauto.
    - eapply T_ext; [| |apply (iT _ _ _ Hi)]; intros i; [apply cellt_set_lockbit|apply cellv_set_lockbit].
    - intros x. apply hcount_ext. intros i. apply cellv_set_lockbit.
  Qed.

  Lemma Inv_retag g a tr i tg :
    tg <> TEmpty -> cellv g i <> None -> Inv g a tr -> Inv (set_cell g i tg (cellv g i)) a tr.
  Proof.
    intros Htg Hv Hi. eapply (Inv_cells g); [reflexivity|reflexivity| | | |exact Hi].
    - intros j. rewrite cellv_set_cell. destruct (Nat.eqb_spec j i); [subst; tauto|tauto].
    - pose proof (iT _ _ _ Hi) as IT. intros j. rewrite cellt_set_cell, cellv_set_cell.
      destruct (Nat.eqb_spec j i); [subst; split; intros; congruence|apply IT].
    - intros x. apply hcount_ext. intros j. rewrite cellv_set_cell. destruct (Nat.eqb_spec j i); [subst; reflexivity|reflexivity].
  Qed.

  Lemma Z_in_range g i : Z_ok g -> cellv g i <> None -> 1 <= i <= cap.
  Proof.
    intros HZ Hv. destruct (Nat.eq_dec i 0) as [->|]; [exfalso; apply Hv; apply HZ; left; reflexivity|].
    destruct (Nat.le_gt_cases i cap); [lia|]. exfalso. apply Hv. apply HZ. right. lia.
  Qed.

  Lemma Inv_swap g a tr i p :
    i <> p -> cellv g i <> None -> cellv g p <> None -> Inv g a tr ->
    Inv (set_cell (set_cell g i (cellt g p) (cellv g p)) p (cellt g i) (cellv g i)) a tr.
  Proof.
    intros Hne Hvi Hvp Hi. pose proof (iT _ _ _ Hi) as IT. pose proof (iZ _ _ _ Hi) as IZ.
    eapply (Inv_cells g); [reflexivity|reflexivity| | | |exact Hi].
    - intros j. rewrite !cellv_set_cell. destruct (Nat.eqb_spec j p); [subst; tauto|].
      destruct (Nat.eqb_spec j i); [subst; tauto|tauto].
    - intros j. rewrite !cellt_set_cell, !cellv_set_cell. destruct (Nat.eqb_spec j p); [apply IT|].
      destruct (Nat.eqb_spec j i); apply IT.
    - intros x. pose proof (Z_in_range g i IZ Hvi) as Ri. pose proof (Z_in_range g p IZ Hvp) as Rp.
      pose proof (hcount_set_cell_in cap (set_cell g i (cellt g p) (cellv g p)) p (cellt g i) (cellv g i) x Rp) as H2.
      pose proof (hcount_set_cell_in cap g i (cellt g p) (cellv g p) x Ri) as H1.
      rewrite cellv_set_cell in H2. destruct (Nat.eqb_spec p i); [congruence|]. lia.
  Qed.
End Inv.
