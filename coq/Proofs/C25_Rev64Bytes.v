(** * C25_Rev64Bytes — reversing 64 bits byte by byte (used by the mul/div reversal proofs of C25_Reversal). *)

Require Import ZArith Lia Bool List.
Require Import LV.Base.CInt LV.Proofs.C25_Bits.
Local Open Scope Z_scope.

Lemma rev64_bytes_md x :
  0 <= x < 2 ^ 64 ->
  Z.lor (Z.lor (Z.lor (Z.lor (Z.lor (Z.lor (Z.lor
     (rev 8 (Z.shiftr x 56 mod 2 ^ 8))
     (Z.shiftl (rev 8 (Z.shiftr x 48 mod 2 ^ 8)) 8 mod 2 ^ 64))
     (Z.shiftl (rev 8 (Z.shiftr x 40 mod 2 ^ 8)) 16 mod 2 ^ 64))
     (Z.shiftl (rev 8 (Z.shiftr x 32 mod 2 ^ 8)) 24 mod 2 ^ 64))
     (Z.shiftl (rev 8 (Z.shiftr x 24 mod 2 ^ 8)) 32 mod 2 ^ 64))
     (Z.shiftl (rev 8 (Z.shiftr x 16 mod 2 ^ 8)) 40 mod 2 ^ 64))
     (Z.shiftl (rev 8 (Z.shiftr x 8 mod 2 ^ 8)) 48 mod 2 ^ 64))
     (Z.shiftl (rev 8 (x mod 2 ^ 8)) 56 mod 2 ^ 64) = rev 64 x.
Proof.
  intros Hx. apply rev_unique; [lia| |].
  - pose proof (rev_range 8 (Z.shiftr x 56 mod 2 ^ 8) ltac:(lia)).
    assert (2 ^ 8 < 2 ^ 64) by reflexivity.
    repeat apply lor_range; try (apply mod_range; lia); lia.
  - enum_index 64%nat ltac:(bit_case).
Qed.
