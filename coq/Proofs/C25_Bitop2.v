(** * C25_Bitop2 — complement, isPow2 and the public wrappers of cds/algo/bitop.h (part (b)). *)

Require Import ZArith Lia Bool List.
Require Import LV.Base.CInt LV.Proofs.C25_Bits LV.Proofs.C25_Bitop LV.Proofs.C25_Rbo LV.Proofs.C25_Popcount.
Require Import LV.Gen.Gen_bitop.
Local Open Scope Z_scope.

Lemma obind_ret {A} (m : option A) : obind m (fun t => Some t) = m.
Proof. destruct m; reflexivity. Qed.

(** ** complement *)

Lemma land_pow2 p n : 0 <= n -> Z.land p (2 ^ n) = if Z.testbit p n then 2 ^ n else 0.
Proof.
  intros Hn. apply Z.bits_inj'. intros i Hi. rewrite Z.land_spec, Z.pow2_bits_eqb by lia.
  destruct (Z.eqb_spec n i) as [->|Hne].
  - rewrite andb_true_r. destruct (Z.testbit p i); [now rewrite Z.pow2_bits_true by lia|now rewrite Z.bits_0].
  - rewrite andb_false_r. destruct (Z.testbit p n); [rewrite Z.pow2_bits_false by lia; reflexivity|now rewrite Z.bits_0].
Qed.

Lemma land_pow2_ne0 p n : 0 <= n -> c_ne (Z.land p (2 ^ n)) 0 = Z.testbit p n.
Proof.
  intros Hn. unfold c_ne. rewrite land_pow2 by assumption. assert (0 < 2 ^ n) by (apply pow2_pos; lia).
  destruct (Z.testbit p n); [|reflexivity]. apply negb_true_iff, Z.eqb_neq. lia.
Qed.

(** Flipping bit n: bit i of [Z.lxor p (2^n)] is bit i of p, negated exactly when i = n. *)
Lemma lxor_pow2_bits p n i : 0 <= n -> 0 <= i -> Z.testbit (Z.lxor p (2 ^ n)) i = xorb (Z.testbit p i) (i =? n).
Proof. intros. rewrite Z.lxor_spec, Z.pow2_bits_eqb by lia. now rewrite Z.eqb_sym. Qed.

Lemma shl_int_one n : 0 <= n < 32 -> exists v, c_shl i32 1 n = Some v /\ cast u32 v = 2 ^ n.
Proof.
  intros Hn. change 32 with (Z.of_nat 32) in Hn.
  assert (H : forallb (fun n => match c_shl i32 1 n with Some v => cast u32 v =? 2 ^ n | None => false end)
                      (zrange 32) = true) by (vm_compute; reflexivity).
  pose proof (forallb_zrange _ _ H n Hn) as E. cbv beta in E.
  destruct (c_shl i32 1 n) as [v|]; [|discriminate]. exists v. split; [reflexivity|]. now apply Z.eqb_eq.
Qed.

Lemma complement32_spec p n : 0 <= p < 2 ^ 32 -> 0 <= n < 32 ->
  complement32 p n = Some (Z.testbit p n, Z.lxor p (2 ^ n)).
Proof.
  intros Hp Hn. unfold complement32. destruct (shl_int_one n Hn) as [v [E C]].
  rewrite E. cbn [obind]. rewrite C. unfold c_and, c_xor. now rewrite land_pow2_ne0 by lia.
Qed.

Lemma complement32_ub p n : ~ (0 <= n < 32) -> complement32 p n = None.
Proof. intros H. unfold complement32. rewrite c_shl_bad by exact H. reflexivity. Qed.

Lemma shl_u64_one n : 0 <= n < 64 -> c_shl u64 1 n = Some (2 ^ n).
Proof.
  intros Hn. rewrite c_shl_u_ok; [|reflexivity|apply shift_ok_spec; exact Hn].
  rewrite Z.shiftl_1_l. cbn [ibits u64]. rewrite Z.mod_small; [reflexivity|].
  split; [apply Z.pow_nonneg; lia|apply Z.pow_lt_mono_r; lia].
Qed.

Lemma complement64_spec p n : 0 <= p < 2 ^ 64 -> 0 <= n < 64 ->
  complement64 p n = Some (Z.testbit p n, Z.lxor p (2 ^ n)).
Proof.
  intros Hp Hn. unfold complement64. rewrite shl_u64_one by assumption. cbn [obind].
  unfold c_and, c_xor. now rewrite land_pow2_ne0 by lia.
Qed.

Lemma complement64_ub p n : ~ (0 <= n < 64) -> complement64 p n = None.
Proof. intros H. unfold complement64. rewrite c_shl_bad by exact H. reflexivity. Qed.

Lemma lxor_pow2_range p n w : 0 <= n < w -> 0 <= p < 2 ^ w -> 0 <= Z.lxor p (2 ^ n) < 2 ^ w.
Proof.
  intros Hn Hp. apply lxor_range; [lia|assumption|].
  split; [apply Z.pow_nonneg; lia|apply Z.pow_lt_mono_r; lia].
Qed.

(** ** isPow2 *)

Definition is_pow2_below (w x : Z) : Prop := exists k, 0 <= k < w /\ x = 2 ^ k.

Lemma pow2_test w x : 0 < w -> 0 <= x < 2 ^ w ->
  ((Z.land x ((x - 1) mod 2 ^ w) =? 0) && to_bool x = true) <-> is_pow2_below w x.
Proof.
  intros Hw Hx. unfold to_bool, is_pow2_below. split.
  - intros H. apply andb_true_iff in H as [H1 H2]. apply Z.eqb_eq in H1. apply negb_true_iff, Z.eqb_neq in H2.
    rewrite Z.mod_small in H1 by lia.
    set (k := Z.log2 x). assert (Hk : 2 ^ k <= x < 2 ^ (k + 1)).
    { unfold k. pose proof (Z.log2_spec x ltac:(lia)). rewrite <- Z.add_1_r in *. lia. }
    assert (0 <= k) by apply Z.log2_nonneg.
    exists k. split.
    + split; [assumption|]. apply (Z.pow_lt_mono_r_iff 2); lia.
    + destruct (Z.eq_dec x (2 ^ k)) as [|Hne]; [assumption|exfalso].
      assert (T1 : Z.testbit x k = true) by (unfold k; apply Z.bit_log2; lia).
      assert (T2 : Z.testbit (x - 1) k = true).
      { assert (E : Z.log2 (x - 1) = k) by (apply Z.log2_unique; lia). rewrite <- E. apply Z.bit_log2.
        assert (0 < 2 ^ k) by (apply pow2_pos; lia). lia. }
      assert (T : Z.testbit (Z.land x (x - 1)) k = true) by (rewrite Z.land_spec, T1, T2; reflexivity).
      rewrite H1, Z.bits_0 in T. discriminate.
  - intros [k [Hk ->]]. assert (0 < 2 ^ k) by (apply pow2_pos; lia).
    apply andb_true_iff. split; [|apply negb_true_iff, Z.eqb_neq; lia].
    apply Z.eqb_eq. rewrite Z.mod_small by lia.
    apply Z.bits_inj'. intros i Hi. rewrite Z.land_spec, Z.bits_0, Z.pow2_bits_eqb by lia.
    replace (2 ^ k - 1) with (Z.ones k) by (rewrite Z.ones_equiv; lia).
    destruct (Z.eqb_spec k i) as [<-|]; [|reflexivity].
    rewrite Z.ones_spec_high by lia. reflexivity.
Qed.

Lemma isPow2_32_spec x : 0 <= x < 2 ^ 32 -> exists b, isPow2_32 x = Some b /\ (b = true <-> is_pow2_below 32 x).
Proof.
  intros Hx. eexists. split; [reflexivity|]. unfold c_eq, c_and, usub. cbn [ibits u32].
  apply (pow2_test 32); [lia|assumption].
Qed.

Lemma isPow2_64_spec x : 0 <= x < 2 ^ 64 -> exists b, isPow2_64 x = Some b /\ (b = true <-> is_pow2_below 64 x).
Proof.
  intros Hx. eexists. split; [reflexivity|]. unfold c_eq, c_and, usub. cbn [ibits u64].
  apply (pow2_test 64); [lia|assumption].
Qed.

(** ** The public interface cds::bitop::X<T> and details::BitOps<sizeof T>::X are the platform functions *)

Lemma wrappers32 x :
  MSB_u32 x = msb32 x /\ LSB_u32 x = lsb32 x /\ MSBnz_u32 x = msb32nz x /\ LSBnz_u32 x = lsb32nz x /\
  SBC_u32 x = sbc32 x /\ ZBC_u32 x = zbc32 x /\ RBO_u32 x = rbo32 x /\
  BitOps4_MSB x = msb32 x /\ BitOps4_LSB x = lsb32 x /\ BitOps4_MSBnz x = msb32nz x /\ BitOps4_LSBnz x = lsb32nz x /\
  BitOps4_SBC x = sbc32 x /\ BitOps4_ZBC x = zbc32 x /\ BitOps4_RBO x = rbo32 x.
Proof.
  unfold MSB_u32, LSB_u32, MSBnz_u32, LSBnz_u32, SBC_u32, ZBC_u32, RBO_u32,
         BitOps4_MSB, BitOps4_LSB, BitOps4_MSBnz, BitOps4_LSBnz, BitOps4_SBC, BitOps4_ZBC, BitOps4_RBO.
  rewrite !obind_ret. repeat split; reflexivity.
Qed.

Lemma wrappers64 x :
  MSB_u64 x = msb64 x /\ LSB_u64 x = lsb64 x /\ MSBnz_u64 x = msb64nz x /\ LSBnz_u64 x = lsb64nz x /\
  SBC_u64 x = sbc64 x /\ ZBC_u64 x = zbc64 x /\ RBO_u64 x = rbo64 x /\
  BitOps8_MSB x = msb64 x /\ BitOps8_LSB x = lsb64 x /\ BitOps8_MSBnz x = msb64nz x /\ BitOps8_LSBnz x = lsb64nz x /\
  BitOps8_SBC x = sbc64 x /\ BitOps8_ZBC x = zbc64 x /\ BitOps8_RBO x = rbo64 x.
Proof.
  unfold MSB_u64, LSB_u64, MSBnz_u64, LSBnz_u64, SBC_u64, ZBC_u64, RBO_u64,
         BitOps8_MSB, BitOps8_LSB, BitOps8_MSBnz, BitOps8_LSBnz, BitOps8_SBC, BitOps8_ZBC, BitOps8_RBO.
  rewrite !obind_ret. repeat split; reflexivity.
Qed.

(** [complement<T>(T&, int nBit)]: the [int] bit number is converted to [unsigned]; a negative one is UB. *)
Lemma complement_u32_spec p n : 0 <= p < 2 ^ 32 -> 0 <= n < 32 ->
  complement_u32 p n = Some (Z.testbit p n, Z.lxor p (2 ^ n)) /\
  BitOps4_complement p n = Some (Z.testbit p n, Z.lxor p (2 ^ n)).
Proof.
  intros Hp Hn. unfold complement_u32, BitOps4_complement. rewrite cast_u32, Z.mod_small by lia.
  rewrite complement32_spec by assumption. split; reflexivity.
Qed.

Lemma complement_u64_spec p n : 0 <= p < 2 ^ 64 -> 0 <= n < 64 ->
  complement_u64 p n = Some (Z.testbit p n, Z.lxor p (2 ^ n)) /\
  BitOps8_complement p n = Some (Z.testbit p n, Z.lxor p (2 ^ n)).
Proof.
  intros Hp Hn. unfold complement_u64, BitOps8_complement. rewrite cast_u32, Z.mod_small by lia.
  rewrite complement64_spec by assumption. split; reflexivity.
Qed.

Lemma complement_u32_ub p n : - 2 ^ 31 <= n < 2 ^ 31 -> ~ (0 <= n < 32) -> complement_u32 p n = None.
Proof.
  intros R H. unfold complement_u32, BitOps4_complement. rewrite complement32_ub; [reflexivity|].
  rewrite cast_u32. intros C. destruct (Z_lt_le_dec n 0).
  - replace (n mod 2 ^ 32) with (n + 2 ^ 32) in C; [lia|].
    apply Z.mod_unique with (-1); lia.
  - rewrite Z.mod_small in C by lia. lia.
Qed.

Lemma complement_u64_ub p n : - 2 ^ 31 <= n < 2 ^ 31 -> ~ (0 <= n < 64) -> complement_u64 p n = None.
Proof.
  intros R H. unfold complement_u64, BitOps8_complement. rewrite complement64_ub; [reflexivity|].
  rewrite cast_u32. intros C. destruct (Z_lt_le_dec n 0).
  - replace (n mod 2 ^ 32) with (n + 2 ^ 32) in C; [lia|].
    apply Z.mod_unique with (-1); lia.
  - rewrite Z.mod_small in C by lia. lia.
Qed.
