(** * FreeList with empty() and clear( disp ): initial configuration and the theorems, for every schedule of
      put / get / empty threads and for clear() executed from a quiescent state. *)
From Coq Require Import ZArith List String Bool Lia PeanoNat.
From LV Require Import Base.Conc Base.Events Model.FreeList Model.FreeListClear Proofs.FreeListBase Proofs.FreeListInv
  Proofs.FreeListSteps Proofs.FreeListSafe Proofs.FreeListThm Proofs.FreeListClear.
Import ListNotations.
Local Open Scope Z_scope.
Local Open Scope string_scope.

Lemma helds_forget ths2 : helds (forget ths2) = map snd ths2.
Proof. unfold helds, forget. rewrite map_map. reflexivity. Qed.

Lemma forget_length ths2 : List.length (forget ths2) = List.length ths2.
Proof. unfold forget. apply map_length. Qed.

(** ** clear() executed alone *)
Lemma clear_loop_spec : forall l fuel g h, chain (next g) h l -> (List.length l < fuel)%nat ->
  exists es, solo_ev (clear_loop fuel h) g = (g, true, es) /\ disposed es = l.
Proof.
  induction l as [|n r IH]; intros fuel g h Hc Hf; (destruct fuel as [|f]; [cbn in Hf; lia|]); cbn [clear_loop].
  - cbn in Hc. subst h. cbn. eexists. split; reflexivity.
  - cbn in Hc. destruct Hc as (-> & Hnz & Hc).
    destruct (Nat.eqb_spec n 0) as [E|_]; [contradiction|].
    destruct (IH f g (next g n) Hc) as (es & E & Hd); [cbn in Hf; lia|].
    cbn [solo_ev a_ld_next vnode fst]. rewrite E. eexists. split; [reflexivity|].
    cbn. rewrite Nat2Z.id, Hd. reflexivity.
Qed.

Lemma clear_spec fuel g l : chain (next g) (head g) l -> (List.length l < fuel)%nat ->
  exists es, solo_ev (clear fuel) g = (set_head g 0, true, es) /\ disposed es = l.
Proof.
  intros Hc Hf. destruct (clear_loop_spec l fuel (set_head g 0) (head g) Hc Hf) as (es & E & Hd).
  unfold clear. cbn [solo_ev a_ld_head a_st_head vnode fst]. rewrite E. eexists. split; [reflexivity|].
  cbn. exact Hd.
Qed.

(** ** what the put/get invariant gives in a quiescent state *)
Lemma quiescent_inv N valid0 own0 g a tr :
  Inv N valid0 own0 N g a tr -> quiescent tr ->
  seq_ok g (lst a) /\ forall n, In n (lst a) <-> valid0 n = true /\ own a n = None.
Proof.
  intros [HS HT] Hq. pose proof HT as (T1 & T2 & T3).
  assert (Hidle : forall t, ph a t = Idle).
  { intros t. destruct (ph a t) eqn:E; try reflexivity; exfalso;
      apply (nonidle_open' N own0 a tr t HT); try congruence; apply Hq. }
  assert (Hcnt : forall n, cnt N a n = O).
  { intros n. apply count_all_false. intros t _. rewrite Hidle. reflexivity. }
  split.
  { split; [apply (S_chain HS)|split; [apply (S_lnd HS)|]]. intros n Hin. apply (S_lin HS) in Hin.
    rewrite (S_refs HS n), Hin, Hcnt. reflexivity. }
  intros n. split.
  - intros Hin. apply (S_lin HS) in Hin. split.
    + destruct (valid0 n) eqn:E; [reflexivity|]. apply (S_valid HS) in E. congruence.
    + destruct (own a n) as [t|] eqn:E; [|reflexivity]. apply T2 in E. destruct E as [_ E]. apply (S_held HS) in E. congruence.
  - intros [Hv Ho]. apply (S_lin HS). pose proof (S_st HS n) as Hst. unfold st_ok in Hst.
    destruct (st a n) as [|t|t| | |t|t] eqn:Es; try reflexivity; exfalso.
    + apply (S_valid HS) in Es. congruence.
    + rewrite Hidle in Hst. destruct Hst as [Hst|[Hst|Hst]]; try discriminate.
      assert (Hlt : (t < N)%nat).
      { destruct (Nat.lt_ge_cases t N) as [Hl|Hl]; [exact Hl|]. rewrite (proj2 (S_out HS t Hl)) in Hst. contradiction. }
      assert (E : own a n = Some t) by (apply T2; split; assumption). congruence.
    + rewrite Hidle in Hst. discriminate.
    + rewrite Hcnt in Hst. lia.
    + rewrite Hidle in Hst. destruct Hst as [_ [Hst|[h Hst]]]; discriminate.
    + rewrite Hidle in Hst. destruct Hst as [[h Hst]|Hst]; discriminate.
Qed.

Section Theorems2.
  Variable fuel k : nat.
  Variable ths2 : list (list op2 * list nat).
  Let ths := forget ths2.
  Hypothesis Hwf : wf_init k ths.
  Hypothesis HN : Z.of_nat (List.length ths2) + 1 < FLAG.
  Let N := List.length ths.
  Let valid := valid_init k ths.
  Let own0 := own_init ths.

  Lemma HN' : Z.of_nat N + 1 < FLAG.
  Proof. unfold N, ths. rewrite forget_length. exact HN. Qed.

  Lemma init_ok2 : Conc.cfg_ok view2 (Inv2 N valid own0) (init_cfg2 fuel k ths2).
  Proof.
    exists (aux_init k ths, fun _ => false). split.
    - split; [|split].
      + split; [apply (InvS_init k ths Hwf)|]. cbn [Conc.trace init_cfg2 fst]. split; [reflexivity|split].
        * intros n t. cbn [own hl aux_init]. unfold own0. rewrite (own_init_spec ths n t (proj1 Hwf)). split; [|tauto].
          intros Hin. split; [|exact Hin]. destruct (Nat.lt_ge_cases t N) as [Hl|Hl]; [exact Hl|].
          rewrite nth_overflow in Hin; [contradiction|]. unfold helds. rewrite map_length. exact Hl.
        * intros t. reflexivity.
      + intros trA t trB E. destruct trA; discriminate.
      + intros t E. discriminate.
    - intros t p Hp. cbn [init_cfg2 Conc.threads] in Hp. rewrite nth_error_map in Hp.
      destruct (nth_error ths2 t) as [[os H]|] eqn:E; [|discriminate]. injection Hp as <-.
      assert (Ht2 : (t < List.length ths2)%nat) by (apply nth_error_Some; congruence).
      assert (Ht : (t < N)%nat) by (unfold N, ths; rewrite forget_length; exact Ht2).
      assert (Hv : view2 (aux_init k ths, fun _ : nat => false) t = ((H, Idle), false)).
      { unfold view2, view. cbn [fst snd hl ph aux_init]. f_equal. f_equal. unfold ths. rewrite helds_forget.
        rewrite (nth_indep _ [] (snd (os, H))) by (rewrite map_length; exact Ht2).
        rewrite map_nth. rewrite (nth_error_nth ths2 t (os, H) E). reflexivity. }
      rewrite Hv. cbn [fst snd]. apply (safe2_thread N HN' valid (valid_zero k ths Hwf) own0). exact Ht.
  Qed.

  Lemma reach_Inv2 c : Conc.reach (init_cfg2 fuel k ths2) c ->
    exists aw, Inv2 N valid own0 (Conc.shared c) aw (Conc.trace c).
  Proof. intros Hr. exact (Conc.reach_Inv init_ok2 Hr). Qed.

  (** put / get / empty threads, every schedule: the ownership monitor never fires *)
  Theorem fl2_no_double_get c : Conc.reach (init_cfg2 fuel k ths2) c ->
    exists own, mon_run own0 (Conc.trace c) = Some own.
  Proof. intros Hr. destruct (reach_Inv2 c Hr) as ([a w] & (_ & T1 & _) & _). cbn [fst] in T1. eauto. Qed.

  (** empty() = true, every schedule: thread t's last event before "ret_empty 1" is its load of m_Head, and at
      the instant of that load the ownership monitor had not fired and every existing node that nobody held
      was inside an in-flight get / put of some thread *)
  Theorem fl2_empty_true c : Conc.reach (init_cfg2 fuel k ths2) c ->
    forall trA t trB, Conc.trace c = (trA ++ (t, ev_ret_empty1) :: trB)%list ->
    exists tr0 tr', trA = (tr0 ++ (t, ev_ld_head) :: tr')%list /\ (forall e, ~ In (t, e) tr') /\
      exists own, mon_run own0 (tr0 ++ [(t, ev_ld_head)]) = Some own /\
        forall n, valid n = true -> own n = None -> exists t', opens t' (tr0 ++ [(t, ev_ld_head)]) <> 0.
  Proof.
    intros Hr trA t trB E. destruct (reach_Inv2 c Hr) as (aw & _ & Hh & _). exact (Hh trA t trB E).
  Qed.

  (** ... in particular: if no get / put was in flight at that instant, no node was available (every existing
      node was held by a client) *)
  Corollary fl2_empty_true_quiet c : Conc.reach (init_cfg2 fuel k ths2) c ->
    forall trA t trB, Conc.trace c = (trA ++ (t, ev_ret_empty1) :: trB)%list ->
    exists tr0 tr', trA = (tr0 ++ (t, ev_ld_head) :: tr')%list /\ (forall e, ~ In (t, e) tr') /\
      exists own, mon_run own0 (tr0 ++ [(t, ev_ld_head)]) = Some own /\
        (quiescent (tr0 ++ [(t, ev_ld_head)]) -> forall n, valid n = true -> own n <> None).
  Proof.
    intros Hr trA t trB E. destruct (fl2_empty_true c Hr trA t trB E) as (tr0 & tr' & E1 & E2 & own & E3 & E4).
    exists tr0, tr'. split; [exact E1|split; [exact E2|]]. exists own. split; [exact E3|].
    intros Hq n Hv Ho. destruct (E4 n Hv Ho) as [t' Ht']. apply Ht'. apply Hq.
  Qed.

  (** at every reachable instant: m_Head = nullptr (what an empty() executed now would see) only if every
      available node is inside an in-flight get / put *)
  Theorem fl2_head_null c : Conc.reach (init_cfg2 fuel k ths2) c -> head (Conc.shared c) = O ->
    exists own, mon_run own0 (Conc.trace c) = Some own /\
      forall n, valid n = true -> own n = None -> exists t', opens t' (Conc.trace c) <> 0.
  Proof.
    intros Hr Hh. destruct (reach_Inv2 c Hr) as ([a w] & Hi & _). cbn [fst] in Hi.
    exact (good_of_inv N valid own0 _ a _ Hi Hh).
  Qed.

  (** no loss, with empty() among the operations *)
  Theorem fl2_no_loss c : Conc.reach (init_cfg2 fuel k ths2) c -> quiescent (Conc.trace c) ->
    exists own l,
      mon_run own0 (Conc.trace c) = Some own /\
      seq_ok (Conc.shared c) l /\
      (forall n, In n l <-> valid n = true /\ own n = None) /\
      (head (Conc.shared c) = O <-> l = []) /\
      (forall f cn, (List.length l < cn)%nat -> drain (S f) cn (Conc.shared c) = l).
  Proof.
    intros Hr Hq. destruct (reach_Inv2 c Hr) as ([a w] & Hi & _). cbn [fst] in Hi.
    destruct (quiescent_inv N valid own0 _ a _ Hi Hq) as [Hs Hl]. destruct Hi as [HS (T1 & _)].
    exists (own a), (lst a). split; [exact T1|split; [exact Hs|split; [exact Hl|split]]].
    - destruct Hs as (Hc & _). destruct (lst a) as [|m r]; cbn in Hc.
      + tauto.
      + destruct Hc as (E & Hm & _). split; [congruence|discriminate].
    - intros f cn Hlen. apply drain_spec; assumption.
  Qed.

  (** clear( disp ) from a quiescent reachable state: it terminates, the disposer receives exactly the available
      nodes (the existing nodes that nobody holds), each exactly once, nothing but m_Head is written, and the
      list is empty afterwards.  With [fl2_no_double_get]: every existing node is, at that point, either held
      by exactly one client ([own n = Some t]) or has been disposed exactly once, never both. *)
  Theorem fl2_clear c : Conc.reach (init_cfg2 fuel k ths2) c -> quiescent (Conc.trace c) ->
    exists own l,
      mon_run own0 (Conc.trace c) = Some own /\ NoDup l /\
      (forall n, In n l <-> valid n = true /\ own n = None) /\
      forall cf, (List.length l < cf)%nat ->
        exists es, solo_ev (clear cf) (Conc.shared c) = (set_head (Conc.shared c) 0, true, es) /\
                   disposed es = l /\
                   seq_ok (set_head (Conc.shared c) 0) [] /\
                   forall f cn, drain (S f) (S cn) (set_head (Conc.shared c) 0) = [].
  Proof.
    intros Hr Hq. destruct (fl2_no_loss c Hr Hq) as (own & l & E1 & Hs & Hl & _ & _).
    exists own, l. split; [exact E1|]. destruct Hs as (Hc & Hnd & _). split; [exact Hnd|split; [exact Hl|]].
    intros cf Hcf. destruct (clear_spec cf _ l Hc Hcf) as (es & E & Hd).
    exists es. split; [exact E|split; [exact Hd|]].
    assert (Hs0 : seq_ok (set_head (Conc.shared c) 0) []).
    { split; [reflexivity|split; [constructor|intros n []]]. }
    split; [exact Hs0|]. intros f cn. apply drain_spec; [exact Hs0|cbn; lia].
  Qed.
End Theorems2.

(** ** the strong reading of empty() is FALSE: a put() has returned, the node is available (nobody holds it)
       during the whole empty() call that follows in the same thread, yet empty() returns true (and the
       get() after it returns nullptr): thread 1 stalls between its refs CAS and its head CAS on node 1;
       thread 0 takes node 1, puts it back (the put only sets the should-be-on-freelist bit, the re-add is
       left to thread 1), calls empty(). *)
Definition wit_ths : list (list op2 * list nat) := [([O2Get; O2Put 0; O2Empty; O2Get], []); ([O2Get], [])].
Definition wit_sched : list nat := ([1;1;1;1]%nat ++ repeat 0%nat 10 ++ repeat 1%nat 10)%list.

(** node n is available after the trace prefix [tr]: it exists and the ownership monitor says nobody holds it *)
Definition avail_b (k : nat) (ths : list (list op2 * list nat)) (tr : list (nat * ev)) (n : nat) : bool :=
  (valid_init k (forget ths) n &&
   match mon_run (own_init (forget ths)) tr with Some own => match own n with None => true | Some _ => false end | None => false end)%bool.

Lemma empty_strong_refuted :
  exists (k : nat) (ths : list (list op2 * list nat)) (sched : list nat),
    wf_init k (forget ths) /\ Z.of_nat (List.length ths) + 1 < FLAG /\
    let r := Conc.run 1000 0 sched (init_cfg2 50 k ths) in
    let tr := Conc.trace (fst r) in
    snd r = true /\
    exists i j, (i < j)%nat /\
      nth_error tr i = Some (0%nat, EvCli "ret_put" []) /\
      nth_error tr (S i) = Some (0%nat, EvCli "inv_empty" []) /\
      nth_error tr j = Some (0%nat, ev_ret_empty1) /\
      nth_error tr (j + 3) = Some (0%nat, EvCli "ret_get" [-1]) /\
      forall m, (i <= m <= j + 3)%nat -> avail_b k ths (firstn (S m) tr) 1 = true.
Proof.
  exists 1%nat, wit_ths, wit_sched. split; [|split; [reflexivity|]].
  - split; [cbn; constructor|cbn; intros n []].
  - cbv zeta. split; [vm_compute; reflexivity|]. exists 16%nat, 19%nat.
    split; [lia|]. split; [vm_compute; reflexivity|]. split; [vm_compute; reflexivity|].
    split; [vm_compute; reflexivity|]. split; [vm_compute; reflexivity|].
    intros m Hm.
    assert (Hall : forallb (fun m => avail_b 1 wit_ths
                      (firstn (S m) (Conc.trace (fst (Conc.run 1000 0 wit_sched (init_cfg2 50 1 wit_ths))))) 1)
                    (seq 16 7) = true) by (vm_compute; reflexivity).
    rewrite forallb_forall in Hall. apply Hall. apply in_seq. lia.
Qed.
