(** * EllenFull (fork of EllenDelSteps.v for the invariant of EllenFullInv.v): the atomic steps preserve [DInv].
    New: [D_factsL] (loads that add facts with the annotated trace in reach), [D_ld_child_s] records the hindsight
    witness [FSn], [D_ld_upd_seen] turns it into [FSeen] when the re-read update word is not Mark. *)
(** * EllenBinTree<HP> with erase: the atomic steps of the model preserve the invariant [DInv] *)
From Coq Require Import ZArith List String Bool Lia PeanoNat.
From LV Require Import Base.Conc Base.Events Base.Lin Spec.Specs Proofs.LinProofs.
From LV Require Import Model.Ellen Proofs.EllenProofs Proofs.EllenDelBase Proofs.EllenFullInv.
Import ListNotations.
Local Open Scope Z_scope.

Definition feq (g g' : G) : Prop :=
  flags g' = flags g /\ ikey g' = ikey g /\ lft g' = lft g /\ rgt g' = rgt g /\ upd g' = upd g /\ emp g' = emp g.
Definition quiet (f : G -> G * V * list ev) : Prop := forall g, feq g (fst (fst (f g))).

Lemma lv_ok_feq g g' a t lv : feq g g' -> lv_ok g a t lv -> lv_ok g' a t lv.
Proof.
  intros (E1 & E2 & E3 & E4 & E5 & E6). destruct g, g'. cbn in E1, E2, E3, E4, E5, E6. subst. intros H. exact H.
Qed.

Lemma stepR_feq t g g' a lv' atr' : feq g g' -> atr_ext (datr a) atr' -> stepR t g a g' (mk_a a t (dpub a) (dever a) (ddead a) (dmax a) lv' atr').
Proof.
  intros (E1 & E2 & E3 & E4 & E5 & E6) Hx. constructor; cbn [dpub dever ddead dmax datr mk_a]; auto.
  - intros x _. now rewrite E1, E2.
  - intros x d _ _ _. unfold child. now rewrite E3, E4.
  - intros x d _. left. unfold child. now rewrite E3, E4.
  - intros x. left. now rewrite E5.
  - intros x _. rewrite E6. lia.
Qed.

Section Steps.
Variable keys : list nat.
Notation DSAFE := (DSAFE keys).

Definition addf (fs : list fact) (lv : dview) : dview := mkDV (fs ++ wf lv) (wc lv).

Lemma lv_ok_addf g a t lv fs : lv_ok g a t lv -> Forall (fact_ok g a) fs -> lv_ok g a t (addf fs lv).
Proof. intros (H1 & H2) Hf. split; [cbn [wf addf]; apply Forall_app; auto|exact H2]. Qed.

Lemma D_quiet {R} t f (k : V -> prog R) lv :
  quiet f -> one_acc f ->
  (forall g a, DS g a -> view a t = lv -> exists lv', lv_ok g a t lv' /\ stx (wc lv') = stx (wc lv) /\ DSAFE t (k (snd (fst (f g)))) lv') ->
  DSAFE t (Act f k) lv.
Proof.
  intros Hq Hone H. apply D_act_keep; [exact Hone|]. intros g a Hs Hv. destruct (H g a Hs Hv) as (lv' & Hf & Hst & Hk).
  exists (dmax a), lv'. pose proof (Hq g) as Q. pose proof Q as (E1 & E2 & E3 & E4 & E5 & E6). cbv zeta.
  split; [apply stepR_feq; [exact Q|apply atr_ext_refl]|]. split; [intros x _; now rewrite E3, E4|]. split; [rewrite E1; apply (d_null _ _ Hs)|].
  split; [intros x Hx; rewrite E5; apply (d_unpub _ _ Hs x Hx)|]. split; [intros x; rewrite E5, E6; apply (d_ver _ _ Hs)|].
  split; [|split; [exact Hst|exact Hk]].
  apply (lv_ok_feq g); [exact Q|]. exact Hf.
Qed.

Lemma D_nx {R} t f (k : V -> prog R) lv : quiet f -> one_acc f -> (forall v, DSAFE t (k v) lv) -> DSAFE t (Act f k) lv.
Proof.
  intros Hq Hone H. apply D_quiet; auto. intros g a Hs Hv. exists lv. split; [rewrite <- Hv; apply (d_views _ _ Hs)|]. split; [reflexivity|apply H].
Qed.

(** loads that add persistent facts to the view *)
Lemma D_facts {R} t f (k : V -> prog R) lv :
  quiet f -> one_acc f ->
  (forall g a, DS g a -> view a t = lv -> exists fs, Forall (fact_ok g a) fs /\ DSAFE t (k (snd (fst (f g)))) (addf fs lv)) ->
  DSAFE t (Act f k) lv.
Proof.
  intros Hq Hone H. apply D_quiet; auto. intros g a Hs Hv. destruct (H g a Hs Hv) as (fs & Hf & Hk). exists (addf fs lv).
  split; [apply lv_ok_addf; [rewrite <- Hv; apply (d_views _ _ Hs)|exact Hf]|]. split; [reflexivity|exact Hk].
Qed.

(** the same with the annotated trace in reach (hindsight witnesses) *)
Lemma D_factsL {R} t f (k : V -> prog R) lv :
  quiet f -> one_acc f ->
  (forall g a tr, DS g a -> IL keys g a tr -> view a t = lv -> exists fs, Forall (fact_ok g a) fs /\ DSAFE t (k (snd (fst (f g)))) (addf fs lv)) ->
  DSAFE t (Act f k) lv.
Proof.
  intros Hq Hone H. apply D_act_keepL; [exact Hone|]. intros g a tr Hs Hil Hv. destruct (H g a tr Hs Hil Hv) as (fs & Hf & Hk).
  exists (dmax a), (addf fs lv). pose proof (Hq g) as Q. pose proof Q as (E1 & E2 & E3 & E4 & E5 & E6). cbv zeta.
  split; [apply stepR_feq; [exact Q|apply atr_ext_refl]|]. split; [intros x _; now rewrite E3, E4|]. split; [rewrite E1; apply (d_null _ _ Hs)|].
  split; [intros x Hx; rewrite E5; apply (d_unpub _ _ Hs x Hx)|]. split; [intros x; rewrite E5, E6; apply (d_ver _ _ Hs)|].
  split; [|split; [reflexivity|exact Hk]].
  apply (lv_ok_feq g); [exact Q|]. apply lv_ok_addf; [rewrite <- Hv; apply (d_views _ _ Hs)|exact Hf].
Qed.

Ltac qt := let g0 := fresh "g" in intros g0; try (unfold a_cas_upd; destruct (u_eqb _ _)); try (unfold a_cas_child; destruct (Nat.eqb _ _));
  cbn; unfold feq; cbn; repeat split.
Ltac oa := let g0 := fresh "g" in intros g0; try (unfold a_cas_upd; destruct (u_eqb _ _)); try (unfold a_cas_child; destruct (Nat.eqb _ _));
  cbn; eauto.

Lemma q_begin : quiet a_begin. Proof. qt. Qed.
Lemma q_ld_flags p : quiet (a_ld_flags p). Proof. qt. Qed.
Lemma q_ld_child p d : quiet (a_ld_child p d). Proof. qt. Qed.
Lemma q_ld_upd p : quiet (a_ld_upd p). Proof. qt. Qed.
Lemma q_faa_cnt : quiet a_faa_cnt. Proof. qt. Qed.
Lemma q_fas_cnt : quiet a_fas_cnt. Proof. qt. Qed.
Lemma q_guard_st t s : quiet (a_guard_st t s). Proof. qt. Qed.
Lemma q_guard_ld t s : quiet (a_guard_ld t s). Proof. qt. Qed.
Lemma q_sync t : quiet (a_sync t). Proof. qt. Qed.
Lemma q_ret_ld t : quiet (a_ret_ld t). Proof. qt. Qed.
Lemma q_ret_st t : quiet (a_ret_st t). Proof. qt. Qed.
Lemma o_begin : one_acc a_begin. Proof. oa. Qed.
Lemma o_ld_flags p : one_acc (a_ld_flags p). Proof. oa. Qed.
Lemma o_st_flags p f : one_acc (a_st_flags p f). Proof. oa. Qed.
Lemma o_st_emp p n : one_acc (a_st_emp p n). Proof. oa. Qed.
Lemma o_faa_emp p : one_acc (a_faa_emp p). Proof. oa. Qed.
Lemma o_ld_child p d : one_acc (a_ld_child p d). Proof. oa. Qed.
Lemma o_st_left_key p k x : one_acc (a_st_left_key p k x). Proof. oa. Qed.
Lemma o_st_right p x : one_acc (a_st_right p x). Proof. oa. Qed.
Lemma o_cas_child p d e x : one_acc (a_cas_child p d e x). Proof. oa. Qed.
Lemma o_ld_upd p : one_acc (a_ld_upd p). Proof. oa. Qed.
Lemma o_cas_upd p e x : one_acc (a_cas_upd p e x). Proof. oa. Qed.
Lemma o_faa_cnt : one_acc a_faa_cnt. Proof. oa. Qed.
Lemma o_fas_cnt : one_acc a_fas_cnt. Proof. oa. Qed.
Lemma o_guard_st t s : one_acc (a_guard_st t s). Proof. oa. Qed.
Lemma o_guard_ld t s : one_acc (a_guard_ld t s). Proof. oa. Qed.
Lemma o_sync t : one_acc (a_sync t). Proof. oa. Qed.
Lemma o_ret_ld t : one_acc (a_ret_ld t). Proof. oa. Qed.
Lemma o_ret_st t : one_acc (a_ret_st t). Proof. oa. Qed.

(** ** what a view knows *)
Definition pubk (lv : dview) (n : ptr) : Prop := n = root \/ exists k, In (FEv k n) (wf lv).
Definition kpath (lv : dview) (k : Z) (n : ptr) : Prop := n = root \/ In (FEv k n) (wf lv).
Lemma kpath_pubk lv k n : kpath lv k n -> pubk lv n.
Proof. intros [->|H]; [now left|right; eauto]. Qed.

Lemma facts_of g a t lv f : DS g a -> view a t = lv -> In f (wf lv) -> fact_ok g a f.
Proof. intros Hs Hv Hin. destruct (d_views _ _ Hs t) as (H1 & _). rewrite Hv in H1. rewrite Forall_forall in H1. now apply H1. Qed.

Lemma pubk_pub g a t lv n : DS g a -> view a t = lv -> pubk lv n -> dpub a n = true.
Proof.
  intros Hs Hv [->|(k & Hk)]; [apply (d_rootpub _ _ Hs)|]. apply (d_evpub _ _ Hs k). exact (facts_of g a t lv _ Hs Hv Hk).
Qed.
Lemma kpath_ev g a t lv k n : DS g a -> view a t = lv -> kpath lv k n -> dever a k n.
Proof. intros Hs Hv [->|Hk]; [apply (d_evroot _ _ Hs)|]. exact (facts_of g a t lv _ Hs Hv Hk). Qed.

Lemma D_ld_flags {R} t n (k : V -> prog R) lv :
  pubk lv n ->
  (forall f key, (n = null -> f = 0) -> (n = root -> f = 5) -> (forall f' key', In (FFl n f' key') (wf lv) -> f' = f /\ key' = key) ->
     DSAFE t (k (VFl f key)) (addf [FFl n f key] lv)) ->
  DSAFE t (Act (a_ld_flags n) k) lv.
Proof.
  intros Hk H. apply D_facts; [apply q_ld_flags|apply o_ld_flags|]. intros g a Hs Hv. exists [FFl n (flags g n) (ikey g n)].
  split; [constructor; [|constructor]; cbn; split; [eapply pubk_pub; eauto|auto]|].
  cbn [a_ld_flags fst snd]. apply H; [intros ->; apply (d_null _ _ Hs)|intros ->; apply (d_root _ _ Hs)|].
  intros f' key' Hin. destruct (facts_of g a t lv _ Hs Hv Hin) as (_ & E1 & E2). auto.
Qed.

Lemma D_ld_upd {R} t x (k : V -> prog R) lv :
  pubk lv x -> (forall w, DSAFE t (k (VW w)) (addf [FAv x w] lv)) -> DSAFE t (Act (a_ld_upd x) k) lv.
Proof.
  intros Hk H. apply D_facts; [apply q_ld_upd|apply o_ld_upd|]. intros g a Hs Hv. exists [FAv x (upd g x)].
  split; [|apply H]. constructor; [|constructor]. cbn. split; [eapply pubk_pub; eauto|].
  intros E. destruct (d_ver _ _ Hs x) as [V1 _]. apply V1. destruct (upd g x) as [c b]. cbn in *. now subst.
Qed.

Lemma lkey_lt p : lkey p < 8.
Proof. unfold lkey. pose proof (Nat.mod_upper_bound (p - 4) 8). lia. Qed.

Lemma root_child_inf g a d : DS g a -> ~ internal g (child g root d) -> inf_of (flags g (child g root d)) <> 0.
Proof.
  intros Hs Hl Hinf. assert (Hir : internal g root) by (unfold internal; rewrite (d_root _ _ Hs); reflexivity).
  assert (Hkr : node_key g root = 1001) by (unfold node_key; rewrite (d_root _ _ Hs); reflexivity).
  pose proof (node_key_fin _ _ Hinf) as E. unfold internal in Hl. destruct (is_internal_f (flags g (child g root d))); [now apply Hl|].
  pose proof (lkey_lt (child g root d)).
  destruct (T_inv_int _ _ _ _ (d_T _ _ Hs) Hir) as (_ & L & R0). destruct d; cbn [child] in *.
  - pose proof (T_key _ _ _ _ R0). lia.
  - pose proof (d_L _ _ Hs). lia.
Qed.

(** the child load of the descent of search.  Hindsight ([FSn]): unless [pp] is marked at this instant it is on the search
    path of [k0] NOW; if the child is a leaf it is THE leaf that decides the membership of [k0] at this instant *)
Lemma D_ld_child_s {R} t k0 pp fp kp up (k : V -> prog R) lv :
  kpath lv k0 pp -> In (FFl pp fp kp) (wf lv) -> is_internal_f fp = true -> In (FAv pp up) (wf lv) ->
  (forall c, c <> root ->
     DSAFE t (k (VP c)) (addf ([FEv k0 c; FCl pp up (0 <=? cmp_node k0 fp kp) c; FSn t (fst (cx (wc lv))) k0 pp c] ++ (if Nat.eqb pp root then [FRc c] else [])) lv)) ->
  DSAFE t (Act (a_ld_child pp (0 <=? cmp_node k0 fp kp)) k) lv.
Proof.
  intros Hpa Hfl Hint Hav H. apply D_factsL; [apply q_ld_child|apply o_ld_child|]. intros g a tr Hs Hil Hv. cbn [a_ld_child fst snd].
  destruct (facts_of g a t lv _ Hs Hv Hfl) as (P1 & F2 & F3). destruct (facts_of g a t lv _ Hs Hv Hav) as (_ & A2).
  pose proof (kpath_ev g a t lv k0 pp Hs Hv Hpa) as Ev.
  assert (Hi : internal g pp) by (unfold internal; now rewrite F2).
  assert (Hd : dirk g k0 pp = (0 <=? cmp_node k0 fp kp)) by (unfold dirk; now rewrite F2, F3).
  set (rl := 0 <=? cmp_node k0 fp kp) in *. set (c := child g pp rl).
  assert (Pc : dpub a c = true) by (apply (d_closed _ _ Hs); assumption).
  eexists. split; [|apply H; apply (d_noroot _ _ Hs); assumption].
  apply Forall_app. split.
  - constructor; [|constructor; [|constructor; [|constructor]]]; cbn [fact_ok].
    + unfold c. rewrite <- Hd. now apply (d_evchild _ _ Hs).
    + split; [exact P1|]. intros E. split; [now apply A2|]. intros _. reflexivity.
    + split; [exact Pc|]. destruct (Nat.eq_dec (snd (upd g pp)) 3) as [M|M]; [now left|right].
      destruct (is_internal_f (flags g c)) eqn:Ic; [left; exact Ic|right].
      assert (Nd : ~ ddead a pp) by (intros D; destruct (d_dead _ _ Hs pp D) as (_ & X & _); contradiction).
      pose proof (d_evpath _ _ Hs k0 pp Ev Hi Nd) as Pp.
      assert (Pcp : path g k0 root c) by (unfold c; rewrite <- Hd; now constructor).
      assert (Lc : ~ internal g c) by (unfold internal; rewrite Ic; discriminate).
      destruct (l_run _ _ _ _ Hil) as (S & st & H1 & _ & H3).
      exists (datr a), [], S, st. split; [now rewrite app_nil_r|]. split; [exact H1|]. split; [rewrite (l_cnt _ _ _ _ Hil t), Hv; reflexivity|].
      rewrite (H3 k0). apply path_leaf_mem; [apply (d_T _ _ Hs)|exact Pcp|exact Lc].
  - destruct (Nat.eqb_spec pp root) as [E|E]; [|constructor]. constructor; [|constructor]. cbn [fact_ok]. split; [exact Pc|].
    unfold c. rewrite E. now apply (root_child_inf g a).
Qed.

(** the re-read of the update word of [pp] after the child loads: if it is not Mark, [pp] was not marked at the child load *)
Lemma D_ld_upd_seen {R} t n k0 pp c (k : V -> prog R) lv :
  In (FSn t n k0 pp c) (wf lv) ->
  (forall w, DSAFE t (k (VW w)) (addf (if Nat.eqb (snd w) 3 then [] else [FSeen t n k0 c]) lv)) ->
  DSAFE t (Act (a_ld_upd pp) k) lv.
Proof.
  intros Hin H. apply D_facts; [apply q_ld_upd|apply o_ld_upd|]. intros g a Hs Hv. cbn [a_ld_upd fst snd].
  eexists. split; [|apply H]. destruct (Nat.eqb_spec (snd (upd g pp)) 3) as [E|E]; [constructor|]. constructor; [|constructor].
  destruct (facts_of g a t lv _ Hs Hv Hin) as (Pc & [M|X]); [contradiction|]. cbn [fact_ok]. split; [exact Pc|exact X].
Qed.

(** a child load of a marked node: the value is frozen *)
Lemma D_ld_child_fz {R} t p d d0 c0 (k : V -> prog R) lv :
  In (FFz p d0 c0) (wf lv) -> (forall c, DSAFE t (k (VP c)) (addf [FFz p d c] lv)) -> DSAFE t (Act (a_ld_child p d) k) lv.
Proof.
  intros Hin H. apply D_facts; [apply q_ld_child|apply o_ld_child|]. intros g a Hs Hv. cbn [a_ld_child fst snd].
  destruct (facts_of g a t lv _ Hs Hv Hin) as (P1 & M & _). exists [FFz p d (child g p d)]. split; [|apply H].
  constructor; [|constructor]. cbn. auto.
Qed.

(** ** the parts of [lv_ok] *)
Definition P_leaf (g : G) (a : daux) (t : nat) (c : core) : Prop :=
  match cleaf c with Some l => own_ok (dpub a) t l /\ flags g l = 0 | None => True end.
Definition P_ni (g : G) (a : daux) (t : nat) (c : core) : Prop :=
  match cni c with
  | Some (n, f, key, l, r) => (own_ok (dpub a) t n /\ cleaf c <> Some n) /\ flags g n = f /\ ikey g n = key /\ lft g n = l /\ rgt g n = r
  | None => True
  end.
Definition P_holds (g : G) (a : daux) (t : nat) (c : core) : Prop :=
  Forall (hold_ok g a t) (chs c) /\ NoDup (map hop (chs c)) /\ Forall (fun h => (ser_of (hop h) < cser c)%nat) (chs c).
Definition P_fresh1 (a : daux) (t : nat) (c : core) : Prop :=
  forall n, (4 <= n)%nat -> owner_of n = t -> (cser c <= ser_of n)%nat ->
     dpub a n = false /\ cleaf c <> Some n /\ (forall f key l r, cni c <> Some (n, f, key, l, r)).
Definition P_fresh2 (g : G) (t : nat) (c : core) : Prop :=
  forall n, (4 <= n)%nat -> owner_of n = t -> (cser c <= ser_of n)%nat -> forall x, snd (upd g x) <> 0%nat -> fst (upd g x) <> n.

Lemma lv_ok_parts g a t lv :
  lv_ok g a t lv <-> Forall (fact_ok g a) (wf lv) /\ P_leaf g a t (wc lv) /\ P_ni g a t (wc lv) /\ P_holds g a t (wc lv) /\ P_fresh1 a t (wc lv) /\ P_fresh2 g t (wc lv).
Proof.
  unfold lv_ok, P_leaf, P_ni, P_holds, P_fresh1, P_fresh2. cbv zeta. split.
  - intros (H1 & H2 & H3 & H4 & H5). split; [exact H1|]. split; [exact H2|]. split; [exact H3|]. split; [exact H4|].
    split; intros n A B C; destruct (H5 n A B C) as (X1 & X2 & X3 & X4); auto.
  - intros (H1 & H2 & H3 & H4 & H5 & H6). split; [exact H1|]. split; [exact H2|]. split; [exact H3|]. split; [exact H4|].
    intros n A B C. destruct (H5 n A B C) as (X1 & X2 & X3). split; [exact X1|]. split; [exact X2|]. split; [exact X3|]. exact (H6 n A B C).
Qed.

Lemma facts_stable_all t g a g' a' l : stepR t g a g' a' -> Forall (fact_ok g a) l -> Forall (fact_ok g' a') l.
Proof. intros R H. rewrite Forall_forall in *. intros f Hf. eapply fact_stable; eauto. Qed.

(** ** stores into my own, not yet published, nodes *)
Definition own_store (n : ptr) (f : G -> G * V * list ev) : Prop := forall g,
  upd (fst (fst (f g))) = upd g /\
  forall x, x <> n -> flags (fst (fst (f g))) x = flags g x /\ ikey (fst (fst (f g))) x = ikey g x /\
                     lft (fst (fst (f g))) x = lft g x /\ rgt (fst (fst (f g))) x = rgt g x /\ emp (fst (fst (f g))) x = emp g x.

Lemma D_own {R} t f (k : V -> prog R) lv n :
  one_acc f -> own_store n f ->
  (forall g a, DS g a -> view a t = lv -> exists c', ((4 <= n)%nat /\ owner_of n = t) /\
      (chs c' = chs (wc lv) /\ stx c' = stx (wc lv) /\ (cser (wc lv) <= cser c')%nat) /\ dpub a n = false /\
      P_leaf (fst (fst (f g))) a t c' /\ P_ni (fst (fst (f g))) a t c' /\ P_fresh1 a t c' /\
      DSAFE t (k (snd (fst (f g)))) (mkDV (wf lv) c')) ->
  DSAFE t (Act f k) lv.
Proof.
  intros Hone Hst H. apply D_act_keep; [exact Hone|]. intros g a Hs Hv.
  destruct (H g a Hs Hv) as (c' & (Hn & Ho) & (Ech & Est & Eser) & Pn & Hl & Hni & Hf1 & Hk). destruct (Hst g) as [Eu Eo]. set (g' := fst (fst (f g))) in *.
  exists (dmax a), (mkDV (wf lv) c'). cbv zeta.
  assert (Np : forall x, dpub a x = true -> x <> n) by (intros x Hx E; congruence).
  assert (R0 : stepR t g a g' (mk_a a t (dpub a) (dever a) (ddead a) (dmax a) (mkDV (wf lv) c') (datr a))).
  { constructor; cbn [dpub dever ddead dmax datr mk_a]; auto using atr_ext_refl.
    - intros x [Hx|[Hx1 Hx2]]; (assert (Nx : x <> n) by (try (now apply Np); intros E; congruence)); destruct (Eo x Nx) as (A & B & _); auto.
    - intros x d Hx1 Hx2 _. assert (Nx : x <> n) by (intros E; congruence). destruct (Eo x Nx) as (_ & _ & A & B & _). unfold child. now rewrite A, B.
    - intros x d Hx. left. destruct (Eo x (Np x Hx)) as (_ & _ & A & B & _). unfold child. now rewrite A, B.
    - intros x. left. now rewrite Eu.
    - intros x Hx. destruct (Eo x (Np x Hx)) as (_ & _ & _ & _ & A). rewrite A. lia. }
  split; [exact R0|]. split; [intros x Hx; destruct (Eo x (Np x Hx)) as (_ & _ & A & B & _); auto|].
  split; [assert (N0 : null <> n) by (unfold null; lia); destruct (Eo null N0) as (A & _); rewrite A; apply (d_null _ _ Hs)|].
  split; [intros x Hx; rewrite Eu; apply (d_unpub _ _ Hs x Hx)|].
  split.
  { intros x. rewrite Eu. destruct (d_ver _ _ Hs x) as [V1 V2]. split; [exact V1|]. destruct (Nat.eq_dec x n) as [->|Nx].
    - destruct (d_unpub _ _ Hs n Pn) as [_ E]. rewrite E. lia.
    - destruct (Eo x Nx) as (_ & _ & _ & _ & A). now rewrite A. }
  split; [|split; [exact Est|exact Hk]].
  pose proof (d_views _ _ Hs t) as Vt. rewrite Hv in Vt. apply lv_ok_parts in Vt. destruct Vt as (V1 & V2 & V3 & (V4 & V4b & V4c) & V5 & V6).
  apply lv_ok_parts. cbn [wf wc]. split; [eapply facts_stable_all; eauto|]. split; [exact Hl|]. split; [exact Hni|]. split; [|split; [exact Hf1|]].
  - unfold P_holds. rewrite Ech. split; [|split; [exact V4b|]].
    + rewrite Forall_forall in *. intros h Hh. pose proof (V4 h Hh) as Ok. pose proof Ok as (A & _).
      apply (hold_stable_gen t t g a g' _ h R0 Ok); cbn [dmax mk_a]; auto.
      * now rewrite Eu.
      * intros d. destruct (Eo (hx h) (Np _ A)) as (_ & _ & X & Y & _). unfold child. now rewrite X, Y.
      * intros y Ny. rewrite Eu in Ny. congruence.
    + rewrite Forall_forall in *. intros h Hh. specialize (V4c h Hh). cbv beta in V4c. cbv beta. lia.
  - intros n0 A B C x. rewrite Eu. apply (V6 n0 A B); lia.
Qed.

Lemma parts_of g a t lv : DS g a -> view a t = lv ->
  Forall (fact_ok g a) (wf lv) /\ P_leaf g a t (wc lv) /\ P_ni g a t (wc lv) /\ P_holds g a t (wc lv) /\ P_fresh1 a t (wc lv) /\ P_fresh2 g t (wc lv).
Proof. intros Hs Hv. apply lv_ok_parts. rewrite <- Hv. apply (d_views _ _ Hs). Qed.

Lemma os_st_flags n f : own_store n (a_st_flags n f).
Proof. intros g. cbn [a_st_flags fst snd flags ikey lft rgt upd emp]. split; [reflexivity|]. intros x Nx. unfold upd1. destruct (Nat.eqb_spec x n); [congruence|auto]. Qed.
Lemma os_st_emp n v : own_store n (a_st_emp n v).
Proof. intros g. cbn [a_st_emp fst snd flags ikey lft rgt upd emp]. split; [reflexivity|]. intros x Nx. unfold upd1. destruct (Nat.eqb_spec x n); [congruence|auto]. Qed.
Lemma os_st_left_key n key x : own_store n (a_st_left_key n key x).
Proof. intros g. cbn [a_st_left_key fst snd flags ikey lft rgt upd emp]. split; [reflexivity|]. intros y Ny. unfold upd1. destruct (Nat.eqb_spec y n); [congruence|auto]. Qed.
Lemma os_st_right n x : own_store n (a_st_right n x).
Proof. intros g. cbn [a_st_right set_child fst snd flags ikey lft rgt upd emp]. split; [reflexivity|]. intros y Ny. unfold upd1. destruct (Nat.eqb_spec y n); [congruence|auto]. Qed.

Lemma D_alloc_leaf {R} t sr key (k : V -> prog R) lv :
  (t < 64)%nat -> (key < 8)%nat -> (cser (wc lv) <= sr)%nat ->
  (forall v, DSAFE t (k v) (mkDV (wf lv) (mkC (Some (mk_id t sr 0 key)) (cni (wc lv)) (chs (wc lv)) (S sr) (cst (wc lv)) (cx (wc lv))))) ->
  DSAFE t (Act (a_st_flags (mk_id t sr 0 key) 0) k) lv.
Proof.
  intros Ht Hk Hsr H. set (leaf := mk_id t sr 0 key).
  assert (Hge : (4 <= leaf)%nat) by apply mk_id_ge.
  assert (Hown : owner_of leaf = t) by (apply mk_id_owner; lia).
  assert (Hser : ser_of leaf = sr) by (apply mk_id_ser; lia).
  apply (D_own t _ k lv leaf); [apply o_st_flags|apply os_st_flags|]. intros g a Hs Hv.
  destruct (parts_of g a t lv Hs Hv) as (V1 & V2 & V3 & V4 & V5 & V6).
  destruct (V5 leaf Hge Hown ltac:(lia)) as (Fp & Fl & Fn).
  exists (mkC (Some leaf) (cni (wc lv)) (chs (wc lv)) (S sr) (cst (wc lv)) (cx (wc lv))). split; [auto|].
  split; [cbn [chs cst cser]; split; [reflexivity|split; [reflexivity|lia]]|]. split; [exact Fp|].
  split; [|split; [|split; [|apply H]]].
  - unfold P_leaf. cbn [cleaf]. split; [repeat split; auto|]. cbn [a_st_flags fst snd flags]. unfold upd1. now rewrite Nat.eqb_refl.
  - unfold P_ni in *. cbn [cni cleaf]. destruct (cni (wc lv)) as [[[[[m f] key'] l] r]|] eqn:En; [|exact Logic.I].
    destruct V3 as [((O1 & O2 & O3) & O4) F].
    assert (N : m <> leaf) by (intros E; subst m; eapply Fn; reflexivity).
    destruct (os_st_flags leaf 0 g) as [_ Eo]. destruct (Eo m N) as (E1 & E2 & E3 & E4 & _). rewrite E1, E2, E3, E4.
    split; [split; [repeat split; auto|congruence]|exact F].
  - intros n Hn1 Hn2 Hn3. cbn [cser cleaf cni] in *. destruct (V5 n Hn1 Hn2 ltac:(lia)) as (A & B & C). split; [exact A|]. split; [|exact C].
    intros E. inversion E; subst n. lia.
Qed.

Lemma D_alloc_ni {R} t sr (k : V -> prog R) lv :
  (t < 64)%nat -> (cser (wc lv) <= sr)%nat ->
  (forall v key l r, DSAFE t (k v) (mkDV (wf lv) (mkC (cleaf (wc lv)) (Some (mk_id t sr 1 0, 1, key, l, r)) (chs (wc lv)) (S sr) (cst (wc lv)) (cx (wc lv))))) ->
  DSAFE t (Act (a_st_flags (mk_id t sr 1 0) 1) k) lv.
Proof.
  intros Ht Hsr H. set (ni := mk_id t sr 1 0).
  assert (Hge : (4 <= ni)%nat) by apply mk_id_ge.
  assert (Hown : owner_of ni = t) by (apply mk_id_owner; lia).
  assert (Hser : ser_of ni = sr) by (apply mk_id_ser; lia).
  apply (D_own t _ k lv ni); [apply o_st_flags|apply os_st_flags|]. intros g a Hs Hv.
  destruct (parts_of g a t lv Hs Hv) as (V1 & V2 & V3 & V4 & V5 & V6).
  destruct (V5 ni Hge Hown ltac:(lia)) as (Fp & Fl & Fn).
  exists (mkC (cleaf (wc lv)) (Some (ni, 1, ikey g ni, lft g ni, rgt g ni)) (chs (wc lv)) (S sr) (cst (wc lv)) (cx (wc lv))). split; [auto|].
  split; [cbn [chs cst cser]; split; [reflexivity|split; [reflexivity|lia]]|]. split; [exact Fp|].
  destruct (os_st_flags ni 1 g) as [_ Eo].
  split; [|split; [|split; [|apply H]]].
  - unfold P_leaf in *. cbn [cleaf]. destruct (cleaf (wc lv)) as [l|] eqn:El; [|exact Logic.I]. destruct V2 as [(L1 & L2 & L3) L4].
    assert (N : l <> ni) by (intros E; subst l; apply Fl; reflexivity). destruct (Eo l N) as (E & _). rewrite E. repeat split; auto.
  - unfold P_ni. cbn [cni cleaf]. split; [split; [repeat split; auto|exact Fl]|]. cbn [a_st_flags fst snd flags ikey lft rgt]. unfold upd1. rewrite Nat.eqb_refl. auto.
  - intros n Hn1 Hn2 Hn3. cbn [cser cleaf cni] in *. destruct (V5 n Hn1 Hn2 ltac:(lia)) as (A & B & C). split; [exact A|]. split; [exact B|].
    intros f' key' l' r' E. inversion E; subst n. lia.
Qed.


Definition set_ni (lv : dview) (x : option (ptr * Z * Z * ptr * ptr)) : dview :=
  mkDV (wf lv) (mkC (cleaf (wc lv)) x (chs (wc lv)) (cser (wc lv)) (cst (wc lv)) (cx (wc lv))).

(** generic: an action that rewrites fields of my internal node *)
Lemma D_own_ni {R} t f (k : V -> prog R) lv ni f0 key0 l0 r0 f1 key1 l1 r1 :
  one_acc f -> own_store ni f ->
  cni (wc lv) = Some (ni, f0, key0, l0, r0) ->
  (forall g, flags g ni = f0 -> ikey g ni = key0 -> lft g ni = l0 -> rgt g ni = r0 ->
     flags (fst (fst (f g))) ni = f1 /\ ikey (fst (fst (f g))) ni = key1 /\ lft (fst (fst (f g))) ni = l1 /\ rgt (fst (fst (f g))) ni = r1) ->
  (forall v, DSAFE t (k v) (set_ni lv (Some (ni, f1, key1, l1, r1)))) ->
  DSAFE t (Act f k) lv.
Proof.
  intros Hone Hos Ho Hf H.
  apply (D_own t f k lv ni Hone Hos). intros g a Hs Hv.
  destruct (parts_of g a t lv Hs Hv) as (V1 & V2 & V3 & V4 & V5 & V6).
  unfold P_ni in V3. rewrite Ho in V3. destruct V3 as (((O1 & O2 & O3) & O4) & E1 & E2 & E3 & E4).
  exists (wc (set_ni lv (Some (ni, f1, key1, l1, r1)))). cbn [set_ni wc chs cst cser]. split; [auto|].
  split; [split; [reflexivity|split; [reflexivity|lia]]|]. split; [exact O2|]. destruct (Hos g) as [_ Eo].
  split; [|split; [|split; [|apply H]]].
  - unfold P_leaf in *. cbn [cleaf]. destruct (cleaf (wc lv)) as [l|] eqn:El; [|exact Logic.I]. destruct V2 as [(L1 & L2 & L3) L4].
    assert (N : l <> ni) by (intros E; subst l; apply O4; reflexivity). destruct (Eo l N) as (E & _). rewrite E. repeat split; auto.
  - unfold P_ni. cbn [cni cleaf]. split; [split; [repeat split; auto|exact O4]|]. now apply Hf.
  - intros n Hn1 Hn2 Hn3. cbn [cser cleaf cni] in *. destruct (V5 n Hn1 Hn2 Hn3) as (A & B & C). split; [exact A|]. split; [exact B|].
    intros f' key' l' r' E. inversion E; subst. eapply C. exact Ho.
Qed.

Lemma D_st_emp_own {R} t ni f0 key0 l0 r0 v0 (k : V -> prog R) lv :
  cni (wc lv) = Some (ni, f0, key0, l0, r0) -> (forall v, DSAFE t (k v) (set_ni lv (Some (ni, f0, key0, l0, r0)))) ->
  DSAFE t (Act (a_st_emp ni v0) k) lv.
Proof.
  intros Ho H. apply (D_own_ni t _ k lv ni f0 key0 l0 r0 f0 key0 l0 r0); [apply o_st_emp|apply os_st_emp|exact Ho| |exact H].
  intros g E1 E2 E3 E4. cbn [a_st_emp fst snd flags ikey lft rgt]. auto.
Qed.

Lemma D_ld_flags_own {R} t ni f key l r (k : V -> prog R) lv :
  cni (wc lv) = Some (ni, f, key, l, r) -> DSAFE t (k (VFl f key)) lv -> DSAFE t (Act (a_ld_flags ni) k) lv.
Proof.
  intros Ho H. apply D_quiet; [apply q_ld_flags|apply o_ld_flags|]. intros g a Hs Hv. exists lv.
  split; [rewrite <- Hv; apply (d_views _ _ Hs)|]. split; [reflexivity|].
  destruct (parts_of g a t lv Hs Hv) as (_ & _ & V3 & _). unfold P_ni in V3. rewrite Ho in V3. destruct V3 as (_ & E1 & E2 & _).
  cbn [a_ld_flags fst snd]. now rewrite E1, E2.
Qed.

(** ** the list of holds *)
Definition hrep (op : ptr) (h' : hold) (l : list hold) : list hold := map (fun h => if Nat.eqb (hop h) op then h' else h) l.
Definition hrem (op : ptr) (l : list hold) : list hold := filter (fun h => negb (Nat.eqb (hop h) op)) l.

Lemma hrep_hop op h' l : hop h' = op -> map hop (hrep op h' l) = map hop l.
Proof.
  intros E. unfold hrep. rewrite map_map. apply map_ext_in. intros h _. destruct (Nat.eqb_spec (hop h) op); congruence.
Qed.
Lemma hrep_Forall (P : hold -> Prop) op h' l : P h' -> (forall h, In h l -> hop h <> op -> P h) -> Forall P (hrep op h' l).
Proof.
  intros H1 H2. unfold hrep. rewrite Forall_forall. intros x Hx. apply in_map_iff in Hx. destruct Hx as (h & E & Hh).
  destruct (Nat.eqb_spec (hop h) op); subst x; auto.
Qed.
Lemma hrem_In op l h : In h (hrem op l) <-> In h l /\ hop h <> op.
Proof. unfold hrem. rewrite filter_In. split; intros [A B]; split; auto; destruct (Nat.eqb_spec (hop h) op); cbn in *; congruence. Qed.
Lemma hrem_NoDup op l : NoDup (map hop l) -> NoDup (map hop (hrem op l)).
Proof.
  induction l as [|h l IH]; cbn; intros H; [constructor|]. inversion H as [|? ? H1 H2]; subst.
  destruct (Nat.eqb (hop h) op); cbn; [now apply IH|]. constructor; [|now apply IH].
  intros X. apply H1. apply in_map_iff in X. destruct X as (h2 & E & Hh). apply hrem_In in Hh. apply in_map_iff. exists h2. tauto.
Qed.
Lemma NoDup_hop_inj (l : list hold) h h0 : NoDup (map hop l) -> In h l -> In h0 l -> hop h = hop h0 -> h = h0.
Proof.
  induction l as [|x l IH]; cbn; intros H A B E; [contradiction|]. inversion H as [|? ? H1 H2]; subst.
  destruct A as [->|A], B as [->|B]; auto.
  - exfalso. apply H1. rewrite E. now apply in_map.
  - exfalso. apply H1. rewrite <- E. now apply in_map.
Qed.

Lemma uw_dec (a b : uword) : {a = b} + {a <> b}.
Proof. decide equality; apply Nat.eq_dec. Qed.
Lemma u_eqb_eq a b : u_eqb a b = true <-> a = b.
Proof.
  unfold u_eqb. rewrite andb_true_iff, !Nat.eqb_eq. destruct a, b; cbn. split; [intros [-> ->]; reflexivity|intros E; inversion E; auto].
Qed.

Lemma hold_other t g a g' a' h x0 :
  stepR t g a g' a' -> hold_ok g a t h -> hx h <> x0 ->
  (forall y, y <> x0 -> upd g' y = upd g y /\ dmax a' y = dmax a y /\ forall d, child g' y d = child g y d) ->
  (snd (upd g' x0) = 0%nat \/ fst (upd g' x0) <> hop h \/ upd g' x0 = upd g x0) ->
  hold_ok g' a' t h.
Proof.
  intros R Ok Nx Ho Hn. destruct (Ho (hx h) Nx) as (E1 & E2 & E3).
  apply (hold_stable_gen t t g a g' a' h R Ok E1 E3 E2).
  intros y Ny. destruct (Nat.eq_dec y x0) as [->|Ny0]; [|destruct (Ho y Ny0) as (X & _); contradiction].
  destruct Hn as [X|[X|X]]; auto; contradiction.
Qed.

Lemma hx_clean g a t h x0 : hold_ok g a t h -> snd (upd g x0) = 0%nat -> hx h <> x0.
Proof. intros (_ & _ & C & D & _) H E. rewrite <- E, C in H. cbn in H. lia. Qed.
Lemma hx_ne g a t h h0 : hold_ok g a t h -> hold_ok g a t h0 -> hop h <> hop h0 -> hx h <> hx h0.
Proof. intros (_ & _ & C & _) (_ & _ & C0 & _) N E. rewrite E, C0 in C. inversion C. congruence. Qed.

Lemma P_leaf_teq g g' a t c : flags g' = flags g -> P_leaf g a t c -> P_leaf g' a t c.
Proof. intros E. unfold P_leaf. now rewrite E. Qed.
Lemma P_ni_teq g g' a t c : flags g' = flags g -> ikey g' = ikey g -> lft g' = lft g -> rgt g' = rgt g -> P_ni g a t c -> P_ni g' a t c.
Proof. intros E1 E2 E3 E4. unfold P_ni. now rewrite E1, E2, E3, E4. Qed.

(** the obligations of [D_act_keep] for a step that changed nothing *)
Lemma keep_feq t g g' a lv lv' :
  feq g g' -> DS g a -> view a t = lv -> lv_ok g a t lv' ->
  let a' := mk_a a t (dpub a) (dever a) (ddead a) (dmax a) lv' (datr a) in
  stepR t g a g' a' /\ (forall x, dpub a x = true -> lft g' x = lft g x /\ rgt g' x = rgt g x) /\ flags g' null = 0 /\
  (forall x, dpub a x = false -> upd g' x = (0%nat, 0%nat) /\ dmax a x = 0%nat) /\
  (forall x, (forall c, upd g' x = (c, 0%nat) -> (c <= dmax a x)%nat) /\ (dmax a x <= emp g' x)%nat) /\
  lv_ok g' a' t lv'.
Proof.
  intros Q Hs Hv Hf. pose proof Q as (E1 & E2 & E3 & E4 & E5 & E6). cbv zeta.
  split; [apply stepR_feq; [exact Q|apply atr_ext_refl]|]. split; [intros x _; now rewrite E3, E4|]. split; [rewrite E1; apply (d_null _ _ Hs)|].
  split; [intros x Hx; rewrite E5; apply (d_unpub _ _ Hs x Hx)|]. split; [intros x; rewrite E5, E6; apply (d_ver _ _ Hs)|].
  apply (lv_ok_feq g); [exact Q|]. exact Hf.
Qed.
Lemma feq_refl g : feq g g. Proof. repeat split. Qed.

(** ** steps that change one update word *)
Definition set_upd (g : G) (x : ptr) (w : uword) : G := mkG (flags g) (ikey g) (lft g) (rgt g) (upd1 (upd g) x w) (emp g) (cnt g).

Lemma upd1_same {A} (f : ptr -> A) x v : upd1 f x v x = v.
Proof. unfold upd1. now rewrite Nat.eqb_refl. Qed.
Lemma upd1_other {A} (f : ptr -> A) x v y : y <> x -> upd1 f x v y = f y.
Proof. unfold upd1. intros N. destruct (Nat.eqb_spec y x); congruence. Qed.

Lemma stepR_upd t g a x0 w' m' lv' :
  (snd (upd g x0) = 0%nat \/ ((snd (upd g x0) = 1 \/ snd (upd g x0) = 2)%nat /\ owner_of (fst (upd g x0)) = t)) ->
  ((snd w' <> 0%nat /\ owner_of (fst w') = t /\ m' = dmax a x0) \/
   (snd w' = 0%nat /\ (dmax a x0 < fst w')%nat /\ (dmax a x0 <= m')%nat /\ (snd (upd g x0) = 1 \/ snd (upd g x0) = 2)%nat /\ owner_of (fst (upd g x0)) = t)) ->
  stepR t g a (set_upd g x0 w') (mk_a a t (dpub a) (dever a) (ddead a) (upd1 (dmax a) x0 m') lv' (datr a)).
Proof.
  intros Hold Hnew. constructor; cbn [dpub dever ddead dmax datr mk_a set_upd flags ikey lft rgt upd emp child].
  - auto.
  - auto.
  - auto.
  - intros x. destruct (Nat.eq_dec x x0) as [->|N]; [rewrite upd1_same|rewrite upd1_other by exact N; lia]. destruct Hnew as [(_ & _ & ->)|(_ & _ & H & _)]; lia.
  - auto.
  - auto.
  - intros x d _. now left.
  - intros x. destruct (Nat.eq_dec x x0) as [->|N]; [rewrite upd1_same|rewrite upd1_other by exact N; now left]. right. split; [exact Hold|].
    destruct Hnew as [(A & B & _)|(A & B & _)]; [left|right]; auto.
  - intros x. destruct (Nat.eq_dec x x0) as [->|N]; [rewrite upd1_same|rewrite upd1_other by exact N; now left].
    destruct Hnew as [(_ & _ & ->)|(_ & _ & _ & H)]; [now left|now right].
  - auto.
  - apply atr_ext_refl.
Qed.

(** the IFlag / DFlag CAS *)
Lemma D_cas_flag {R} t x w op b ch (k : V -> prog R) lv :
  (b = 1 \/ b = 2)%nat -> snd w = 0%nat ->
  pubk lv x -> (exists fx kx, In (FFl x fx kx) (wf lv) /\ is_internal_f fx = true) ->
  (4 <= op)%nat -> owner_of op = t -> (cser (wc lv) <= ser_of op)%nat ->
  (forall d c, In (d, c) ch -> In (FCl x w d c) (wf lv)) ->
  (forall cur, DSAFE t (k (VCW false cur)) lv) ->
  DSAFE t (k (VCW true w))
    (mkDV (wf lv) (mkC (cleaf (wc lv)) (cni (wc lv)) (mkH x op b None None ch :: chs (wc lv)) (S (ser_of op)) (cst (wc lv)) (cx (wc lv)))) ->
  DSAFE t (Act (a_cas_upd x (fst w, 0%nat) (op, b)) k) lv.
Proof.
  intros Hb Hw Hpx (fx & kx & Hfx & Hix) Hop1 Hop2 Hop3 Hch Hfail Hok.
  assert (Ew : (fst w, 0%nat) = w) by (destruct w; cbn in *; now subst). rewrite Ew.
  apply D_act_keep; [apply o_cas_upd|]. intros g a Hs Hv. unfold a_cas_upd.
  destruct (u_eqb (upd g x) w) eqn:Eu; cbn [fst snd].
  2:{ exists (dmax a), lv. destruct (keep_feq t g g a lv lv (feq_refl g) Hs Hv) as (A1 & A2 & A3 & A4 & A5 & A6); [rewrite <- Hv; apply (d_views _ _ Hs)|].
      repeat (split; [assumption|]). split; [reflexivity|apply Hfail]. }
  apply u_eqb_eq in Eu. fold (set_upd g x (op, b)). set (g' := set_upd g x (op, b)).
  set (c' := mkC (cleaf (wc lv)) (cni (wc lv)) (mkH x op b None None ch :: chs (wc lv)) (S (ser_of op)) (cst (wc lv)) (cx (wc lv))).
  exists (upd1 (dmax a) x (dmax a x)), (mkDV (wf lv) c'). cbv zeta.
  pose proof (pubk_pub g a t lv x Hs Hv Hpx) as Px.
  assert (Emax : forall y, upd1 (dmax a) x (dmax a x) y = dmax a y) by (intros y; unfold upd1; destruct (Nat.eqb_spec y x); congruence).
  assert (R0 : stepR t g a g' (mk_a a t (dpub a) (dever a) (ddead a) (upd1 (dmax a) x (dmax a x)) (mkDV (wf lv) c') (datr a))).
  { apply stepR_upd; [left; rewrite Eu; exact Hw|left; cbn [fst snd]; split; [lia|auto]]. }
  split; [exact R0|]. split; [intros y _; auto|]. split; [apply (d_null _ _ Hs)|].
  split; [intros y Hy; rewrite Emax; unfold g'; cbn [set_upd upd]; rewrite upd1_other by congruence; apply (d_unpub _ _ Hs y Hy)|].
  split.
  { intros y. rewrite Emax. unfold g'; cbn [set_upd upd emp]. destruct (d_ver _ _ Hs y) as [V1 V2]. split; [|exact V2].
    destruct (Nat.eq_dec y x) as [->|N]; [rewrite upd1_same; intros c E; inversion E; lia|rewrite upd1_other by exact N; exact V1]. }
  split; [|split; [reflexivity|rewrite Eu; exact Hok]].
  destruct (parts_of g a t lv Hs Hv) as (V1 & V2 & V3 & (V4 & V4b & V4c) & V5 & V6).
  apply lv_ok_parts. cbn [wf wc]. split; [eapply facts_stable_all; eauto|].
  split; [apply (P_leaf_teq g); auto|]. split; [apply (P_ni_teq g); auto|].
  assert (Hnew : forall h, In h (chs (wc lv)) -> hop h <> op).
  { intros h Hh E. rewrite Forall_forall in V4c. specialize (V4c h Hh). cbv beta in V4c. rewrite E in V4c. lia. }
  split; [|split].
  - unfold P_holds. cbn [c' chs cser map]. split; [|split].
    + constructor.
      * destruct (facts_of g a t lv _ Hs Hv Hfx) as (_ & F2 & _). unfold hold_ok. cbn [hx hop hb hn hmk hch].
        split; [exact Px|]. split; [unfold internal; unfold g'; cbn [set_upd flags]; now rewrite F2|].
        split; [unfold g'; cbn [set_upd upd hx hop hb]; now rewrite upd1_same|]. split; [exact Hb|]. split; [exact Hop1|]. split; [exact Hop2|].
        split; [|split; [exact Logic.I|]].
        -- intros y Hy1 Hy2. cbn [hx hop hmk]. destruct (Nat.eq_dec y x) as [->|N]; [now left|]. exfalso.
           unfold g' in Hy1, Hy2; cbn [set_upd upd] in Hy1, Hy2. rewrite upd1_other in Hy1, Hy2 by exact N. exact (V6 op Hop1 Hop2 Hop3 y Hy1 Hy2).
        -- intros d c Hin. cbn [hch hx] in *. destruct (facts_of g a t lv _ Hs Hv (Hch d c Hin)) as (_ & F). destruct (F Hw) as [_ F3]. now apply F3.
      * rewrite Forall_forall in *. intros h Hh. pose proof (V4 h Hh) as Ok.
        apply (hold_other t g a g' _ h x R0 Ok); [eapply hx_clean; [exact Ok|rewrite Eu; exact Hw]| |].
        -- intros y Ny. unfold g'; cbn [set_upd upd dmax mk_a]. rewrite upd1_other by exact Ny. rewrite Emax. auto.
        -- right. left. unfold g'; cbn [set_upd upd]. rewrite upd1_same. cbn [fst]. intros E. exact (Hnew h Hh (eq_sym E)).
    + constructor; [|exact V4b]. intros X. apply in_map_iff in X. destruct X as (h & E & Hh). exact (Hnew h Hh E).
    + constructor; [cbn [hop]; lia|]. rewrite Forall_forall in *. intros h Hh. specialize (V4c h Hh). cbv beta in *. lia.
  - intros n A B C. cbn [c' cser cleaf cni] in *. apply (V5 n A B). lia.
  - intros n A B C y. cbn [c' cser] in C. unfold g'; cbn [set_upd upd]. destruct (Nat.eq_dec y x) as [->|N].
    + rewrite upd1_same. cbn [fst snd]. intros _ E. subst n. lia.
    + rewrite upd1_other by exact N. apply (V6 n A B). lia.
Qed.

Definition set_chs (lv : dview) (fs : list fact) (hs : list hold) : dview :=
  mkDV (fs ++ wf lv) (mkC (cleaf (wc lv)) (cni (wc lv)) hs (cser (wc lv)) (cst (wc lv)) (cx (wc lv))).

(** the Mark CAS of help_delete *)
Lemma D_cas_mark {R} t gp p w op ch0 chf (k : V -> prog R) lv :
  In (mkH gp op 1 None None ch0) (chs (wc lv)) -> snd w = 0%nat -> pubk lv p ->
  (forall d c, In (d, c) chf -> In (FCl p w d c) (wf lv)) ->
  (forall cur, u_eqb cur (op, 3%nat) = false -> DSAFE t (k (VCW false cur)) lv) ->
  DSAFE t (k (VCW true w))
    (set_chs lv (map (fun dc => FFz p (fst dc) (snd dc)) chf) (hrep op (mkH gp op 1 None (Some p) ch0) (chs (wc lv)))) ->
  DSAFE t (Act (a_cas_upd p (fst w, 0%nat) (op, 3%nat)) k) lv.
Proof.
  intros Hh0 Hw Hpp Hch Hfail Hok.
  assert (Ew : (fst w, 0%nat) = w) by (destruct w; cbn in *; now subst). rewrite Ew.
  apply D_act_keep; [apply o_cas_upd|]. intros g a Hs Hv. unfold a_cas_upd.
  destruct (parts_of g a t lv Hs Hv) as (V1 & V2 & V3 & (V4 & V4b & V4c) & V5 & V6).
  pose proof V4 as V4'. rewrite Forall_forall in V4'. pose proof (V4' _ Hh0) as Ok0.
  pose proof Ok0 as (A0 & B0 & C0 & D0 & E0 & F0 & G0 & _ & I0). cbn [hx hop hb hn hmk hch] in *.
  destruct (u_eqb (upd g p) w) eqn:Eu; cbn [fst snd].
  2:{ exists (dmax a), lv. destruct (keep_feq t g g a lv lv (feq_refl g) Hs Hv) as (A1 & A2 & A3 & A4 & A5 & A6); [rewrite <- Hv; apply (d_views _ _ Hs)|].
      repeat (split; [assumption|]). split; [reflexivity|apply Hfail].
      destruct (u_eqb (upd g p) (op, 3%nat)) eqn:E3; [|reflexivity]. exfalso. apply u_eqb_eq in E3.
      destruct (G0 p) as [X|X]; [rewrite E3; cbn; lia|rewrite E3; reflexivity| |discriminate]. subst p. rewrite C0 in E3. inversion E3. }
  apply u_eqb_eq in Eu. fold (set_upd g p (op, 3%nat)). set (g' := set_upd g p (op, 3%nat)).
  set (h1 := mkH gp op 1 None (Some p) ch0).
  set (lv' := set_chs lv (map (fun dc => FFz p (fst dc) (snd dc)) chf) (hrep op h1 (chs (wc lv)))).
  exists (upd1 (dmax a) p (dmax a p)), lv'. cbv zeta.
  pose proof (pubk_pub g a t lv p Hs Hv Hpp) as Pp.
  assert (Npg : gp <> p) by (intros E; subst gp; rewrite Eu in C0; rewrite C0 in Hw; cbn in Hw; lia).
  assert (Emax : forall y, upd1 (dmax a) p (dmax a p) y = dmax a y) by (intros y; unfold upd1; destruct (Nat.eqb_spec y p); congruence).
  assert (R0 : stepR t g a g' (mk_a a t (dpub a) (dever a) (ddead a) (upd1 (dmax a) p (dmax a p)) lv' (datr a))).
  { apply stepR_upd; [left; rewrite Eu; exact Hw|left; cbn [fst snd]; split; [lia|auto]]. }
  split; [exact R0|]. split; [intros y _; auto|]. split; [apply (d_null _ _ Hs)|].
  split; [intros y Hy; rewrite Emax; unfold g'; cbn [set_upd upd]; rewrite upd1_other by congruence; apply (d_unpub _ _ Hs y Hy)|].
  split.
  { intros y. rewrite Emax. unfold g'; cbn [set_upd upd emp]. destruct (d_ver _ _ Hs y) as [W1 W2]. split; [|exact W2].
    destruct (Nat.eq_dec y p) as [->|N]; [rewrite upd1_same; intros c E; inversion E|rewrite upd1_other by exact N; exact W1]. }
  split; [|split; [reflexivity|rewrite Eu; exact Hok]].
  apply lv_ok_parts. unfold lv', set_chs. cbn [wf wc].
  split.
  { apply Forall_app. split; [|eapply facts_stable_all; eauto]. rewrite Forall_forall. intros f Hf. apply in_map_iff in Hf.
    destruct Hf as ([d c] & <- & Hin). cbn [fst snd fact_ok dpub mk_a]. split; [exact Pp|]. unfold g'; cbn [set_upd upd child lft rgt]. rewrite upd1_same. split; [reflexivity|].
    destruct (facts_of g a t lv _ Hs Hv (Hch d c Hin)) as (_ & F). destruct (F Hw) as [_ F3]. now apply F3. }
  split; [apply (P_leaf_teq g); auto|]. split; [apply (P_ni_teq g); auto|].
  split; [|split].
  - unfold P_holds. cbn [chs cser]. rewrite hrep_hop by reflexivity. split; [|split; [exact V4b|]].
    + apply hrep_Forall.
      * unfold hold_ok, h1. cbn [hx hop hb hn hmk hch]. split; [exact A0|]. split; [exact B0|].
        split; [unfold g'; cbn [set_upd upd]; rewrite upd1_other by exact Npg; exact C0|]. split; [exact D0|]. split; [exact E0|]. split; [exact F0|].
        split; [|split; [exact Logic.I|exact I0]].
        intros y Hy1 Hy2. destruct (Nat.eq_dec y p) as [->|N]; [now right|]. unfold g' in Hy1, Hy2; cbn [set_upd upd] in Hy1, Hy2.
        rewrite upd1_other in Hy1, Hy2 by exact N. destruct (G0 y Hy1 Hy2) as [X|X]; [now left|discriminate].
      * intros h Hh Nh. pose proof (V4' h Hh) as Ok.
        apply (hold_other t g a g' _ h p R0 Ok); [eapply hx_clean; [exact Ok|rewrite Eu; exact Hw]| |].
        -- intros y Ny. unfold g'; cbn [set_upd upd dmax mk_a]. rewrite upd1_other by exact Ny. rewrite Emax. auto.
        -- right. left. unfold g'; cbn [set_upd upd]. rewrite upd1_same. cbn [fst]. congruence.
    + rewrite Forall_forall. intros h Hh. unfold hrep in Hh. apply in_map_iff in Hh. destruct Hh as (h2 & E & Hh2).
      rewrite Forall_forall in V4c. destruct (Nat.eqb_spec (hop h2) op); subst h; [exact (V4c _ Hh0)|exact (V4c _ Hh2)].
  - exact V5.
  - intros n A B C y. unfold g'; cbn [set_upd upd]. destruct (Nat.eq_dec y p) as [->|N].
    + rewrite upd1_same. cbn [fst snd]. intros _ E. subst n. rewrite Forall_forall in V4c. specialize (V4c _ Hh0). cbn [hop] in V4c. cbn [cser] in C. lia.
    + rewrite upd1_other by exact N. apply (V6 n A B C).
Qed.

(** the fetch_add of the ABA counter by the holder of the flag *)
Lemma D_faa_emp {R} t x op b mk ch (k : V -> prog R) lv :
  In (mkH x op b None mk ch) (chs (wc lv)) ->
  (forall n, DSAFE t (k (VN n)) (set_chs lv [] (hrep op (mkH x op b (Some n) mk ch) (chs (wc lv))))) ->
  DSAFE t (Act (a_faa_emp x) k) lv.
Proof.
  intros Hh0 Hk. apply D_act_keep; [apply o_faa_emp|]. intros g a Hs Hv.
  destruct (parts_of g a t lv Hs Hv) as (V1 & V2 & V3 & (V4 & V4b & V4c) & V5 & V6).
  pose proof V4 as V4'. rewrite Forall_forall in V4'. pose proof (V4' _ Hh0) as Ok0.
  pose proof Ok0 as (A0 & B0 & C0 & D0 & E0 & F0 & G0 & _ & I0). cbn [hx hop hb hn hmk hch] in *.
  cbn [a_faa_emp fst snd]. set (g' := mkG (flags g) (ikey g) (lft g) (rgt g) (upd g) (upd1 (emp g) x (S (emp g x))) (cnt g)).
  set (h1 := mkH x op b (Some (emp g x)) mk ch). set (lv' := set_chs lv [] (hrep op h1 (chs (wc lv)))).
  exists (dmax a), lv'. cbv zeta.
  assert (Eemp : forall y, (emp g y <= emp g' y)%nat).
  { intros y. unfold g'. cbn [emp]. destruct (Nat.eq_dec y x) as [->|N]; [rewrite upd1_same; lia|rewrite upd1_other by exact N; lia]. }
  assert (R0 : stepR t g a g' (mk_a a t (dpub a) (dever a) (ddead a) (dmax a) lv' (datr a))).
  { constructor; cbn [dpub dever ddead dmax datr mk_a g' flags ikey lft rgt upd child]; auto using atr_ext_refl. }
  split; [exact R0|]. split; [intros y _; auto|]. split; [apply (d_null _ _ Hs)|].
  split; [intros y Hy; apply (d_unpub _ _ Hs y Hy)|].
  split; [intros y; destruct (d_ver _ _ Hs y) as [W1 W2]; split; [exact W1|specialize (Eemp y); lia]|].
  split; [|split; [reflexivity|apply Hk]].
  apply lv_ok_parts. unfold lv', set_chs. cbn [wf wc app].
  split; [eapply facts_stable_all; eauto|]. split; [apply (P_leaf_teq g); auto|]. split; [apply (P_ni_teq g); auto|].
  split; [|split; [exact V5|exact V6]].
  unfold P_holds. cbn [chs cser]. rewrite hrep_hop by reflexivity. split; [|split; [exact V4b|]].
  - apply hrep_Forall.
    + unfold hold_ok, h1. cbn [hx hop hb hn hmk hch]. split; [exact A0|]. split; [exact B0|]. split; [exact C0|]. split; [exact D0|]. split; [exact E0|].
      split; [exact F0|]. split; [exact G0|]. split; [|exact I0]. cbn [dmax mk_a]. unfold g'. cbn [emp]. rewrite upd1_same.
      destruct (d_ver _ _ Hs x) as [_ W2]. lia.
    + intros h Hh Nh. pose proof (V4' h Hh) as Ok.
      apply (hold_stable_gen t t g a g' _ h R0 Ok); auto.
  - rewrite Forall_forall. intros h Hh. unfold hrep in Hh. apply in_map_iff in Hh. destruct Hh as (h2 & E & Hh2).
    rewrite Forall_forall in V4c. destruct (Nat.eqb_spec (hop h2) op); subst h; [exact (V4c _ Hh0)|exact (V4c _ Hh2)].
Qed.

(** the unflag CAS: a fresh Clean word *)
Lemma D_cas_unflag {R} t x op b n mk ch (k : V -> prog R) lv :
  In (mkH x op b (Some n) mk ch) (chs (wc lv)) ->
  DSAFE t (k (VCW true (op, b))) (set_chs lv [] (hrem op (chs (wc lv)))) ->
  DSAFE t (Act (a_cas_upd x (op, b) (S n, 0%nat)) k) lv.
Proof.
  intros Hh0 Hk. apply D_act_keep; [apply o_cas_upd|]. intros g a Hs Hv.
  destruct (parts_of g a t lv Hs Hv) as (V1 & V2 & V3 & (V4 & V4b & V4c) & V5 & V6).
  pose proof V4 as V4'. rewrite Forall_forall in V4'. pose proof (V4' _ Hh0) as Ok0.
  pose proof Ok0 as (A0 & B0 & C0 & D0 & E0 & F0 & G0 & (H0a & H0b) & I0). cbn [hx hop hb hn hmk hch] in *.
  unfold a_cas_upd. rewrite C0. assert (Eu : u_eqb (op, b) (op, b) = true) by (apply u_eqb_eq; reflexivity). rewrite Eu. cbn [fst snd].
  fold (set_upd g x (S n, 0%nat)). set (g' := set_upd g x (S n, 0%nat)). set (lv' := set_chs lv [] (hrem op (chs (wc lv)))).
  exists (upd1 (dmax a) x (S n)), lv'. cbv zeta.
  assert (R0 : stepR t g a g' (mk_a a t (dpub a) (dever a) (ddead a) (upd1 (dmax a) x (S n)) lv' (datr a))).
  { apply stepR_upd; [right; rewrite C0; cbn [fst snd]; auto|right; cbn [fst snd]; rewrite C0; cbn [fst snd]; repeat split; auto; lia]. }
  split; [exact R0|]. split; [intros y _; auto|]. split; [apply (d_null _ _ Hs)|].
  split.
  { intros y Hy. assert (N : y <> x) by congruence. unfold g'; cbn [set_upd upd]. rewrite !upd1_other by exact N. apply (d_unpub _ _ Hs y Hy). }
  split.
  { intros y. unfold g'; cbn [set_upd upd emp]. destruct (d_ver _ _ Hs y) as [W1 W2].
    destruct (Nat.eq_dec y x) as [->|N]; [rewrite !upd1_same; split; [intros c E; inversion E; lia|lia]|rewrite !upd1_other by exact N; auto]. }
  split; [|split; [reflexivity|exact Hk]].
  apply lv_ok_parts. unfold lv', set_chs. cbn [wf wc app].
  split; [eapply facts_stable_all; eauto|]. split; [apply (P_leaf_teq g); auto|]. split; [apply (P_ni_teq g); auto|].
  split; [|split; [exact V5|]].
  - unfold P_holds. cbn [chs cser]. split; [|split; [now apply hrem_NoDup|]].
    + rewrite Forall_forall. intros h Hh. apply hrem_In in Hh. destruct Hh as [Hh Nh]. pose proof (V4' h Hh) as Ok.
      apply (hold_other t g a g' _ h x R0 Ok); [exact (hx_ne g a t h _ Ok Ok0 Nh)| |].
      * intros y Ny. unfold g'; cbn [set_upd upd dmax mk_a]. rewrite !upd1_other by exact Ny. auto.
      * left. unfold g'; cbn [set_upd upd]. rewrite upd1_same. reflexivity.
    + rewrite Forall_forall in *. intros h Hh. apply hrem_In in Hh. apply V4c. tauto.
  - intros n0 A B C y. unfold g'; cbn [set_upd upd]. destruct (Nat.eq_dec y x) as [->|N].
    + rewrite upd1_same. cbn [snd]. intros X. now exfalso.
    + rewrite upd1_other by exact N. apply (V6 n0 A B C).
Qed.

End Steps.
