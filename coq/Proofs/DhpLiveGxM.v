(** * DhpLiveGxM: C02, second sentence for DHP -- the allocator discipline [cell_disc].  Part X-M: the invariant [InvC3],
      the nodes of hp_allocator::alloc / thread_hp_storage::extend / alloc / free that write guard::next_ and free_head_. *)
From Coq Require Import ZArith NArith List String Bool Lia PeanoNat.
From LV Require Import Base.Conc Base.Events Model.DhpLang Model.Dhp Proofs.DhpBase Proofs.DhpHist
  Proofs.DhpLangProofs Proofs.DhpInvA Proofs.DhpStepsA Proofs.DhpQuietA Proofs.DhpLiveA Proofs.DhpLiveB
  Proofs.DhpLiveGcRule Proofs.DhpLiveGcA Proofs.DhpLiveGcB Proofs.DhpLiveGcC Proofs.DhpLiveGcD Proofs.DhpLiveGxA Proofs.DhpLiveGxE Proofs.DhpLiveGxF
  Proofs.DhpLiveGxG Proofs.DhpLiveGxH Proofs.DhpLiveGxI Proofs.DhpLiveGxJ Proofs.DhpLiveGxK Proofs.DhpLiveGxL.
Import ListNotations.
Local Open Scope string_scope.
Local Open Scope list_scope.

Section Blk.
  Variable c : cfg.
  Notation rdc := (rdsafe (InvAGB c) viewC3 (InvC3 c)).
  Notation I1B := (I1 (InvAGB c)).

  (** a guard block is taken ("_alloc" / "_new") *)
  Lemma rM_pv {R} t e b (k : @dprog G ev R) l Q : gcls e = GPv b ->
    (forall h0, (forall r, att (hstep h0 (t, e)) r = att h0 r) /\ (forall r, linked (hstep h0 (t, e)) r = linked h0 r)) ->
    (forall l', w_op (fst l') = w_op (fst l) -> w_tl (fst l') = w_tl (fst l) -> w_mp (fst l') = w_mp (fst l) -> w_pv (fst l') = Some b ->
                snd l' = setCh (snd l) (xc_init (snd l)) (Some (b, 0, false)) (xc_pop (snd l)) (xc_freed (snd l)) -> rdc t k l' Q) ->
    rdc t (DEmit [e] k) l Q.
  Proof.
    intros Eg Hh Hk. apply (rdc_emit c t _ k l Q (setCh (snd l) (xc_init (snd l)) (Some (b, 0, false)) (xc_pop (snd l)) (xc_freed (snd l)))).
    intros g a tr Hi Hv Hb Ha. assert (Ex : snd l = ac_x a t) by (rewrite <- Hv; reflexivity).
    assert (E1 : forall st, gstep st (t, e) = mkGS (Datatypes.S (glen st)) (gop st) (gtl st) (gmp st) (fnu (gpv st) t (Some b)) (gsl st) (gac st)).
    { intros st. unfold gstep. cbn [fst snd]. now rewrite Eg. }
    split.
    - apply (InvC3_evnode c g g a tr t _ _ Hi Hb Ha (piR_refl g)); [constructor; [unfold nodisc; now rewrite Eg|constructor]|rewrite Ex; reflexivity|rewrite Ex; reflexivity|rewrite Ex; reflexivity|].
      intros a1 a1' HG Hf [J0 JC0] J1 HK HT HL J1' T' HK' HT' HL'. destruct (Hh (hist tr)) as (Ha0 & Hl0).
      assert (Hgp : gpv (gfold (tr ++ Conc.tag t [e])) t = Some b) by (rewrite gfold_snoc1, E1; cbn; apply fnu_same).
      pose proof (HL' t b Hgp) as Lb. destruct (HT' t b Hgp) as (Nl & _). rewrite hist_snoc1 in Nl. rewrite gfold_snoc1, hist_snoc1, E1.
      apply (JCh_hist c g _ _ (hist tr)); [exact Ha0|exact Hl0|].
      eapply (JCh_pv c g (gfold tr) _ _ _ _ t b JC0 HG).
      + exact Lb.
      + intros i u j Hg. pose proof (k_cd _ _ _ HK u j _ Hg) as Ho. apply ownc_latt in Ho. apply Nl.
        apply (latt_same (hist tr) _ Ha0 Hl0). exact Ho.
      + intros u. cbn. auto.
      + intros u N. cbn. now apply fnu_other.
      + cbn. apply fnu_same.
      + apply fnu_other_eq.
      + rewrite fnu_same. cbn. now rewrite Ex.
      + rewrite fnu_same. reflexivity.
      + rewrite fnu_same. cbn. now rewrite Ex.
      + rewrite fnu_same. cbn. now rewrite Ex.
    - apply Hk; unfold viewC3, setc; cbn [fst snd ac_g ac_x Conc.tag map fold_left]; rewrite ?E1, ?fnu_same; cbn; rewrite ?fnu_same; try reflexivity;
        rewrite <- Hv; reflexivity.
  Qed.

  Lemma hstep_alloc_al h0 t f b : (forall r, att (hstep h0 (t, ev_alloc f b)) r = att h0 r) /\ (forall r, linked (hstep h0 (t, ev_alloc f b)) r = linked h0 r).
  Proof. rewrite hstep_alloc. destruct (existsb (Nat.eqb b) (freeh h0 f)); cbn; auto. Qed.
  Lemma hstep_new_al h0 t f b : (forall r, att (hstep h0 (t, ev_new f b)) r = att h0 r) /\ (forall r, linked (hstep h0 (t, ev_new f b)) r = linked h0 r).
  Proof. rewrite hstep_new. cbn. auto. Qed.

  (** new_gblock *)
  Lemma rM_newblock {R} t (k : nat -> @dprog G ev R) l Q : (forall nb, rdc t (k nb) l Q) -> rdc t (DLoc (new_gblock c) k) l Q.
  Proof.
    intros Hk. apply (rdc_loc c t _ k l Q (fun _ => snd l)). intros g a tr Hi Hv Hb _. assert (Ex : snd l = ac_x a t) by (rewrite <- Hv; reflexivity).
    cbn [new_gblock fst snd]. split.
    - apply (InvC3_chloc c g); auto; try (rewrite Ex; reflexivity); [apply piR_gbs|]. intros a1 HG [J0 JC0] J1 T HK HT HL.
      apply JCh_setx; [rewrite Ex; unfold sameCh; auto|]. apply JCh_new_gblock; [exact JC0|cbn; apply repeat_length|].
      intros u b i Ho. apply ownc_latt in Ho. now destruct (JA_latt_len _ _ _ _ _ J1 Ho).
    - replace (viewG (ac_g a) t, snd l) with l; [apply Hk|]. rewrite <- Hv. reflexivity.
  Qed.

  (** one more guard::next_ of the block is written *)
  Lemma rM_snext {R} t b i v n n' (k : unit -> @dprog G ev R) l Q : xc_pb (snd l) = Some (b, n, false) ->
    (n' = Datatypes.S i /\ n = i /\ v = Some (GE b (Datatypes.S i)) /\ Datatypes.S i < c_GB c) \/ (n' = c_GB c /\ n = c_GB c - 1 /\ i = c_GB c - 1 /\ v = None) ->
    (forall l', fst l' = fst l -> snd l' = setCh (snd l) (xc_init (snd l)) (Some (b, n', false)) (xc_pop (snd l)) (xc_freed (snd l)) -> rdc t (k tt) l' Q) ->
    rdc t (DLoc (fun g => (snext_set g (GE b i) v, tt)) k) l Q.
  Proof.
    intros Hpb Hcase Hk. apply (rdc_loc c t _ k l Q (fun _ => setCh (snd l) (xc_init (snd l)) (Some (b, n', false)) (xc_pop (snd l)) (xc_freed (snd l)))).
    intros g a tr Hi Hv Hb _. assert (Ex : snd l = ac_x a t) by (rewrite <- Hv; reflexivity). cbn [fst snd]. split.
    - apply (InvC3_chloc c g); auto; try (rewrite Ex; reflexivity); [apply piR_snext_set|]. intros a1 HG [J0 JC0] J1 T HK HT HL.
      assert (Hp : xc_pb (ac_x a t) = Some (b, n, false)) by (now rewrite <- Ex). destruct (jc_pb _ _ _ _ _ JC0 t b n false Hp) as (A1 & A2 & A3 & A4 & A5).
      destruct (HT t b A5) as (Nl & Hu).
      assert (Hsv : i < c_GB c -> snv g (GE b i)). { intros Li. cbn. split; [exact A1|]. rewrite (jc_lb _ _ _ _ _ JC0 b A1). exact Li. }
      eapply (JCh_snext_pb c g _ _ _ _ t b i v n n' JC0 Hp).
      + intros u s Ho ->. apply ownc_latt in Ho. contradiction.
      + intros u b' n0 lk0 N Hp' ->. destruct (jc_pb _ _ _ _ _ JC0 u b n0 lk0 Hp') as (_ & _ & _ & _ & B5). destruct lk0.
        * destruct B5 as (r0 & kb & G1 & G2). destruct (k_at _ _ _ HK _ _ G1) as (k0 & A0). apply Nl. exists r0, u, k0, kb. auto.
        * apply N. now apply Hu.
      + intros i0 L1 L2. destruct Hcase as [(-> & -> & -> & L)|(-> & -> & -> & ->)].
        * destruct (Nat.eq_dec i0 i) as [->|Ni]; [apply snext_get_set_same; apply Hsv; lia|]. rewrite snext_get_set_other by congruence. apply A2; lia.
        * rewrite snext_get_set_other by (intros E; inversion E; lia). apply A2; lia.
      + intros En. destruct Hcase as [(-> & -> & -> & L)|(-> & -> & -> & ->)]; [lia|]. apply snext_get_set_same. apply Hsv. lia.
      + apply fnu_other_eq.
      + rewrite fnu_same. cbn. now rewrite Ex.
      + rewrite fnu_same. reflexivity.
      + rewrite fnu_same. cbn. now rewrite Ex.
      + rewrite fnu_same. cbn. now rewrite Ex.
    - apply Hk; [rewrite <- Hv; reflexivity|reflexivity].
  Qed.

  Lemma nodisc_acc k o ok : nodisc (EvAcc k o ok) = true.
  Proof. unfold nodisc. destruct (gcls_acc_cases k o ok) as [-> | ->]; reflexivity. Qed.

  (** the block is linked *)
  Lemma rM_link {R} t r b n (k : unit -> @dprog G ev R) l Q : xc_pb (snd l) = Some (b, n, false) -> w_tl (fst l) = Some r ->
    (forall l', w_op (fst l') = w_op (fst l) -> w_tl (fst l') = w_tl (fst l) -> w_mp (fst l') = w_mp (fst l) -> w_pv (fst l') = None ->
                snd l' = setCh (snd l) (xc_init (snd l)) (Some (b, n, true)) (xc_pop (snd l)) (xc_freed (snd l)) -> rdc t (k tt) l' Q) ->
    rdc t (DAct (a_st_ext_g r (Some b) [ev_link r b]) k) l Q.
  Proof.
    intros Hpb Htl Hk. apply (rdc_act c t _ k l Q (fun _ => setCh (snd l) (xc_init (snd l)) (Some (b, n, true)) (xc_pop (snd l)) (xc_freed (snd l)))).
    intros g a tr Hi Hv Hb Ha. assert (Ex : snd l = ac_x a t) by (rewrite <- Hv; reflexivity). cbn [a_st_ext_g fst snd] in *.
    assert (Hgt : gtl (ac_g a) t = Some r) by (transitivity (w_tl (fst (viewC3 a t))); [reflexivity|now rewrite Hv]).
    assert (E2 : forall st, gstep (gstep st (t, EvAcc KSt (obj_rec r 3) true)) (t, ev_link r b) =
                 mkGS (Datatypes.S (Datatypes.S (glen st))) (gop st) (gtl st) (gmp st) (fnu (gpv st) t None) (gsl st) (gac st)).
    { intros st. unfold gstep at 2. cbn [fst snd]. unfold gstep. cbn [fst snd]. rewrite gcls_link. reflexivity. }
    set (g' := upd_rec g r (rs_ext (Some b))).
    assert (PX : piX g g') by (apply piX_upd_rec_keep; intros; cbn; auto).
    split.
    - apply (InvC3_evnode c g g' a tr t _ _ Hi Hb Ha (proj1 PX));
        [constructor; [apply nodisc_acc|constructor; [unfold nodisc; now rewrite gcls_link|constructor]]|rewrite Ex; reflexivity|rewrite Ex; reflexivity|rewrite Ex; reflexivity|].
      intros a1 a1' HG Hf [J0 JC0] J1 HK HT HL J1' T' HK' HT' HL'. destruct Hi as (Eg & _). rewrite Eg in Hgt.
      unfold acc. cbn [app Conc.tag map]. change (tr ++ [(t, EvAcc KSt (obj_rec r 3) true); (t, ev_link r b)])
        with (tr ++ [(t, EvAcc KSt (obj_rec r 3) true)] ++ [(t, ev_link r b)]).
      rewrite app_assoc, !gfold_snoc, !hist_snoc, E2, hstep_acc, hstep_link. cbn [hlen att linked].
      eapply (JCh_link c g g' (gfold tr) _ _ _ (hist tr) _ t b n r _ JC0 (proj2 PX)).
      + now rewrite <- Ex.
      + exact Hgt.
      + cbn. unfold fupd. rewrite Nat.eqb_refl. now left.
      + intros u. cbn. auto.
      + intros u N. cbn. now apply fnu_other.
      + intros u [r0 i|b0 i]; cbn; [auto|]. intros ((r0 & k0 & kb & A & A2) & B). split; [|exact B]. exists r0, k0, kb. split; [exact A|].
        unfold fupd. destruct (Nat.eqb_spec r0 r) as [E0|N0]; [subst r0; now right|exact A2].
      + intros r' x0 Hx0. cbn. unfold fupd. destruct (Nat.eqb_spec r' r) as [->|N]; [now right|exact Hx0].
      + apply fnu_other_eq.
      + rewrite fnu_same. cbn. now rewrite Ex.
      + rewrite fnu_same. reflexivity.
      + rewrite fnu_same. cbn. now rewrite Ex.
      + rewrite fnu_same. cbn. now rewrite Ex.
    - apply Hk; unfold viewC3, setc; cbn [fst snd ac_g ac_x]; unfold acc; cbn [app Conc.tag map fold_left]; rewrite ?E2, ?fnu_same; cbn; rewrite ?fnu_same; try reflexivity;
        rewrite <- Hv; reflexivity.
  Qed.

  (** free_head_ = block->first() *)
  Lemma rM_fhead {R} t r b (k : unit -> @dprog G ev R) l Q : xc_pb (snd l) = Some (b, c_GB c, true) -> xc_pop (snd l) = None -> w_tl (fst l) = Some r ->
    (forall l', fst l' = fst l -> snd l' = setCh (snd l) (xc_init (snd l)) None (xc_pop (snd l)) (xc_freed (snd l)) -> rdc t (k tt) l' Q) ->
    rdc t (DLoc (fun g => (upd_rec g r (rs_fhead (Some (GE b 0))), tt)) k) l Q.
  Proof.
    intros Hpb Hpop Htl Hk. apply (rdc_loc c t _ k l Q (fun _ => setCh (snd l) (xc_init (snd l)) None (xc_pop (snd l)) (xc_freed (snd l)))).
    intros g a tr Hi Hv Hb _. assert (Ex : snd l = ac_x a t) by (rewrite <- Hv; reflexivity). cbn [fst snd].
    assert (Hgt : gtl (ac_g a) t = Some r) by (transitivity (w_tl (fst (viewC3 a t))); [reflexivity|now rewrite Hv]). split.
    - apply (InvC3_chloc c g); auto; try (rewrite Ex; reflexivity); [apply piR_keep; intros; cbn; auto|]. intros a1 HG [J0 JC0] J1 T HK HT HL.
      destruct Hi as (Eg & _). rewrite Eg in Hgt. destruct (k_at _ _ _ HK _ _ Hgt) as (k0 & Hat). destruct (rec_of_att _ _ _ _ _ _ _ J1 Hat) as (Htid & Hr).
      assert (Hp : xc_pb (ac_x a t) = Some (b, c_GB c, true)) by (now rewrite <- Ex). destruct (jc_pb _ _ _ _ _ JC0 t b _ true Hp) as (_ & _ & _ & _ & (r' & kb & G1 & G2)).
      assert (r' = r) by congruence. subst r'.
      eapply (JCh_fhead_blk c g _ _ _ _ t r b JC0 HG Hgt Hp); try (rewrite <- Ex; assumption); auto.
      + intros i Li. cbn. split; [exists r, k0, kb; auto|exact Li].
      + now apply (others_not_r c _ _ t r HK).
      + apply fnu_other_eq.
      + rewrite fnu_same. cbn. now rewrite Ex.
      + rewrite fnu_same. reflexivity.
      + rewrite fnu_same. cbn. now rewrite Ex.
      + rewrite fnu_same. cbn. now rewrite Ex.
    - apply Hk; [rewrite <- Hv; reflexivity|reflexivity].
  Qed.

  (** alloc(): the pop *)
  Lemma rM_pop {R} t r j (k : option gref -> @dprog G ev R) l Q : w_tl (fst l) = Some r -> w_op (fst l) = [3%Z; zn j] ->
    (forall l', fst l' = fst l -> snd l' = snd l -> rdc t (k None) l' Q) ->
    (forall s l', fst l' = fst l -> snd l' = setCh (snd l) (xc_init (snd l)) (xc_pb (snd l)) (Some s) (xc_freed (snd l)) -> rdc t (k (Some s)) l' Q) ->
    rdc t (DLoc (fun g => match r_fhead (grec g r) with
                          | Some s => (upd_rec g r (rs_fhead (snext_get g s)), Some s)
                          | None => (g, None)
                          end) k) l Q.
  Proof.
    intros Htl Hop Hk0 Hk1.
    apply (rdc_loc c t _ k l Q (fun g => match r_fhead (grec g r) with
                                         | Some s => setCh (snd l) (xc_init (snd l)) (xc_pb (snd l)) (Some s) (xc_freed (snd l))
                                         | None => snd l end)).
    intros g a tr Hi Hv Hb _. assert (Ex : snd l = ac_x a t) by (rewrite <- Hv; reflexivity).
    assert (Hgt : gtl (ac_g a) t = Some r) by (transitivity (w_tl (fst (viewC3 a t))); [reflexivity|now rewrite Hv]).
    assert (Hgo : gop (ac_g a) t = [3%Z; zn j]) by (transitivity (w_op (fst (viewC3 a t))); [reflexivity|now rewrite Hv]).
    destruct (r_fhead (grec g r)) as [s|] eqn:Ef; cbn [fst snd].
    - split.
      + apply (InvC3_chloc c g); auto; try (rewrite Ex; reflexivity); [apply piR_keep; intros; cbn; auto|]. intros a1 HG [J0 JC0] J1 T HK HT HL.
        destruct Hi as (Eg & _). rewrite Eg in Hgt, Hgo. destruct (k_at _ _ _ HK _ _ Hgt) as (k0 & Hat). destruct (rec_of_att _ _ _ _ _ _ _ J1 Hat) as (Htid & Hr).
        eapply (JCh_pop c g _ _ _ _ t r s j JC0 Hgt Ef Hgo Htid Hr (others_not_r c _ _ t r HK Hgt)).
        * apply fnu_other_eq.
        * rewrite fnu_same. cbn. now rewrite Ex.
        * rewrite fnu_same. cbn. now rewrite Ex.
        * rewrite fnu_same. reflexivity.
        * rewrite fnu_same. cbn. now rewrite Ex.
      + apply Hk1; [rewrite <- Hv; reflexivity|reflexivity].
    - split.
      + apply (InvC3_chloc c g); auto; try (rewrite Ex; reflexivity); [apply piR_refl|]. intros a1 HG [J0 JC0] J1 T HK HT HL.
        apply JCh_setx; [rewrite Ex; unfold sameCh; auto|exact JC0].
      + apply Hk0; [rewrite <- Hv; reflexivity|reflexivity].
  Qed.

  (** free( g ): the push *)
  Lemma rM_push {R} t r j s (k : unit -> @dprog G ev R) l Q : w_tl (fst l) = Some r -> w_op (fst l) = [4%Z; zn j] -> gfind (w_mp (fst l)) j = Some s ->
    xc_freed (snd l) = false -> xc_pop (snd l) = None ->
    (forall l', fst l' = fst l -> snd l' = setCh (snd l) (xc_init (snd l)) (xc_pb (snd l)) (xc_pop (snd l)) true -> rdc t (k tt) l' Q) ->
    rdc t (DLoc (fun g => (upd_rec (snext_set g s (r_fhead (grec g r))) r (rs_fhead (Some s)), tt)) k) l Q.
  Proof.
    intros Htl Hop Hg Hfr Hpop Hk. apply (rdc_loc c t _ k l Q (fun _ => setCh (snd l) (xc_init (snd l)) (xc_pb (snd l)) (xc_pop (snd l)) true)).
    intros g a tr Hi Hv Hb _. assert (Ex : snd l = ac_x a t) by (rewrite <- Hv; reflexivity). cbn [fst snd].
    assert (Hgt : gtl (ac_g a) t = Some r) by (transitivity (w_tl (fst (viewC3 a t))); [reflexivity|now rewrite Hv]).
    assert (Hgo : gop (ac_g a) t = [4%Z; zn j]) by (transitivity (w_op (fst (viewC3 a t))); [reflexivity|now rewrite Hv]).
    assert (Hgm : gfind (gmp (ac_g a) t) j = Some s) by (replace (gmp (ac_g a) t) with (w_mp (fst l)); [exact Hg|rewrite <- Hv; reflexivity]).
    split.
    - apply (InvC3_chloc c g); auto; try (rewrite Ex; reflexivity); [eapply piR_trans; [apply piR_snext_set|apply piR_keep; intros; cbn; auto]|].
      intros a1 HG [J0 JC0] J1 T HK HT HL. destruct Hi as (Eg & _). rewrite Eg in Hgt, Hgo, Hgm.
      destruct (k_at _ _ _ HK _ _ Hgt) as (k0 & Hat). destruct (rec_of_att _ _ _ _ _ _ _ J1 Hat) as (Htid & Hr).
      pose proof (k_cd _ _ _ HK t j s Hgm) as Hos.
      assert (Hsv : snv g s).
      { destruct s as [r0 i0|b0 i0]; cbn in Hos |- *.
        - destruct Hos as ((k1 & A1) & Li). destruct (rec_of_att _ _ _ _ _ _ _ J1 A1) as (_ & Lr). split; [exact Lr|]. rewrite (jc_lr _ _ _ _ _ JC0 r0 Lr). exact Li.
        - pose proof (ownc_latt _ _ _ _ _ Hos) as Hl. destruct (JA_latt_len _ _ _ _ _ J1 Hl) as (Lb & _). destruct Hos as (_ & Li). split; [exact Lb|].
          rewrite (jc_lb _ _ _ _ _ JC0 b0 Lb). exact Li. }
      eapply (JCh_push c g _ _ _ _ t r s j JC0 Hgt Hgo Hgm); try (rewrite <- Ex; assumption); auto.
      + intros r0 i0 ->. cbn in Hos. destruct Hos as ((k1 & A1) & _). pose proof (k_ta _ _ _ HK _ _ _ A1) as E. congruence.
      + intros u j' Hg'. exact (k_inj _ _ _ HK _ _ _ _ _ Hg' Hgm).
      + intros u N Hu. apply N. exact (ownc_excl c g a1 _ u t s J1 Hu Hos).
      + now apply (others_not_r c _ _ t r HK).
      + apply fnu_other_eq.
      + rewrite fnu_same. cbn. now rewrite Ex.
      + rewrite fnu_same. cbn. now rewrite Ex.
      + rewrite fnu_same. cbn. now rewrite Ex.
      + rewrite fnu_same. reflexivity.
    - apply Hk; [rewrite <- Hv; reflexivity|reflexivity].
  Qed.
End Blk.
