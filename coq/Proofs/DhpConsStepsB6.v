(** DhpConsStepsB6: copy of LV.Proofs.DhpStepsB6 over the two-directional pointer invariant of LV.Proofs.DhpConsInv (conservation);
    the text differs from the original where the JW part of a goal is proved. *)
(** * DhpStepsB6: steps of the C03 invariant that move pointers: retire announcement, push, scan stage 2, dispose. *)
From Coq Require Import ZArith NArith List String Bool Lia PeanoNat.
From LV Require Import Base.Conc Base.Events Model.DhpLang Model.Dhp Proofs.DhpBase Proofs.DhpSeq Proofs.DhpSeqThm Proofs.DhpHist
  Proofs.DhpLangProofs Proofs.DhpAllocA Proofs.DhpInvB Proofs.DhpConsInv Proofs.DhpConsQuietB Proofs.DhpConsQuietB2 Proofs.DhpConsRulesB Proofs.DhpConsStepsB1 Proofs.DhpConsStepsB3
  Proofs.DhpConsStepsB4.
Import ListNotations.

Lemma memb_In q l : memb q l = true <-> In q l.
Proof.
  unfold memb. rewrite existsb_exists. split.
  - intros (x & H1 & H2). apply Nat.eqb_eq in H2. now subst.
  - intros H. exists q. split; auto. apply Nat.eqb_refl.
Qed.
Lemma memb_nIn q l : memb q l = false <-> ~ In q l.
Proof. rewrite <- memb_In. destruct (memb q l); split; intros; congruence. Qed.

Lemma NoDup_app_intro (l1 l2 : list nat) : NoDup l1 -> NoDup l2 -> (forall x, In x l1 -> ~ In x l2) -> NoDup (l1 ++ l2).
Proof.
  induction l1 as [|x l1 IH]; intros H1 H2 H; cbn; auto. inversion H1; subst. constructor.
  - intros K. apply in_app_or in K. destruct K as [K|K]; [contradiction|]. apply (H x); auto. now left.
  - apply IH; auto. intros y Hy. apply H. now right.
Qed.
Lemma NoDup_app_snoc_nat (l : list nat) p : NoDup l -> ~ In p l -> NoDup (l ++ [p]).
Proof. intros H1 H2. apply NoDup_app_intro; auto; [constructor; [intros []|constructor]|]. intros x Hx [<-|[]]. contradiction. Qed.

Definition ev_op9 (p : nat) : ev := EvCli "op" (zl [9; p]).
Lemma classify_op args : classify (EvCli "op" args) = HOther. Proof. reflexivity. Qed.
Lemma retired_ev_op9 p : retired_ev (ev_op9 p) = [p].
Proof. unfold ev_op9, zl, zn. cbn. now rewrite Nat2Z.id. Qed.

Lemma freeh_dispose t l : forall h, freeh (fold_left hstep (Conc.tag t (map ev_dispose l)) h) = freeh h.
Proof. induction l as [|p l IH]; intros h; cbn; auto. rewrite IH. now rewrite hstep_dispose. Qed.
Lemma disposed_tr_dispose t l : disposed_tr (Conc.tag t (map ev_dispose l)) = l.
Proof.
  induction l as [|p l IH]; [reflexivity|].
  change (disposed_tr (Conc.tag t (map ev_dispose (p :: l)))) with (disposed_ev (ev_dispose p) ++ disposed_tr (Conc.tag t (map ev_dispose l))).
  rewrite IH. unfold disposed_ev. rewrite classify_dispose. reflexivity.
Qed.
Lemma retired_tr_dispose t l : retired_tr (Conc.tag t (map ev_dispose l)) = [].
Proof. induction l as [|p l IH]; cbn; auto. Qed.

Section StepsB6.
  Variable c : cfg.
  Notation RB := (c_RB c).
  Hypothesis HRB : 4 <= RB.
  Let HRB1 : 1 <= RB. Proof. lia. Qed.

  Ltac vwt t := let t' := fresh "t'" in intros t'; cbn; unfold fn; destruct (Nat.eqb_spec t' t) as [->|]; cbn; auto.

  (** an event the history does not look at *)
  Lemma JB_ev_other3 g a tr t e : classify e = HOther -> JB c g a tr ->
    JO g a /\ JK c g a (freeh (hist (tr ++ Conc.tag t [e])) FRt) /\ JR c g a.
  Proof.
    intros E [O1 K1 R1 W1]. split; auto. split; auto.
    change (Conc.tag t [e]) with [(t, e)]. rewrite hist_snoc, hstep_other by exact E. exact K1.
  Qed.
  Lemma JB_ev_other g a tr t e : classify e = HOther -> retired_ev e = [] -> JB c g a tr -> JB c g a (tr ++ Conc.tag t [e]).
  Proof.
    intros E E' J. destruct (JB_ev_other3 g a tr t e E J) as (O1 & K1 & R1). destruct J as [_ _ _ W1]. constructor; auto.
    apply JW_ev; auto; [unfold disposed_ev; now rewrite E|now rewrite E].
  Qed.

  (** retire( p ) is announced *)
  Definition aux_pend (a : AuxB) (t p : nat) : AuxB :=
    mkAuxB (fn (bvs a) t (set_pend (bvs a t) (Some p))) (rbown a) (fn (wh a) p (LFly t)) (rch a) (rw a) (moved a) (dead a) (tl a).

  Lemma S_retire_ev g a tr t p :
    vb_own (bvs a t) <> [] -> vb_pend (bvs a t) = None -> vb_s0 (bvs a t) = None ->
    NoDup (retired_tr (tr ++ Conc.tag t [ev_op9 p])) -> JB c g a tr -> JB c g (aux_pend a t p) (tr ++ Conc.tag t [ev_op9 p]).
  Proof.
    intros Hown Hpn Hs0 Hnd J. destruct (JB_ev_other3 g a tr t (ev_op9 p) (classify_op _) J) as (O1 & K1 & R1).
    destruct J as [_ _ _ [W1 W2 W3 W4 W5 W6 W7 W8 W9]]. pose proof W5 as V5.
    assert (Ert : retired_tr (tr ++ Conc.tag t [ev_op9 p]) = retired_tr tr ++ [p]).
    { rewrite retired_tr_app. change (retired_tr (Conc.tag t [ev_op9 p])) with (retired_ev (ev_op9 p) ++ []). now rewrite retired_ev_op9. }
    assert (Eds : disposed_tr (tr ++ Conc.tag t [ev_op9 p]) = disposed_tr tr).
    { rewrite disposed_tr_app. change (disposed_tr (Conc.tag t [ev_op9 p])) with (disposed_ev (ev_op9 p) ++ []). unfold disposed_ev, ev_op9. rewrite classify_op. now rewrite app_nil_r. }
    rewrite Ert in Hnd. assert (Hp : ~ In p (retired_tr tr)) by (apply NoDup_remove_2 in Hnd; now rewrite app_nil_r in Hnd).
    assert (Hno : wh a p = LNo). { destruct (wh a p) eqn:E; auto; exfalso; apply Hp; apply V5; congruence. }
    constructor.
    - eapply JO_frame with (g := g) (a := a); eauto. vwt t.
    - eapply JK_frame with (g := g) (a := a); eauto. vwt t.
    - eapply JR_frame with (g := g) (a := a); eauto; vwt t.
    - rewrite Eds. constructor; cbn [aux_pend bvs wh].
      + intros r Hr. change (ec g (aux_pend a t p) r) with (ec g a r). split; [apply W1; auto|]. intros q Hq.
        assert (N : q <> p) by (intros ->; rewrite (proj2 (W1 r Hr) p Hq) in Hno; discriminate). rewrite fn_other by exact N. now apply W1.
      + intros t' q. unfold fn at 1 3. destruct (Nat.eqb_spec t' t) as [->|Nt]; cbn.
        * intros E. inversion E; subst q. rewrite fn_same. split; auto. intros H. rewrite (proj2 (W3 t) p H) in Hno. discriminate.
        * intros E. destruct (W2 t' q E) as (Y1 & Y2). assert (N : q <> p) by (intros ->; congruence). rewrite fn_other by exact N. auto.
      + intros t'. assert (E : vb_freed (fn (bvs a) t (set_pend (bvs a t) (Some p)) t') = vb_freed (bvs a t')) by (unfold fn; destruct (Nat.eqb_spec t' t) as [->|]; auto).
        rewrite E. split; [apply W3|]. intros q Hq. assert (N : q <> p) by (intros ->; rewrite (proj2 (W3 t') p Hq) in Hno; discriminate).
        rewrite fn_other by exact N. now apply W3.
      + split; [apply W4|]. intros q Hq. assert (N : q <> p) by (intros ->; rewrite (proj2 W4 p Hq) in Hno; discriminate). rewrite fn_other by exact N. now apply W4.
      + intros q. destruct (Nat.eq_dec q p) as [->|N]; [intros _; rewrite Ert; apply in_or_app; right; now left|]. rewrite fn_other by exact N.
        intros H. rewrite Ert. apply in_or_app. left. now apply W5.
      + intros t' r. cbn [aux_pend bvs moved rw]. intros Hm Hc. apply (W6 t' r).
        * revert Hm. unfold fn. destruct (Nat.eqb_spec t' t) as [->|]; cbn; auto.
        * revert Hc. unfold fn. destruct (Nat.eqb_spec t' t) as [->|]; cbn; auto.
      + intros Hoob. destruct (W7 Hoob) as [C1 C2 C3 C4 C5 C6 C7]. constructor; cbn [aux_pend bvs wh tl rch].
        * intros q Hq. destruct (Nat.eq_dec q p) as [->|N]; [rewrite fn_same; discriminate|]. rewrite fn_other by exact N. apply C1.
          rewrite Ert in Hq. apply in_app_or in Hq. destruct Hq as [Hq|[Hq|[]]]; [exact Hq|congruence].
        * intros q r. destruct (Nat.eq_dec q p) as [->|N]; [rewrite fn_same; discriminate|]. rewrite fn_other by exact N.
          change (ec g (aux_pend a t p) r) with (ec g a r). apply C2.
        * intros q t'. destruct (Nat.eq_dec q p) as [->|N].
          -- rewrite fn_same. intros E. inversion E; subst t'. rewrite fn_same. cbn. split; auto.
          -- rewrite fn_other by exact N. intros H. destruct (C3 q t' H) as (X1 & X2). unfold fn. destruct (Nat.eqb_spec t' t) as [->|]; cbn; auto.
             split; auto. destruct X1 as [X1|X1]; [congruence|now right].
        * intros q. destruct (Nat.eq_dec q p) as [->|N]; [rewrite fn_same; discriminate|]. rewrite fn_other by exact N. apply C4.
        * intros r Hr. destruct (C5 r Hr) as [X|(t' & nx & X)]; [now left|right; exists t', nx].
          unfold fn. destruct (Nat.eqb_spec t' t) as [->|]; cbn; auto.
        * intros t' r nx H. apply (C6 t' r nx). revert H. unfold fn. destruct (Nat.eqb_spec t' t) as [->|]; cbn; auto.
        * intros t' r H. assert (H' : vb_arr (bvs a t') = Some r) by (revert H; unfold fn; destruct (Nat.eqb_spec t' t) as [->|]; cbn; auto).
          destruct (C7 t' r H') as (X1 & X2). split; [unfold fn; destruct (Nat.eqb_spec t' t) as [->|]; cbn; auto|exact X2].
      + exact W8.
      + destruct W9 as [H1 H2 H3]. change (Conc.tag t [ev_op9 p]) with [(t, ev_op9 p)].
        assert (Ecl : classify (ev_op9 p) = HOther) by apply classify_op.
        constructor; cbn [aux_pend bvs wh].
        * intros t' r E. assert (E' : vb_mine (bvs a t') = Some r) by (revert E; unfold fn; destruct (Nat.eqb_spec t' t) as [->|]; cbn; auto).
          destruct (H1 t' r E') as (X1 & X2 & X3). split; [unfold fn; destruct (Nat.eqb_spec t' t) as [->|]; cbn; auto|].
          destruct (Nat.eq_dec t' t) as [->|Nt].
          -- rewrite DhpConsSTrace.latt_snoc, DhpConsSTrace.mine_snoc, Ecl, retired_ev_op9. split; auto. intros q [<-|Hq]; [rewrite fn_same; auto|].
             destruct (Nat.eq_dec q p) as [->|Nq]; [rewrite fn_same; auto|rewrite fn_other by exact Nq; auto].
          -- rewrite DhpConsSTrace.latt_snoc_other, DhpConsSTrace.mine_snoc_other by auto. split; auto. intros q Hq.
             assert (Nq : q <> p) by (intros ->; destruct (X3 p Hq) as [Y|[Y|Y]]; congruence). rewrite fn_other by exact Nq. auto.
        * intros t' r. destruct (Nat.eq_dec t' t) as [->|Nt]; [rewrite DhpConsSTrace.lsb_snoc, Ecl; discriminate|].
          rewrite DhpConsSTrace.lsb_snoc_other, fn_other by auto. apply H2.
        * intros t' r. destruct (Nat.eq_dec t' t) as [->|Nt]; [rewrite fn_same; cbn; rewrite Hs0; discriminate|]. rewrite fn_other by auto. apply H3.
  Qed.

  (** ** a record without retired array: its cursor may be reset freely *)
  Lemma JB_cur_none g a tr t r cc :
    In r (vb_own (bvs a t)) -> rch a r = [] -> vb_dead (bvs a t) <> Some r -> (forall ob, vb_move (bvs a t) <> Some (r, ob)) ->
    JB c g a tr -> JB c (upd_rec g r (rs_cur None cc)) a tr.
  Proof.
    intros Hr He Hd Hnm J. destruct (JB_rec1 c g a tr t r J Hr Hd He) as (Hh & Hc & _ & _).
    destruct J as [O1 K1 R0 W1]. pose proof R0 as [R1 R2 R3 R4 R5 R6]. pose proof O1 as [_ _ _ _ O5]. destruct (O5 t r Hr) as (Hlt & _).
    set (g' := upd_rec g r (rs_cur None cc)).
    assert (El : List.length (recs g') = List.length (recs g)) by (unfold g', upd_rec; cbn; apply upd_nth_length).
    assert (Eo : forall r', r' <> r -> grec g' r' = grec g r') by (intros r' N; unfold g'; rewrite grec_upd_rec_other; auto).
    assert (Es : grec g' r = rs_cur None cc (grec g r)) by (unfold g'; now rewrite grec_upd_rec_same).
    assert (Hexcl : forall t' r0 ob, vb_move (bvs a t') = Some (r0, ob) -> r0 <> r).
    { intros t' r0 ob H ->. destruct (R3 t' r ob H) as (Z & _). assert (t = t') by (eapply JO_excl; eauto). subst t'. eapply Hnm; eauto. }
    constructor.
    - apply JO_frame with (g := g) (a := a); auto.
      intros r'. destruct (Nat.eq_dec r' r) as [->|N]; [rewrite Es; destruct (grec g r); cbn; auto|rewrite Eo by exact N; auto].
    - apply JK_frame with (g := g) (a := a); auto.
    - constructor; auto.
      + intros r' Hr'. rewrite El in Hr'. destruct (Nat.eq_dec r' r) as [->|N].
        * left. destruct (R1 r Hr') as [(Y1 & Y2 & Y3 & Y4)|(_ & Y & _)]; [|destruct Y as [_ _ _ Ine _ _ _]; contradiction].
          repeat split; auto. right. rewrite Es. unfold rs_cur. destruct (grec g r); cbn in *. auto.
        * rewrite Eo by exact N. destruct (R1 r' Hr') as [K|(Q0 & Q2 & Q3 & Q4 & Q5)]; [left; exact K|right].
          split; [exact Q0|]. split; [|split; [exact Q3|split; [exact Q4|exact Q5]]].
          apply Rinv_frame with (g := g); auto; try lia. rewrite Eo by exact N. auto.
      + intros t' b i n Hc'. destruct (R4 t' b i n Hc') as (r0 & ob & j & Y0 & Y). exists r0, ob, j. split; auto.
        rewrite Eo; auto. eapply Hexcl; eauto.
    - apply JW_frame with (g := g) (a := a) (rt := retired_tr tr) (tr := tr); auto.
  Qed.

  (** ** push( p ) of the announced pointer *)
  Definition aux_push (a : AuxB) (t r p : nat) (ok : bool) : AuxB :=
    aux_arr a t r (set_full (set_pend (bvs a t) None) (if ok then None else Some r))
            (match rch a r with [] => wh a | _ => fn (wh a) p (LRec r) end)
            (match rch a r with [] => rw a r | _ => S (rw a r) end).

  Lemma S_push g a tr t r p :
    In r (vb_own (bvs a t)) -> vb_pend (bvs a t) = Some p -> vb_dead (bvs a t) <> Some r ->
    (forall ob, vb_move (bvs a t) <> Some (r, ob)) -> vb_full (bvs a t) = None -> vb_arr (bvs a t) = Some r ->
    (forall r', vb_mine (bvs a t) = Some r' -> r' = r) ->
    JB c g a tr -> JB c (fst (rt_push c r p g)) (aux_push a t r p (snd (rt_push c r p g))) tr.
  Proof.
    intros Hr Hp Hd Hnm Hfu Har Hmi J. unfold aux_push.
    assert (Hcase : rch a r = [] \/ rch a r <> []) by (destruct (rch a r); [left|right]; congruence).
    destruct Hcase as [Ech|Hne].
    - (* no array: excluded by the thread-local knowledge vb_arr = Some r *)
      exfalso. destruct J as [_ _ _ [_ _ _ _ _ _ W7 W8]]. destruct (W7 W8) as [_ _ _ _ _ _ C7]. destruct (C7 t r Har) as (_ & X). contradiction.
    - (* the array takes the pointer *)
      assert (Ewh : (match rch a r with [] => wh a | _ => fn (wh a) p (LRec r) end) = fn (wh a) p (LRec r)) by (destruct (rch a r); congruence).
      assert (Ew : (match rch a r with [] => rw a r | _ => S (rw a r) end) = S (rw a r)) by (destruct (rch a r); congruence).
      rewrite Ewh, Ew. clear Ewh Ew.
      destruct (JB_rec2 c g a tr t r J Hr Hne) as (Hlt & Hal & I & Hrb & Hmw & Hroom).
      assert (Hw : rw a r < List.length (rch a r) * RB) by (apply Hroom; congruence).
      pose proof (JB_unmoved c g a tr t r J Hr Hnm) as Hmv.
      destruct (push_spec c g r (rch a r) (rw a r) p I Hw) as (I' & Efl & Eok & Eoob & F).
      remember (fst (rt_push c r p g)) as g' eqn:Eg'. remember (snd (rt_push c r p g)) as ok eqn:Eo.
      set (v' := set_full (set_pend (bvs a t) None) (if ok then None else Some r)).
      assert (Hw' : S (rw a r) < List.length (rch a r) * RB \/ vb_full v' = Some r).
      { unfold v'. rewrite Eok. destruct (Nat.eqb_spec (S (rw a r)) (List.length (rch a r) * RB)); cbn; [right; reflexivity|left; lia]. }
      assert (Hfu' : forall r0, vb_full v' = Some r0 -> r0 = r) by (unfold v'; destruct ok; cbn; congruence).
      destruct (arr_op c HRB1 g g' a tr t r v' (fn (wh a) p (LRec r)) (S (rw a r)) J Hr Hne Hmv Hnm (or_introl Hfu) F I' Hw' Hfu'
                  eq_refl eq_refl eq_refl eq_refl eq_refl eq_refl eq_refl eq_refl) as (JO' & JK' & JR' & Eec).
      destruct J as [O1 K1 R1 [W1 W2 W3 W4 W5 W6 W7 W8 W9]]. destruct (W2 t p Hp) as (Hwp & Hnfr).
      constructor; auto.
      assert (El : List.length (recs g') = List.length (recs g)) by (destruct F as (X & _); exact X).
      assert (Elen : List.length (flat g (rch a r)) = List.length (rch a r) * RB) by (destruct I as [_ Ich _ _ _ _ _]; eapply flat_length; eauto).
      assert (Ecr : ec g' (aux_arr a t r v' (fn (wh a) p (LRec r)) (S (rw a r))) r = ec g a r ++ [p]).
      { unfold ec, content. cbn [aux_arr moved rch rw]. rewrite fn_same, Hmv. cbn [skipn]. rewrite Efl. apply firstn_S_upd_nth. lia. }
      constructor; cbn [aux_arr bvs wh].
      + intros r' Hr'. rewrite El in Hr'. destruct (Nat.eq_dec r' r) as [->|N].
        * rewrite Ecr. split.
          -- apply NoDup_app_snoc_nat; [apply W1; auto|]. intros H. rewrite (proj2 (W1 r Hr') p H) in Hwp. discriminate.
          -- intros q Hq. apply in_app_or in Hq. destruct Hq as [Hq|[<-|[]]]; [|now rewrite fn_same].
             assert (N : q <> p) by (intros ->; rewrite (proj2 (W1 r Hr') p Hq) in Hwp; discriminate). rewrite fn_other by exact N. now apply W1.
        * rewrite Eec by auto. split; [apply W1; auto|]. intros q Hq.
          assert (Nq : q <> p) by (intros ->; rewrite (proj2 (W1 r' Hr') p Hq) in Hwp; discriminate). rewrite fn_other by exact Nq. now apply W1.
      + intros t' q. unfold fn at 1 3. destruct (Nat.eqb_spec t' t) as [->|Nt]; cbn; [discriminate|].
        intros E. destruct (W2 t' q E) as (Y1 & Y2). assert (N : q <> p) by (intros ->; congruence). rewrite fn_other by exact N. auto.
      + intros t'. assert (E : vb_freed (fn (bvs a) t v' t') = vb_freed (bvs a t')) by (unfold fn; destruct (Nat.eqb_spec t' t) as [->|]; auto).
        rewrite E. split; [apply W3|]. intros q Hq.
        assert (N : q <> p). { intros ->. pose proof (proj2 (W3 t') p Hq) as Y. rewrite Hwp in Y. inversion Y; subst t'. contradiction. }
        rewrite fn_other by exact N. now apply W3.
      + split; [apply W4|]. intros q Hq. assert (N : q <> p) by (intros ->; rewrite (proj2 W4 p Hq) in Hwp; discriminate). rewrite fn_other by exact N. now apply W4.
      + intros q. destruct (Nat.eq_dec q p) as [->|N]; [intros _; apply W5; congruence|]. rewrite fn_other by exact N. apply W5.
      + intros t' r'. cbn [aux_arr bvs moved rw]. intros Hm Hc'.
        assert (Hm' : vb_move (bvs a t') = Some (r', None)) by (revert Hm; unfold fn; destruct (Nat.eqb_spec t' t) as [->|]; cbn; auto).
        assert (Hc'' : vb_cur (bvs a t') = None) by (revert Hc'; unfold fn; destruct (Nat.eqb_spec t' t) as [->|]; cbn; auto).
        assert (N : r' <> r).
        { intros ->. pose proof R1 as [_ _ R3 _ _ _]. destruct (R3 t' r None Hm') as (Z & _).
          assert (t = t') by (eapply (JO_excl g a t t' r); eauto). subst t'. eapply Hnm; eauto. }
        rewrite fn_other by exact N. apply (W6 t' r'); auto.
      + rewrite Eoob. intros Hoob. destruct (W7 Hoob) as [C1 C2 C3 C4 C5 C6 C7]. constructor; cbn [aux_arr bvs wh tl rch].
        * intros q Hq. destruct (Nat.eq_dec q p) as [->|N]; [rewrite fn_same; discriminate|]. rewrite fn_other by exact N. now apply C1.
        * intros q r'. rewrite El. destruct (Nat.eq_dec q p) as [->|N].
          -- rewrite fn_same. intros E. inversion E; subst r'. split; [destruct O1 as [_ _ _ _ O5]; apply (O5 t r Hr)|]. rewrite Ecr. apply in_or_app. right. now left.
          -- rewrite fn_other by exact N. intros H. destruct (C2 q r' H) as (X1 & X2). split; auto.
             destruct (Nat.eq_dec r' r) as [->|Nr]; [rewrite Ecr; apply in_or_app; now left|rewrite Eec by auto; exact X2].
        * intros q t'. destruct (Nat.eq_dec q p) as [->|N]; [rewrite fn_same; discriminate|]. rewrite fn_other by exact N.
          intros H. destruct (C3 q t' H) as (X1 & X2). unfold fn. destruct (Nat.eqb_spec t' t) as [->|]; cbn; auto.
          split; auto. destruct X1 as [X1|X1]; [congruence|now right].
        * intros q. destruct (Nat.eq_dec q p) as [->|N]; [rewrite fn_same; discriminate|]. rewrite fn_other by exact N. apply C4.
        * intros r' Hr'. rewrite El in Hr'. destruct (C5 r' Hr') as [X|(t' & nx & X)]; [now left|right; exists t', nx].
          unfold fn. destruct (Nat.eqb_spec t' t) as [->|]; cbn; auto.
        * intros t' r' nx H. apply (C6 t' r' nx). revert H. unfold fn. destruct (Nat.eqb_spec t' t) as [->|]; cbn; auto.
        * intros t' r' H. assert (H' : vb_arr (bvs a t') = Some r') by (revert H; unfold fn; destruct (Nat.eqb_spec t' t) as [->|]; cbn; auto).
          destruct (C7 t' r' H') as (X1 & X2). split; [unfold fn; destruct (Nat.eqb_spec t' t) as [->|]; cbn; auto|exact X2].
      + rewrite Eoob. exact W8.
      + destruct W9 as [H1 H2 H3]. constructor; cbn [aux_arr bvs wh].
        * intros t' r' E. assert (E' : vb_mine (bvs a t') = Some r') by (revert E; unfold fn, v'; destruct (Nat.eqb_spec t' t) as [->|]; cbn; auto).
          destruct (H1 t' r' E') as (X1 & X2 & X3). split; [unfold fn, v'; destruct (Nat.eqb_spec t' t) as [->|]; cbn; auto|]. split; auto.
          intros q Hq. destruct (Nat.eq_dec q p) as [->|Nq]; [|rewrite fn_other by exact Nq; auto].
          rewrite fn_same. destruct (X3 p Hq) as [Y|[Y|Y]]; try congruence. rewrite Hwp in Y. inversion Y; subst t'. left. f_equal. symmetry. apply Hmi. exact E'.
        * intros t' r' E. specialize (H2 t' r' E). revert H2. unfold fn, v'. destruct (Nat.eqb_spec t' t) as [->|]; cbn; auto.
        * intros t' r'. unfold fn, v'. destruct (Nat.eqb_spec t' t) as [->|]; cbn; [|apply H3]. intros E. destruct (H3 t r' E) as (Y1 & Y2 & Y3). auto.
  Qed.
End StepsB6.
