(** * DhpAllocA: hp_allocator::alloc / free as seen by the C02 invariant: the "_alloc", "_new", "_free" events
      move a guard block between the allocator and the private set of a thread. *)
From Coq Require Import ZArith NArith List String Bool Lia PeanoNat.
From LV Require Import Base.Conc Base.Events Model.DhpLang Model.Dhp Proofs.DhpBase Proofs.DhpHist
  Proofs.DhpLangProofs Proofs.DhpInvA Proofs.DhpStepsA Proofs.DhpQuietA Proofs.DhpSlotA Proofs.DhpScanA Proofs.DhpScanC
  Proofs.DhpPresA.
Import ListNotations.

Lemma remove1_in b x l : x <> b -> (In x (remove1 b l) <-> In x l).
Proof.
  intros N. induction l as [|y l IH]; cbn; [tauto|]. destruct (Nat.eqb_spec y b) as [->|Ny]; cbn.
  - split; [now right|intros [E|K]; [congruence|exact K]].
  - rewrite IH. tauto.
Qed.
Lemma remove1_notin b l : NoDup l -> ~ In b (remove1 b l).
Proof.
  induction l as [|y l IH]; cbn; intros Hnd; [tauto|]. inversion Hnd; subst.
  destruct (Nat.eqb_spec y b) as [->|Ny]; cbn; auto. intros [E|K]; [congruence|]. now apply IH.
Qed.
Lemma remove1_nodup b l : NoDup l -> NoDup (remove1 b l).
Proof.
  induction l as [|y l IH]; cbn; intros Hnd; [constructor|]. inversion Hnd; subst.
  destruct (Nat.eqb_spec y b) as [->|Ny]; auto. constructor; auto. rewrite remove1_in by exact Ny. exact H1.
Qed.
Lemma existsb_eqb_in b l : existsb (Nat.eqb b) l = true <-> In b l.
Proof. rewrite existsb_exists. split; [intros (x & H & E); apply Nat.eqb_eq in E; now subst|intros H; exists b; split; auto; apply Nat.eqb_refl]. Qed.

Definition with_blk (l : VA) (o : option nat) : VA :=
  mkVA (va_tls l) (va_unpub l) (va_hold l) (va_help l) (va_node l) o (va_e l) (va_limbo l) (va_scan l).

Definition upd_aux (a : AuxA) (t : nat) (v : VA) (bw : nat -> bowner) : AuxA :=
  mkAuxA (fun x => if Nat.eqb x t then v else views a x) bw.
Lemma upd_aux_same a t v bw : views (upd_aux a t v bw) t = v.
Proof. cbn. now rewrite Nat.eqb_refl. Qed.
Lemma upd_aux_other a t v bw t' : t' <> t -> views (upd_aux a t v bw) t' = views a t'.
Proof. cbn. intros N. destruct (Nat.eqb_spec t' t); congruence. Qed.
Lemma frame_upd_aux a t v bw : Conc.frame viewA t a (upd_aux a t v bw).
Proof. intros t' N. unfold viewA. now apply upd_aux_other. Qed.

Ltac vcase t' t :=
  destruct (Nat.eq_dec t' t) as [->|?];
  [rewrite ?upd_aux_same in * | rewrite ?upd_aux_other in * by assumption].

Section Alloc.
  Variable c : cfg.
  Notation dsafeA := (@dsafe G ev AuxA VA viewA (InvA c)).

  Lemma scan_ok_hfree g h ss fr n' fb : hlen h <= n' ->
    scan_ok c g h ss -> scan_ok c g (mkH n' (slotv h) (lastw h) (att h) (linked h) (scan h) fr fb) ss.
  Proof.
    intros Hn S. eapply scan_ok_quiet; [apply piA_refl| |exact S]. unfold hA. cbn. repeat split; auto.
  Qed.

  (** "_alloc FHp b": block b leaves the allocator and becomes private to t *)
  Lemma JA_alloc g a h t b l :
    JA c g a h -> views a t = l -> va_blk l = None -> va_e l = None -> In b (freeh h FHp) ->
    JA c g (upd_aux a t (with_blk l (Some b)) (fun x => if Nat.eqb x b then BPriv t else bown a x))
         (mkH (S (hlen h)) (slotv h) (lastw h) (att h) (linked h) (scan h)
              (fupd fl_eqb (freeh h) FHp (remove1 b (freeh h FHp))) (flbad h)).
  Proof.
    intros J Hv Hb He Hin. destruct J as [J1 J2 J3 J4 J5 J6 J7 J8 J9 J10 J11 J12 J15 J16 J17 J18 J13 J14].
    assert (Hfree : bown a b = BFree) by (apply J11; exact Hin).
    assert (Hblt : b < List.length (gbs g)).
    { destruct (Nat.lt_ge_cases b (List.length (gbs g))); auto. rewrite (J12 b) in Hfree by assumption. discriminate. }
    set (a' := upd_aux a t (with_blk l (Some b)) (fun x => if Nat.eqb x b then BPriv t else bown a x)).
    assert (Bo : forall x, x <> b -> bown a' x = bown a x) by (intros x N; cbn; destruct (Nat.eqb_spec x b); congruence).
    assert (Bs : bown a' b = BPriv t) by (cbn; now rewrite Nat.eqb_refl).
    assert (V : forall t', va_tls (views a' t') = va_tls (views a t') /\ va_unpub (views a' t') = va_unpub (views a t') /\
                           va_hold (views a' t') = va_hold (views a t') /\ va_help (views a' t') = va_help (views a t') /\
                           va_node (views a' t') = va_node (views a t') /\ va_e (views a' t') = va_e (views a t') /\
                           va_limbo (views a' t') = va_limbo (views a t') /\ va_scan (views a' t') = va_scan (views a t')).
    { intros t'. unfold a'. vcase t' t; [subst l; cbn; repeat split; reflexivity|repeat split; reflexivity]. }
    constructor; cbn [hlen slotv lastw att linked scan freeh flbad]; auto.
    - intros r t' k Ha. destruct (J2 r t' k Ha) as (X1&X2&X3&X4&X5&X6&X7&X8&X9). destruct (V t') as (E&_). rewrite E.
      repeat split; auto.
      + destruct (X9 b0 kb H) as (Y&_). rewrite Bo; auto. intros ->. congruence.
      + destruct (X9 b0 kb H) as (_&Y&_). exact Y.
      + destruct (X9 b0 kb H) as (_&_&Y). lia.
    - intros t' r Ht. destruct (V t') as (E&_). rewrite E in Ht. auto.
    - intros t' r bt Ht. destruct (V t') as (_&E&_). rewrite E in Ht. destruct (J5 t' r bt Ht) as (X1&X2&X3&X4&X5&X6).
      repeat split; auto. intros t'' bt' Ht''. destruct (V t'') as (_&E'&_). rewrite E' in Ht''. eauto.
    - intros t' r Ht. destruct (V t') as (_&_&E&_&_&_&E7&_). rewrite E in Ht. rewrite E7. auto.
    - intros t' r Ht. destruct (V t') as (_&_&E3&E4&_). rewrite E4 in Ht. rewrite E3. auto.
    - intros r Hr Ha. destruct (J8 r Hr Ha) as [X|(t' & X1 & X2)]; [now left|right]. exists t'.
      destruct (V t') as (_&_&E3&_&_&_&E7&_). rewrite E3, E7. auto.
    - intros t' b' Ht. destruct (V t') as (_&_&_&_&_&_&E7&_). rewrite E7. destruct (Nat.eq_dec t' t) as [->|N].
      + unfold a' in Ht. rewrite upd_aux_same in Ht. cbn in Ht. inversion Ht; subst b'.
        split; [exact Bs|]. split; auto. split; [apply J16; auto|].
        intros o lb Hl K. destruct (J10 t o lb Hl) as (_&_&Y). rewrite (Y b K) in Hfree. discriminate.
      + unfold a' in Ht. rewrite upd_aux_other in Ht by exact N.
        destruct (J9 t' b' Ht) as (X1&X2&X3&X4). split; [rewrite Bo; auto; intros ->; congruence|]. auto.
    - intros t' o lb Ht. destruct (V t') as (_&_&_&_&_&_&E7&_). rewrite E7 in Ht. destruct (J10 t' o lb Ht) as (X1&X2&X3).
      repeat split; auto. intros b' Hb'. rewrite Bo; auto. intros ->. rewrite (X3 b Hb') in Hfree. discriminate.
    - destruct J11 as (F1 & F2). unfold fupd. cbn [fl_eqb]. split; [|now apply remove1_nodup].
      intros b'. destruct (Nat.eq_dec b' b) as [->|N].
      + rewrite Bs. split; [intros K; exfalso; eapply remove1_notin; eauto|discriminate].
      + rewrite remove1_in by exact N. rewrite Bo by exact N. apply F1.
    - intros b' Hb'. rewrite Bo; [auto|lia].
    - intros t' e f Ht. destruct (Nat.eq_dec t' t) as [->|N].
      + unfold a' in Ht. rewrite upd_aux_same in Ht. cbn in Ht. congruence.
      + unfold a' in *. rewrite upd_aux_other in * by exact N. eauto.
    - intros t' n Ht. destruct (V t') as (_&_&_&_&E5&_). rewrite E5 in Ht. eauto.
    - intros t'. destruct (V t') as (_&_&_&_&_&_&_&E8). rewrite E8. specialize (J14 t').
      destruct (va_scan (views a t')) as [ss|]; auto. destruct J14 as (X1 & X2). split; auto.
      apply scan_ok_hfree; auto.
  Qed.
End Alloc.
