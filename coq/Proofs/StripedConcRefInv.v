(** * StripedSet with the refinable policy: the invariant and its preservation by every kind of step.

    Auxiliary state per thread: status of its operation; [v_rs] its reentrant cell lock (taken / owner id
    stored / validated by the re-check of [acquire] / being released); [v_os] whether it owns the table
    (owner word) and how far its scan of the old lock array got; the lock array it copied under [m_access];
    a snapshot of the mask while it owns the table.  Globally the trace annotated with linearization points. *)
From Coq Require Import ZArith List Bool Lia PeanoNat String.
From LV Require Import Base.Conc Base.Events Base.Lin Spec.Specs Proofs.LinProofs
     Model.StripingPolicy Model.StripedConc Proofs.StripedConcSpec Proofs.StripedConcAbs.
Import ListNotations.
Local Open Scope nat_scope.

Inductive rstate :=
| RNone
| RTaken (g i : nat)         (* compare-exchange on m_spin succeeded, owner id not stored yet            *)
| RHeld (g i : nat)          (* owner id stored; not (yet) validated, or the try_lock of a resizer's scan *)
| RValid (g i : nat)         (* cell lock validated by the re-check of acquire(): inside the critical section *)
| RRel (g i : nat).          (* unlocking: owner id cleared, m_spin still set                             *)

Definition rholds (r : rstate) (g i : nat) : Prop :=
  r = RTaken g i \/ r = RHeld g i \/ r = RValid g i \/ r = RRel g i.
Definition rowned (r : rstate) (g i : nat) : Prop := r = RHeld g i \/ r = RValid g i.

Inductive ostate :=
| ONone
| OScan (g0 sz j : nat)      (* owner word taken; cells [0, j) of array g0 (size sz) were seen free; j = sz: exclusive *)
| OMove (pend : list item).  (* exclusive; the new table is installed, [pend] still to be moved                   *)

Definition opend (o : ostate) : list item := match o with OMove p => p | _ => [] end.
Definition exclusive (o : ostate) : Prop := (exists g0 sz, o = OScan g0 sz sz) \/ exists p, o = OMove p.

Record tview := mkTV {
  v_op : status ISet;
  v_rs : rstate;
  v_os : ostate;
  v_arr : option (nat * nat);       (* lock array (identity, size) copied under m_access *)
  v_mask : nat                      (* the mask while owning the table                   *)
}.
Record Aux := mkAux { a_view : nat -> tview; a_atr : list (aev ISet) }.
Definition view (a : Aux) (t : nat) : tview := a_view a t.
Definition rs (a : Aux) (t : nat) : rstate := v_rs (a_view a t).
Definition os (a : Aux) (t : nat) : ostate := v_os (a_view a t).

Lemma os_none_dec (o : ostate) : o = ONone \/ o <> ONone.
Proof. destruct o; [now left|right; discriminate|right; discriminate]. Qed.

Section Refinable.
  Variable hm : nat.

  Record Inv (g : G) (a : Aux) (tr : list (nat * ev)) : Prop := mkInv {
    i_word : owner g = 0 \/ exists R, owner g = 2 * S R + 1 /\ os a R <> ONone;
    i_owner : forall t, os a t <> ONone -> owner g = 2 * S t + 1;
    i_spin : forall gg i, (rspin g gg i = 0 \/ rspin g gg i = 1) /\ (rspin g gg i = 1 <-> exists t, rholds (rs a t) gg i);
    i_excl : forall t t' gg i, rholds (rs a t) gg i -> rholds (rs a t') gg i -> t = t';
    i_rown : forall gg i, rown g gg i = 0 \/ exists t, rown g gg i = S t /\ rowned (rs a t) gg i;
    i_gen : cur g < ngen g /\ (forall gg, gg < ngen g -> 0 < gsize g gg) /\
            (forall t gg i, rholds (rs a t) gg i -> gg < ngen g);
    i_arr : forall t g0 sz, v_arr (a_view a t) = Some (g0, sz) -> g0 < ngen g /\ gsize g g0 = sz;
    i_valid : forall t gg i, rs a t = RValid gg i ->
                gg = cur g /\ i < gsize g gg /\
                (forall R g0 sz j, os a R = OScan g0 sz j -> j <= i) /\
                (forall R p, os a R <> OMove p);
    i_scan : forall R g0 sz j, os a R = OScan g0 sz j -> g0 = cur g /\ sz = gsize g g0 /\ j <= sz;
    i_mask : forall t, os a t <> ONone -> mask g = v_mask (a_view a t);
    i_tab : table_ok hm (mask g) (buckets g);
    i_abs : exists s st, lp_run lp_init (a_atr a) = Some (s, st) /\ erase (a_atr a) = hist_of tr /\
              (forall t, st t = v_op (a_view a t)) /\
              absrel s (buckets g) (fun x => exists t, In x (opend (os a t)))
  }.

  Arguments i_word {g a tr}. Arguments i_owner {g a tr}. Arguments i_spin {g a tr}. Arguments i_excl {g a tr}.
  Arguments i_rown {g a tr}. Arguments i_gen {g a tr}. Arguments i_arr {g a tr}. Arguments i_valid {g a tr}.
  Arguments i_scan {g a tr}. Arguments i_mask {g a tr}. Arguments i_tab {g a tr}. Arguments i_abs {g a tr}.

  Definition setv (a : Aux) (t : nat) (v : tview) : Aux :=
    mkAux (fun x => if Nat.eqb x t then v else a_view a x) (a_atr a).
  Definition seta (a : Aux) (atr : list (aev ISet)) : Aux := mkAux (a_view a) atr.

  Lemma setv_same a t v : a_view (setv a t v) t = v.
  Proof. cbn. now rewrite Nat.eqb_refl. Qed.
  Lemma setv_other a t v t' : t' <> t -> a_view (setv a t v) t' = a_view a t'.
  Proof. cbn. intros H. destruct (Nat.eqb_spec t' t); congruence. Qed.
  Lemma rs_same a t v : rs (setv a t v) t = v_rs v.  Proof. unfold rs. now rewrite setv_same. Qed.
  Lemma rs_other a t v t' : t' <> t -> rs (setv a t v) t' = rs a t'.  Proof. unfold rs. intros H. now rewrite setv_other. Qed.
  Lemma os_same a t v : os (setv a t v) t = v_os v.  Proof. unfold os. now rewrite setv_same. Qed.
  Lemma os_other a t v t' : t' <> t -> os (setv a t v) t' = os a t'.  Proof. unfold os. intros H. now rewrite setv_other. Qed.
  Lemma frame_setv a t v : Conc.frame view t a (setv a t v).
  Proof. intros t' H. unfold view. now apply setv_other. Qed.
  Lemma frame_refl a t : Conc.frame view t a a.
  Proof. intros t' H. reflexivity. Qed.

  Lemma absrel_ext s bs (P Q : item -> Prop) : (forall x, P x <-> Q x) -> absrel s bs P -> absrel s bs Q.
  Proof. intros H [H1 H2]. split; auto. intros x. rewrite H2, H. tauto. Qed.

  (** the parts of the shared state the invariant reads *)
  Definition same_core (g g' : G) : Prop :=
    owner g' = owner g /\ cur g' = cur g /\ ngen g' = ngen g /\ (forall x, gsize g' x = gsize g x) /\
    (forall x y, rspin g' x y = rspin g x y) /\ (forall x y, rown g' x y = rown g x y) /\
    mask g' = mask g /\ buckets g' = buckets g.

  Lemma same_core_refl g : same_core g g.
  Proof. repeat split; auto. Qed.

  (** *** a step of thread [t] that changes neither the core of the state nor the locks / ownership in the views *)
  Lemma Inv_view g g' a tr t v' tr' :
    Inv g a tr -> same_core g g' ->
    v_op v' = v_op (a_view a t) -> v_rs v' = rs a t -> v_os v' = os a t -> v_mask v' = v_mask (a_view a t) ->
    (forall g0 sz, v_arr v' = Some (g0, sz) -> g0 < ngen g /\ gsize g g0 = sz) ->
    hist_of tr' = hist_of tr ->
    Inv g' (setv a t v') tr'.
  Proof.
    intros Hi (C1 & C2 & C3 & C4 & C5 & C6 & C7 & C8) Hop Hrs Hos Hm Harr Hh.
    pose proof Hi as [I1 I2 I3 I4 I5 I6 I7 I8 I9 I10 I11 I12].
    assert (Krs : forall t0, rs (setv a t v') t0 = rs a t0).
    { intros t0. destruct (Nat.eq_dec t0 t) as [->|Hn]; [now rewrite rs_same|now rewrite rs_other]. }
    assert (Kos : forall t0, os (setv a t v') t0 = os a t0).
    { intros t0. destruct (Nat.eq_dec t0 t) as [->|Hn]; [now rewrite os_same|now rewrite os_other]. }
    constructor.
    - rewrite C1. destruct I1 as [H|(R & H1 & H2)]; [now left|right]. exists R. now rewrite Kos.
    - intros t0. rewrite Kos, C1. apply I2.
    - intros gg i. rewrite C5. setoid_rewrite Krs. apply I3.
    - intros t1 t2 gg i. rewrite !Krs. apply I4.
    - intros gg i. rewrite C6. setoid_rewrite Krs. apply I5.
    - rewrite C2, C3. setoid_rewrite C4. setoid_rewrite Krs. exact I6.
    - intros t0 g0 sz. rewrite C3, C4. destruct (Nat.eq_dec t0 t) as [->|Hn].
      + rewrite setv_same. apply Harr.
      + rewrite setv_other by exact Hn. apply I7.
    - intros t0 gg i. rewrite Krs, C2, C4. setoid_rewrite Kos. apply I8.
    - intros R g0 sz j. rewrite Kos, C2, C4. apply I9.
    - intros t0. rewrite Kos, C7. intros H. destruct (Nat.eq_dec t0 t) as [->|Hn].
      + rewrite setv_same, Hm. now apply I10.
      + rewrite setv_other by exact Hn. now apply I10.
    - rewrite C7, C8. exact I11.
    - destruct I12 as (s & st & H1 & H2 & H3 & H4). exists s, st. rewrite Hh, C8.
      split; [exact H1|]. split; [exact H2|]. split.
      + intros t0. rewrite H3. destruct (Nat.eq_dec t0 t) as [->|Hn]; [now rewrite setv_same|now rewrite setv_other].
      + eapply absrel_ext; [|exact H4]. intros x. split; intros (t0 & H); exists t0; [rewrite Kos|rewrite <- Kos]; exact H.
  Qed.

  Lemma setv_id a t : forall t0, a_view (setv a t (a_view a t)) t0 = a_view a t0.
  Proof. intros t0. destruct (Nat.eq_dec t0 t) as [->|Hn]; [now rewrite setv_same|now rewrite setv_other]. Qed.

  (** the same without any change of the auxiliary state *)
  Lemma Inv_silent g g' a tr t e :
    Inv g a tr -> same_core g g' -> hist_of (tr ++ Conc.tag t [e]) = hist_of tr -> Inv g' a (tr ++ Conc.tag t [e]).
  Proof.
    intros Hi Hc Hh.
    pose proof (Inv_view g g' a tr t (a_view a t) _ Hi Hc eq_refl eq_refl eq_refl eq_refl (i_arr Hi t) Hh) as H.
    destruct H as [I1 I2 I3 I4 I5 I6 I7 I8 I9 I10 I11 I12].
    assert (Krs : forall t0, rs (setv a t (a_view a t)) t0 = rs a t0) by (intros t0; unfold rs; now rewrite setv_id).
    assert (Kos : forall t0, os (setv a t (a_view a t)) t0 = os a t0) by (intros t0; unfold os; now rewrite setv_id).
    constructor; auto.
    - destruct I1 as [H|(R & H1 & H2)]; [now left|right]. exists R. now rewrite <- Kos.
    - intros t0. rewrite <- Kos. apply I2.
    - intros gg i. setoid_rewrite <- Krs. apply I3.
    - intros t1 t2 gg i. rewrite <- !Krs. apply I4.
    - intros gg i. setoid_rewrite <- Krs. apply I5.
    - setoid_rewrite <- Krs. exact I6.
    - intros t0 g0 sz. rewrite <- (setv_id a t t0). apply I7.
    - intros t0 gg i. rewrite <- Krs. setoid_rewrite <- Kos. apply I8.
    - intros R g0 sz j. rewrite <- Kos. apply I9.
    - intros t0. rewrite <- Kos, <- (setv_id a t t0). apply I10.
    - destruct I12 as (s & st & H1 & H2 & H3 & H4). exists s, st.
      split; [exact H1|]. split; [exact H2|]. split.
      + intros t0. rewrite H3. now rewrite setv_id.
      + eapply absrel_ext; [|exact H4]. intros x. split; intros (t0 & H); exists t0; [rewrite <- Kos|rewrite Kos]; exact H.
  Qed.


  (** *** a step of thread [t] on a reentrant lock (and possibly on its own scan index): generic lemma.
      Everything but [rspin] / [rown] is unchanged in the state; the hypotheses are the local facts about the new
      lock words and the new view of [t]. *)
  Lemma Inv_rstep g g' a tr t v' e :
    Inv g a tr ->
    owner g' = owner g -> cur g' = cur g -> ngen g' = ngen g -> (forall x, gsize g' x = gsize g x) ->
    mask g' = mask g -> buckets g' = buckets g ->
    v_op v' = v_op (a_view a t) -> v_arr v' = v_arr (a_view a t) -> v_mask v' = v_mask (a_view a t) ->
    hist_of (tr ++ Conc.tag t [e]) = hist_of tr ->
    (* lock words *)
    (forall gg i, (rspin g' gg i = 0 \/ rspin g' gg i = 1) /\
                  (rspin g' gg i = 1 <-> rholds (v_rs v') gg i \/ exists t0, t0 <> t /\ rholds (rs a t0) gg i)) ->
    (forall gg i, rholds (v_rs v') gg i -> (forall t0, t0 <> t -> ~ rholds (rs a t0) gg i) /\ gg < ngen g) ->
    (forall gg i, rown g' gg i = 0 \/ (rown g' gg i = S t /\ rowned (v_rs v') gg i) \/
                  exists t0, t0 <> t /\ rown g' gg i = S t0 /\ rowned (rs a t0) gg i) ->
    (* validity of my cell lock *)
    (forall gg i, v_rs v' = RValid gg i ->
        gg = cur g /\ i < gsize g gg /\ v_os v' = ONone /\
        (forall R g0 sz j, R <> t -> os a R = OScan g0 sz j -> j <= i) /\ (forall R p, R <> t -> os a R <> OMove p)) ->
    (* my ownership *)
    (os a t = ONone <-> v_os v' = ONone) -> opend (v_os v') = opend (os a t) ->
    (forall g0 sz j, v_os v' = OScan g0 sz j -> g0 = cur g /\ sz = gsize g g0 /\ j <= sz) ->
    (forall t0 gg i, t0 <> t -> rs a t0 = RValid gg i ->
        (forall g0 sz j, v_os v' = OScan g0 sz j -> j <= i) /\ (forall p, v_os v' <> OMove p)) ->
    Inv g' (setv a t v') (tr ++ Conc.tag t [e]).
  Proof.
    intros Hi C1 C2 C3 C4 C7 C8 Hop Harr Hm Hh L1 L2 L3 Lv O1 O2 O3 O4.
    pose proof Hi as [I1 I2 I3 I4 I5 I6 I7 I8 I9 I10 I11 I12].
    constructor.
    - rewrite C1. destruct I1 as [H|(R & H1 & H2)]; [now left|right]. exists R. split; auto.
      destruct (Nat.eq_dec R t) as [->|Hn]; [rewrite os_same; tauto|now rewrite os_other].
    - intros t0. rewrite C1. destruct (Nat.eq_dec t0 t) as [->|Hn].
      + rewrite os_same. intros H. apply I2. tauto.
      + rewrite os_other by exact Hn. apply I2.
    - intros gg i. destruct (L1 gg i) as [K1 K2]. split; auto. rewrite K2. split.
      + intros [H|(t0 & Hn & H)]; [exists t; now rewrite rs_same|exists t0; now rewrite rs_other].
      + intros (t0 & H). destruct (Nat.eq_dec t0 t) as [->|Hn]; [left; now rewrite rs_same in H|right; exists t0; now rewrite rs_other in H].
    - intros t1 t2 gg i H1 H2.
      destruct (Nat.eq_dec t1 t) as [->|N1]; destruct (Nat.eq_dec t2 t) as [->|N2]; auto.
      + rewrite rs_same in H1. rewrite rs_other in H2 by exact N2. exfalso. eapply (proj1 (L2 gg i H1)); eauto.
      + rewrite rs_same in H2. rewrite rs_other in H1 by exact N1. exfalso. eapply (proj1 (L2 gg i H2)); eauto.
      + rewrite rs_other in H1 by exact N1. rewrite rs_other in H2 by exact N2. eapply I4; eauto.
    - intros gg i. destruct (L3 gg i) as [H|[[H1 H2]|(t0 & Hn & H1 & H2)]]; [now left|right; exists t|right; exists t0].
      + now rewrite rs_same.
      + now rewrite rs_other.
    - rewrite C2, C3. destruct I6 as (K1 & K2 & K3). split; auto. split.
      + intros gg H. rewrite C4. auto.
      + intros t0 gg i H. destruct (Nat.eq_dec t0 t) as [->|Hn].
        * rewrite rs_same in H. apply (L2 gg i H).
        * rewrite rs_other in H by exact Hn. eauto.
    - intros t0 g0 sz. rewrite C3, C4. destruct (Nat.eq_dec t0 t) as [->|Hn].
      + rewrite setv_same, Harr. apply I7.
      + rewrite setv_other by exact Hn. apply I7.
    - intros t0 gg i H. rewrite C2, C4. destruct (Nat.eq_dec t0 t) as [->|Hn].
      + rewrite rs_same in H. destruct (Lv gg i H) as (V1 & V2 & V3 & V4 & V5). split; auto. split; auto. split.
        * intros R g0 sz j HR. destruct (Nat.eq_dec R t) as [->|HnR]; [rewrite os_same, V3 in HR; discriminate|].
          rewrite os_other in HR by exact HnR. eauto.
        * intros R p. destruct (Nat.eq_dec R t) as [->|HnR]; [rewrite os_same, V3; discriminate|].
          rewrite os_other by exact HnR. auto.
      + rewrite rs_other in H by exact Hn. destruct (I8 t0 gg i H) as (V1 & V2 & V4 & V5). split; auto. split; auto. split.
        * intros R g0 sz j HR. destruct (Nat.eq_dec R t) as [->|HnR].
          -- rewrite os_same in HR. eapply (proj1 (O4 t0 gg i Hn H)); eauto.
          -- rewrite os_other in HR by exact HnR. eauto.
        * intros R p. destruct (Nat.eq_dec R t) as [->|HnR].
          -- rewrite os_same. apply (proj2 (O4 t0 gg i Hn H)).
          -- rewrite os_other by exact HnR. auto.
    - intros R g0 sz j HR. rewrite C2, C4. destruct (Nat.eq_dec R t) as [->|HnR].
      + rewrite os_same in HR. auto.
      + rewrite os_other in HR by exact HnR. eauto.
    - intros t0. rewrite C7. destruct (Nat.eq_dec t0 t) as [->|Hn].
      + rewrite os_same, setv_same, Hm. intros H. apply I10. tauto.
      + rewrite os_other, setv_other by exact Hn. apply I10.
    - rewrite C7, C8. exact I11.
    - destruct I12 as (s & st & H1 & H2 & H3 & H4). exists s, st. rewrite Hh, C8.
      split; [exact H1|]. split; [exact H2|]. split.
      + intros t0. rewrite H3. destruct (Nat.eq_dec t0 t) as [->|Hn]; [now rewrite setv_same|now rewrite setv_other].
      + eapply absrel_ext; [|exact H4]. intros x. split; intros (t0 & H); exists t0.
        * destruct (Nat.eq_dec t0 t) as [->|Hn]; [now rewrite os_same, O2|now rewrite os_other].
        * destruct (Nat.eq_dec t0 t) as [->|Hn]; [now rewrite os_same, O2 in H|now rewrite os_other in H].
  Qed.


  (** *** a step of thread [t] on the table / the annotated trace / its own ownership state (not on lock words) *)
  Lemma Inv_tstep g g' a tr t v' atr' tr' :
    Inv g a tr ->
    owner g' = owner g -> cur g' = cur g -> ngen g' = ngen g -> (forall x, gsize g' x = gsize g x) ->
    (forall x y, rspin g' x y = rspin g x y) -> (forall x y, rown g' x y = rown g x y) ->
    v_rs v' = rs a t -> v_arr v' = v_arr (a_view a t) ->
    (os a t = ONone <-> v_os v' = ONone) ->
    (forall g0 sz j, v_os v' = OScan g0 sz j -> g0 = cur g /\ sz = gsize g g0 /\ j <= sz) ->
    (forall t0 gg i, rs a t0 = RValid gg i ->
        (forall g0 sz j, v_os v' = OScan g0 sz j -> j <= i) /\ (forall p, v_os v' <> OMove p)) ->
    (v_os v' <> ONone -> mask g' = v_mask v') ->
    (os a t = ONone -> mask g' = mask g) ->
    table_ok hm (mask g') (buckets g') ->
    (exists s st, lp_run lp_init atr' = Some (s, st) /\ erase atr' = hist_of tr' /\
        (forall t0, st t0 = v_op (a_view (setv a t v') t0)) /\
        absrel s (buckets g') (fun x => exists t0, In x (opend (os (setv a t v') t0)))) ->
    Inv g' (seta (setv a t v') atr') tr'.
  Proof.
    intros Hi C1 C2 C3 C4 C5 C6 Hrs Harr O1 O3 O4 M1 M2 Htab Habs.
    pose proof Hi as [I1 I2 I3 I4 I5 I6 I7 I8 I9 I10 I11 I12].
    assert (Krs : forall t0, rs (seta (setv a t v') atr') t0 = rs a t0).
    { intros t0. change (rs (setv a t v') t0 = rs a t0). destruct (Nat.eq_dec t0 t) as [->|Hn]; [now rewrite rs_same|now rewrite rs_other]. }
    assert (Kos : forall t0, os (seta (setv a t v') atr') t0 = os (setv a t v') t0) by reflexivity.
    assert (Uniq : forall t0, t0 <> t -> os a t <> ONone -> os a t0 = ONone).
    { intros t0 Hn Ht. destruct (os_none_dec (os a t0)) as [E|E]; auto. apply I2 in E. apply I2 in Ht. lia. }
    constructor.
    - rewrite C1. destruct I1 as [H|(R & H1 & H2)]; [now left|right]. exists R. split; auto. rewrite Kos.
      destruct (Nat.eq_dec R t) as [->|Hn]; [rewrite os_same; tauto|now rewrite os_other].
    - intros t0. rewrite C1, Kos. destruct (Nat.eq_dec t0 t) as [->|Hn].
      + rewrite os_same. intros H. apply I2. tauto.
      + rewrite os_other by exact Hn. apply I2.
    - intros gg i. rewrite C5. setoid_rewrite Krs. apply I3.
    - intros t1 t2 gg i. rewrite !Krs. apply I4.
    - intros gg i. rewrite C6. setoid_rewrite Krs. apply I5.
    - rewrite C2, C3. setoid_rewrite C4. setoid_rewrite Krs. exact I6.
    - intros t0 g0 sz. rewrite C3, C4. cbn [a_view seta]. destruct (Nat.eq_dec t0 t) as [->|Hn].
      + rewrite setv_same, Harr. apply I7.
      + rewrite setv_other by exact Hn. apply I7.
    - intros t0 gg i. rewrite Krs, C2, C4. intros H. destruct (I8 t0 gg i H) as (V1 & V2 & V4 & V5).
      split; auto. split; auto. split.
      + intros R g0 sz j. rewrite Kos. destruct (Nat.eq_dec R t) as [->|HnR].
        * rewrite os_same. intros HR. eapply (proj1 (O4 t0 gg i H)); eauto.
        * rewrite os_other by exact HnR. eauto.
      + intros R p. rewrite Kos. destruct (Nat.eq_dec R t) as [->|HnR].
        * rewrite os_same. apply (proj2 (O4 t0 gg i H)).
        * rewrite os_other by exact HnR. auto.
    - intros R g0 sz j. rewrite Kos, C2, C4. destruct (Nat.eq_dec R t) as [->|HnR].
      + rewrite os_same. auto.
      + rewrite os_other by exact HnR. eauto.
    - intros t0. rewrite Kos. cbn [a_view seta]. destruct (Nat.eq_dec t0 t) as [->|Hn].
      + rewrite os_same, setv_same. auto.
      + rewrite os_other, setv_other by exact Hn. intros H. rewrite <- (I10 t0 H). apply M2.
        destruct (os_none_dec (os a t)) as [E|E]; [exact E|]. exfalso. apply H. apply (Uniq t0 Hn E).
    - exact Htab.
    - exact Habs.
  Qed.

  (** *** the owner word *)
  Lemma Inv_owner_take g a tr t :
    Inv g a tr -> owner g = 0 -> os a t = ONone ->
    let v := a_view a t in
    let v' := mkTV (v_op v) (v_rs v) (OScan (cur g) (gsize g (cur g)) 0) (v_arr v) (mask g) in
    Inv (set_owner g (2 * S t + 1)) (setv a t v') (tr ++ Conc.tag t [EvAcc KCas o_owner true]).
  Proof.
    intros Hi H0 Hos v v'. pose proof Hi as [I1 I2 I3 I4 I5 I6 I7 I8 I9 I10 I11 I12].
    assert (None_ : forall t0, os a t0 = ONone).
    { intros t0. destruct (os_none_dec (os a t0)) as [E|E]; auto. apply I2 in E. lia. }
    assert (Krs : forall t0, rs (setv a t v') t0 = rs a t0).
    { intros t0. destruct (Nat.eq_dec t0 t) as [->|Hn]; [now rewrite rs_same|now rewrite rs_other]. }
    constructor.
    - right. exists t. split; [reflexivity|]. rewrite os_same. discriminate.
    - intros t0. destruct (Nat.eq_dec t0 t) as [->|Hn]; [reflexivity|]. rewrite os_other by exact Hn. rewrite None_. congruence.
    - intros gg i. cbn [rspin set_owner]. setoid_rewrite Krs. apply I3.
    - intros t1 t2 gg i. rewrite !Krs. apply I4.
    - intros gg i. cbn [rown set_owner]. setoid_rewrite Krs. apply I5.
    - cbn [cur ngen gsize set_owner]. setoid_rewrite Krs. exact I6.
    - intros t0 g0 sz. cbn [ngen gsize set_owner]. destruct (Nat.eq_dec t0 t) as [->|Hn].
      + rewrite setv_same. cbn. apply I7.
      + rewrite setv_other by exact Hn. apply I7.
    - intros t0 gg i. rewrite Krs. cbn [cur gsize set_owner]. intros H. destruct (I8 t0 gg i H) as (V1 & V2 & V4 & V5).
      split; auto. split; auto. split.
      + intros R g0 sz j. destruct (Nat.eq_dec R t) as [->|HnR].
        * rewrite os_same. cbn. intros E. inversion E. lia.
        * rewrite os_other by exact HnR. eauto.
      + intros R p. destruct (Nat.eq_dec R t) as [->|HnR]; [rewrite os_same; discriminate|rewrite os_other by exact HnR; auto].
    - intros R g0 sz j. cbn [cur gsize set_owner]. destruct (Nat.eq_dec R t) as [->|HnR].
      + rewrite os_same. cbn. intros E. inversion E; subst. split; auto. split; auto. lia.
      + rewrite os_other by exact HnR. eauto.
    - intros t0. cbn [mask set_owner]. destruct (Nat.eq_dec t0 t) as [->|Hn].
      + rewrite setv_same. reflexivity.
      + rewrite os_other, setv_other by exact Hn. apply I10.
    - exact I11.
    - destruct I12 as (s & st & H1 & H2 & H3 & H4). exists s, st. rewrite hist_of_acc.
      split; [exact H1|]. split; [exact H2|]. split.
      + intros t0. rewrite H3. destruct (Nat.eq_dec t0 t) as [->|Hn]; [now rewrite setv_same|now rewrite setv_other].
      + cbn [buckets set_owner]. eapply absrel_ext; [|exact H4]. intros x. split; intros (t0 & H); exists t0.
        * rewrite None_ in H. destruct H.
        * destruct (Nat.eq_dec t0 t) as [->|Hn]; [rewrite os_same in H; destruct H|now rewrite os_other in H].
  Qed.

  Lemma Inv_owner_release g a tr t :
    Inv g a tr -> os a t <> ONone -> opend (os a t) = [] ->
    let v := a_view a t in
    let v' := mkTV (v_op v) (v_rs v) ONone (v_arr v) (v_mask v) in
    Inv (set_owner g 0) (setv a t v') (tr ++ Conc.tag t [EvAcc KSt o_owner true]).
  Proof.
    intros Hi Hos Hp v v'. pose proof Hi as [I1 I2 I3 I4 I5 I6 I7 I8 I9 I10 I11 I12].
    assert (Uniq : forall t0, t0 <> t -> os a t0 = ONone).
    { intros t0 Hn. destruct (os_none_dec (os a t0)) as [E|E]; auto. apply I2 in E. apply I2 in Hos. lia. }
    assert (None_ : forall t0, os (setv a t v') t0 = ONone).
    { intros t0. destruct (Nat.eq_dec t0 t) as [->|Hn]; [now rewrite os_same|rewrite os_other by exact Hn; auto]. }
    assert (Krs : forall t0, rs (setv a t v') t0 = rs a t0).
    { intros t0. destruct (Nat.eq_dec t0 t) as [->|Hn]; [now rewrite rs_same|now rewrite rs_other]. }
    constructor.
    - now left.
    - intros t0. rewrite None_. congruence.
    - intros gg i. cbn [rspin set_owner]. setoid_rewrite Krs. apply I3.
    - intros t1 t2 gg i. rewrite !Krs. apply I4.
    - intros gg i. cbn [rown set_owner]. setoid_rewrite Krs. apply I5.
    - cbn [cur ngen gsize set_owner]. setoid_rewrite Krs. exact I6.
    - intros t0 g0 sz. cbn [ngen gsize set_owner]. destruct (Nat.eq_dec t0 t) as [->|Hn].
      + rewrite setv_same. cbn. apply I7.
      + rewrite setv_other by exact Hn. apply I7.
    - intros t0 gg i. rewrite Krs. cbn [cur gsize set_owner]. intros H. destruct (I8 t0 gg i H) as (V1 & V2 & V4 & V5).
      split; auto. split; auto. split.
      + intros R g0 sz j. rewrite None_. discriminate.
      + intros R p. rewrite None_. discriminate.
    - intros R g0 sz j. rewrite None_. discriminate.
    - intros t0. rewrite None_. congruence.
    - exact I11.
    - destruct I12 as (s & st & H1 & H2 & H3 & H4). exists s, st. rewrite hist_of_acc.
      split; [exact H1|]. split; [exact H2|]. split.
      + intros t0. rewrite H3. destruct (Nat.eq_dec t0 t) as [->|Hn]; [now rewrite setv_same|now rewrite setv_other].
      + cbn [buckets set_owner]. eapply absrel_ext; [|exact H4]. intros x. split; intros (t0 & H); exfalso.
        * destruct (Nat.eq_dec t0 t) as [->|Hn]; [rewrite Hp in H; destruct H|rewrite (Uniq t0 Hn) in H; destruct H].
        * rewrite None_ in H. destruct H.
  Qed.


  (** *** a new lock array is allocated (m_nCapacity.store + new lock_array): nothing refers to it yet *)
  Lemma Inv_alloc_gen g a tr t n : Inv g a tr -> 0 < n ->
    Inv (set_gen (set_pcap g n) (S (ngen g)) (upd1 (gsize g) (ngen g) n)) a (tr ++ Conc.tag t [EvAcc KSt o_pcap true]).
  Proof.
    intros Hi Hn. pose proof Hi as [I1 I2 I3 I4 I5 I6 I7 I8 I9 I10 I11 I12].
    destruct I6 as (K1 & K2 & K3).
    assert (Hgs : forall gg, gg < ngen g -> upd1 (gsize g) (ngen g) n gg = gsize g gg).
    { intros gg H. unfold upd1. destruct (Nat.eqb_spec gg (ngen g)); [lia|reflexivity]. }
    constructor; cbn [owner rspin rown cur ngen gsize mask buckets set_gen set_pcap]; auto.
    - split; [lia|]. split.
      + intros gg H. unfold upd1. destruct (Nat.eqb_spec gg (ngen g)); [exact Hn|apply K2; lia].
      + intros t0 gg i H. specialize (K3 t0 gg i H). lia.
    - intros t0 g0 sz H. destruct (I7 t0 g0 sz H) as [H1 H2]. split; [lia|]. now rewrite Hgs.
    - intros t0 gg i H. destruct (I8 t0 gg i H) as (V1 & V2 & V4 & V5). split; auto. split; auto.
      rewrite Hgs; [auto|]. subst gg. exact K1.
    - intros R g0 sz j H. destruct (I9 R g0 sz j H) as (S1 & S2 & S3). split; auto. split; auto.
      rewrite Hgs; [auto|]. subst g0. exact K1.
    - destruct I12 as (s & st & H1 & H2 & H3 & H4). exists s, st. rewrite hist_of_acc. auto.
  Qed.

  (** *** the exclusive owner installs the new lock array (swap under m_access) *)
  Lemma Inv_swap g a tr t newg g0 sz e :
    Inv g a tr -> os a t = OScan g0 sz sz -> newg < ngen g ->
    hist_of (tr ++ Conc.tag t [e]) = hist_of tr ->
    let v := a_view a t in
    let v' := mkTV (v_op v) (v_rs v) (OScan newg (gsize g newg) (gsize g newg)) (v_arr v) (v_mask v) in
    Inv (set_cur (set_access g true) newg) (setv a t v') (tr ++ Conc.tag t [e]).
  Proof.
    intros Hi Hos Hng Hh v v'. pose proof Hi as [I1 I2 I3 I4 I5 I6 I7 I8 I9 I10 I11 I12].
    destruct (I9 t g0 sz sz Hos) as (S1 & S2 & _).
    assert (NoValid : forall t0 gg i, rs a t0 <> RValid gg i).
    { intros t0 gg i H. destruct (I8 t0 gg i H) as (V1 & V2 & V4 & _). specialize (V4 t g0 sz sz Hos). subst. lia. }
    assert (Krs : forall t0, rs (setv a t v') t0 = rs a t0).
    { intros t0. destruct (Nat.eq_dec t0 t) as [->|Hn]; [now rewrite rs_same|now rewrite rs_other]. }
    assert (Hne : os a t <> ONone) by (rewrite Hos; discriminate).
    assert (Uniq : forall t0, t0 <> t -> os a t0 = ONone).
    { intros t0 Hn. destruct (os_none_dec (os a t0)) as [E|E]; auto. apply I2 in E. apply I2 in Hne. lia. }
    constructor; cbn [owner rspin rown cur ngen gsize mask buckets set_cur set_access].
    - destruct I1 as [H|(R & H1 & H2)]; [now left|right]. exists R. split; auto.
      destruct (Nat.eq_dec R t) as [->|Hn]; [rewrite os_same; discriminate|now rewrite os_other].
    - intros t0. destruct (Nat.eq_dec t0 t) as [->|Hn]; [intros _; now apply I2|rewrite os_other by exact Hn; apply I2].
    - intros gg i. setoid_rewrite Krs. apply I3.
    - intros t1 t2 gg i. rewrite !Krs. apply I4.
    - intros gg i. setoid_rewrite Krs. apply I5.
    - destruct I6 as (K1 & K2 & K3). split; [exact Hng|]. split; auto. intros t0 gg i. rewrite Krs. apply K3.
    - intros t0 g1 sz1. destruct (Nat.eq_dec t0 t) as [->|Hn]; [rewrite setv_same; cbn; apply I7|rewrite setv_other by exact Hn; apply I7].
    - intros t0 gg i. rewrite Krs. intros H. exfalso. eapply NoValid; eauto.
    - intros R g1 sz1 j. destruct (Nat.eq_dec R t) as [->|HnR].
      + rewrite os_same. cbn. intros E. inversion E; subst. auto.
      + rewrite os_other, (Uniq R HnR) by exact HnR. discriminate.
    - intros t0. destruct (Nat.eq_dec t0 t) as [->|Hn].
      + rewrite setv_same. cbn. intros _. now apply I10.
      + rewrite os_other, setv_other by exact Hn. apply I10.
    - exact I11.
    - destruct I12 as (s & st & H1 & H2 & H3 & H4). exists s, st. rewrite Hh.
      split; [exact H1|]. split; [exact H2|]. split.
      + intros t0. rewrite H3. destruct (Nat.eq_dec t0 t) as [->|Hn]; [now rewrite setv_same|now rewrite setv_other].
      + eapply absrel_ext; [|exact H4]. intros x. split; intros (t0 & H); exists t0.
        * destruct (Nat.eq_dec t0 t) as [->|Hn]; [rewrite Hos in H; destruct H|now rewrite os_other].
        * destruct (Nat.eq_dec t0 t) as [->|Hn]; [rewrite os_same in H; destruct H|now rewrite os_other in H].
  Qed.


  (** *** the five steps of a reentrant lock *)
  Lemma upd2_same {A} (f : nat -> nat -> A) g0 i x : upd2 f g0 i x g0 i = x.
  Proof. unfold upd2. now rewrite !Nat.eqb_refl. Qed.
  Lemma upd2_other {A} (f : nat -> nat -> A) g0 i x gg j : (gg, j) <> (g0, i) -> upd2 f g0 i x gg j = f gg j.
  Proof.
    unfold upd2. intros H. destruct (Nat.eqb_spec gg g0); destruct (Nat.eqb_spec j i); cbn; auto. subst. congruence.
  Qed.

  Lemma pair_dec (gg j g0 i : nat) : (gg, j) = (g0, i) \/ (gg, j) <> (g0, i).
  Proof. destruct (Nat.eq_dec gg g0); destruct (Nat.eq_dec j i); subst; auto; right; congruence. Qed.

  Lemma rholds_inv r g0 i gg j : rholds r g0 i -> rholds r gg j -> (gg, j) = (g0, i).
  Proof. intros [H|[H|[H|H]]] [K|[K|[K|K]]]; congruence. Qed.

  Definition with_rs (v : tview) (r : rstate) : tview := mkTV (v_op v) r (v_os v) (v_arr v) (v_mask v).

  Ltac rstep Hi :=
    eapply Inv_rstep; [exact Hi|reflexivity|reflexivity|reflexivity|intros; reflexivity|reflexivity|reflexivity
                      |reflexivity|reflexivity|reflexivity|..]; cbn [rspin rown set_rspin set_rown v_rs v_os with_rs].

  (** compare-exchange 0 -> 1 succeeded *)
  Lemma Inv_take g a tr t g0 i :
    Inv g a tr -> rs a t = RNone -> rspin g g0 i = 0 -> g0 < ngen g ->
    Inv (set_rspin g (upd2 (rspin g) g0 i 1)) (setv a t (with_rs (a_view a t) (RTaken g0 i)))
        (tr ++ Conc.tag t [EvAcc KCas (o_rspin g0 i) true]).
  Proof.
    intros Hi Hrs H0 Hg. pose proof Hi as [I1 I2 I3 I4 I5 I6 I7 I8 I9 I10 I11 I12].
    assert (Hfree : forall t0, ~ rholds (rs a t0) g0 i).
    { intros t0 H. assert (rspin g g0 i = 1) by (apply (proj2 (I3 g0 i)); eauto). lia. }
    assert (Hme : forall gg j, ~ rholds (rs a t) gg j) by (intros gg j [H|[H|[H|H]]]; congruence).
    rstep Hi.
    - apply hist_of_acc.
    - intros gg j. destruct (pair_dec gg j g0 i) as [E|E].
      + inversion E; subst. rewrite upd2_same. split; [now right|]. split; auto. intros _. left. left. reflexivity.
      + rewrite upd2_other by exact E. destruct (I3 gg j) as [K1 K2]. split; auto. rewrite K2. split.
        * intros (t0 & H). right. exists t0. split; auto. intros ->. eapply Hme; eauto.
        * intros [H|(t0 & _ & H)]; [exfalso; apply E; destruct H as [H|[H|[H|H]]]; congruence|eauto].
    - intros gg j H. assert ((gg, j) = (g0, i)) by (destruct H as [H|[H|[H|H]]]; congruence). inversion H1; subst.
      split; auto.
    - intros gg j. destruct (I5 gg j) as [H|(t0 & H1 & H2)]; [now left|]. right. right. exists t0. split; auto.
      intros ->. destruct H2 as [H2|H2]; congruence.
    - intros gg j H. discriminate.
    - tauto.
    - reflexivity.
    - intros p sz j H. fold (os a t) in H. eauto.
    - intros t0 gg j Hn H. destruct (I8 t0 gg j H) as (_ & _ & V4 & V5). split; [intros; eapply V4; eauto|intros p; apply V5].
  Qed.

  (** m_OwnerId.store( me ) *)
  Lemma Inv_own g a tr t g0 i :
    Inv g a tr -> rs a t = RTaken g0 i ->
    Inv (set_rown g (upd2 (rown g) g0 i (S t))) (setv a t (with_rs (a_view a t) (RHeld g0 i)))
        (tr ++ Conc.tag t [EvAcc KSt (o_rown g0 i) true]).
  Proof.
    intros Hi Hrs. pose proof Hi as [I1 I2 I3 I4 I5 I6 I7 I8 I9 I10 I11 I12].
    assert (Hme : rholds (rs a t) g0 i) by (left; exact Hrs).
    rstep Hi.
    - apply hist_of_acc.
    - intros gg j. destruct (I3 gg j) as [K1 K2]. split; auto. rewrite K2. split.
      + intros (t0 & H). destruct (Nat.eq_dec t0 t) as [->|Hn]; [|right; eauto].
        left. pose proof (rholds_inv _ _ _ _ _ Hme H) as E. inversion E; subst. right. left. reflexivity.
      + intros [H|(t0 & _ & H)]; [|eauto]. exists t.
        assert ((gg, j) = (g0, i)) by (destruct H as [H|[H|[H|H]]]; congruence). inversion H0; subst. exact Hme.
    - intros gg j H. assert ((gg, j) = (g0, i)) by (destruct H as [H|[H|[H|H]]]; congruence). inversion H0; subst.
      split; [|eapply (proj2 (proj2 I6)); eauto]. intros t0 Hn H1. apply Hn. eapply I4; eauto.
    - intros gg j. destruct (pair_dec gg j g0 i) as [E|E].
      + inversion E; subst. rewrite upd2_same. right. left. split; auto. left. reflexivity.
      + rewrite upd2_other by exact E. destruct (I5 gg j) as [H|(t0 & H1 & H2)]; [now left|]. right. right. exists t0. split; auto.
        intros ->. destruct H2 as [H2|H2]; congruence.
    - intros gg j H. discriminate.
    - tauto.
    - reflexivity.
    - intros p sz j H. fold (os a t) in H. eauto.
    - intros t0 gg j Hn H. destruct (I8 t0 gg j H) as (_ & _ & V4 & V5). split; [intros; eapply V4; eauto|intros p; apply V5].
  Qed.

  (** the re-check of acquire() succeeded: owner word free and the lock array is still the current one *)
  Lemma Inv_validate g a tr t g0 i e :
    Inv g a tr -> rs a t = RHeld g0 i -> os a t = ONone -> owner g = 0 -> cur g = g0 -> i < gsize g g0 ->
    hist_of (tr ++ Conc.tag t [e]) = hist_of tr ->
    Inv g (setv a t (with_rs (a_view a t) (RValid g0 i))) (tr ++ Conc.tag t [e]).
  Proof.
    intros Hi Hrs Hos H0 Hc Hlt Hh. pose proof Hi as [I1 I2 I3 I4 I5 I6 I7 I8 I9 I10 I11 I12].
    assert (Hme : rholds (rs a t) g0 i) by (right; left; exact Hrs).
    assert (None_ : forall t0, os a t0 = ONone).
    { intros t0. destruct (os_none_dec (os a t0)) as [E|E]; auto. apply I2 in E. lia. }
    rstep Hi.
    - exact Hh.
    - intros gg j. destruct (I3 gg j) as [K1 K2]. split; auto. rewrite K2. split.
      + intros (t0 & H). destruct (Nat.eq_dec t0 t) as [->|Hn]; [|right; eauto].
        left. pose proof (rholds_inv _ _ _ _ _ Hme H) as E. inversion E; subst. right. right. left. reflexivity.
      + intros [H|(t0 & _ & H)]; [|eauto]. exists t.
        assert ((gg, j) = (g0, i)) by (destruct H as [H|[H|[H|H]]]; congruence). inversion H1; subst. exact Hme.
    - intros gg j H. assert ((gg, j) = (g0, i)) by (destruct H as [H|[H|[H|H]]]; congruence). inversion H1; subst.
      split; [|eapply (proj2 (proj2 I6)); eauto]. intros t0 Hn H2. apply Hn. eapply I4; eauto.
    - intros gg j. destruct (I5 gg j) as [H|(t0 & H1 & H2)]; [now left|]. right.
      destruct (Nat.eq_dec t0 t) as [->|Hn]; [left|right; eauto].
      split; auto. destruct H2 as [H2|H2]; rewrite Hrs in H2; inversion H2; subst. right. reflexivity.
    - intros gg j H. inversion H; subst. split; auto. split; auto. split; [exact Hos|]. split.
      + intros R p sz j0 _ HR. rewrite None_ in HR. discriminate.
      + intros R p _. rewrite None_. discriminate.
    - tauto.
    - reflexivity.
    - intros p sz j H. fold (os a t) in H. rewrite Hos in H. discriminate.
    - intros t0 gg j Hn H. fold (os a t). rewrite Hos. split; intros; discriminate.
  Qed.

  (** m_OwnerId.store( 0 ) of unlock() *)
  Lemma Inv_disown g a tr t g0 i :
    Inv g a tr -> rowned (rs a t) g0 i ->
    Inv (set_rown g (upd2 (rown g) g0 i 0)) (setv a t (with_rs (a_view a t) (RRel g0 i)))
        (tr ++ Conc.tag t [EvAcc KSt (o_rown g0 i) true]).
  Proof.
    intros Hi Hrs. pose proof Hi as [I1 I2 I3 I4 I5 I6 I7 I8 I9 I10 I11 I12].
    assert (Hme : rholds (rs a t) g0 i) by (destruct Hrs as [H|H]; [right; left|right; right; left]; exact H).
    rstep Hi.
    - apply hist_of_acc.
    - intros gg j. destruct (I3 gg j) as [K1 K2]. split; auto. rewrite K2. split.
      + intros (t0 & H). destruct (Nat.eq_dec t0 t) as [->|Hn]; [|right; eauto].
        left. pose proof (rholds_inv _ _ _ _ _ Hme H) as E. inversion E; subst. right. right. right. reflexivity.
      + intros [H|(t0 & _ & H)]; [|eauto]. exists t.
        assert ((gg, j) = (g0, i)) by (destruct H as [H|[H|[H|H]]]; congruence). inversion H0; subst. exact Hme.
    - intros gg j H. assert ((gg, j) = (g0, i)) by (destruct H as [H|[H|[H|H]]]; congruence). inversion H0; subst.
      split; [|eapply (proj2 (proj2 I6)); eauto]. intros t0 Hn H1. apply Hn. eapply I4; eauto.
    - intros gg j. destruct (pair_dec gg j g0 i) as [E|E].
      + inversion E; subst. rewrite upd2_same. now left.
      + rewrite upd2_other by exact E. destruct (I5 gg j) as [H|(t0 & H1 & H2)]; [now left|]. right. right. exists t0. split; auto.
        intros ->. apply E. apply (rholds_inv _ _ _ _ _ Hme).
        destruct H2 as [H2|H2]; [right; left|right; right; left]; exact H2.
    - intros gg j H. discriminate.
    - tauto.
    - reflexivity.
    - intros p sz j H. fold (os a t) in H. eauto.
    - intros t0 gg j Hn H. destruct (I8 t0 gg j H) as (_ & _ & V4 & V5). split; [intros; eapply V4; eauto|intros p; apply V5].
  Qed.

  (** m_spin.store( 0 ) of unlock(); a resizer scanning cell [i] of the current array moves on to the next cell *)
  Lemma Inv_release g a tr t g0 i (adv : bool) :
    Inv g a tr -> rs a t = RRel g0 i ->
    (adv = true -> exists sz, os a t = OScan g0 sz i /\ i < sz) ->
    let v := a_view a t in
    let v' := mkTV (v_op v) RNone (if adv then match v_os v with OScan g1 sz j => OScan g1 sz (S j) | o => o end else v_os v) (v_arr v) (v_mask v) in
    Inv (set_rspin g (upd2 (rspin g) g0 i 0)) (setv a t v') (tr ++ Conc.tag t [EvAcc KSt (o_rspin g0 i) true]).
  Proof.
    intros Hi Hrs Hadv v v'. pose proof Hi as [I1 I2 I3 I4 I5 I6 I7 I8 I9 I10 I11 I12].
    assert (Hme : rholds (rs a t) g0 i) by (right; right; right; exact Hrs).
    assert (Hos' : v_os v' = os a t \/ exists sz, adv = true /\ os a t = OScan g0 sz i /\ i < sz /\ v_os v' = OScan g0 sz (S i)).
    { subst v'. cbn [v_os]. destruct adv; [|now left]. right. destruct (Hadv eq_refl) as (sz & H1 & H2). exists sz.
      unfold os in H1. fold v in H1. rewrite H1. auto. }
    rstep Hi.
    - apply hist_of_acc.
    - intros gg j. destruct (pair_dec gg j g0 i) as [E|E].
      + inversion E; subst. rewrite upd2_same. split; [now left|]. split; [discriminate|].
        intros [H|(t0 & Hn & H)]; [destruct H as [H|[H|[H|H]]]; discriminate|]. exfalso. apply Hn. eapply I4; eauto.
      + rewrite upd2_other by exact E. destruct (I3 gg j) as [K1 K2]. split; auto. rewrite K2. split.
        * intros (t0 & H). right. exists t0. split; auto. intros ->. apply E. apply (rholds_inv _ _ _ _ _ Hme H).
        * intros [H|(t0 & _ & H)]; [destruct H as [H|[H|[H|H]]]; discriminate|eauto].
    - intros gg j [H|[H|[H|H]]]; discriminate.
    - intros gg j. destruct (I5 gg j) as [H|(t0 & H1 & H2)]; [now left|]. right. right. exists t0. split; auto.
      intros ->. destruct H2 as [H2|H2]; congruence.
    - intros gg j H. discriminate.
    - destruct Hos' as [E|(sz & _ & H1 & _ & E)]; rewrite E; [tauto|]. rewrite H1. split; discriminate.
    - destruct Hos' as [E|(sz & _ & H1 & _ & E)]; rewrite E; [reflexivity|now rewrite H1].
    - intros g1 sz j H. destruct Hos' as [E|(sz' & _ & H1 & H2 & E)]; rewrite E in H.
      + eauto.
      + inversion H; subst. destruct (I9 t g1 sz i H1) as (S1 & S2 & S3). split; [auto|split; [auto|lia]].
    - intros t0 gg j Hn H. destruct (I8 t0 gg j H) as (V1 & V2 & V4 & V5).
      destruct Hos' as [E|(sz' & _ & H1 & H2 & E)]; rewrite E.
      + split; [intros; eapply V4; eauto|intros p; apply V5].
      + split; [|discriminate]. intros g1 sz j0 E'. injection E' as <- <- <-.
        specialize (V4 t g0 sz' i H1). destruct (I9 t g0 sz' i H1) as (S1 & _).
        assert (j <> i). { intros ->. apply Hn. eapply I4; [right; right; left; exact H|]. rewrite V1, <- S1. exact Hme. }
        lia.
  Qed.

End Refinable.

Arguments i_word {hm g a tr}. Arguments i_owner {hm g a tr}. Arguments i_spin {hm g a tr}. Arguments i_excl {hm g a tr}.
Arguments i_rown {hm g a tr}. Arguments i_gen {hm g a tr}. Arguments i_arr {hm g a tr}. Arguments i_valid {hm g a tr}.
Arguments i_scan {hm g a tr}. Arguments i_mask {hm g a tr}. Arguments i_tab {hm g a tr}. Arguments i_abs {hm g a tr}.
