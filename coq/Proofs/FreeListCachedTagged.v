(** * CachedFreeList<TaggedFreeList, 4> (model LV.Model.FreeListCached over LV.Model.FreeListTagged).

    The backing list's invariant is reused unchanged: cache slot i is represented as an extra, permanently
    idle "place-holder thread" NR+i of the backing list's invariant whose held list is the slot's content.
    An access of the backing list performed by the wrapper ([lift]) preserves this link because the proof
    rule's frame condition says that only the acting thread's view changes. *)
From Coq Require Import ZArith List String Bool Lia PeanoNat.
From LV Require Import Base.Conc Base.Events Model.FreeList Model.FreeListTagged Model.FreeListCached
  Proofs.FreeListBase Proofs.FreeListTaggedInv Proofs.FreeListTaggedSafe.
Import ListNotations.
Local Open Scope Z_scope.
Local Open Scope string_scope.

Notation CGt := (CG TG).

Section Transfer.
  Variable N : nat.
  Variable valid0 : nat -> bool.
  Hypothesis Hv0 : valid0 O = false.
  Notation InvTS := (InvTS N valid0).

  (** put into a cache slot: node n goes from thread t (phase TPPut n) to the idle place holder t2 *)
  Lemma ttransfer_put g a t t2 n :
    InvTS g a -> tph a t = TPPut n -> (t2 < N)%nat -> t <> t2 -> tph a t2 = TIdle -> thl a t2 = [] ->
    InvTS g (mkTA (upd (tst a) n (THeld t2)) (tlst a) (upd (tph a) t TBusy) (upd (thl a) t2 [n]) (town a)).
  Proof.
    intros Hi Hp Ht2 Hne Hp2 Hh2.
    pose proof (TS_ph Hi t) as Hx. rewrite Hp in Hx. cbn in Hx. destruct Hx as [Hst Hnin].
    constructor; cbn [tst tlst tph thl].
    - intros m. unfold upd. destruct (Nat.eqb_spec m n) as [->|Hm]; [|apply (TS_valid Hi)].
      split; [discriminate|]. intros Hv. apply (TS_valid Hi) in Hv. congruence.
    - intros m. unfold tst_ok. cbn [tst tph thl]. unfold upd at 1. destruct (Nat.eqb_spec m n) as [->|Hm].
      + left. rewrite upd_same. left; reflexivity.
      + pose proof (TS_st Hi m) as Ho. unfold tst_ok in Ho. destruct (tst a m) as [|tm|] eqn:Es; auto.
        destruct (Nat.eq_dec tm t2) as [E2|H2].
        * subst tm. rewrite Hh2, Hp2 in Ho. destruct Ho as [[]|Ho]; discriminate.
        * rewrite (upd_other (thl a) t2 [n] tm H2). destruct (Nat.eq_dec tm t) as [E1|H1].
          -- subst tm. rewrite Hp in Ho. destruct Ho as [Ho|Ho]; [left; exact Ho|]. cbn in Ho. congruence.
          -- rewrite (upd_other (tph a) t TBusy tm H1). exact Ho.
    - apply (TS_chain Hi).
    - apply (TS_lnd Hi).
    - intros m. unfold upd. destruct (Nat.eqb_spec m n) as [->|Hm]; [|apply (TS_lin Hi)].
      split; [|discriminate]. intros Hin. apply (TS_lin Hi) in Hin. congruence.
    - intros tq. pose proof (TS_ph Hi tq) as Ho.
      assert (Hcl : forall m, tst a m = THeld tq -> tq <> t -> upd (tst a) n (THeld t2) m = THeld tq).
      { intros m E Hq. unfold upd. destruct (Nat.eqb_spec m n) as [->|Hm]; [congruence|exact E]. }
      destruct (Nat.eq_dec tq t) as [->|Hq]; [rewrite (upd_same (tph a) t TBusy); exact I|].
      rewrite (upd_other (tph a) t TBusy tq Hq).
      assert (Hhl : forall m, ~ In m (thl a tq) -> ~ In m (upd (thl a) t2 [n] tq) \/ (tq = t2 /\ m = n)).
      { intros m Hm. unfold upd. destruct (Nat.eqb_spec tq t2) as [->|H2]; [|left; exact Hm].
        destruct (Nat.eq_dec m n) as [->|Hmn]; [right; auto|left]. intros [E|[]]. congruence. }
      destruct (tph a tq) as [| |m|m hp ht|m hp ht|m|hp ht|hp ht nx] eqn:Ep; cbn in *; try exact Ho.
      all: try (destruct (Nat.eq_dec tq t2) as [->|H2]; [congruence|]).
      + destruct Ho as [Ho1 Ho2]. split; [apply Hcl; auto|rewrite upd_other by exact H2; exact Ho2].
      + destruct Ho as [Ho1 Ho2]. split; [apply Hcl; auto|rewrite upd_other by exact H2; exact Ho2].
      + destruct Ho as (Ho1 & Ho2 & Ho3). split; [apply Hcl; auto|split; [rewrite upd_other by exact H2; exact Ho2|exact Ho3]].
      + destruct Ho as [Ho1 Ho2]. split; [apply Hcl; auto|rewrite upd_other by exact H2; exact Ho2].
    - intros tq m Hin. unfold upd in Hin. unfold upd. destruct (Nat.eqb_spec tq t2) as [->|H2].
      + destruct Hin as [<-|[]]. now rewrite Nat.eqb_refl.
      + pose proof (TS_held Hi tq m Hin) as E. destruct (Nat.eqb_spec m n) as [->|Hm]; [|exact E].
        rewrite Hst in E. injection E as <-. contradiction.
    - intros tq. unfold upd. destruct (Nat.eqb_spec tq t2); [repeat constructor; intros []|apply (TS_hnd Hi)].
    - intros tq Hq. assert (H2 : tq <> t2) by lia. destruct (Nat.eq_dec tq t) as [->|H1].
      + destruct (TS_out Hi t Hq) as [E _]. congruence.
      + rewrite !upd_other by assumption. apply (TS_out Hi); exact Hq.
  Qed.

  (** take from a cache slot: node n goes from the place holder t2 (held list [n]) to thread t *)
  Lemma ttransfer_get g a t t2 n :
    InvTS g a -> tclaim (tph a t) = None -> tph a t <> TIdle -> (t2 < N)%nat -> t <> t2 -> tph a t2 = TIdle -> thl a t2 = [n] ->
    InvTS g (mkTA (upd (tst a) n (THeld t)) (tlst a) (upd (tph a) t (TPRet n)) (upd (thl a) t2 []) (town a)).
  Proof.
    intros Hi Hc Hni Ht2 Hne Hp2 Hh2.
    assert (Hst : tst a n = THeld t2) by (apply (TS_held Hi); rewrite Hh2; left; reflexivity).
    assert (Hnin : ~ In n (thl a t)). { intros Hin. apply (TS_held Hi) in Hin. congruence. }
    constructor; cbn [tst tlst tph thl].
    - intros m. unfold upd. destruct (Nat.eqb_spec m n) as [->|Hm]; [|apply (TS_valid Hi)].
      split; [discriminate|]. intros Hv. apply (TS_valid Hi) in Hv. congruence.
    - intros m. unfold tst_ok. cbn [tst tph thl]. unfold upd at 1. destruct (Nat.eqb_spec m n) as [->|Hm].
      + right. rewrite upd_same. reflexivity.
      + pose proof (TS_st Hi m) as Ho. unfold tst_ok in Ho. destruct (tst a m) as [|tm|] eqn:Es; auto.
        destruct (Nat.eq_dec tm t2) as [E2|H2].
        * subst tm. rewrite Hh2, Hp2 in Ho. destruct Ho as [[E|[]]|Ho]; [congruence|discriminate].
        * rewrite (upd_other (thl a) t2 [] tm H2). destruct (Nat.eq_dec tm t) as [E1|H1].
          -- subst tm. destruct Ho as [Ho|Ho]; [left; exact Ho|congruence].
          -- rewrite (upd_other (tph a) t (TPRet n) tm H1). exact Ho.
    - apply (TS_chain Hi).
    - apply (TS_lnd Hi).
    - intros m. unfold upd. destruct (Nat.eqb_spec m n) as [->|Hm]; [|apply (TS_lin Hi)].
      split; [|discriminate]. intros Hin. apply (TS_lin Hi) in Hin. congruence.
    - intros tq. pose proof (TS_ph Hi tq) as Ho.
      destruct (Nat.eq_dec tq t) as [->|Hq].
      + rewrite (upd_same (tph a) t (TPRet n)). cbn. rewrite upd_same. split; [reflexivity|]. rewrite upd_other by exact Hne. exact Hnin.
      + rewrite (upd_other (tph a) t (TPRet n) tq Hq).
        assert (Hcl : forall m, tst a m = THeld tq -> tq <> t2 -> upd (tst a) n (THeld t) m = THeld tq).
        { intros m E H2. unfold upd. destruct (Nat.eqb_spec m n) as [->|Hm]; [congruence|exact E]. }
        destruct (tph a tq) as [| |m|m hp ht|m hp ht|m|hp ht|hp ht nx] eqn:Ep; cbn in *; try exact Ho.
        all: try (destruct (Nat.eq_dec tq t2) as [->|H2]; [congruence|]).
        * destruct Ho as [Ho1 Ho2]. split; [apply Hcl; auto|rewrite upd_other by exact H2; exact Ho2].
        * destruct Ho as [Ho1 Ho2]. split; [apply Hcl; auto|rewrite upd_other by exact H2; exact Ho2].
        * destruct Ho as (Ho1 & Ho2 & Ho3). split; [apply Hcl; auto|split; [rewrite upd_other by exact H2; exact Ho2|exact Ho3]].
        * destruct Ho as [Ho1 Ho2]. split; [apply Hcl; auto|rewrite upd_other by exact H2; exact Ho2].
    - intros tq m Hin. unfold upd in Hin. unfold upd. destruct (Nat.eqb_spec tq t2) as [->|H2]; [contradiction|].
      pose proof (TS_held Hi tq m Hin) as E. destruct (Nat.eqb_spec m n) as [->|Hm]; [|exact E]. congruence.
    - intros tq. unfold upd. destruct (Nat.eqb_spec tq t2); [constructor|apply (TS_hnd Hi)].
    - intros tq Hq. assert (H2 : tq <> t2) by lia. destruct (Nat.eq_dec tq t) as [->|H1].
      + destruct (TS_out Hi t Hq) as [E _]. congruence.
      + rewrite !upd_other by assumption. apply (TS_out Hi); exact Hq.
  Qed.
End Transfer.

Section CT.
  Variable NR : nat.                         (* client threads *)
  Let N := (NR + CACHE_SIZE)%nat.            (* + one place holder per cache slot *)
  Variable valid0 : nat -> bool.
  Hypothesis Hv0 : valid0 O = false.
  Variable own0 : omap.
  Variable k0 : nat.

  Notation InvTS := (InvTS N valid0).
  Notation InvTT := (InvTT own0 k0 NR).
  Notation TInvI := (TInv N valid0 own0 k0 NR).
  Notation safeT := (@Conc.safe TG TV ev TAux (list nat * tphase) tview TInvI).

  Lemma HNR : (NR <= N)%nat.
  Proof. unfold N. lia. Qed.

  Lemma nwp tr tr' : nowrap k0 (tr ++ tr') -> nowrap k0 tr.
  Proof. exact (nowrap_prefix N k0 NR HNR tr tr'). Qed.

  (** cache slot i is the held list of place holder NR+i *)
  Definition Link (g : CGt) (a : TAux) : Prop :=
    forall i, (i < CACHE_SIZE)%nat ->
      tph a (NR + i) = TIdle /\ thl a (NR + i) = (if Nat.eqb (cache TG g i) 0 then [] else [cache TG g i]).

  Definition CInv (g : CGt) (a : TAux) (tr : list (nat * ev)) : Prop :=
    nowrap k0 tr -> InvTS (back TG g) a /\ InvTT (back TG g) a tr /\ Link g a.

  (** the view of a place holder is not a thread's view: it is masked *)
  Definition cview (a : TAux) (t : nat) : list nat * tphase :=
    if Nat.ltb t NR then tview a t else ([], TIdle).

  Notation safeC := (@Conc.safe CGt V ev TAux (list nat * tphase) cview CInv).

  Lemma cview_lt a t : (t < NR)%nat -> cview a t = tview a t.
  Proof. intros H. unfold cview. destruct (Nat.ltb_spec t NR); [reflexivity|lia]. Qed.

  Lemma cframe_of a a' t : Conc.frame tview t a a' -> Conc.frame cview t a a'.
  Proof. intros Hf t' Hne. unfold cview. destruct (Nat.ltb t' NR); [apply Hf; exact Hne|reflexivity]. Qed.

  Lemma cframe_ph a a' t : (forall t', (t' < NR)%nat -> t' <> t -> tview a' t' = tview a t') -> Conc.frame cview t a a'.
  Proof. intros Hf t' Hne. unfold cview. destruct (Nat.ltb_spec t' NR); [apply Hf; assumption|reflexivity]. Qed.

  Lemma CInv_inner g a tr : CInv g a tr -> TInvI (back TG g) a tr.
  Proof. intros H Hnw. destruct (H Hnw) as (A & B & _). split; assumption. Qed.

  Lemma link_frame (g g' : CGt) a a' t :
    Link g a -> (t < NR)%nat -> Conc.frame tview t a a' -> (forall i, cache TG g' i = cache TG g i) -> Link g' a'.
  Proof.
    intros HL Ht Hf Hc i Hi. assert (Hne : (NR + i)%nat <> t) by lia.
    pose proof (Hf _ Hne) as E. unfold tview in E. injection E as E1 E2. rewrite E1, E2, Hc. apply HL; exact Hi.
  Qed.

  (** an operation of the backing list, performed through the wrapper *)
  Lemma safe_lift R (p : tprog R) : forall t l Q, (t < NR)%nat -> safeT t p l Q -> safeC t (lift TG p) l Q.
  Proof.
    induction p as [r|es k IH|f k IH]; intros t l Q Ht Hs; cbn [lift Conc.safe] in *.
    - exact Hs.
    - intros g a tr HC Hv. rewrite cview_lt in Hv by exact Ht.
      destruct (Hs (back TG g) a tr (CInv_inner _ _ _ HC) Hv) as (a' & H1 & H2 & H3).
      exists a'. split; [|split; [apply cframe_of; exact H2|rewrite cview_lt by exact Ht; apply IH; auto]].
      intros Hnw. destruct (H1 Hnw) as [A B]. split; [exact A|split; [exact B|]].
      destruct (HC (nwp _ _ Hnw)) as (_ & _ & HL). eapply link_frame; eauto.
    - intros g a tr HC Hv. rewrite cview_lt in Hv by exact Ht.
      destruct (Hs (back TG g) a tr (CInv_inner _ _ _ HC) Hv) as (a' & H1 & H2 & H3).
      destruct (f (back TG g)) as [[g0 v] es] eqn:Ef. cbn [fst snd] in *.
      exists a'. split; [|split; [apply cframe_of; exact H2|rewrite cview_lt by exact Ht; apply IH; auto]].
      intros Hnw. destruct (H1 Hnw) as [A B]. split; [exact A|split; [exact B|]].
      destruct (HC (nwp _ _ Hnw)) as (_ & _ & HL). eapply link_frame; eauto.
  Qed.

  (** a client event of the wrapper, from the rule of the backing list's development *)
  Lemma outer_emit t es l l' R (kO : cprog TG R) Q :
    (t < NR)%nat -> safeT t (Emit es (Ret tt)) l (fun _ x => x = l') ->
    safeC t kO l' Q -> safeC t (Emit es kO) l Q.
  Proof.
    intros Ht Hs Hk. cbn [Conc.safe] in *. intros g a tr HC Hv. rewrite cview_lt in Hv by exact Ht.
    destruct (Hs (back TG g) a tr (CInv_inner _ _ _ HC) Hv) as (a' & H1 & H2 & H3).
    exists a'. split; [|split; [apply cframe_of; exact H2|rewrite cview_lt by exact Ht; rewrite H3; exact Hk]].
    intros Hnw. destruct (H1 Hnw) as [A B]. split; [exact A|split; [exact B|]].
    destruct (HC (nwp _ _ Hnw)) as (_ & _ & HL). eapply link_frame; eauto.
  Qed.

  Lemma InvTT_cache_ev (g0 : TG) a a' tr t kd i ok :
    InvTT g0 a tr -> town a' = town a ->
    (forall t', (t' < NR)%nat -> thl a' t' = thl a t') ->
    (forall t', tis_idle (tph a' t') = tis_idle (tph a t')) ->
    InvTT g0 a' (tr ++ Conc.tag t [EvAcc kd (obj_cache i) ok]).
  Proof.
    intros (T0 & T1 & T2 & T3) Ho Hh Hi. split; [|split; [|split]].
    - rewrite ncas_app. cbn [Conc.tag map ncas]. rewrite T0.
      assert (is_head_cas (EvAcc kd (obj_cache i) ok) = false) as -> by (destruct kd, ok; reflexivity). lia.
    - rewrite mon_run_app, T1, Ho. reflexivity.
    - intros n t'. rewrite Ho, T2. split; intros [A B]; (split; [exact A|]); [rewrite Hh by exact A|rewrite <- Hh by exact A]; exact B.
    - intros t'. rewrite opens_app, Hi, T3. cbn. destruct (Nat.eqb t t'); lia.
  Qed.

  (** *** the accesses of the cache *)
  Lemma rule_ld_cache t i l R (k : V -> cprog TG R) Q :
    (forall v, safeC t (k v) l Q) -> safeC t (Act (ca_ld_cache TG i) k) l Q.
  Proof.
    intros Hk. cbn [Conc.safe]. intros g a tr HC Hv. cbn [ca_ld_cache fst snd].
    exists a. split; [|split; [intros ? ?; reflexivity|rewrite Hv; apply Hk]].
    intros Hnw. destruct (HC (nwp _ _ Hnw)) as (A & B & C). split; [exact A|split; [|exact C]].
    eapply InvTT_cache_ev; eauto.
  Qed.

  Ltac open_c Ht g a tr HC Hv Hh Hp :=
    cbn [Conc.safe]; intros g a tr HC Hv; rewrite cview_lt in Hv by exact Ht; unfold tview in Hv; injection Hv as Hh Hp.

  Definition aux_cput (a : TAux) (t i n : nat) : TAux :=
    mkTA (upd (tst a) n (THeld (NR + i))) (tlst a) (upd (tph a) t TBusy) (upd (thl a) (NR + i) [n]) (town a).
  Definition aux_ctake (a : TAux) (t i n : nat) : TAux :=
    mkTA (upd (tst a) n (THeld t)) (tlst a) (upd (tph a) t (TPRet n)) (upd (thl a) (NR + i) []) (town a).

  Lemma rule_cas_cache_put t i H n R (k : V -> cprog TG R) Q :
    (t < NR)%nat -> (i < CACHE_SIZE)%nat ->
    safeC t (k (O, 0)) (H, TBusy) Q ->
    (forall c, c <> O -> safeC t (k (c, 0)) (H, TPPut n) Q) ->
    safeC t (Act (ca_cas_cache TG i O n) k) (H, TPPut n) Q.
  Proof.
    intros Ht Hi Ks Kf. open_c Ht g a tr HC Hv Hh Hp.
    unfold ca_cas_cache. destruct (Nat.eqb_spec (cache TG g i) 0) as [E|E]; cbn [fst snd].
    - exists (aux_cput a t i n). split; [|split].
      + intros Hnw. destruct (HC (nwp _ _ Hnw)) as (A & B & C).
        destruct (C i Hi) as [Ci1 Ci2]. rewrite E in Ci2. cbn in Ci2.
        pose proof (TS_ph A t) as Hx. rewrite Hp in Hx. cbn in Hx. destruct Hx as [Hst _].
        assert (Hnz : n <> O). { intros ->. rewrite (tst_zero N valid0 Hv0 _ a A) in Hst. discriminate. }
        split; [|split].
        * cbn [back set_cache]. apply ttransfer_put; auto; unfold N; lia.
        * cbn [back set_cache]. eapply InvTT_cache_ev; eauto.
          -- intros t' Ht'. cbn. apply upd_other. lia.
          -- intros t'. cbn. unfold upd. destruct (Nat.eqb_spec t' t) as [->|_]; [rewrite Hp|]; reflexivity.
        * intros j Hj. cbn [aux_cput tph thl cache set_cache]. destruct (Nat.eq_dec j i) as [->|Hji].
          -- rewrite upd_other by lia. rewrite upd_same, Nat.eqb_refl. split; [exact Ci1|].
             destruct (Nat.eqb_spec n 0); [contradiction|reflexivity].
          -- rewrite !upd_other by lia. destruct (Nat.eqb_spec j i); [contradiction|]. apply C; exact Hj.
      + apply cframe_ph. intros t' Hlt Hne. unfold tview. cbn. rewrite !upd_other by lia. reflexivity.
      + rewrite cview_lt by exact Ht. unfold tview. cbn. rewrite upd_same, upd_other by lia. rewrite Hh, E. exact Ks.
    - exists a. split; [|split; [intros ? ?; reflexivity|]].
      + intros Hnw. destruct (HC (nwp _ _ Hnw)) as (A & B & C). split; [exact A|split; [|exact C]].
        eapply InvTT_cache_ev; eauto.
      + rewrite cview_lt by exact Ht. unfold tview. rewrite Hh, Hp. apply Kf. exact E.
  Qed.

  Lemma rule_cas_cache_take t i H p c R (k : V -> cprog TG R) Q :
    (t < NR)%nat -> (i < CACHE_SIZE)%nat -> c <> O -> tclaim p = None -> p <> TIdle ->
    safeC t (k (c, 0)) (H, TPRet c) Q ->
    (forall x, x <> c -> safeC t (k (x, 0)) (H, p) Q) ->
    safeC t (Act (ca_cas_cache TG i c O) k) (H, p) Q.
  Proof.
    intros Ht Hi Hcz Hcl Hni Ks Kf. open_c Ht g a tr HC Hv Hh Hp.
    unfold ca_cas_cache. destruct (Nat.eqb_spec (cache TG g i) c) as [E|E]; cbn [fst snd].
    - exists (aux_ctake a t i c). split; [|split].
      + intros Hnw. destruct (HC (nwp _ _ Hnw)) as (A & B & C).
        destruct (C i Hi) as [Ci1 Ci2]. rewrite E in Ci2. destruct (Nat.eqb_spec c 0) as [|_]; [contradiction|].
        split; [|split].
        * cbn [back set_cache]. apply ttransfer_get; auto; try (unfold N; lia); rewrite Hp; assumption.
        * cbn [back set_cache]. eapply InvTT_cache_ev; eauto.
          -- intros t' Ht'. cbn. apply upd_other. lia.
          -- intros t'. cbn. unfold upd. destruct (Nat.eqb_spec t' t) as [->|_]; [rewrite Hp; destruct p; try reflexivity; congruence|reflexivity].
        * intros j Hj. cbn [aux_ctake tph thl cache set_cache]. destruct (Nat.eq_dec j i) as [->|Hji].
          -- rewrite upd_other by lia. rewrite upd_same, Nat.eqb_refl. split; [exact Ci1|reflexivity].
          -- rewrite !upd_other by lia. destruct (Nat.eqb_spec j i); [contradiction|]. apply C; exact Hj.
      + apply cframe_ph. intros t' Hlt Hne. unfold tview. cbn. rewrite !upd_other by lia. reflexivity.
      + rewrite cview_lt by exact Ht. unfold tview. cbn. rewrite upd_same, upd_other by lia. rewrite Hh, E. exact Ks.
    - exists a. split; [|split; [intros ? ?; reflexivity|]].
      + intros Hnw. destruct (HC (nwp _ _ Hnw)) as (A & B & C). split; [exact A|split; [|exact C]].
        eapply InvTT_cache_ev; eauto.
      + rewrite cview_lt by exact Ht. unfold tview. rewrite Hh, Hp. apply Kf. exact E.
  Qed.

  (** *** the programs of the wrapper *)
  Notation safe_in := (fun t => @Conc.safe TG TV ev TAux (list nat * tphase) tview TInvI).

  Lemma safe_cput fuel t slot H n : (t < NR)%nat -> (slot < CACHE_SIZE)%nat ->
    safeC t (cput TG tput fuel slot n) (H, TPPut n) (TQdone H).
  Proof.
    intros Ht Hs. unfold cput. apply rule_cas_cache_put; auto.
    - cbn. unfold TQdone. reflexivity.
    - intros c Hc. cbn [vnode fst]. destruct (Nat.eqb_spec c 0) as [E|_]; [contradiction|].
      apply safe_lift; [exact Ht|]. apply (safe_tput N valid0 Hv0 own0 k0 NR HNR).
  Qed.

  Definition CQget (H : list nat) : option nat -> list nat * tphase -> Prop :=
    fun r l => match r with
               | None => True
               | Some O => exists q, l = (H, q) /\ tclaim q = None /\ q <> TIdle
               | Some n => l = (H, TPRet n)
               end.

  Lemma safe_take_cell t i H p fail : (t < NR)%nat -> (i < CACHE_SIZE)%nat -> tclaim p = None -> p <> TIdle ->
    safeC t fail (H, p) (CQget H) -> safeC t (take_cell TG i fail) (H, p) (CQget H).
  Proof.
    intros Ht Hi Hc Hni Hf. unfold take_cell. apply rule_ld_cache. intros v. cbv zeta.
    destruct (Nat.eqb_spec (vnode v) 0) as [E|Hnz]; [exact Hf|].
    apply rule_cas_cache_take; auto.
    - cbn [vnode fst]. rewrite Nat.eqb_refl. cbn. destruct (vnode v); [contradiction|reflexivity].
    - intros x Hx. cbn [vnode fst] in *. destruct (Nat.eqb_spec x (vnode v)) as [E|_]; [contradiction|]. exact Hf.
  Qed.

  Lemma safe_scan t H p last : (t < NR)%nat -> tclaim p = None -> p <> TIdle ->
    safeC t last (H, p) (CQget H) ->
    forall rem i, (i + rem <= CACHE_SIZE)%nat -> safeC t (scan TG rem i last) (H, p) (CQget H).
  Proof.
    intros Ht Hc Hni Hl. induction rem as [|r IH]; intros i Hi; cbn [scan]; [exact Hl|].
    apply safe_take_cell; auto; [lia|]. apply IH. lia.
  Qed.

  Lemma TQget_CQget H r l : TQget H r l -> CQget H r l.
  Proof.
    destruct r as [[|n]|]; cbn; auto. intros [ht ->]. eexists. split; [reflexivity|]. split; [reflexivity|discriminate].
  Qed.

  Lemma safe_lift_tget fuel t H p : (t < NR)%nat -> tclaim p = None -> p <> TIdle ->
    safeC t (lift TG (tget fuel)) (H, p) (CQget H).
  Proof.
    intros Ht Hc Hni. eapply Conc.safe_weaken; [apply TQget_CQget|].
    apply safe_lift; [exact Ht|]. apply (safe_tget' N valid0 Hv0 own0 k0 NR HNR); assumption.
  Qed.

  Lemma safe_cget fuel t slot H : (t < NR)%nat -> (slot < CACHE_SIZE)%nat ->
    safeC t (cget TG tget fuel slot) (H, TBusy) (CQget H).
  Proof.
    intros Ht Hs. unfold cget. apply safe_take_cell; auto; try discriminate.
    apply Conc.safe_bind. eapply Conc.safe_weaken; [|apply (safe_lift_tget fuel t H TBusy Ht eq_refl); discriminate].
    intros r l Hl. destruct r as [[|n]|]; cbn in Hl.
    - destruct Hl as (q & -> & Hq1 & Hq2). apply safe_scan; auto. apply safe_lift_tget; auto.
    - subst l. cbn. reflexivity.
    - cbn. exact I.
  Qed.

  Lemma c_emit_plain t H p p' name args R (k : cprog TG R) Q :
    (t < NR)%nat -> tclaim p = None -> (p' = TIdle \/ p' = TBusy) ->
    (forall o, mon_ev o t (EvCli name args) = Some o) ->
    (if tis_idle p then 0 else 1) + ev_open (EvCli name args) = (if tis_idle p' then 0 else 1) ->
    safeC t k (H, p') Q -> safeC t (Emit [EvCli name args] k) (H, p) Q.
  Proof.
    intros Ht Hc Hp' Hm Ho Hk. eapply outer_emit; [exact Ht| |exact Hk].
    apply (rule_temit_plain N valid0 Hv0 own0 k0 NR HNR) with (p' := p'); auto; [unfold N; lia|]. cbn. reflexivity.
  Qed.

  Lemma safe_crun_ops fuel t slot : (t < NR)%nat -> (slot < CACHE_SIZE)%nat ->
    forall os H, safeC t (crun_ops TG tput tget fuel slot os H) (H, TIdle) (@Conc.QTrue _).
  Proof.
    intros Ht Hs. induction os as [|o r IH]; intros H; cbn [crun_ops]; [exact I|].
    destruct o as [|i].
    - apply c_emit_plain with (p' := TBusy); auto. apply Conc.safe_bind.
      eapply Conc.safe_weaken; [|apply safe_cget; auto].
      intros res l Hl. destruct res as [[|n]|]; cbn in Hl.
      + destruct Hl as (q & -> & Hq1 & Hq2). apply c_emit_plain with (p' := TIdle); auto.
        destruct q; try reflexivity; congruence.
      + subst l. eapply outer_emit; [exact Ht| |apply IH].
        apply (rule_temit_ret_get N valid0 Hv0 own0 k0 NR HNR); [exact Ht|]. cbn. reflexivity.
      + cbn [Conc.safe]. intros g a tr HC Hv. exists a. split; [|split; [intros ? ?; reflexivity|exact I]].
        intros Hnw. destruct (HC (nwp _ _ Hnw)) as (A & (T0 & T1 & T2 & T3) & C). split; [exact A|split; [|exact C]].
        split; [|split; [|split]].
        * rewrite ncas_app. cbn. lia.
        * rewrite mon_run_app, T1. reflexivity.
        * exact T2.
        * intros t'. rewrite opens_app, T3. cbn. destruct (Nat.eqb t t'); lia.
    - destruct (nth_error H i) as [n|] eqn:Hi.
      + eapply outer_emit; [exact Ht| |].
        * eapply (rule_temit_inv_put N valid0 Hv0 own0 k0 NR HNR); [unfold N; lia|exact Ht|exact Hi|]. cbn. reflexivity.
        * apply Conc.safe_bind. eapply Conc.safe_weaken; [|apply safe_cput; auto].
          intros ok l Hl. destruct ok.
          -- rewrite (Hl eq_refl). apply c_emit_plain with (p' := TIdle); auto.
          -- cbn [Conc.safe]. intros g a tr HC Hv. exists a. split; [|split; [intros ? ?; reflexivity|exact I]].
             intros Hnw. destruct (HC (nwp _ _ Hnw)) as (A & (T0 & T1 & T2 & T3) & C). split; [exact A|split; [|exact C]].
             split; [|split; [|split]].
             ++ rewrite ncas_app. cbn. lia.
             ++ rewrite mon_run_app, T1. reflexivity.
             ++ exact T2.
             ++ intros t'. rewrite opens_app, T3. cbn. destruct (Nat.eqb t t'); lia.
      + apply c_emit_plain with (p' := TIdle); auto.
  Qed.

  Lemma safe_cthread fuel t slot os H : (t < NR)%nat -> (slot < CACHE_SIZE)%nat ->
    safeC t (cthread_prog TG tput tget fuel slot os H) (H, TIdle) (@Conc.QTrue _).
  Proof.
    intros Ht Hs. unfold cthread_prog. cbn [Conc.safe]. intros g a tr HC Hv. cbn [ca_begin fst snd].
    exists a. split; [|split; [intros ? ?; reflexivity|rewrite Hv; apply safe_crun_ops; auto]].
    intros Hnw. destruct (HC (nwp _ _ Hnw)) as (A & (T0 & T1 & T2 & T3) & C). split; [exact A|split; [|exact C]].
    split; [|split; [|split]].
    - rewrite ncas_app. cbn. lia.
    - rewrite mon_run_app, T1. reflexivity.
    - exact T2.
    - intros t'. rewrite opens_app, T3. cbn. destruct (Nat.eqb t t'); lia.
  Qed.
End CT.
