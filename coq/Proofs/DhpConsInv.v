(** * DhpConsInv: the C03 invariant of LV.Proofs.DhpInvB with its pointer part made two-directional (conservation).

    [JW] of DhpInvB says: a pointer that is somewhere (cell of an array / in flight / disposed) is in one place only
    and was retired.  This file shadows [JW] by a record with the same five fields plus
      - [jw_6] (marker): a thread whose ghost field vb_move is [Some (r, None)] with no cell cursor has moved every
        cell of [r] (moved = rw): the effective content of [r] is empty.  Besides help_scan, the marker is set by two
        ghost steps (retired_array::init sees list_head_ == nullptr; free_thread_data sees retired_.empty()) so that
        the knowledge "the array of my record is empty" survives from the node that reads it to the node that uses it;
      - [jw_7] (conservation, the converse of JW): as long as no retired cell was written out of bounds
        ([oob] = false), every retired pointer has a place, and a pointer whose place is "array of r" IS in the
        effective content of r, "in flight in t" IS pending or freed in t (and t owns a record), "disposed" IS in
        the disposed list; every record with an array is on thread_list_.
    [piB] is shadowed by a version that also keeps [oob].  The copies LV.Proofs.DhpCons... of DhpQuietB ... DhpMainC
    differ from the originals only where the JW part of a goal is proved (and in the three places described above). *)
From Coq Require Import ZArith NArith List String Bool Lia PeanoNat.
From LV Require Import Base.Conc Base.Events Model.DhpLang Model.Dhp Proofs.DhpBase Proofs.DhpSeq Proofs.DhpSeqThm Proofs.DhpHist Proofs.DhpInvB.
Import ListNotations.

(** what must stay the same in a view for the pointer part *)
Definition Vsame (v v' : VB) : Prop :=
  vb_pend v' = vb_pend v /\ vb_freed v' = vb_freed v /\ (vb_own v <> [] -> vb_own v' <> []) /\
  vb_move v' = vb_move v /\ vb_cur v' = vb_cur v /\ vb_new v' = vb_new v.

Lemma Vsame_refl v : Vsame v v.
Proof. unfold Vsame. repeat split; auto. Qed.

#[export] Hint Extern 1 (Vsame _ _) => (unfold Vsame; cbn; repeat split; auto; congruence) : core.
#[export] Hint Resolve incl_refl : core.

Section InvC.
  Variable c : cfg.
  Notation RB := (c_RB c).

  Record JC (g : G) (a : AuxB) (ds rt : list nat) : Prop := {
    jc_rt : forall p, In p rt -> wh a p <> LNo;
    jc_rec : forall p r, wh a p = LRec r -> r < List.length (recs g) /\ In p (ec g a r);
    jc_fly : forall p t, wh a p = LFly t ->
               (vb_pend (bvs a t) = Some p \/ In p (vb_freed (bvs a t))) /\ vb_own (bvs a t) <> [];
    jc_disp : forall p, wh a p = LDisp -> In p ds;
    jc_tl : forall r, r < List.length (recs g) -> In r (tl a) \/ exists t nx, vb_new (bvs a t) = Some (r, nx);
    jc_new : forall t r nx, vb_new (bvs a t) = Some (r, nx) -> rch a r = [] }.

  Definition JM (a : AuxB) : Prop :=
    forall t r, vb_move (bvs a t) = Some (r, None) -> vb_cur (bvs a t) = None -> moved a r = rw a r.

  Record JW (g : G) (a : AuxB) (ds rt : list nat) : Prop := {
    jw_1 : forall r, r < List.length (recs g) -> NoDup (ec g a r) /\ forall p, In p (ec g a r) -> wh a p = LRec r;
    jw_2 : forall t p, vb_pend (bvs a t) = Some p -> wh a p = LFly t /\ ~ In p (vb_freed (bvs a t));
    jw_3 : forall t, NoDup (vb_freed (bvs a t)) /\ forall p, In p (vb_freed (bvs a t)) -> wh a p = LFly t;
    jw_4 : NoDup ds /\ forall p, In p ds -> wh a p = LDisp;
    jw_5 : forall p, wh a p <> LNo -> In p rt;
    jw_6 : JM a;
    jw_7 : oob g = false -> JC g a ds rt }.

  Record JB (g : G) (a : AuxB) (tr : list (nat * ev)) : Prop := {
    jb_o : JO g a;
    jb_k : JK c g a (freeh (hist tr) FRt);
    jb_r : JR c g a;
    jb_w : JW g a (disposed_tr tr) (retired_tr tr) }.

  Definition InvB (g : G) (a : AuxB) (tr : list (nat * ev)) : Prop :=
    flbad (hist tr) = false -> NoDup (retired_tr tr) -> JB g a tr.

  (** the state-independent part of the aux state stays the same *)
  Definition Asame (a a' : AuxB) : Prop :=
    (forall p, wh a' p = wh a p) /\
    (forall r, moved a' r = moved a r /\ rw a' r = rw a r /\ (rch a r = [] -> rch a' r = [])) /\
    incl (tl a) (tl a').

  Lemma JC_frame g g' a a' ds rt rt' :
    List.length (recs g') = List.length (recs g) ->
    (forall r, r < List.length (recs g) -> ec g' a' r = ec g a r) ->
    Asame a a' -> (forall t, Vsame (bvs a t) (bvs a' t)) ->
    (forall p, In p rt' -> In p rt) ->
    JC g a ds rt -> JC g' a' ds rt'.
  Proof.
    intros E1 E2 (A1 & A2 & A3) V Hrt [C1 C2 C3 C4 C5 C6]. constructor.
    - intros p Hp. rewrite A1. apply C1. now apply Hrt.
    - intros p r. rewrite A1, E1. intros H. destruct (C2 p r H) as (X1 & X2). split; auto. rewrite E2 by auto. exact X2.
    - intros p t. rewrite A1. intros H. destruct (C3 p t H) as (X1 & X2). destruct (V t) as (-> & -> & V3 & _). auto.
    - intros p. rewrite A1. apply C4.
    - intros r. rewrite E1. intros Hr. destruct (C5 r Hr) as [X|(t & nx & X)]; [left; now apply A3|right; exists t, nx].
      destruct (V t) as (_ & _ & _ & _ & _ & ->). exact X.
    - intros t r nx. destruct (V t) as (_ & _ & _ & _ & _ & ->). intros H. apply A2. eapply C6; eauto.
  Qed.

  Lemma JM_frame a a' : Asame a a' -> (forall t, Vsame (bvs a t) (bvs a' t)) -> JM a -> JM a'.
  Proof.
    intros (A1 & A2 & A3) V H t r. destruct (V t) as (_ & _ & _ & -> & -> & _). intros H1 H2.
    destruct (A2 r) as (-> & -> & _). exact (H t r H1 H2).
  Qed.

  Lemma JW_frame g g' a a' ds rt rt' :
    List.length (recs g') = List.length (recs g) ->
    (forall r, r < List.length (recs g) -> ec g' a' r = ec g a r) ->
    (forall p, wh a' p = wh a p) ->
    (forall t, Vsame (bvs a t) (bvs a' t)) ->
    (forall p, In p rt -> In p rt') -> (forall p, In p rt' -> In p rt) ->
    (forall r, moved a' r = moved a r /\ rw a' r = rw a r /\ (rch a r = [] -> rch a' r = [])) ->
    incl (tl a) (tl a') -> oob g' = oob g ->
    JW g a ds rt -> JW g' a' ds rt'.
  Proof.
    intros E1 E2 E3 V Hrt Hrt' A2 A3 Eo [J1 J2 J3 J4 J5 J6 J7].
    assert (As : Asame a a') by (split; [|split]; auto).
    constructor.
    - intros r Hr. rewrite E1 in Hr. rewrite E2 by auto. split; [apply J1; auto|]. intros p. rewrite E3. now apply J1.
    - intros t p. destruct (V t) as (-> & -> & _). rewrite E3. apply J2.
    - intros t. destruct (V t) as (_ & -> & _). split; [apply J3|]. intros p. rewrite E3. apply J3.
    - split; [apply J4|]. intros p. rewrite E3. apply J4.
    - intros p. rewrite E3. intros H. apply Hrt. now apply J5.
    - eapply JM_frame; eauto.
    - rewrite Eo. intros Ho. apply (JC_frame g g' a a' ds rt rt' E1 E2 As V); auto.
  Qed.
End InvC.

(** ** what the invariant reads of the shared state *)
Definition piB (g g' : G) : Prop := DhpInvB.piB g g' /\ oob g' = oob g.

Lemma piB_refl g : piB g g.
Proof. split; [apply DhpInvB.piB_refl|reflexivity]. Qed.
Lemma piB_trans g1 g2 g3 : piB g1 g2 -> piB g2 g3 -> piB g1 g3.
Proof. intros (A & A') (B & B'). split; [eapply DhpInvB.piB_trans; eauto|congruence]. Qed.

Lemma JB_piB c g g' a tr : piB g g' -> JB c g a tr -> JB c g' a tr.
Proof.
  intros (P & Po) [JO1 JK1 JR1 JW1]. pose proof P as (A0&A1&A2&A3&A4). constructor.
  - apply JO_frame with (g := g) (a := a); auto. intros r. destruct (A3 r) as (X1&X2&_). auto.
  - apply JK_frame with (g := g) (a := a); auto. intros b. destruct (A4 b) as (X1&X2). rewrite X2. auto.
  - apply JR_frame with (g := g) (a := a); auto.
    all: try lia.
    all: try solve [intros r; destruct (A3 r) as (X1&X2&X3&X4&X5&X6); auto].
    all: try solve [intros b r Hb _; destruct (A4 b) as (X1&X2); rewrite X2; auto].
    all: try solve [intros t; repeat split; reflexivity].
  - apply JW_frame with (g := g) (a := a) (rt := retired_tr tr); auto.
    all: try solve [intros r _; now apply ec_piB].
Qed.
