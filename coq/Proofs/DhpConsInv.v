(** * DhpConsInv: the C03 invariant of LV.Proofs.DhpInvB with its pointer part made two-directional (conservation).

    [JW] of DhpInvB says: a pointer that is somewhere (cell of an array / in flight / disposed) is in one place only
    and was retired.  This file shadows [JW] by a record with the same five fields plus
      - [jw_6] (marker): a thread whose ghost field vb_move is [Some (r, None)] with no cell cursor has moved every
        cell of [r] (moved = rw): the effective content of [r] is empty.  Besides help_scan, the marker is set by two
        ghost steps (retired_array::init sees list_head_ == nullptr; free_thread_data sees retired_.empty()) so that
        the knowledge "the array of my record is empty" survives from the node that reads it to the node that uses it;
      - [jw_7] (conservation, the converse of JW): as long as no retired cell was written out of bounds
        ([oob] = false), every retired pointer has a place, and a pointer whose place is "array of r" IS in the
        effective content of r, "in flight in t" IS pending or freed in t (and t owns a record), "disposed" IS in
        the disposed list; every record with an array is on thread_list_.
    Later additions (this file now also shadows [VB], [AuxB], [JO], [JK], [JR] of DhpInvB, with three more view fields):
      - [vb_arr] / [jc_arr]: "the record I am attached to has a retired array" (from the end of retired_array::init in
        smr::alloc_thread_data to the test retired_.empty() in smr::free_thread_data); with it every push of the model finds
        a block and a free cell, and [jw_8 : oob g = false] is part of the invariant: the flag is never set
        (LV.Proofs.DhpConsThm.dhp_oob_false);
      - [vb_mine], [vb_s0] / [JH] ([jw_9]): the history part over the trace functions of LV.Proofs.DhpConsSTrace -- while a
        thread holds the record r of its last "_att" event, every pointer it handed to retire() since then is in the array
        of r, in flight in that thread, or disposed ([jh_mine]); a thread whose last event is "_scanb r" has nothing in flight
        ([jh_sb], [jh_s0]).  "_att" and "_scanb" events are no longer quiet ([qevB] of DhpConsQuietB); ghost steps
        S_att, S_scanb, S_s0clr, S_mineclr in DhpConsStepsB10.
    [piB] is shadowed by a version that also keeps [oob].  The copies LV.Proofs.DhpCons... of DhpQuietB ... DhpMainC
    differ from the originals only where the JW part of a goal is proved (and in the three places described above). *)
From Coq Require Import ZArith NArith List String Bool Lia PeanoNat.
From LV Require Import Base.Conc Base.Events Model.DhpLang Model.Dhp Proofs.DhpBase Proofs.DhpSeq Proofs.DhpSeqThm Proofs.DhpHist Proofs.DhpInvB Proofs.DhpConsSTrace.
Import ListNotations.

(** ** the view and the auxiliary state of DhpInvB with one more view field:
      [vb_arr] = the thread record the thread is attached to, from the end of retired_array::init in
      smr::alloc_thread_data to the test retired_.empty() in smr::free_thread_data: the record is owned and has a
      retired array ([jc_arr]).  This is the thread-local knowledge that discharges [oob] = false ([jw_8]). *)
Record VB := mkVB {
  vb_own : list nat; vb_node : option nat; vb_new : option (nat * option nat); vb_blk : option (nat * bool);
  vb_limbo : option (option nat * list nat); vb_pend : option nat; vb_freed : list nat; vb_full : option nat;
  vb_move : option (nat * option nat); vb_cur : option (nat * nat * nat); vb_dead : option nat;
  vb_arr : option nat;
  vb_mine : option nat;     (* the record of my last "_att" event, until I give it up (thread_id_.store( null ) in free_thread_data) *)
  vb_s0 : option nat }.     (* my last event is "_scanb r" *)

Definition vb0 : VB := mkVB [] None None None None None [] None None None None None None None.

Record AuxB := mkAuxB {
  bvs : nat -> VB; rbown : nat -> rbo; wh : nat -> place;
  rch : nat -> list nat; rw : nat -> nat; moved : nat -> nat; dead : nat -> bool; tl : list nat }.
Definition viewB (a : AuxB) (t : nat) : VB := bvs a t.

Section InvB0.
  Variable c : cfg.
  Notation RB := (c_RB c).

  (** effective content of the retired array of record r *)
  Definition ec (g : G) (a : AuxB) (r : nat) : list nat := skipn (moved a r) (content g (rch a r) (rw a r)).

  Record JO (g : G) (a : AuxB) : Prop := {
    jo_tl : is_tl g (tlist g) (tl a) /\ NoDup (tl a);
    jo_node : forall t h, vb_node (bvs a t) = Some h -> In h (tl a);
    jo_new : forall t r nx, vb_new (bvs a t) = Some (r, nx) ->
               r < List.length (recs g) /\ ~ In r (tl a) /\ r_next (grec g r) = nx /\
               (r_tid (grec g r) = 0 \/ In r (vb_own (bvs a t)));
    jo_newx : forall t t' r nx nx', vb_new (bvs a t) = Some (r, nx) -> vb_new (bvs a t') = Some (r, nx') -> t = t';
    jo_own : forall t r, In r (vb_own (bvs a t)) -> r < List.length (recs g) /\ r_tid (grec g r) = S t }.

  Record JK (g : G) (a : AuxB) (fr : list nat) : Prop := {
    jk_blen : forall b, List.length (rbs g) <= b -> rbown a b = RNone;
    jk_cells : forall b, b < List.length (rbs g) -> List.length (rb_cells (grb g b)) = RB;
    jk_free : (forall b, In b fr <-> rbown a b = RFree) /\ NoDup fr;
    jk_blk : forall t b fl, vb_blk (bvs a t) = Some (b, fl) ->
               rbown a b = RPriv t /\ (fl = true -> rb_next (grb g b) = None) /\
               (forall o lb, vb_limbo (bvs a t) = Some (o, lb) -> ~ In b lb);
    jk_limbo : forall t o lb, vb_limbo (bvs a t) = Some (o, lb) ->
               is_chain c g o lb /\ NoDup lb /\ forall b, In b lb -> rbown a b = RPriv t }.

  Record JR (g : G) (a : AuxB) : Prop := {
    jr_rec : forall r, r < List.length (recs g) ->
               (rch a r = [] /\ rw a r = 0 /\ moved a r = 0 /\
                (dead a r = true \/ (r_head (grec g r) = None /\ r_cb (grec g r) = None))) \/
               (dead a r = false /\ Rinv c g r (rch a r) (rw a r) /\ (forall b, In b (rch a r) -> rbown a b = RRec r) /\
                moved a r <= rw a r /\
                (rw a r < List.length (rch a r) * RB \/ exists t, vb_full (bvs a t) = Some r));
    jr_mvd : forall r, moved a r <> 0 -> exists t ob, vb_move (bvs a t) = Some (r, ob);
    jr_move : forall t r ob, vb_move (bvs a t) = Some (r, ob) ->
               In r (vb_own (bvs a t)) /\
               forall b, ob = Some b -> vb_cur (bvs a t) = None -> exists j, nth_error (rch a r) j = Some b /\ moved a r = j * RB;
    jr_cur : forall t b i n, vb_cur (bvs a t) = Some (b, i, n) ->
               exists r ob j, vb_move (bvs a t) = Some (r, ob) /\ nth_error (rch a r) j = Some b /\
                           moved a r = j * RB + i /\ i + n <= RB /\ j * RB + i + n <= rw a r /\
                           i + n = (if oeqb (Some b) (r_cb (grec g r)) then r_cc (grec g r) else RB);
    jr_dead : (forall t r, vb_dead (bvs a t) = Some r -> In r (vb_own (bvs a t)) /\ dead a r = true) /\
              (forall r, dead a r = true -> exists t, vb_dead (bvs a t) = Some r);
    jr_full : forall t r, vb_full (bvs a t) = Some r -> In r (vb_own (bvs a t)) /\ rch a r <> [] }.

  Lemma JO_frame g g' a a' :
    tlist g' = tlist g -> List.length (recs g') = List.length (recs g) ->
    (forall r, r_tid (grec g' r) = r_tid (grec g r) /\ r_next (grec g' r) = r_next (grec g r)) ->
    (forall t, vb_own (bvs a' t) = vb_own (bvs a t) /\ vb_node (bvs a' t) = vb_node (bvs a t) /\ vb_new (bvs a' t) = vb_new (bvs a t)) ->
    tl a' = tl a -> JO g a -> JO g' a'.
  Proof.
    intros E1 E2 E3 V Et [J1 J2 J3 J4 J5]. constructor.
    - rewrite Et, E1. split; [|apply J1]. apply is_tl_frame with (g := g); [lia| |apply J1]. intros r _. apply E3.
    - intros t h. destruct (V t) as (_ & -> & _). rewrite Et. apply J2.
    - intros t r nx. destruct (V t) as (-> & _ & ->). rewrite Et, E2. destruct (E3 r) as (-> & ->). apply J3.
    - intros t t' r nx nx'. destruct (V t) as (_ & _ & ->). destruct (V t') as (_ & _ & ->). apply J4.
    - intros t r. destruct (V t) as (-> & _ & _). rewrite E2. destruct (E3 r) as (-> & _). apply J5.
  Qed.

  Lemma JK_frame g g' a a' fr :
    List.length (rbs g') = List.length (rbs g) ->
    (forall b, rb_next (grb g' b) = rb_next (grb g b) /\ List.length (rb_cells (grb g' b)) = List.length (rb_cells (grb g b))) ->
    (forall b, rbown a' b = rbown a b) ->
    (forall t, vb_blk (bvs a' t) = vb_blk (bvs a t) /\ vb_limbo (bvs a' t) = vb_limbo (bvs a t)) ->
    JK g a fr -> JK g' a' fr.
  Proof.
    intros E1 E2 E3 V [J1 J2 J3 J4 J5]. constructor.
    - intros b. rewrite E1, E3. apply J1.
    - intros b. rewrite E1. destruct (E2 b) as (_ & ->). apply J2.
    - split; [|apply J3]. intros b. rewrite E3. apply J3.
    - intros t b fl. destruct (V t) as (-> & ->). rewrite E3. destruct (E2 b) as (-> & _). apply J4.
    - intros t o lb. destruct (V t) as (_ & ->). intros H. destruct (J5 t o lb H) as (K1 & K2 & K3).
      split; [|split; auto]. + apply is_chain_frame with (g := g); auto. lia. + intros b. rewrite E3. apply K3.
  Qed.

  Lemma JR_frame g g' a a' :
    List.length (recs g') = List.length (recs g) -> List.length (rbs g) <= List.length (rbs g') ->
    (forall r, r_head (grec g' r) = r_head (grec g r) /\ r_tail (grec g' r) = r_tail (grec g r) /\
               r_cb (grec g' r) = r_cb (grec g r) /\ r_cc (grec g' r) = r_cc (grec g r)) ->
    (forall b r, b < List.length (rbs g) -> rbown a b = RRec r ->
               rb_next (grb g' b) = rb_next (grb g b) /\ List.length (rb_cells (grb g' b)) = List.length (rb_cells (grb g b))) ->
    (forall b r, rbown a b = RRec r -> rbown a' b = RRec r) ->
    (forall r, rch a' r = rch a r /\ rw a' r = rw a r /\ moved a' r = moved a r /\ dead a' r = dead a r) ->
    (forall t, vb_full (bvs a' t) = vb_full (bvs a t) /\ vb_move (bvs a' t) = vb_move (bvs a t) /\
               vb_cur (bvs a' t) = vb_cur (bvs a t) /\ vb_dead (bvs a' t) = vb_dead (bvs a t)) ->
    (forall t r, In r (vb_own (bvs a t)) ->
                 (exists ob, vb_move (bvs a t) = Some (r, ob)) \/ vb_dead (bvs a t) = Some r \/ vb_full (bvs a t) = Some r ->
                 In r (vb_own (bvs a' t))) ->
    JR g a -> JR g' a'.
  Proof.
    intros E1 E2 E3 E4 E5 E6 V Vo [J1 J2 J3 J4 J5 J6]. constructor.
    - intros r Hr. rewrite E1 in Hr. destruct (E6 r) as (-> & -> & -> & ->). destruct (E3 r) as (F1 & F2 & F3 & F4).
      destruct (J1 r Hr) as [K|(K1 & K2 & K3 & K4 & K5)]; [left; rewrite F1, F3; exact K|right].
      split; auto. split; [apply Rinv_frame with (g := g); auto; try lia|].
      { intros b Hb. apply E4 with (r := r); [|apply K3; exact Hb]. destruct K2 as [_ Ich _ _ _ _ _]. eapply is_chain_lt; eauto. }
      split; [intros b Hb; apply E5; apply K3; exact Hb|]. split; auto.
      destruct K5 as [K5|(t & K5)]; [left; exact K5|right; exists t]. destruct (V t) as (-> & _). exact K5.
    - intros r. destruct (E6 r) as (_ & _ & -> & _). intros H. destruct (J2 r H) as (t & ob & K). exists t, ob. destruct (V t) as (_ & -> & _). exact K.
    - intros t r ob. destruct (V t) as (_ & -> & -> & _). intros H. destruct (J3 t r ob H) as (K1 & K2). split; [apply Vo; eauto|].
      destruct (E6 r) as (-> & _ & -> & _). exact K2.
    - intros t b i n. destruct (V t) as (_ & -> & -> & _). intros H. destruct (J4 t b i n H) as (r & ob & j & K).
      exists r, ob, j. destruct (E6 r) as (-> & -> & -> & _). destruct (E3 r) as (_ & _ & -> & ->). exact K.
    - split.
      + intros t r. destruct (V t) as (_ & _ & _ & ->). destruct (E6 r) as (_ & _ & _ & ->). intros H. destruct (proj1 J5 t r H). split; auto.
      + intros r. destruct (E6 r) as (_ & _ & _ & ->). intros H. destruct (proj2 J5 r H) as (t & K). exists t. destruct (V t) as (_ & _ & _ & ->). exact K.
    - intros t r. destruct (V t) as (-> & _). intros H. destruct (J6 t r H) as (K1 & K2). split; [apply Vo; auto|].
      destruct (E6 r) as (-> & _). exact K2.
  Qed.
End InvB0.

(** what must stay the same in a view for the pointer part *)
Definition Vsame (v v' : VB) : Prop :=
  vb_pend v' = vb_pend v /\ vb_freed v' = vb_freed v /\
  ((vb_own v <> [] -> vb_own v' <> []) /\ vb_arr v' = vb_arr v /\ (forall r, vb_arr v = Some r -> In r (vb_own v) -> In r (vb_own v')) /\
   vb_mine v' = vb_mine v /\ vb_s0 v' = vb_s0 v /\ (forall r, vb_mine v = Some r -> In r (vb_own v) -> In r (vb_own v'))) /\
  vb_move v' = vb_move v /\ vb_cur v' = vb_cur v /\ vb_new v' = vb_new v.

(** ... and for the history part *)
Definition HV (v v' : VB) : Prop :=
  vb_mine v' = vb_mine v /\ vb_s0 v' = vb_s0 v /\ vb_pend v' = vb_pend v /\ vb_freed v' = vb_freed v /\
  (forall r, vb_mine v = Some r -> In r (vb_own v) -> In r (vb_own v')).
Lemma HV_refl v : HV v v.
Proof. unfold HV. repeat split; auto. Qed.
Lemma Vsame_HV v v' : Vsame v v' -> HV v v'.
Proof. intros (V1 & V2 & (_ & _ & _ & V3 & V4 & V5) & _). unfold HV. auto. Qed.
#[export] Hint Extern 1 (HV _ _) => (unfold HV; cbn; repeat split; auto; congruence) : core.
#[export] Hint Resolve HV_refl : core.

Lemma Vsame_refl v : Vsame v v.
Proof. unfold Vsame. repeat split; auto. Qed.

#[export] Hint Extern 1 (Vsame _ _) => (unfold Vsame; cbn; repeat split; auto; congruence) : core.
#[export] Hint Resolve incl_refl : core.
#[export] Hint Resolve DhpConsSTrace.HSame_refl : core.

Section InvC.
  Variable c : cfg.
  Notation RB := (c_RB c).

  Record JC (g : G) (a : AuxB) (ds rt : list nat) : Prop := {
    jc_rt : forall p, In p rt -> wh a p <> LNo;
    jc_rec : forall p r, wh a p = LRec r -> r < List.length (recs g) /\ In p (ec g a r);
    jc_fly : forall p t, wh a p = LFly t ->
               (vb_pend (bvs a t) = Some p \/ In p (vb_freed (bvs a t))) /\ vb_own (bvs a t) <> [];
    jc_disp : forall p, wh a p = LDisp -> In p ds;
    jc_tl : forall r, r < List.length (recs g) -> In r (tl a) \/ exists t nx, vb_new (bvs a t) = Some (r, nx);
    jc_new : forall t r nx, vb_new (bvs a t) = Some (r, nx) -> rch a r = [];
    jc_arr : forall t r, vb_arr (bvs a t) = Some r -> In r (vb_own (bvs a t)) /\ rch a r <> [] }.

  Definition JM (a : AuxB) : Prop :=
    forall t r, vb_move (bvs a t) = Some (r, None) -> vb_cur (bvs a t) = None -> moved a r = rw a r.

  (** what the history says about the pointers a thread retired since it attached *)
  Record JH (a : AuxB) (tr : list (nat * ev)) : Prop := {
    jh_mine : forall t r, vb_mine (bvs a t) = Some r ->
                In r (vb_own (bvs a t)) /\ latt tr t = Some r /\
                forall p, In p (mine tr t) -> wh a p = LRec r \/ wh a p = LFly t \/ wh a p = LDisp;
    jh_sb : forall t r, lsb tr t = Some r -> vb_s0 (bvs a t) = Some r;
    jh_s0 : forall t r, vb_s0 (bvs a t) = Some r ->
                vb_pend (bvs a t) = None /\ vb_freed (bvs a t) = [] /\ vb_mine (bvs a t) = Some r }.

  Lemma JH_frame a a' tr tr' :
    HSame tr tr' -> (forall p, wh a' p = wh a p) -> (forall t, HV (bvs a t) (bvs a' t)) -> JH a tr -> JH a' tr'.
  Proof.
    intros Hs Ew V [H1 H2 H3]. constructor.
    - intros t r. destruct (V t) as (-> & _ & _ & _ & V3). destruct (Hs t) as (-> & -> & _).
      intros E. destruct (H1 t r E) as (X1 & X2 & X3). split; auto. split; auto. intros p. rewrite Ew. apply X3.
    - intros t r E. destruct (V t) as (_ & -> & _). apply H2. apply (Hs t). exact E.
    - intros t r. destruct (V t) as (-> & -> & -> & -> & _). apply H3.
  Qed.

  Record JW (g : G) (a : AuxB) (ds rt : list nat) (tr : list (nat * ev)) : Prop := {
    jw_1 : forall r, r < List.length (recs g) -> NoDup (ec g a r) /\ forall p, In p (ec g a r) -> wh a p = LRec r;
    jw_2 : forall t p, vb_pend (bvs a t) = Some p -> wh a p = LFly t /\ ~ In p (vb_freed (bvs a t));
    jw_3 : forall t, NoDup (vb_freed (bvs a t)) /\ forall p, In p (vb_freed (bvs a t)) -> wh a p = LFly t;
    jw_4 : NoDup ds /\ forall p, In p ds -> wh a p = LDisp;
    jw_5 : forall p, wh a p <> LNo -> In p rt;
    jw_6 : JM a;
    jw_7 : oob g = false -> JC g a ds rt;
    jw_8 : oob g = false;
    jw_9 : JH a tr }.

  Record JB (g : G) (a : AuxB) (tr : list (nat * ev)) : Prop := {
    jb_o : JO g a;
    jb_k : JK c g a (freeh (hist tr) FRt);
    jb_r : JR c g a;
    jb_w : JW g a (disposed_tr tr) (retired_tr tr) tr }.

  Definition InvB (g : G) (a : AuxB) (tr : list (nat * ev)) : Prop :=
    flbad (hist tr) = false -> NoDup (retired_tr tr) -> JB g a tr.

  (** the state-independent part of the aux state stays the same *)
  Definition Asame (a a' : AuxB) : Prop :=
    (forall p, wh a' p = wh a p) /\
    (forall r, moved a' r = moved a r /\ rw a' r = rw a r /\ (rch a r = [] -> rch a' r = [])) /\
    incl (tl a) (tl a') /\ (forall r, rch a' r = [] -> rch a r = []).

  Lemma JC_frame g g' a a' ds rt rt' :
    List.length (recs g') = List.length (recs g) ->
    (forall r, r < List.length (recs g) -> ec g' a' r = ec g a r) ->
    Asame a a' -> (forall t, Vsame (bvs a t) (bvs a' t)) ->
    (forall p, In p rt' -> In p rt) ->
    JC g a ds rt -> JC g' a' ds rt'.
  Proof.
    intros E1 E2 (A1 & A2 & A3 & A4) V Hrt [C1 C2 C3 C4 C5 C6 C7]. constructor.
    - intros p Hp. rewrite A1. apply C1. now apply Hrt.
    - intros p r. rewrite A1, E1. intros H. destruct (C2 p r H) as (X1 & X2). split; auto. rewrite E2 by auto. exact X2.
    - intros p t. rewrite A1. intros H. destruct (C3 p t H) as (X1 & X2). destruct (V t) as (-> & -> & (V3 & _) & _). auto.
    - intros p. rewrite A1. apply C4.
    - intros r. rewrite E1. intros Hr. destruct (C5 r Hr) as [X|(t & nx & X)]; [left; now apply A3|right; exists t, nx].
      destruct (V t) as (_ & _ & _ & _ & _ & ->). exact X.
    - intros t r nx. destruct (V t) as (_ & _ & _ & _ & _ & ->). intros H. apply A2. eapply C6; eauto.
    - intros t r. destruct (V t) as (_ & _ & (_ & -> & V3 & _) & _). intros H. destruct (C7 t r H) as (X1 & X2). split; auto.
  Qed.

  Lemma JM_frame a a' : Asame a a' -> (forall t, Vsame (bvs a t) (bvs a' t)) -> JM a -> JM a'.
  Proof.
    intros (A1 & A2 & A3 & A4) V H t r. destruct (V t) as (_ & _ & _ & -> & -> & _). intros H1 H2.
    destruct (A2 r) as (-> & -> & _). exact (H t r H1 H2).
  Qed.

  Lemma JW_frame g g' a a' ds rt rt' tr tr' :
    List.length (recs g') = List.length (recs g) ->
    (forall r, r < List.length (recs g) -> ec g' a' r = ec g a r) ->
    (forall p, wh a' p = wh a p) ->
    (forall t, Vsame (bvs a t) (bvs a' t)) ->
    (forall p, In p rt -> In p rt') -> (forall p, In p rt' -> In p rt) ->
    (forall r, moved a' r = moved a r /\ rw a' r = rw a r /\ (rch a r = [] -> rch a' r = [])) ->
    (forall r, rch a' r = [] -> rch a r = []) ->
    incl (tl a) (tl a') -> oob g' = oob g -> HSame tr tr' ->
    JW g a ds rt tr -> JW g' a' ds rt' tr'.
  Proof.
    intros E1 E2 E3 V Hrt Hrt' A2 A4 A3 Eo Hs [J1 J2 J3 J4 J5 J6 J7 J8 J9].
    assert (As : Asame a a') by (split; [|split; [|split]]; auto).
    constructor.
    - intros r Hr. rewrite E1 in Hr. rewrite E2 by auto. split; [apply J1; auto|]. intros p. rewrite E3. now apply J1.
    - intros t p. destruct (V t) as (-> & -> & _). rewrite E3. apply J2.
    - intros t. destruct (V t) as (_ & -> & _). split; [apply J3|]. intros p. rewrite E3. apply J3.
    - split; [apply J4|]. intros p. rewrite E3. apply J4.
    - intros p. rewrite E3. intros H. apply Hrt. now apply J5.
    - eapply JM_frame; eauto.
    - rewrite Eo. intros Ho. apply (JC_frame g g' a a' ds rt rt' E1 E2 As V); auto.
    - rewrite Eo. exact J8.
    - eapply JH_frame; eauto. intros t. apply Vsame_HV. apply V.
  Qed.
End InvC.

(** ** what the invariant reads of the shared state *)
Definition piB (g g' : G) : Prop := DhpInvB.piB g g' /\ oob g' = oob g.

Lemma piB_refl g : piB g g.
Proof. split; [apply DhpInvB.piB_refl|reflexivity]. Qed.
Lemma piB_trans g1 g2 g3 : piB g1 g2 -> piB g2 g3 -> piB g1 g3.
Proof. intros (A & A') (B & B'). split; [eapply DhpInvB.piB_trans; eauto|congruence]. Qed.

Lemma ec_piB g g' a r : DhpInvB.piB g g' -> ec g' a r = ec g a r.
Proof. intros P. unfold ec, content. now rewrite (flat_piB g g' _ P). Qed.

Lemma JB_piB c g g' a tr : piB g g' -> JB c g a tr -> JB c g' a tr.
Proof.
  intros (P & Po) [JO1 JK1 JR1 JW1]. pose proof P as (A0&A1&A2&A3&A4). constructor.
  - apply JO_frame with (g := g) (a := a); auto. intros r. destruct (A3 r) as (X1&X2&_). auto.
  - apply JK_frame with (g := g) (a := a); auto. intros b. destruct (A4 b) as (X1&X2). rewrite X2. auto.
  - apply JR_frame with (g := g) (a := a); auto.
    all: try lia.
    all: try solve [intros r; destruct (A3 r) as (X1&X2&X3&X4&X5&X6); auto].
    all: try solve [intros b r Hb _; destruct (A4 b) as (X1&X2); rewrite X2; auto].
    all: try solve [intros t; repeat split; reflexivity].
  - apply JW_frame with (g := g) (a := a) (rt := retired_tr tr) (tr := tr); auto.
    all: try solve [intros r _; now apply ec_piB].
Qed.
