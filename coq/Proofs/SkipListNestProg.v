(** * SkipListNestProg: the nested-levels invariant through the programs of insert and contains, and the theorem
      [skip_levels_nested_ic]: for EVERY schedule of programs made of insert( key, height ) and contains( key ) (any number
      of operations, at most 63 threads, any pre-filled initial list), at EVERY reachable state every level list is
      null-terminated and every node of the level-(l+1) list is on the level-l list ([LevOK]).

    The thread-local knowledge is carried exactly as the C++ does: find_position learns "pPrev[l] is the head or was seen
    linked at level l" (the successor of a node on level l is on level l; the node at which the search descends from level
    l+1 to level l is on level l because the levels are nested), insert_at_position uses it at the pred CAS of level l; the
    thread's own node is on no list of a level it has not linked yet, so its cells are private at those levels. *)
From Coq Require Import ZArith List String Bool Lia PeanoNat.
From LV Require Import Base.Conc Base.Events Model.SkipList Proofs.SkipListProofs Proofs.SkipListSub Proofs.SkipListSubThm Proofs.SkipListNest.
Import ListNotations.

Definition tlk (t n : nat) (s : TL) : Prop := tid s = t /\ ser s = n.
Lemma tlk_alloc1 t n s x s1 : alloc1 s = (x, s1) -> tlk t n s -> tlk t n s1.
Proof. unfold alloc1. destruct (fl s); intros E H; inversion E; subst; exact H. Qed.
Lemma tlk_free1 t n x s : tlk t n s -> tlk t n (free1 x s).
Proof. intros H. exact H. Qed.
Lemma tlk_allocn t sn : forall n s xs s1, allocn n s = (xs, s1) -> tlk t sn s -> tlk t sn s1.
Proof.
  induction n as [|n IH]; intros s xs s1 E H; cbn [allocn] in E; [inversion E; subst; exact H|].
  destruct (alloc1 s) as [x s'] eqn:Ea. destruct (allocn n s') as [ys s2] eqn:En. inversion E; subst.
  eapply IH; [exact En|]. eapply tlk_alloc1; eauto.
Qed.

Ltac nx := apply SF_nx; [intros; reflexivity|intros ?].
Ltac inc := eauto using incl_tran, incl_refl, incl_tl.

Section Progs.
Context {R : Type}.
Variables (t n : nat).

Lemma SF_assign K O s slot (k : prog R) : SF t n K O k -> SF t n K O (g_assign s slot k).
Proof. intros H. unfold g_assign. nx. nx. exact H. Qed.
Lemma SF_clear K O s slot (k : prog R) : SF t n K O k -> SF t n K O (g_clear s slot k).
Proof. intros H. unfold g_clear. nx. exact H. Qed.
Lemma SF_copy K O s a b (k : prog R) : SF t n K O k -> SF t n K O (g_copy s a b k).
Proof. intros H. unfold g_copy. nx. nx. nx. exact H. Qed.

Lemma SF_free_all K O slots : forall s (k : TL -> prog R),
  tlk t n s -> (forall s', tlk t n s' -> SF t n K O (k s')) -> SF t n K O (g_free_all s slots k).
Proof.
  induction slots as [|x r IH]; intros s k Ht H; cbn [g_free_all]; [now apply H|]. apply SF_clear. apply IH; [now apply tlk_free1|exact H].
Qed.

Lemma P_ga_protect O fuel : forall s slot p l (k : option mptr -> prog R) K,
  (forall K', incl K K' -> SF t n K' O (k None)) ->
  (forall x K', incl K K' -> snd x = false -> (kn K p l -> l < MAXH -> In (fst x, l) K') -> SF t n K' O (k (Some x))) ->
  SF t n K O (ga_protect fuel s slot p l k).
Proof.
  induction fuel as [|f IH]; intros s slot p l k K H0 H1; cbn [ga_protect]; [apply H0, incl_refl|].
  apply SF_ld. intros x1 K1 I1 M1 F1. nx. nx. apply SF_ld. intros x2 K2 I2 M2 F2. cbn [vp].
  destruct (mp_eqb x1 x2).
  - apply H1; [inc|exact M1|]. intros A B. apply I2. now apply F1.
  - apply IH.
    + intros K' I'. apply H0. inc.
    + intros x K' I' M F. apply H1; [inc|exact M|]. intros A B. apply F; [|exact B]. eapply kn_incl; [|exact A]. inc.
Qed.

Lemma eqb_nnull p : Nat.eqb p null = false -> p <> null.
Proof. intros H. now apply Nat.eqb_neq. Qed.

Lemma P_fp_level O fuel : forall s key stop own lvl pred ps ncmp (retry : TL -> prog R) k kf kown K,
  tlk t n s -> lvl < MAXH -> kn K pred lvl ->
  (forall s' K', tlk t n s' -> incl K K' -> SF t n K' O (retry s')) ->
  (forall K', incl K K' -> SF t n K' O kf) ->
  (forall s' K', tlk t n s' -> incl K K' -> SF t n K' O (kown s')) ->
  (forall s' pred' cur c found K', tlk t n s' -> incl K K' -> kn K' pred' lvl ->
      (found = true -> stop = true /\ fst cur <> null) -> SF t n K' O (k s' pred' cur c found)) ->
  SF t n K O (fp_level fuel s key stop own lvl pred ps ncmp retry k kf kown).
Proof.
  induction fuel as [|f IH]; intros s key stop own lvl pred ps ncmp retry k kf kown K Ht Hl Kp Hr Hf Ho Hk; cbn [fp_level]; [apply Hf, incl_refl|].
  apply P_ga_protect; [exact Hf|]. intros cur K1 I1 M1 F1. rewrite M1.
  assert (Kp1 : kn K1 pred lvl) by (eapply kn_incl; eauto).
  destruct (Nat.eqb (fst cur) null) eqn:En; [apply Hk; auto; discriminate|].
  assert (Kc : kn K1 (fst cur) lvl).
  { right. split; [now apply eqb_nnull|]. exists lvl. split; [lia|]. now apply F1. }
  apply SF_ld. intros xs K2 I2 M2 _. apply SF_ld. intros xr K3 I3 M3 _. cbn [vp].
  assert (I03 : incl K K3) by inc. assert (I13 : incl K1 K3) by inc.
  destruct (negb (mp_eqb xr (fst cur, false))); [now apply Hr|].
  rewrite M2.
  destruct (cmpk (fst cur) key <? 0)%Z.
  - apply SF_copy. apply IH; auto.
    + eapply kn_incl; eauto.
    + intros s' K' Hs I'. apply Hr; auto. inc.
    + intros K' I'. apply Hf. inc.
    + intros s' K' Hs I'. apply Ho; auto. inc.
    + intros s' pred' cur' c' found K' Hs I'. apply Hk; auto. inc.
  - destruct ((cmpk (fst cur) key =? 0)%Z && stop) eqn:E.
    + apply Hk; auto; [eapply kn_incl; eauto|]. intros _. apply andb_true_iff in E. split; [apply E|now apply eqb_nnull].
    + apply Hk; auto; [eapply kn_incl; eauto|discriminate].
Qed.

Definition posk_above (m : nat) (K : list (ptr * nat)) (ps : pos) : Prop := forall L, m <= L < MAXH -> kn K (pprev ps L) L.
Definition posk := posk_above 0.

Lemma posk_incl m K K' ps : incl K K' -> posk_above m K ps -> posk_above m K' ps.
Proof. intros I H L HL. eapply kn_incl; eauto. Qed.

Definition okn (stop : bool) (K : list (ptr * nat)) (o : fp_out) : Prop :=
  match o with
  | FpFound ps => (stop = true /\ pcur ps <> null) \/ posk K ps
  | FpNotFound ps => posk K ps
  | FpOwnRemoved => True
  end.

Lemma P_fp_levels O fuel : forall m s key stop own pred ps ncmp (retry : TL -> prog R) k kf K,
  tlk t n s -> m <= MAXH -> (forall L, L < m -> kn K pred L) -> posk_above m K ps ->
  (forall s' K', tlk t n s' -> incl K K' -> SF t n K' O (retry s')) ->
  (forall K', incl K K' -> SF t n K' O kf) ->
  (forall s' o K', tlk t n s' -> incl K K' -> okn stop K' o -> SF t n K' O (k s' o)) ->
  SF t n K O (fp_levels fuel m s key stop own pred ps ncmp retry k kf).
Proof.
  induction m as [|lvl IH]; intros s key stop own pred ps ncmp retry k kf K Ht Hm Kp Hp Hr Hf Hk; cbn [fp_levels].
  - destruct (ncmp =? 0)%Z; apply Hk; auto using incl_refl. right. exact Hp.
  - apply SF_assign. apply P_fp_level; auto.
    + intros s' K' Hs I'. apply Hk; auto. exact Logic.I.
    + intros s' pred' cur c found K' Hs I' Kp' Hfd. destruct found.
      * destruct (Hfd eq_refl) as [F1 F2]. apply Hk; auto. cbn [okn pcur]. left. auto.
      * apply IH; auto; [lia| | | | |].
        -- intros L HL. eapply kn_down; [|exact Kp']. lia.
        -- intros L HL. cbn [pprev]. destruct (Nat.eq_dec L lvl) as [->|NL].
           ++ rewrite set_lvl_same. exact Kp'.
           ++ rewrite set_lvl_other by exact NL. eapply kn_incl; [exact I'|]. apply Hp. lia.
        -- intros s'' K'' Hs' I''. apply Hr; auto. inc.
        -- intros K'' I''. apply Hf. inc.
        -- intros s'' o K'' Hs' I''. apply Hk; auto. inc.
Qed.

Lemma P_find_position O fuel : forall s key stop own ps (k : TL -> fp_out -> prog R) kf K,
  tlk t n s ->
  (forall s' o K', tlk t n s' -> incl K K' -> okn stop K' o -> SF t n K' O (k s' o)) ->
  (forall K', incl K K' -> SF t n K' O kf) -> SF t n K O (find_position fuel s key stop own ps k kf).
Proof.
  induction fuel as [|f IH]; intros s key stop own ps k kf K Ht Hk Hf; cbn [find_position]; [apply Hf, incl_refl|].
  apply P_fp_levels; auto.
  - intros L _. now left.
  - intros L HL. lia.
  - intros s' K' Hs I'. apply IH; auto.
    + intros s'' o K'' Hs' I''. apply Hk; auto. inc.
    + intros K'' I''. apply Hf. inc.
  - intros s' [ps'|ps'|] K' Hs I' Ho.
    + destruct (Nat.eqb own null && Nat.eqb (pcur ps') null) eqn:E.
      * apply andb_true_iff in E. destruct E as [E1 E2]. apply Nat.eqb_eq in E2. apply Hk; auto. cbn [okn] in *.
        destruct Ho as [(_ & X)|Ho]; [congruence|exact Ho].
      * apply Hk; auto.
    + apply Hk; auto.
    + apply Hk; auto.
Qed.

(** *** insert_at_position *)
Lemma P_ia_clear_upper K nw : forall h l (k : prog R) c,
  1 <= l -> (forall c', SF t n K (Some (nw, 0, c')) k) -> SF t n K (Some (nw, 0, c)) (ia_clear_upper nw l h k).
Proof.
  induction h as [|h IH]; intros l k c Hl H; cbn [ia_clear_upper]; [apply H|].
  destruct (Nat.ltb l (l + S h)); [|apply H]. apply SF_st_own; [lia|reflexivity|]. intros _. apply IH; [lia|exact H].
Qed.

Definition kany (k : prog R) : Prop := forall K O, SF t n K O k.

Lemma P_ia_level fuel : forall s key nw h l p ps (knext : TL -> pos -> prog R) kdone kf K c,
  tlk t n s -> l < MAXH -> posk K ps ->
  (forall s' ps' K', tlk t n s' -> incl K K' -> posk K' ps' -> SF t n K' (Some (nw, S l, None)) (knext s' ps')) ->
  (forall s', tlk t n s' -> kany (kdone s')) -> kany kf ->
  SF t n K (Some (nw, l, c)) (ia_level fuel s key nw h l p ps knext kdone kf).
Proof.
  induction fuel as [|f IH]; intros s key nw h l p ps knext kdone kf K c Ht Hl Hp Hk Hd Hf; cbn [ia_level]; [apply Hf|].
  assert (Hgive : forall s' K' O', tlk t n s' ->
            SF t n K' O' (Act (a_fas_unl nw (Z.of_nat (h - l))) (fun _ => find_position (S f) s' key false null ps (fun s'' _ => kdone s'') kf))).
  { intros s' K' O' Hs. nx. apply P_find_position; [exact Hs|intros; now apply Hd|intros; apply Hf]. }
  apply SF_cas_own; [reflexivity| |].
  - intros cur. cbn [vok negb fst]. apply SF_cas_link; auto.
    + apply Hp. lia.
    + intros cur2. cbn [vok]. apply Hk; auto using incl_refl.
    + intros cur2. cbn [vok]. apply P_find_position; [exact Ht| |intros; apply Hf].
      intros s' o K' Hs I' Ho. destruct o as [ps'|ps'|]; [|now apply Hgive|now apply Hgive].
      cbn [okn] in Ho. destruct Ho as [(X & _)|Ho]; [discriminate|]. apply IH; auto.
      intros s'' ps'' K'' Hs' I''. apply Hk; auto. inc.
  - intros cur. cbn [vok negb]. now apply Hgive.
Qed.

Lemma P_ia_levels fuel : forall m s key nw h l ps (kdone : TL -> prog R) kf K c,
  tlk t n s -> l + m <= MAXH -> posk K ps ->
  (forall s', tlk t n s' -> kany (kdone s')) -> kany kf ->
  SF t n K (Some (nw, l, c)) (ia_levels fuel m s key nw h l ps kdone kf).
Proof.
  induction m as [|m IH]; intros s key nw h l ps kdone kf K c Ht Hl Hp Hd Hf; cbn [ia_levels]; [now apply Hd|].
  apply P_ia_level; auto; [lia|]. intros s' ps' K' Hs I' Hp'. apply IH; auto. lia.
Qed.

Lemma P_insert_at fuel s key nw h ps (k : TL -> bool -> prog R) kf K c :
  tlk t n s -> 1 <= h <= MAXH -> posk K ps ->
  (forall s' c', tlk t n s' -> SF t n K (Some (nw, 0, c')) (k s' false)) ->
  (forall s', tlk t n s' -> kany (k s' true)) -> kany kf ->
  SF t n K (Some (nw, 0, c)) (insert_at fuel s key nw h ps k kf).
Proof.
  intros Ht Hh Hp Hk0 Hk1 Hf. unfold insert_at. apply P_ia_clear_upper; [lia|]. intros c'.
  apply SF_st_own; [lia|reflexivity|]. intros _. cbn [Nat.eqb fst].
  apply SF_cas_link; [unfold MAXH; lia|apply Hp; unfold MAXH; lia| |].
  - intros cur. cbn [vok negb]. apply P_ia_levels; auto. lia.
  - intros cur. cbn [vok negb]. now apply Hk0.
Qed.

Lemma P_insert_loop fuel : forall s key nw h tower ps (k : TL -> bool -> prog R) kf K c,
  tlk t n s -> 1 <= h <= MAXH ->
  (forall s' b, tlk t n s' -> kany (k s' b)) -> kany kf ->
  SF t n K (Some (nw, 0, c)) (insert_loop fuel s key nw h tower ps k kf).
Proof.
  induction fuel as [|f IH]; intros s key nw h tower ps k kf K c Ht Hh Hk Hf; cbn [insert_loop]; [apply Hf|].
  apply P_find_position; [exact Ht| |intros; apply Hf]. intros s1 o K' Hs I' Ho. destruct o as [ps1|ps1|]; [now apply Hk| |now apply Hk].
  cbn [okn] in Ho.
  assert (Hins : SF t n K' (Some (nw, 0, c)) (insert_at (S f) s1 key nw h ps1
            (fun s2 ok => if ok then Act a_ld_hgt (fun _ => Act a_faa_cnt (fun _ => k s2 true))
                          else insert_loop f s2 key nw h true ps1 k kf) kf)).
  { apply P_insert_at; [exact Hs|exact Hh|exact Ho| | |exact Hf].
    - intros s' c' Hs'. now apply IH.
    - intros s' Hs' K'' O''. nx. nx. now apply Hk. }
  destruct tower; [exact Hins|]. destruct (Nat.ltb 1 h); [|exact Hins]. nx. exact Hins.
Qed.

(** *** find_fastpath: loads and guard operations only *)
Lemma P_ff_level fuel : forall s key g0 g1 lvl pred cur (k : ff_out -> ptr -> prog R) kf,
  (forall o p, kany (k o p)) -> kany kf -> kany (ff_level fuel s key g0 g1 lvl pred cur k kf).
Proof.
  induction fuel as [|f IH]; intros s key g0 g1 lvl pred cur k kf Hk Hf; cbn [ff_level]; [exact Hf|].
  destruct (Nat.eqb (fst cur) null && negb (snd cur)); [apply Hk|]. destruct (snd cur); [apply Hk|].
  destruct (cmpk (fst cur) key <? 0)%Z.
  - intros K O. apply SF_copy. apply P_ga_protect; [intros; apply Hf|]. intros nx K' _ _ _. now apply IH.
  - destruct (cmpk (fst cur) key =? 0)%Z; [|apply Hk]. intros K O. apply SF_ld. intros x K' _ _ _. cbn [vp]. destruct (snd x); apply Hk.
Qed.

Lemma P_ff_levels fuel : forall m s key g0 g1 pred (k : ff_out -> prog R) kf,
  (forall o, kany (k o)) -> kany kf -> kany (ff_levels fuel m s key g0 g1 pred k kf).
Proof.
  induction m as [|lvl IH]; intros s key g0 g1 pred k kf Hk Hf; cbn [ff_levels]; [apply Hk|].
  intros K O. apply P_ga_protect; [intros; apply Hf|]. intros cur K' _ _ _. apply P_ff_level; [|exact Hf].
  intros o p. destruct o; try apply Hk. now apply IH.
Qed.

Lemma P_find_fastpath fuel : forall s key g0 g1 attempt (k : ff_out -> prog R) kf,
  (forall o, kany (k o)) -> kany kf -> kany (find_fastpath fuel s key g0 g1 attempt k kf).
Proof.
  induction fuel as [|f IH]; intros s key g0 g1 attempt k kf Hk Hf; cbn [find_fastpath]; [exact Hf|].
  intros K O. nx. apply P_ff_levels; [|exact Hf]. intros o. destruct o; try apply Hk.
  destruct (Nat.ltb (S attempt) 4); [now apply IH|apply Hk].
Qed.

End Progs.

(** *** the operations *)
Definition between {R} (t : nat) (cont : TL -> prog R) : Prop := forall s n K O, tlk t n s -> SF t n K O (cont s).

Lemma P_op_insert {R} t fuel s k h (cont : TL -> prog R) n K O :
  t < 64 -> k < 8 -> 1 <= h <= MAXH -> tlk t n s -> between t cont -> SF t n K O (op_insert fuel s k h cont).
Proof.
  intros Ht Hk Hh [E1 E2] Hc. unfold op_insert. rewrite E1, E2. apply SF_alloc; auto. intros _.
  assert (Hs0 : tlk t (S n) (mkTL t (fl s) (S n))) by (split; reflexivity).
  destruct (alloc1 _) as [gnew s1] eqn:Ea. pose proof (tlk_alloc1 _ _ _ _ _ Ea Hs0) as Hs1.
  apply SF_assign. destruct (allocn _ s1) as [slots s2] eqn:En. pose proof (tlk_allocn _ _ _ _ _ _ En Hs1) as Hs2.
  apply P_insert_loop; auto.
  - intros s' b Hs' K' O'. apply SF_free_all; auto. intros s'' Hs''. apply SF_clear. unfold finish. apply SF_emit. apply Hc. now apply tlk_free1.
  - intros K' O'. apply SF_free_all; auto. intros s'' Hs''. apply SF_clear. unfold out_of_fuel. apply SF_emit. apply Hc. now apply tlk_free1.
Qed.

Lemma P_op_contains {R} t fuel s k (cont : TL -> prog R) n K O :
  tlk t n s -> between t cont -> SF t n K O (op_contains fuel s k cont).
Proof.
  intros Hs Hc. unfold op_contains. destruct (allocn 2 s) as [gs s1] eqn:En. pose proof (tlk_allocn _ _ _ _ _ _ En Hs) as Hs1.
  apply P_find_fastpath.
  - intros o K' O'. apply SF_free_all; auto. intros s2 Hs2.
    assert (Hfin : forall a b s', tlk t n s' -> SF t n K' O' (finish s' a b cont)) by (intros; unfold finish; apply SF_emit; now apply Hc).
    destruct o; try (now apply Hfin).
    destruct (allocn _ s2) as [slots s3] eqn:En3. pose proof (tlk_allocn _ _ _ _ _ _ En3 Hs2) as Hs3.
    apply P_find_position; auto.
    + intros s4 o' K'' Hs4 _ _. apply SF_free_all; auto. intros s5 Hs5. unfold finish. destruct o'; apply SF_emit; now apply Hc.
    + intros K'' _. apply SF_free_all; auto. intros s5 Hs5. unfold out_of_fuel. apply SF_emit. now apply Hc.
  - intros K' O'. apply SF_free_all; auto. intros s2 Hs2. unfold out_of_fuel. apply SF_emit. now apply Hc.
Qed.

(** programs of insert and contains *)
Definition ic_op (o : op) : Prop :=
  match o with
  | OIns k h => k < 8 /\ 1 <= h <= MAXH
  | OContains _ => True
  | _ => False
  end.

Lemma ic_op_ok o : ic_op o -> op_ok o.
Proof. destruct o; cbn; tauto. Qed.

Lemma P_run_ops t fuel : t < 64 -> forall os, Forall ic_op os -> between t (fun s => run_ops fuel s os).
Proof.
  intros Ht. induction os as [|o r IH]; intros Hok s n K O Hs; cbn [run_ops]; [apply SF_ret|].
  inversion Hok as [|? ? Ho Hr]; subst. unfold run_op. destruct o as [k h|k|k| |]; cbn [ic_op] in Ho; try contradiction; apply SF_emit.
  - destruct Ho. apply P_op_insert; auto.
  - apply P_op_contains; auto.
Qed.

Lemma P_thread t fuel os lv : t < 64 -> Forall ic_op os -> vser lv = 0 -> NSAFE t (thread_prog fuel t os) lv.
Proof.
  intros Ht Ho Hv. unfold thread_prog.
  assert (H : SF t 0 (vkn lv) (vown lv) (Act a_begin (fun _ => run_ops fuel (mkTL t (seq 0 NSLOTS) 0) os))).
  { nx. apply P_run_ops; auto. split; reflexivity. }
  exact (H lv (incl_refl _) Hv eq_refl).
Qed.
