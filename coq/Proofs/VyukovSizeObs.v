(** * C07 companion: every answer of VyukovMPMCCycleQueue::empty() is justified by an instant DURING the call,
      for every schedule.

    Technique: a second invariant layered on top of the invariant of LV.Proofs.VyukovCore / VyukovLin.  The generic
    part ([safeX], [safe_prod]) is a relative proof rule: the obligations of the second layer may use facts [F1]
    that the first layer's invariant implies, before and after the step; the product is an instance of
    [Conc.safe], so [Conc.reach_Inv] applies.

    Second layer for the Vyukov queue (ghost: one [glocal] per thread, only changed by its owner):
      - m_posDequeue = number of successful CAS on m_posDequeue in the trace ([ndeq]); with m_posEnqueue =
        [nclaims] of the first layer, [alen tr] = nclaims tr - ndeq tr is the length of the abstract queue
        (items whose enqueue passed its CAS E3 and whose dequeue has not passed its CAS D3) at the instant [tr];
      - a thread inside empty() with local position pos: pos <= posDeq, and if pos < posDeq then at some instant
        since the thread's last client event the abstract queue was not empty (recorded, by the step of the
        dequeuer whose CAS moved posDeq, as a split of the trace);
      - [P]: every (t, ret_empty [b]) event of the trace is preceded by an instant [tra], after which thread t
        produced no client event (so it lies inside the call), with alen tra = 0 if b = 1 and alen tra > 0 if
        b = 0. *)
From Coq Require Import ZArith List String Bool Lia PeanoNat.
From LV Require Import Base.Conc Base.Events Base.CInt Base.Lin Spec.Specs Model.Vyukov
                       Proofs.VyukovSpec Proofs.VyukovArith Proofs.VyukovCore Proofs.VyukovLin Proofs.VyukovTheorems
                       Proofs.VyukovSize.
Import ListNotations.
Local Open Scope Z_scope.

(** ** generic: relative safety and the product rule *)
Section Rel.
  Variables (G V E : Type).
  Variables (Aux1 L1 : Type) (view1 : Aux1 -> nat -> L1) (Inv1 : G -> Aux1 -> list (nat * E) -> Prop).
  Variables (Gh GL : Type) (gview : Gh -> nat -> GL) (InvX : G -> Gh -> list (nat * E) -> Prop).
  Variable F1 : G -> list (nat * E) -> Prop.
  Hypothesis Inv1_F : forall g a tr, Inv1 g a tr -> F1 g tr.

  Fixpoint safeX {R} (t : nat) (p : Conc.prog G V E R) (l : GL) (Q : R -> GL -> Prop) : Prop :=
    match p with
    | Conc.Ret r => Q r l
    | Conc.Emit es k =>
        forall g gh tr, InvX g gh tr -> F1 g tr -> F1 g (tr ++ Conc.tag t es) -> gview gh t = l ->
          exists gh', InvX g gh' (tr ++ Conc.tag t es) /\ Conc.frame gview t gh gh' /\ safeX t k (gview gh' t) Q
    | Conc.Act f k =>
        forall g gh tr, InvX g gh tr -> F1 g tr ->
          F1 (fst (fst (f g))) (tr ++ Conc.tag t (snd (f g))) -> gview gh t = l ->
          exists gh', InvX (fst (fst (f g))) gh' (tr ++ Conc.tag t (snd (f g))) /\ Conc.frame gview t gh gh' /\
                      safeX t (k (snd (fst (f g)))) (gview gh' t) Q
    end.

  Lemma safeX_bind {A B} t (p : Conc.prog G V E A) (q : A -> Conc.prog G V E B) Q : forall l,
    safeX t p l (fun r l' => safeX t (q r) l' Q) -> safeX t (Conc.bind p q) l Q.
  Proof.
    induction p as [r|es k IH|f k IH]; intros l H; cbn [Conc.bind safeX] in *.
    - exact H.
    - intros g gh tr Hi F0 F1' Hv. destruct (H g gh tr Hi F0 F1' Hv) as (gh' & H1 & H2 & H3).
      exists gh'. repeat split; auto.
    - intros g gh tr Hi F0 F1' Hv. destruct (H g gh tr Hi F0 F1' Hv) as (gh' & H1 & H2 & H3).
      exists gh'. repeat split; auto.
  Qed.

  Lemma safeX_weaken {R} t (p : Conc.prog G V E R) (Q Q' : R -> GL -> Prop) :
    (forall r l, Q r l -> Q' r l) -> forall l, safeX t p l Q -> safeX t p l Q'.
  Proof.
    intros HQ. induction p as [r|es k IH|f k IH]; intros l H; cbn [safeX] in *.
    - auto.
    - intros g gh tr Hi F0 F1' Hv. destruct (H g gh tr Hi F0 F1' Hv) as (gh' & H1 & H2 & H3). exists gh'; auto.
    - intros g gh tr Hi F0 F1' Hv. destruct (H g gh tr Hi F0 F1' Hv) as (gh' & H1 & H2 & H3). exists gh'; auto.
  Qed.

  Definition view12 (a : Aux1 * Gh) (u : nat) : L1 * GL := (view1 (fst a) u, gview (snd a) u).
  Definition Inv12 (g : G) (a : Aux1 * Gh) (tr : list (nat * E)) : Prop := Inv1 g (fst a) tr /\ InvX g (snd a) tr.

  Lemma safe_prod {R} t (p : Conc.prog G V E R) Q1 Q2 : forall l1 l2,
    @Conc.safe G V E Aux1 L1 view1 Inv1 R t p l1 Q1 -> safeX t p l2 Q2 ->
    @Conc.safe G V E (Aux1 * Gh) (L1 * GL) view12 Inv12 R t p (l1, l2) (fun r l => Q1 r (fst l) /\ Q2 r (snd l)).
  Proof.
    induction p as [r|es k IH|f k IH]; intros l1 l2 S1 S2; cbn [Conc.safe safeX] in *.
    - split; auto.
    - intros g [a gh] tr [H1 H2] Hv. cbn [fst snd] in *. unfold view12 in Hv. cbn [fst snd] in Hv.
      injection Hv as Hv1 Hv2.
      destruct (S1 g a tr H1 Hv1) as (a' & I1 & Fr1 & K1).
      destruct (S2 g gh tr H2 (Inv1_F _ _ _ H1) (Inv1_F _ _ _ I1) Hv2) as (gh' & I2 & Fr2 & K2).
      exists (a', gh'). split; [split; auto|]. split.
      + intros u Hu. unfold view12. cbn [fst snd]. rewrite (Fr1 u Hu), (Fr2 u Hu). reflexivity.
      + apply IH; auto.
    - intros g [a gh] tr [H1 H2] Hv. cbn [fst snd] in *. unfold view12 in Hv. cbn [fst snd] in Hv.
      injection Hv as Hv1 Hv2.
      destruct (S1 g a tr H1 Hv1) as (a' & I1 & Fr1 & K1).
      destruct (S2 g gh tr H2 (Inv1_F _ _ _ H1) (Inv1_F _ _ _ I1) Hv2) as (gh' & I2 & Fr2 & K2).
      exists (a', gh'). split; [split; auto|]. split.
      + intros u Hu. unfold view12. cbn [fst snd]. rewrite (Fr1 u Hu), (Fr2 u Hu). reflexivity.
      + apply IH; auto.
  Qed.
End Rel.

(** ** trace vocabulary *)
Definition is_dc (e : ev) : bool := match e with EvAcc KCas (1 :: nil) true => true | _ => false end.
Definition ndeq (tr : list (nat * ev)) : Z := Z.of_nat (Datatypes.length (filter (fun e => is_dc (snd e)) tr)).
Definition ndeqe (es : list ev) : Z := Z.of_nat (Datatypes.length (filter is_dc es)).

Lemma ndeq_app a b : ndeq (a ++ b) = ndeq a + ndeq b.
Proof. unfold ndeq. rewrite filter_app, app_length. lia. Qed.

Lemma ndeq_tag t es : ndeq (Conc.tag t es) = ndeqe es.
Proof.
  unfold ndeq, ndeqe, Conc.tag. f_equal.
  induction es as [|e es IH]; cbn; [reflexivity|]. destruct (is_dc e); cbn; congruence.
Qed.

(** length of the abstract queue at the instant [tr] *)
Definition alen (tr : list (nat * ev)) : Z := nclaims tr - ndeq tr.

Definition quiet (e : ev) : bool :=
  match e with EvAcc _ _ _ => true | EvCli n _ => String.eqb n "val" end.

(** thread [t] produced no client event (only accesses and their value records) in [trb] *)
Definition in_call (t : nat) (trb : list (nat * ev)) : Prop := forall e, In (t, e) trb -> quiet e = true.

Lemma in_call_app t a b : in_call t a -> in_call t b -> in_call t (a ++ b).
Proof. intros Ha Hb e H. apply in_app_or in H. destruct H; auto. Qed.

Lemma in_call_nil t : in_call t [].
Proof. intros e []. Qed.

Lemma in_call_other u t es : u <> t -> in_call u (Conc.tag t es).
Proof.
  intros N e H. unfold Conc.tag in H. apply in_map_iff in H. destruct H as (x & Hx & _). inversion Hx. congruence.
Qed.

Lemma in_call_acc t kk o ok rd wr : in_call t (Conc.tag t (acc kk o ok rd wr)).
Proof. intros e H. cbn in H. destruct H as [H|[H|[]]]; inversion H; reflexivity. Qed.

Definition Wit (u : nat) (C : Z -> Prop) (tr : list (nat * ev)) : Prop :=
  exists tra trb, tr = tra ++ trb /\ in_call u trb /\ C (alen tra).

Lemma Wit_ext u C tr ch : Wit u C tr -> in_call u ch -> Wit u C (tr ++ ch).
Proof.
  intros (tra & trb & -> & H1 & H2) Hc. exists tra, (trb ++ ch). rewrite app_assoc. repeat split; auto.
  apply in_call_app; auto.
Qed.

Lemma Wit_now u (C : Z -> Prop) tr : C (alen tr) -> Wit u C tr.
Proof. intros H. exists tr, []. rewrite app_nil_r. repeat split; auto. apply in_call_nil. Qed.

Lemma Wit_mono u (C C' : Z -> Prop) tr : (forall n, C n -> C' n) -> Wit u C tr -> Wit u C' tr.
Proof. intros HC (tra & trb & H0 & H1 & H2). exists tra, trb. auto. Qed.

(** answer b (1 = true, 0 = false) agrees with the emptiness of the abstract queue of length n *)
Definition Cb (b n : Z) : Prop := (b = 1 -> n = 0) /\ (b = 0 -> 0 < n).
Definition W (u : nat) (b : Z) (tr : list (nat * ev)) : Prop := Wit u (Cb b) tr.

Definition P (tr : list (nat * ev)) : Prop :=
  forall tr1 t b tr2, tr = tr1 ++ (t, EvCli "ret_empty" [b]) :: tr2 -> W t b tr1.

Definition noretb (es : list ev) : bool := forallb (fun e => negb (is_cli "ret_empty" e)) es.

Lemma split_app {A} (a b : list A) x : forall l1 l2, a ++ b = l1 ++ x :: l2 ->
  (exists m, a = l1 ++ x :: m /\ l2 = m ++ b) \/ (exists m, b = m ++ x :: l2 /\ l1 = a ++ m).
Proof.
  induction a as [|y a IH]; intros l1 l2 H; cbn in H.
  - right. exists l1. auto.
  - destruct l1 as [|z l1]; cbn in H; injection H as H1 H2.
    + left. exists a. subst. auto.
    + destruct (IH l1 l2 H2) as [(m & E1 & E2)|(m & E1 & E2)].
      * left. exists m. subst. auto.
      * right. exists m. subst. auto.
Qed.

Lemma P_app_noret tr t es : P tr -> noretb es = true -> P (tr ++ Conc.tag t es).
Proof.
  intros HP Hn tr1 u b tr2 H. destruct (split_app _ _ _ _ _ H) as [(m & E1 & E2)|(m & E1 & E2)].
  - eapply HP. exact E1.
  - exfalso. assert (Hin : In (u, EvCli "ret_empty" [b]) (Conc.tag t es)) by (rewrite E1; apply in_elt).
    unfold Conc.tag in Hin. apply in_map_iff in Hin. destruct Hin as (e & He & Hin). inversion He; subst.
    unfold noretb in Hn. rewrite forallb_forall in Hn. specialize (Hn _ Hin). cbn in Hn. discriminate.
Qed.

Lemma P_app_ret tr t b : P tr -> W t b tr -> P (tr ++ Conc.tag t [EvCli "ret_empty" [b]]).
Proof.
  intros HP HW tr1 u b' tr2 H. destruct (split_app _ _ _ _ _ H) as [(m & E1 & E2)|(m & E1 & E2)].
  - eapply HP. exact E1.
  - cbn in E1. destruct m as [|z m]; cbn in E1.
    + injection E1 as E3 E4 E5. subst. rewrite app_nil_r. exact HW.
    + injection E1 as E3 E4. destruct m; discriminate.
Qed.

Definition plainb (es : list ev) : bool :=
  forallb (fun e => match e with EvCli n _ => negb (String.eqb n "ret_empty") | _ => false end) es.

Lemma plain_ndeqe es : plainb es = true -> ndeqe es = 0.
Proof.
  unfold ndeqe. induction es as [|e es IH]; cbn; [reflexivity|]. intros H. apply andb_prop in H. destruct H as [H1 H2].
  destruct e; [discriminate|]. cbn. auto.
Qed.

Lemma plain_noret es : plainb es = true -> noretb es = true.
Proof.
  unfold plainb, noretb. induction es as [|e es IH]; cbn [forallb]; [reflexivity|].
  intros H. apply andb_prop in H. destruct H as [H1 H2].
  rewrite (IH H2), andb_true_r. destruct e; [discriminate|]. cbn. exact H1.
Qed.

(** ** the ghost *)
Inductive glocal := GN | GInv | GPos (pos : Z) | GDec (b : Z).
Definition Gh := nat -> glocal.
Definition gview (gh : Gh) (u : nat) : glocal := gh u.
Definition updg (gh : Gh) (t : nat) (x : glocal) : Gh := fun u => if Nat.eqb u t then x else gh u.

Lemma updg_same gh t x : updg gh t x t = x.
Proof. unfold updg. now rewrite Nat.eqb_refl. Qed.
Lemma updg_other gh t x u : u <> t -> updg gh t x u = gh u.
Proof. unfold updg. intros H. destruct (Nat.eqb_spec u t); congruence. Qed.
Lemma frame_updg gh t x : Conc.frame gview t gh (updg gh t x).
Proof. intros u Hu. unfold gview. now rewrite updg_other. Qed.

(** what one atomic action may do to m_posDequeue, and what it logs *)
Definition nice (f : G -> G * V * list ev) : Prop :=
  forall g, noretb (snd (f g)) = true /\
    ((posD (fst (fst (f g))) = posD g /\ ndeqe (snd (f g)) = 0) \/
     (ndeqe (snd (f g)) = 1 /\ posE (fst (fst (f g))) = posE g /\
      (0 <= posD g < B62 -> posD (fst (fst (f g))) = posD g + 1))).

Fixpoint allnice {R} (p : prog R) : Prop :=
  match p with
  | Conc.Ret _ => True
  | Conc.Emit es k => plainb es = true /\ allnice k
  | Conc.Act f k => nice f /\ forall v, allnice (k v)
  end.

Lemma allnice_bind {A B} (p : prog A) (q : A -> prog B) :
  allnice p -> (forall r, allnice (q r)) -> allnice (Conc.bind p q).
Proof.
  induction p as [r|es k IH|f k IH]; cbn [Conc.bind allnice]; intros H Hq; auto.
  - destruct H; split; auto.
  - destruct H as [H1 H2]; split; auto.
Qed.

Ltac nice_ld := intros g; cbn; split; [reflexivity|left; split; reflexivity].

Lemma nice_begin : nice a_begin. Proof. nice_ld. Qed.
Lemma nice_ld_posE : nice a_ld_posE. Proof. nice_ld. Qed.
Lemma nice_ld_posD : nice a_ld_posD. Proof. nice_ld. Qed.
Lemma nice_ld_seq i : nice (a_ld_seq i). Proof. nice_ld. Qed.
Lemma nice_st_seq i x : nice (a_st_seq i x). Proof. nice_ld. Qed.
Lemma nice_faa : nice a_faa_cnt. Proof. nice_ld. Qed.
Lemma nice_fas : nice a_fas_cnt. Proof. nice_ld. Qed.
Lemma nice_ld_cnt : nice a_ld_cnt. Proof. nice_ld. Qed.
Lemma nice_cas_posE e d i v : nice (a_cas_posE e d i v).
Proof. intros g. unfold a_cas_posE. destruct (Z.eqb (posE g) e); cbn; (split; [reflexivity|left; split; reflexivity]). Qed.
Lemma nice_cas_posD pos i : nice (a_cas_posD pos (uadd u64 pos 1) i).
Proof.
  intros g. unfold a_cas_posD. destruct (Z.eqb_spec (posD g) pos) as [E|E]; cbn; (split; [reflexivity|]).
  - right. split; [reflexivity|]. split; [reflexivity|]. intros Hb. subst pos. apply uadd1. rewrite B62_val. lia.
  - left. split; reflexivity.
Qed.

Lemma allnice_enq_loop q fuel : forall v pos, allnice (enq_loop q fuel v pos).
Proof.
  induction fuel as [|f IH]; intros v pos; cbn [enq_loop allnice]; [exact I|].
  split; [apply nice_ld_seq|]. intros r. destruct (sdif _ _) as [dif|]; [|exact I].
  destruct (dif =? 0).
  - cbn [allnice]. split; [apply nice_cas_posE|]. intros c. destruct (vok c); [|apply IH].
    unfold enq_finish. cbn [allnice]. split; [apply nice_st_seq|]. intros _.
    destruct (qcount q); cbn [allnice]; auto. split; [apply nice_faa|]. intros _. exact I.
  - destruct (dif <? 0); cbn [allnice].
    + split; [apply nice_ld_posD|]. intros d. destruct (_ =? _); cbn [allnice]; [exact I|].
      split; [apply nice_ld_posE|]. intros p. apply IH.
    + split; [apply nice_ld_posE|]. intros p. apply IH.
Qed.

Lemma allnice_deq_loop q fuel : forall pos, allnice (deq_loop q fuel pos).
Proof.
  induction fuel as [|f IH]; intros pos; cbn [deq_loop allnice]; [exact I|].
  split; [apply nice_ld_seq|]. intros r. destruct (sdif _ _) as [dif|]; [|exact I].
  destruct (dif =? 0).
  - cbn [allnice]. split; [apply nice_cas_posD|]. intros c. destruct (vok c); [|apply IH].
    unfold deq_finish. cbn [allnice]. split; [apply nice_st_seq|]. intros _.
    destruct (qcount q); cbn [allnice]; auto. split; [apply nice_fas|]. intros _. exact I.
  - destruct (dif <? 0); cbn [allnice].
    + split; [apply nice_ld_posE|]. intros d. destruct (_ =? _); cbn [allnice]; [exact I|].
      split; [apply nice_ld_posD|]. intros p. apply IH.
    + split; [apply nice_ld_posD|]. intros p. apply IH.
Qed.

Lemma allnice_front_loop q fuel : forall pos, allnice (front_loop q fuel pos).
Proof.
  induction fuel as [|f IH]; intros pos; cbn [front_loop allnice]; [exact I|].
  split; [apply nice_ld_seq|]. intros r. destruct (sdif _ _) as [dif|]; [|exact I].
  destruct (dif =? 0); [exact I|].
  destruct (dif <? 0); cbn [allnice].
  - split; [apply nice_ld_posE|]. intros d. destruct (_ =? _); cbn [allnice]; [exact I|].
    split; [apply nice_ld_posD|]. intros p. apply IH.
  - split; [apply nice_ld_posD|]. intros p. apply IH.
Qed.

Lemma allnice_finish {A} (o : outcome A) (kf : A -> prog bool) :
  (forall a, allnice (kf a)) -> allnice (finish o kf).
Proof. intros H. destruct o; cbn; auto. Qed.

Lemma allnice_run_op q fuel o : o <> OEmpty -> allnice (run_op q fuel o).
Proof.
  intros N. destruct o as [v| | | | |]; try congruence; cbn [run_op allnice]; (split; [reflexivity|]);
    apply allnice_bind.
  - unfold enqueue. cbn [allnice]. split; [apply nice_ld_posE|]. intros p. apply allnice_enq_loop.
  - intros r. apply allnice_finish. intros b. cbn. auto.
  - unfold dequeue. cbn [allnice]. split; [apply nice_ld_posD|]. intros p. apply allnice_deq_loop.
  - intros r. apply allnice_finish. intros [x|]; cbn; auto.
  - unfold front. cbn [allnice]. split; [apply nice_ld_posD|]. intros p. apply allnice_front_loop.
  - intros r. apply allnice_finish. intros [x|]; cbn; auto.
  - unfold dequeue. cbn [allnice]. split; [apply nice_ld_posD|]. intros p. apply allnice_deq_loop.
  - intros r. apply allnice_finish. intros [x|]; cbn; auto.
  - unfold size. destruct (qcount q); cbn [allnice]; auto. split; [apply nice_ld_cnt|]. intros r. exact I.
  - intros n. cbn. auto.
Qed.

Section Obs.
  Variable k : nat.
  Hypothesis Hk : (1 <= k)%nat.
  Variable q : qcfg.
  Hypothesis Hq : qcap q = 2 ^ Z.of_nat k.
  Variable sc : option nat.
  Variable mp : bool.

  Notation cap := (2 ^ Z.of_nat k).
  Notation X07 := (list (aev (VQ (2 ^ k)))).
  Notation Inv07 := (Inv k sc 0 X07 (Ext07 k mp)).
  Notation view07 := (view X07 unit (xview07 k)).

  (** what the second layer borrows from the first *)
  Definition RF (g : G) (tr : list (nat * ev)) : Prop :=
    0 <= posD g /\ posD g <= posE g /\ posE g <= posD g + cap /\ posE g + cap < B62 /\
    posE g = nclaims tr /\
    (seqs g (cell k (posD g)) = posD g + 1 -> posD g < posE g) /\
    (forall p, 0 <= seqs g (cell k p) <= posE g + cap).

  Definition F1 (g : G) (tr : list (nat * ev)) : Prop := bound k 0 tr -> RF g tr.

  Lemma Inv07_F g a tr : Inv07 g a tr -> F1 g tr.
  Proof.
    intros Hi Hb. specialize (Hi Hb).
    destruct (ri_bounds k Hk sc 0 X07 (Ext07 k mp) g a tr Hi Hb) as (B1 & B2 & B3 & B4).
    pose proof (ri_claims k sc 0 X07 (Ext07 k mp) g a tr Hi) as Hc.
    repeat split; try lia.
    - intros Hs.
      destruct (empty_false_state k Hk sc 0 X07 (Ext07 k mp) g a tr (posD g) Hi ltac:(lia) Hs) as [(_ & L & _)|(L & _)]; lia.
    - apply (ri_seqb k sc 0 X07 (Ext07 k mp) g a tr Hi p).
    - apply (ri_seqb k sc 0 X07 (Ext07 k mp) g a tr Hi p).
  Qed.

  Definition clause (g : G) (tr : list (nat * ev)) (u : nat) (x : glocal) : Prop :=
    match x with
    | GN | GInv => True
    | GPos pos => 0 <= pos <= posD g /\ (pos < posD g -> Wit u (fun n => 0 < n) tr)
    | GDec b => W u b tr
    end.

  Definition Extra (g : G) (gh : Gh) (tr : list (nat * ev)) : Prop :=
    posD g = ndeq tr /\ (forall u, clause g tr u (gh u)) /\ P tr.

  Definition InvX (g : G) (gh : Gh) (tr : list (nat * ev)) : Prop := bound k 0 tr -> Extra g gh tr.

  Notation sX := (safeX G V ev Gh glocal gview InvX F1).

  Lemma clause_ext g tr u x ch : clause g tr u x -> in_call u ch -> clause g (tr ++ ch) u x.
  Proof.
    intros H Hc. destruct x as [| |pos|b]; cbn [clause] in *; auto.
    - destruct H as [A B]. split; auto. intros L. apply Wit_ext; auto.
    - apply Wit_ext; auto.
  Qed.

  (** a step of thread t that leaves m_posDequeue alone *)
  Lemma Extra_step g gh tr t es x :
    Extra g gh tr -> ndeqe es = 0 -> P (tr ++ Conc.tag t es) -> clause g (tr ++ Conc.tag t es) t x ->
    Extra g (updg gh t x) (tr ++ Conc.tag t es).
  Proof.
    intros (X1 & X2 & X4) Hn HP Hc. split; [|split; auto].
    - rewrite ndeq_app, ndeq_tag, Hn. lia.
    - intros u. destruct (Nat.eq_dec u t) as [->|N]; [rewrite updg_same; exact Hc|].
      rewrite updg_other by auto. apply clause_ext; auto. apply in_call_other; auto.
  Qed.

  (** programs whose thread is outside empty(): the ghost of the thread stays [GN] *)
  Lemma lift {R} t (p : prog R) : allnice p -> sX t p GN (fun _ l => l = GN).
  Proof.
    induction p as [r|es kk IH|f kk IH]; cbn [allnice safeX]; intros Hn.
    - reflexivity.
    - destruct Hn as [Hpl Hk']. intros g gh tr HX F0 F1' Hv. exists (updg gh t GN).
      split; [|split; [apply frame_updg|unfold gview; rewrite updg_same; apply IH; exact Hk']].
      intros Hb. pose proof (bound_app k Hk 0 _ _ Hb) as Hb0. pose proof (HX Hb0) as Ex.
      apply Extra_step; auto.
      + apply plain_ndeqe; auto.
      + apply P_app_noret; [apply Ex|apply plain_noret; auto].
      + exact I.
    - destruct Hn as [Hnice Hk']. intros g gh tr HX F0 F1' Hv. exists gh.
      split; [|split; [intros ? ?; reflexivity|rewrite Hv; apply IH; apply Hk']].
      intros Hb. pose proof (bound_app k Hk 0 _ _ Hb) as Hb0.
      destruct (HX Hb0) as (X1 & X2 & X4). pose proof (F0 Hb0) as R0. pose proof (F1' Hb) as R1.
      destruct (Hnice g) as (Hnr & Hcase).
      set (g' := fst (fst (f g))) in *. set (es := snd (f g)) in *.
      destruct R0 as (A1 & A2 & A3 & A4 & A5 & A6 & A7). destruct R1 as (C1 & C2 & C3 & C4 & C5 & C6 & C7).
      assert (Hgt : gh t = GN) by exact Hv.
      destruct Hcase as [(D0 & N0)|(N1 & E1 & D1)].
      + split; [|split].
        * rewrite ndeq_app, ndeq_tag, N0, D0. lia.
        * intros u. specialize (X2 u). destruct (Nat.eq_dec u t) as [->|N]; [rewrite Hgt; exact I|].
          destruct (gh u) as [| |pos|b]; cbn [clause] in *; auto.
          -- rewrite D0. destruct X2 as [A B]. split; auto. intros L. apply Wit_ext; auto. apply in_call_other; auto.
          -- apply Wit_ext; auto. apply in_call_other; auto.
        * apply P_app_noret; auto.
      + assert (Dg : posD g' = posD g + 1) by (apply D1; lia).
        split; [|split].
        * rewrite ndeq_app, ndeq_tag, N1, Dg. lia.
        * intros u. specialize (X2 u). destruct (Nat.eq_dec u t) as [->|N]; [rewrite Hgt; exact I|].
          destruct (gh u) as [| |pos|b]; cbn [clause] in *; auto.
          -- destruct X2 as [A B]. split; [lia|]. intros L.
             exists tr, (Conc.tag t es). split; [reflexivity|]. split; [apply in_call_other; auto|].
             unfold alen. lia.
          -- apply Wit_ext; auto. apply in_call_other; auto.
        * apply P_app_noret; auto.
  Qed.

  Definition Qe : outcome bool -> glocal -> Prop :=
    fun r l => match r with Done b => l = GDec (b2z b) | _ => True end.

  (** an own load of thread t: new local [x] *)
  Lemma own_load g gh tr t o rd wr x :
    Extra g gh tr -> clause g (tr ++ Conc.tag t (acc KLd o true rd wr)) t x ->
    Extra g (updg gh t x) (tr ++ Conc.tag t (acc KLd o true rd wr)).
  Proof.
    intros Ex Hc. apply Extra_step; auto. apply P_app_noret; [apply Ex|reflexivity].
  Qed.

  Lemma alen_now g gh tr : Extra g gh tr -> RF g tr -> alen tr = posE g - posD g.
  Proof. intros (X1 & _) (_ & _ & _ & _ & A5 & _). unfold alen. lia. Qed.

  Lemma sX_empty_loop fuel : forall t pos, sX t (empty_loop q fuel pos) (GPos pos) Qe.
  Proof.
    induction fuel as [|f IH]; intros t pos; cbn [empty_loop safeX]; [exact I|].
    intros g gh tr HX F0 F1' Hv. cbn [a_ld_seq fst snd vz] in *.
    set (idx := Z.land pos (qmask q)) in *. set (s := seqs g idx) in *.
    set (tr' := tr ++ Conc.tag t (acc KLd (obj_seq idx) true s s)) in *.
    assert (Facts : bound k 0 tr' ->
              Extra g gh tr /\ RF g tr /\ RF g tr' /\ idx = cell k pos /\ 0 <= pos <= posD g /\
              (pos < posD g -> Wit t (fun n => 0 < n) tr)).
    { intros Hb. pose proof (bound_app k Hk 0 _ _ Hb) as Hb0. pose proof (HX Hb0) as Ex.
      destruct Ex as (X1 & X2 & X4). pose proof (X2 t) as C. unfold gview in Hv. rewrite Hv in C. cbn [clause] in C.
      destruct C as [C1 C2]. split; [exact (conj X1 (conj X2 X4))|]. split; [exact (F0 Hb0)|].
      split; [exact (F1' Hb)|]. split; [apply (idx_cell k Hk q Hq 0 (Z.le_refl 0) tr pos Hb0)|].
      split; [exact C1|exact C2]. }
    assert (Keep : bound k 0 tr' -> Extra g (updg gh t (GPos pos)) tr').
    { intros Hb. destruct (Facts Hb) as (Ex & R0 & R1 & Ei & Hp & Hw).
      apply own_load; auto. cbn [clause]. split; auto. intros L. apply Wit_ext; auto. apply in_call_acc. }
    assert (Reload : sX t (Conc.Act a_ld_posD (fun p0 => empty_loop q f (vz p0))) (GPos pos) Qe).
    { cbn [safeX]. intros g3 gh3 tr3 HX3 F03 F13 Hv3. cbn [a_ld_posD fst snd vz] in *.
      exists (updg gh3 t (GPos (posD g3))).
      split; [|split; [apply frame_updg|unfold gview; rewrite updg_same; apply IH]].
      intros Hb. pose proof (bound_app k Hk 0 _ _ Hb) as Hb0.
      apply own_load; [apply HX3; auto|]. cbn [clause].
      destruct (F03 Hb0) as (A1 & _). split; [lia|]. intros L. lia. }
    destruct (sdif s (uadd u64 pos 1)) as [dif|] eqn:Ed.
    2: { exists (updg gh t GN). split; [|split; [apply frame_updg|unfold gview; rewrite updg_same; exact I]].
         intros Hb. exfalso. destruct (Facts Hb) as (Ex & R0 & R1 & Ei & Hp & Hw).
         destruct R0 as (A1 & A2 & A3 & A4 & A5 & A6 & A7).
         pose proof (A7 pos) as Hs. rewrite <- Ei in Hs. fold s in Hs.
         rewrite uadd1 in Ed by lia. rewrite sdif_small in Ed by lia. discriminate. }
    destruct (Z.eqb_spec dif 0) as [D0|D0].
    - (* the cell of pos is published: answer false *)
      exists (updg gh t (GDec 0)). split; [|split; [apply frame_updg|unfold gview; rewrite updg_same; reflexivity]].
      intros Hb. destruct (Facts Hb) as (Ex & R0 & R1 & Ei & Hp & Hw).
      apply own_load; auto. cbn [clause]. unfold W.
      destruct R0 as (A1 & A2 & A3 & A4 & A5 & A6 & A7).
      pose proof (A7 pos) as Hs. rewrite <- Ei in Hs. fold s in Hs.
      rewrite uadd1 in Ed by lia. rewrite sdif_small in Ed by lia. inversion Ed as [Ed'].
      destruct (Z.eq_dec pos (posD g)) as [E|N].
      + apply Wit_now. split; [intros H; discriminate H|intros _].
        assert (Ex' : Extra g (updg gh t (GPos pos)) tr') by (apply Keep; auto).
        fold tr'. rewrite (alen_now _ _ _ Ex' R1).
        assert (posD g < posE g); [|lia]. apply A6. rewrite <- E, <- Ei. fold s. lia.
      + apply Wit_ext; [|apply in_call_acc].
        eapply Wit_mono; [|apply Hw; lia]. intros n Hn. split; [intros H; discriminate H|auto].
    - exists (updg gh t (GPos pos)). split; [exact Keep|]. split; [apply frame_updg|].
      unfold gview. rewrite updg_same.
      destruct (Z.ltb_spec dif 0) as [L|L]; [|exact Reload].
      cbn [safeX]. intros g2 gh2 tr2 HX2 F02 F12 Hv2. cbn [a_ld_posE fst snd vz] in *.
      set (tr2' := tr2 ++ Conc.tag t (acc KLd obj_posE true (posE g2) (posE g2))) in *.
      assert (Facts2 : bound k 0 tr2' ->
                Extra g2 gh2 tr2 /\ RF g2 tr2 /\ RF g2 tr2' /\ 0 <= pos <= posD g2 /\
                (pos < posD g2 -> Wit t (fun n => 0 < n) tr2)).
      { intros Hb. pose proof (bound_app k Hk 0 _ _ Hb) as Hb0. pose proof (HX2 Hb0) as Ex.
        destruct Ex as (X1 & X2 & X4). pose proof (X2 t) as C. unfold gview in Hv2. rewrite Hv2 in C.
        cbn [clause] in C. destruct C as [C1 C2]. split; [exact (conj X1 (conj X2 X4))|]. split; [exact (F02 Hb0)|].
        split; [exact (F12 Hb)|]. split; [exact C1|exact C2]. }
      assert (Keep2 : bound k 0 tr2' -> Extra g2 (updg gh2 t (GPos pos)) tr2').
      { intros Hb. destruct (Facts2 Hb) as (Ex & R0 & R1 & Hp & Hw).
        apply own_load; auto. cbn [clause]. split; auto. intros L'. apply Wit_ext; auto. apply in_call_acc. }
      destruct (usub u64 pos (posE g2) =? 0) eqn:Ee.
      + (* m_posEnqueue = pos: answer true *)
        exists (updg gh2 t (GDec 1)).
        split; [|split; [apply frame_updg|unfold gview; rewrite updg_same; reflexivity]].
        intros Hb. destruct (Facts2 Hb) as (Ex & R0 & R1 & Hp & Hw).
        apply own_load; auto. cbn [clause]. unfold W. apply Wit_now.
        assert (Ex' : Extra g2 (updg gh2 t (GPos pos)) tr2') by (apply Keep2; auto).
        fold tr2'. rewrite (alen_now _ _ _ Ex' R1).
        destruct R0 as (A1 & A2 & A3 & A4 & A5 & A6 & A7). pose proof (cap_ge2 k Hk).
        rewrite usub_eqb in Ee by lia. apply Z.eqb_eq in Ee.
        split; [intros _; lia|intros H'; discriminate H'].
      + exists (updg gh2 t (GPos pos)). split; [exact Keep2|]. split; [apply frame_updg|].
        unfold gview. rewrite updg_same. exact Reload.
  Qed.

  Lemma sX_empty fuel t : sX t (empty q fuel) GInv Qe.
  Proof.
    unfold empty. cbn [safeX]. intros g gh tr HX F0 F1' Hv. cbn [a_ld_posD fst snd vz] in *.
    exists (updg gh t (GPos (posD g))).
    split; [|split; [apply frame_updg|unfold gview; rewrite updg_same; apply sX_empty_loop]].
    intros Hb. pose proof (bound_app k Hk 0 _ _ Hb) as Hb0.
    apply own_load; [apply HX; auto|]. cbn [clause].
    destruct (F0 Hb0) as (A1 & _). split; [lia|]. intros L. lia.
  Qed.

  (** a client event of thread t that is not ret_empty: new local [x] without obligations *)
  Lemma sX_emit_plain {R} t es (kk : prog R) l x Q :
    plainb es = true -> (forall g tr, clause g tr t x) -> sX t kk x Q -> sX t (Conc.Emit es kk) l Q.
  Proof.
    intros Hpl Hx Hk'. cbn [safeX]. intros g gh tr HX F0 F1' Hv. exists (updg gh t x).
    split; [|split; [apply frame_updg|unfold gview; rewrite updg_same; exact Hk']].
    intros Hb. pose proof (bound_app k Hk 0 _ _ Hb) as Hb0. pose proof (HX Hb0) as Ex.
    apply Extra_step; auto.
    - apply plain_ndeqe; auto.
    - apply P_app_noret; [apply Ex|apply plain_noret; auto].
  Qed.

  Lemma sX_run_op fuel t o : sX t (run_op q fuel o) GN (fun _ l => l = GN).
  Proof.
    destruct o as [v| | | | |]; try (apply lift; apply allnice_run_op; discriminate).
    cbn [run_op]. apply sX_emit_plain with (x := GInv); [reflexivity|intros; exact I|].
    apply safeX_bind. eapply safeX_weaken; [|apply sX_empty].
    intros [b| |] l Hl; cbn [Qe finish] in *.
    - subst l. cbn [safeX]. intros g gh tr HX F0 F1' Hv. exists (updg gh t GN).
      split; [|split; [apply frame_updg|unfold gview; rewrite updg_same; reflexivity]].
      intros Hb. pose proof (bound_app k Hk 0 _ _ Hb) as Hb0. pose proof (HX Hb0) as Ex.
      apply Extra_step; auto; [|exact I].
      destruct Ex as (X1 & X2 & X4). apply P_app_ret; auto.
      pose proof (X2 t) as C. unfold gview in Hv. rewrite Hv in C. exact C.
    - apply sX_emit_plain with (x := GN); [reflexivity|intros; exact I|reflexivity].
    - apply sX_emit_plain with (x := GN); [reflexivity|intros; exact I|reflexivity].
  Qed.

  Lemma sX_run_ops fuel t os : sX t (run_ops q fuel os) GN (fun _ _ => True).
  Proof.
    induction os as [|o r IH]; cbn [run_ops]; [exact I|].
    apply safeX_bind. eapply safeX_weaken; [|apply sX_run_op].
    intros [|] l Hl; [subst l; exact IH|exact I].
  Qed.

  Lemma sX_thread fuel t os : sX t (thread_prog q fuel os) GN (fun _ _ => True).
  Proof.
    change (thread_prog q fuel os) with (Conc.bind (Conc.Act a_begin (fun v => Conc.Ret v)) (fun _ => run_ops q fuel os)).
    apply safeX_bind. eapply safeX_weaken; [|apply lift; cbn; split; [apply nice_begin|intros; exact I]].
    intros r l ->. apply sX_run_ops.
  Qed.

  Notation view2 := (view12 (Aux X07) (phase * unit) view07 Gh glocal gview).
  Notation Inv2 := (Inv12 G ev (Aux X07) Inv07 Gh InvX).

  Lemma init_ok2 fuel ths : programs_allowed sc mp ths ->
    @Conc.cfg_ok G V ev (Aux X07 * Gh) (phase * unit * glocal) view2 Inv2 (init_cfg q fuel ths).
  Proof.
    intros Hal. exists (aux0 k, fun _ => GN). split; [split|].
    - intros _. apply (init_real k Hk sc mp).
    - intros _. split; [reflexivity|]. split; [intros u; exact I|].
      intros tr1 t b tr2 H. destruct tr1; discriminate.
    - intros t p Hp. cbn [init_cfg Conc.threads] in Hp. rewrite nth_error_map in Hp.
      destruct (nth_error ths t) as [os|] eqn:E; inversion Hp; subst.
      eapply Conc.safe_weaken; [|apply (safe_prod G V ev (Aux X07) (phase * unit) view07 Inv07 Gh glocal gview InvX F1 Inv07_F)].
      + intros r l _. exact I.
      + apply (safe_thread k Hk q Hq sc mp). intros o Ho. eapply Hal; eauto.
      + apply sX_thread.
  Qed.

  Theorem reach_extra fuel ths c :
    programs_allowed sc mp ths -> Conc.reach (init_cfg q fuel ths) c -> bound k 0 (Conc.trace c) ->
    exists a gh, RealInv k sc 0 X07 (Ext07 k mp) (Conc.shared c) a (Conc.trace c) /\
                 Extra (Conc.shared c) gh (Conc.trace c).
  Proof.
    intros Hal Hr Hb. destruct (Conc.reach_Inv (init_ok2 fuel ths Hal) Hr) as ([a gh] & H1 & H2).
    exists a, gh. split; [apply H1; exact Hb|apply H2; exact Hb].
  Qed.
End Obs.

(** ** the theorems *)
Theorem empty_observer (k : nat) (q : qcfg) (fuel : nat) (ths : list (list op)) (sc : option nat) (mp : bool) c :
  (1 <= k)%nat -> qcap q = 2 ^ Z.of_nat k -> programs_allowed sc mp ths ->
  Conc.reach (init_cfg q fuel ths) c -> claims_bound k (Conc.trace c) ->
  forall tr1 t b tr2, Conc.trace c = tr1 ++ (t, EvCli "ret_empty" [b]) :: tr2 ->
    exists tra trb, tr1 = tra ++ trb /\ in_call t trb /\ (b = 1 -> alen tra = 0) /\ (b = 0 -> 0 < alen tra).
Proof.
  intros Hk Hq Hal Hr Hb tr1 t b tr2 H.
  destruct (reach_extra k Hk q Hq sc mp fuel ths c Hal Hr (claims_bound_core k _ Hb)) as (a & gh & R & X1 & X2 & X4).
  destruct (X4 _ _ _ _ H) as (tra & trb & E & Hc & C1 & C2). exists tra, trb. auto.
Qed.

(** [alen] of the trace of a reachable configuration is the length of the abstract queue of its linearization *)
Theorem alen_reach (k : nat) (q : qcfg) (fuel : nat) (ths : list (list op)) (sc : option nat) (mp : bool) c :
  (1 <= k)%nat -> qcap q = 2 ^ Z.of_nat k -> programs_allowed sc mp ths ->
  Conc.reach (init_cfg q fuel ths) c -> claims_bound k (Conc.trace c) ->
  alen (Conc.trace c) = posE (Conc.shared c) - posD (Conc.shared c) /\
  exists (atr : list (aev (VQ (2 ^ k)))) qs S,
    @lp_run (VQ (2 ^ k)) lp_init atr = Some (qs, S) /\ erase atr = hist (2 ^ k) (Conc.trace c) /\
    alen (Conc.trace c) = Z.of_nat (Datatypes.length qs).
Proof.
  intros Hk Hq Hal Hr Hb.
  destruct (reach_extra k Hk q Hq sc mp fuel ths c Hal Hr (claims_bound_core k _ Hb)) as (a & gh & R & X1 & X2 & X4).
  pose proof (ri_claims _ _ _ _ _ _ _ _ R) as Hc. pose proof (ri_len _ _ _ _ _ _ _ _ R) as Hl.
  assert (E : alen (Conc.trace c) = posE (Conc.shared c) - posD (Conc.shared c)) by (unfold alen; lia).
  split; [exact E|].
  destruct (ri_ext _ _ _ _ _ _ _ _ R) as ((S & E1 & _) & E2 & _).
  exists (ext _ a), (absq _ a), S. repeat split; auto. lia.
Qed.
