(** * DhpAttB: thread_id_.compare_exchange( null, me ) on a record of the list (alloc_thread_data: reuse;
      help_scan: acquire) and thread_id_.store( null ) by help_scan. *)
From Coq Require Import ZArith NArith List String Bool Lia PeanoNat.
From LV Require Import Base.Conc Base.Events Model.DhpLang Model.Dhp Proofs.DhpBase Proofs.DhpHist
  Proofs.DhpLangProofs Proofs.DhpInvA Proofs.DhpStepsA Proofs.DhpQuietA Proofs.DhpSlotA Proofs.DhpScanA Proofs.DhpScanC
  Proofs.DhpPresA Proofs.DhpAllocA Proofs.DhpAllocB Proofs.DhpViewA Proofs.DhpDetB Proofs.DhpDetC Proofs.DhpAttA.
Import ListNotations.

Section AttB.
  Variable c : cfg.

  (** the record is free (thread_id_ = null): nobody has a claim on it *)
  Lemma tid0_unclaimed g a h r : JA c g a h -> r < List.length (recs g) -> r_tid (grec g r) = 0 -> after g (tlist g) r ->
    att h r = None /\ r_ext (grec g r) = None /\
    (forall t', va_hold (views a t') <> Some r /\ va_help (views a t') <> Some r /\ forall bt, va_unpub (views a t') <> Some (r, bt)).
  Proof.
    intros J Hr Ht Hin. pose proof J as [J1 J2 J3 J4 J5 J6 J7 J8 J9 J10 J11 J12 J15 J16 J17 J18 J13 J14].
    assert (Ha : att h r = None).
    { destruct (att h r) as [[t k]|] eqn:E; auto. destruct (J2 r t k E) as (_&X&_). congruence. }
    assert (Hc : forall t', va_hold (views a t') <> Some r /\ va_help (views a t') <> Some r /\ forall bt, va_unpub (views a t') <> Some (r, bt)).
    { intros t'. split; [|split].
      - intros K. destruct (J6 t' r K) as (_&_&X&_). congruence.
      - intros K. destruct (J7 t' r K) as (X&_). congruence.
      - intros bt K. destruct (J5 t' r bt K) as (_&_&X&_). destruct J1 as (L & H1 & _). destruct Hin as (S & A1 & A2 & A3).
        apply (X L H1). apply (A3 L H1). exact A2. }
    split; auto. split; auto. destruct (J8 r Hr Ha) as [X|(t' & X1 & _)]; auto. exfalso. destruct (Hc t') as (K&_). contradiction.
  Qed.

  (** CAS( thread_id_, null, me ) succeeded on record r of the list; r becomes held (hd = true) or helped *)
  Lemma JA_cas_tid g a h t l r n1 (hd : bool) nd :
    JA c g a h -> views a t = l -> r < List.length (recs g) -> r_tid (grec g r) = 0 -> after g (tlist g) r -> hlen h <= n1 ->
    (if hd then va_hold l = None /\ va_limbo l = None else va_help l = None /\ va_hold l <> Some r) ->
    (forall n0, nd = Some n0 -> after g (tlist g) n0) ->
    JA c (upd_rec g r (rs_tid (S t)))
         (upd_aux a t (if hd then with_hold_node l (Some r) nd else with_help (with_hold_node l (va_hold l) nd) (Some r)) (bown a))
         (mkH n1 (slotv h) (lastw h) (att h) (linked h) (scan h) (freeh h) (flbad h)).
  Proof.
    intros J Hv Rlt Rtid Raft Hn Hpre Hnd. pose proof J as [J1 J2 J3 J4 J5 J6 J7 J8 J9 J10 J11 J12 J15 J16 J17 J18 J13 J14].
    destruct (tid0_unclaimed g a h r J Rlt Rtid Raft) as (Ratt & Rext & Rcl).
    set (g' := upd_rec g r (rs_tid (S t))).
    set (l' := if hd then with_hold_node l (Some r) nd else with_help (with_hold_node l (va_hold l) nd) (Some r)).
    set (a' := upd_aux a t l' (bown a)).
    destruct (recfield_facts c g r (rs_tid (S t)) Rlt (fun x => conj eq_refl eq_refl)) as (Eo & Es & Lr & Enx & Esl & Rc & Af & Gc).
    fold g' in Eo, Es, Lr, Enx, Esl, Rc, Af, Gc.
    assert (Et : tlist g' = tlist g) by reflexivity. assert (Lgb : gbs g' = gbs g) by reflexivity.
    assert (V : forall t', t' <> t -> views a' t' = views a t') by (intros t' N; unfold a'; now apply upd_aux_other).
    assert (Vs : views a' t = l') by (unfold a'; now rewrite upd_aux_same).
    assert (B : bown a' = bown a) by reflexivity.
    assert (F : forall t', va_tls (views a' t') = va_tls (views a t') /\ va_unpub (views a' t') = va_unpub (views a t') /\
                           va_blk (views a' t') = va_blk (views a t') /\
                           va_e (views a' t') = va_e (views a t') /\ va_limbo (views a' t') = va_limbo (views a t') /\
                           va_scan (views a' t') = va_scan (views a t')).
    { intros t'. destruct (Nat.eq_dec t' t) as [->|N]; [rewrite Vs, Hv; unfold l'; destruct hd; cbn; repeat split; auto|rewrite (V t' N); repeat split; reflexivity]. }
    assert (Nr : forall r' t' k, att h r' = Some (t', k) -> r' <> r) by (intros r' t' k Ha ->; congruence).
    assert (Ex : forall r', r_ext (grec g' r') = r_ext (grec g r')).
    { intros r'. destruct (Nat.eq_dec r' r) as [->|N]; [rewrite Es; reflexivity|now rewrite Eo]. }
    constructor; cbn [hlen slotv lastw att linked scan freeh flbad]; rewrite ?B, ?Lr, ?Et, ?Lgb.
    - destruct J1 as (L & H1 & H2). exists L. split; auto. now apply Rc.
    - intros r' t' k Ha. destruct (J2 r' t' k Ha) as (X1&X2&X3&X4&X5&X6&X7&X8&X9). destruct (F t') as (E&_). rewrite E, (Eo r' (Nr _ _ _ Ha)).
      split; auto. split; auto. split; auto. split; auto. split; auto. split; [lia|]. split; [now apply Gc|]. split; auto.
      intros b kb K. destruct (X9 b kb K) as (W1&W2&W3). split; auto. lia.
    - intros t' r' Ht. destruct (F t') as (E&_). rewrite E in Ht. auto.
    - exact J4.
    - intros t' r' bt Ht. destruct (F t') as (_&E&_). rewrite E in Ht. destruct (J5 t' r' bt Ht) as (X1&X2&X3&X4&X5&X6).
      assert (r' <> r). { intros ->. destruct (Rcl t') as (_&_&K). eapply K; eauto. }
      rewrite (Eo r' H). repeat split; auto.
      + intros L HL. apply X3. now apply Rc.
      + intros t'' bt' Ht''. destruct (F t'') as (_&E'&_). rewrite E' in Ht''. eauto.
    - intros t' r' Ht. destruct (Nat.eq_dec t' t) as [->|N].
      + rewrite Vs in Ht |- *. unfold l' in Ht |- *. destruct hd; cbn in Ht |- *.
        * inversion Ht; subst r'. rewrite Es. cbn. destruct Hpre as (P1 & P2). repeat split; auto.
        * rewrite <- Hv in Ht. destruct (J6 t r' Ht) as (X1&X2&X3&X4&X5&X6). assert (r' <> r) by (intros ->; destruct (Rcl t) as (K&_); contradiction).
          rewrite (Eo r' H). rewrite <- Hv. repeat split; auto.
      + rewrite (V t' N) in Ht |- *. destruct (J6 t' r' Ht) as (X1&X2&X3&X4&X5&X6). assert (r' <> r) by (intros ->; destruct (Rcl t') as (K&_); contradiction).
        rewrite (Eo r' H). repeat split; auto.
    - intros t' r' Ht. destruct (Nat.eq_dec t' t) as [->|N].
      + rewrite Vs in Ht |- *. unfold l' in Ht |- *. destruct hd; cbn in Ht |- *.
        * rewrite <- Hv in Ht. destruct (J7 t r' Ht) as (X1&X2&X3). assert (r' <> r) by (intros ->; destruct (Rcl t) as (_&K&_); contradiction).
          rewrite (Eo r' H). repeat split; auto. congruence.
        * inversion Ht; subst r'. rewrite Es. cbn. destruct Hpre as (P1 & P2). rewrite <- Hv. repeat split; auto. now rewrite Hv.
      + rewrite (V t' N) in Ht |- *. destruct (J7 t' r' Ht) as (X1&X2&X3). assert (r' <> r) by (intros ->; destruct (Rcl t') as (_&K&_); contradiction).
        rewrite (Eo r' H). repeat split; auto.
    - intros r' Hr Ha. rewrite Ex. destruct (Nat.eq_dec r' r) as [->|N]; [now left|].
      destruct (J8 r' Hr Ha) as [X|(t' & X1 & X2)]; [now left|right]. exists t'.
      destruct (F t') as (_&_&_&_&E5&_). rewrite E5. split; auto.
      destruct (Nat.eq_dec t' t) as [->|N']; [|now rewrite (V t' N')].
      rewrite Vs. unfold l'. rewrite <- Hv. destruct hd; cbn; [destruct Hpre as (P1&_); rewrite <- Hv in P1; congruence|exact X1].
    - intros t' b' Ht. destruct (F t') as (_&_&E3&_&E5&_). rewrite E3 in Ht. rewrite E5. exact (J9 t' b' Ht).
    - intros t' o lb' Ht. destruct (F t') as (_&_&_&_&E5&_). rewrite E5 in Ht. destruct (J10 t' o lb' Ht) as (X1&X2&X3). split; [now apply Gc|auto].
    - exact J11.
    - exact J12.
    - intros r' Hr. rewrite Esl. auto.
    - exact J16.
    - intros t' e f Ht. destruct (F t') as (E1&_&E3&E4&_). rewrite E4 in Ht. rewrite E1, E3.
      destruct (J17 t' e f Ht) as (r' & X1 & X2 & X3). exists r'. rewrite Ex. auto.
    - intros t' n Ht. apply Af. destruct (Nat.eq_dec t' t) as [->|N].
      + rewrite Vs in Ht. unfold l' in Ht. destruct hd; cbn in Ht; auto.
      + rewrite (V t' N) in Ht. eauto.
    - intros s. rewrite <- J13. destruct s as [r' i|x i]; cbn [slot_get]; [now rewrite Esl|reflexivity].
    - intros t'. destruct (F t') as (_&_&_&_&_&E6). rewrite E6. specialize (J14 t').
      destruct (va_scan (views a t')) as [ss|]; auto. destruct J14 as (X1 & X2). split; auto.
      apply scan_ok_recfield; auto.
  Qed.
End AttB.
