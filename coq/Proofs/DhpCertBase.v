(** * DhpCertBase: what a node of a DHP program may do without concerning the allocator instance [f]:
      leave the free-list words of [f] alone, create no block pointer of kind [f] in a shared field, and emit no
      allocator event of [f]. *)
From Coq Require Import ZArith NArith List String Bool Lia PeanoNat.
From LV Require Import Base.Conc Base.Events Model.FreeList Model.DhpLang Model.Dhp Proofs.DhpBase Proofs.DhpHist
  Proofs.DhpLangProofs Proofs.FreeListBase Proofs.FreeListInv Proofs.FreeListOpen
  Proofs.FreeListOpenRules Proofs.FreeListOpenDhp Proofs.FreeListOpenDhpRules Proofs.FreeListOpenDhpThm.
Import ListNotations.

(** block [b] of kind [f] is named by a shared pointer field: extended_list_ / next_block_ (guard blocks),
    list_head_ / next_ (retired blocks) *)
Definition shp (f : fl) (g : Dhp.G) (b : nat) : Prop :=
  match f with
  | FHp => (exists r, r_ext (grec g r) = Some b) \/ (exists b', gb_nextb (ggb g b') = Some b)
  | FRt => (exists r, r_head (grec g r) = Some b) \/ (exists b', rb_next (grb g b') = Some b)
  end.

Definition qG (f : fl) (g g' : Dhp.G) : Prop := quietG f g g' /\ forall b, shp f g' b -> shp f g b.
Definition qE (f : fl) (es : list ev) : Prop := forall e, In e es -> clsf f e = FNone.

Lemma quietG_trans f g1 g2 g3 : quietG f g1 g2 -> quietG f g2 g3 -> quietG f g1 g3.
Proof. intros [A1 A2] [B1 B2]. split; [eapply Geq_trans; eauto|lia]. Qed.
Lemma qG_refl f g : qG f g g.
Proof. split; [split; [apply Geq_refl|lia]|auto]. Qed.
Lemma qG_trans f g1 g2 g3 : qG f g1 g2 -> qG f g2 g3 -> qG f g1 g3.
Proof. intros [A1 A2] [B1 B2]. split; [eapply quietG_trans; eauto|auto]. Qed.

Lemma qE_nil f : qE f []. Proof. intros e []. Qed.
Lemma qE_cons f e es : clsf f e = FNone -> qE f es -> qE f (e :: es).
Proof. intros H1 H2 x [<-|Hx]; auto. Qed.
Lemma qE_app f es es' : qE f es -> qE f es' -> qE f (es ++ es').
Proof. intros H1 H2 x Hx. apply in_app_or in Hx. destruct Hx; auto. Qed.

(** ** a relation that implies [qG] for both instances: the update touches no free-list word and writes no
       block pointer (it may clear some) *)
Definition keepo (x' x : option nat) : Prop := x' = x \/ x' = None.
Lemma keepo_refl x : keepo x x. Proof. now left. Qed.
Lemma keepo_trans x1 x2 x3 : keepo x2 x1 -> keepo x3 x2 -> keepo x3 x1.
Proof. unfold keepo. intros [-> | ->] [-> | ->]; auto. Qed.

Record qS (g g' : Dhp.G) : Prop := {
  qs_hh : hp_head g' = hp_head g; qs_rh : rt_head g' = rt_head g;
  qs_lg : List.length (gbs g) <= List.length (gbs g'); qs_lr : List.length (rbs g) <= List.length (rbs g');
  qs_gb : forall b, gb_refs (ggb g' b) = gb_refs (ggb g b) /\ gb_flnext (ggb g' b) = gb_flnext (ggb g b) /\
                    keepo (gb_nextb (ggb g' b)) (gb_nextb (ggb g b));
  qs_rb : forall b, rb_refs (grb g' b) = rb_refs (grb g b) /\ rb_flnext (grb g' b) = rb_flnext (grb g b) /\
                    keepo (rb_next (grb g' b)) (rb_next (grb g b));
  qs_rc : forall r, keepo (r_ext (grec g' r)) (r_ext (grec g r)) /\ keepo (r_head (grec g' r)) (r_head (grec g r)) }.

Lemma qS_refl g : qS g g.
Proof. constructor; auto; intros; repeat split; apply keepo_refl. Qed.
Lemma qS_trans g1 g2 g3 : qS g1 g2 -> qS g2 g3 -> qS g1 g3.
Proof.
  intros [A1 A2 A3 A4 A5 A6 A7] [B1 B2 B3 B4 B5 B6 B7]. constructor; try congruence; try lia.
  - intros b. destruct (A5 b) as (X1 & X2 & X3), (B5 b) as (Y1 & Y2 & Y3). split; [congruence|]. split; [congruence|]. eapply keepo_trans; eauto.
  - intros b. destruct (A6 b) as (X1 & X2 & X3), (B6 b) as (Y1 & Y2 & Y3). split; [congruence|]. split; [congruence|]. eapply keepo_trans; eauto.
  - intros r. destruct (A7 r) as (X1 & X2), (B7 r) as (Y1 & Y2). split; eapply keepo_trans; eauto.
Qed.

Lemma keepo_some x' x b : keepo x' x -> x' = Some b -> x = Some b.
Proof. intros [->| ->]; [auto|discriminate]. Qed.

Lemma qS_qG f g g' : qS g g' -> qG f g g'.
Proof.
  intros [A1 A2 A3 A4 A5 A6 A7]. split; [split|].
  - split; [|split]; destruct f; cbn; try congruence; intros [|k]; try reflexivity.
    + destruct (A5 k) as (X & _). now rewrite X.
    + destruct (A6 k) as (X & _). now rewrite X.
    + destruct (A5 k) as (_ & X & _). now rewrite X.
    + destruct (A6 k) as (_ & X & _). now rewrite X.
  - destruct f; cbn [flen]; lia.
  - intros b. destruct f; cbn [shp]; intros [(r & H)|(b' & H)].
    + left. exists r. eapply keepo_some; [apply A7|exact H].
    + right. exists b'. eapply keepo_some; [apply A5|exact H].
    + left. exists r. eapply keepo_some; [apply A7|exact H].
    + right. exists b'. eapply keepo_some; [apply A6|exact H].
Qed.

(** *** the basic updates *)
Lemma nth_upd_cases {A} (l : list A) n k F d : nth k (upd_nth l n F) d = nth k l d \/ (k = n /\ n < List.length l /\ nth k (upd_nth l n F) d = F (nth k l d)).
Proof.
  destruct (Nat.eq_dec n k) as [->|N]; [|left; now apply nth_upd_nth_other].
  destruct (Nat.lt_ge_cases k (List.length l)) as [L|L]; [right; split; auto; split; auto; now apply nth_upd_nth_same|left; now rewrite upd_nth_oob].
Qed.

Lemma qS_upd_rec g r F : (forall x, keepo (r_ext (F x)) (r_ext x) /\ keepo (r_head (F x)) (r_head x)) -> qS g (upd_rec g r F).
Proof.
  intros H. constructor; try reflexivity; try (unfold upd_rec; cbn; lia); try (intros b; repeat split; apply keepo_refl).
  intros r'. unfold grec, upd_rec. cbn [recs set_recs]. destruct (nth_upd_cases (recs g) r r' F dflt_rec) as [->|(_ & _ & ->)]; [split; apply keepo_refl|apply H].
Qed.
Lemma qS_upd_gb g b F : (forall x, gb_refs (F x) = gb_refs x /\ gb_flnext (F x) = gb_flnext x /\ keepo (gb_nextb (F x)) (gb_nextb x)) -> qS g (upd_gb g b F).
Proof.
  intros H. constructor; try reflexivity; try (unfold upd_gb, upd_rb; cbn; rewrite ?upd_nth_length; lia); try (intros b'; repeat split; apply keepo_refl).
  intros b'. unfold ggb, upd_gb. cbn [gbs set_gbs]. destruct (nth_upd_cases (gbs g) b b' F dflt_gb) as [->|(_ & _ & ->)]; [repeat split; apply keepo_refl|apply H].
Qed.
Lemma qS_upd_rb g b F : (forall x, rb_refs (F x) = rb_refs x /\ rb_flnext (F x) = rb_flnext x /\ keepo (rb_next (F x)) (rb_next x)) -> qS g (upd_rb g b F).
Proof.
  intros H. constructor; try reflexivity; try (unfold upd_gb, upd_rb; cbn; rewrite ?upd_nth_length; lia); try (intros b'; repeat split; apply keepo_refl).
  intros b'. unfold grb, upd_rb. cbn [rbs set_rbs]. destruct (nth_upd_cases (rbs g) b b' F dflt_rb) as [->|(_ & _ & ->)]; [repeat split; apply keepo_refl|apply H].
Qed.
Lemma qS_same g g' : recs g' = recs g -> gbs g' = gbs g -> rbs g' = rbs g -> hp_head g' = hp_head g -> rt_head g' = rt_head g -> qS g g'.
Proof.
  intros E1 E2 E3 E4 E5. constructor; auto; try (rewrite ?E2, ?E3; lia); unfold ggb, grb, grec; rewrite ?E1, ?E2, ?E3; intros; repeat split; apply keepo_refl.
Qed.
Lemma qS_set_tlist g v : qS g (set_tlist g v). Proof. apply qS_same; reflexivity. Qed.
Lemma qS_set_srcs g v : qS g (set_srcs g v). Proof. apply qS_same; reflexivity. Qed.
Lemma qS_set_oob g v : qS g (set_oob g v). Proof. apply qS_same; reflexivity. Qed.

Lemma nth_app_dflt {A} (l : list A) x d k : (k = List.length l -> x = x) -> nth k (l ++ [x]) d = nth k l d \/ (k = List.length l /\ nth k (l ++ [x]) d = x /\ nth k l d = d).
Proof.
  intros _. destruct (Nat.lt_ge_cases k (List.length l)) as [L|L]; [left; now apply app_nth1|].
  destruct (Nat.eq_dec k (List.length l)) as [->|N].
  - right. split; auto. rewrite app_nth2 by lia. rewrite Nat.sub_diag. split; [reflexivity|]. now apply nth_overflow.
  - left. rewrite !nth_overflow; auto. rewrite app_length. cbn. lia.
Qed.

Lemma qS_new_gblock c g : qS g (fst (new_gblock c g)).
Proof.
  unfold new_gblock. cbn [fst]. constructor; try reflexivity; try (cbn; rewrite ?app_length; lia); try (intros b'; repeat split; apply keepo_refl).
  intros b. unfold ggb. cbn [gbs set_gbs]. destruct (nth_app_dflt (gbs g) (mkGb 0 None None (repeat 0 (c_GB c)) (repeat None (c_GB c))) dflt_gb b (fun _ => eq_refl)) as [->|(_ & -> & ->)];
    repeat split; try apply keepo_refl.
Qed.
Lemma qS_new_rblock c g : qS g (fst (new_rblock c g)).
Proof.
  unfold new_rblock. cbn [fst]. constructor; try reflexivity; try (cbn; rewrite ?app_length; lia); try (intros b'; repeat split; apply keepo_refl).
  intros b. unfold grb. cbn [rbs set_rbs]. destruct (nth_app_dflt (rbs g) (mkRb 0 None None (repeat 0 (c_RB c))) dflt_rb b (fun _ => eq_refl)) as [->|(_ & -> & ->)];
    repeat split; try apply keepo_refl.
Qed.
Lemma qS_new_rec c g : qS g (fst (new_rec c g)).
Proof.
  unfold new_rec. cbn [fst]. constructor; try reflexivity; try (cbn; lia); try (intros b'; repeat split; apply keepo_refl).
  intros r. unfold grec. cbn [recs set_recs].
  match goal with |- context [recs g ++ [?x]] => destruct (nth_app_dflt (recs g) x dflt_rec r (fun _ => eq_refl)) as [->|(_ & -> & ->)] end;
    repeat split; try apply keepo_refl.
Qed.

(** the pointer part alone *)
Definition pS (g g' : Dhp.G) : Prop :=
  (forall b, keepo (gb_nextb (ggb g' b)) (gb_nextb (ggb g b))) /\ (forall b, keepo (rb_next (grb g' b)) (rb_next (grb g b))) /\
  (forall r, keepo (r_ext (grec g' r)) (r_ext (grec g r)) /\ keepo (r_head (grec g' r)) (r_head (grec g r))).
Lemma pS_shp f g g' : pS g g' -> forall b, shp f g' b -> shp f g b.
Proof.
  intros (A5 & A6 & A7) b. destruct f; cbn [shp]; intros [(r & H)|(b' & H)].
  - left. exists r. eapply keepo_some; [apply A7|exact H].
  - right. exists b'. eapply keepo_some; [apply A5|exact H].
  - left. exists r. eapply keepo_some; [apply A7|exact H].
  - right. exists b'. eapply keepo_some; [apply A6|exact H].
Qed.
Lemma pS_upd_gb g b F : (forall x, keepo (gb_nextb (F x)) (gb_nextb x)) -> pS g (upd_gb g b F).
Proof.
  intros H. split; [|split; intros; repeat split; apply keepo_refl].
  intros b'. unfold ggb, upd_gb. cbn [gbs set_gbs]. destruct (nth_upd_cases (gbs g) b b' F dflt_gb) as [->|(_ & _ & ->)]; [apply keepo_refl|apply H].
Qed.
Lemma pS_upd_rb g b F : (forall x, keepo (rb_next (F x)) (rb_next x)) -> pS g (upd_rb g b F).
Proof.
  intros H. split; [intros; apply keepo_refl|split; [|intros; split; apply keepo_refl]].
  intros b'. unfold grb, upd_rb. cbn [rbs set_rbs]. destruct (nth_upd_cases (rbs g) b b' F dflt_rb) as [->|(_ & _ & ->)]; [apply keepo_refl|apply H].
Qed.
Lemma pS_same g g' : recs g' = recs g -> gbs g' = gbs g -> rbs g' = rbs g -> pS g g'.
Proof. intros E1 E2 E3. unfold pS, ggb, grb, grec. rewrite E1, E2, E3. repeat split; intros; try split; apply keepo_refl. Qed.

(** the free-list words of the OTHER instance *)
Lemma qG_fl_refs f f' g n v : f <> f' -> qG f' g (fl_set_refs g f n v).
Proof.
  intros H. split; [now apply quietG_refs|]. apply pS_shp. destruct f; cbn [fl_set_refs]; [apply pS_upd_gb|apply pS_upd_rb]; intros []; apply keepo_refl.
Qed.
Lemma qG_fl_next f f' g n v : f <> f' -> qG f' g (fl_set_next g f n v).
Proof.
  intros H. split; [now apply quietG_next|]. apply pS_shp. destruct f; cbn [fl_set_next]; [apply pS_upd_gb|apply pS_upd_rb]; intros []; apply keepo_refl.
Qed.
Lemma qG_fl_head f f' g v : f <> f' -> qG f' g (fl_set_head g f v).
Proof. intros H. split; [now apply quietG_head|]. apply pS_shp. destruct f; apply pS_same; reflexivity. Qed.

(** accesses: an object that is not a node word of [f] *)
Lemma qE_acc f k o ok : (forall n, o <> [node_tag f; n; 1%Z]) -> qE f (acc k o ok).
Proof. intros H. apply quietE_acc_other. exact H. Qed.
Lemma qE_rec f k r fld ok : qE f (acc k (obj_rec r fld) ok).
Proof. apply qE_acc. intros n. destruct f; discriminate. Qed.
Lemma qE_slot f k s ok : qE f (acc k (obj_slot s) ok).
Proof. apply qE_acc. intros n. destruct f, s; discriminate. Qed.
Lemma qE_tlist f k ok : qE f (acc k obj_tlist ok).
Proof. apply qE_acc. intros n. destruct f; discriminate. Qed.
Lemma qE_src f k s ok : qE f (acc k (obj_src s) ok).
Proof. apply qE_acc. intros n. destruct f; discriminate. Qed.
Lemma qE_head f f' k ok : f <> f' -> qE f' (acc k (obj_head f) ok).
Proof. intros H. now apply quietE_head. Qed.
Lemma qE_node f f' k n fld ok : f <> f' -> qE f' (acc k (obj_node f n fld) ok).
Proof. intros H. now apply quietE_node. Qed.
Lemma qE_cli f name args : classify (EvCli name args) = HOther \/ (exists s v, classify (EvCli name args) = HSlot s v) \/
  (exists r, classify (EvCli name args) = HAtt r \/ classify (EvCli name args) = HDet r \/ classify (EvCli name args) = HScanb r \/
             classify (EvCli name args) = HScane r \/ classify (EvCli name args) = HDispose r) \/
  (exists r b, classify (EvCli name args) = HLink r b) -> clsf f (EvCli name args) = FNone.
Proof.
  intros H. unfold clsf. destruct H as [->|[(s & v & ->)|[(r & [->|[->|[->|[->| ->]]]])|(r & b & ->)]]]; reflexivity.
Qed.
