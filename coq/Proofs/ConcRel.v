(** * A relational variant of the proof rule [Conc.safe] (LV.Base.Conc).

    [Conc.safe] establishes a state invariant for every schedule.  Statements about two consecutive configurations (what
    one step may change) or about the past of an execution need more: here every access / emission of a thread's program
    additionally has to satisfy a step relation [SR t g g' tr es w w'] between the shared state before and after, the
    trace so far, the emitted events and a thread-local ghost value [w] that lives OUTSIDE the auxiliary state of the
    invariant (so that programs verified with a constant [w] can be mixed with programs that use it).
    [step_R]: every step of every reachable configuration decomposes into the [SR] of its access followed by the [SR]s
    of the emissions that are settled with it.  Definitions and lemmas mirror Conc.Rule. *)
From Coq Require Import List Arith PeanoNat Lia.
From LV Require Import Base.Conc.
Import ListNotations.

Set Implicit Arguments.

Section RuleR.
  Variables (G V E : Type).
  Variables (Aux L W : Type) (view : Aux -> nat -> L) (Inv : G -> Aux -> list (nat * E) -> Prop).
  Variable SR : nat -> G -> G -> list (nat * E) -> list E -> W -> W -> Prop.

  Notation prog := (Conc.prog G V E).
  Notation thread := (Conc.thread G V E).
  Notation config := (Conc.config G V E).
  Notation frame := (Conc.frame view).
  Notation tag := (@Conc.tag E).

  Fixpoint safeR {R} (t : nat) (p : prog R) (l : L) (w : W) (Q : R -> L -> W -> Prop) : Prop :=
    match p with
    | Ret r => Q r l w
    | Emit es k =>
        forall g a tr, Inv g a tr -> view a t = l ->
          exists a' w', Inv g a' (tr ++ tag t es) /\ frame t a a' /\ SR t g g tr es w w' /\ safeR t k (view a' t) w' Q
    | Act f k =>
        forall g a tr, Inv g a tr -> view a t = l ->
          exists a' w', Inv (fst (fst (f g))) a' (tr ++ tag t (snd (f g))) /\ frame t a a' /\
                        SR t g (fst (fst (f g))) tr (snd (f g)) w w' /\
                        safeR t (k (snd (fst (f g)))) (view a' t) w' Q
    end.

  Lemma safeR_bind {A B} t (p : prog A) (q : A -> prog B) Q : forall l w,
    safeR t p l w (fun r l' w' => safeR t (q r) l' w' Q) -> safeR t (Conc.bind p q) l w Q.
  Proof.
    induction p as [r|es k IH|f k IH]; intros l w H; cbn [Conc.bind safeR] in *.
    - exact H.
    - intros g a tr Hi Hv. destruct (H g a tr Hi Hv) as (a' & w' & H1 & H2 & H3 & H4). exists a', w'. repeat split; auto.
    - intros g a tr Hi Hv. destruct (H g a tr Hi Hv) as (a' & w' & H1 & H2 & H3 & H4). exists a', w'. repeat split; auto.
  Qed.

  Lemma safeR_weaken {R} t (p : prog R) (Q Q' : R -> L -> W -> Prop) :
    (forall r l w, Q r l w -> Q' r l w) -> forall l w, safeR t p l w Q -> safeR t p l w Q'.
  Proof.
    intros HQ. induction p as [r|es k IH|f k IH]; intros l w H; cbn [safeR] in *.
    - auto.
    - intros g a tr Hi Hv. destruct (H g a tr Hi Hv) as (a' & w' & H1 & H2 & H3 & H4). exists a', w'; auto.
    - intros g a tr Hi Hv. destruct (H g a tr Hi Hv) as (a' & w' & H1 & H2 & H3 & H4). exists a', w'; auto.
  Qed.

  Definition QTrueR : unit -> L -> W -> Prop := fun _ _ _ => True.

  (** the configuration is fine with auxiliary state [a] and ghost values [ws] *)
  Definition okR (c : config) (a : Aux) (ws : nat -> W) : Prop :=
    Inv (Conc.shared c) a (Conc.trace c) /\
    forall t p, nth_error (Conc.threads c) t = Some p -> safeR t p (view a t) (ws t) QTrueR.

  Definition cfg_okR (c : config) : Prop := exists a ws, okR c a ws.

  (** the emissions settled together with an access: state [g'] fixed *)
  Inductive chunk (t : nat) (g' : G) : list (nat * E) -> list E -> W -> W -> Prop :=
  | chunk_nil tr w : chunk t g' tr [] w w
  | chunk_cons tr es es' w w1 w2 :
      SR t g' g' tr es w w1 -> chunk t g' (tr ++ tag t es) es' w1 w2 -> chunk t g' tr (es ++ es') w w2.

  Lemma settle_safeR t (p : thread) : forall g a tr w,
    Inv g a tr -> safeR t p (view a t) w QTrueR ->
    exists a' w', Inv g a' (tr ++ tag t (fst (Conc.settle p))) /\ frame t a a' /\
                  chunk t g tr (fst (Conc.settle p)) w w' /\
                  safeR t (snd (Conc.settle p)) (view a' t) w' QTrueR.
  Proof.
    induction p as [r|es k IH|f k IH]; intros g a tr w Hi Hs; cbn [Conc.settle].
    - exists a, w. cbn. rewrite app_nil_r. repeat split; auto; try (intros ? ?; reflexivity). constructor.
    - cbn [safeR] in Hs. destruct (Hs g a tr Hi eq_refl) as (a1 & w1 & H1 & H2 & H3 & H4).
      destruct (IH g a1 _ w1 H1 H4) as (a2 & w2 & K1 & K2 & K3 & K4).
      destruct (Conc.settle k) as [es' p'] eqn:Hk. cbn [fst snd] in *.
      exists a2, w2. rewrite Conc.tag_app, app_assoc. repeat split; auto.
      + intros t' Ht. rewrite (K2 t' Ht). apply H2; exact Ht.
      + econstructor; eauto.
    - exists a, w. cbn. rewrite app_nil_r. repeat split; auto; try (intros ? ?; reflexivity). constructor.
  Qed.

  Definition updw (ws : nat -> W) (t : nat) (w : W) : nat -> W := fun u => if Nat.eqb u t then w else ws u.

  Theorem step_R c t c' a ws :
    okR c a ws -> Conc.step_cfg c t = Some c' ->
    exists a' es0 es1 w1 w2,
      Conc.trace c' = Conc.trace c ++ tag t (es0 ++ es1) /\
      SR t (Conc.shared c) (Conc.shared c') (Conc.trace c) es0 (ws t) w1 /\
      chunk t (Conc.shared c') (Conc.trace c ++ tag t es0) es1 w1 w2 /\
      okR c' a' (updw ws t w2).
  Proof.
    intros (Hi & Hts) Hs. unfold Conc.step_cfg in Hs.
    destruct (nth_error (Conc.threads c) t) as [p|] eqn:Hp; [|discriminate].
    unfold Conc.step_thread in Hs. destruct p as [r|es k|f k]; try discriminate.
    pose proof (Hts t _ Hp) as Hsafe. cbn [safeR] in Hsafe.
    destruct (Hsafe _ _ _ Hi eq_refl) as (a1 & w1 & H1 & H2 & H3 & H4).
    destruct (f (Conc.shared c)) as [[g' v] es] eqn:Hf. cbn [fst snd] in *.
    destruct (settle_safeR t (k v) w1 H1 H4) as (a2 & w2 & K1 & K2 & K3 & K4).
    destruct (Conc.settle (k v)) as [es' p'] eqn:Hk. cbn [fst snd] in *.
    inversion Hs; subst c'; clear Hs. exists a2, es, es', w1, w2. cbn [Conc.shared Conc.trace Conc.threads].
    split; [reflexivity|]. split; [exact H3|]. split; [exact K3|]. split.
    - rewrite Conc.tag_app, app_assoc. exact K1.
    - intros t' q Hq. cbn [Conc.threads] in Hq. unfold updw. destruct (Nat.eq_dec t' t) as [->|Hne].
      + rewrite Nat.eqb_refl. rewrite (Conc.nth_error_set_nth_eq _ _ _ Hp) in Hq. inversion Hq; subst q. exact K4.
      + destruct (Nat.eqb_spec t' t); [congruence|].
        rewrite Conc.nth_error_set_nth_neq in Hq by congruence.
        rewrite (K2 t' Hne), (H2 t' Hne). apply Hts; exact Hq.
  Qed.

  Theorem reach_okR c0 c : cfg_okR c0 -> Conc.reach c0 c -> cfg_okR c.
  Proof.
    intros H0 Hr. induction Hr as [|c t c' Hr IH Hs]; [exact H0|].
    destruct IH as (a & ws & Hok). destruct (@step_R c t c' a ws Hok Hs) as (a' & es0 & es1 & w1 & w2 & _ & _ & _ & Hok').
    exists a', (updw ws t w2). exact Hok'.
  Qed.

  (** every step of every reachable configuration satisfies the step relation of its access *)
  Corollary reach_step_SR c0 c t c' :
    cfg_okR c0 -> Conc.reach c0 c -> Conc.step_cfg c t = Some c' ->
    exists tr es w w', SR t (Conc.shared c) (Conc.shared c') tr es w w'.
  Proof.
    intros H0 Hr Hs. destruct (reach_okR H0 Hr) as (a & ws & Hok).
    destruct (@step_R c t c' a ws Hok Hs) as (a' & es0 & es1 & w1 & w2 & _ & H & _). eauto.
  Qed.
End RuleR.
