(** * C27_Gen — what the GENERATED split-list arithmetic (coq/Gen/Gen_splitlist.v) computes.

    [Gen_splitlist] is regenerated from cds/intrusive/details/split_list_base.h, cds/intrusive/split_list{,_rcu,_nogc}.h,
    cds/algo/bit_reversal.h and cds/details/bitop_generic.h by tools/cxx2v (unit list tools/cxx2v/units_C27.json).
    The unit is self-contained: it lists its own copies of the three 64-bit bit-reversal functors and of the MSBnz
    chain.  They are tied to the definitions C25 proves correct ([Gen_bit_reversal], [Gen_bitop]) by [reflexivity]
    (same source text => same generated term), so C25's [_is_rev] theorems and [msb64nz_spec] apply. *)

Require Import ZArith Lia Bool List.
Require Import LV.Base.CInt LV.Proofs.C25_Bits LV.Proofs.C25_Reversal LV.Proofs.C25_Bitop LV.Proofs.C27_Order.
Require LV.Gen.Gen_bit_reversal LV.Gen.Gen_bitop.
Require Import LV.Gen.Gen_splitlist.
Import ListNotations.
Local Open Scope Z_scope.

(** ** The copies are the C25 definitions *)

Lemma swar_u64_same : Gen_splitlist.swar_u64 = Gen_bit_reversal.swar_u64.       Proof. reflexivity. Qed.
Lemma lookup_u64_same : Gen_splitlist.lookup_u64 = Gen_bit_reversal.lookup_u64. Proof. reflexivity. Qed.
Lemma muldiv_u64_same : Gen_splitlist.muldiv_u64 = Gen_bit_reversal.muldiv_u64. Proof. reflexivity. Qed.
Lemma msb64nz_same : Gen_splitlist.msb64nz = Gen_bitop.msb64nz.                 Proof. reflexivity. Qed.

Lemma sl_swar_is_rev x : 0 <= x < 2 ^ 64 -> Gen_splitlist.swar_u64 x = Some (rev 64 x).
Proof. rewrite swar_u64_same. apply swar_u64_is_rev. Qed.
Lemma sl_lookup_is_rev x : 0 <= x < 2 ^ 64 -> Gen_splitlist.lookup_u64 x = Some (rev 64 x).
Proof. rewrite lookup_u64_same. apply lookup_u64_is_rev. Qed.
Lemma sl_muldiv_is_rev x : 0 <= x < 2 ^ 64 -> Gen_splitlist.muldiv_u64 x = Some (rev 64 x).
Proof. rewrite muldiv_u64_same. apply muldiv_u64_is_rev. Qed.

(** ** regular_hash / dummy_hash, for each reversal functor *)

Lemma c_not_u64_1 : c_not u64 1 = 2 ^ 64 - 2.
Proof. reflexivity. Qed.

Lemma regular_hash_swar_spec h : 0 <= h < 2 ^ 64 -> regular_hash_swar h = Some (so_regular h).
Proof. intros H. unfold regular_hash_swar, size_t_cast. cbn [obind]. rewrite sl_swar_is_rev by assumption. reflexivity. Qed.
Lemma regular_hash_lookup_spec h : 0 <= h < 2 ^ 64 -> regular_hash_lookup h = Some (so_regular h).
Proof. intros H. unfold regular_hash_lookup, size_t_cast. cbn [obind]. rewrite sl_lookup_is_rev by assumption. reflexivity. Qed.
Lemma regular_hash_muldiv_spec h : 0 <= h < 2 ^ 64 -> regular_hash_muldiv h = Some (so_regular h).
Proof. intros H. unfold regular_hash_muldiv, size_t_cast. cbn [obind]. rewrite sl_muldiv_is_rev by assumption. reflexivity. Qed.

Lemma dummy_hash_swar_spec b : 0 <= b < 2 ^ 64 -> dummy_hash_swar b = Some (so_dummy b).
Proof. intros H. unfold dummy_hash_swar, size_t_cast. cbn [obind]. rewrite sl_swar_is_rev by assumption. reflexivity. Qed.
Lemma dummy_hash_lookup_spec b : 0 <= b < 2 ^ 64 -> dummy_hash_lookup b = Some (so_dummy b).
Proof. intros H. unfold dummy_hash_lookup, size_t_cast. cbn [obind]. rewrite sl_lookup_is_rev by assumption. reflexivity. Qed.
Lemma dummy_hash_muldiv_spec b : 0 <= b < 2 ^ 64 -> dummy_hash_muldiv b = Some (so_dummy b).
Proof. intros H. unfold dummy_hash_muldiv, size_t_cast. cbn [obind]. rewrite sl_muldiv_is_rev by assumption. reflexivity. Qed.

(** The pairs (regular_hash, dummy_hash) instantiated by the three values of the [bit_reversal] trait. *)
Definition split_order_fns : list ((Z -> option Z) * (Z -> option Z)) :=
  [ (regular_hash_swar, dummy_hash_swar); (regular_hash_lookup, dummy_hash_lookup); (regular_hash_muldiv, dummy_hash_muldiv) ]%list.

Lemma split_order_fns_spec reg dum : In (reg, dum) split_order_fns ->
  (forall h, 0 <= h < 2 ^ 64 -> reg h = Some (so_regular h)) /\ (forall b, 0 <= b < 2 ^ 64 -> dum b = Some (so_dummy b)).
Proof.
  unfold split_order_fns. cbn [In]. intros [E|[E|[E|[]]]]; inversion E; subst; split.
  - apply regular_hash_swar_spec.   - apply dummy_hash_swar_spec.
  - apply regular_hash_lookup_spec. - apply dummy_hash_lookup_spec.
  - apply regular_hash_muldiv_spec. - apply dummy_hash_muldiv_spec.
Qed.

(** ** bucket_no *)

Lemma bucket_no_spec k m h : 0 <= k <= 63 -> 0 <= h < 2 ^ 64 -> bucket_no (mk_sl_hp k m) h = Some (h mod 2 ^ k).
Proof.
  intros Hk Hh. unfold bucket_no. cbn [sl_hp_m_nBucketCountLog2 sl_hp_m_nMaxItemCount]. cbv zeta.
  rewrite c_shl_u_ok by (try reflexivity; apply shift_ok_spec; cbn; lia). cbn [obind]. f_equal.
  unfold c_and, usub. cbn [ibits u64].
  rewrite Z.shiftl_mul_pow2, Z.mul_1_l by lia.
  assert (0 < 2 ^ k < 2 ^ 64) by (split; [apply pow2_pos; lia|apply Z.pow_lt_mono_r; lia]).
  rewrite (Z.mod_small (2 ^ k)) by lia. rewrite (Z.mod_small (2 ^ k - 1)) by lia.
  replace (2 ^ k - 1) with (Z.ones k) by (rewrite Z.ones_equiv; lia).
  apply Z.land_ones. lia.
Qed.

(** A table of 2^64 buckets (or any log2 outside 0..63) is undefined behaviour: the shift count is >= the width. *)
Lemma bucket_no_UB k m h : ~ (0 <= k <= 63) -> bucket_no (mk_sl_hp k m) h = None.
Proof.
  intros Hk. unfold bucket_no. cbn [sl_hp_m_nBucketCountLog2 sl_hp_m_nMaxItemCount]. cbv zeta.
  rewrite c_shl_bad by (cbn; lia). reflexivity.
Qed.

(** ** parent_bucket *)

Lemma MSBnz_u64_spec b : 0 < b < 2 ^ 64 -> MSBnz_u64 b = Some (Z.log2 b).
Proof.
  intros Hb. unfold MSBnz_u64, BitOps8_MSBnz. rewrite msb64nz_same, msb64nz_spec by lia. cbn [obind].
  unfold msb. replace (b =? 0) with false by (symmetry; apply Z.eqb_neq; lia). f_equal. lia.
Qed.

Lemma parent_bucket_spec b : 0 < b < 2 ^ 64 -> parent_bucket b = Some (so_parent b).
Proof.
  intros Hb. unfold parent_bucket. rewrite MSBnz_u64_spec by assumption. cbn [obind].
  pose proof (Z.log2_nonneg b) as Hm. assert (Hm64 : Z.log2 b < 64) by (apply Z.log2_lt_pow2; lia).
  rewrite c_shl_u_ok by (try reflexivity; apply shift_ok_spec; cbn; lia). cbn [obind]. f_equal.
  rewrite so_parent_clearbit by lia. set (m := Z.log2 b) in *.
  cbn [ibits u64]. rewrite Z.shiftl_mul_pow2, Z.mul_1_l by lia.
  assert (0 < 2 ^ m < 2 ^ 64) by (split; [apply pow2_pos; lia|apply Z.pow_lt_mono_r; lia]).
  rewrite (Z.mod_small (2 ^ m)) by lia.
  unfold c_and, c_not. rewrite wrap_unsigned by reflexivity. cbn [ibits u64].
  apply Z.bits_inj'. intros i Hi. rewrite Z.land_spec, Z.clearbit_eqb.
  destruct (Z_lt_le_dec i 64).
  - rewrite Z.mod_pow2_bits_low, Z.lnot_spec, Z.pow2_bits_eqb by lia. reflexivity.
  - rewrite (testbit_high b 64 i) by lia. reflexivity.
Qed.

(** [parent_bucket 0]: MSBnz of 0 is -1 in the portable C version (a meaningless value from the bsr instruction), the
    shift count -1 is undefined behaviour; the C++ only asserts [nBucket > 0]. *)
Lemma parent_bucket_0_UB : parent_bucket 0 = None.
Proof. vm_compute. reflexivity. Qed.

(** ** The RCU and nogc flavours (cds/intrusive/split_list_rcu.h, split_list_nogc.h) are the same arithmetic *)

Lemma bucket_no_rcu_same k m h : bucket_no_rcu (mk_sl_rcu k m) h = bucket_no (mk_sl_hp k m) h.
Proof. reflexivity. Qed.
Lemma bucket_no_nogc_same k m h : bucket_no_nogc (mk_sl_nogc k m) h = bucket_no (mk_sl_hp k m) h.
Proof. reflexivity. Qed.
Lemma parent_bucket_rcu_same b : parent_bucket_rcu b = parent_bucket b.
Proof. reflexivity. Qed.
Lemma parent_bucket_nogc_same b : parent_bucket_nogc b = parent_bucket b.
Proof. reflexivity. Qed.
