(** * PartitionLin: a product of linearizable sets over a partition of the keys is a linearizable set.

    The hash sets select a bucket by a function of the key and delegate the operation to the ordered list of that
    bucket (MichaelHashSet: [hash & mask]).  At the level of LP-annotated traces (LV.Base.Lin: [lp_valid]) this is a pure
    fact about histories, independent of any model: if the trace is sequential per thread and, for every bucket [b], the
    sub-trace of the operations whose key belongs to [b] is valid for the sequential set specification, then the
    whole trace is valid for the sequential set specification — hence its history is linearizable
    ([lp_valid_linearizable]).  Operations: insert / erase / contains / update (the keyed operations of [SetSpec]). *)
From Coq Require Import List Arith Bool ZArith Lia PeanoNat.
From LV Require Import Base.Lin Spec.Specs Proofs.LinProofs.
Import ListNotations.
Local Open Scope Z_scope.

Definition op_key (o : set_op) : option Z :=
  match o with
  | SInsert k | SErase k | SContains k | SUpdate k _ => Some k
  | SExtractMin | SExtractMax => None
  end.

(** ** locality of the set specification *)
Lemma zmem_cons k x s : zmem k (x :: s) = Z.eqb k x || zmem k s.
Proof. reflexivity. Qed.

Lemma zmem_zdel_same k s : zmem k (zdel k s) = false.
Proof.
  unfold zmem, zdel. induction s as [|x s IH]; cbn; [reflexivity|].
  destruct (Z.eqb k x) eqn:E; cbn; [exact IH|]. rewrite E. exact IH.
Qed.

Lemma zmem_zdel_other k k' s : k' <> k -> zmem k' (zdel k s) = zmem k' s.
Proof.
  intros H. unfold zmem, zdel. induction s as [|x s IH]; cbn; [reflexivity|].
  destruct (Z.eqb k x) eqn:E; cbn.
  - apply Z.eqb_eq in E. subst x. rewrite IH. destruct (Z.eqb_spec k' k); [congruence|reflexivity].
  - rewrite IH. reflexivity.
Qed.

(** the effect of a keyed operation on the membership of its key, and its result, as functions of the old membership *)
Definition mem_after (o : set_op) (m : bool) : bool :=
  match o with
  | SInsert _ => true
  | SErase _ => false
  | SContains _ => m
  | SUpdate _ allow => m || allow
  | _ => m
  end.
Definition res_of (o : set_op) (m : bool) : res :=
  match o with
  | SInsert _ => RBool (negb m)
  | SErase _ => RBool m
  | SContains _ => RBool m
  | SUpdate _ allow => if m then RPair true false else if allow then RPair true true else RPair false false
  | _ => RUnit
  end.

Lemma set_step_local (s : list Z) (o : set_op) k :
  op_key o = Some k ->
  snd (set_step s o) = res_of o (zmem k s) /\
  zmem k (fst (set_step s o)) = mem_after o (zmem k s) /\
  (forall k', k' <> k -> zmem k' (fst (set_step s o)) = zmem k' s).
Proof.
  intros H. destruct o as [x|x|x|x allow| |]; cbn in H; inversion H; subst x; cbn [set_step res_of mem_after].
  - destruct (zmem k s) eqn:E; cbn [fst snd].
    + repeat split; auto.
    + repeat split; auto.
      * rewrite zmem_cons, Z.eqb_refl. reflexivity.
      * intros k' Hk. rewrite zmem_cons. destruct (Z.eqb_spec k' k); [congruence|reflexivity].
  - destruct (zmem k s) eqn:E; cbn [fst snd].
    + repeat split; auto; [apply zmem_zdel_same|intros; now apply zmem_zdel_other].
    + repeat split; auto.
  - cbn [fst snd]. repeat split; auto.
  - destruct (zmem k s) eqn:E; cbn [fst snd orb].
    + repeat split; auto.
    + destruct allow; cbn [fst snd].
      * repeat split; auto.
        -- rewrite zmem_cons, Z.eqb_refl. reflexivity.
        -- intros k' Hk. rewrite zmem_cons. destruct (Z.eqb_spec k' k); [congruence|reflexivity].
      * repeat split; auto.
Qed.

Section Partition.
  (** the partition: bucket of a key *)
  Variable bucket : Z -> nat.

  Definition op_bucket (o : set_op) : option nat :=
    match op_key o with Some k => Some (bucket k) | None => None end.

  Notation aevS := (aev SetSpec).
  Notation statusS := (status SetSpec).

  (** ** projection of an annotated trace on a bucket.  [cur t] = bucket of thread [t]'s operation in progress. *)
  Definition upd_cur (cur : nat -> option nat) (t : nat) (x : option nat) : nat -> option nat :=
    fun u => if Nat.eqb u t then x else cur u.

  Definition in_b (b : nat) (x : option nat) : bool :=
    match x with Some b' => Nat.eqb b' b | None => false end.

  Fixpoint proj (b : nat) (cur : nat -> option nat) (tr : list aevS) : list aevS :=
    match tr with
    | [] => []
    | AInv t o :: r =>
        let r' := proj b (upd_cur cur t (op_bucket o)) r in
        if in_b b (op_bucket o) then AInv t o :: r' else r'
    | ALin t :: r => if in_b b (cur t) then ALin t :: proj b cur r else proj b cur r
    | ARes t x :: r =>
        let r' := proj b (upd_cur cur t None) r in
        if in_b b (cur t) then ARes t x :: r' else r'
    end.

  (** ** per-thread sequentiality: invoke, linearize, respond, in this order; all operations keyed *)
  Inductive tph := TIdle | TPend | TLin.
  Fixpoint shape_ok (ph : nat -> tph) (tr : list aevS) : Prop :=
    match tr with
    | [] => True
    | AInv t o :: r => ph t = TIdle /\ op_key o <> None /\ shape_ok (fun u => if Nat.eqb u t then TPend else ph u) r
    | ALin t :: r => ph t = TPend /\ shape_ok (fun u => if Nat.eqb u t then TLin else ph u) r
    | ARes t _ :: r => ph t = TLin /\ shape_ok (fun u => if Nat.eqb u t then TIdle else ph u) r
    end.

  Definition st_phase (x : statusS) : tph :=
    match x with Idle => TIdle | Pending _ => TPend | Linearized _ _ => TLin end.
  Definition st_bucket (x : statusS) : option nat :=
    match x with Idle => None | Pending o => op_bucket o | Linearized o _ => op_bucket o end.

  (** the global configuration [(s, st)] and the configurations [cs b] of the buckets agree *)
  Definition rel (s : list Z) (st : nat -> statusS) (cs : nat -> list Z * (nat -> statusS)) (cur : nat -> option nat) : Prop :=
    (forall k, zmem k s = zmem k (fst (cs (bucket k)))) /\
    (forall t, cur t = st_bucket (st t)) /\
    (forall t, st t <> Idle -> cur t <> None) /\
    (forall t b, snd (cs b) t = if in_b b (cur t) then st t else Idle).

  Lemma in_b_true b x : in_b b x = true <-> x = Some b.
  Proof. destruct x as [b'|]; cbn; [rewrite Nat.eqb_eq; split; congruence|split; discriminate]. Qed.

  Lemma partition_sim : forall (tr : list aevS) s st cs cur ph,
    rel s st cs cur -> (forall t, ph t = st_phase (st t)) -> shape_ok ph tr ->
    (forall b, exists c', lp_run (Sp:=SetSpec) (cs b) (proj b cur tr) = Some c') ->
    exists c', lp_run (Sp:=SetSpec) (s, st) tr = Some c'.
  Proof.
    induction tr as [|e tr IH]; intros s st cs cur ph HR HP HS HB; [eexists; reflexivity|].
    destruct HR as (R1 & R2 & R3 & R4).
    destruct e as [t o|t|t x]; cbn [shape_ok] in HS; cbn [lp_run lp_step].
    - (* invoke *)
      destruct HS as (Hph & Hkey & HS). rewrite HP in Hph.
      destruct (st t) eqn:Est; cbn in Hph; try discriminate.
      destruct (op_key o) as [k|] eqn:Ek; [|congruence].
      set (b0 := bucket k).
      assert (Hob : op_bucket o = Some b0) by (unfold op_bucket; rewrite Ek; reflexivity).
      set (cs' := fun b => if Nat.eqb b b0 then (fst (cs b0), upd (snd (cs b0)) t (Pending o)) else cs b).
      eapply (IH s (upd st t (Pending o)) cs' (upd_cur cur t (Some b0))); [| |exact HS|].
      + repeat split.
        * intros k'. unfold cs'. destruct (Nat.eqb_spec (bucket k') b0) as [E|E]; cbn [fst]; [rewrite <- E|]; apply R1.
        * intros u. unfold upd_cur, upd. destruct (Nat.eqb_spec u t); [cbn; symmetry; exact Hob|apply R2].
        * intros u. unfold upd_cur, upd. destruct (Nat.eqb_spec u t); [congruence|apply R3].
        * intros u b. unfold cs', upd_cur, upd. destruct (Nat.eqb_spec b b0) as [->|Hb]; cbn [snd].
          -- destruct (Nat.eqb_spec u t) as [->|Hu]; [cbn; rewrite Nat.eqb_refl; reflexivity|]. unfold upd.
             destruct (Nat.eqb_spec u t); [congruence|apply R4].
          -- destruct (Nat.eqb_spec u t) as [->|Hu]; [|apply R4]. cbn. destruct (Nat.eqb_spec b0 b); [congruence|].
             rewrite R4. rewrite R2, Est. reflexivity.
      + intros u. unfold upd. destruct (Nat.eqb_spec u t); [reflexivity|apply HP].
      + intros b. destruct (HB b) as (c' & Hc). cbn [proj] in Hc. rewrite Hob in Hc. cbn [in_b] in Hc. unfold cs'.
        destruct (Nat.eqb_spec b b0) as [->|Hb].
        * rewrite Nat.eqb_refl in Hc. destruct (cs b0) as [sb stb] eqn:Ecs. cbn [lp_run lp_step] in Hc. cbn [fst snd].
          assert (Hidle : stb t = Idle).
          { specialize (R4 t b0). rewrite Ecs in R4. cbn in R4. rewrite R4. rewrite R2, Est. reflexivity. }
          rewrite Hidle in Hc. exists c'. exact Hc.
        * destruct (Nat.eqb_spec b0 b); [congruence|]. exists c'. exact Hc.
    - (* linearization point *)
      destruct HS as (Hph & HS). rewrite HP in Hph.
      destruct (st t) as [|o|] eqn:Est; cbn in Hph; try discriminate.
      assert (Hcur : cur t = op_bucket o) by (rewrite R2, Est; reflexivity).
      destruct (op_key o) as [k|] eqn:Ek.
      2:{ exfalso. apply (R3 t); [rewrite Est; discriminate|]. rewrite Hcur. unfold op_bucket. rewrite Ek. reflexivity. }
      set (b0 := bucket k).
      assert (Hob : op_bucket o = Some b0) by (unfold op_bucket; rewrite Ek; reflexivity).
      destruct (cs b0) as [sb stb] eqn:Ecs.
      assert (Hstb : stb t = Pending o).
      { specialize (R4 t b0). rewrite Ecs in R4. cbn in R4. rewrite R4, Hcur, Hob. cbn. rewrite Nat.eqb_refl. exact Est. }
      destruct (set_step_local s o k Ek) as (L1 & L2 & L3). destruct (set_step_local sb o k Ek) as (M1 & M2 & M3).
      assert (Hmem : zmem k s = zmem k sb) by (rewrite R1; fold b0; rewrite Ecs; reflexivity).
      assert (Hres : snd (sstep SetSpec s o) = snd (sstep SetSpec sb o)) by (cbn; rewrite L1, M1, Hmem; reflexivity).
      set (cs' := fun b => if Nat.eqb b b0 then (fst (set_step sb o), upd stb t (Linearized o (snd (set_step sb o)))) else cs b).
      eapply (IH (fst (set_step s o)) (upd st t (Linearized o (snd (set_step s o)))) cs' cur); [| |exact HS|].
      + repeat split.
        * intros k'. unfold cs'. destruct (Nat.eqb_spec (bucket k') b0) as [E|E]; cbn [fst].
          -- destruct (Z.eq_dec k' k) as [->|Hk]; [rewrite L2, M2, Hmem; reflexivity|].
             rewrite L3, M3 by exact Hk. rewrite R1, E, Ecs. reflexivity.
          -- assert (k' <> k) by (intros ->; apply E; reflexivity). rewrite L3 by assumption. apply R1.
        * intros u. unfold upd. destruct (Nat.eqb_spec u t) as [->|]; [cbn; exact Hcur|apply R2].
        * intros u. unfold upd. destruct (Nat.eqb_spec u t) as [->|]; [intros _; rewrite Hcur, Hob; discriminate|apply R3].
        * intros u b. unfold cs', upd. destruct (Nat.eqb_spec b b0) as [->|Hb]; cbn [snd].
          -- destruct (Nat.eqb_spec u t) as [->|Hu].
             ++ rewrite Hcur, Hob. cbn. rewrite Nat.eqb_refl. cbn in Hres. rewrite Hres. reflexivity.
             ++ specialize (R4 u b0). rewrite Ecs in R4. exact R4.
          -- destruct (Nat.eqb_spec u t) as [->|Hu]; [|apply R4].
             rewrite R4, Hcur, Hob. cbn. destruct (Nat.eqb_spec b0 b); [congruence|reflexivity].
      + intros u. unfold upd. destruct (Nat.eqb_spec u t); [reflexivity|apply HP].
      + intros b. destruct (HB b) as (c' & Hc). cbn [proj] in Hc. rewrite Hcur, Hob in Hc. cbn [in_b] in Hc. unfold cs'.
        destruct (Nat.eqb_spec b b0) as [->|Hb].
        * rewrite Nat.eqb_refl in Hc. rewrite Ecs in Hc. cbn [lp_run lp_step] in Hc. rewrite Hstb in Hc. exists c'. exact Hc.
        * destruct (Nat.eqb_spec b0 b); [congruence|]. exists c'. exact Hc.
    - (* response *)
      destruct HS as (Hph & HS). rewrite HP in Hph.
      destruct (st t) as [| |o r] eqn:Est; cbn in Hph; try discriminate.
      assert (Hcur : cur t = op_bucket o) by (rewrite R2, Est; reflexivity).
      destruct (op_key o) as [k|] eqn:Ek.
      2:{ exfalso. apply (R3 t); [rewrite Est; discriminate|]. rewrite Hcur. unfold op_bucket. rewrite Ek. reflexivity. }
      set (b0 := bucket k).
      assert (Hob : op_bucket o = Some b0) by (unfold op_bucket; rewrite Ek; reflexivity).
      destruct (cs b0) as [sb stb] eqn:Ecs.
      assert (Hstb : stb t = Linearized o r).
      { specialize (R4 t b0). rewrite Ecs in R4. cbn in R4. rewrite R4, Hcur, Hob. cbn. rewrite Nat.eqb_refl. exact Est. }
      (* the bucket accepts the response, so the result matches *)
      destruct (HB b0) as (c0 & Hc0). cbn [proj] in Hc0. rewrite Hcur, Hob in Hc0. cbn [in_b] in Hc0. rewrite Nat.eqb_refl in Hc0.
      rewrite Ecs in Hc0. cbn [lp_run lp_step] in Hc0. rewrite Hstb in Hc0.
      destruct (res_eqb SetSpec x r) eqn:Er; [|discriminate].
      set (cs' := fun b => if Nat.eqb b b0 then (sb, upd stb t Idle) else cs b).
      eapply (IH s (upd st t Idle) cs' (upd_cur cur t None)); [| |exact HS|].
      + repeat split.
        * intros k'. unfold cs'. destruct (Nat.eqb_spec (bucket k') b0) as [E|E]; cbn [fst]; [rewrite R1, E, Ecs; reflexivity|apply R1].
        * intros u. unfold upd_cur, upd. destruct (Nat.eqb_spec u t); [reflexivity|apply R2].
        * intros u. unfold upd_cur, upd. destruct (Nat.eqb_spec u t); [congruence|apply R3].
        * intros u b. unfold cs', upd_cur, upd. destruct (Nat.eqb_spec b b0) as [->|Hb]; cbn [snd].
          -- destruct (Nat.eqb_spec u t) as [->|Hu]; [reflexivity|]. specialize (R4 u b0). rewrite Ecs in R4. exact R4.
          -- destruct (Nat.eqb_spec u t) as [->|Hu]; [|apply R4]. cbn.
             rewrite R4, Hcur, Hob. cbn. destruct (Nat.eqb_spec b0 b); [congruence|reflexivity].
      + intros u. unfold upd. destruct (Nat.eqb_spec u t); [reflexivity|apply HP].
      + intros b. unfold cs'. destruct (Nat.eqb_spec b b0) as [->|Hb].
        * exists c0. exact Hc0.
        * destruct (HB b) as (c' & Hc). cbn [proj] in Hc. rewrite Hcur, Hob in Hc. cbn [in_b] in Hc.
          destruct (Nat.eqb_spec b0 b); [congruence|]. exists c'. exact Hc.
  Qed.

  (** ** the composition theorem on LP-annotated traces *)
  Theorem partition_lp_valid (tr : list aevS) :
    shape_ok (fun _ => TIdle) tr ->
    (forall b, lp_valid SetSpec (proj b (fun _ => None) tr)) ->
    lp_valid SetSpec tr.
  Proof.
    intros HS HB. unfold lp_valid, lp_init.
    eapply partition_sim with (cs := fun _ => (@lp_init SetSpec)) (cur := fun _ => None) (ph := fun _ => TIdle); auto.
    all: try (repeat split; auto; intros t H; exfalso; apply H; reflexivity).
  Qed.

  (** ... and on histories that come with linearization points: linearizable to the sequential set *)
  Corollary partition_linearizable_lp (tr : list aevS) :
    shape_ok (fun _ => TIdle) tr ->
    (forall b, lp_valid SetSpec (proj b (fun _ => None) tr)) ->
    linearizable SetSpec (erase tr).
  Proof. intros H1 H2. apply lp_valid_linearizable. apply partition_lp_valid; assumption. Qed.
End Partition.
