(** * PartitionLin: a product of linearizable sets over a partition of the keys is a linearizable set.

    The hash sets select a bucket by a function of the key and delegate the operation to the ordered list of that
    bucket (MichaelHashSet: [hash & mask]).  At the level of LP-annotated traces (LV.Base.Lin: [lp_valid]) this is a pure
    fact about histories, independent of any model: if the trace is sequential per thread and, for every bucket [b], the
    sub-trace of the operations whose key belongs to [b] is valid for the sequential set specification, then the
    whole trace is valid for the sequential set specification — hence its history is linearizable
    ([lp_valid_linearizable]).  Operations: insert / erase / contains / update (the keyed operations of [SetSpec]). *)
From Coq Require Import List Arith Bool ZArith Lia PeanoNat.
From LV Require Import Base.Lin Spec.Specs Proofs.LinProofs.
Import ListNotations.
Local Open Scope Z_scope.

Definition op_key (o : set_op) : option Z :=
  match o with
  | SInsert k | SErase k | SContains k | SUpdate k _ => Some k
  | SExtractMin | SExtractMax => None
  end.

(** ** locality of the set specification *)
Lemma zmem_cons k x s : zmem k (x :: s) = Z.eqb k x || zmem k s.
Proof. reflexivity. Qed.

Lemma zmem_zdel_same k s : zmem k (zdel k s) = false.
Proof.
  unfold zmem, zdel. induction s as [|x s IH]; cbn; [reflexivity|].
  destruct (Z.eqb k x) eqn:E; cbn; [exact IH|]. rewrite E. exact IH.
Qed.

Lemma zmem_zdel_other k k' s : k' <> k -> zmem k' (zdel k s) = zmem k' s.
Proof.
  intros H. unfold zmem, zdel. induction s as [|x s IH]; cbn; [reflexivity|].
  destruct (Z.eqb k x) eqn:E; cbn.
  - apply Z.eqb_eq in E. subst x. rewrite IH. destruct (Z.eqb_spec k' k); [congruence|reflexivity].
  - rewrite IH. reflexivity.
Qed.

(** the effect of a keyed operation on the membership of its key, and its result, as functions of the old membership *)
Definition mem_after (o : set_op) (m : bool) : bool :=
  match o with
  | SInsert _ => true
  | SErase _ => false
  | SContains _ => m
  | SUpdate _ allow => m || allow
  | _ => m
  end.
Definition res_of (o : set_op) (m : bool) : res :=
  match o with
  | SInsert _ => RBool (negb m)
  | SErase _ => RBool m
  | SContains _ => RBool m
  | SUpdate _ allow => if m then RPair true false else if allow then RPair true true else RPair false false
  | _ => RUnit
  end.

Lemma set_step_local (s : list Z) (o : set_op) k :
  op_key o = Some k ->
  snd (set_step s o) = res_of o (zmem k s) /\
  zmem k (fst (set_step s o)) = mem_after o (zmem k s) /\
  (forall k', k' <> k -> zmem k' (fst (set_step s o)) = zmem k' s).
Proof.
  intros H. destruct o as [x|x|x|x allow| |]; cbn in H; inversion H; subst x; cbn [set_step res_of mem_after].
  - destruct (zmem k s) eqn:E; cbn [fst snd].
    + repeat split; auto.
    + repeat split; auto.
      * rewrite zmem_cons, Z.eqb_refl. reflexivity.
      * intros k' Hk. rewrite zmem_cons. destruct (Z.eqb_spec k' k); [congruence|reflexivity].
  - destruct (zmem k s) eqn:E; cbn [fst snd].
    + repeat split; auto; [apply zmem_zdel_same|intros; now apply zmem_zdel_other].
    + repeat split; auto.
  - cbn [fst snd]. repeat split; auto.
  - destruct (zmem k s) eqn:E; cbn [fst snd orb].
    + repeat split; auto.
    + destruct allow; cbn [fst snd].
      * repeat split; auto.
        -- rewrite zmem_cons, Z.eqb_refl. reflexivity.
        -- intros k' Hk. rewrite zmem_cons. destruct (Z.eqb_spec k' k); [congruence|reflexivity].
      * repeat split; auto.
Qed.

Section Partition.
  (** the partition: bucket of a key *)
  Variable bucket : Z -> nat.

  Definition op_bucket (o : set_op) : option nat :=
    match op_key o with Some k => Some (bucket k) | None => None end.

  Notation aevS := (aev SetSpec).
  Notation statusS := (status SetSpec).

  (** ** projection of an annotated trace on a bucket.  [cur t] = bucket of thread [t]'s operation in progress. *)
  Definition upd_cur (cur : nat -> option nat) (t : nat) (x : option nat) : nat -> option nat :=
    fun u => if Nat.eqb u t then x else cur u.

  Definition in_b (b : nat) (x : option nat) : bool :=
    match x with Some b' => Nat.eqb b' b | None => false end.

  Fixpoint proj (b : nat) (cur : nat -> option nat) (tr : list aevS) : list aevS :=
    match tr with
    | [] => []
    | AInv t o :: r =>
        let r' := proj b (upd_cur cur t (op_bucket o)) r in
        if in_b b (op_bucket o) then AInv t o :: r' else r'
    | ALin t :: r => if in_b b (cur t) then ALin t :: proj b cur r else proj b cur r
    | ARes t x :: r =>
        let r' := proj b (upd_cur cur t None) r in
        if in_b b (cur t) then ARes t x :: r' else r'
    end.

  (** ** per-thread sequentiality: invoke, linearize, respond, in this order; all operations keyed *)
  Inductive tph := TIdle | TPend | TLin.
  Fixpoint shape_ok (ph : nat -> tph) (tr : list aevS) : Prop :=
    match tr with
    | [] => True
    | AInv t o :: r => ph t = TIdle /\ op_key o <> None /\ shape_ok (fun u => if Nat.eqb u t then TPend else ph u) r
    | ALin t :: r => ph t = TPend /\ shape_ok (fun u => if Nat.eqb u t then TLin else ph u) r
    | ARes t _ :: r => ph t = TLin /\ shape_ok (fun u => if Nat.eqb u t then TIdle else ph u) r
    end.

  Definition st_phase (x : statusS) : tph :=
    match x with Idle => TIdle | Pending _ => TPend | Linearized _ _ => TLin end.
  Definition st_bucket (x : statusS) : option nat :=
    match x with Idle => None | Pending o => op_bucket o | Linearized o _ => op_bucket o end.

  (** the global configuration [(s, st)] and the configurations [cs b] of the buckets agree *)
  Definition rel (s : list Z) (st : nat -> statusS) (cs : nat -> list Z * (nat -> statusS)) (cur : nat -> option nat) : Prop :=
    (forall k, zmem k s = zmem k (fst (cs (bucket k)))) /\
    (forall t, cur t = st_bucket (st t)) /\
    (forall t, st t <> Idle -> cur t <> None) /\
    (forall t b, snd (cs b) t = if in_b b (cur t) then st t else Idle).

  Lemma in_b_true b x : in_b b x = true <-> x = Some b.
  Proof. destruct x as [b'|]; cbn; [rewrite Nat.eqb_eq; split; congruence|split; discriminate]. Qed.

  Lemma partition_sim : forall (tr : list aevS) s st cs cur ph,
    rel s st cs cur -> (forall t, ph t = st_phase (st t)) -> shape_ok ph tr ->
    (forall b, exists c', lp_run (Sp:=SetSpec) (cs b) (proj b cur tr) = Some c') ->
    exists c', lp_run (Sp:=SetSpec) (s, st) tr = Some c'.
  Proof.
    induction tr as [|e tr IH]; intros s st cs cur ph HR HP HS HB; [eexists; reflexivity|].
    destruct HR as (R1 & R2 & R3 & R4).
    destruct e as [t o|t|t x]; cbn [shape_ok] in HS; cbn [lp_run lp_step].
    - (* invoke *)
      destruct HS as (Hph & Hkey & HS). rewrite HP in Hph.
      destruct (st t) eqn:Est; cbn in Hph; try discriminate.
      destruct (op_key o) as [k|] eqn:Ek; [|congruence].
      set (b0 := bucket k).
      assert (Hob : op_bucket o = Some b0) by (unfold op_bucket; rewrite Ek; reflexivity).
      set (cs' := fun b => if Nat.eqb b b0 then (fst (cs b0), upd (snd (cs b0)) t (Pending o)) else cs b).
      eapply (IH s (upd st t (Pending o)) cs' (upd_cur cur t (Some b0))); [| |exact HS|].
      + repeat split.
        * intros k'. unfold cs'. destruct (Nat.eqb_spec (bucket k') b0) as [E|E]; cbn [fst]; [rewrite <- E|]; apply R1.
        * intros u. unfold upd_cur, upd. destruct (Nat.eqb_spec u t); [cbn; symmetry; exact Hob|apply R2].
        * intros u. unfold upd_cur, upd. destruct (Nat.eqb_spec u t); [congruence|apply R3].
        * intros u b. unfold cs', upd_cur, upd. destruct (Nat.eqb_spec b b0) as [->|Hb]; cbn [snd].
          -- destruct (Nat.eqb_spec u t) as [->|Hu]; [cbn; rewrite Nat.eqb_refl; reflexivity|]. unfold upd.
             destruct (Nat.eqb_spec u t); [congruence|apply R4].
          -- destruct (Nat.eqb_spec u t) as [->|Hu]; [|apply R4]. cbn. destruct (Nat.eqb_spec b0 b); [congruence|].
             rewrite R4. rewrite R2, Est. reflexivity.
      + intros u. unfold upd. destruct (Nat.eqb_spec u t); [reflexivity|apply HP].
      + intros b. destruct (HB b) as (c' & Hc). cbn [proj] in Hc. rewrite Hob in Hc. cbn [in_b] in Hc. unfold cs'.
        destruct (Nat.eqb_spec b b0) as [->|Hb].
        * rewrite Nat.eqb_refl in Hc. destruct (cs b0) as [sb stb] eqn:Ecs. cbn [lp_run lp_step] in Hc. cbn [fst snd].
          assert (Hidle : stb t = Idle).
          { specialize (R4 t b0). rewrite Ecs in R4. cbn in R4. rewrite R4. rewrite R2, Est. reflexivity. }
          rewrite Hidle in Hc. exists c'. exact Hc.
        * destruct (Nat.eqb_spec b0 b); [congruence|]. exists c'. exact Hc.
    - (* linearization point *)
      destruct HS as (Hph & HS). rewrite HP in Hph.
      destruct (st t) as [|o|] eqn:Est; cbn in Hph; try discriminate.
      assert (Hcur : cur t = op_bucket o) by (rewrite R2, Est; reflexivity).
      destruct (op_key o) as [k|] eqn:Ek.
      2:{ exfalso. apply (R3 t); [rewrite Est; discriminate|]. rewrite Hcur. unfold op_bucket. rewrite Ek. reflexivity. }
      set (b0 := bucket k).
      assert (Hob : op_bucket o = Some b0) by (unfold op_bucket; rewrite Ek; reflexivity).
      destruct (cs b0) as [sb stb] eqn:Ecs.
      assert (Hstb : stb t = Pending o).
      { specialize (R4 t b0). rewrite Ecs in R4. cbn in R4. rewrite R4, Hcur, Hob. cbn. rewrite Nat.eqb_refl. exact Est. }
      destruct (set_step_local s o k Ek) as (L1 & L2 & L3). destruct (set_step_local sb o k Ek) as (M1 & M2 & M3).
      assert (Hmem : zmem k s = zmem k sb) by (rewrite R1; fold b0; rewrite Ecs; reflexivity).
      assert (Hres : snd (sstep SetSpec s o) = snd (sstep SetSpec sb o)) by (cbn; rewrite L1, M1, Hmem; reflexivity).
      set (cs' := fun b => if Nat.eqb b b0 then (fst (set_step sb o), upd stb t (Linearized o (snd (set_step sb o)))) else cs b).
      eapply (IH (fst (set_step s o)) (upd st t (Linearized o (snd (set_step s o)))) cs' cur); [| |exact HS|].
      + repeat split.
        * intros k'. unfold cs'. destruct (Nat.eqb_spec (bucket k') b0) as [E|E]; cbn [fst].
          -- destruct (Z.eq_dec k' k) as [->|Hk]; [rewrite L2, M2, Hmem; reflexivity|].
             rewrite L3, M3 by exact Hk. rewrite R1, E, Ecs. reflexivity.
          -- assert (k' <> k) by (intros ->; apply E; reflexivity). rewrite L3 by assumption. apply R1.
        * intros u. unfold upd. destruct (Nat.eqb_spec u t) as [->|]; [cbn; exact Hcur|apply R2].
        * intros u. unfold upd. destruct (Nat.eqb_spec u t) as [->|]; [intros _; rewrite Hcur, Hob; discriminate|apply R3].
        * intros u b. unfold cs', upd. destruct (Nat.eqb_spec b b0) as [->|Hb]; cbn [snd].
          -- destruct (Nat.eqb_spec u t) as [->|Hu].
             ++ rewrite Hcur, Hob. cbn. rewrite Nat.eqb_refl. cbn in Hres. rewrite Hres. reflexivity.
             ++ specialize (R4 u b0). rewrite Ecs in R4. exact R4.
          -- destruct (Nat.eqb_spec u t) as [->|Hu]; [|apply R4].
             rewrite R4, Hcur, Hob. cbn. destruct (Nat.eqb_spec b0 b); [congruence|reflexivity].
      + intros u. unfold upd. destruct (Nat.eqb_spec u t); [reflexivity|apply HP].
      + intros b. destruct (HB b) as (c' & Hc). cbn [proj] in Hc. rewrite Hcur, Hob in Hc. cbn [in_b] in Hc. unfold cs'.
        destruct (Nat.eqb_spec b b0) as [->|Hb].
        * rewrite Nat.eqb_refl in Hc. rewrite Ecs in Hc. cbn [lp_run lp_step] in Hc. rewrite Hstb in Hc. exists c'. exact Hc.
        * destruct (Nat.eqb_spec b0 b); [congruence|]. exists c'. exact Hc.
    - (* response *)
      destruct HS as (Hph & HS). rewrite HP in Hph.
      destruct (st t) as [| |o r] eqn:Est; cbn in Hph; try discriminate.
      assert (Hcur : cur t = op_bucket o) by (rewrite R2, Est; reflexivity).
      destruct (op_key o) as [k|] eqn:Ek.
      2:{ exfalso. apply (R3 t); [rewrite Est; discriminate|]. rewrite Hcur. unfold op_bucket. rewrite Ek. reflexivity. }
      set (b0 := bucket k).
      assert (Hob : op_bucket o = Some b0) by (unfold op_bucket; rewrite Ek; reflexivity).
      destruct (cs b0) as [sb stb] eqn:Ecs.
      assert (Hstb : stb t = Linearized o r).
      { specialize (R4 t b0). rewrite Ecs in R4. cbn in R4. rewrite R4, Hcur, Hob. cbn. rewrite Nat.eqb_refl. exact Est. }
      (* the bucket accepts the response, so the result matches *)
      destruct (HB b0) as (c0 & Hc0). cbn [proj] in Hc0. rewrite Hcur, Hob in Hc0. cbn [in_b] in Hc0. rewrite Nat.eqb_refl in Hc0.
      rewrite Ecs in Hc0. cbn [lp_run lp_step] in Hc0. rewrite Hstb in Hc0.
      destruct (res_eqb SetSpec x r) eqn:Er; [|discriminate].
      set (cs' := fun b => if Nat.eqb b b0 then (sb, upd stb t Idle) else cs b).
      eapply (IH s (upd st t Idle) cs' (upd_cur cur t None)); [| |exact HS|].
      + repeat split.
        * intros k'. unfold cs'. destruct (Nat.eqb_spec (bucket k') b0) as [E|E]; cbn [fst]; [rewrite R1, E, Ecs; reflexivity|apply R1].
        * intros u. unfold upd_cur, upd. destruct (Nat.eqb_spec u t); [reflexivity|apply R2].
        * intros u. unfold upd_cur, upd. destruct (Nat.eqb_spec u t); [congruence|apply R3].
        * intros u b. unfold cs', upd_cur, upd. destruct (Nat.eqb_spec b b0) as [->|Hb]; cbn [snd].
          -- destruct (Nat.eqb_spec u t) as [->|Hu]; [reflexivity|]. specialize (R4 u b0). rewrite Ecs in R4. exact R4.
          -- destruct (Nat.eqb_spec u t) as [->|Hu]; [|apply R4]. cbn.
             rewrite R4, Hcur, Hob. cbn. destruct (Nat.eqb_spec b0 b); [congruence|reflexivity].
      + intros u. unfold upd. destruct (Nat.eqb_spec u t); [reflexivity|apply HP].
      + intros b. unfold cs'. destruct (Nat.eqb_spec b b0) as [->|Hb].
        * exists c0. exact Hc0.
        * destruct (HB b) as (c' & Hc). cbn [proj] in Hc. rewrite Hcur, Hob in Hc. cbn [in_b] in Hc.
          destruct (Nat.eqb_spec b0 b); [congruence|]. exists c'. exact Hc.
  Qed.


  (** ** weaving: per-bucket annotated traces of a tagged history give an annotated trace of the whole history *)

  (** a history whose events carry the bucket they belong to *)
  Notation hevS := (hev SetSpec).
  Definition hfilter (b : nat) (gl : list (nat * hevS)) : list hevS :=
    map snd (filter (fun x => Nat.eqb (fst x) b) gl).

  (** per-thread alternation invoke / response of the whole history, from the "open" state [opn] *)
  Fixpoint hseq (opn : nat -> bool) (gl : list (nat * hevS)) : Prop :=
    match gl with
    | [] => True
    | (b, HInv t o) :: r => opn t = false /\ op_bucket o = Some b /\ hseq (fun u => if Nat.eqb u t then true else opn u) r
    | (b, HRes t _) :: r => opn t = true /\ hseq (fun u => if Nat.eqb u t then false else opn u) r
    end.

  Definition is_lin (e : aevS) : bool := match e with ALin _ => true | _ => false end.
  Fixpoint span_lins (l : list aevS) : list aevS * list aevS :=
    match l with
    | ALin t :: r => let (a, b) := span_lins r in (ALin t :: a, b)
    | _ => ([], l)
    end.
  Definition no_lead_lin (l : list aevS) : Prop := match l with ALin _ :: _ => False | _ => True end.

  Lemma span_lins_app l : l = fst (span_lins l) ++ snd (span_lins l).
  Proof. induction l as [|[t o|t|t r] l IH]; cbn; auto. destruct (span_lins l); cbn in *. congruence. Qed.
  Lemma span_lins_lins l : Forall (fun e => is_lin e = true) (fst (span_lins l)).
  Proof. induction l as [|[t o|t|t r] l IH]; cbn; auto. destruct (span_lins l); cbn in *. constructor; auto. Qed.
  Lemma span_lins_rest l : no_lead_lin (snd (span_lins l)).
  Proof. induction l as [|[t o|t|t r] l IH]; cbn; auto. destruct (span_lins l); cbn in *. exact IH. Qed.
  Lemma erase_lins l : Forall (fun e => is_lin e = true) l -> erase l = [].
  Proof. induction 1 as [|e l He _ IH]; [reflexivity|]. destruct e; cbn in *; try discriminate. exact IH. Qed.

  Definition set_cs (cs : nat -> list Z * (nat -> statusS)) (b : nat) (c : list Z * (nat -> statusS)) :=
    fun b' => if Nat.eqb b' b then c else cs b'.

  (** one event of bucket [b]'s annotated trace, replayed on the global configuration *)
  Lemma rel_step S st cs cur b e cb' :
    rel S st cs cur -> lp_step (Sp:=SetSpec) (cs b) e = Some cb' ->
    match e with AInv t o => op_bucket o = Some b /\ st t = Idle | _ => True end ->
    exists S' st' cur', lp_step (Sp:=SetSpec) (S, st) e = Some (S', st') /\ rel S' st' (set_cs cs b cb') cur' /\
      (forall u, st' u = Idle <-> (match e with AInv t _ => u <> t /\ st u = Idle | ALin _ => st u = Idle | ARes t _ => u = t \/ st u = Idle end)).
  Proof.
    intros (R1 & R2 & R3 & R4) Hstep Hpre. destruct (cs b) as [sb stb] eqn:Ecs.
    destruct e as [t o|t|t x]; cbn [lp_step] in *.
    - (* invoke *)
      destruct Hpre as [Hob Hidle]. destruct (stb t) eqn:Estb; try discriminate. inversion Hstep; subst cb'; clear Hstep.
      rewrite Hidle. exists S, (upd st t (Pending o)), (upd_cur cur t (Some b)). split; [reflexivity|]. split.
      + repeat split.
        * intros k. unfold set_cs. destruct (Nat.eqb_spec (bucket k) b) as [E|E]; cbn [fst]; [rewrite R1, E, Ecs; reflexivity|apply R1].
        * intros u. unfold upd_cur, upd. destruct (Nat.eqb_spec u t); [cbn; symmetry; exact Hob|apply R2].
        * intros u. unfold upd_cur, upd. destruct (Nat.eqb_spec u t); [congruence|apply R3].
        * intros u b0. unfold set_cs, upd_cur, upd. destruct (Nat.eqb_spec b0 b) as [->|Hb]; cbn [snd].
          -- destruct (Nat.eqb_spec u t) as [->|Hu]; [cbn; rewrite Nat.eqb_refl; reflexivity|].
             specialize (R4 u b). rewrite Ecs in R4. exact R4.
          -- destruct (Nat.eqb_spec u t) as [->|Hu]; [|apply R4]. cbn. destruct (Nat.eqb_spec b b0); [congruence|].
             rewrite R4. rewrite R2, Hidle. reflexivity.
      + intros u. unfold upd. destruct (Nat.eqb_spec u t) as [->|Hu]; split; try tauto; try (intros H; discriminate); intros [H _]; congruence.
    - (* linearization point *)
      destruct (stb t) as [|o|] eqn:Estb; try discriminate. inversion Hstep; subst cb'; clear Hstep.
      assert (Hin : in_b b (cur t) = true /\ st t = Pending o).
      { specialize (R4 t b). rewrite Ecs in R4. cbn in R4. rewrite Estb in R4. destruct (in_b b (cur t)); [auto|discriminate]. }
      destruct Hin as [Hin Est]. apply in_b_true in Hin.
      assert (Hob : op_bucket o = Some b) by (rewrite <- Hin, R2, Est; reflexivity).
      destruct (op_key o) as [k|] eqn:Ek; [|unfold op_bucket in Hob; rewrite Ek in Hob; discriminate].
      assert (Hbk : bucket k = b) by (unfold op_bucket in Hob; rewrite Ek in Hob; inversion Hob; reflexivity).
      destruct (set_step_local S o k Ek) as (L1 & L2 & L3). destruct (set_step_local sb o k Ek) as (M1 & M2 & M3).
      assert (Hmem : zmem k S = zmem k sb) by (rewrite R1, Hbk, Ecs; reflexivity).
      assert (Hres : snd (set_step S o) = snd (set_step sb o)) by (rewrite L1, M1, Hmem; reflexivity).
      rewrite Est. exists (fst (set_step S o)), (upd st t (Linearized o (snd (set_step S o)))), cur. split; [reflexivity|]. split.
      + repeat split.
        * intros k'. unfold set_cs. destruct (Nat.eqb_spec (bucket k') b) as [E|E]; cbn [fst].
          -- destruct (Z.eq_dec k' k) as [->|Hk]; [cbn; rewrite L2, M2, Hmem; reflexivity|].
             cbn. rewrite L3, M3 by exact Hk. rewrite R1, E, Ecs. reflexivity.
          -- assert (k' <> k) by (intros ->; apply E; exact Hbk). rewrite L3 by assumption. apply R1.
        * intros u. unfold upd. destruct (Nat.eqb_spec u t) as [->|]; [cbn; rewrite Hin; symmetry; exact Hob|apply R2].
        * intros u. unfold upd. destruct (Nat.eqb_spec u t) as [->|]; [intros _; rewrite Hin; discriminate|apply R3].
        * intros u b0. unfold set_cs, upd. destruct (Nat.eqb_spec b0 b) as [->|Hb]; cbn [snd].
          -- destruct (Nat.eqb_spec u t) as [->|Hu].
             ++ rewrite Hin. cbn. rewrite Nat.eqb_refl. cbn in Hres. rewrite Hres. reflexivity.
             ++ specialize (R4 u b). rewrite Ecs in R4. exact R4.
          -- destruct (Nat.eqb_spec u t) as [->|Hu]; [|apply R4].
             rewrite R4, Hin. cbn. destruct (Nat.eqb_spec b b0); [congruence|reflexivity].
      + intros u. unfold upd. destruct (Nat.eqb_spec u t) as [->|Hu]; [|tauto]. split; intros H; [discriminate|congruence].
    - (* response *)
      destruct (stb t) as [| |o r] eqn:Estb; try discriminate.
      destruct (res_eqb SetSpec x r) eqn:Er; [|discriminate]. inversion Hstep; subst cb'; clear Hstep.
      assert (Hin : in_b b (cur t) = true /\ st t = Linearized o r).
      { specialize (R4 t b). rewrite Ecs in R4. cbn in R4. rewrite Estb in R4. destruct (in_b b (cur t)); [auto|discriminate]. }
      destruct Hin as [Hin Est]. apply in_b_true in Hin.
      rewrite Est, Er. exists S, (upd st t Idle), (upd_cur cur t None). split; [reflexivity|]. split.
      + repeat split.
        * intros k'. unfold set_cs. destruct (Nat.eqb_spec (bucket k') b) as [E|E]; cbn [fst]; [rewrite R1, E, Ecs; reflexivity|apply R1].
        * intros u. unfold upd_cur, upd. destruct (Nat.eqb_spec u t); [reflexivity|apply R2].
        * intros u. unfold upd_cur, upd. destruct (Nat.eqb_spec u t); [congruence|apply R3].
        * intros u b0. unfold set_cs, upd_cur, upd. destruct (Nat.eqb_spec b0 b) as [->|Hb]; cbn [snd].
          -- destruct (Nat.eqb_spec u t) as [->|Hu]; [reflexivity|]. specialize (R4 u b). rewrite Ecs in R4. exact R4.
          -- destruct (Nat.eqb_spec u t) as [->|Hu]; [|apply R4]. cbn.
             rewrite R4, Hin. cbn. destruct (Nat.eqb_spec b b0); [congruence|reflexivity].
      + intros u. unfold upd. destruct (Nat.eqb_spec u t) as [->|Hu]; [tauto|]. split; [intros H; right; exact H|intros [H|H]; [congruence|exact H]].
  Qed.


  Lemma rel_ext S st cs cs' cur : (forall b, cs b = cs' b) -> rel S st cs cur -> rel S st cs' cur.
  Proof.
    intros E (R1 & R2 & R3 & R4). repeat split; auto.
    - intros k. rewrite <- E. apply R1.
    - intros t b. rewrite <- E. apply R4.
  Qed.

  Lemma set_cs_same cs b c : set_cs cs b c b = c.
  Proof. unfold set_cs. now rewrite Nat.eqb_refl. Qed.
  Lemma set_cs_twice cs b c c' b0 : set_cs (set_cs cs b c) b c' b0 = set_cs cs b c' b0.
  Proof. unfold set_cs. destruct (Nat.eqb b0 b); reflexivity. Qed.

  (** the linearization points that follow an event in bucket [b]'s annotated trace *)
  Lemma run_lins : forall lins S st cs cur b cb',
    Forall (fun e => is_lin e = true) lins -> rel S st cs cur -> lp_run (Sp:=SetSpec) (cs b) lins = Some cb' ->
    exists S' st' cur', lp_run (Sp:=SetSpec) (S, st) lins = Some (S', st') /\ rel S' st' (set_cs cs b cb') cur' /\
                        (forall u, st' u = Idle <-> st u = Idle).
  Proof.
    induction lins as [|e lins IH]; intros S st cs cur b cb' HL HR Hrun.
    - cbn in Hrun. inversion Hrun; subst cb'. exists S, st, cur. split; [reflexivity|]. split; [|tauto].
      eapply rel_ext; [|exact HR]. intros b0. unfold set_cs. destruct (Nat.eqb_spec b0 b); [subst; reflexivity|reflexivity].
    - inversion HL as [|e' l' He Hl]; subst. destruct e as [t o|t|t x]; cbn in He; try discriminate.
      cbn [lp_run] in Hrun. destruct (lp_step (Sp:=SetSpec) (cs b) (ALin t)) as [cb1|] eqn:E1; [|discriminate].
      destruct (rel_step S st cs cur b (ALin t) cb1 HR E1 I) as (S1 & st1 & cur1 & K1 & K2 & K3).
      assert (Hrun' : lp_run (Sp:=SetSpec) (set_cs cs b cb1 b) lins = Some cb') by (rewrite set_cs_same; exact Hrun).
      destruct (IH S1 st1 (set_cs cs b cb1) cur1 b cb' Hl K2 Hrun') as (S2 & st2 & cur2 & J1 & J2 & J3).
      exists S2, st2, cur2. split; [cbn [lp_run]; rewrite K1; exact J1|]. split.
      + eapply rel_ext; [|exact J2]. intros b0. apply set_cs_twice.
      + intros u. rewrite J3. apply K3.
  Qed.

  Definition idleb (s : statusS) : bool := match s with Idle => true | _ => false end.
  Lemma idleb_spec s : idleb s = true <-> s = Idle.
  Proof. destruct s; cbn; split; intros H; try reflexivity; try discriminate. Qed.

  Lemma idleb_iff s s' : (s' = Idle <-> s = Idle) -> idleb s = idleb s'.
  Proof.
    intros H. destruct (idleb s) eqn:E1; destruct (idleb s') eqn:E2; try reflexivity.
    - apply idleb_spec in E1. apply H in E1. apply idleb_spec in E1. congruence.
    - apply idleb_spec in E2. apply H in E2. apply idleb_spec in E2. congruence.
  Qed.

  Lemma hseq_ext opn opn' gl : (forall u, opn u = opn' u) -> hseq opn gl -> hseq opn' gl.
  Proof.
    revert opn opn'. induction gl as [|[b [t o|t r]] gl IH]; intros opn opn' E H; cbn [hseq] in *; [exact I| |].
    - destruct H as (H1 & H2 & H3). rewrite <- E. repeat split; auto. eapply IH; [|exact H3]. intros u. cbn. rewrite E. reflexivity.
    - destruct H as (H1 & H3). rewrite <- E. split; auto. eapply IH; [|exact H3]. intros u. cbn. rewrite E. reflexivity.
  Qed.

  Lemma hfilter_cons_same b e gl : hfilter b ((b, e) :: gl) = e :: hfilter b gl.
  Proof. unfold hfilter. cbn. rewrite Nat.eqb_refl. reflexivity. Qed.
  Lemma hfilter_cons_other b b' e gl : b' <> b -> hfilter b' ((b, e) :: gl) = hfilter b' gl.
  Proof. intros H. unfold hfilter. cbn. destruct (Nat.eqb_spec b b'); [congruence|reflexivity]. Qed.

  Lemma erase_nil_nolead l : erase (Sp:=SetSpec) l = [] -> no_lead_lin l -> l = [].
  Proof. destruct l as [|[t o|t|t r] l]; cbn; intros H1 H2; try discriminate; [reflexivity|contradiction]. Qed.

  Lemma weave_sim : forall (gl : list (nat * hevS)) S st cs cur (rem : nat -> list aevS),
    rel S st cs cur -> hseq (fun t => negb (idleb (st t))) gl ->
    (forall b, exists c', lp_run (Sp:=SetSpec) (cs b) (rem b) = Some c') ->
    (forall b, erase (rem b) = hfilter b gl) -> (forall b, no_lead_lin (rem b)) ->
    exists ATR c', lp_run (Sp:=SetSpec) (S, st) ATR = Some c' /\ erase ATR = map snd gl.
  Proof.
    induction gl as [|[b e] gl IH]; intros S st cs cur rem HR HS HB HE HN.
    - exists [], (S, st). split; reflexivity.
    - pose proof (HE b) as Eb. rewrite hfilter_cons_same in Eb.
      destruct (rem b) as [|x r1] eqn:Erem; [discriminate|].
      pose proof (HN b) as Nb. rewrite Erem in Nb.
      destruct (HB b) as (cfin & Hrun). rewrite Erem in Hrun. cbn [lp_run] in Hrun.
      destruct (lp_step (Sp:=SetSpec) (cs b) x) as [cb1|] eqn:E1; [|discriminate].
      pose proof (span_lins_app r1) as Hsp. pose proof (span_lins_lins r1) as Hlins. pose proof (span_lins_rest r1) as Hrest.
      destruct (span_lins r1) as [lins r2]. cbn [fst snd] in *.
      rewrite Hsp in Hrun. rewrite lp_run_app in Hrun.
      destruct (lp_run (Sp:=SetSpec) cb1 lins) as [cb2|] eqn:E2; [|discriminate].
      assert (Hx : (exists t o, x = AInv t o /\ e = HInv t o) \/ (exists t r, x = ARes t r /\ e = HRes t r)).
      { destruct x as [t o|t|t r]; cbn in Eb, Nb; [left|contradiction|right]; inversion Eb; eauto. }
      assert (Er1 : erase r1 = hfilter b gl).
      { destruct x as [t o|t|t r]; cbn in Eb, Nb; [|contradiction|]; inversion Eb; reflexivity. }
      assert (Er2 : erase r2 = hfilter b gl).
      { rewrite <- Er1, Hsp, erase_app, (erase_lins lins Hlins). reflexivity. }
      assert (Hpre : match x with AInv t o => op_bucket o = Some b /\ st t = Idle | _ => True end).
      { destruct Hx as [(t & o & -> & ->)|(t & r & -> & ->)]; [|exact I]. cbn [hseq] in HS. destruct HS as (H1 & H2 & _).
        split; [exact H2|]. apply idleb_spec. destruct (idleb (st t)); [reflexivity|discriminate]. }
      destruct (rel_step S st cs cur b x cb1 HR E1 Hpre) as (S1 & st1 & cur1 & K1 & K2 & K3).
      assert (E2' : lp_run (Sp:=SetSpec) (set_cs cs b cb1 b) lins = Some cb2) by (rewrite set_cs_same; exact E2).
      destruct (run_lins lins S1 st1 (set_cs cs b cb1) cur1 b cb2 Hlins K2 E2') as (S2 & st2 & cur2 & J1 & J2 & J3).
      set (rem2 := fun b' => if Nat.eqb b' b then r2 else rem b').
      destruct (IH S2 st2 (set_cs cs b cb2) cur2 rem2) as (ATR' & c' & L1 & L2).
      + eapply rel_ext; [|exact J2]. intros b0. apply set_cs_twice.
      + destruct Hx as [(t & o & -> & ->)|(t & r & -> & ->)]; cbn [hseq] in HS.
        * destruct HS as (_ & _ & HS). eapply hseq_ext; [|exact HS]. intros u. cbn beta.
          destruct (Nat.eqb_spec u t) as [->|Hu].
          -- destruct (idleb (st2 t)) eqn:Ei; [|reflexivity]. apply idleb_spec in Ei. apply J3 in Ei. apply K3 in Ei. destruct Ei; congruence.
          -- f_equal. apply idleb_iff. rewrite J3, K3. tauto.
        * destruct HS as (_ & HS). eapply hseq_ext; [|exact HS]. intros u. cbn beta.
          destruct (Nat.eqb_spec u t) as [->|Hu].
          -- assert (st2 t = Idle) by (apply J3; apply K3; left; reflexivity). rewrite H. reflexivity.
          -- f_equal. apply idleb_iff. rewrite J3, K3. split; [intros [H|H]; [congruence|exact H]|intros H; right; exact H].
      + intros b0. unfold set_cs, rem2. destruct (Nat.eqb_spec b0 b) as [->|Hb]; [exists cfin; exact Hrun|apply HB].
      + intros b0. unfold rem2. destruct (Nat.eqb_spec b0 b) as [->|Hb]; [exact Er2|]. rewrite HE. apply hfilter_cons_other. exact Hb.
      + intros b0. unfold rem2. destruct (Nat.eqb_spec b0 b) as [->|Hb]; [exact Hrest|apply HN].
      + exists (x :: lins ++ ATR'), c'. split.
        * cbn [lp_run]. rewrite K1. cbv iota beta. rewrite lp_run_app.
          match goal with |- match ?X with _ => _ end = _ => replace X with (Some (S2, st2)) by (symmetry; exact J1) end. exact L1.
        * cbn [map snd]. rewrite <- L2. destruct Hx as [(t & o & -> & ->)|(t & r & -> & ->)]; cbn [erase]; rewrite erase_app, (erase_lins lins Hlins); reflexivity.
  Qed.

  (** LP-level locality: if the tagged history is per-thread sequential and every bucket's sub-history has a valid LP annotation,
      then the whole history has one *)
  Theorem weave_valid (gl : list (nat * hevS)) (atrs : nat -> list aevS) :
    hseq (fun _ => false) gl ->
    (forall b, lp_valid SetSpec (atrs b) /\ erase (atrs b) = hfilter b gl) ->
    exists ATR, lp_valid SetSpec ATR /\ erase ATR = map snd gl.
  Proof.
    intros HS HB.
    destruct (weave_sim gl [] (fun _ => @Idle SetSpec) (fun _ => (@lp_init SetSpec)) (fun _ => None) atrs) as (ATR & c' & H1 & H2).
    - repeat split; auto; try (intros t H; exfalso; apply H; reflexivity).
    - exact HS.
    - intros b. destruct (HB b) as [[c Hc] _]. exists c. exact Hc.
    - intros b. apply HB.
    - intros b. destruct (HB b) as [[c Hc] _]. destruct (atrs b) as [|[t o|t|t r] l]; cbn; auto. cbn in Hc. discriminate.
    - exists ATR. split; [exists c'; exact H1|exact H2].
  Qed.

  (** ** the composition theorem on LP-annotated traces *)
  Theorem partition_lp_valid (tr : list aevS) :
    shape_ok (fun _ => TIdle) tr ->
    (forall b, lp_valid SetSpec (proj b (fun _ => None) tr)) ->
    lp_valid SetSpec tr.
  Proof.
    intros HS HB. unfold lp_valid, lp_init.
    eapply partition_sim with (cs := fun _ => (@lp_init SetSpec)) (cur := fun _ => None) (ph := fun _ => TIdle); auto.
    all: try (repeat split; auto; intros t H; exfalso; apply H; reflexivity).
  Qed.

  (** ... and on histories that come with linearization points: linearizable to the sequential set *)
  Corollary partition_linearizable_lp (tr : list aevS) :
    shape_ok (fun _ => TIdle) tr ->
    (forall b, lp_valid SetSpec (proj b (fun _ => None) tr)) ->
    linearizable SetSpec (erase tr).
  Proof. intros H1 H2. apply lp_valid_linearizable. apply partition_lp_valid; assumption. Qed.
End Partition.
