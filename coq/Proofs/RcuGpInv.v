(** * Invariant of the general-purpose RCU model (LV.Model.RcuGp): definitions and stability lemmas.

    Trace statements (what the theorems say) are at the top; the auxiliary state and the four groups of the
    invariant follow.  The classical argument:  a reader section that is open since before the writer's marker
    [i] keeps its phase bit; the first flip_and_wait leaves only such readers whose phase equals the phase the
    global word had after the first flip, the second flip makes exactly those differ from the global word, and
    the second scan cannot pass their record while they are inside. *)
From Coq Require Import ZArith List String Bool Lia PeanoNat.
From LV Require Import Base.Conc Base.Events Model.RcuGp Proofs.RcuBits.
Import ListNotations.
Local Open Scope string_scope.
Local Open Scope list_scope.
Local Open Scope Z_scope.

Definition trace := list (nat * ev).

(** ** events *)
Definition cli_is (name : string) (d : Z) (e : ev) : bool :=
  match e with EvCli n (x :: _) => String.eqb n name && (x =? d) | _ => false end.
Definition is_rlock1 : ev -> bool := cli_is "rlock" 1.
Definition is_runlock0 : ev -> bool := cli_is "runlock" 0.
Definition is_sync_begin : ev -> bool := is_cli "sync_begin".
Definition is_sync_end : ev -> bool := is_cli "sync_end".
Definition is_retire (p : Z) : ev -> bool := cli_is "retire" p.
Definition is_dispose (p : Z) : ev -> bool := cli_is "dispose" p.
Definition is_any_dispose (e : ev) : bool := is_cli "dispose" e.

(** thread [t] emitted an event satisfying [P] at position [i] of the trace *)
Definition at_ (tr : trace) (i t : nat) (P : ev -> bool) : Prop :=
  exists e, nth_error tr i = Some (t, e) /\ P e = true.

(** the outermost read-side section of [r] that began at position [s] is still open at position [i] *)
Definition open_at (tr : trace) (r s i : nat) : Prop :=
  at_ tr s r is_rlock1 /\ (s < i)%nat /\ forall b, (s < b < i)%nat -> ~ at_ tr b r is_runlock0.

(** synchronize() returns only after all readers that were inside when it was called have left *)
Definition sync_waits (tr : trace) : Prop :=
  forall w i j, at_ tr i w is_sync_begin -> at_ tr j w is_sync_end -> (i < j)%nat ->
    (forall k, (i < k < j)%nat -> ~ at_ tr k w is_sync_begin) ->
    forall r s, open_at tr r s i -> exists b, (i < b < j)%nat /\ at_ tr b r is_runlock0.

(** every disposal is preceded by a retirement of the same object (by the same thread for general_instant, by any
    thread for the buffered flavours), and every reader that was inside when the object was retired has left before
    the disposal *)
Definition dispose_safe (tr : trace) : Prop :=
  forall w p d, at_ tr d w (is_dispose p) ->
    exists k w', (k < d)%nat /\ at_ tr k w' (is_retire p) /\
      forall r s, open_at tr r s k -> exists b, (k < b < d)%nat /\ at_ tr b r is_runlock0.

(** *** basic facts about [at_] *)
Lemma at_lt tr i t P : at_ tr i t P -> (i < List.length tr)%nat.
Proof. intros (e & H & _). apply nth_error_Some. congruence. Qed.

Lemma at_app_l tr x i t P : at_ tr i t P -> at_ (tr ++ x) i t P.
Proof.
  intros (e & H & HP). exists e. split; [|exact HP]. rewrite nth_error_app1; [exact H|]. apply nth_error_Some. congruence.
Qed.

Lemma at_app_inv tr x i t P : at_ (tr ++ x) i t P -> (i < List.length tr)%nat -> at_ tr i t P.
Proof. intros (e & H & HP) Hi. exists e. split; [|exact HP]. rewrite nth_error_app1 in H by exact Hi. exact H. Qed.

Lemma at_snoc_inv tr t' e' i t P :
  at_ (tr ++ [(t', e')]) i t P -> at_ tr i t P \/ (i = List.length tr /\ t = t' /\ P e' = true).
Proof.
  intros H. destruct (Nat.lt_ge_cases i (List.length tr)) as [Hi|Hi].
  - left. eapply at_app_inv; eauto.
  - right. destruct H as (e & H & HP). rewrite nth_error_app2 in H by exact Hi.
    destruct (i - List.length tr)%nat as [|k] eqn:E.
    + cbn in H. inversion H; subst. repeat split; auto. lia.
    + cbn in H. destruct k; discriminate.
Qed.

Lemma at_snoc_last tr t e P : P e = true -> at_ (tr ++ [(t, e)]) (List.length tr) t P.
Proof. intros H. exists e. split; [|exact H]. rewrite nth_error_app2 by lia. rewrite Nat.sub_diag. reflexivity. Qed.

Lemma at_excl tr i t t' P Q : at_ tr i t P -> at_ tr i t' Q -> (forall e, P e = true -> Q e = true -> False) -> False.
Proof. intros (e & H & HP) (e' & H' & HQ) X. rewrite H in H'. inversion H'; subst. eauto. Qed.

Lemma at_same_thread tr i t t' P Q : at_ tr i t P -> at_ tr i t' Q -> t = t'.
Proof. intros (e & H & HP) (e' & H' & HQ). rewrite H in H'. inversion H'; subst. reflexivity. Qed.

Lemma tag1 t (e : ev) : Conc.tag t [e] = [(t, e)].
Proof. reflexivity. Qed.

Lemma open_at_app_l tr x r s i : open_at tr r s i -> (i <= List.length tr)%nat -> open_at (tr ++ x) r s i.
Proof.
  intros (H1 & H2 & H3) Hi. split; [apply at_app_l; exact H1|]. split; [exact H2|].
  intros b Hb Hat. apply (H3 b Hb). eapply at_app_inv; eauto. lia.
Qed.

Lemma open_at_app_inv tr x r s i : open_at (tr ++ x) r s i -> (i <= List.length tr)%nat -> open_at tr r s i.
Proof.
  intros (H1 & H2 & H3) Hi. split; [eapply at_app_inv; eauto; lia|]. split; [exact H2|].
  intros b Hb Hat. apply (H3 b Hb). apply at_app_l; exact Hat.
Qed.

(** ** auxiliary state *)
Inductive loaded := L0 | L2 (v : Z).
Inductive wpos := PFlipped | PScan (done todo : list nat) (ld : loaded).
Inductive wst :=
| WIdle
| WStart (i : nat)                                   (* marker chosen, lock not held *)
| WHeld0 (i : nat)                                   (* lock held, no flip yet *)
| WPhase (i : nat) (k : bool) (gph : bool) (pos : wpos)   (* lock held, in the first (k=false) / second flip_and_wait *)
| WFin (i : nat).                                    (* grace period over, lock released *)

Record L := mkV {
  l_rec : option nat;       (* my thread record *)
  l_att : option nat;       (* record allocated by me, not yet pushed *)
  l_seen : list nat;        (* the list I loaded from the head in alloc() *)
  l_depth : nat;            (* nesting according to my m_nAccessControl *)
  l_ph : bool;              (* phase bit of my m_nAccessControl *)
  l_ev : nat;               (* nesting according to my rlock / runlock events *)
  l_cs : option nat;        (* position of the rlock event that opened my current outermost section *)
  l_w : wst;
  l_sm : option nat;        (* position of my last sync_begin event *)
  l_rm : option (nat * Z)   (* position and object of my last retire event *)
}.

Definition Aux := nat -> L.
Definition view (a : Aux) (t : nat) : L := a t.
Definition updA (a : Aux) (t : nat) (l : L) : Aux := fun x => if Nat.eqb x t then l else a x.

Lemma updA_same a t l : updA a t l t = l.
Proof. unfold updA. now rewrite Nat.eqb_refl. Qed.
Lemma updA_other a t l t' : t' <> t -> updA a t l t' = a t'.
Proof. unfold updA. intros H. destruct (Nat.eqb_spec t' t); congruence. Qed.
Lemma frame_updA a t l : Conc.frame view t a (updA a t l).
Proof. intros t' H. unfold view. now apply updA_other. Qed.
Lemma frame_refl a t : Conc.frame view t a a.
Proof. intros ? ?; reflexivity. Qed.

Definition set_rec (l : L) x := mkV x (l_att l) (l_seen l) (l_depth l) (l_ph l) (l_ev l) (l_cs l) (l_w l) (l_sm l) (l_rm l).
Definition set_att (l : L) x := mkV (l_rec l) x (l_seen l) (l_depth l) (l_ph l) (l_ev l) (l_cs l) (l_w l) (l_sm l) (l_rm l).
Definition set_seen (l : L) x := mkV (l_rec l) (l_att l) x (l_depth l) (l_ph l) (l_ev l) (l_cs l) (l_w l) (l_sm l) (l_rm l).
Definition set_dp (l : L) d p := mkV (l_rec l) (l_att l) (l_seen l) d p (l_ev l) (l_cs l) (l_w l) (l_sm l) (l_rm l).
Definition set_evcs (l : L) e c := mkV (l_rec l) (l_att l) (l_seen l) (l_depth l) (l_ph l) e c (l_w l) (l_sm l) (l_rm l).
Definition set_w (l : L) x := mkV (l_rec l) (l_att l) (l_seen l) (l_depth l) (l_ph l) (l_ev l) (l_cs l) x (l_sm l) (l_rm l).
Definition set_sm (l : L) x := mkV (l_rec l) (l_att l) (l_seen l) (l_depth l) (l_ph l) (l_ev l) (l_cs l) (l_w l) x (l_rm l).
Definition set_rm (l : L) x := mkV (l_rec l) (l_att l) (l_seen l) (l_depth l) (l_ph l) (l_ev l) (l_cs l) (l_w l) (l_sm l) x.

Definition l0 : L := mkV None None [] O false O None WIdle None None.

(** ** the invariant, in four groups *)

(** thread records *)
Record InvRec (g : G) (a : Aux) : Prop := {
  RA : forall r m, l_rec (a r) = Some m ->
         In m (g_list g) /\ g_tid g m <> 0 /\ g_acc g m = mkw (l_ph (a r)) (Z.of_nat (l_depth (a r))) /\
         Z.of_nat (l_depth (a r)) < two31;
  RU : forall r r' m, l_rec (a r) = Some m -> l_rec (a r') = Some m -> r = r';
  RF : forall m, g_tid g m = 0 -> exists b, g_acc g m = mkw b 0;
  RN : forall m, In m (g_list g) -> (1 <= m <= g_nrec g)%nat;
  RP : forall r m, l_att (a r) = Some m ->
         (1 <= m <= g_nrec g)%nat /\ ~ In m (g_list g) /\ g_tid g m <> 0 /\ g_acc g m = 0;
  RPU : forall r r' m, l_att (a r) = Some m -> l_att (a r') = Some m -> r = r';
  RS : forall r m, In m (l_seen (a r)) -> In m (g_list g);
  RD : forall r, (l_ev (a r) <= l_depth (a r))%nat /\ (l_cs (a r) = None <-> l_ev (a r) = O) /\
                 (l_rec (a r) = None -> l_depth (a r) = O)
}.

Definition holder (s : wst) : Prop :=
  match s with WHeld0 _ | WPhase _ _ _ _ => True | _ => False end.

(** the lock and the global control word *)
Record InvLock (g : G) (a : Aux) : Prop := {
  LK1 : forall w, holder (l_w (a w)) -> g_lock g = true;
  LK2 : forall w w', holder (l_w (a w)) -> holder (l_w (a w')) -> w = w';
  GC : exists b, g_ctl g = mkw b 1 /\ forall w i k gph pos, l_w (a w) = WPhase i k gph pos -> gph = b
}.

(** reader [r] is inside a section that it entered before position [i] *)
Definition old (a : Aux) (i r : nat) : Prop := exists s, l_cs (a r) = Some s /\ (s < i)%nat.

Definition ldfact (ld : loaded) (todo : list nat) (m : nat) (ph : bool) : Prop :=
  match ld, todo with
  | L2 v, cur :: _ => m = cur -> exists n, 0 < n < two31 /\ v = mkw ph n
  | _, _ => True
  end.

Definition wclause (a : Aux) (s : wst) : Prop :=
  match s with
  | WPhase i false gph (PScan done todo ld) =>
      forall r m, old a i r -> l_rec (a r) = Some m ->
        (In m done \/ In m todo) /\ (In m done -> l_ph (a r) = gph) /\ ldfact ld todo m (l_ph (a r))
  | WPhase i true gph PFlipped => forall r, old a i r -> l_ph (a r) = negb gph
  | WPhase i true gph (PScan done todo ld) =>
      forall r m, old a i r -> l_rec (a r) = Some m ->
        l_ph (a r) = negb gph /\ In m todo /\ ldfact ld todo m (l_ph (a r))
  | WFin i => forall r, ~ old a i r
  | _ => True
  end.

Definition widx (s : wst) : option nat :=
  match s with WIdle => None | WStart i | WHeld0 i | WPhase i _ _ _ | WFin i => Some i end.

(** the writers' knowledge about old readers; [n] is the List.length of the trace *)
Record InvW (a : Aux) (n : nat) : Prop := {
  WB : forall w i, widx (l_w (a w)) = Some i -> (i <= n)%nat;
  WC : forall w, wclause a (l_w (a w))
}.

(** the trace *)
Record InvT (a : Aux) (tr : trace) : Prop := {
  T1 : forall r s, l_cs (a r) = Some s -> at_ tr s r is_rlock1 /\ forall b, (s < b)%nat -> ~ at_ tr b r is_runlock0;
  T2 : forall r s, at_ tr s r is_rlock1 ->
         l_cs (a r) = Some s \/
         exists b, (s < b)%nat /\ at_ tr b r is_runlock0 /\ forall s', l_cs (a r) = Some s' -> (b < s')%nat;
  TM : forall w i, l_sm (a w) = Some i -> at_ tr i w is_sync_begin /\ forall k, (i < k)%nat -> ~ at_ tr k w is_sync_begin;
  TR : forall w i p, l_rm (a w) = Some (i, p) -> at_ tr i w (is_retire p);
  SW : sync_waits tr;
  DS : dispose_safe tr
}.

Definition Inv (g : G) (a : Aux) (tr : trace) : Prop :=
  InvRec g a /\ InvLock g a /\ InvW a (List.length tr) /\ InvT a tr.

(** ** stability: a group depends only on some fields *)
Definition rfields (l : L) := (l_rec l, l_att l, l_seen l, l_depth l, l_ph l, l_ev l, l_cs l).

Lemma InvRec_ext g g' a a' :
  g_list g' = g_list g -> g_nrec g' = g_nrec g -> g_tid g' = g_tid g -> g_acc g' = g_acc g ->
  (forall t, rfields (a' t) = rfields (a t)) -> InvRec g a -> InvRec g' a'.
Proof.
  intros E1 E2 E3 E4 Ea H.
  assert (F : forall t, l_rec (a' t) = l_rec (a t) /\ l_att (a' t) = l_att (a t) /\ l_seen (a' t) = l_seen (a t) /\
                        l_depth (a' t) = l_depth (a t) /\ l_ph (a' t) = l_ph (a t) /\ l_ev (a' t) = l_ev (a t) /\
                        l_cs (a' t) = l_cs (a t)).
  { intros t. specialize (Ea t). unfold rfields in Ea. inversion Ea. repeat split; assumption. }
  destruct H. constructor; rewrite ?E1, ?E2, ?E3, ?E4.
  - intros r m. destruct (F r) as (-> & _ & _ & -> & -> & _). apply RA0.
  - intros r r' m. destruct (F r) as (-> & _). destruct (F r') as (-> & _). apply RU0.
  - exact RF0.
  - exact RN0.
  - intros r m. destruct (F r) as (_ & -> & _). apply RP0.
  - intros r r' m. destruct (F r) as (_ & -> & _). destruct (F r') as (_ & -> & _). apply RPU0.
  - intros r m. destruct (F r) as (_ & _ & -> & _). apply RS0.
  - intros r. destruct (F r) as (-> & _ & _ & -> & _ & -> & ->). apply RD0.
Qed.

Lemma InvLock_ext g g' a a' :
  g_lock g' = g_lock g -> g_ctl g' = g_ctl g -> (forall t, l_w (a' t) = l_w (a t)) -> InvLock g a -> InvLock g' a'.
Proof.
  intros E1 E2 Ea H. destruct H. constructor; rewrite ?E1, ?E2.
  - intros w. rewrite Ea. apply LK3.
  - intros w w'. rewrite !Ea. apply LK4.
  - destruct GC0 as (b & Hb & Hg). exists b. split; [exact Hb|]. intros w i k gph pos. rewrite Ea. apply Hg.
Qed.

Definition wfields (l : L) := (l_rec l, l_ph l, l_cs l, l_w l).

Lemma old_ext a a' i r : l_cs (a' r) = l_cs (a r) -> old a' i r <-> old a i r.
Proof. intros E. unfold old. rewrite E. tauto. Qed.

Lemma wclause_ext a a' s :
  (forall t, l_rec (a' t) = l_rec (a t) /\ l_ph (a' t) = l_ph (a t) /\ l_cs (a' t) = l_cs (a t)) ->
  wclause a s -> wclause a' s.
Proof.
  intros F H.
  assert (O : forall i r, old a' i r <-> old a i r) by (intros; apply old_ext; apply F).
  destruct s as [|i|i|i k gph pos|i]; cbn [wclause] in *; auto.
  - destruct k, pos as [|done todo ld]; auto.
    + intros r Ho. destruct (F r) as (_ & -> & _). apply H. apply O; exact Ho.
    + intros r m Ho. destruct (F r) as (-> & -> & _). apply H. apply O; exact Ho.
    + intros r m Ho. destruct (F r) as (-> & -> & _). apply H. apply O; exact Ho.
  - intros r Ho. apply (H r). apply O; exact Ho.
Qed.

Lemma InvW_ext a a' n n' :
  (n <= n')%nat -> (forall t, wfields (a' t) = wfields (a t)) -> InvW a n -> InvW a' n'.
Proof.
  intros Hn Ea H.
  assert (F : forall t, l_rec (a' t) = l_rec (a t) /\ l_ph (a' t) = l_ph (a t) /\ l_cs (a' t) = l_cs (a t) /\ l_w (a' t) = l_w (a t)).
  { intros t. specialize (Ea t). unfold wfields in Ea. inversion Ea. repeat split; assumption. }
  destruct H. constructor.
  - intros w i. destruct (F w) as (_ & _ & _ & ->). intros Hw. specialize (WB0 w i Hw). lia.
  - intros w. destruct (F w) as (_ & _ & _ & ->). eapply wclause_ext; [|apply WC0].
    intros t. destruct (F t) as (A & B & C & _). auto.
Qed.

(** *** the trace group under an event that is none of rlock 1 / runlock 0 / sync_begin / sync_end / dispose *)
Definition neutral (e : ev) : Prop :=
  is_rlock1 e = false /\ is_runlock0 e = false /\ is_sync_begin e = false /\ is_sync_end e = false /\
  is_any_dispose e = false.

Lemma is_dispose_any p e : is_dispose p e = true -> is_any_dispose e = true.
Proof.
  unfold is_dispose, cli_is, is_any_dispose, is_cli. destruct e as [|n [|x r]]; try discriminate.
  intros H. apply andb_prop in H. tauto.
Qed.

Lemma neutral_acc k o ok : neutral (EvAcc k o ok).
Proof. repeat split. Qed.

Definition tfields (l : L) := (l_cs l, l_sm l, l_rm l).

Lemma sync_waits_snoc tr t e : is_sync_end e = false -> sync_waits tr -> sync_waits (tr ++ [(t, e)]).
Proof.
  intros Ne H w i j Hi Hj Hij Hno r s Ho.
  destruct (at_snoc_inv _ _ _ _ _ _ Hj) as [Hj'|(_ & _ & X)]; [|congruence].
  pose proof (at_lt _ _ _ _ Hj') as Lj.
  assert (Hi' : at_ tr i w is_sync_begin) by (eapply at_app_inv; eauto; lia).
  destruct (H w i j Hi' Hj' Hij) with (r := r) (s := s) as (b & Hb & Hat).
  - intros k Hk Hat. apply (Hno k Hk). apply at_app_l; exact Hat.
  - eapply open_at_app_inv; eauto. lia.
  - exists b. split; [exact Hb|]. apply at_app_l; exact Hat.
Qed.

Lemma dispose_safe_snoc tr t e : is_any_dispose e = false -> dispose_safe tr -> dispose_safe (tr ++ [(t, e)]).
Proof.
  intros Ne H w p d Hd.
  destruct (at_snoc_inv _ _ _ _ _ _ Hd) as [Hd'|(_ & _ & X)]; [|apply is_dispose_any in X; congruence].
  pose proof (at_lt _ _ _ _ Hd') as Ld.
  destruct (H w p d Hd') as (k & w' & Hk & Hr & Hall). exists k, w'. split; [exact Hk|]. split; [apply at_app_l; exact Hr|].
  intros r s Ho. destruct (Hall r s) as (b & Hb & Hat).
  - eapply open_at_app_inv; eauto. lia.
  - exists b. split; [exact Hb|]. apply at_app_l; exact Hat.
Qed.

Lemma InvT_neutral a a' tr t e :
  neutral e -> (forall x, tfields (a' x) = tfields (a x)) -> InvT a tr -> InvT a' (tr ++ [(t, e)]).
Proof.
  intros (N1 & N2 & N3 & N4 & N5) Ea H.
  assert (F : forall x, l_cs (a' x) = l_cs (a x) /\ l_sm (a' x) = l_sm (a x) /\ l_rm (a' x) = l_rm (a x)).
  { intros x. specialize (Ea x). unfold tfields in Ea. inversion Ea. auto. }
  destruct H. constructor.
  - intros r s. destruct (F r) as (-> & _). intros Hc. destruct (T3 r s Hc) as (A & B). split; [apply at_app_l; exact A|].
    intros b Hb Hat. destruct (at_snoc_inv _ _ _ _ _ _ Hat) as [Hat'|(_ & _ & X)]; [eapply B; eauto|congruence].
  - intros r s Hat. destruct (F r) as (-> & _).
    destruct (at_snoc_inv _ _ _ _ _ _ Hat) as [Hat'|(_ & _ & X)]; [|congruence].
    destruct (T4 r s Hat') as [A|(b & Hb & Hrb & Hs)]; [left; exact A|].
    right. exists b. split; [exact Hb|]. split; [apply at_app_l; exact Hrb|exact Hs].
  - intros w i. destruct (F w) as (_ & -> & _). intros Hc. destruct (TM0 w i Hc) as (A & B). split; [apply at_app_l; exact A|].
    intros k Hk Hat. destruct (at_snoc_inv _ _ _ _ _ _ Hat) as [Hat'|(_ & _ & X)]; [eapply B; eauto|congruence].
  - intros w i p. destruct (F w) as (_ & _ & ->). intros Hc. apply at_app_l. eapply TR0; eauto.
  - apply sync_waits_snoc; assumption.
  - apply dispose_safe_snoc; assumption.
Qed.
