(** * C07 — the bounded FIFO with an [empty] observer, and hindsight insertion of the observer's linearization points.

    [VQE cap]: the specification [VQ cap] of LV.Proofs.VyukovSpec (enqueue / dequeue / front / pop_front on a bounded
    FIFO) extended with the read-only operation [EEmpty], answer [RBool (queue = [])].

    Abstract part (this file, no reference to the model): an LP-annotated trace [u] over [VQE cap] in which the
    empty() calls appear with invocation and response but WITHOUT a linearization point is "pre-valid" when it
    replays with [prun] (= [lp_run], except that a response to a still pending [EEmpty] is accepted unchecked).
    If every such unchecked response is justified by an instant inside its call ([observed]: a prefix [ua] of the
    trace, after which the thread has no client event until the response, and at which the abstract queue is empty
    iff the answer is true), then the linearization points can be inserted at those instants:
      [insert_observers] : prun lp_init u = Some c -> observed u -> exists u', lp_valid u' /\ erase u' = erase u
      [observed_linearizable] : ... -> linearizable (VQE cap) (erase u)
    The insertion is retroactive ("hindsight"): the LP of an answer [false] is the instant chosen by the observer
    theorem, which may be a step of another thread. *)
From Coq Require Import ZArith List Bool Lia PeanoNat.
From LV Require Import Base.Lin Proofs.LinProofs Spec.Specs Proofs.VyukovSpec.
Import ListNotations.

Inductive eop := EV (o : vop) | EEmpty.

Definition isnil (q : list Z) : bool := match q with [] => true | _ :: _ => false end.

Definition vqe_step (cap : nat) (q : list Z) (o : eop) : list Z * res :=
  match o with
  | EV o => vq_step cap q o
  | EEmpty => (q, RBool (isnil q))
  end.

Definition VQE (cap : nat) : Spec := mkSpec [] (vqe_step cap).

Section Insert.
  Variable cap : nat.
  Notation Sp := (VQE cap).
  Notation cfg := (config Sp).

  (** configurations up to pointwise equality of the status maps (no functional extensionality) *)
  Definition ceq (c1 c2 : cfg) : Prop := fst c1 = fst c2 /\ forall t, snd c1 t = snd c2 t.

  Lemma ceq_refl c : ceq c c.
  Proof. split; auto. Qed.

  Lemma ceq_sym c1 c2 : ceq c1 c2 -> ceq c2 c1.
  Proof. intros [H1 H2]. split; auto. Qed.

  Lemma ceq_trans c1 c2 c3 : ceq c1 c2 -> ceq c2 c3 -> ceq c1 c3.
  Proof. intros [H1 H2] [H3 H4]. split; [congruence|]. intros t. now rewrite H2. Qed.

  Ltac pw := let w := fresh "w" in
    intros w; unfold Lin.upd; repeat match goal with |- context [(w =? ?t)%nat] => destruct (Nat.eqb_spec w t) end;
    subst; try congruence; auto.

  Lemma lp_step_ceq (c1 c2 : cfg) (e : aev Sp) : ceq c1 c2 ->
    match lp_step c1 e, lp_step c2 e with
    | Some a, Some b => ceq a b
    | None, None => True
    | _, _ => False
    end.
  Proof.
    destruct c1 as [q1 s1], c2 as [q2 s2]. intros [Hq Hs]. cbn [fst snd] in Hq, Hs. subst q2.
    destruct e as [t o|t|t r]; cbn [lp_step]; rewrite <- (Hs t); destruct (s1 t) as [|o'|o' r']; try exact I.
    - split; cbn [fst snd]; auto. pw.
    - split; cbn [fst snd]; auto. pw.
    - destruct (res_eqb Sp r r'); [|exact I]. split; cbn [fst snd]; auto. pw.
  Qed.

  Lemma lp_run_ceq (B : list (aev Sp)) : forall (c1 c2 c1' : cfg), ceq c1 c2 -> lp_run c1 B = Some c1' ->
    exists c2', lp_run c2 B = Some c2' /\ ceq c1' c2'.
  Proof.
    induction B as [|e B IH]; intros c1 c2 c1' H R; cbn [lp_run] in *.
    - inversion R; subst. exists c2. auto.
    - pose proof (lp_step_ceq c1 c2 e H) as K.
      destruct (lp_step c1 e) as [a|]; [|discriminate]. destruct (lp_step c2 e) as [b|]; [|contradiction].
      exact (IH a b c1' K R).
  Qed.

  (** thread [t] has no invocation / response in [B] *)
  Definition ncli (t : nat) (e : aev Sp) : Prop :=
    match e with AInv u _ => u <> t | ARes u _ => u <> t | ALin _ => True end.
  Definition noCli (t : nat) (B : list (aev Sp)) : Prop := forall e, In e B -> ncli t e.

  Lemma noCli_app t a b : noCli t (a ++ b) <-> noCli t a /\ noCli t b.
  Proof.
    split.
    - intros H. split; intros e He; apply H; apply in_or_app; auto.
    - intros [Ha Hb] e He. apply in_app_or in He. destruct He; auto.
  Qed.

  Definition setlin (c : cfg) (t : nat) (r : res) : cfg := (fst c, Lin.upd (snd c) t (Linearized (EEmpty : Op Sp) r)).

  (** one step that leaves [t] pending on [EEmpty] commutes with the linearization of that call *)
  Lemma step_setlin (c c1 : cfg) e t r :
    lp_step c e = Some c1 -> ncli t e -> snd c1 t = Pending (EEmpty : Op Sp) ->
    snd c t = Pending (EEmpty : Op Sp) /\ fst (vqe_step cap (fst c) EEmpty) = fst c /\
    exists c1L, lp_step (setlin c t r) e = Some c1L /\ ceq c1L (setlin c1 t r).
  Proof.
    destruct c as [q s]. unfold setlin. cbn [fst snd]. intros E Hn P1.
    split; [|split; [reflexivity|]].
    - destruct e as [u o|u|u x]; cbn [lp_step ncli] in *.
      + destruct (s u); inversion E; subst c1. cbn [snd] in P1. rewrite upd_other in P1; auto.
      + destruct (s u) as [|o|o x] eqn:Su; inversion E; subst c1. cbn [snd] in P1.
        destruct (Nat.eq_dec t u) as [->|Hd]; [rewrite upd_same in P1; discriminate|]. rewrite upd_other in P1; auto.
      + destruct (s u) as [|o|o x'] eqn:Su; try discriminate. destruct (res_eqb Sp x x'); inversion E; subst c1.
        cbn [snd] in P1. rewrite upd_other in P1; auto.
    - destruct e as [u o|u|u x]; cbn [lp_step ncli] in *.
      + rewrite upd_other by auto. destruct (s u); inversion E; subst c1. eexists. split; [reflexivity|].
        split; cbn [fst snd]; auto. pw.
      + destruct (Nat.eq_dec u t) as [->|Hd].
        * destruct (s t) as [|o|o x]; inversion E; subst c1. cbn [snd] in P1. rewrite upd_same in P1. discriminate.
        * rewrite upd_other by auto. destruct (s u) as [|o|o x]; inversion E; subst c1. eexists. split; [reflexivity|].
          split; cbn [fst snd]; auto. pw.
      + rewrite upd_other by auto. destruct (s u) as [|o|o x']; try discriminate.
        destruct (res_eqb Sp x x'); inversion E; subst c1. eexists. split; [reflexivity|].
        split; cbn [fst snd]; auto. pw.
  Qed.

  (** the hindsight step: if [t] is still pending on [EEmpty] after [B] and has no client event in [B], it was pending
      on [EEmpty] before [B], and [B] replays with that call already linearized (with any result [r]) *)
  Lemma ins_run (B : list (aev Sp)) : forall (c c' : cfg) t r,
    lp_run c B = Some c' -> noCli t B -> snd c' t = Pending (EEmpty : Op Sp) ->
    snd c t = Pending (EEmpty : Op Sp) /\
    exists cL, lp_run (setlin c t r) B = Some cL /\ ceq cL (setlin c' t r).
  Proof.
    induction B as [|e B IH]; intros c c' t r H Hn Hf; cbn [lp_run] in H.
    - inversion H; subst. split; auto. exists (setlin c' t r). split; [reflexivity|apply ceq_refl].
    - destruct (lp_step c e) as [c1|] eqn:E; [|discriminate].
      assert (Hn1 : noCli t B) by (intros x Hx; apply Hn; right; exact Hx).
      destruct (IH c1 c' t r H Hn1 Hf) as (P1 & cL & RL & CL).
      destruct (step_setlin c c1 e t r E (Hn e (or_introl eq_refl)) P1) as (P0 & _ & c1L & SL & C1).
      split; [exact P0|]. cbn [lp_run]. rewrite SL.
      destruct (lp_run_ceq B (setlin c1 t r) c1L cL (ceq_sym _ _ C1) RL) as (cL2 & R2 & C2).
      exists cL2. split; [exact R2|]. eapply ceq_trans; [apply ceq_sym; exact C2|exact CL].
  Qed.

  (** ** pre-valid traces: the response to a pending [EEmpty] is accepted unchecked *)
  Definition pstep (c : cfg) (e : aev Sp) : option cfg :=
    match e with
    | ARes t r =>
        match snd c t with
        | Pending EEmpty => Some (fst c, Lin.upd (snd c) t Idle)
        | _ => lp_step c e
        end
    | _ => lp_step c e
    end.

  Fixpoint prun (c : cfg) (tr : list (aev Sp)) : option cfg :=
    match tr with
    | [] => Some c
    | e :: tr' => match pstep c e with Some c' => prun c' tr' | None => None end
    end.

  Lemma prun_app (c : cfg) tr1 tr2 :
    prun c (tr1 ++ tr2) = match prun c tr1 with Some c' => prun c' tr2 | None => None end.
  Proof. revert c; induction tr1 as [|e tr1 IH]; simpl; intros c; auto. destruct (pstep c e); auto. Qed.

  (** every unchecked response is justified by an instant inside its call *)
  Definition observed (u : list (aev Sp)) : Prop :=
    forall u1 t r u2 c1, u = u1 ++ ARes t r :: u2 -> prun lp_init u1 = Some c1 -> snd c1 t = Pending (EEmpty : Op Sp) ->
      exists ua ub ca, u1 = ua ++ ub /\ noCli t ub /\ prun lp_init ua = Some ca /\ r = RBool (isnil (fst ca)).

  Lemma observed_prefix u v : observed (u ++ v) -> observed u.
  Proof.
    intros H u1 t r u2 c1 E R P. apply (H u1 t r (u2 ++ v) c1); auto. rewrite E, <- app_assoc. reflexivity.
  Qed.

  (** [u'] is [u] with linearization points inserted: every instant of [u] has a counterpart in [u'] with the same
      abstract queue, and a thread without client events after the instant in [u] has none in [u'] *)
  Definition Coh (u u' : list (aev Sp)) : Prop :=
    forall ua ub ca, u = ua ++ ub -> prun lp_init ua = Some ca ->
      exists ua' ub' ca', u' = ua' ++ ub' /\ lp_run lp_init ua' = Some ca' /\ fst ca' = fst ca /\
                          forall t, noCli t ub -> noCli t ub'.

  Lemma snoc_cases {A} (l : list A) : l = [] \/ exists l0 x, l = l0 ++ [x].
  Proof. destruct l as [|a l] using rev_ind; [left; reflexivity|right; eauto]. Qed.

  Theorem insert_observers_coh (u : list (aev Sp)) : forall c,
    prun lp_init u = Some c -> observed u ->
    exists u' c', lp_run lp_init u' = Some c' /\ ceq c' c /\ erase u' = erase u /\ Coh u u'.
  Proof.
    induction u as [|e v IH] using rev_ind; intros c R Hobs.
    - cbn in R. inversion R; subst. exists [], lp_init. split; [reflexivity|]. split; [apply ceq_refl|].
      split; [reflexivity|]. intros ua ub ca E Ra. symmetry in E. apply app_eq_nil in E. destruct E as [-> ->].
      cbn in Ra. inversion Ra; subst. exists [], [], lp_init. repeat split; auto.
    - rewrite prun_app in R. destruct (prun lp_init v) as [cv|] eqn:Rv; [|discriminate].
      cbn [prun] in R. destruct (pstep cv e) as [c0|] eqn:Es; [|discriminate]. inversion R; subst c0; clear R.
      destruct (IH cv eq_refl (observed_prefix v [e] Hobs)) as (v' & cv' & Rv' & Cv & Ev & Hcoh).
      (* is [e] an unchecked response? *)
      assert (Hcase : (exists t r, e = ARes t r /\ snd cv t = Pending (EEmpty : Op Sp)) \/ pstep cv e = lp_step cv e).
      { destruct e as [t o|t|t r]; try (right; reflexivity). cbn [pstep].
        destruct (snd cv t) as [|[o|]|o x] eqn:St; try (right; reflexivity). left. eauto. }
      destruct Hcase as [(t & r & -> & Pt)|Hplain].
      + (* hindsight insertion *)
        cbn [pstep] in Es. rewrite Pt in Es. inversion Es; subst c; clear Es.
        destruct (Hobs v t r [] cv eq_refl Rv Pt) as (ua & ub & ca & Ev2 & Hnc & Ra & Hr).
        destruct (Hcoh ua ub ca Ev2 Ra) as (ua' & ub' & ca' & Ev' & Ra' & Hq & Hnc').
        specialize (Hnc' t Hnc).
        rewrite Ev', lp_run_app, Ra' in Rv'.
        assert (Pt' : snd cv' t = Pending (EEmpty : Op Sp)) by (destruct Cv as [_ Cs]; rewrite Cs; exact Pt).
        destruct (ins_run ub' ca' cv' t r Rv' Hnc' Pt') as (Pa & cL & RL & CL).
        exists (ua' ++ @ALin Sp t :: ub' ++ [@ARes Sp t r]), (fst cL, Lin.upd (snd cL) t Idle).
        assert (Hlin : lp_step ca' (@ALin Sp t) = Some (setlin ca' t r)).
        { destruct ca' as [qa sa]. cbn [lp_step fst snd] in *. rewrite Pa. unfold setlin. cbn [fst snd].
          change (sstep Sp qa EEmpty) with (vqe_step cap qa EEmpty). cbn [vqe_step fst snd]. rewrite Hr, Hq. reflexivity. }
        assert (HsL : snd cL t = Linearized (EEmpty : Op Sp) r).
        { destruct CL as [_ Cs]. rewrite Cs. unfold setlin. cbn [snd]. apply upd_same. }
        assert (Hres : lp_step cL (@ARes Sp t r) = Some (fst cL, Lin.upd (snd cL) t Idle)).
        { destruct cL as [qL sL]. cbn [lp_step fst snd] in *. rewrite HsL.
          assert (Hrr : res_eqb Sp r r = true) by (apply res_eqb_spec; reflexivity). rewrite Hrr. reflexivity. }
        split; [|split; [|split]].
        * rewrite lp_run_app, Ra'. cbn [lp_run]. rewrite Hlin. rewrite lp_run_app, RL. cbn [lp_run]. rewrite Hres.
          reflexivity.
        * destruct CL as [Cq Cs]. destruct Cv as [Cvq Cvs]. unfold setlin in *. cbn [fst snd] in *.
          split; cbn [fst snd]; [etransitivity; [exact Cq|exact Cvq]|]. intros w. specialize (Cs w). specialize (Cvs w). revert Cs.
          unfold Lin.upd. destruct (w =? t)%nat; auto. intros ->. exact Cvs.
        * rewrite !erase_app. cbn [erase]. rewrite erase_app. cbn [erase].
          rewrite <- Ev, Ev', erase_app, <- app_assoc. reflexivity.
        * (* coherence of the new trace *)
          intros xa xb cxa Ex Rxa. destruct (snoc_cases xb) as [->|(xb0 & x & ->)].
          -- rewrite app_nil_r in Ex. subst xa. rewrite prun_app, Rv in Rxa. cbn [prun pstep] in Rxa. rewrite Pt in Rxa.
             inversion Rxa; subst cxa; clear Rxa.
             exists (ua' ++ @ALin Sp t :: ub' ++ [@ARes Sp t r]), [], (fst cL, Lin.upd (snd cL) t Idle).
             split; [now rewrite app_nil_r|]. split.
             ++ rewrite lp_run_app, Ra'. cbn [lp_run]. rewrite Hlin. rewrite lp_run_app, RL. cbn [lp_run]. rewrite Hres.
                reflexivity.
             ++ split; [|intros ? _ ? []]. destruct CL as [Cq _]. destruct Cv as [Cvq _]. unfold setlin in Cq.
                cbn [fst snd] in *. etransitivity; [exact Cq|exact Cvq].
          -- rewrite app_assoc in Ex. apply app_inj_tail in Ex. destruct Ex as [Ex <-].
             destruct (Hcoh xa xb0 cxa Ex Rxa) as (xa' & xb0' & cxa' & Ex' & Rxa' & Hxq & Hxn).
             (* compare the two prefixes [xa'] and [ua'] of [v'] *)
             rewrite Ev' in Ex'. apply app_eq_app in Ex'. destruct Ex' as (z & [[Ez1 Ez2]|[Ez1 Ez2]]).
             ++ (* ua' = xa' ++ z : the instant lies before the insertion point *)
                exists xa', (z ++ @ALin Sp t :: ub' ++ [@ARes Sp t r]), cxa'.
                split; [rewrite Ez1, <- app_assoc; reflexivity|]. split; [exact Rxa'|]. split; [exact Hxq|].
                intros w Hw. apply noCli_app in Hw. destruct Hw as [Hw0 Hw1]. specialize (Hxn w Hw0).
                rewrite Ez2 in Hxn. apply noCli_app in Hxn. destruct Hxn as [Hz Hub].
                apply noCli_app. split; [exact Hz|]. intros y [<-|Hy]; [exact I|].
                apply in_app_or in Hy. destruct Hy as [Hy|Hy]; [apply Hub; exact Hy|apply Hw1; exact Hy].
             ++ (* xa' = ua' ++ z, ub' = z ++ xb0' : the instant lies after the insertion point *)
                subst ub'. rewrite lp_run_app in Rv'. destruct (lp_run ca' z) as [cz|] eqn:Rz; [|discriminate].
                apply noCli_app in Hnc'. destruct Hnc' as [Hncz Hncx].
                destruct (ins_run xb0' cz cv' t r Rv' Hncx Pt') as (Pz & _).
                destruct (ins_run z ca' cz t r Rz Hncz Pz) as (_ & czL & RzL & CzL).
                exists (ua' ++ @ALin Sp t :: z), (xb0' ++ [@ARes Sp t r]), czL.
                split; [rewrite <- !app_assoc; reflexivity|]. split.
                ** rewrite lp_run_app, Ra'. cbn [lp_run]. rewrite Hlin. exact RzL.
                ** split.
                   --- destruct CzL as [Cq _]. unfold setlin in Cq. cbn [fst] in Cq. rewrite Cq.
                       rewrite Ez1, lp_run_app, Ra', Rz in Rxa'. inversion Rxa'; subst cxa'. exact Hxq.
                   --- intros w Hw. apply noCli_app in Hw. destruct Hw as [Hw0 Hw1]. specialize (Hxn w Hw0).
                       apply noCli_app. split; [exact Hxn|exact Hw1].
      + (* an ordinary event *)
        rewrite Hplain in Es.
        pose proof (lp_step_ceq cv' cv e Cv) as K. rewrite Es in K.
        destruct (lp_step cv' e) as [c'|] eqn:Es'; [|contradiction].
        exists (v' ++ [e]), c'. split; [rewrite lp_run_app, Rv'; cbn [lp_run]; rewrite Es'; reflexivity|].
        split; [exact K|]. split; [rewrite !erase_app, Ev; reflexivity|].
        intros xa xb cxa Ex Rxa. destruct (snoc_cases xb) as [->|(xb0 & x & ->)].
        * rewrite app_nil_r in Ex. subst xa. rewrite prun_app, Rv in Rxa. cbn [prun] in Rxa. rewrite Hplain, Es in Rxa.
          inversion Rxa; subst cxa; clear Rxa. exists (v' ++ [e]), [], c'.
          split; [now rewrite app_nil_r|]. split; [rewrite lp_run_app, Rv'; cbn [lp_run]; rewrite Es'; reflexivity|].
          split; [exact (proj1 K)|intros ? _ ? []].
        * rewrite app_assoc in Ex. apply app_inj_tail in Ex. destruct Ex as [Ex <-].
          destruct (Hcoh xa xb0 cxa Ex Rxa) as (xa' & xb0' & cxa' & Ex' & Rxa' & Hxq & Hxn).
          exists xa', (xb0' ++ [e]), cxa'. split; [rewrite Ex', <- app_assoc; reflexivity|]. split; [exact Rxa'|].
          split; [exact Hxq|]. intros w Hw. apply noCli_app in Hw. destruct Hw as [Hw0 Hw1].
          apply noCli_app. split; [apply Hxn; exact Hw0|exact Hw1].
  Qed.

  Theorem insert_observers (u : list (aev Sp)) c :
    prun lp_init u = Some c -> observed u -> exists u', lp_valid Sp u' /\ erase u' = erase u.
  Proof.
    intros R H. destruct (insert_observers_coh u c R H) as (u' & c' & R' & _ & E & _).
    exists u'. split; [exists c'; exact R'|exact E].
  Qed.

  Theorem observed_linearizable (u : list (aev Sp)) c :
    prun lp_init u = Some c -> observed u -> linearizable Sp (erase u).
  Proof.
    intros R H. destruct (insert_observers u c R H) as (u' & V & E). rewrite <- E. apply lp_valid_linearizable. exact V.
  Qed.
End Insert.
