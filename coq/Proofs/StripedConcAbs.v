(** * Sequential facts about the bucket table of the StripedSet model: the table as an abstract set of items,
      a bucket operation is the specification step, rehashing preserves the abstract set. *)
From Coq Require Import ZArith List Bool Lia PeanoNat.
From LV Require Import Base.Conc Base.Events Base.Lin Spec.Specs Proofs.LinProofs
     Model.StripingPolicy Model.StripedConc Proofs.StripedConcSpec.
Import ListNotations.
Local Open Scope nat_scope.

(** ** get_b / set_nth_b *)
Lemma set_nth_b_length bs n b : length (set_nth_b bs n b) = length bs.
Proof. revert n; induction bs as [|x r IH]; intros [|n]; cbn; auto. Qed.

Lemma get_set_same bs n b : n < length bs -> get_b (set_nth_b bs n b) n = b.
Proof.
  unfold get_b. revert n; induction bs as [|x r IH]; intros [|n] H; cbn in *; try lia; auto.
  apply IH; lia.
Qed.

Lemma get_set_other bs n m b : n <> m -> get_b (set_nth_b bs n b) m = get_b bs m.
Proof.
  unfold get_b. revert n m; induction bs as [|x r IH]; intros [|n] [|m] H; cbn; auto; try congruence.
Qed.

Lemma get_b_oob bs n : length bs <= n -> get_b bs n = [].
Proof. intros H. unfold get_b. now apply nth_overflow. Qed.

Lemma in_concat_get (bs : list (list item)) x : In x (List.concat bs) <-> exists b, In x (get_b bs b).
Proof.
  rewrite in_concat. split.
  - intros (l & Hl & Hx). apply In_nth with (d := []) in Hl. destruct Hl as (n & _ & E). exists n. unfold get_b. rewrite <- E in Hx. exact Hx.
  - intros (b & Hx). destruct (Nat.lt_ge_cases b (length bs)) as [H|H].
    + exists (get_b bs b). split; auto. unfold get_b. now apply nth_In.
    + rewrite get_b_oob in Hx by exact H. destruct Hx.
Qed.

Lemma get_b_repeat n b : get_b (repeat [] n) b = [].
Proof.
  unfold get_b. revert b; induction n as [|n IH]; intros [|b]; cbn; auto.
Qed.

Lemma nodup_keys_cons k t (l : list item) : khas k l = false -> NoDup (keys l) -> NoDup (keys ((k, t) :: l)).
Proof.
  intros Hno Hnd. unfold keys. simpl map. constructor; auto. intros Hin. apply khas_in_keys in Hin. congruence.
Qed.

Lemma bucket_has_khas k b : bucket_has k b = khas k b.  Proof. reflexivity. Qed.
Lemma bucket_get_kget k b : bucket_get k b = kget k b.  Proof. reflexivity. Qed.
Lemma bucket_del_kdel k b : bucket_del k b = kdel k b.  Proof. reflexivity. Qed.

(** ** the abstraction relation *)
Definition placed (hm m : nat) (bs : list (list item)) : Prop :=
  forall b x, In x (get_b bs b) -> hfun hm (fst x) mod S m = b.
Definition bnodup (bs : list (list item)) : Prop := forall b, NoDup (keys (get_b bs b)).
Definition table_ok (hm m : nat) (bs : list (list item)) : Prop :=
  length bs = S m /\ placed hm m bs /\ bnodup bs.

(** [s] is the abstract set: its items are those of the table plus the items [pend] a resizer still holds *)
Definition absrel (s : list item) (bs : list (list item)) (pend : item -> Prop) : Prop :=
  NoDup (keys s) /\ forall x, In x s <-> (exists b, In x (get_b bs b)) \/ pend x.

Definition nopend : item -> Prop := fun _ => False.

(** correspondence between the codes of the client operations and the specification *)
Definition iop_of_bop (o : bop) (k t : nat) : iop :=
  match o with
  | BInsert => IInsert k t
  | BUpdate allow => IUpdate k t allow
  | BUnlink => IUnlink k t
  | BErase => IErase k
  | BFind => IFind k
  end.

Lemma iop_of_code c k t b bo : op_of_code c b = Some bo -> iop_of c k t b = Some (iop_of_bop bo k t).
Proof.
  unfold op_of_code, iop_of.
  do 15 (destruct c as [|c]; [intros H; inversion H; subst; reflexivity || discriminate|]).
  discriminate.
Qed.

(** the result the harness prints decodes to the result of the bucket operation *)
Definition res_of_bop (o : bop) (r1 r2 : nat) : res :=
  match o with
  | BUpdate _ => RPair (n2b r1) (n2b r2)
  | _ => RBool (n2b r1)
  end.

Lemma res_of_code c k b bo r1 r2 : op_of_code c b = Some bo ->
  res_of c r1 (r2_of_code c k r1 r2) = res_of_bop bo r1 r2.
Proof.
  unfold op_of_code, res_of, r2_of_code.
  do 15 (destruct c as [|c]; [intros H; inversion H; subst; reflexivity || discriminate|]).
  discriminate.
Qed.

(** membership in the bucket of the key decides membership in the abstract set *)
Lemma abs_khas hm m bs s k : table_ok hm m bs -> absrel s bs nopend ->
  khas k s = khas k (get_b bs (hfun hm k mod S m)).
Proof.
  intros (Hl & Hp & Hn) (Hnd & Hs).
  destruct (khas k (get_b bs (hfun hm k mod S m))) eqn:E.
  - apply khas_true in E. destruct E as (o & Hin). apply khas_true. exists o. apply Hs. left; eauto.
  - apply khas_false. intros o Hin. apply Hs in Hin. destruct Hin as [(b & Hb)|[]].
    pose proof (Hp _ _ Hb) as Hb'. cbn in Hb'. subst b.
    rewrite khas_false in E. eapply E; eauto.
Qed.

Lemma abs_kget hm m bs s k : table_ok hm m bs -> absrel s bs nopend ->
  kget k s = kget k (get_b bs (hfun hm k mod S m)).
Proof.
  intros Ht Ha. pose proof Ht as (Hl & Hp & Hn). pose proof Ha as (Hnd & Hs).
  destruct (kget k (get_b bs (hfun hm k mod S m))) as [x|] eqn:E.
  - apply kget_some in E. destruct E as [Hin Hk]. apply kget_unique; auto. apply Hs. left; eauto.
  - apply kget_none. rewrite (abs_khas hm m bs s k Ht Ha). now apply kget_none.
Qed.

(** one step of the specification = the bucket operation on the bucket of the key *)
Lemma bucket_apply_abs hm m bs s bo k t nb r1 r2 :
  table_ok hm m bs -> absrel s bs nopend ->
  bucket_apply bo k t (get_b bs (hfun hm k mod S m)) = (nb, r1, r2) ->
  let b := hfun hm k mod S m in
  snd (istep s (iop_of_bop bo k t)) = res_of_bop bo r1 r2 /\
  table_ok hm m (set_nth_b bs b nb) /\
  absrel (fst (istep s (iop_of_bop bo k t))) (set_nth_b bs b nb) nopend.
Proof.
  intros Ht Ha Hb b. pose proof Ht as (Hl & Hp & Hn). pose proof Ha as (Hnd & Hs).
  assert (Hblt : b < length bs) by (subst b; rewrite Hl; apply Nat.mod_upper_bound; lia).
  assert (Hkh := abs_khas hm m bs s k Ht Ha). assert (Hkg := abs_kget hm m bs s k Ht Ha).
  fold b in Hkh, Hkg, Hb.
  (* generic consequences of replacing bucket b *)
  assert (Tok : forall nb', (forall x, In x nb' -> fst x = k \/ In x (get_b bs b)) -> NoDup (keys nb') ->
                 table_ok hm m (set_nth_b bs b nb')).
  { intros nb' Hsub Hnd'. split; [now rewrite set_nth_b_length|]. split.
    - intros b' x Hx. destruct (Nat.eq_dec b' b) as [->|Hne].
      + rewrite get_set_same in Hx by exact Hblt. destruct (Hsub _ Hx) as [E|Hin]; [rewrite E; reflexivity|now apply Hp].
      + rewrite get_set_other in Hx by auto. now apply Hp.
    - intros b'. destruct (Nat.eq_dec b' b) as [->|Hne].
      + now rewrite get_set_same.
      + rewrite get_set_other by auto. apply Hn. }
  assert (Same : table_ok hm m (set_nth_b bs b (get_b bs b)) /\ absrel s (set_nth_b bs b (get_b bs b)) nopend).
  { split; [apply Tok; auto|]. split; auto. intros x. rewrite Hs. split; intros [(b' & Hx)|[]]; left.
    - exists b'. destruct (Nat.eq_dec b' b) as [->|Hne]; [now rewrite get_set_same|now rewrite get_set_other by auto].
    - exists b'. destruct (Nat.eq_dec b' b) as [->|Hne]; [now rewrite get_set_same in Hx|now rewrite get_set_other in Hx by auto]. }
  assert (Add : khas k (get_b bs b) = false ->
                table_ok hm m (set_nth_b bs b ((k, t) :: get_b bs b)) /\ absrel ((k, t) :: s) (set_nth_b bs b ((k, t) :: get_b bs b)) nopend).
  { intros Hno. split.
    - apply Tok.
      + intros x [<-|Hx]; auto.
      + apply nodup_keys_cons; auto.
    - split.
      + apply nodup_keys_cons; auto. congruence.
      + intros x. cbn. rewrite Hs. split.
        * intros [<-|[(b' & Hx)|[]]]; left.
          -- exists b. rewrite get_set_same by exact Hblt. now left.
          -- exists b'. destruct (Nat.eq_dec b' b) as [->|Hne]; [rewrite get_set_same by exact Hblt; now right|now rewrite get_set_other by auto].
        * intros [(b' & Hx)|[]]. destruct (Nat.eq_dec b' b) as [->|Hne].
          -- rewrite get_set_same in Hx by exact Hblt. destruct Hx as [<-|Hx]; auto. right; left; eauto.
          -- rewrite get_set_other in Hx by auto. right; left; eauto. }
  assert (Del : table_ok hm m (set_nth_b bs b (kdel k (get_b bs b))) /\ absrel (kdel k s) (set_nth_b bs b (kdel k (get_b bs b))) nopend).
  { split.
    - apply Tok.
      + intros x Hx. apply kdel_in in Hx. tauto.
      + apply keys_kdel_nodup. apply Hn.
    - split; [now apply keys_kdel_nodup|].
      intros x. rewrite kdel_in, Hs. split.
      + intros [[(b' & Hx)|[]] Hk]. left. exists b'. destruct (Nat.eq_dec b' b) as [->|Hne].
        * rewrite get_set_same by exact Hblt. apply kdel_in; auto.
        * now rewrite get_set_other by auto.
      + intros [(b' & Hx)|[]]. destruct (Nat.eq_dec b' b) as [->|Hne].
        * rewrite get_set_same in Hx by exact Hblt. apply kdel_in in Hx. destruct Hx; split; auto. left; eauto.
        * rewrite get_set_other in Hx by auto. split; [left; eauto|].
          intros E. apply Hne. rewrite <- (Hp _ _ Hx). unfold b. now rewrite E. }
  destruct bo as [|allow| | |]; cbn [bucket_apply iop_of_bop istep res_of_bop] in *;
    rewrite ?bucket_has_khas, ?bucket_get_kget, ?bucket_del_kdel in Hb.
  - rewrite Hkh. destruct (khas k (get_b bs b)) eqn:E; inversion Hb; subst; cbn [fst snd].
    + split; [reflexivity|exact Same].
    + split; [reflexivity|apply Add; reflexivity].
  - rewrite Hkh. destruct (khas k (get_b bs b)) eqn:E.
    + inversion Hb; subst; cbn [fst snd]. split; [reflexivity|exact Same].
    + destruct allow; inversion Hb; subst; cbn [fst snd].
      * split; [reflexivity|apply Add; reflexivity].
      * split; [reflexivity|exact Same].
  - rewrite Hkg. destruct (kget k (get_b bs b)) as [x|] eqn:E.
    + destruct (Nat.eqb (snd x) t); inversion Hb; subst; cbn [fst snd].
      * split; [reflexivity|exact Del].
      * split; [reflexivity|exact Same].
    + inversion Hb; subst; cbn [fst snd]. split; [reflexivity|exact Same].
  - rewrite Hkh. destruct (khas k (get_b bs b)) eqn:E; inversion Hb; subst; cbn [fst snd].
    + split; [reflexivity|exact Del].
    + split; [reflexivity|exact Same].
  - rewrite Hkh. inversion Hb; subst; cbn [fst snd]. split; [|exact Same].
    destruct (khas k (get_b bs b)); reflexivity.
Qed.

(** the step taken by [a_bucket_op] always succeeds in the spec with this result *)
Lemma istep_pair s o : istep s o = (fst (istep s o), snd (istep s o)).
Proof. destruct (istep s o); reflexivity. Qed.

(** ** rehashing: allocation of the new table and the moves *)
Lemma alloc_table_ok hm n : 0 < n -> table_ok hm (n - 1) (repeat [] n).
Proof.
  intros Hn. split; [rewrite repeat_length; lia|]. split.
  - intros b x Hx. rewrite get_b_repeat in Hx. destruct Hx.
  - intros b. rewrite get_b_repeat. constructor.
Qed.

Lemma alloc_abs (bs : list (list item)) s n : absrel s bs nopend ->
  absrel s (repeat [] n) (fun x => In x (List.concat bs)).
Proof.
  intros (Hnd & Hs). split; auto. intros x. rewrite Hs, in_concat_get. split.
  - intros [H|[]]. now right.
  - intros [(b & Hx)|H]; [rewrite get_b_repeat in Hx; destruct Hx|now left].
Qed.

Lemma move_abs hm m bs s x r : table_ok hm m bs -> absrel s bs (fun y => In y (x :: r)) ->
  let b := hfun hm (fst x) mod S m in
  let old := get_b bs b in
  let new := if bucket_has (fst x) old then old else x :: old in
  table_ok hm m (set_nth_b bs b new) /\ absrel s (set_nth_b bs b new) (fun y => In y r).
Proof.
  intros (Hl & Hp & Hn) (Hnd & Hs) b old new.
  assert (Hblt : b < length bs) by (subst b; rewrite Hl; apply Nat.mod_upper_bound; lia).
  assert (Hxs : In x s) by (apply Hs; right; now left).
  subst new old. rewrite bucket_has_khas.
  destruct (khas (fst x) (get_b bs b)) eqn:E.
  - (* an item with this key is already there: it is x itself *)
    apply khas_true in E. destruct E as (o & Hin).
    assert (Hy : In (fst x, o) s) by (apply Hs; left; exists b; exact Hin).
    assert (x = (fst x, o)).
    { assert (K1 := kget_unique (fst x) s x Hnd Hxs eq_refl).
      assert (K2 := kget_unique (fst x) s (fst x, o) Hnd Hy eq_refl). congruence. }
    split.
    + split; [now rewrite set_nth_b_length|]. split.
      * intros b' y Hy'. destruct (Nat.eq_dec b' b) as [->|Hne]; [rewrite get_set_same in Hy' by exact Hblt|rewrite get_set_other in Hy' by auto]; now apply Hp.
      * intros b'. destruct (Nat.eq_dec b' b) as [->|Hne]; [rewrite get_set_same by exact Hblt|rewrite get_set_other by auto]; apply Hn.
    + split; auto. intros y. rewrite Hs. split.
      * intros [(b' & Hy')|[<-|Hy']]; [left; exists b'|left; exists b|right; exact Hy'].
        -- destruct (Nat.eq_dec b' b) as [->|Hne]; [now rewrite get_set_same|now rewrite get_set_other by auto].
        -- rewrite get_set_same by exact Hblt. rewrite H. exact Hin.
      * intros [(b' & Hy')|Hy']; [left; exists b'|right; now right].
        destruct (Nat.eq_dec b' b) as [->|Hne]; [now rewrite get_set_same in Hy'|now rewrite get_set_other in Hy' by auto].
  - split.
    + split; [now rewrite set_nth_b_length|]. split.
      * intros b' y Hy'. destruct (Nat.eq_dec b' b) as [->|Hne].
        -- rewrite get_set_same in Hy' by exact Hblt. destruct Hy' as [<-|Hy']; [reflexivity|now apply Hp].
        -- rewrite get_set_other in Hy' by auto. now apply Hp.
      * intros b'. destruct (Nat.eq_dec b' b) as [->|Hne].
        -- rewrite get_set_same by exact Hblt. destruct x as [kx ox]. apply nodup_keys_cons; auto.
        -- rewrite get_set_other by auto. apply Hn.
    + split; auto. intros y. rewrite Hs. split.
      * intros [(b' & Hy')|[<-|Hy']]; [left; exists b'|left; exists b|right; exact Hy'].
        -- destruct (Nat.eq_dec b' b) as [->|Hne]; [rewrite get_set_same by exact Hblt; now right|now rewrite get_set_other by auto].
        -- rewrite get_set_same by exact Hblt. now left.
      * intros [(b' & Hy')|Hy']; [|right; now right].
        destruct (Nat.eq_dec b' b) as [->|Hne].
        -- rewrite get_set_same in Hy' by exact Hblt. destruct Hy' as [<-|Hy']; [right; now left|left; eauto].
        -- rewrite get_set_other in Hy' by auto. left; eauto.
Qed.

Lemma move_table_ok hm m bs (x : item) : table_ok hm m bs ->
  let b := hfun hm (fst x) mod S m in
  let old := get_b bs b in
  let new := if bucket_has (fst x) old then old else x :: old in
  table_ok hm m (set_nth_b bs b new).
Proof.
  intros (Hl & Hp & Hn) b old new.
  assert (Hblt : b < length bs) by (subst b; rewrite Hl; apply Nat.mod_upper_bound; lia).
  subst new old. rewrite bucket_has_khas.
  split; [now rewrite set_nth_b_length|]. split.
  - intros b' y Hy'. destruct (Nat.eq_dec b' b) as [->|Hne].
    + rewrite get_set_same in Hy' by exact Hblt. destruct (khas (fst x) (get_b bs b)); [now apply Hp|].
      destruct Hy' as [<-|Hy']; [reflexivity|now apply Hp].
    + rewrite get_set_other in Hy' by auto. now apply Hp.
  - intros b'. destruct (Nat.eq_dec b' b) as [->|Hne].
    + rewrite get_set_same by exact Hblt. destruct (khas (fst x) (get_b bs b)) eqn:E; [apply Hn|].
      destruct x as [kx ox]. apply nodup_keys_cons; auto.
    + rewrite get_set_other by auto. apply Hn.
Qed.

(** ** arithmetic of lock striping: the bucket of a hash belongs to the stripe of the hash *)
Lemma stripe_of_bucket h nl e : 0 < nl -> 0 < e -> (h mod (nl * e)) mod nl = h mod nl.
Proof.
  intros Hn He. rewrite Nat.mod_mul_r by lia.
  rewrite (Nat.mul_comm nl). rewrite Nat.mod_add by lia. apply Nat.mod_mod. lia.
Qed.
