(** * EllenFull (fork of EllenDelProg.v for the invariant of EllenFullInv.v).  New: the search lemmas
    ([T_ga_protect_child], [T_protect_child], [T_srch]) hand the witness [FSeen] of the returned leaf to their
    continuation; insert -> false / erase -> false / contains use it ([Rd]) at their response. *)
(** * EllenBinTree<HP> with erase: the functions of the model (search, insert, erase, contains) preserve [DInv] *)
From Coq Require Import ZArith List String Bool Lia PeanoNat.
From LV Require Import Base.Conc Base.Events Base.Lin Spec.Specs Proofs.LinProofs.
From LV Require Import Model.Ellen Proofs.EllenProofs Proofs.EllenDelBase Proofs.EllenFullInv Proofs.EllenFullSteps Proofs.EllenFullCas Proofs.EllenFullOps.
Import ListNotations.
Local Open Scope Z_scope.

Lemma In_hrep op h0 h' l : In h0 l -> hop h0 = op -> In h' (hrep op h' l).
Proof. intros H E. unfold hrep. apply in_map_iff. exists h0. split; [|exact H]. rewrite E, Nat.eqb_refl. reflexivity. Qed.

Section Prog.
Variable keys : list nat.
Notation DSAFE := (DSAFE keys).
Notation DSm := (DSm keys).

Ltac qo := first [apply q_begin|apply q_ld_flags|apply q_ld_child|apply q_ld_upd|apply q_faa_cnt|apply q_fas_cnt|apply q_guard_st|apply q_guard_ld|apply q_sync|apply q_ret_ld|apply q_ret_st].
Ltac oo := first [apply o_begin|apply o_ld_flags|apply o_ld_child|apply o_ld_upd|apply o_faa_cnt|apply o_fas_cnt|apply o_guard_st|apply o_guard_ld|apply o_sync|apply o_ret_ld|apply o_ret_st].
Ltac snx := apply Sm_nx; [qo|oo|intros ?].

Lemma D_absurd {R} t f (k : V -> prog R) lv : (forall g a, DS g a -> view a t = lv -> False) -> DSAFE t (Act f k) lv.
Proof. intros H. apply D_act. intros g a tr [Hs _] Hv. exfalso. eauto. Qed.

Definition tlk (t : nat) (lv : dview) (s : TL) : Prop := tid s = t /\ (cser (wc lv) <= ser s)%nat.
Lemma tlk_vle t lv lv1 s : vle lv lv1 -> tlk t lv s -> tlk t lv1 s.
Proof. intros [_ E] [H1 H2]. split; [exact H1|rewrite E; exact H2]. Qed.
Lemma tlk_alloc1 t lv s x s1 : alloc1 s = (x, s1) -> tlk t lv s -> tlk t lv s1.
Proof. unfold alloc1. destruct (fl s); intros E H; inversion E; subst; exact H. Qed.
Lemma tlk_allocn t lv : forall n s xs s1, allocn n s = (xs, s1) -> tlk t lv s -> tlk t lv s1.
Proof.
  induction n as [|n IH]; intros s xs s1 E H; cbn [allocn] in E; [inversion E; subst; exact H|].
  destruct (alloc1 s) as [x s'] eqn:Ea. destruct (allocn n s') as [ys s2] eqn:En. inversion E; subst.
  eapply IH; [exact En|]. eapply tlk_alloc1; eauto.
Qed.
Lemma alloc1_tid s x s1 : alloc1 s = (x, s1) -> tid s1 = tid s /\ ser s1 = ser s.
Proof. unfold alloc1. destruct (fl s); intros E; inversion E; subst; auto. Qed.

Lemma Sm_assign {R} t s slot (k : prog R) lv : DSm t k lv -> DSm t (g_assign s slot k) lv.
Proof. intros H. unfold g_assign. snx. snx. exact H. Qed.
Lemma Sm_clear {R} t s slot (k : prog R) lv : DSm t k lv -> DSm t (g_clear s slot k) lv.
Proof. intros H. unfold g_clear. snx. exact H. Qed.
Lemma Sm_copy {R} t s a b (k : prog R) lv : DSm t k lv -> DSm t (g_copy s a b k) lv.
Proof. intros H. unfold g_copy. snx. snx. snx. exact H. Qed.
Lemma Sm_retire {R} t s (k : prog R) lv : DSm t k lv -> DSm t (retire s k) lv.
Proof. intros H. unfold retire. snx. snx. exact H. Qed.
Lemma Sm_free_all {R} t slots : forall s (k : TL -> prog R) lv,
  tlk t lv s -> (forall s', tlk t lv s' -> DSm t (k s') lv) -> DSm t (g_free_all s slots k) lv.
Proof.
  induction slots as [|x r IH]; intros s k lv Ht H; cbn [g_free_all]; [now apply H|]. apply Sm_clear. apply IH; [exact Ht|exact H].
Qed.

Lemma T_ga_protect_upd {R} t fuel : forall s slot p (k : option uword -> prog R) lv,
  pubk lv p ->
  (forall lv1, vle lv lv1 -> DSm t (k None) lv1) ->
  (forall up lv1, vle lv lv1 -> In (FAv p up) (wf lv1) -> DSm t (k (Some up)) lv1) ->
  DSm t (ga_protect_upd fuel s slot p k) lv.
Proof.
  induction fuel as [|f IH]; intros s slot p k lv Hp H0 H; cbn [ga_protect_upd]; [apply H0, vle_refl|].
  apply Sm_ld_upd; [exact Hp|]. intros w1 lv1 V1 I1. snx. snx. snx. cbn [vw].
  destruct (u_eqb w1 (vw v1)); [now apply H|]. apply IH; [eapply pubk_mono; eauto| |].
  - intros lv2 V2. apply H0. eapply vle_trans; eauto.
  - intros up lv2 V2. apply H. eapply vle_trans; eauto.
Qed.

(** [c] was read as the child of [p] in the direction [rl] of [k0], while the update word of [p] was [updp] *)
Definition Pinfo (lv : dview) (k0 : Z) (p : ptr) (updp : uword) (rl : bool) (c : ptr) : Prop :=
  kpath lv k0 p /\ In (FEv k0 c) (wf lv) /\
  (exists fp kp, In (FFl p fp kp) (wf lv) /\ is_internal_f fp = true /\ rl = (0 <=? cmp_node k0 fp kp)) /\
  In (FCl p updp rl c) (wf lv) /\ (p = root -> In (FRc c) (wf lv)).
Lemma Pinfo_mono lv lv1 k0 p u rl c : vle lv lv1 -> Pinfo lv k0 p u rl c -> Pinfo lv1 k0 p u rl c.
Proof.
  intros V (A & B & (fp & kp & C1 & C2 & C3) & D & E). split; [eapply kpath_mono; eauto|]. split; [eapply vle_in; eauto|].
  split; [exists fp, kp; split; [eapply vle_in; eauto|auto]|]. split; [eapply vle_in; eauto|]. intros X. eapply vle_in; eauto.
Qed.

Lemma T_ga_protect_child {R} t n fuel : forall s slot k0 pp fp kp up (k : option ptr -> prog R) lv,
  fst (cx (wc lv)) = n ->
  kpath lv k0 pp -> In (FFl pp fp kp) (wf lv) -> is_internal_f fp = true -> In (FAv pp up) (wf lv) ->
  (forall lv1, vle lv lv1 -> DSm t (k None) lv1) ->
  (forall c lv1, vle lv lv1 -> c <> root -> Pinfo lv1 k0 pp up (0 <=? cmp_node k0 fp kp) c -> In (FSn t n k0 pp c) (wf lv1) -> DSm t (k (Some c)) lv1) ->
  DSm t (ga_protect_child fuel s slot pp (0 <=? cmp_node k0 fp kp) k) lv.
Proof.
  induction fuel as [|f IH]; intros s slot k0 pp fp kp up k lv Hn H1 H2 H3 H4 H0 Hk; cbn [ga_protect_child]; [apply H0, vle_refl|].
  apply (Sm_ld_child_s keys t n k0 pp fp kp up); auto. intros c1 lv1 V1 N1 I1 I2 Isn I3. snx. snx.
  assert (Hn1 : fst (cx (wc lv1)) = n) by (destruct V1 as [_ E]; rewrite E; exact Hn).
  apply (Sm_ld_child_s keys t n k0 pp fp kp up); [exact Hn1|eapply kpath_mono; eauto|eapply vle_in; eauto|exact H3|eapply vle_in; eauto|].
  intros c2 lv2 V2 N2 _ _ _ _. cbn [vptr]. assert (V02 : vle lv lv2) by (eapply vle_trans; eauto).
  destruct (Nat.eqb c1 c2).
  - apply Hk; [exact V02|exact N1| |exact (vle_in _ _ _ V2 Isn)]. apply (Pinfo_mono lv1 lv2); [exact V2|].
    refine (conj (kpath_mono _ _ _ _ V1 H1) (conj I1 (conj _ (conj I2 I3)))). exists fp, kp. split; [eapply vle_in; eauto|auto].
  - apply (IH s slot k0 pp fp kp up k lv2); [destruct V02 as [_ E]; rewrite E; exact Hn|eapply kpath_mono; eauto|eapply vle_in; eauto|exact H3|eapply vle_in; eauto| |].
    + intros lv3 V3. apply H0. eapply vle_trans; eauto.
    + intros c lv3 V3. apply Hk. eapply vle_trans; eauto.
Qed.

Lemma T_protect_child {R} t n fuel : forall s slots k0 pp fp kp up (k : option ptr -> prog R) kf lv,
  fst (cx (wc lv)) = n -> snd up <> 3%nat ->
  kpath lv k0 pp -> In (FFl pp fp kp) (wf lv) -> is_internal_f fp = true -> In (FAv pp up) (wf lv) ->
  (forall lv1, vle lv lv1 -> DSm t (k None) lv1) ->
  (forall c lv1, vle lv lv1 -> c <> root -> Pinfo lv1 k0 pp up (0 <=? cmp_node k0 fp kp) c -> In (FSeen t n k0 c) (wf lv1) -> DSm t (k (Some c)) lv1) ->
  (forall lv1, vle lv lv1 -> DSm t kf lv1) ->
  DSm t (protect_child fuel s slots pp (0 <=? cmp_node k0 fp kp) up k kf) lv.
Proof.
  induction fuel as [|f IH]; intros s slots k0 pp fp kp up k kf lv Hn Hup H1 H2 H3 H4 H0 Hk Hf; cbn [protect_child]; [apply Hf, vle_refl|].
  apply (T_ga_protect_child t n (S f) s _ k0 pp fp kp up); auto. intros c lv1 V1 Nc Ic Isn.
  assert (Hn1 : fst (cx (wc lv1)) = n) by (destruct V1 as [_ E]; rewrite E; exact Hn).
  apply (T_ga_protect_child t n (S f) s _ k0 pp fp kp up); [exact Hn1|eapply kpath_mono; eauto|eapply vle_in; eauto|exact H3|eapply vle_in; eauto|intros; apply Hf; eapply vle_trans; eauto|].
  intros cv lv2 V2 _ _ _. assert (V02 : vle lv lv2) by (eapply vle_trans; eauto).
  apply (Sm_ld_upd_seen keys t n k0 pp c); [exact (vle_in _ _ _ V2 Isn)|]. intros w lv2' V2' Hseen.
  assert (V02' : vle lv lv2') by (eapply vle_trans; eauto). assert (V12' : vle lv1 lv2') by (eapply vle_trans; eauto).
  cbn [vw]. destruct (u_eqb w up) eqn:Ew; cbn [negb]; [|now apply H0].
  assert (Ew' : w = up) by (unfold u_eqb in Ew; apply andb_true_iff in Ew; destruct Ew as [X1 X2]; apply Nat.eqb_eq in X1, X2; destruct w, up; cbn in *; congruence).
  assert (Hs2 : In (FSeen t n k0 c) (wf lv2')) by (apply Hseen; rewrite Ew'; exact Hup).
  destruct (negb (Nat.eqb c cv)).
  { apply (IH s slots k0 pp fp kp up k kf lv2'); [destruct V02' as [_ E]; rewrite E; exact Hn|exact Hup|exact (kpath_mono _ _ _ _ V02' H1)|exact (vle_in _ _ _ V02' H2)|exact H3|exact (vle_in _ _ _ V02' H4)| | |].
    - intros lv3 V3. apply H0. eapply vle_trans; eauto.
    - intros c' lv3 V3. apply Hk. eapply vle_trans; eauto.
    - intros lv3 V3. apply Hf. eapply vle_trans; eauto. }
  assert (Ic2 : Pinfo lv2' k0 pp up (0 <=? cmp_node k0 fp kp) c) by (exact (Pinfo_mono _ _ _ _ _ _ _ V12' Ic)).
  destruct (Nat.eqb c null); [apply Sm_clear; apply Hk; [exact V02'|exact Nc|exact Ic2|exact Hs2]|].
  apply Sm_ld_flags; [right; exists k0; apply Ic2|]. intros fc kc lv3 V3 _ _ _ _. assert (V03 : vle lv lv3) by (eapply vle_trans; eauto).
  assert (Ic3 : Pinfo lv3 k0 pp up (0 <=? cmp_node k0 fp kp) c) by (exact (Pinfo_mono _ _ _ _ _ _ _ V3 Ic2)).
  assert (Hs3 : In (FSeen t n k0 c) (wf lv3)) by (exact (vle_in _ _ _ V3 Hs2)).
  cbn [Ellen.vfl]. destruct (is_internal_f fc); [apply Sm_clear|apply Sm_assign, Sm_clear]; (apply Hk; [exact V03|exact Nc|exact Ic3|exact Hs3]).
Qed.

(** state of the descent of search *)
Definition GPinfo (lv : dview) (k0 : Z) (gp p : ptr) (updgp : uword) (rp : bool) : Prop :=
  (gp = null /\ p = root) \/ (gp <> null /\ p <> root /\ Pinfo lv k0 gp updgp rp p).
Lemma GPinfo_mono lv lv1 k0 gp p u rp : vle lv lv1 -> GPinfo lv k0 gp p u rp -> GPinfo lv1 k0 gp p u rp.
Proof. intros V [H|(A & B & C)]; [now left|right]. split; [exact A|]. split; [exact B|]. eapply Pinfo_mono; eauto. Qed.

Definition Jst (lv : dview) (k0 : Z) (st : sst) : Prop :=
  (x_leaf st = root /\ x_p st = null) \/
  (x_leaf st <> root /\ x_p st <> null /\ Pinfo lv k0 (x_p st) (x_updp st) (x_rl st) (x_leaf st) /\
   GPinfo lv k0 (x_gp st) (x_p st) (x_updgp st) (x_rp st)).

Definition RS (lv : dview) (k0 : Z) (r : sres) (found : bool) : Prop :=
  Pinfo lv k0 (r_p r) (r_updp r) (r_rl r) (r_leaf r) /\ r_leaf r <> root /\
  (exists f0 kl, In (FFl (r_leaf r) f0 kl) (wf lv) /\ is_internal_f f0 = false /\ found = (cmp_node k0 f0 (lkey (r_leaf r)) =? 0)) /\
  GPinfo lv k0 (r_gp r) (r_p r) (r_updgp r) (r_rp r).

Lemma RS_mono lv lv1 k0 r fd : vle lv lv1 -> RS lv k0 r fd -> RS lv1 k0 r fd.
Proof.
  intros V (A & B & (f0 & kl & C1 & C2 & C3) & D). split; [eapply Pinfo_mono; eauto|]. split; [exact B|].
  split; [exists f0, kl; split; [eapply vle_in; eauto|auto]|eapply GPinfo_mono; eauto].
Qed.
Lemma Jst_mono lv lv1 k0 st : vle lv lv1 -> Jst lv k0 st -> Jst lv1 k0 st.
Proof.
  intros V [H|(A & B & C & D)]; [now left|right]. split; [exact A|]. split; [exact B|]. split; [eapply Pinfo_mono; eauto|eapply GPinfo_mono; eauto].
Qed.
Lemma Jst0 lv k0 : Jst lv k0 st0.
Proof. left. split; reflexivity. Qed.

Lemma T_srch {R} t n fuel : forall s slots k0 st (k : sres -> bool -> prog R) kf lv,
  fst (cx (wc lv)) = n ->
  Jst lv k0 st -> (x_leaf st = root \/ In (FSeen t n k0 (x_leaf st)) (wf lv)) ->
  (forall r found lv1, vle lv lv1 -> RS lv1 k0 r found -> In (FSeen t n k0 (r_leaf r)) (wf lv1) -> DSm t (k r found) lv1) ->
  (forall lv1, vle lv lv1 -> DSm t kf lv1) ->
  DSm t (srch fuel s slots k0 st k kf) lv.
Proof.
  induction fuel as [|f IH]; intros s slots k0 st k kf lv Hn HJ HSn Hk Hf; cbn [srch]; [apply Hf, vle_refl|].
  assert (Hnv : forall lvx, vle lv lvx -> fst (cx (wc lvx)) = n) by (intros lvx [_ E]; rewrite E; exact Hn).
  assert (Hkn : pubk lv (x_leaf st)).
  { destruct HJ as [(E & _)|(_ & _ & (_ & A1 & _) & _)]; [left; exact E|right; eauto]. }
  apply Sm_ld_flags; [exact Hkn|]. intros f1 key1 lv1 V1 I1 F0 F5 _. cbn [Ellen.vfl].
  assert (HJ1 : Jst lv1 k0 st) by (eapply Jst_mono; eauto).
  destruct (is_internal_f f1) eqn:Ei1.
  - apply Sm_copy, Sm_copy, Sm_copy. cbv zeta. set (pp := x_leaf st).
    assert (Hretry : forall lv2, vle lv1 lv2 -> DSm t (srch f s slots k0 (st_retry (x_p st) (x_updp st) (x_rl st)) k kf) lv2).
    { intros lv2 V2. apply IH.
      - apply Hnv. eapply vle_trans; eauto.
      - left. split; reflexivity.
      - left. reflexivity.
      - intros r found lv3 V3. apply Hk. eapply vle_trans; [exact V1|]. eapply vle_trans; eauto.
      - intros lv3 V3. apply Hf. eapply vle_trans; [exact V1|]. eapply vle_trans; eauto. }
    apply T_ga_protect_upd; [eapply pubk_mono; eauto|intros lv2 V2; apply Hf; eapply vle_trans; eauto|].
    intros up lv2 V2 Iup.
    destruct (Nat.eqb (snd up) 1 || Nat.eqb (snd up) 3) eqn:Eup; [now apply Hretry|].
    assert (Hup3 : snd up <> 3%nat) by (apply orb_false_iff in Eup; destruct Eup as [_ X]; now apply Nat.eqb_neq in X).
    assert (Hkn2 : pubk lv2 pp) by (eapply pubk_mono; [|exact Hkn]; eapply vle_trans; eauto).
    apply Sm_ld_flags; [exact Hkn2|]. intros f2 key2 lv3 V3 I3 _ _ Fc. cbn [Ellen.vfl vkey].
    assert (V13 : vle lv1 lv3) by (eapply vle_trans; eauto).
    assert (E21 : f1 = f2) by (apply (Fc f1 key1); eapply vle_in; eauto).
    assert (Hpp : kpath lv3 k0 pp).
    { destruct HJ as [(E & _)|(_ & _ & (_ & A1 & _) & _)]; [left; exact E|right; eapply vle_in; [|exact A1]; eapply vle_trans; eauto]. }
    assert (Hppn : pp <> null) by (intros E; specialize (F0 E); subst f1; discriminate).
    apply (T_protect_child t n (S f) s slots k0 pp f2 key2 up); [apply Hnv; eapply vle_trans; eauto|exact Hup3|exact Hpp|exact I3|congruence|exact (vle_in _ _ _ V3 Iup)| | |].
    + intros lv4 V4. apply Hretry. eapply vle_trans; eauto.
    + intros c lv4 V4 Nc Ic Isc. assert (V04 : vle lv lv4) by (eapply vle_trans; [exact V1|]; eapply vle_trans; [exact V13|exact V4]). apply IH.
      * now apply Hnv.
      * right. cbn [x_leaf x_p x_gp x_updp x_updgp x_rl x_rp]. split; [exact Nc|]. split; [exact Hppn|]. split; [exact Ic|].
        destruct HJ as [(E1 & E2)|(A1 & A2 & A3 & A4)].
        -- left. split; [exact E2|exact E1].
        -- right. split; [exact A2|]. split; [exact A1|]. eapply Pinfo_mono; eauto.
      * right. exact Isc.
      * intros r found lv5 V5. apply Hk. eapply vle_trans; [exact V1|]. eapply vle_trans; [exact V13|]. eapply vle_trans; eauto.
      * intros lv5 V5. apply Hf. eapply vle_trans; [exact V1|]. eapply vle_trans; [exact V13|]. eapply vle_trans; eauto.
    + intros lv4 V4. apply Hf. eapply vle_trans; [exact V1|]. eapply vle_trans; eauto.
  - apply Sm_ld_flags; [eapply pubk_mono; eauto|]. intros f2 key2 lv2 V2 I2 _ _ Fc. cbn [Ellen.vfl].
    assert (E21 : f1 = f2) by (apply (Fc f1 key1); exact I1).
    assert (V02 : vle lv lv2) by (eapply vle_trans; eauto).
    destruct HJ as [(E & _)|(A1 & A2 & A3 & A4)].
    { specialize (F5 E). subst f1. discriminate. }
    destruct HSn as [E|HSn]; [contradiction|].
    apply Hk; [exact V02| |cbn [r_leaf]; eapply vle_in; eauto].
    unfold RS. cbn [r_p r_leaf r_rl r_gp r_updp r_updgp r_rp]. split; [eapply Pinfo_mono; eauto|]. split; [exact A1|].
    split; [exists f2, key2; split; [exact I2|split; [congruence|reflexivity]]|eapply GPinfo_mono; eauto].
Qed.

Lemma Rd_of_RS t lv o r found :
  RS lv (MF.op_key o) r found -> In (FSeen t (fst (cx (wc lv))) (MF.op_key o) (r_leaf r)) (wf lv) -> Rd t lv o found.
Proof. intros (_ & _ & (f0 & kl & C1 & C2 & C3) & _) Hs. exists (r_leaf r), f0, kl. auto. Qed.

(** ** insert *)
Definition ni_ok (lv : dview) (ni : ptr) : Prop := exists fn key l r, cni (wc lv) = Some (ni, fn, key, l, r) /\ (fn = 1 \/ fn = 3).

Lemma uw_eta (w : uword) : snd w = 0%nat -> (fst w, 0%nat) = w.
Proof. destruct w; cbn; intros ->; reflexivity. Qed.

Lemma T_try_insert {R} t s k0 leaf ni r (k : TL -> bool -> prog R) lv :
  (t < 64)%nat -> tlk t lv s -> 0 <= k0 < 8 -> RS lv k0 r false -> snd (r_updp r) = 0%nat ->
  cleaf (wc lv) = Some leaf -> lkey leaf = k0 -> ni_ok lv ni -> cst (wc lv) = @Pending SetSpec (SInsert k0) ->
  (forall s' lv1, tlk t lv1 s' -> cleaf (wc lv1) = Some leaf -> ni_ok lv1 ni -> cst (wc lv1) = @Pending SetSpec (SInsert k0) -> DSm t (k s' false) lv1) ->
  (forall s' lv1, tlk t lv1 s' -> cst (wc lv1) = @Linearized SetSpec (SInsert k0) (RBool true) -> DSm t (k s' true) lv1) ->
  DSm t (try_insert s k0 leaf ni r k) lv.
Proof.
  intros Hlt Ht Hk0 HRS Hcl Hleaf Hlk (fn & keyn & ca & cb & Hni & Hfn) Hst Hkf Hkt. unfold try_insert.
  destruct HRS as ((Hp & Hl & (fp & kp & P1 & P2 & P3) & Hfc & Hrc) & Nlr & (f0s & kls & L1 & L2 & L3) & GP).
  destruct r as [xgp xp xleaf xupdp xupdgp xrp xrl]. cbn [r_gp r_p r_leaf r_updp r_updgp r_rp r_rl] in *. subst xrl.
  snx.
  destruct (negb (Nat.eqb (vptr v) xleaf)).
  { apply (Hkf s lv); auto. exists fn, keyn, ca, cb; auto. }
  apply Sm_ld_flags; [right; exists k0; exact Hl|]. intros f0 kl lv2 V2 I2 _ _ Fc. cbn [Ellen.vfl].
  pose proof V2 as [V2i V2c].
  assert (Ef0 : f0s = f0) by (apply (Fc f0s kls); exact L1).
  assert (Hni2 : cni (wc lv2) = Some (ni, fn, keyn, ca, cb)) by (rewrite V2c; exact Hni).
  set (ncmp := cmp_node k0 f0 (lkey xleaf)).
  assert (Hnz : (ncmp =? 0) = false) by (unfold ncmp; rewrite <- Ef0; symmetry; exact L3).
  assert (Hrest : forall fn' keyn' a' b' lv3, incl (wf lv2) (wf lv3) ->
            wc lv3 = mkC (cleaf (wc lv)) (Some (ni, fn', keyn', a', b')) (chs (wc lv)) (cser (wc lv)) (cst (wc lv)) (cx (wc lv)) ->
            (fn' = 1 \/ fn' = 3) -> ins_shape k0 xp xleaf f0 leaf fn' keyn' a' b' ->
            DSm t (let (g, s1) := alloc1 s in
                     let (op, s2) := new_obj s1 2 0 in
                     g_assign s2 g
                       (Act (a_cas_upd xp (fst xupdp, 0%nat) (op, 2%nat)) (fun c0 =>
                          if vok c0 then help_insert (mkS xgp xp xleaf xupdp xupdgp xrp (0 <=? cmp_node k0 fp kp)) ni op (retire s2 (g_clear s2 g (k (free1 g s2) true)))
                          else g_clear s2 g (k (free1 g s2) false)))) lv3).
  { intros fn' keyn' a' b' lv3 Vi Ec Hfn3 Hshape.
    assert (In3 : forall f, In f (wf lv) -> In f (wf lv3)) by (intros f Hf; apply Vi, V2i, Hf).
    destruct (alloc1 s) as [g s1] eqn:Ea. unfold new_obj. destruct (alloc1_tid _ _ _ Ea) as [Et Es]. destruct Ht as [Ht1 Ht2].
    set (op := mk_id (tid s1) (ser s1) 2 0). set (s2 := mkTL (tid s1) (fl s1) (S (ser s1))).
    assert (Hop1 : (4 <= op)%nat) by apply mk_id_ge.
    assert (Hop2 : owner_of op = t) by (unfold op; rewrite Et, Ht1; apply mk_id_owner; lia).
    assert (Hop3 : ser_of op = ser s1) by (unfold op; rewrite Et, Ht1; apply mk_id_ser; lia).
    apply Sm_assign.
    apply (Sm_cas_flag keys t xp xupdp op 2 [(0 <=? cmp_node k0 fp kp, xleaf)]); auto.
    - destruct Hp as [E|E]; [left; exact E|right; exists k0; now apply In3].
    - exists fp, kp. split; [now apply In3|exact P2].
    - rewrite Ec. cbn [cser]. lia.
    - intros d c [E|[]]. inversion E; subst. now apply In3.
    - intros cur. cbn [vok]. apply Sm_clear. apply Hkf.
      + split; [cbn [free1 tid s2]; congruence|]. rewrite Ec. cbn [cser free1 ser s2]. lia.
      + rewrite Ec. exact Hleaf.
      + exists fn', keyn', a', b'. rewrite Ec. auto.
      + rewrite Ec. exact Hst.
    - cbn [vok]. unfold help_insert. cbn [r_p r_rl r_leaf].
      set (h0 := mkH xp op 2 None None [(0 <=? cmp_node k0 fp kp, xleaf)]).
      apply (Sm_cas_child_ins keys t k0 xp fp kp xleaf f0 kl ni fn' keyn' a' b' leaf op [(0 <=? cmp_node k0 fp kp, xleaf)]); cbn [wf wc cni cleaf chs cst].
      + exact Hk0.
      + destruct Hp as [E|E]; [left; exact E|right; now apply In3].
      + now apply In3.
      + exact P2.
      + now apply Vi.
      + rewrite <- Ef0. exact L2.
      + rewrite Ec. reflexivity.
      + rewrite Ec. exact Hleaf.
      + exact Hlk.
      + exact Hshape.
      + now left.
      + now left.
      + rewrite Ec. exact Hst.
      + rewrite Ec. cbn [chs cser]. set (h1 := mkH xp op 2 None None []).
        eapply (Sm_faa_emp keys t xp op 2 None []); cbn [wf wc chs].
        * apply (In_hrep op h0); [now left|reflexivity].
        * intros n. cbn [vn]. eapply (Sm_cas_unflag keys t xp op 2 n None []); unfold set_chs; cbn [wf wc chs cleaf cni cser cst].
          -- apply (In_hrep op h1); [apply (In_hrep op h0); [now left|reflexivity]|reflexivity].
          -- apply Sm_retire, Sm_clear. apply Hkt; [|reflexivity]. split; [cbn [free1 tid s2]; congruence|]. cbn [wc cser free1 ser s2]. lia. }
  assert (Hstep : forall inf key' x y,
            (ins_shape k0 xp xleaf f0 leaf (Z.lor 1 inf) key' x y) -> (inf = 0 \/ inf = 2) ->
            DSm t (set_inf ni inf (Act (a_st_left_key ni key' x) (fun _ => Act (a_st_right ni y) (fun _ =>
                     let (g, s1) := alloc1 s in
                     let (op, s2) := new_obj s1 2 0 in
                     g_assign s2 g
                       (Act (a_cas_upd xp (fst xupdp, 0%nat) (op, 2%nat)) (fun c0 =>
                          if vok c0 then help_insert (mkS xgp xp xleaf xupdp xupdgp xrp (0 <=? cmp_node k0 fp kp)) ni op (retire s2 (g_clear s2 g (k (free1 g s2) true)))
                          else g_clear s2 g (k (free1 g s2) false))))))) lv2).
  { intros inf key' x y Hshape Hinf. unfold set_inf.
    apply (Sm_ld_flags_own keys t ni fn keyn ca cb); [exact Hni2|]. cbn [Ellen.vfl]. rewrite (lor_land_fn fn inf Hfn).
    eapply (Sm_own_ni keys t _ _ lv2 ni fn keyn ca cb (Z.lor 1 inf) keyn ca cb); [apply o_st_flags|apply os_st_flags|exact Hni2| |].
    { intros g E1 E2 E3 E4. cbn [a_st_flags fst snd flags ikey lft rgt]. unfold upd1. rewrite Nat.eqb_refl. auto. }
    intros _. set (lv3 := set_ni lv2 (Some (ni, Z.lor 1 inf, keyn, ca, cb))).
    eapply (Sm_own_ni keys t _ _ lv3 ni (Z.lor 1 inf) keyn ca cb (Z.lor 1 inf) key' x cb); [apply o_st_left_key|apply os_st_left_key|reflexivity| |].
    { intros g E1 E2 E3 E4. cbn [a_st_left_key fst snd flags ikey lft rgt]. unfold upd1. rewrite Nat.eqb_refl. auto. }
    intros _. set (lv4 := set_ni lv3 (Some (ni, Z.lor 1 inf, key', x, cb))).
    eapply (Sm_own_ni keys t _ _ lv4 ni (Z.lor 1 inf) key' x cb (Z.lor 1 inf) key' x y); [apply o_st_right|apply os_st_right|reflexivity| |].
    { intros g E1 E2 E3 E4. cbn [a_st_right set_child fst snd flags ikey lft rgt]. unfold upd1. rewrite Nat.eqb_refl. auto. }
    intros _. apply (Hrest (Z.lor 1 inf) key' x y); auto.
    - cbn. apply incl_refl.
    - cbn [set_ni lv4 lv3 wc cleaf cni chs cser cst]. rewrite V2c. reflexivity.
    - destruct Hinf as [->| ->]; [left|right]; reflexivity. }
  destruct (Z.ltb_spec ncmp 0) as [Hc|Hc].
  - destruct (Nat.eqb_spec xgp null) as [Eg|Ng]; cbn [negb].
    + apply (Hstep 2 0 leaf xleaf); [|now right]. left. fold ncmp. split; [exact Hc|]. split; [reflexivity|]. split; [reflexivity|].
      right. split; [|reflexivity]. destruct GP as [(_ & E)|(N & _)]; [exact E|contradiction].
    + apply (Hstep 0 (lkey xleaf) leaf xleaf); [|now left]. left. fold ncmp. split; [exact Hc|]. split; [reflexivity|]. split; [reflexivity|].
      left. split; [|split; reflexivity]. destruct GP as [(E & _)|(_ & N & _)]; [contradiction|exact N].
  - apply (Hstep 0 k0 xleaf leaf); [|now left]. right. fold ncmp. apply Z.eqb_neq in Hnz. split; [lia|]. repeat split; reflexivity.
Qed.

Lemma clean_spec r : clean r = true -> snd (r_updgp r) = 0%nat /\ snd (r_updp r) = 0%nat.
Proof. unfold clean. rewrite andb_true_iff, !Nat.eqb_eq. auto. Qed.

Lemma T_insert_loop {R} t fuel : forall s k0 leaf slots ni (k : TL -> bool -> prog R) kf lv,
  (t < 64)%nat -> tlk t lv s -> 0 <= k0 < 8 -> cleaf (wc lv) = Some leaf -> lkey leaf = k0 ->
  match ni with Some n => ni_ok lv n | None => True end -> cst (wc lv) = @Pending SetSpec (SInsert k0) ->
  (forall s' lv1, tlk t lv1 s' -> cst (wc lv1) = @Pending SetSpec (SInsert k0) -> Rd t lv1 (SInsert k0) true -> DSm t (k s' false) lv1) ->
  (forall s' lv1, tlk t lv1 s' -> cst (wc lv1) = @Linearized SetSpec (SInsert k0) (RBool true) -> DSm t (k s' true) lv1) ->
  (forall s' lv1, tlk t lv1 s' -> DSm t (kf s') lv1) ->
  DSm t (insert_loop fuel s k0 leaf slots ni k kf) lv.
Proof.
  induction fuel as [|f IH]; intros s k0 leaf slots ni k kf lv Hlt Ht Hk0 Hleaf Hlk Hni Hst Hk0f Hk1 Hf; cbn [insert_loop]; [now apply Hf|].
  apply (T_srch t (fst (cx (wc lv)))); [reflexivity|apply Jst0|left; reflexivity| |intros lv1 V; apply Hf; eapply tlk_vle; eauto].
  intros r found lv1 V HRS HSeen. pose proof V as [_ Vc]. assert (Ht1 : tlk t lv1 s) by (eapply tlk_vle; eauto).
  assert (Hleaf1 : cleaf (wc lv1) = Some leaf) by (rewrite Vc; exact Hleaf).
  assert (Hst1 : cst (wc lv1) = @Pending SetSpec (SInsert k0)) by (rewrite Vc; exact Hst).
  assert (Hni1 : match ni with Some n => ni_ok lv1 n | None => True end).
  { destruct ni as [n|]; [|exact Logic.I]. destruct Hni as (fn & key & l & r' & E & F). exists fn, key, l, r'. split; [rewrite Vc; exact E|exact F]. }
  destruct found; [apply Hk0f; [exact Ht1|exact Hst1|apply (Rd_of_RS t lv1 (SInsert k0) r true HRS); rewrite Vc; exact HSeen]|]. destruct (clean r) eqn:Ecl; [|apply (IH s k0 leaf slots ni k kf lv1); auto]. destruct (clean_spec r Ecl) as [_ Hcl].
  assert (Hatt : forall n s' lv2, tlk t lv2 s' -> RS lv2 k0 r false -> cleaf (wc lv2) = Some leaf -> ni_ok lv2 n -> cst (wc lv2) = @Pending SetSpec (SInsert k0) ->
            DSm t (try_insert s' k0 leaf n r (fun s'' ok =>
              if ok then Act a_faa_cnt (fun _ => k s'' true) else insert_loop f s'' k0 leaf slots (Some n) k kf)) lv2).
  { intros n s' lv2 Hs' HRS2 Hl2 Hn2 Hst2. apply (T_try_insert t); [exact Hlt|exact Hs'|exact Hk0|exact HRS2|exact Hcl|exact Hl2|exact Hlk|exact Hn2|exact Hst2| |].
    - intros s'' lv3 Hs'' Hl3 Hn3 Hst3. cbv beta iota. apply (IH s'' k0 leaf slots (Some n) k kf lv3); auto.
    - intros s'' lv3 Hs'' Hst3. cbv beta iota. apply Sm_nx; [apply q_faa_cnt|apply o_faa_cnt|intros _]. now apply Hk1. }
  destruct ni as [n|]; [now apply Hatt|].
  unfold new_obj. destruct Ht1 as [T1 T2]. rewrite T1.
  apply Sm_alloc_ni; [exact Hlt|exact T2|]. intros _ key l r'.
  set (lv2 := mkDV (wf lv1) (mkC (cleaf (wc lv1)) (Some (mk_id t (ser s) 1 0, 1, key, l, r')) (chs (wc lv1)) (S (ser s)) (cst (wc lv1)) (cx (wc lv1)))).
  apply (Sm_st_emp_own keys t (mk_id t (ser s) 1 0) 1 key l r'); [reflexivity|]. intros _.
  apply Hatt.
  - split; [reflexivity|]. cbn. lia.
  - exact HRS.
  - exact Hleaf1.
  - exists 1, key, l, r'. split; [reflexivity|now left].
  - exact Hst1.
Qed.

Definition between {R} t (cont : TL -> prog R) : Prop :=
  forall s' lv1, tlk t lv1 s' -> cst (wc lv1) = @Idle SetSpec -> DSm t (cont s') lv1.

Lemma tlk_set_st t lv st s : tlk t lv s -> tlk t (set_st lv st) s.
Proof. intros H. exact H. Qed.

Lemma T_op_insert {R} t fuel s k (cont : TL -> prog R) lv :
  (t < 64)%nat -> (k < 8)%nat -> tlk t lv s -> cst (wc lv) = @Pending SetSpec (SInsert (Z.of_nat k)) -> between t cont ->
  (forall s', stop_ok (cont s')) ->
  DSm t (op_insert fuel s k cont) lv.
Proof.
  intros Hlt Hk [T1 T2] Hst Hc Hso. unfold op_insert, new_obj. rewrite T1.
  apply Sm_alloc_leaf; auto. intros _. set (leaf := mk_id t (ser s) 0 k).
  set (lv0 := mkDV (wf lv) (mkC (Some leaf) (cni (wc lv)) (chs (wc lv)) (S (ser s)) (cst (wc lv)) (cx (wc lv)))).
  assert (Ht0 : tlk t lv0 (mkTL t (fl s) (S (ser s)))) by (split; [reflexivity|cbn; lia]).
  destruct (alloc1 _) as [gi s1] eqn:Ea1. pose proof (tlk_alloc1 _ _ _ _ _ Ea1 Ht0) as Hs1.
  apply Sm_assign. destruct (allocn 6 s1) as [slots s2] eqn:Ea2. pose proof (tlk_allocn _ _ _ _ _ _ Ea2 Hs1) as Hs2.
  apply (T_insert_loop t); [exact Hlt|exact Hs2|lia|reflexivity|apply mk_id_lkey; exact Hk|exact Logic.I|exact Hst| | |].
  - intros s' lv1 Hs' Hst1 HRd. apply Sm_free_all; [exact Hs'|]. intros s'' Hs''. apply Sm_clear. unfold finish.
    apply (Sm_emit_res_read keys t (SInsert (Z.of_nat k)) true); [exact Hst1|exact HRd|reflexivity|]. apply Hc; [exact Hs''|reflexivity].
  - intros s' lv1 Hs' Hst1. apply Sm_free_all; [exact Hs'|]. intros s'' Hs''. apply Sm_clear. unfold finish.
    apply (Sm_emit_res_lin keys t (SInsert (Z.of_nat k))); [exact Hst1|reflexivity|]. apply Hc; [exact Hs''|reflexivity].
  - intros s' lv1 Hs'. apply Sm_free_all; [exact Hs'|]. intros s'' Hs''. apply Sm_clear.
    apply Sm_out_of_fuel. apply Hso.
Qed.

(** ** erase *)
Definition KF {R} t (kf : prog R) : Prop := forall lv, DSm t kf lv.
Lemma KF_free_all {R} t slots : forall s (k : TL -> prog R), (forall s' lv, DSm t (k s') lv) -> KF t (g_free_all s slots k).
Proof. induction slots as [|x r IH]; intros s k H lv; cbn [g_free_all]; [apply H|]. apply Sm_clear. now apply IH. Qed.

Lemma T_g_protect_again {R} t fuel : forall s slot p d cur (k : option ptr -> prog R) lv,
  In (FFz p d cur) (wf lv) ->
  (forall lv1, vle lv lv1 -> DSm t (k None) lv1) ->
  (forall sib lv1, vle lv lv1 -> In (FFz p d sib) (wf lv1) -> DSm t (k (Some sib)) lv1) ->
  DSm t (g_protect_again fuel s slot p d cur k) lv.
Proof.
  induction fuel as [|f IH]; intros s slot p d cur k lv Hc H0 Hk; cbn [g_protect_again]; [apply H0, vle_refl|].
  snx. snx. apply (Sm_ld_child_fz keys t p d d cur); [exact Hc|]. intros c lv1 V1 I1. cbn [vptr].
  destruct (Nat.eqb cur c).
  - apply Hk; [exact V1|eapply vle_in; eauto].
  - apply IH; [exact I1| |].
    + intros lv2 V2. apply H0. eapply vle_trans; eauto.
    + intros sib lv2 V2. apply Hk. eapply vle_trans; eauto.
Qed.

Lemma GP_gp lv k0 r : GPinfo lv k0 (r_gp r) (r_p r) (r_updgp r) (r_rp r) -> r_gp r <> null ->
  r_p r <> root /\ Pinfo lv k0 (r_gp r) (r_updgp r) (r_rp r) (r_p r).
Proof. intros [(E & _)|(_ & A & B)] N; [contradiction|auto]. Qed.

Lemma T_help_marked {R} t fuel s r op k0 ch0 (k kf : prog R) lv :
  0 <= k0 < 8 -> RS lv k0 r true -> r_gp r <> null ->
  In (FFz (r_p r) (r_rl r) (r_leaf r)) (wf lv) ->
  In (mkH (r_gp r) op 1 None (Some (r_p r)) ch0) (chs (wc lv)) -> In (r_rp r, r_p r) ch0 ->
  cst (wc lv) = @Pending SetSpec (SErase k0) ->
  (forall lv1, cst (wc lv1) = @Linearized SetSpec (SErase k0) (RBool true) -> cser (wc lv1) = cser (wc lv) -> DSm t k lv1) ->
  KF t kf ->
  DSm t (help_marked fuel s r op k kf) lv.
Proof.
  intros Hk0 HRS Ngp Hfz Hh0 Hch0 Hst Hk Hkf. unfold help_marked.
  destruct HRS as ((Hp & Hl & (fp & kp & P1 & P2 & P3) & Hfc & Hrc) & Nlr & (f0 & kl & L1 & L2 & L3) & GP).
  destruct (GP_gp _ _ _ GP Ngp) as [Npr (Hg & _)].
  destruct (alloc1 s) as [g s1]. unfold g_protect_child.
  apply (Sm_ld_child_fz keys t (r_p r) (negb (r_rl r)) (r_rl r) (r_leaf r)); [exact Hfz|]. intros c0 lv1 V1 I1. cbn [vptr].
  apply T_g_protect_again; [exact I1|intros; apply Hkf|]. intros sib lv2 V2 I2.
  assert (V02 : vle lv lv2) by (eapply vle_trans; eauto). pose proof V02 as [_ Ec].
  snx.
  assert (Hgo : DSm t (Act (a_cas_child (r_gp r) (r_rp r) (r_p r) sib) (fun _ =>
              Act (a_faa_emp (r_gp r)) (fun n =>
                Act (a_cas_upd (r_gp r) (op, 1%nat) (S (vn n), 0%nat)) (fun _ => g_clear s1 g k)))) lv2).
  { apply (Sm_cas_child_splice keys t k0 (r_gp r) (r_p r) (r_rp r) (r_rl r) (r_leaf r) sib f0 kl fp kp op ch0).
    - exact Hk0.
    - eapply kpath_mono; eauto.
    - eapply vle_in; eauto.
    - exact P2.
    - eapply vle_in; eauto.
    - exact L2.
    - symmetry in L3. now apply Z.eqb_eq in L3.
    - eapply vle_in; eauto.
    - exact I2.
    - rewrite Ec. exact Hh0.
    - exact Hch0.
    - rewrite Ec. exact Hst.
    - rewrite Ec. set (h1 := mkH (r_gp r) op 1 None (Some (r_p r)) []).
      eapply (Sm_faa_emp keys t (r_gp r) op 1 (Some (r_p r)) []); cbn [wf wc chs].
      + apply (In_hrep op _ h1 _ Hh0). reflexivity.
      + intros n. cbn [vn]. eapply (Sm_cas_unflag keys t (r_gp r) op 1 n (Some (r_p r)) []); unfold set_chs; cbn [wf wc chs cleaf cni cser cst].
        * apply (In_hrep op h1); [apply (In_hrep op _ h1 _ Hh0); reflexivity|reflexivity].
        * apply Sm_clear. apply Hk; reflexivity. }
  destruct (is_internal_f (Ellen.vfl v)); [exact Hgo|apply Sm_assign; exact Hgo].
Qed.

Lemma RS_incl lv lv1 k0 r fd : incl (wf lv) (wf lv1) -> RS lv k0 r fd -> RS lv1 k0 r fd.
Proof.
  intros Hi H. apply (RS_mono (mkDV (wf lv) (wc lv1)) lv1); [split; [exact Hi|reflexivity]|exact H].
Qed.

Lemma T_help_delete {R} t fuel s r op k0 (k : bool -> prog R) kf lv :
  0 <= k0 < 8 -> RS lv k0 r true -> r_gp r <> null -> snd (r_updp r) = 0%nat ->
  In (mkH (r_gp r) op 1 None None [(r_rp r, r_p r)]) (chs (wc lv)) ->
  cst (wc lv) = @Pending SetSpec (SErase k0) ->
  (forall lv1, cst (wc lv1) = @Linearized SetSpec (SErase k0) (RBool true) -> cser (wc lv1) = cser (wc lv) -> DSm t (k true) lv1) ->
  (forall lv1, cst (wc lv1) = @Pending SetSpec (SErase k0) -> cser (wc lv1) = cser (wc lv) -> DSm t (k false) lv1) ->
  KF t kf ->
  DSm t (help_delete fuel s r op k kf) lv.
Proof.
  intros Hk0 HRS Ngp Hcl Hh0 Hst Hkt Hkf0 Hkf. unfold help_delete.
  pose proof HRS as ((Hp & Hl & (fp & kp & P1 & P2 & P3) & Hfc & Hrc) & Nlr & (f0 & kl & L1 & L2 & L3) & GP).
  apply (Sm_cas_mark keys t (r_gp r) (r_p r) (r_updp r) op [(r_rp r, r_p r)] [(r_rl r, r_leaf r)]).
  - exact Hh0.
  - exact Hcl.
  - now apply kpath_pubk in Hp.
  - intros d c [E|[]]. inversion E; subst. exact Hfc.
  - intros cur Hne. cbn [vok vw]. rewrite Hne.
    eapply (Sm_faa_emp keys t (r_gp r) op 1 None [(r_rp r, r_p r)]); [exact Hh0|]. intros n. cbn [vn].
    eapply (Sm_cas_unflag keys t (r_gp r) op 1 n None [(r_rp r, r_p r)]); unfold set_chs; cbn [wf wc chs cleaf cni cser cst app].
    + apply (In_hrep op _ _ _ Hh0). reflexivity.
    + cbn [vok]. apply Sm_retire. apply Hkf0; [exact Hst|reflexivity].
  - cbn [vok]. set (lvM := set_chs lv (map (fun dc : bool * ptr => FFz (r_p r) (fst dc) (snd dc)) [(r_rl r, r_leaf r)])
                        (hrep op (mkH (r_gp r) op 1 None (Some (r_p r)) [(r_rp r, r_p r)]) (chs (wc lv)))).
    apply (T_help_marked t fuel s r op k0 [(r_rp r, r_p r)]).
    + exact Hk0.
    + apply (RS_incl lv); [|exact HRS]. unfold lvM, set_chs. cbn [wf]. apply incl_appr, incl_refl.
    + exact Ngp.
    + unfold lvM, set_chs. cbn [wf map fst snd]. now left.
    + unfold lvM, set_chs. cbn [wc chs]. apply (In_hrep op _ _ _ Hh0). reflexivity.
    + now left.
    + exact Hst.
    + intros lv1 Hs1 Hc1. snx. apply Sm_retire. snx. apply Sm_retire, Sm_retire. apply Hkt; [exact Hs1|exact Hc1].
    + exact Hkf.
Qed.

Definition pop_ok (t : nat) (lv : dview) (s : TL) (pop : option ptr) : Prop :=
  match pop with
  | Some op => (4 <= op)%nat /\ owner_of op = t /\ (cser (wc lv) <= ser_of op)%nat /\ (ser_of op < ser s)%nat
  | None => True
  end.

Lemma found_not_root_child {R} t f (k : V -> prog R) lv k0 leaf f0 kl :
  In (FFl leaf f0 kl) (wf lv) -> is_internal_f f0 = false -> true = (cmp_node k0 f0 (lkey leaf) =? 0) -> In (FRc leaf) (wf lv) ->
  DSm t (Act f k) lv.
Proof.
  intros H1 H2 H3 H4 lv' Hle. apply D_absurd. intros g a Hs Hv.
  destruct (facts_of g a t lv' _ Hs Hv (vle_in _ _ _ Hle H1)) as (_ & F1 & _).
  destruct (facts_of g a t lv' _ Hs Hv (vle_in _ _ _ Hle H4)) as (_ & F2).
  assert (N : ~ internal g leaf) by (unfold internal; rewrite F1, H2; discriminate). specialize (F2 N). rewrite F1 in F2.
  unfold cmp_node in H3. destruct (Z.eqb_spec (inf_of f0) 0); [contradiction|discriminate].
Qed.

Lemma T_erase_loop {R} t fuel : forall s k0 slots pop (k : TL -> bool -> prog R) kf lv,
  (t < 64)%nat -> tlk t lv s -> 0 <= k0 < 8 -> pop_ok t lv s pop -> cst (wc lv) = @Pending SetSpec (SErase k0) ->
  (forall s' lv1, tlk t lv1 s' -> cst (wc lv1) = @Pending SetSpec (SErase k0) -> Rd t lv1 (SErase k0) false -> DSm t (k s' false) lv1) ->
  (forall s' lv1, tlk t lv1 s' -> cst (wc lv1) = @Linearized SetSpec (SErase k0) (RBool true) -> DSm t (k s' true) lv1) ->
  KF t kf ->
  DSm t (erase_loop fuel s k0 slots pop k kf) lv.
Proof.
  induction fuel as [|f IH]; intros s k0 slots pop k kf lv Hlt Ht Hk0 Hpop Hst Hk0f Hk1 Hkf; cbn [erase_loop]; [apply Hkf|].
  apply (T_srch t (fst (cx (wc lv)))); [reflexivity|apply Jst0|left; reflexivity| |intros; apply Hkf].
  intros r found lv1 V HRS HSeen. pose proof V as [_ Vc]. assert (Ht1 : tlk t lv1 s) by (eapply tlk_vle; eauto).
  assert (Hst1 : cst (wc lv1) = @Pending SetSpec (SErase k0)) by (rewrite Vc; exact Hst).
  assert (Hpop1 : pop_ok t lv1 s pop) by (unfold pop_ok in *; rewrite Vc; exact Hpop).
  destruct found; cbn [negb].
  2:{ assert (HRd : Rd t lv1 (SErase k0) false) by (apply (Rd_of_RS t lv1 (SErase k0) r false HRS); rewrite Vc; exact HSeen).
      destruct pop; [apply Sm_retire|]; now apply Hk0f. }
  destruct (clean r) eqn:Ecl; [|apply (IH s k0 slots pop k kf lv1); auto]. destruct (clean_spec r Ecl) as [Hclg Hclp].
  pose proof HRS as ((Hp & Hl & (fp & kp & P1 & P2 & P3) & Hfc & Hrc) & Nlr & (f0 & kl & L1 & L2 & L3) & GP).
  assert (Hop : exists op s', (match pop with Some d => (d, s) | None => new_obj s 2 0 end) = (op, s') /\
            tlk t lv1 s' /\ pop_ok t lv1 s' (Some op)).
  { destruct pop as [d|].
    - exists d, s. split; [reflexivity|]. split; [exact Ht1|exact Hpop1].
    - destruct Ht1 as [T1 T2]. exists (mk_id (tid s) (ser s) 2 0), (mkTL (tid s) (fl s) (S (ser s))). split; [reflexivity|].
      split; [split; [exact T1|cbn; lia]|]. cbn [pop_ok ser]. rewrite T1.
      split; [apply mk_id_ge|]. split; [apply mk_id_owner; lia|]. rewrite mk_id_ser by lia. lia. }
  destruct Hop as (op & s' & Eop & Ht' & (Hop1 & Hop2 & Hop3 & Hop4)). rewrite Eop.
  destruct GP as [(Eg & Epr)|(Ngp & Npr & Hgp)].
  { apply (found_not_root_child t _ _ lv1 k0 (r_leaf r) f0 kl L1 L2 L3 (Hrc Epr)). }
  pose proof Hgp as (Hg1 & _ & (fg & kg & G1 & G2 & G3) & Hgfc & _).
  assert (Hretry : forall lv2 s2, vle lv1 lv2 -> tlk t lv2 s2 -> (ser_of op < ser s2)%nat -> DSm t (erase_loop f s2 k0 slots (Some op) k kf) lv2).
  { intros lv2 s2 V2 Hs2 Hser. pose proof V2 as [_ Vc2]. apply (IH s2 k0 slots (Some op) k kf lv2); auto.
    - cbn [pop_ok]. rewrite Vc2. auto.
    - rewrite Vc2. exact Hst1. }
  snx. destruct (Nat.eqb (vptr v) (r_p r)); [|apply Hretry; [apply vle_refl|exact Ht'|exact Hop4]].
  snx. destruct (Nat.eqb (vptr v0) (r_leaf r)); [|apply Hretry; [apply vle_refl|exact Ht'|exact Hop4]].
  destruct (alloc1 s') as [g s2] eqn:Ea. destruct (alloc1_tid _ _ _ Ea) as [Et Es]. pose proof (tlk_alloc1 _ _ _ _ _ Ea Ht') as Ht2.
  apply Sm_assign.
  apply (Sm_cas_flag keys t (r_gp r) (r_updgp r) op 1 [(r_rp r, r_p r)]).
  - now left.
  - exact Hclg.
  - now apply kpath_pubk in Hg1.
  - exists fg, kg. auto.
  - exact Hop1.
  - exact Hop2.
  - exact Hop3.
  - intros d c [E|[]]. inversion E; subst. exact Hgfc.
  - intros cur. cbn [vok]. apply Sm_clear. apply Hretry; [apply vle_refl|exact Ht2|cbn [free1 ser]; rewrite Es; exact Hop4].
  - cbn [vok].
    set (lvF := mkDV (wf lv1) (mkC (cleaf (wc lv1)) (cni (wc lv1)) (mkH (r_gp r) op 1 None None [(r_rp r, r_p r)] :: chs (wc lv1)) (S (ser_of op)) (cst (wc lv1)) (cx (wc lv1)))).
    assert (HtF : forall lvX, cser (wc lvX) = cser (wc lvF) -> tlk t lvX (free1 g s2)).
    { intros lvX E. split; [cbn [free1 tid]; destruct Ht2; auto|]. rewrite E. cbn [lvF wc cser free1 ser]. rewrite Es. lia. }
    apply (T_help_delete t (S f) s2 r op k0).
    + exact Hk0.
    + apply (RS_incl lv1); [apply incl_refl|exact HRS].
    + exact Ngp.
    + exact Hclp.
    + cbn [wc chs]. now left.
    + exact Hst1.
    + intros lvX HsX HcX. apply Sm_clear. apply Sm_nx; [apply q_fas_cnt|apply o_fas_cnt|intros _]. apply Hk1; [now apply HtF|exact HsX].
    + intros lvX HsX HcX. apply Sm_clear. apply (IH (free1 g s2) k0 slots None k kf lvX); [exact Hlt|now apply HtF|exact Hk0|exact Logic.I|exact HsX|exact Hk0f|exact Hk1|exact Hkf].
    + exact Hkf.
Qed.

Lemma T_op_erase {R} t fuel s k (cont : TL -> prog R) lv :
  (t < 64)%nat -> (k < 8)%nat -> tlk t lv s -> cst (wc lv) = @Pending SetSpec (SErase (Z.of_nat k)) -> between t cont ->
  (forall s', stop_ok (cont s')) ->
  DSm t (op_erase fuel s k cont) lv.
Proof.
  intros Hlt Hk Ht Hst Hc Hso. unfold op_erase. destruct (allocn 6 s) as [slots s1] eqn:Ea. pose proof (tlk_allocn _ _ _ _ _ _ Ea Ht) as Hs1.
  apply (T_erase_loop t); [exact Hlt|exact Hs1|lia|exact Logic.I|exact Hst| | |].
  - intros s' lv1 Hs' Hst1 HRd. apply Sm_free_all; [exact Hs'|]. intros s'' Hs''. unfold finish.
    apply (Sm_emit_res_read keys t (SErase (Z.of_nat k)) false); [exact Hst1|exact HRd|reflexivity|]. apply Hc; [exact Hs''|reflexivity].
  - intros s' lv1 Hs' Hst1. apply Sm_free_all; [exact Hs'|]. intros s'' Hs''. unfold finish.
    apply (Sm_emit_res_lin keys t (SErase (Z.of_nat k))); [exact Hst1|reflexivity|]. apply Hc; [exact Hs''|reflexivity].
  - apply KF_free_all. intros s' lv1. apply Sm_out_of_fuel. apply Hso.
Qed.

Lemma T_op_contains {R} t fuel s k (cont : TL -> prog R) lv :
  tlk t lv s -> cst (wc lv) = @Pending SetSpec (SContains (Z.of_nat k)) -> between t cont -> (forall s', stop_ok (cont s')) ->
  DSm t (op_contains fuel s k cont) lv.
Proof.
  intros Ht Hst Hc Hso. unfold op_contains. destruct (allocn 6 s) as [slots s1] eqn:Ea. pose proof (tlk_allocn _ _ _ _ _ _ Ea Ht) as Hs1.
  apply (T_srch t (fst (cx (wc lv)))); [reflexivity|apply Jst0|left; reflexivity| |intros; apply KF_free_all; intros; apply Sm_out_of_fuel; apply Hso].
  intros r found lv1 V HRS HSeen. pose proof V as [_ Vc]. apply Sm_free_all; [eapply tlk_vle; eauto|]. intros s'' Hs''. unfold finish.
  apply (Sm_emit_res_read keys t (SContains (Z.of_nat k)) found); [rewrite Vc; exact Hst| |destruct found; reflexivity|apply Hc; [exact Hs''|reflexivity]].
  apply (Rd_of_RS t lv1 (SContains (Z.of_nat k)) r found HRS). rewrite Vc. exact HSeen.
Qed.

(** programs of insert / erase / contains over the keys 0..7 *)
Definition op_ok (o : op) : Prop := match o with OIns k => (k < 8)%nat | OContains _ => True | OErase k => (k < 8)%nat end.

Lemma stop_ok_run_ops fuel s os : stop_ok (run_ops fuel s os).
Proof. destruct os as [|o r]; cbn [run_ops]; [exact Logic.I|]. destruct o; exact Logic.I. Qed.

Lemma T_run_ops t fuel : (t < 64)%nat -> forall os, Forall op_ok os -> between t (fun s => run_ops fuel s os).
Proof.
  intros Hlt. induction os as [|o r IH]; intros Hok s lv Ht Hst; cbn [run_ops]; [apply Sm_ret|].
  inversion Hok as [|? ? Ho Hr]; subst. specialize (IH Hr). unfold run_op. destruct o as [k|k|k]; cbn [op_ok] in Ho.
  - apply (Sm_emit_inv keys t 1 (Z.of_nat k)); [exact Hst|]. apply T_op_insert; auto. intros s'; apply stop_ok_run_ops.
  - apply (Sm_emit_inv keys t 6 (Z.of_nat k)); [exact Hst|]. apply T_op_erase; auto. intros s'; apply stop_ok_run_ops.
  - apply (Sm_emit_inv keys t 10 (Z.of_nat k)); [exact Hst|]. apply T_op_contains; auto. intros s'; apply stop_ok_run_ops.
Qed.

Lemma T_thread t fuel os lv : (t < 64)%nat -> Forall op_ok os -> cser (wc lv) = 0%nat -> cst (wc lv) = @Idle SetSpec -> DSAFE t (thread_prog fuel t os) lv.
Proof.
  intros Hlt Hok Hser Hst. assert (H : DSm t (thread_prog fuel t os) lv); [|apply H, vle_refl].
  unfold thread_prog. snx. apply (T_run_ops t fuel Hlt os Hok); [|exact Hst]. split; [reflexivity|rewrite Hser; cbn; lia].
Qed.

End Prog.
