(** * DhpDetC: a held (owned, unattached) record: extended_list_.store( nullptr ) and thread_id_.store( null ). *)
From Coq Require Import ZArith NArith List String Bool Lia PeanoNat.
From LV Require Import Base.Conc Base.Events Model.DhpLang Model.Dhp Proofs.DhpBase Proofs.DhpHist
  Proofs.DhpLangProofs Proofs.DhpInvA Proofs.DhpStepsA Proofs.DhpQuietA Proofs.DhpSlotA Proofs.DhpScanA Proofs.DhpScanC
  Proofs.DhpPresA Proofs.DhpAllocA Proofs.DhpAllocB Proofs.DhpViewA Proofs.DhpDetB.
Import ListNotations.

Section DetC.
  Variable c : cfg.

  (** facts shared by the updates of one field (thread_id_ or extended_list_) of record r *)
  Lemma recfield_facts g r F : r < List.length (recs g) ->
    (forall x, r_next (F x) = r_next x /\ r_slots (F x) = r_slots x) ->
    let g' := upd_rec g r F in
    (forall r', r' <> r -> grec g' r' = grec g r') /\ grec g' r = F (grec g r) /\
    List.length (recs g') = List.length (recs g) /\
    (forall r', r_next (grec g' r') = r_next (grec g r')) /\ (forall r', r_slots (grec g' r') = r_slots (grec g r')) /\
    (forall o l0, rchain g o l0 <-> rchain g' o l0) /\ (forall o r', after g o r' -> after g' o r') /\
    (forall o S, gchain c g o S <-> gchain c g' o S).
  Proof.
    intros Hr HF g'.
    assert (Eo : forall r', r' <> r -> grec g' r' = grec g r') by (intros r' N; unfold g'; apply grec_upd_rec_other; congruence).
    assert (Es : grec g' r = F (grec g r)) by (unfold g'; now apply grec_upd_rec_same).
    assert (Lr : List.length (recs g') = List.length (recs g)) by (unfold g', upd_rec; cbn; apply upd_nth_length).
    assert (Enx : forall r', r_next (grec g' r') = r_next (grec g r')).
    { intros r'. destruct (Nat.eq_dec r' r) as [->|N]; [rewrite Es; apply HF|now rewrite Eo]. }
    assert (Esl : forall r', r_slots (grec g' r') = r_slots (grec g r')).
    { intros r'. destruct (Nat.eq_dec r' r) as [->|N]; [rewrite Es; apply HF|now rewrite Eo]. }
    assert (Rc : forall o l0, rchain g o l0 <-> rchain g' o l0).
    { intros o' l'; revert o'; induction l' as [|x l' IH]; intros o'; cbn; [tauto|]. rewrite Enx, Lr, IH. tauto. }
    assert (Af : forall o r', after g o r' -> after g' o r').
    { intros o r' (S & H1 & H2 & H3). exists S. split; [now apply Rc|]. split; auto. intros L HL. apply H3. now apply Rc. }
    assert (Gc : forall o S, gchain c g o S <-> gchain c g' o S).
    { intros o S. split; apply gchain_ext; try (apply Nat.le_refl); intros; split; reflexivity. }
    split; [exact Eo|]. split; [exact Es|]. split; [exact Lr|]. split; [exact Enx|]. split; [exact Esl|].
    split; [exact Rc|]. split; [exact Af|exact Gc].
  Qed.

  Lemma scan_ok_recfield g r F h ss n1 : r < List.length (recs g) -> hlen h <= n1 ->
    (forall x, r_next (F x) = r_next x /\ r_slots (F x) = r_slots x) ->
    scan_ok c g h ss ->
    scan_ok c (upd_rec g r F) (mkH n1 (slotv h) (lastw h) (att h) (linked h) (scan h) (freeh h) (flbad h)) ss.
  Proof.
    intros Hr Hn HF S. destruct (recfield_facts g r F Hr HF) as (Eo & Es & Lr & Enx & Esl & Rc & Af & Gc).
    apply (scan_ok_frame c g (upd_rec g r F) h _ ss); cbn [hlen slotv lastw att linked];
      [exact Hn|intros s; left; auto|exact Af|left; reflexivity|intros n0 _; apply Enx| |exact S].
    - intros s k Hl Hk. split; auto. split; auto. intros n0 o S0 b i E Hin Hg Hi. split; auto. now apply Gc.
  Qed.

  (** extended_list_.store( nullptr ) at the end of hazards_.clear() *)
  Lemma JA_stext_none g a h t l r lb n1 :
    JA c g a h -> views a t = l -> va_hold l = Some r -> va_limbo l = Some (None, lb) -> hlen h <= n1 ->
    JA c (upd_rec g r (rs_ext None)) (upd_aux a t (with_hold_limbo l (Some r) None) (bown a))
         (mkH n1 (slotv h) (lastw h) (att h) (linked h) (scan h) (freeh h) (flbad h)).
  Proof.
    intros J Hv Hh Hlm Hn. pose proof J as [J1 J2 J3 J4 J5 J6 J7 J8 J9 J10 J11 J12 J15 J16 J17 J18 J13 J14].
    set (g' := upd_rec g r (rs_ext None)). set (a' := upd_aux a t (with_hold_limbo l (Some r) None) (bown a)).
    rewrite <- Hv in Hh, Hlm. destruct (J6 t r Hh) as (Rlt & Ratt & Rtid & Raft & Rsl & _).
    destruct (recfield_facts g r (rs_ext None) Rlt (fun x => conj eq_refl eq_refl)) as (Eo & Es & Lr & Enx & Esl & Rc & Af & Gc).
    fold g' in Eo, Es, Lr, Enx, Esl, Rc, Af, Gc.
    assert (Et : tlist g' = tlist g) by reflexivity. assert (Lgb : gbs g' = gbs g) by reflexivity.
    assert (V : forall t', t' <> t -> views a' t' = views a t') by (intros t' N; unfold a'; now apply upd_aux_other).
    assert (Vs : views a' t = with_hold_limbo (views a t) (Some r) None) by (unfold a'; rewrite upd_aux_same, Hv; reflexivity).
    assert (B : bown a' = bown a) by reflexivity.
    assert (F : forall t', va_tls (views a' t') = va_tls (views a t') /\ va_unpub (views a' t') = va_unpub (views a t') /\
                           va_hold (views a' t') = va_hold (views a t') /\ va_help (views a' t') = va_help (views a t') /\
                           va_node (views a' t') = va_node (views a t') /\ va_blk (views a' t') = va_blk (views a t') /\
                           va_e (views a' t') = va_e (views a t') /\ va_scan (views a' t') = va_scan (views a t')).
    { intros t'. destruct (Nat.eq_dec t' t) as [->|N]; [rewrite Vs; cbn; repeat split; auto|rewrite (V t' N); repeat split; reflexivity]. }
    assert (Nr : forall r' t' k, att h r' = Some (t', k) -> r' <> r) by (intros r' t' k Ha ->; congruence).
    constructor; cbn [hlen slotv lastw att linked scan freeh flbad]; rewrite ?B, ?Lr, ?Et, ?Lgb.
    - destruct J1 as (L & H1 & H2). exists L. split; auto. now apply Rc.
    - intros r' t' k Ha. destruct (J2 r' t' k Ha) as (X1&X2&X3&X4&X5&X6&X7&X8&X9). destruct (F t') as (E&_). rewrite E, (Eo r' (Nr _ _ _ Ha)).
      split; auto. split; auto. split; auto. split; auto. split; auto. split; [lia|]. split; [now apply Gc|]. split; auto.
      intros b kb K. destruct (X9 b kb K) as (W1&W2&W3). split; auto. lia.
    - intros t' r' Ht. destruct (F t') as (E&_). rewrite E in Ht. auto.
    - exact J4.
    - intros t' r' bt Ht. destruct (F t') as (_&E&_). rewrite E in Ht. destruct (J5 t' r' bt Ht) as (X1&X2&X3&X4&X5&X6).
      assert (r' <> r). { intros ->. destruct J1 as (L & H1 & _). destruct Raft as (S & A1 & A2 & A3). apply (X3 L H1). apply (A3 L H1). exact A2. }
      rewrite (Eo r' H). repeat split; auto.
      + intros L HL. apply X3. now apply Rc.
      + intros t'' bt' Ht''. destruct (F t'') as (_&E'&_). rewrite E' in Ht''. eauto.
    - intros t' r' Ht. destruct (F t') as (_&_&E&_). rewrite E in Ht. destruct (J6 t' r' Ht) as (X1&X2&X3&X4&X5&X6).
      destruct (Nat.eq_dec r' r) as [->|N].
      + rewrite Es. cbn. repeat split; auto.
      + rewrite (Eo r' N). repeat split; auto. assert (t' <> t). { intros ->. congruence. } now rewrite (V t' H).
    - intros t' r' Ht. destruct (F t') as (_&_&E3&E4&_). rewrite E4 in Ht. rewrite E3. destruct (J7 t' r' Ht) as (X1&X2&X3). split; auto.
      destruct (Nat.eq_dec r' r) as [->|N]; [rewrite Es; exact X1|now rewrite (Eo r' N)].
    - intros r' Hr Ha. destruct (Nat.eq_dec r' r) as [->|N]; [left; rewrite Es; reflexivity|]. rewrite (Eo r' N).
      destruct (J8 r' Hr Ha) as [X|(t' & X1 & X2)]; [now left|right]. exists t'. destruct (F t') as (_&_&E3&_). rewrite E3. split; auto.
      assert (t' <> t). { intros ->. congruence. } now rewrite (V t' H).
    - intros t' b' Ht. destruct (F t') as (_&_&_&_&_&E6&_). rewrite E6 in Ht. destruct (J9 t' b' Ht) as (X1&X2&X3&X4). split; auto. split; auto. split; auto.
      destruct (Nat.eq_dec t' t) as [->|N]; [rewrite Vs; cbn; discriminate|now rewrite (V t' N)].
    - intros t' o lb' Ht. destruct (Nat.eq_dec t' t) as [->|N]; [rewrite Vs in Ht; cbn in Ht; discriminate|].
      rewrite (V t' N) in Ht. destruct (J10 t' o lb' Ht) as (X1&X2&X3). split; [now apply Gc|auto].
    - exact J11.
    - exact J12.
    - intros r' Hr. rewrite Esl. auto.
    - exact J16.
    - intros t' e f Ht. destruct (F t') as (E1&_&_&_&_&E6&E7&_). rewrite E7 in Ht. rewrite E1, E6. destruct (J17 t' e f Ht) as (r' & X1 & X2 & X3).
      exists r'. split; auto. destruct (J3 t' r' X1) as (k & Ka). rewrite (Eo r' (Nr _ _ _ Ka)). auto.
    - intros t' n Ht. destruct (F t') as (_&_&_&_&E5&_). rewrite E5 in Ht. apply Af. eauto.
    - intros s. rewrite <- J13. destruct s as [r' i|x i]; cbn [slot_get]; [now rewrite Esl|reflexivity].
    - intros t'. destruct (F t') as (_&_&_&_&_&_&_&E8). rewrite E8. specialize (J14 t').
      destruct (va_scan (views a t')) as [ss|]; auto. destruct J14 as (X1 & X2). split; auto.
      apply scan_ok_recfield; auto.
  Qed.

  (** thread_id_.store( null ) at the end of free_thread_data *)
  Lemma JA_sttid0 g a h t l r n1 :
    JA c g a h -> views a t = l -> va_hold l = Some r -> va_limbo l = None -> hlen h <= n1 ->
    JA c (upd_rec g r (rs_tid 0)) (upd_aux a t (with_hold_limbo l None None) (bown a))
         (mkH n1 (slotv h) (lastw h) (att h) (linked h) (scan h) (freeh h) (flbad h)).
  Proof.
    intros J Hv Hh Hlm Hn. pose proof J as [J1 J2 J3 J4 J5 J6 J7 J8 J9 J10 J11 J12 J15 J16 J17 J18 J13 J14].
    set (g' := upd_rec g r (rs_tid 0)). set (a' := upd_aux a t (with_hold_limbo l None None) (bown a)).
    rewrite <- Hv in Hh, Hlm. destruct (J6 t r Hh) as (Rlt & Ratt & Rtid & Raft & Rsl & Rext). specialize (Rext Hlm).
    destruct (recfield_facts g r (rs_tid 0) Rlt (fun x => conj eq_refl eq_refl)) as (Eo & Es & Lr & Enx & Esl & Rc & Af & Gc).
    fold g' in Eo, Es, Lr, Enx, Esl, Rc, Af, Gc.
    assert (Et : tlist g' = tlist g) by reflexivity. assert (Lgb : gbs g' = gbs g) by reflexivity.
    assert (V : forall t', t' <> t -> views a' t' = views a t') by (intros t' N; unfold a'; now apply upd_aux_other).
    assert (Vs : views a' t = with_hold_limbo (views a t) None None) by (unfold a'; rewrite upd_aux_same, Hv; reflexivity).
    assert (B : bown a' = bown a) by reflexivity.
    assert (F : forall t', va_tls (views a' t') = va_tls (views a t') /\ va_unpub (views a' t') = va_unpub (views a t') /\
                           va_help (views a' t') = va_help (views a t') /\
                           va_node (views a' t') = va_node (views a t') /\ va_blk (views a' t') = va_blk (views a t') /\
                           va_e (views a' t') = va_e (views a t') /\ va_limbo (views a' t') = va_limbo (views a t') /\
                           va_scan (views a' t') = va_scan (views a t')).
    { intros t'. destruct (Nat.eq_dec t' t) as [->|N]; [rewrite Vs; cbn; repeat split; auto|rewrite (V t' N); repeat split; reflexivity]. }
    assert (Nr : forall r' t' k, att h r' = Some (t', k) -> r' <> r) by (intros r' t' k Ha ->; congruence).
    assert (Ex : forall r', r_ext (grec g' r') = r_ext (grec g r')).
    { intros r'. destruct (Nat.eq_dec r' r) as [->|N]; [rewrite Es; reflexivity|now rewrite Eo]. }
    constructor; cbn [hlen slotv lastw att linked scan freeh flbad]; rewrite ?B, ?Lr, ?Et, ?Lgb.
    - destruct J1 as (L & H1 & H2). exists L. split; auto. now apply Rc.
    - intros r' t' k Ha. destruct (J2 r' t' k Ha) as (X1&X2&X3&X4&X5&X6&X7&X8&X9). destruct (F t') as (E&_). rewrite E, (Eo r' (Nr _ _ _ Ha)).
      split; auto. split; auto. split; auto. split; auto. split; auto. split; [lia|]. split; [now apply Gc|]. split; auto.
      intros b kb K. destruct (X9 b kb K) as (W1&W2&W3). split; auto. lia.
    - intros t' r' Ht. destruct (F t') as (E&_). rewrite E in Ht. auto.
    - exact J4.
    - intros t' r' bt Ht. destruct (F t') as (_&E&_). rewrite E in Ht. destruct (J5 t' r' bt Ht) as (X1&X2&X3&X4&X5&X6).
      assert (r' <> r). { intros ->. destruct J1 as (L & H1 & _). destruct Raft as (S & A1 & A2 & A3). apply (X3 L H1). apply (A3 L H1). exact A2. }
      rewrite (Eo r' H). repeat split; auto.
      + intros L HL. apply X3. now apply Rc.
      + intros t'' bt' Ht''. destruct (F t'') as (_&E'&_). rewrite E' in Ht''. eauto.
    - intros t' r' Ht. destruct (Nat.eq_dec t' t) as [->|N]; [rewrite Vs in Ht; cbn in Ht; discriminate|]. rewrite (V t' N) in Ht |- *.
      destruct (J6 t' r' Ht) as (X1&X2&X3&X4&X5&X6). assert (r' <> r). { intros ->. rewrite Rtid in X3. inversion X3. congruence. }
      rewrite (Eo r' H). repeat split; auto.
    - intros t' r' Ht. destruct (F t') as (_&_&E3&_). rewrite E3 in Ht. destruct (J7 t' r' Ht) as (X1&X2&X3).
      assert (r' <> r). { intros ->. rewrite Rtid in X1. inversion X1; subst t'. congruence. }
      rewrite (Eo r' H). split; auto. split; auto.
      destruct (Nat.eq_dec t' t) as [->|N]; [rewrite Vs; cbn; discriminate|now rewrite (V t' N)].
    - intros r' Hr Ha. rewrite Ex. destruct (Nat.eq_dec r' r) as [->|N]; [now left|].
      destruct (J8 r' Hr Ha) as [X|(t' & X1 & X2)]; [now left|right]. exists t'.
      assert (t' <> t). { intros ->. congruence. } now rewrite (V t' H).
    - intros t' b' Ht. destruct (F t') as (_&_&_&_&E5&_&E7&_). rewrite E5 in Ht. rewrite E7. exact (J9 t' b' Ht).
    - intros t' o lb' Ht. destruct (F t') as (_&_&_&_&_&_&E7&_). rewrite E7 in Ht. destruct (J10 t' o lb' Ht) as (X1&X2&X3). split; [now apply Gc|auto].
    - exact J11.
    - exact J12.
    - intros r' Hr. rewrite Esl. auto.
    - exact J16.
    - intros t' e f Ht. destruct (F t') as (E1&_&_&_&E5&E6&_). rewrite E6 in Ht. rewrite E1, E5.
      destruct (J17 t' e f Ht) as (r' & X1 & X2 & X3). exists r'. rewrite Ex. auto.
    - intros t' n Ht. destruct (F t') as (_&_&_&E4&_). rewrite E4 in Ht. apply Af. eauto.
    - intros s. rewrite <- J13. destruct s as [r' i|x i]; cbn [slot_get]; [now rewrite Esl|reflexivity].
    - intros t'. destruct (F t') as (_&_&_&_&_&_&_&E8). rewrite E8. specialize (J14 t').
      destruct (va_scan (views a t')) as [ss|]; auto. destruct J14 as (X1 & X2). split; auto.
      apply scan_ok_recfield; auto.
  Qed.
End DetC.
