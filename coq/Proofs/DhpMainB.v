(** * DhpMainB: every client operation, whole threads, the initial configuration, and the C02 theorem for every
      schedule: [dhp_no_dispose_while_guarded_partial] (conditional on the two embedded free lists behaving,
      [flbad = false], which is property C21). *)
From Coq Require Import ZArith NArith List String Bool Lia PeanoNat.
From LV Require Import Base.Conc Base.Events Model.DhpLang Model.Dhp Proofs.DhpBase Proofs.DhpHist
  Proofs.DhpLangProofs Proofs.DhpInvA Proofs.DhpStepsA Proofs.DhpQuietA Proofs.DhpSlotA Proofs.DhpScanA Proofs.DhpScanC
  Proofs.DhpScanD Proofs.DhpScanE Proofs.DhpPresA Proofs.DhpAllocA Proofs.DhpAllocB Proofs.DhpViewA Proofs.DhpRulesA
  Proofs.DhpExtendA Proofs.DhpExtendB Proofs.DhpDetB Proofs.DhpDetC Proofs.DhpAttA Proofs.DhpHelpA Proofs.DhpDetachA
  Proofs.DhpAttachA Proofs.DhpMainA.
Import ListNotations.

Section MainB.
  Variable c : cfg.
  Notation dsafeA := (@dsafe G ev AuxA VA viewA (InvA c)).

  (** the client-side state [L] and the view agree *)
  Definition Rel (L : Dhp.L) (l : VA) : Prop := exists nd, l = mkVA (l_tls L) None None None nd None None None None.

  Definition Qop : option Dhp.L -> VA -> Prop := fun o l' => match o with Some L' => Rel L' l' | None => True end.

  Lemma qev_inv code args : Forall qev [EvCli "op" (zl (code :: args))].
  Proof. repeat constructor. Qed.
  Lemma qev_rsp v : Forall qev [EvCli "ret" [zn v]].
  Proof. repeat constructor. Qed.

  Lemma dsafe_inv {Y} t code args (q : P Y) l Q : dsafeA t q l Q -> dsafeA t (inv code args ;;; q) l Q.
  Proof. intros H. unfold inv, xbind, emit. cbn [dbind]. apply dsafe_emit_quiet; [apply qev_inv|exact H]. Qed.
  Lemma dsafe_rsp_ret t v L l : Rel L l -> dsafeA t (rsp v ;;; ret L) l Qop.
  Proof. intros H. unfold rsp, xbind, emit, ret. cbn [dbind]. apply dsafe_emit_quiet; [apply qev_rsp|exact H]. Qed.
  Lemma dsafe_skip_ret t L l : Rel L l -> dsafeA t (skip ;;; ret L) l Qop.
  Proof. intros H. unfold skip, xbind, emit, ret. cbn [dbind]. apply dsafe_emit_quiet; [repeat constructor|exact H]. Qed.

  Lemma neut_protect_loop r s k : forall fuel p, neutP c (protect_loop fuel r s k p).
  Proof.
    induction fuel as [|fuel IH]; intros p; cbn [protect_loop]; [apply quietP_neutP, quietP_fuel_out|].
    apply neutP_xbind; [apply neutP_st_slot|intros _].
    apply neutP_xbind; [apply quietP_neutP, quietP_act, q_faa_sync|intros _].
    apply neutP_xbind; [apply quietP_neutP, quietP_act, q_ld_src|intros v]. destruct (Nat.eqb v p); [exact I|apply IH].
  Qed.

  Lemma q_wait_loop k v : forall fuel, quietP (wait_loop fuel k v).
  Proof. induction fuel as [|fuel IH]; cbn [wait_loop]; qp. apply IH. Qed.

  Lemma Rel_att L r nd : l_tls L = Some r -> Rel L (att_view r nd).
  Proof. intros H. exists nd. unfold att_view. now rewrite H. Qed.

  Lemma spec_run_op t L l o : Rel L l -> dsafeA t (run_op c t L o) l Qop.
  Proof.
    intros (nd & ->). destruct o as [| |j|j|j p|j|j k|k p|p| |k v]; cbn [run_op].
    - (* attach *)
      apply dsafe_inv. destruct (l_tls L) as [r|] eqn:Et.
      + apply dsafe_skip_ret. exists nd; cbn; rewrite ?Et; reflexivity.
      + apply dsafe_xbind. eapply dsafe_weaken; [|apply (spec_alloc_thread_data c t nd)].
        intros [r|] l1 K; [|exact I]. destruct K as (nd1 & ->).
        unfold xbind at 1. unfold emit at 1. cbn [dbind].
        apply (dsafe_emit_J c t [ev_att r] _ (hold_view r nd1) (att_view r nd1)); [apply nodisp_one, nd_att| |].
        * intros g a tr Hv. exists (upd_aux a t (with_tls_hold (hold_view r nd1) (Some r) None) (bown a)).
          split; [apply frame_upd_aux|]. split; [unfold viewA; apply upd_aux_same|].
          intros _ J. cbn [Conc.tag map]. rewrite hist_snoc, hstep_att. eapply (JA_att c g a (hist tr) t (hold_view r nd1) r); eauto.
        * apply dsafe_rsp_ret. exists nd1. reflexivity.
    - (* detach *)
      apply dsafe_inv. destruct (l_tls L) as [r|] eqn:Et.
      + apply dsafe_xbind. eapply dsafe_weaken; [|apply (spec_free_thread_data c t r nd)].
        intros [x|] l1 K; [|exact I]. destruct K as (nd1 & ->). apply dsafe_rsp_ret. exists nd1. reflexivity.
      + apply dsafe_skip_ret. exists nd; cbn; rewrite ?Et; reflexivity.
    - (* Guard() *)
      apply dsafe_inv. destruct (l_tls L) as [r|] eqn:Et; [|apply dsafe_skip_ret; exists nd; cbn; rewrite ?Et; reflexivity].
      destruct (gfind (l_guards L) j); [apply dsafe_skip_ret; exists nd; cbn; rewrite ?Et; reflexivity|].
      apply dsafe_xbind. eapply dsafe_weaken; [|apply (spec_hp_galloc c t r (att_view r nd)); reflexivity].
      intros [s|] l1 K; [|exact I]. subst l1. destruct s as [s|].
      + unfold xbind at 1. unfold emit at 1. cbn [dbind]. apply dsafe_emit_quiet; [repeat constructor|].
        apply dsafe_rsp_ret. exists nd; cbn; rewrite ?Et; reflexivity.
      + unfold xbind, emit, ret. cbn [dbind]. apply dsafe_emit_quiet; [repeat constructor|]. exists nd; cbn; rewrite ?Et; reflexivity.
    - (* ~Guard() *)
      apply dsafe_inv. destruct (l_tls L) as [r|] eqn:Et; [|apply dsafe_skip_ret; exists nd; cbn; rewrite ?Et; reflexivity].
      destruct (gfind (l_guards L) j) as [s|]; [|apply dsafe_skip_ret; exists nd; cbn; rewrite ?Et; reflexivity].
      unfold xbind at 1. unfold emit at 1. cbn [dbind]. apply dsafe_emit_quiet; [repeat constructor|].
      apply dsafe_neut_seq; [apply neut_hp_gfree|exact I|intros _]. apply dsafe_rsp_ret. exists nd; cbn; rewrite ?Et; reflexivity.
    - (* assign *)
      apply dsafe_inv. destruct (l_tls L) as [r|] eqn:Et; [|apply dsafe_skip_ret; exists nd; cbn; rewrite ?Et; reflexivity].
      destruct (gfind (l_guards L) j) as [s|]; [|apply dsafe_skip_ret; exists nd; cbn; rewrite ?Et; reflexivity].
      apply dsafe_neut_seq; [apply neutP_st_slot|exact I|intros _].
      apply dsafe_neut_seq; [apply quietP_neutP, quietP_act, q_faa_sync|exact I|intros _]. apply dsafe_rsp_ret. exists nd; cbn; rewrite ?Et; reflexivity.
    - (* clear *)
      apply dsafe_inv. destruct (l_tls L) as [r|] eqn:Et; [|apply dsafe_skip_ret; exists nd; cbn; rewrite ?Et; reflexivity].
      destruct (gfind (l_guards L) j) as [s|]; [|apply dsafe_skip_ret; exists nd; cbn; rewrite ?Et; reflexivity].
      apply dsafe_neut_seq; [apply neutP_st_slot|exact I|intros _]. apply dsafe_rsp_ret. exists nd; cbn; rewrite ?Et; reflexivity.
    - (* protect *)
      apply dsafe_inv. destruct (l_tls L) as [r|] eqn:Et; [|apply dsafe_skip_ret; exists nd; cbn; rewrite ?Et; reflexivity].
      destruct (gfind (l_guards L) j) as [s|]; [|apply dsafe_skip_ret; exists nd; cbn; rewrite ?Et; reflexivity].
      apply dsafe_neut_seq; [apply quietP_neutP, quietP_act, q_ld_src|exact I|intros p0].
      apply dsafe_neut_seq; [apply neut_protect_loop|exact I|intros v]. apply dsafe_rsp_ret. exists nd; cbn; rewrite ?Et; reflexivity.
    - (* publish *)
      apply dsafe_inv. apply dsafe_neut_seq; [apply quietP_neutP, quietP_act, q_st_src|exact I|intros _].
      apply dsafe_rsp_ret. exists nd. reflexivity.
    - (* retire *)
      apply dsafe_inv. destruct (l_tls L) as [r|] eqn:Et; [|apply dsafe_skip_ret; exists nd; cbn; rewrite ?Et; reflexivity].
      unfold xbind at 1. unfold loc at 1. cbn [dbind].
      apply dsafe_loc_quiet'; [intros g; apply quietG_rt_push|]. intros g.
      apply dsafe_xbind.
      assert (Hx : dsafeA t (if snd (rt_push c r p g) then ret tt else Dhp.scan c r) (att_view r nd) (Qsame (att_view r nd))).
      { destruct (snd (rt_push c r p g)); [cbn; reflexivity|apply spec_scan; reflexivity]. }
      eapply dsafe_weaken; [|exact Hx]. intros [x|] l1 K; [|exact I]. cbn in K. subst l1.
      apply dsafe_rsp_ret. exists nd; cbn; rewrite ?Et; reflexivity.
    - (* scan *)
      apply dsafe_inv. destruct (l_tls L) as [r|] eqn:Et; [|apply dsafe_skip_ret; exists nd; cbn; rewrite ?Et; reflexivity].
      apply dsafe_xbind. eapply dsafe_weaken; [|apply (spec_scan c t r (att_view r nd)); reflexivity].
      intros [x|] l1 K; [|exact I]. cbn in K. subst l1. apply dsafe_rsp_ret. exists nd; cbn; rewrite ?Et; reflexivity.
    - (* wait *)
      apply dsafe_inv. apply dsafe_neut_seq; [apply quietP_neutP, q_wait_loop|exact I|intros _].
      apply dsafe_rsp_ret. exists nd. reflexivity.
  Qed.

  Lemma spec_run_ops t : forall os L l, Rel L l -> dsafeA t (run_ops c t L os) l (fun _ _ => True).
  Proof.
    induction os as [|o os IH]; intros L l HR; cbn [run_ops]; [exact I|].
    apply dsafe_xbind. eapply dsafe_weaken; [|apply (spec_run_op t L l o HR)].
    intros [L'|] l1 K; [|exact I]. now apply IH.
  Qed.

  Lemma spec_thread t os : dsafeA t (thread_src c t os) va0 (fun _ _ => True).
  Proof.
    unfold thread_src. apply dsafe_act_quiet; [apply q_begin|]. intros _.
    unfold to_unit. apply dsafe_bind. eapply dsafe_weaken; [|apply (spec_run_ops t os (mkL None []) va0)].
    - intros r l _. exact I.
    - exists None. reflexivity.
  Qed.
End MainB.
