(** * cds::sync::pool_monitor: the programs of LV.Model.PoolMon preserve the invariant of PoolMonBase
      (proof rule Conc.safe), and the theorems read off it: per-node mutual exclusion, no lock shared by two
      nodes, a lock is in the pool only when nobody holds or awaits it.  Every schedule, any number of
      threads and nodes, any pool capacity, any nesting. *)
From Coq Require Import ZArith List String Bool Lia PeanoNat.
From LV Require Import Base.Conc Base.Events Model.PoolMon.
From LV Require Import Proofs.PoolMonBase Proofs.PoolMonSteps Proofs.PoolMonStepsA Proofs.PoolMonStepsR Proofs.PoolMonStepsB Proofs.PoolMonStepsC.
Import ListNotations.
Local Open Scope string_scope.

Notation safe := (@Conc.safe G V ev Aux tv view Inv).

(** ** generic rules *)
(** a step after which the invariant holds with the thread's view changed to [v'] *)
Lemma safe_step {R} t (f : G -> G * V * list ev) (k : V -> prog R) v Q :
  (forall g vs rf tr, Inv g (vs, rf) tr -> vs t = v ->
     exists v' rf', Inv (fst (fst (f g))) (upd vs t v', rf') (tr ++ Conc.tag t (snd (f g))) /\
                    safe t (k (snd (fst (f g)))) v' Q) ->
  safe t (Act f k) v Q.
Proof.
  intros H. cbn [Conc.safe]. intros g [vs rf] tr Hi Hv. unfold view in Hv. cbn [fst] in Hv.
  destruct (H g vs rf tr Hi Hv) as (v' & rf' & Hi' & Hk).
  exists (upd vs t v', rf'). split; [exact Hi'|]. split; [apply frame_upd|].
  unfold view. cbn [fst]. rewrite upd_same. exact Hk.
Qed.

Lemma safe_emit_step {R} t es (k : prog R) v Q :
  (forall g vs rf tr, Inv g (vs, rf) tr -> vs t = v ->
     exists v' rf', Inv g (upd vs t v', rf') (tr ++ Conc.tag t es) /\ safe t k v' Q) ->
  safe t (Emit es k) v Q.
Proof.
  intros H. cbn [Conc.safe]. intros g [vs rf] tr Hi Hv. unfold view in Hv. cbn [fst] in Hv.
  destruct (H g vs rf tr Hi Hv) as (v' & rf' & Hi' & Hk).
  exists (upd vs t v', rf'). split; [exact Hi'|]. split; [apply frame_upd|].
  unfold view. cbn [fst]. rewrite upd_same. exact Hk.
Qed.

(** client markers other than enter / leave / pool_alloc / pool_free *)
Lemma safe_emit_quiet {R} t name args (k : prog R) v Q :
  String.eqb name "enter" = false -> String.eqb name "leave" = false ->
  String.eqb name "pool_alloc" = false -> String.eqb name "pool_free" = false ->
  safe t k v Q -> safe t (Emit [EvCli name args] k) v Q.
Proof.
  intros N1 N2 N3 N4 Hk. apply safe_emit_step. intros g vs rf tr Hi Hv.
  exists v, rf. split; [|exact Hk]. rewrite <- Hv.
  apply (step_same g g); [exact Hi|auto|auto|auto|auto|auto| | |].
  - intros n. now apply occ_cli_other.
  - intros x. now apply acnt_cli_other.
  - now apply disc_cli_other.
Qed.

(** an access to a word that is not a lock object and that leaves the state as it is; the continuation may
    use the invariant to know the value read *)
Lemma safe_read {R} t (f : G -> G * V * list ev) (k : V -> prog R) v Q :
  (forall g, fst (fst (f g)) = g /\ exists kd o ok, snd (f g) = [EvAcc kd o ok] /\ not_lock_obj o) ->
  (forall g vs rf tr, Inv g (vs, rf) tr -> vs t = v -> safe t (k (snd (fst (f g)))) v Q) ->
  safe t (Act f k) v Q.
Proof.
  intros Hf Hk. apply safe_step. intros g vs rf tr Hi Hv. exists v, rf.
  destruct (Hf g) as (E & kd & o & ok & Ees & Ho). rewrite E, Ees. split; [|eapply Hk; eauto].
  rewrite <- Hv. apply (step_same g g); [exact Hi|auto|auto|auto|auto|auto| | |].
  - intros n. apply occ_acc.
  - intros x. reflexivity.
  - now apply disc_acc_other.
Qed.

Lemma clr_even x : exists k, clr x = 2 * k.
Proof. unfold clr. eauto. Qed.

(** ** lock() *)
Definition Qcas_lock (n : nat) (s : list (nat * nat)) : option (nat * option nat) -> tv -> Prop :=
  fun r v => match r with
             | None => True
             | Some (c, Some x) => v = (LBitS n c x, s)
             | Some (c, None) => v = (LBitA n c, s)
             end.

Lemma safe_lock_cas fuel t n s : forall c, (exists k, c = 2 * k) ->
  safe t (lock_cas fuel n c) (Idle, s) (Qcas_lock n s).
Proof.
  induction fuel as [|f IH]; intros c [k Hc]; cbn [lock_cas]; [exact I|]. subst c.
  apply safe_step. intros g vs rf tr Hi Hv. unfold a_cas_lock.
  destruct (Nat.eqb_spec (refspin g n) (2 * k)) as [E|E]; cbn [fst snd].
  - exists (match plock g n with Some x => LBitS n (2 * k) x | None => LBitA n (2 * k) end, s), (updn rf n (t :: rf n)).
    split; [apply step_cas_lock; auto|]. cbn. destruct (plock g n); reflexivity.
  - exists (Idle, s), rf. split.
    + rewrite <- Hv. apply (step_same g g); [exact Hi|auto|auto|auto|auto|auto|intros; apply occ_acc|intros; reflexivity|apply disc_acc_other, nlo_ref].
    + apply IH. apply clr_even.
Qed.

Definition Qgot (n : nat) (s : list (nat * nat)) : bool -> tv -> Prop :=
  fun ok v => if ok then exists x, v = (LGot n x, s) else True.

Lemma lock_obj_allocated g vs rf tr t n x :
  Inv g (vs, rf) tr -> uses (vs t) n x -> ~ In x (pool g) /\ x < fresh g.
Proof.
  intros (_ & (P1 & _) & _ & (_ & L2 & _) & _) Hu. cbn [fst] in *. eapply L2. eapply P1. eauto.
Qed.

Lemma safe_slock_loops fuel : forall t n x s,
  safe t (slock_outer fuel x) (LWait n x, s) (Qgot n s) /\ safe t (slock_inner fuel x) (LWait n x, s) (Qgot n s).
Proof.
  induction fuel as [|f IH]; intros t n x s; split; cbn [slock_outer slock_inner]; try exact I.
  - apply safe_step. intros g vs rf tr Hi Hv. cbn [a_xchg fst snd vb].
    assert (Hu : uses (vs t) n x) by (rewrite Hv; right; cbn; now rewrite !Nat.eqb_refl).
    destruct (lspin g x) eqn:Hs.
    + exists (LWait n x, s), rf. split; [|apply IH].
      destruct (lock_obj_allocated g vs rf tr t n x Hi Hu) as [A B].
      rewrite <- Hv. apply (step_same g); [exact Hi|auto|auto| |auto|auto| | |].
      * intros x0. cbn. unfold updn. destruct (Nat.eqb_spec x0 x); [subst; auto|reflexivity].
      * intros; apply occ_acc.
      * intros; reflexivity.
      * destruct Hi as (_ & _ & _ & _ & _ & HD). eapply disc_lacc; eauto.
    + exists (LGot n x, s), rf. split; [apply step_xchg_ok; auto|]. cbn. eauto.
  - apply safe_step. intros g vs rf tr Hi Hv. cbn [a_ld_l fst snd vb].
    assert (Hu : uses (vs t) n x) by (rewrite Hv; right; cbn; now rewrite !Nat.eqb_refl).
    exists (LWait n x, s), rf. split; [|destruct (lspin g x); apply IH].
    destruct (lock_obj_allocated g vs rf tr t n x Hi Hu) as [A B].
    rewrite <- Hv. apply (step_same g); [exact Hi|auto|auto|auto|auto|auto| | |].
    + intros; apply occ_acc.
    + intros; reflexivity.
    + destruct Hi as (_ & _ & _ & _ & _ & HD). eapply disc_lacc; eauto.
Qed.

Lemma safe_st_then_slock fuel t n c x s :
  safe t (Act (a_st_ref n (c + 2)) (fun _ => slock_outer fuel x)) (LBitS n c x, s) (Qgot n s).
Proof.
  apply safe_step. intros g vs rf tr Hi Hv. cbn [a_st_ref fst snd].
  exists (LWait n x, s), rf. split; [apply step_st_lock; auto|apply safe_slock_loops].
Qed.

Lemma safe_mon_lock fuel t n s : safe t (mon_lock fuel n) (Idle, s) (Qgot n s).
Proof.
  unfold mon_lock. apply safe_read.
  - intros g. cbn. split; auto. do 3 eexists. split; [reflexivity|apply nlo_ref].
  - intros g vs rf tr _ _. cbn [a_ld_ref fst snd vn].
    apply Conc.safe_bind. eapply Conc.safe_weaken; [|apply safe_lock_cas, clr_even].
    intros [[c [x|]]|] v Hq; cbn in Hq; [subst v|subst v|exact I].
    + apply safe_st_then_slock.
    + apply safe_step. intros g1 vs1 rf1 tr1 Hi Hv. unfold a_alloc.
      destruct (pool g1) as [|x r] eqn:Ep; cbn [fst snd vn].
      * exists (LBitS n c (fresh g1), s), rf1. split; [|apply safe_st_then_slock].
        apply step_alloc; auto.
      * exists (LBitS n c x, s), rf1. split; [|apply safe_st_then_slock].
        apply step_alloc; auto.
Qed.

(** ** unlock() *)
Definition Qcas_unlock (n : nat) (s : list (nat * nat)) : option (nat * option nat) -> tv -> Prop :=
  fun r v => match r with
             | None => True
             | Some (c, o) => v = (UBit n c o, s)
             end.

Lemma safe_unlock_cas fuel t n s : forall c, (exists k, c = 2 * k) ->
  safe t (unlock_cas fuel n c) (URel n, s) (Qcas_unlock n s).
Proof.
  induction fuel as [|f IH]; intros c [k Hc]; cbn [unlock_cas]; [exact I|]. subst c.
  apply safe_step. intros g vs rf tr Hi Hv. unfold a_cas_unlock.
  destruct (Nat.eqb_spec (refspin g n) (2 * k)) as [E|E]; cbn [fst snd].
  - destruct (Nat.eqb_spec (2 * k) 2) as [E2|E2]; cbn [fst snd].
    + exists (UBit n 2 (plock g n), s), rf. rewrite E2 in *. split; [apply step_cas_unlock_take; auto|]. reflexivity.
    + exists (UBit n (2 * k) None, s), rf. split; [apply step_cas_unlock_keep; auto|]. cbn. reflexivity.
  - exists (URel n, s), rf. split.
    + rewrite <- Hv. apply (step_same g g); [exact Hi|auto|auto|auto|auto|auto|intros; apply occ_acc|intros; reflexivity|apply disc_acc_other, nlo_ref].
    + apply IH. apply clr_even.
Qed.

Definition Qdone (s : list (nat * nat)) : bool -> tv -> Prop :=
  fun ok v => if ok then v = (Idle, s) else True.

Lemma safe_mon_unlock fuel t n x s : safe t (mon_unlock fuel n (Some x)) (ULeft n x, s) (Qdone s).
Proof.
  cbn [mon_unlock]. apply safe_step. intros g vs rf tr Hi Hv. cbn [a_st_l fst snd].
  exists (URel n, s), rf. split; [apply step_st_l; auto|].
  apply safe_read.
  - intros g1. cbn. split; auto. do 3 eexists. split; [reflexivity|apply nlo_ref].
  - intros g1 vs1 rf1 tr1 _ _. cbn [a_ld_ref fst snd vn].
    apply Conc.safe_bind. eapply Conc.safe_weaken; [|apply safe_unlock_cas, clr_even].
    intros [[c o]|] v Hq; cbn in Hq.
    + subst v. apply safe_step. intros g2 vs2 rf2 tr2 Hi2 Hv2. cbn [a_st_ref fst snd].
      exists (match o with Some y => UDe y | None => Idle end, s), (updn rf2 n (rem1 t (rf2 n))).
      split; [apply step_st_unlock; auto|]. destruct o as [y|]; [|reflexivity].
      apply safe_step. intros g3 vs3 rf3 tr3 Hi3 Hv3. cbn [a_dealloc fst snd].
      exists (Idle, s), rf3. split; [apply step_dealloc; auto|reflexivity].
    + apply safe_emit_quiet; try reflexivity; try exact I.
Qed.

(** ** the nest of critical sections *)
Lemma safe_nest fuel t o : forall s, safe t (nest fuel o) (Idle, s) (Qdone s).
Proof.
  induction o as [|[k n] r IH]; intros s; cbn [nest]; [reflexivity|].
  apply safe_emit_quiet; try reflexivity.
  apply Conc.safe_bind. eapply Conc.safe_weaken; [|apply safe_mon_lock].
  intros [|] v Hq; cbn in Hq.
  - destruct Hq as [x ->].
    apply safe_emit_step. intros g vs rf tr Hi Hv. exists (Idle, (n, x) :: s), rf. split; [apply step_enter; auto|].
    apply Conc.safe_bind. eapply Conc.safe_weaken; [|apply IH].
    intros [|] v Hq; cbn in Hq; [subst v|exact I].
    apply safe_read.
    + intros g1. cbn. split; auto. do 3 eexists. split; [reflexivity|apply nlo_data].
    + intros g1 vs1 rf1 tr1 Hi1 Hv1. cbn [a_touch fst snd vp].
      assert (Hp : plock g1 n = Some x).
      { destruct Hi1 as (_ & (P1 & _) & _). cbn [fst] in P1. apply (P1 t). rewrite Hv1. left. now left. }
      rewrite Hp.
      apply safe_emit_step. intros g2 vs2 rf2 tr2 Hi2 Hv2. exists (ULeft n x, s), rf2. split; [apply step_leave; auto|].
      apply safe_mon_unlock.
  - apply safe_emit_quiet; try reflexivity; try exact I.
Qed.

Lemma safe_run_ops fuel t os : safe t (run_ops fuel os) (Idle, []) (@Conc.QTrue tv).
Proof.
  induction os as [|o r IH]; cbn [run_ops]; [exact I|].
  apply Conc.safe_bind. eapply Conc.safe_weaken; [|apply safe_nest].
  intros [|] v Hq; cbn in Hq; [subst v|exact I].
  apply safe_emit_quiet; try reflexivity. exact IH.
Qed.

Lemma safe_thread fuel t os : safe t (thread_prog fuel os) (Idle, []) (@Conc.QTrue tv).
Proof.
  unfold thread_prog. apply safe_read.
  - intros g. cbn. split; auto. do 3 eexists. split; [reflexivity|apply nlo_nil].
  - intros. apply safe_run_ops.
Qed.

Lemma init_ok cap fuel ths : Conc.cfg_ok view Inv (init_cfg cap fuel ths).
Proof.
  exists (fun _ => (Idle, []), fun _ => []). split.
  - cbn [init_cfg Conc.shared Conc.trace]. unfold Inv. cbn [fst snd]. inv6.
    + split; [|split; [|split]].
      * intros t n. reflexivity.
      * intros n. right. split; [intros t; reflexivity|reflexivity].
      * intros t t' n H. discriminate.
      * intros t. exact I.
    + split; [|split]; cbn.
      * intros t n x [[]|H]; discriminate.
      * intros t n c H. discriminate.
      * intros n n' x H. discriminate.
    + split; [|split; [|split]]; cbn; try (intros; lia); intros; discriminate.
    + split; [|split; [|split]]; cbn; try (intros; discriminate).
      split; [apply seq_NoDup|]. intros x H. apply in_seq in H. lia.
    + intros n. left. split; auto.
    + split; [exact I|]. intros x. cbn. split; [reflexivity|].
      intros Hn Hx. exfalso. apply Hn. apply in_seq. lia.
  - intros t p Hp. cbn [init_cfg Conc.threads] in Hp. rewrite nth_error_map in Hp.
    destruct (nth_error ths t); inversion Hp; subst. apply safe_thread.
Qed.

(** ** theorems *)

(** at most one thread inside the critical section of a node *)
Theorem poolmon_mutex cap fuel ths c :
  Conc.reach (init_cfg cap fuel ths) c -> forall n, (0 <= occ n (Conc.trace c) <= 1)%Z.
Proof.
  intros Hr n. destruct (Conc.reach_Inv (init_ok cap fuel ths) Hr) as (a & _ & _ & _ & _ & HO & _).
  destruct (HO n) as [[E _]|[E _]]; lia.
Qed.

(** no pool lock is installed in two nodes at once; an installed lock is not in the pool (so the pool cannot
    hand it to another node) and the pool holds no lock twice *)
Theorem poolmon_no_sharing cap fuel ths c :
  Conc.reach (init_cfg cap fuel ths) c ->
  (forall n n' x, plock (Conc.shared c) n = Some x -> plock (Conc.shared c) n' = Some x -> n = n') /\
  (forall n x, plock (Conc.shared c) n = Some x -> ~ In x (pool (Conc.shared c))) /\
  NoDup (pool (Conc.shared c)).
Proof.
  intros Hr. destruct (Conc.reach_Inv (init_ok cap fuel ths) Hr) as (a & _ & (_ & _ & P3) & _ & ((L1 & _) & L2 & _) & _).
  split; [exact P3|]. split; [|exact L1]. intros n x H. apply (L2 n x H).
Qed.

(** a node's lock goes back to the pool only when no thread holds or awaits it:
    - state: a lock that is in the pool is unlocked and installed in no node;
    - history: [disc]: every access (exchange / load / store) to the spin word of a pool lock happens while
      the lock is allocated, i.e. between its "pool_alloc" and its "pool_free"; a lock is freed only when
      allocated (no double free) and allocated only when free.  A thread that still held or awaited the lock
      after it was returned would access it while [acnt] = 0. *)
Theorem poolmon_lock_returned_only_when_unused cap fuel ths c :
  Conc.reach (init_cfg cap fuel ths) c ->
  (forall x, In x (pool (Conc.shared c)) ->
     lspin (Conc.shared c) x = false /\ forall n, plock (Conc.shared c) n <> Some x) /\
  disc (Conc.trace c) /\
  (forall x, (acnt x (Conc.trace c) = 1%Z <-> (~ In x (pool (Conc.shared c)) /\ x < fresh (Conc.shared c))) /\
             (acnt x (Conc.trace c) = 0%Z \/ acnt x (Conc.trace c) = 1%Z)).
Proof.
  intros Hr. destruct (Conc.reach_Inv (init_ok cap fuel ths) Hr) as (a & HR & HP & HM & HL & HO & HD).
  destruct HP as (P1 & _). destruct HM as (_ & _ & _ & M4). destruct HL as (_ & L2 & _). destruct HD as (D1 & D2).
  split; [|split; [exact D1|]].
  - intros x Hx. split.
    + destruct (lspin (Conc.shared c) x) eqn:Hs; [|reflexivity]. exfalso.
      destruct (M4 x Hs) as [t Ht]. destruct (hm_uses _ _ Ht) as [n Hu].
      destruct (L2 n x (P1 t n x Hu)) as [A _]. contradiction.
    + intros n Hn. destruct (L2 n x Hn) as [A _]. contradiction.
  - intros x. destruct (D2 x) as [Da Db].
    destruct (in_dec Nat.eq_dec x (pool (Conc.shared c))) as [Hi|Hn].
    + rewrite Da by auto. split; [|auto]. split; [discriminate|tauto].
    + destruct (lt_dec x (fresh (Conc.shared c))) as [Hf|Hf].
      * rewrite Db by auto. split; [|auto]. tauto.
      * rewrite Da by (right; lia). split; [|auto]. split; [discriminate|tauto].
Qed.
